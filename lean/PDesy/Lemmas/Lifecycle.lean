/-
  PDesy.Lemmas.Lifecycle — helper lemmas for C01 (dependencies, lifecycle) and C14
  (component state determined by its tasks): which phases touch `tstate` / `cstate`,
  monotonicity of the task lifecycle, preservation of `DepInv` and `CompInv`.
-/
import PDesy.Lemmas.Defs
import PDesy.Lemmas.Loop

namespace PDesy
namespace Lifecycle

/-! ### `Mono` is a preorder; persistence of FINISHED / started -/

theorem Mono.refl (ts : Nat → TS) : Mono ts ts := fun _ => Nat.le_refl _

theorem Mono.trans {a b c : Nat → TS} (h1 : Mono a b) (h2 : Mono b c) : Mono a c :=
  fun t => Nat.le_trans (h1 t) (h2 t)

theorem Mono.of_eq {a b : Nat → TS} (h : b = a) : Mono a b := h ▸ Mono.refl a

theorem rank_le_finished (s : TS) : s.rank ≤ 3 := by cases s <;> simp [TS.rank]

theorem Mono.finished {a b : Nat → TS} (h : Mono a b) {t : Nat} (hf : a t = .finished) :
    b t = .finished := by
  have := h t
  rw [hf] at this
  revert this
  cases b t <;> simp [TS.rank]

theorem Mono.started {a b : Nat → TS} (h : Mono a b) {t : Nat} (hf : (a t).started = true) :
    (b t).started = true := by
  have := h t
  revert this hf
  cases a t <;> cases b t <;> simp [TS.rank, TS.started]

theorem Mono.ne_none {a b : Nat → TS} (h : Mono a b) {t : Nat} (hf : a t ≠ .none) :
    b t ≠ .none := by
  have := h t
  revert this hf
  cases a t <;> cases b t <;> simp [TS.rank]

/-- pointwise update to a state of at least the same rank is monotone -/
theorem Mono.upd (ts : Nat → TS) (t : Nat) (v : TS) (h : (ts t).rank ≤ v.rank) :
    Mono ts (upd ts t v) := by
  intro j
  by_cases hj : j = t
  · subst hj; simpa using h
  · simp [hj]

/-! ### frame facts: phases that do not touch `tstate` / `cstate` -/

section frame
variable (m : Model)

@[simp] theorem compCheck_tstate (l : Live) : (compCheck m l).tstate = l.tstate := rfl

theorem removeOne_tstate (l : Live) (c : Nat) : (removeOne l c).tstate = l.tstate := by
  unfold removeOne; split <;> rfl

theorem removeOne_cstate (l : Live) (c : Nat) : (removeOne l c).cstate = l.cstate := by
  unfold removeOne; split <;> rfl

theorem foldl_removeOne_tstate (cs : List Nat) (l : Live) :
    (cs.foldl removeOne l).tstate = l.tstate := by
  induction cs generalizing l with
  | nil => rfl
  | cons c cs ih => simp [List.foldl_cons, ih, removeOne_tstate]

theorem foldl_removeOne_cstate (cs : List Nat) (l : Live) :
    (cs.foldl removeOne l).cstate = l.cstate := by
  induction cs generalizing l with
  | nil => rfl
  | cons c cs ih => simp [List.foldl_cons, ih, removeOne_cstate]

@[simp] theorem chkRemove_tstate (l : Live) : (chkRemove m l).tstate = l.tstate := by
  simp [chkRemove, chkRemoveOrd, foldl_removeOne_tstate]

@[simp] theorem chkRemove_cstate (l : Live) : (chkRemove m l).cstate = l.cstate := by
  simp [chkRemove, chkRemoveOrd, foldl_removeOne_cstate]

@[simp] theorem pert_tstate (time : Nat) (l : Live) : (pert m time l).tstate = l.tstate := rfl
@[simp] theorem pert_cstate (time : Nat) (l : Live) : (pert m time l).cstate = l.cstate := rfl

@[simp] theorem absenceSet_tstate (time : Nat) (w : Bool) (l : Live) :
    (absenceSet m time w l).tstate = l.tstate := rfl
@[simp] theorem absenceSet_cstate (time : Nat) (w : Bool) (l : Live) :
    (absenceSet m time w l).cstate = l.cstate := rfl

@[simp] theorem perform_tstate (w a : Bool) (l : Live) : (perform m w a l).tstate = l.tstate := rfl
@[simp] theorem perform_cstate (w a : Bool) (l : Live) : (perform m w a l).cstate = l.cstate := rfl

@[simp] theorem chkReady_cstate (l : Live) : (chkReady m l).cstate = l.cstate := rfl

end frame

/-! ### generic fold lemmas -/

/-- a fold whose step preserves a projection preserves it -/
theorem foldl_proj {α β γ : Type} (f : β → α → β) (proj : β → γ)
    (h : ∀ b a, proj (f b a) = proj b) (xs : List α) (b : β) :
    proj (xs.foldl f b) = proj b := by
  induction xs generalizing b with
  | nil => rfl
  | cons x xs ih => rw [List.foldl_cons, ih, h]

theorem foldl_proj_eq {α β γ : Type} (f : β → α → β) (proj : β → γ)
    (h : ∀ b a, proj (f b a) = proj b) (xs : List α) (b : β) (c : γ) (hb : proj b = c) :
    proj (xs.foldl f b) = c := by
  rw [foldl_proj f proj h]; exact hb

/-- a fold whose step preserves a relation to the start (reflexive, transitive) -/
theorem foldl_rel {α β : Type} (f : β → α → β) (R : β → β → Prop)
    (hrefl : ∀ b, R b b) (htrans : ∀ a b c, R a b → R b c → R a c)
    (h : ∀ b a, R b (f b a)) (xs : List α) (b : β) : R b (xs.foldl f b) := by
  induction xs generalizing b with
  | nil => exact hrefl b
  | cons x xs ih => rw [List.foldl_cons]; exact htrans _ _ _ (h b x) (ih _)

/-- a fold whose step preserves an invariant preserves it -/
theorem foldl_inv {α β : Type} (f : β → α → β) (P : β → Prop)
    (h : ∀ b a, P b → P (f b a)) (xs : List α) (b : β) (hb : P b) : P (xs.foldl f b) := by
  induction xs generalizing b with
  | nil => exact hb
  | cons x xs ih => rw [List.foldl_cons]; exact ih _ (h b x hb)

/-! ### check_state(FINISHED) -/

section finished
variable (m : Model)

theorem releaseW_tstate (t : Nat) (l : Live) (w : Nat) : (releaseW t l w).tstate = l.tstate := by
  unfold releaseW; split <;> rfl
theorem releaseW_cstate (t : Nat) (l : Live) (w : Nat) : (releaseW t l w).cstate = l.cstate := by
  unfold releaseW; split <;> rfl
theorem releaseF_tstate (t : Nat) (l : Live) (f : Nat) : (releaseF t l f).tstate = l.tstate := by
  unfold releaseF; split <;> rfl
theorem releaseF_cstate (t : Nat) (l : Live) (f : Nat) : (releaseF t l f).cstate = l.cstate := by
  unfold releaseF; split <;> rfl

/-- `finishOne` sets exactly task `t` to FINISHED -/
theorem finishOne_tstate (l : Live) (t : Nat) :
    (finishOne m l t).tstate = upd l.tstate t .finished := by
  unfold finishOne
  simp only
  split
  · simp only [foldl_proj _ Live.tstate (releaseF_tstate t), foldl_proj _ Live.tstate (releaseW_tstate t)]
  · simp only [foldl_proj _ Live.tstate (releaseW_tstate t)]

theorem finishOne_cstate (l : Live) (t : Nat) : (finishOne m l t).cstate = l.cstate := by
  unfold finishOne
  simp only
  split
  · simp only [foldl_proj _ Live.cstate (releaseF_cstate t), foldl_proj _ Live.cstate (releaseW_cstate t)]
  · simp only [foldl_proj _ Live.cstate (releaseW_cstate t)]

/-- the step function of `finishPass` -/
def finStep (m : Model) (acc : Live) (t : Nat) : Live :=
  if finishCand acc t && finishGate m acc.tstate t then finishOne m acc t else acc

theorem finishPass_eq (order : List Nat) (l : Live) :
    finishPass m order l = order.foldl (finStep m) l := rfl

theorem finStep_cstate (acc : Live) (t : Nat) : (finStep m acc t).cstate = acc.cstate := by
  unfold finStep; split
  · exact finishOne_cstate m acc t
  · rfl

theorem finStep_mono (acc : Live) (t : Nat) : Mono acc.tstate (finStep m acc t).tstate := by
  unfold finStep; split
  · rw [finishOne_tstate]; exact Mono.upd _ _ _ (rank_le_finished _)
  · exact Mono.refl _

theorem finishPass_cstate (order : List Nat) (l : Live) :
    (finishPass m order l).cstate = l.cstate :=
  foldl_proj _ Live.cstate (finStep_cstate m) order l

theorem finishPass_mono (order : List Nat) (l : Live) :
    Mono l.tstate (finishPass m order l).tstate :=
  foldl_rel (finStep m) (fun a b => Mono a.tstate b.tstate) (fun _ => Mono.refl _)
    (fun _ _ _ => Mono.trans) (finStep_mono m) order l

theorem finishClosure_cstate (order : List Nat) (fuel : Nat) (l : Live) :
    (finishClosure m order fuel l).cstate = l.cstate := by
  induction fuel generalizing l with
  | zero => rfl
  | succ n ih =>
    simp only [finishClosure]
    split
    · exact finishPass_cstate m order l
    · rw [ih, finishPass_cstate]

theorem finishClosure_mono (order : List Nat) (fuel : Nat) (l : Live) :
    Mono l.tstate (finishClosure m order fuel l).tstate := by
  induction fuel generalizing l with
  | zero => exact Mono.refl _
  | succ n ih =>
    simp only [finishClosure]
    split
    · exact finishPass_mono m order l
    · exact Mono.trans (finishPass_mono m order l) (ih _)

theorem chkFinished_tstate (l : Live) :
    (chkFinished m l).tstate = (finishClosure m (List.range m.nT) (m.nT + 1) l).tstate := by
  simp [chkFinished, chkFinishedOrd]

@[simp] theorem chkFinished_cstate (l : Live) : (chkFinished m l).cstate = l.cstate := by
  simp [chkFinished, chkFinishedOrd, finishClosure_cstate]

theorem chkFinished_mono (l : Live) : Mono l.tstate (chkFinished m l).tstate := by
  rw [chkFinished_tstate]; exact finishClosure_mono m _ _ l

end finished

/-! ### check_state(READY) -/

theorem chkReady_tstate (m : Model) (l : Live) (t : Nat) :
    (chkReady m l).tstate t =
      if t < m.nT && l.tstate t == .none && readyGate m l.tstate t then .ready else l.tstate t := by
  simp [chkReady]

theorem chkReady_mono (m : Model) (l : Live) : Mono l.tstate (chkReady m l).tstate := by
  intro t
  rw [chkReady_tstate]
  split
  · rename_i h
    simp only [Bool.and_eq_true, beq_iff_eq] at h
    rw [h.1.2]; simp [TS.rank]
  · exact Nat.le_refl _

/-! ### check_state(WORKING) -/

section working
variable (m : Model)

theorem startOne_tstate (l : Live) (t : Nat) :
    (startOne m l t).tstate = if l.tstate t = .ready then upd l.tstate t .working else l.tstate := by
  unfold startOne
  by_cases h1 : l.tstate t = .ready
  · simp only [h1, beq_self_eq_true, if_true]
    split
    · refine foldl_proj_eq _ Live.tstate ?_ _ _ _ ?_
      · intro _ _; rfl
      · refine foldl_proj_eq _ Live.tstate ?_ _ _ _ rfl
        intro _ _; rfl
    · refine foldl_proj_eq _ Live.tstate ?_ _ _ _ rfl
      intro _ _; rfl
  · have h1' : (l.tstate t == TS.ready) = false := by simpa using h1
    simp only [h1', if_neg h1, Bool.false_eq_true, if_false]
    split
    · refine foldl_proj_eq _ Live.tstate ?_ _ _ _ rfl
      intro a w
      split
      · refine foldl_proj_eq _ Live.tstate ?_ _ _ _ ?_
        · intro b f; split <;> rfl
        · split <;> rfl
      · split <;> rfl
    · rfl

theorem startOne_cstate (l : Live) (t : Nat) : (startOne m l t).cstate = l.cstate := by
  unfold startOne
  dsimp only
  split
  · split
    · refine foldl_proj_eq _ Live.cstate ?_ _ _ _ ?_
      · intro _ _; rfl
      · refine foldl_proj_eq _ Live.cstate ?_ _ _ _ rfl
        intro _ _; rfl
    · refine foldl_proj_eq _ Live.cstate ?_ _ _ _ rfl
      intro _ _; rfl
  · split
    · refine foldl_proj_eq _ Live.cstate ?_ _ _ _ rfl
      intro a w
      split
      · refine foldl_proj_eq _ Live.cstate ?_ _ _ _ ?_
        · intro b f; split <;> rfl
        · split <;> rfl
      · split <;> rfl
    · rfl

theorem startOne_mono (l : Live) (t : Nat) : Mono l.tstate (startOne m l t).tstate := by
  rw [startOne_tstate]
  split
  · rename_i h; exact Mono.upd _ _ _ (by rw [h]; simp [TS.rank])
  · exact Mono.refl _

theorem chkWorking_tstate (l : Live) :
    (chkWorking m l).tstate =
      (((List.range m.nT).filter (workingTarget m l)).foldl (startOne m) l).tstate := by
  simp [chkWorking, chkWorkingOrd]

@[simp] theorem chkWorking_cstate (l : Live) : (chkWorking m l).cstate = l.cstate := by
  simp [chkWorking, chkWorkingOrd, foldl_proj _ Live.cstate (startOne_cstate m)]

theorem chkWorking_mono (l : Live) : Mono l.tstate (chkWorking m l).tstate := by
  rw [chkWorking_tstate]
  exact foldl_rel (startOne m) (fun a b => Mono a.tstate b.tstate) (fun _ => Mono.refl _)
    (fun _ _ _ => Mono.trans) (startOne_mono m) _ l

end working

/-! ### allocate: neither task nor component states change -/

section alloc
variable (m : Model)

/-- task states and component states together (the part of the live state C01/C14 talk about) -/
def tc (l : Live) : (Nat → TS) × (Nat → CS) := (l.tstate, l.cstate)

theorem moveComp_tc (l : Live) (c p : Nat) : tc (moveComp l c p) = tc l := by
  unfold moveComp
  dsimp only
  split <;> split <;> rfl

theorem placeStep_tc (t : Nat) (l : Live) : tc (placeStep m t l) = tc l := by
  unfold placeStep
  split
  · rfl
  · split
    · dsimp only
      split
      · rfl
      · exact moveComp_tc _ _ _
    · rfl

theorem allocWorkers_tc (t : Nat) (a : Alloc) : tc (allocWorkers m t a).l = tc a.l := by
  unfold allocWorkers
  refine foldl_proj_eq _ (fun x : Alloc => tc x.l) ?_ _ _ _ rfl
  intro b w
  split <;> rfl

theorem allocPairs_tc (t : Nat) (a : Alloc) : tc (allocPairs m t a).l = tc a.l := by
  unfold allocPairs
  split
  · rfl
  · split
    · rfl
    · refine foldl_proj_eq _ (fun x : Alloc => tc x.l) ?_ _ _ _ rfl
      intro b f
      dsimp only
      split <;> rfl

theorem allocTask_tail_tc (t : Nat) (l0 : Live) (a1 : Alloc) (h : tc a1.l = tc l0) :
    tc (if (m.task t).isAuto then a1
        else if (m.task t).needFac then allocPairs m t a1 else allocWorkers m t a1).l = tc l0 := by
  split
  · exact h
  · split
    · rw [allocPairs_tc]; exact h
    · rw [allocWorkers_tc]; exact h

theorem allocTask_head_tc (t : Nat) (acc : Alloc) (b : Bool) (mv : List Nat) :
    tc (if b then acc else { acc with l := placeStep m t acc.l, moved := mv }).l = tc acc.l := by
  cases b
  · exact placeStep_tc m t acc.l
  · rfl

theorem allocTask_tc (acc : Alloc) (t : Nat) : tc (allocTask m acc t).l = tc acc.l := by
  unfold allocTask
  dsimp only
  apply allocTask_tail_tc
  exact allocTask_head_tc m t acc _ _

theorem allocate_tc (lg : Logs) (rule : TaskRule) (l : Live) : tc (allocate m lg rule l) = tc l := by
  unfold allocate
  dsimp only
  exact foldl_proj_eq _ (fun x : Alloc => tc x.l) (allocTask_tc m) _ _ _ rfl

@[simp] theorem allocate_tstate (lg : Logs) (rule : TaskRule) (l : Live) :
    (allocate m lg rule l).tstate = l.tstate := congrArg Prod.fst (allocate_tc m lg rule l)

@[simp] theorem allocate_cstate (lg : Logs) (rule : TaskRule) (l : Live) :
    (allocate m lg rule l).cstate = l.cstate := congrArg Prod.snd (allocate_tc m lg rule l)

end alloc

/-! ### the `__update` block and one loop step: task states -/

section blocks
variable (m : Model)

theorem update_tstate (time : Nat) (l : Live) :
    (update m time l).tstate =
      (chkReady m (chkRemove m (compCheck m (chkFinished m l)))).tstate := by
  simp [update]

theorem update_mono (time : Nat) (l : Live) : Mono l.tstate (update m time l).tstate := by
  rw [update_tstate]
  refine Mono.trans (chkFinished_mono m l) ?_
  have h := chkReady_mono m (chkRemove m (compCheck m (chkFinished m l)))
  simpa using h

theorem updated_mono (s : St) : Mono s.live.tstate (updated m s).live.tstate :=
  update_mono m s.time s.live

/-- the live state `check_state(WORKING)` acts on in `stepBody` -/
def preWorking (m : Model) (p : Params) (s : St) : Live :=
  if !(p.absence.contains s.time) then
    allocate m s.logs p.rule (absenceSet m s.time (!(p.absence.contains s.time)) s.live)
  else absenceSet m s.time (!(p.absence.contains s.time)) s.live

theorem preWorking_tstate (p : Params) (s : St) : (preWorking m p s).tstate = s.live.tstate := by
  unfold preWorking; split <;> simp

theorem preWorking_cstate (p : Params) (s : St) : (preWorking m p s).cstate = s.live.cstate := by
  unfold preWorking; split <;> simp

/-- `check_state(WORKING)` under the guard of `stepBody`: it runs on working steps and, with the
flag set, on project absence steps; otherwise nothing starts -/
def chkWorkingIf (b : Bool) (m : Model) (l : Live) : Live := if b then chkWorking m l else l

@[simp] theorem chkWorkingIf_true (l : Live) : chkWorkingIf true m l = chkWorking m l := rfl
@[simp] theorem chkWorkingIf_false (l : Live) : chkWorkingIf false m l = l := rfl

/-- the guard of `check_state(WORKING)` in `stepBody` (`= activeAt p s.time`) -/
def startGuard (p : Params) (s : St) : Bool := !(p.absence.contains s.time) || p.autoFlag

theorem startGuard_of_working (p : Params) (s : St) (h : p.absence.contains s.time = false) :
    startGuard p s = true := by unfold startGuard; rw [h]; rfl

theorem startGuard_of_flag (p : Params) (s : St) (h : p.autoFlag = true) :
    startGuard p s = true := by simp [startGuard, h]

theorem startGuard_false (p : Params) (s : St) (h : startGuard p s = false) :
    p.absence.contains s.time = true ∧ p.autoFlag = false := by
  simpa [startGuard] using h

theorem chkWorkingIf_mono (b : Bool) (l : Live) : Mono l.tstate (chkWorkingIf b m l).tstate := by
  cases b
  · exact Mono.refl _
  · exact chkWorking_mono m l

@[simp] theorem chkWorkingIf_cstate (b : Bool) (l : Live) :
    (chkWorkingIf b m l).cstate = l.cstate := by
  cases b
  · rfl
  · exact chkWorking_cstate m l

theorem stepBody_live (p : Params) (s : St) :
    (stepBody m p s).live =
      perform m (!(p.absence.contains s.time)) p.autoFlag
        (compCheck m (chkWorkingIf (startGuard p s) m (preWorking m p s))) := rfl

/-- on a working step, and on every step when the flag is set, `check_state(WORKING)` runs -/
theorem stepBody_live_active (p : Params) (s : St) (h : startGuard p s = true) :
    (stepBody m p s).live =
      perform m (!(p.absence.contains s.time)) p.autoFlag
        (compCheck m (chkWorking m (preWorking m p s))) := by
  rw [stepBody_live, h]; rfl

/-- at a project absence step with the flag off nothing starts -/
theorem stepBody_live_inactive (p : Params) (s : St) (h : startGuard p s = false) :
    (stepBody m p s).live =
      perform m (!(p.absence.contains s.time)) p.autoFlag (compCheck m (preWorking m p s)) := by
  rw [stepBody_live, h]; rfl

theorem stepBody_tstate (p : Params) (s : St) :
    (stepBody m p s).live.tstate =
      (chkWorkingIf (startGuard p s) m (preWorking m p s)).tstate := rfl

theorem stepBody_tstate_inactive (p : Params) (s : St) (h : startGuard p s = false) :
    (stepBody m p s).live.tstate = s.live.tstate := by
  rw [stepBody_tstate, h, chkWorkingIf_false, preWorking_tstate]

theorem stepBody_mono (p : Params) (s : St) : Mono s.live.tstate (stepBody m p s).live.tstate := by
  rw [stepBody_tstate]
  have h := chkWorkingIf_mono m (startGuard p s) (preWorking m p s)
  rwa [preWorking_tstate] at h

end blocks

/-! ### gates are monotone; `DepInv` step lemma -/

section dep
variable (m : Model)

theorem readyGate_iff (ts : Nat → TS) (t : Nat) :
    readyGate m ts t = true ↔ ∀ e ∈ (m.task t).inputs,
      (e.2 = .fs → ts e.1 = .finished) ∧ (e.2 = .ss → (ts e.1).started = true) := by
  unfold readyGate
  rw [List.all_eq_true]
  constructor
  · intro h e he
    have := h e he
    obtain ⟨p, d⟩ := e
    cases d <;> simp_all
  · intro h e he
    have := h e he
    obtain ⟨p, d⟩ := e
    cases d <;> simp_all

theorem finishGate_iff (ts : Nat → TS) (t : Nat) :
    finishGate m ts t = true ↔ ∀ e ∈ (m.task t).inputs,
      (e.2 = .ff → ts e.1 = .finished) ∧ (e.2 = .sf → (ts e.1).started = true) := by
  unfold finishGate
  rw [List.all_eq_true]
  constructor
  · intro h e he
    have := h e he
    obtain ⟨p, d⟩ := e
    cases d <;> simp_all
  · intro h e he
    have := h e he
    obtain ⟨p, d⟩ := e
    cases d <;> simp_all

theorem readyGate_mono {a b : Nat → TS} (h : Mono a b) (t : Nat) (hg : readyGate m a t = true) :
    readyGate m b t = true := by
  rw [readyGate_iff] at hg ⊢
  intro e he
  exact ⟨fun hd => Mono.finished h ((hg e he).1 hd), fun hd => Mono.started h ((hg e he).2 hd)⟩

theorem finishGate_mono {a b : Nat → TS} (h : Mono a b) (t : Nat) (hg : finishGate m a t = true) :
    finishGate m b t = true := by
  rw [finishGate_iff] at hg ⊢
  intro e he
  exact ⟨fun hd => Mono.finished h ((hg e he).1 hd), fun hd => Mono.started h ((hg e he).2 hd)⟩

/-- `DepInv` in terms of the two gates -/
theorem DepInv_iff (ts : Nat → TS) :
    DepInv m ts ↔ ∀ t, t < m.nT → ¬ exempt m t →
      (ts t ≠ .none → readyGate m ts t = true) ∧ (ts t = .finished → finishGate m ts t = true) := by
  unfold DepInv
  simp only [readyGate_iff, finishGate_iff]

/-- The shape of every phase: states move forward; a task leaves NONE only under its start
gate and becomes FINISHED only under its finish gate (gates read on any state the result
dominates).  Then `DepInv` is preserved. -/
theorem DepInv_step {ts ts' : Nat → TS} (h : DepInv m ts) (hm : Mono ts ts')
    (hr : ∀ t, t < m.nT → ts t = .none → ts' t ≠ .none → readyGate m ts' t = true)
    (hf : ∀ t, t < m.nT → ts t ≠ .finished → ts' t = .finished → finishGate m ts' t = true) :
    DepInv m ts' := by
  rw [DepInv_iff] at h ⊢
  intro t ht hex
  obtain ⟨h1, h2⟩ := h t ht hex
  constructor
  · intro hne
    by_cases h0 : ts t = .none
    · exact hr t ht h0 hne
    · exact readyGate_mono m hm t (h1 h0)
  · intro hfin
    by_cases h0 : ts t = .finished
    · exact finishGate_mono m hm t (h2 h0)
    · exact hf t ht h0 hfin

theorem DepInv_of_eq {ts ts' : Nat → TS} (h : DepInv m ts) (he : ts' = ts) : DepInv m ts' :=
  he ▸ h

/-- one `if finished:` body -/
theorem DepInv_finStep (acc : Live) (t : Nat) (h : DepInv m acc.tstate) :
    DepInv m (finStep m acc t).tstate := by
  by_cases hc : (finishCand acc t && finishGate m acc.tstate t) = true
  · have hmono := finStep_mono m acc t
    have heq : (finStep m acc t).tstate = upd acc.tstate t .finished := by
      unfold finStep; rw [if_pos hc]; exact finishOne_tstate m acc t
    simp only [Bool.and_eq_true, finishCand, beq_iff_eq] at hc
    obtain ⟨⟨hw, _⟩, hg⟩ := hc
    refine DepInv_step m h hmono ?_ ?_
    · intro t' _ h0 hne
      exfalso
      rw [heq, upd_apply] at hne
      split at hne
      · rename_i ht'; subst ht'; rw [hw] at h0; cases h0
      · exact hne h0
    · intro t' _ h0 hfin
      rw [heq, upd_apply] at hfin
      split at hfin
      · rename_i ht'; subst ht'; exact finishGate_mono m hmono _ hg
      · exact absurd hfin h0
  · have : finStep m acc t = acc := by unfold finStep; rw [if_neg hc]
    rw [this]; exact h

theorem DepInv_finishPass (order : List Nat) (l : Live) (h : DepInv m l.tstate) :
    DepInv m (finishPass m order l).tstate :=
  foldl_inv (finStep m) (fun a => DepInv m a.tstate) (fun b a hb => DepInv_finStep m b a hb) order l h

theorem DepInv_finishClosure (order : List Nat) (fuel : Nat) (l : Live) (h : DepInv m l.tstate) :
    DepInv m (finishClosure m order fuel l).tstate := by
  induction fuel generalizing l with
  | zero => exact h
  | succ n ih =>
    simp only [finishClosure]
    split
    · exact DepInv_finishPass m order l h
    · exact ih _ (DepInv_finishPass m order l h)

theorem DepInv_chkFinished (l : Live) (h : DepInv m l.tstate) : DepInv m (chkFinished m l).tstate := by
  rw [chkFinished_tstate]; exact DepInv_finishClosure m _ _ l h

theorem DepInv_chkReady (l : Live) (h : DepInv m l.tstate) : DepInv m (chkReady m l).tstate := by
  have hmono := chkReady_mono m l
  refine DepInv_step m h hmono ?_ ?_
  · intro t _ h0 hne
    rw [chkReady_tstate] at hne
    split at hne
    · rename_i hc
      simp only [Bool.and_eq_true] at hc
      exact readyGate_mono m hmono t hc.2
    · exact absurd h0 hne
  · intro t _ h0 hfin
    rw [chkReady_tstate] at hfin
    split at hfin
    · cases hfin
    · exact absurd hfin h0

theorem DepInv_startOne (l : Live) (t : Nat) (h : DepInv m l.tstate) :
    DepInv m (startOne m l t).tstate := by
  have hmono := startOne_mono m l t
  have heq := startOne_tstate m l t
  by_cases hr : l.tstate t = .ready
  · rw [if_pos hr] at heq
    refine DepInv_step m h hmono ?_ ?_
    · intro t' _ h0 hne
      exfalso
      rw [heq, upd_apply] at hne
      split at hne
      · rename_i ht'; subst ht'; rw [hr] at h0; cases h0
      · exact hne h0
    · intro t' _ h0 hfin
      exfalso
      rw [heq, upd_apply] at hfin
      split at hfin
      · cases hfin
      · exact h0 hfin
  · rw [if_neg hr] at heq
    rw [heq]; exact h

theorem DepInv_chkWorking (l : Live) (h : DepInv m l.tstate) : DepInv m (chkWorking m l).tstate := by
  rw [chkWorking_tstate]
  exact foldl_inv (startOne m) (fun a => DepInv m a.tstate) (fun b a hb => DepInv_startOne m b a hb) _ l h

theorem DepInv_update (time : Nat) (l : Live) (h : DepInv m l.tstate) :
    DepInv m (update m time l).tstate := by
  rw [update_tstate]
  apply DepInv_chkReady
  simpa using DepInv_chkFinished m l h

theorem DepInv_updated (s : St) (h : DepInv m s.live.tstate) : DepInv m (updated m s).live.tstate :=
  DepInv_update m s.time s.live h

theorem DepInv_stepBody (p : Params) (s : St) (h : DepInv m s.live.tstate) :
    DepInv m (stepBody m p s).live.tstate := by
  rw [stepBody_tstate]
  cases startGuard p s
  · rw [chkWorkingIf_false, preWorking_tstate]; exact h
  · apply DepInv_chkWorking
    rw [preWorking_tstate]; exact h

end dep

/-! ### product.check_state and `CompInv` -/

section comp
variable (m : Model)

theorem compNext_fin (l : Live) (c : Nat)
    (hF : ∀ t ∈ (m.comp c).tasks, l.tstate t = .finished) : compNext m l c = .finished := by
  unfold compNext
  have : ((m.comp c).tasks.map l.tstate).all (· == .finished) = true := by
    simpa [List.all_eq_true] using hF
  simp only [this, if_true]

theorem compNext_notfin (l : Live) (c : Nat)
    (hF : ¬ ∀ t ∈ (m.comp c).tasks, l.tstate t = .finished) :
    compNext m l c =
      if (∃ t ∈ (m.comp c).tasks, l.tstate t = .working) then .working
      else if (∃ t ∈ (m.comp c).tasks, l.tstate t = .ready) then .ready else l.cstate c := by
  unfold compNext
  have h1 : ((m.comp c).tasks.map l.tstate).all (· == .finished) = false := by
    rw [Bool.eq_false_iff]; intro h; apply hF; simpa [List.all_eq_true] using h
  simp only [h1]
  by_cases hW : ∃ t ∈ (m.comp c).tasks, l.tstate t = .working
  · have : ((m.comp c).tasks.map l.tstate).any (· == .working) = true := by
      simpa [List.any_eq_true] using hW
    simp [this, hW]
  · have h2 : ((m.comp c).tasks.map l.tstate).any (· == .working) = false := by
      rw [Bool.eq_false_iff]; intro h; apply hW; simpa [List.any_eq_true] using h
    rw [if_neg hW]
    by_cases hR : ∃ t ∈ (m.comp c).tasks, l.tstate t = .ready
    · have h3 : ((m.comp c).tasks.map l.tstate).any (· == .ready) = true := by
        simpa [List.any_eq_true] using hR
      have h4 : ((m.comp c).tasks.map l.tstate).all (· == .working) = false := by
        rw [Bool.eq_false_iff]; intro h
        obtain ⟨t, ht, hr⟩ := hR
        have := (List.all_eq_true.mp h) (l.tstate t) (List.mem_map_of_mem ht)
        simp [hr] at this
      simp [h2, h3, h4, hR]
    · have h3 : ((m.comp c).tasks.map l.tstate).any (· == .ready) = false := by
        rw [Bool.eq_false_iff]; intro h; apply hR; simpa [List.any_eq_true] using h
      simp [h2, h3, hR]


theorem compCheck_cstate (l : Live) (c : Nat) :
    (compCheck m l).cstate c = if c < m.nC then compNext m l c else l.cstate c := by
  simp [compCheck]

/-- the part of `CompInv` that survives a monotone change of task states -/
def CompWeak (m : Model) (l : Live) : Prop :=
  ∀ c, c < m.nC → l.cstate c = .finished → ∀ t ∈ (m.comp c).tasks, l.tstate t = .finished

theorem CompInv.weak {l : Live} (h : CompInv m l) : CompWeak m l :=
  fun c hc hf => (h c hc).1.mp hf

theorem CompWeak_mono {l0 l : Live} (h : CompWeak m l0) (hm : Mono l0.tstate l.tstate)
    (hc : l.cstate = l0.cstate) : CompWeak m l := by
  intro c hlt hf t ht
  rw [hc] at hf
  exact Mono.finished hm (h c hlt hf t ht)

theorem CompInv_compCheck_of_weak (l : Live) (h : CompWeak m l) : CompInv m (compCheck m l) := by
  intro c hc
  rw [compCheck_cstate, if_pos hc, compCheck_tstate]
  by_cases hF : ∀ t ∈ (m.comp c).tasks, l.tstate t = .finished
  · rw [compNext_fin m l c hF]
    refine ⟨⟨fun _ => hF, fun _ => rfl⟩, ?_, ?_⟩
    · rintro ⟨t, ht, hw⟩; rw [hF t ht] at hw; cases hw
    · intro _ hn; cases hn
  · rw [compNext_notfin m l c hF]
    refine ⟨⟨?_, fun h' => absurd h' hF⟩, ?_, ?_⟩
    · intro hfin
      split at hfin
      · cases hfin
      · split at hfin
        · cases hfin
        · exact h c hc hfin
    · intro hW; rw [if_pos hW]
    · rintro ⟨t, ht, hrw⟩
      split
      · intro hn; cases hn
      · rename_i hW
        rcases hrw with hr | hw
        · rw [if_pos ⟨t, ht, hr⟩]; intro hn; cases hn
        · exact absurd ⟨t, ht, hw⟩ hW

/-- `compCheck` re-establishes `CompInv` after any monotone change of the task states -/
theorem CompInv_compCheck {l0 l : Live} (h : CompInv m l0) (hm : Mono l0.tstate l.tstate)
    (hc : l.cstate = l0.cstate) : CompInv m (compCheck m l) :=
  CompInv_compCheck_of_weak m l (CompWeak_mono m (CompInv.weak m h) hm hc)

theorem CompInv_initComps (l : Live) : CompInv m (initComps m l) := by
  unfold initComps
  apply CompInv_compCheck_of_weak
  intro c hc hf
  simp [hc] at hf

theorem CompInv_of_eq {l l' : Live} (h : CompInv m l) (ht : l'.tstate = l.tstate)
    (hc : l'.cstate = l.cstate) : CompInv m l' := by
  unfold CompInv at h ⊢
  rw [ht, hc]; exact h

theorem compNext_ne_none (l : Live) (c : Nat) (h : l.cstate c ≠ .none) : compNext m l c ≠ .none := by
  by_cases hF : ∀ t ∈ (m.comp c).tasks, l.tstate t = .finished
  · rw [compNext_fin m l c hF]; intro hn; cases hn
  · rw [compNext_notfin m l c hF]
    split
    · intro hn; cases hn
    · split
      · intro hn; cases hn
      · exact h

theorem compCheck_ne_none (l : Live) (c : Nat) (h : l.cstate c ≠ .none) :
    (compCheck m l).cstate c ≠ .none := by
  rw [compCheck_cstate]
  split
  · exact compNext_ne_none m l c h
  · exact h

theorem CompInv_update (time : Nat) (l : Live) (h : CompInv m l) : CompInv m (update m time l) := by
  unfold update
  have h1 : CompInv m (compCheck m (chkFinished m l)) :=
    CompInv_compCheck m h (chkFinished_mono m l) (chkFinished_cstate m l)
  have h2 : CompInv m (compCheck m (chkReady m (chkRemove m (compCheck m (chkFinished m l))))) := by
    refine CompInv_compCheck m h1 ?_ ?_
    · have := chkReady_mono m (chkRemove m (compCheck m (chkFinished m l)))
      simpa using this
    · simp
  exact CompInv_of_eq m h2 rfl rfl

theorem CompInv_stepBody (p : Params) (s : St) (h : CompInv m s.live) :
    CompInv m (stepBody m p s).live := by
  rw [stepBody_live]
  have h1 : CompInv m (preWorking m p s) :=
    CompInv_of_eq m h (preWorking_tstate m p s) (preWorking_cstate m p s)
  have h2 : CompInv m (compCheck m (chkWorkingIf (startGuard p s) m (preWorking m p s))) :=
    CompInv_compCheck m h1 (chkWorkingIf_mono m _ _) (chkWorkingIf_cstate m _ _)
  exact CompInv_of_eq m h2 rfl rfl

/-- component states never go back to NONE -/
def CNoBack (a b : Nat → CS) : Prop := ∀ c, a c ≠ .none → b c ≠ .none

theorem update_noBack (time : Nat) (l : Live) : CNoBack l.cstate (update m time l).cstate := by
  intro c h
  unfold update
  rw [pert_cstate]
  apply compCheck_ne_none
  rw [chkReady_cstate, chkRemove_cstate]
  apply compCheck_ne_none
  rw [chkFinished_cstate]; exact h

theorem stepBody_noBack (p : Params) (s : St) :
    CNoBack s.live.cstate (stepBody m p s).live.cstate := by
  intro c h
  rw [stepBody_live, perform_cstate]
  apply compCheck_ne_none
  rw [chkWorkingIf_cstate, preWorking_cstate]; exact h


end comp

/-! ### initialize -/

section init
variable (m : Model)

theorem initProject_live (logInfo : Bool) (s : St) :
    (initProject m true logInfo s).live =
      initComps m (chkReady m (pert m 0 { initLive m logInfo s.live with cpl := 0 })) := by
  unfold initProject
  cases logInfo <;> rfl

theorem enter_live (p : Params) (s : St) :
    (enter m p s).live = (initProject m p.initState p.initLog s).live := rfl

theorem initLive_tstate (both : Bool) (l : Live) (t : Nat) :
    (initLive m both l).tstate t =
      (if both && decide ((m.task t).prog ≥ 1) then TS.finished else TS.none) := by
  simp [initLive]

theorem initLive_none (both : Bool) (l : Live) (t : Nat) (_ht : t < m.nT) (hex : ¬ exempt m t) :
    (initLive m both l).tstate t = .none := by
  rw [initLive_tstate]
  unfold exempt at hex
  simp [hex]

theorem DepInv_initLive (both : Bool) (l : Live) : DepInv m (initLive m both l).tstate := by
  intro t ht hex
  rw [initLive_none m both l t ht hex]
  exact ⟨fun h => absurd rfl h, fun h => by cases h⟩

theorem initProject_tstate (logInfo : Bool) (s : St) :
    (initProject m true logInfo s).live.tstate =
      (chkReady m (pert m 0 { initLive m logInfo s.live with cpl := 0 })).tstate := by
  rw [initProject_live]; rfl

theorem DepInv_initProject (logInfo : Bool) (s : St) :
    DepInv m (initProject m true logInfo s).live.tstate := by
  rw [initProject_tstate]
  apply DepInv_chkReady
  exact DepInv_initLive m logInfo s.live

/-- after `initialize(state_info=True)` every non-exempt task is NONE, or READY with its
start gate open -/
theorem initProject_shape (logInfo : Bool) (s : St) (t : Nat) (ht : t < m.nT) (hex : ¬ exempt m t) :
    (initProject m true logInfo s).live.tstate t = .none ∨
    ((initProject m true logInfo s).live.tstate t = .ready ∧
      readyGate m (initProject m true logInfo s).live.tstate t = true) := by
  have hd := (DepInv_iff m _).mp (DepInv_initProject m logInfo s) t ht hex
  revert hd
  rw [initProject_tstate]
  generalize hl : ({ initLive m logInfo s.live with cpl := 0 } : Live) = l0
  have h0 : (pert m 0 l0).tstate t = .none := by
    rw [pert_tstate, ← hl]; exact initLive_none m logInfo s.live t ht hex
  intro hd
  have hv := chkReady_tstate m (pert m 0 l0) t
  split at hv
  · right; exact ⟨hv, hd.1 (by rw [hv]; intro h; cases h)⟩
  · left; rw [hv, h0]

/-- tasks whose default progress is complete are FINISHED from the start when the logs
are initialised too (`both`), which is why they are exempt -/
theorem initProject_exempt (s : St) (t : Nat) (ht : t < m.nT) (hex : exempt m t) :
    (initProject m true true s).live.tstate t = .finished := by
  rw [initProject_tstate, chkReady_tstate]
  have h0 : (pert m 0 { initLive m true s.live with cpl := 0 }).tstate t = .finished := by
    rw [pert_tstate]
    show (initLive m true s.live).tstate t = .finished
    rw [initLive_tstate]
    unfold exempt at hex
    simp [hex]
  rw [h0]; simp

theorem CompInv_initProject (logInfo : Bool) (s : St) :
    CompInv m (initProject m true logInfo s).live := by
  rw [initProject_live]; exact CompInv_initComps m _

end init

/-! ### what `record` shows -/

/-- "started" as it can be read off a logged state: WORKING or FINISHED, or READY on an
absence step (where `record` shows every WORKING task as READY) -/
def shownStarted (working : Bool) (x : TS) : Prop :=
  x = .working ∨ x = .finished ∨ (working = false ∧ x = .ready)

theorem showT_finished_iff (w : Bool) (s : TS) : showT w s = .finished ↔ s = .finished := by
  cases w <;> cases s <;> simp [showT]

theorem showT_none_iff (w : Bool) (s : TS) : showT w s = .none ↔ s = .none := by
  cases w <;> cases s <;> simp [showT]

theorem showT_working (s : TS) : showT true s = s := by simp [showT]

/-- `showT` changes a state only by showing WORKING as READY, and only on an absence step -/
theorem showT_ne (w : Bool) (s : TS) (h : showT w s ≠ s) :
    w = false ∧ s = .working ∧ showT w s = .ready := by
  cases w <;> cases s <;> simp_all [showT]

theorem showT_started (w : Bool) (s : TS) (h : s.started = true) : shownStarted w (showT w s) := by
  cases w <;> cases s <;> simp_all [showT, shownStarted, TS.started]

/-- the row appended to the task-state log -/
theorem record_tState (m : Model) (w : Bool) (l : Live) (lg : Logs) (t : Nat) (ht : t < m.nT) :
    (record m w l lg).tState t = lg.tState t ++ [showT w (l.tstate t)] := by
  simp [record, ht]

/-- `DepInv` read through `showT` -/
theorem DepInv_shown (m : Model) (w : Bool) (ts : Nat → TS) (h : DepInv m ts) :
    ∀ t, t < m.nT → ¬ exempt m t →
      (showT w (ts t) ≠ .none → ∀ e ∈ (m.task t).inputs,
          (e.2 = .fs → showT w (ts e.1) = .finished) ∧
          (e.2 = .ss → shownStarted w (showT w (ts e.1)))) ∧
      (showT w (ts t) = .finished → ∀ e ∈ (m.task t).inputs,
          (e.2 = .ff → showT w (ts e.1) = .finished) ∧
          (e.2 = .sf → shownStarted w (showT w (ts e.1)))) := by
  intro t ht hex
  obtain ⟨h1, h2⟩ := h t ht hex
  constructor
  · intro hne e he
    have hne' : ts t ≠ .none := fun h0 => hne ((showT_none_iff w _).mpr h0)
    exact ⟨fun hd => (showT_finished_iff w _).mpr ((h1 hne' e he).1 hd),
           fun hd => showT_started w _ ((h1 hne' e he).2 hd)⟩
  · intro hf e he
    have hf' : ts t = .finished := (showT_finished_iff w _).mp hf
    exact ⟨fun hd => (showT_finished_iff w _).mpr ((h2 hf' e he).1 hd),
           fun hd => showT_started w _ ((h2 hf' e he).2 hd)⟩

/-! ### relations along the trace -/

/-- A transitive relation that holds across `updated` and across `stepBody` (under an
invariant of both) holds between any earlier and any later state of `s :: trace`. -/
theorem trace_pairwise (m : Model) (p : Params) (R : St → St → Prop) (Inv : St → Prop)
    (htrans : ∀ a b c, R a b → R b c → R a c)
    (hupd : ∀ s, Inv s → Inv (updated m s) ∧ R s (updated m s))
    (hstep : ∀ s, Inv s → Inv (stepBody m p s) ∧ R s (stepBody m p s)) :
    ∀ fuel s, Inv s → List.Pairwise R (s :: trace m p fuel s) := by
  intro fuel
  induction fuel with
  | zero => intro s _; simp [trace]
  | succ n ih =>
    intro s hs
    simp only [trace]
    split
    · simp
    · obtain ⟨hi1, hr1⟩ := hupd s hs
      obtain ⟨hi2, hr2⟩ := hstep _ hi1
      have hr : R s (stepBody m p (updated m s)) := htrans _ _ _ hr1 hr2
      have ih' := ih _ hi2
      rw [List.pairwise_cons] at ih' ⊢
      refine ⟨?_, List.pairwise_cons.mpr ih'⟩
      intro b hb
      rcases List.mem_cons.mp hb with hb | hb
      · rw [hb]; exact hr
      · exact htrans _ _ _ hr (ih'.1 b hb)

/-- every `ticked` state is the result of a `stepBody` -/
theorem trace_mem_stepBody (m : Model) (p : Params) :
    ∀ fuel s, ∀ s' ∈ trace m p fuel s, ∃ s1, s' = stepBody m p s1 := by
  intro fuel
  induction fuel with
  | zero => intro s s' h; simp [trace] at h
  | succ n ih =>
    intro s s' h
    simp only [trace] at h
    split at h
    · simp at h
    · rcases List.mem_cons.mp h with h | h
      · exact ⟨_, h⟩
      · exact ih _ _ h

/-- the dependency clauses as they can be read off one logged row `row` of task states
(`working` = the step was a working step) -/
def ShownDep (m : Model) (working : Bool) (row : Nat → TS) : Prop :=
  ∀ t, t < m.nT → ¬ exempt m t →
    (row t ≠ .none → ∀ e ∈ (m.task t).inputs,
        (e.2 = .fs → row e.1 = .finished) ∧ (e.2 = .ss → shownStarted working (row e.1))) ∧
    (row t = .finished → ∀ e ∈ (m.task t).inputs,
        (e.2 = .ff → row e.1 = .finished) ∧ (e.2 = .sf → shownStarted working (row e.1)))

theorem ShownDep_of_DepInv (m : Model) (w : Bool) (ts : Nat → TS) (h : DepInv m ts) :
    ShownDep m w (fun t => showT w (ts t)) := DepInv_shown m w ts h

/-- the task-state row logged by a step is the shown live state at the end of that step -/
theorem stepBody_tState (m : Model) (p : Params) (s : St) (t : Nat) (ht : t < m.nT) :
    ((stepBody m p s).logs.tState t).getLast? =
      some (showT (workingAt p ((stepBody m p s).time - 1)) ((stepBody m p s).live.tstate t)) := by
  have htime : (stepBody m p s).time - 1 = s.time := by simp [stepBody]
  rw [htime]
  have : (stepBody m p s).logs.tState t =
      (cost m (workingAt p s.time)
        (compCheck m (chkWorkingIf (startGuard p s) m (preWorking m p s))) s.logs).tState t ++
        [showT (workingAt p s.time) ((stepBody m p s).live.tstate t)] :=
    record_tState m _ _ _ t ht
  rw [this]; simp

/-- a FINISHED component stays FINISHED between two states that both satisfy `CompInv` and
whose task states are ordered -/
theorem CompInv_fin_absorb (m : Model) {a b : Live} (ha : CompInv m a) (hb : CompInv m b)
    (hm : Mono a.tstate b.tstate) (c : Nat) (hc : c < m.nC) (hf : a.cstate c = .finished) :
    b.cstate c = .finished :=
  (hb c hc).1.mpr fun t ht => Mono.finished hm ((ha c hc).1.mp hf t ht)

/-! ### a small concrete model for the `example`s of the property files -/

/-- three tasks: `1` after `0` finish-to-start, `2` after `0` start-to-start and after `1`
finish-to-finish; `3` is complete by default (exempt) and is a start-to-finish predecessor of
`2`.  One team with one worker who can do everything; one component made of tasks 0, 1, 2 and
one component without tasks. -/
def exM : Model where
  nT := 4
  nW := 1
  nF := 0
  nTeam := 1
  nWp := 0
  nC := 2
  task := fun t =>
    match t with
    | 0 => { name := 0, work := 2, outputs := [(1, .fs), (2, .ss)], comp := some 0 }
    | 1 => { name := 1, work := 1, inputs := [(0, .fs)], outputs := [(2, .ff)], comp := some 0 }
    | 2 => { name := 2, work := 1, inputs := [(0, .ss), (1, .ff), (3, .sf)], comp := some 0 }
    | _ => { name := 3, work := 1, prog := 1, outputs := [(2, .sf)] }
  worker := fun _ => { team := 0, skills := [(0, 1), (1, 1), (2, 1), (3, 1)] }
  fac := fun _ => {}
  team := fun _ => { workers := [0], targets := [0, 1, 2, 3] }
  wp := fun _ => {}
  comp := fun c => match c with | 0 => { tasks := [0, 1, 2] } | _ => {}

/-- a mid-run task-state vector: 0 FINISHED, 1 WORKING, 2 READY, 3 (exempt) FINISHED -/
def exTs : Nat → TS := fun t =>
  match t with
  | 0 => .finished | 1 => .working | 2 => .ready | _ => .finished

/-- a mid-run state: component 0 WORKING, the empty component 1 FINISHED -/
def exSt : St :=
  { St.fresh with live := { Live.empty with tstate := exTs,
                                            cstate := fun c => if c = 0 then .working else .finished } }

end Lifecycle
end PDesy
