/-
  PDesy.Lemmas.Pert — PERT/CPM (`update_PERT_data`): specification and correctness of the
  wave-front relaxation.

  * list folds, pigeonhole, abstract DAGs (`DAG`), longest-path functions (`exists_lp`),
    depth (`IsDepth`, `exists_depth`);
  * `gRelax`/`gWave`/`gLoop`: the wave loop on an abstract network, parametric in the store
    test `fire`; `gLoop_correct`: it computes the longest-path function;
  * `AEqs`: the PERT/CPM equations on an abstract network; uniqueness, slack, critical tasks;
  * `FSOnly`, `GraphOK`, `Acyclic`, `PertEqs`: the same for the model; `fwdLoop`/`bwdLoop` are
    instances of `gLoop` (`fwdLoop_sim`, `bwdLoop_sim`, the backward one on negated values);
  * `pert_AEqs`: the output of `pert` solves the equations.
-/
import PDesy.Model.Phases
namespace PDesy.PertSpec
open PDesy

theorem foldl_max_le_iff (l : List Rat) (a c : Rat) :
    l.foldl max a ≤ c ↔ a ≤ c ∧ ∀ y ∈ l, y ≤ c := by
  induction l generalizing a with
  | nil => simp
  | cons x xs ih =>
    simp only [List.foldl_cons, ih, List.mem_cons, forall_eq_or_imp]
    grind

theorem le_foldl_max_init (l : List Rat) (a : Rat) : a ≤ l.foldl max a :=
  ((foldl_max_le_iff l a _).1 (Rat.le_refl)).1

theorem le_foldl_max_of_mem (l : List Rat) (a : Rat) {y : Rat} (h : y ∈ l) : y ≤ l.foldl max a :=
  ((foldl_max_le_iff l a _).1 (Rat.le_refl)).2 y h

theorem foldl_max_mem (l : List Rat) (a : Rat) : l.foldl max a = a ∨ l.foldl max a ∈ l := by
  induction l generalizing a with
  | nil => simp
  | cons x xs ih =>
    simp only [List.foldl_cons, List.mem_cons]
    rcases ih (max a x) with h | h
    · rw [h]; grind
    · exact Or.inr (Or.inr h)

theorem nfoldl_max_le_iff (l : List Nat) (a c : Nat) :
    l.foldl max a ≤ c ↔ a ≤ c ∧ ∀ y ∈ l, y ≤ c := by
  induction l generalizing a with
  | nil => simp
  | cons x xs ih =>
    simp only [List.foldl_cons, ih, List.mem_cons, forall_eq_or_imp]
    grind

theorem nfoldl_max_mem (l : List Nat) (a : Nat) : l.foldl max a = a ∨ l.foldl max a ∈ l := by
  induction l generalizing a with
  | nil => simp
  | cons x xs ih =>
    simp only [List.foldl_cons, List.mem_cons]
    rcases ih (max a x) with h | h
    · rw [h]; grind
    · exact Or.inr (Or.inr h)

/-- pigeonhole: a function hitting every value `0..D` on `[0,n)` forces `D < n` -/
theorem pigeon : ∀ (n D : Nat) (f : Nat → Nat), (∀ j, j ≤ D → ∃ y, y < n ∧ f y = j) → D + 1 ≤ n := by
  intro n
  induction n with
  | zero =>
    intro D f h
    obtain ⟨y, hy, _⟩ := h 0 (Nat.zero_le _)
    omega
  | succ n ih =>
    intro D f h
    cases D with
    | zero => omega
    | succ D' =>
      apply Nat.succ_le_succ
      apply ih D' (fun y => if f y > f n then f y - 1 else f y)
      intro j hj
      by_cases hv : j < f n
      · obtain ⟨y, hy, hfy⟩ := h j (by omega)
        refine ⟨y, ?_, ?_⟩
        · have : y ≠ n := by intro e; subst e; omega
          omega
        · show (if f y > f n then f y - 1 else f y) = j
          split <;> omega
      · obtain ⟨y, hy, hfy⟩ := h (j + 1) (by omega)
        refine ⟨y, ?_, ?_⟩
        · have : y ≠ n := by intro e; subst e; omega
          omega
        · show (if f y > f n then f y - 1 else f y) = j
          split <;> omega

/-! ### abstract DAGs, longest paths -/

/-- an acyclic graph on `[0,n)` given by predecessor lists `G` and successor lists `H` -/
structure DAG (n : Nat) (G H : Nat → List Nat) : Prop where
  G_lt : ∀ x, x < n → ∀ p ∈ G x, p < n
  H_lt : ∀ x, x < n → ∀ y ∈ H x, y < n
  cons : ∀ x y, x < n → y < n → (x ∈ G y ↔ y ∈ H x)
  acyc : ∃ rk : Nat → Nat, ∀ x, x < n → ∀ p ∈ G x, rk p < rk x

/-- fuel-indexed longest-path recursion: `lpF k x` looks `k` edges back -/
def lpF {α : Type} [Max α] [Add α] (G : Nat → List Nat) (base : α) (w : Nat → α) : Nat → Nat → α
  | 0, _ => base
  | k + 1, x => ((G x).map fun p => lpF G base w k p + w p).foldl max base

theorem lpF_stable {α : Type} [Max α] [Add α] {n : Nat} {G : Nat → List Nat} (base : α) (w : Nat → α)
    (rk : Nat → Nat) (hG : ∀ x, x < n → ∀ p ∈ G x, p < n)
    (hrk : ∀ x, x < n → ∀ p ∈ G x, rk p < rk x) :
    ∀ a x, x < n → ∀ b, rk x < a → rk x < b → lpF G base w a x = lpF G base w b x := by
  intro a
  induction a with
  | zero => intro x _ b h; omega
  | succ a ih =>
    intro x hx b ha hb
    cases b with
    | zero => omega
    | succ b =>
      simp only [lpF]
      congr 1
      apply List.map_congr_left
      intro p hp
      have := hrk x hx p hp
      rw [ih p (hG x hx p hp) b (by omega) (by omega)]

theorem exists_lp {α : Type} [Max α] [Add α] {n : Nat} {G : Nat → List Nat} (base : α) (w : Nat → α)
    (hG : ∀ x, x < n → ∀ p ∈ G x, p < n)
    (hac : ∃ rk : Nat → Nat, ∀ x, x < n → ∀ p ∈ G x, rk p < rk x) :
    ∃ E : Nat → α, ∀ x, x < n → E x = ((G x).map fun p => E p + w p).foldl max base := by
  obtain ⟨rk, hrk⟩ := hac
  refine ⟨fun x => lpF G base w (rk x + 1) x, ?_⟩
  intro x hx
  show lpF G base w (rk x + 1) x =
    ((G x).map fun p => lpF G base w (rk p + 1) p + w p).foldl max base
  rw [lpF]
  congr 1
  apply List.map_congr_left
  intro p hp
  have := hrk x hx p hp
  rw [lpF_stable base w rk hG hrk (rk x) p (hG x hx p hp) (rk p + 1) (by omega) (by omega)]

/-- properties of a depth function (longest distance, in edges, from a node without predecessors) -/
structure IsDepth (n : Nat) (G : Nat → List Nat) (d : Nat → Nat) : Prop where
  edge : ∀ x, x < n → ∀ p ∈ G x, d p < d x
  pred : ∀ x, x < n → G x ≠ [] → ∃ p ∈ G x, d x = d p + 1
  head : ∀ x, x < n → G x = [] → d x = 0

theorem IsDepth.down {n : Nat} {G : Nat → List Nat} {d : Nat → Nat} (hd : IsDepth n G d)
    (hG : ∀ x, x < n → ∀ p ∈ G x, p < n) :
    ∀ k x, x < n → d x = k → ∀ j, j ≤ k → ∃ y, y < n ∧ d y = j := by
  intro k
  induction k using Nat.strongRecOn with
  | _ k ih =>
    intro x hx hk j hj
    by_cases hjk : j = k
    · exact ⟨x, hx, by omega⟩
    · have hne : G x ≠ [] := by
        intro h0; have := hd.head x hx h0; omega
      obtain ⟨p, hp, hdp⟩ := hd.pred x hx hne
      exact ih (d p) (by omega) p (hG x hx p hp) rfl j (by omega)

theorem IsDepth.lt {n : Nat} {G : Nat → List Nat} {d : Nat → Nat} (hd : IsDepth n G d)
    (hG : ∀ x, x < n → ∀ p ∈ G x, p < n) : ∀ x, x < n → d x < n := by
  intro x hx
  have := pigeon n (d x) d (fun j hj => hd.down hG (d x) x hx rfl j hj)
  omega

theorem exists_depth {n : Nat} {G : Nat → List Nat}
    (hG : ∀ x, x < n → ∀ p ∈ G x, p < n)
    (hac : ∃ rk : Nat → Nat, ∀ x, x < n → ∀ p ∈ G x, rk p < rk x) :
    ∃ d : Nat → Nat, IsDepth n G d := by
  obtain ⟨d, hdq⟩ := exists_lp (α := Nat) 0 (fun _ => 1) hG hac
  refine ⟨d, ?_, ?_, ?_⟩
  · intro x hx p hp
    have h := (nfoldl_max_le_iff _ 0 (d x)).1 (by rw [← hdq x hx]; exact Nat.le_refl _)
    have := h.2 (d p + 1) (List.mem_map.2 ⟨p, hp, rfl⟩)
    omega
  · intro x hx hne
    rcases nfoldl_max_mem ((G x).map fun p => d p + 1) 0 with h | h
    · exfalso
      obtain ⟨p, hp⟩ := List.exists_mem_of_ne_nil _ hne
      have h2 := (nfoldl_max_le_iff ((G x).map fun p => d p + 1) 0 0).1 (by rw [h]; exact Nat.le_refl _)
      have := h2.2 (d p + 1) (List.mem_map.2 ⟨p, hp, rfl⟩)
      omega
    · rw [← hdq x hx] at h
      obtain ⟨p, hp, e⟩ := List.mem_map.1 h
      exact ⟨p, hp, e.symm⟩
  · intro x hx h0
    rw [hdq x hx, h0]; rfl

theorem DAG.symm {n : Nat} {G H : Nat → List Nat} (h : DAG n G H) : DAG n H G := by
  obtain ⟨d, hd⟩ := exists_depth h.G_lt h.acyc
  refine ⟨h.H_lt, h.G_lt, fun x y hx hy => (h.cons y x hy hx).symm, fun x => n - d x, ?_⟩
  intro x hx y hy
  have hyn := h.H_lt x hx y hy
  have := hd.edge y hyn x ((h.cons x y hx hyn).2 hy)
  have := hd.lt h.G_lt y hyn
  show n - d y < n - d x
  omega

/-- induction along the edges of a DAG -/
theorem DAG.induction {n : Nat} {G H : Nat → List Nat} (h : DAG n G H) (P : Nat → Prop)
    (step : ∀ x, x < n → (∀ p ∈ G x, P p) → P x) : ∀ x, x < n → P x := by
  obtain ⟨rk, hrk⟩ := h.acyc
  have : ∀ r x, x < n → rk x = r → P x := by
    intro r
    induction r using Nat.strongRecOn with
    | _ r ih =>
      intro x hx hr
      apply step x hx
      intro p hp
      exact ih (rk p) (by have := hrk x hx p hp; omega) p (h.G_lt x hx p hp) rfl
  intro x hx
  exact this _ x hx rfl

/-! ### the wave-front relaxation, abstractly

`A` is the value being maximised (`est`, or `-lft`), `B = A + w` (`eft`, or `-lst`). -/

structure AB where
  A : Nat → Rat
  B : Nat → Rat
  /-- nodes that have been written by a relaxation (the backward pass's `calculated_task_set`) -/
  D : Nat → Bool := fun _ => false

/-- one relaxation `i → nx`: candidate `A i + w i` (read from `B i` when `useB`), stored when
`fire written old candidate` (`written` = the node has been stored into before) -/
def gRelax (fire : Bool → Rat → Rat → Bool) (useB : Bool) (w : Nat → Rat) (s : AB) (i nx : Nat) : AB :=
  let v := if useB then s.B i else s.A i + w i
  if fire (s.D nx) (s.A nx) v then ⟨upd s.A nx v, upd s.B nx (v + w nx), upd s.D nx true⟩ else s

def gWave (fire : Bool → Rat → Rat → Bool) (useB : Bool) (w : Nat → Rat) (H : Nat → List Nat)
    (wave : List Nat) (s : AB) : AB :=
  wave.foldl (fun acc i => (H i).foldl (fun a nx => gRelax fire useB w a i nx) acc) s

def gNext (n : Nat) (H : Nat → List Nat) (wave : List Nat) : List Nat :=
  canonSet n (wave.flatMap H)

def gLoop (fire : Bool → Rat → Rat → Bool) (useB : Bool) (w : Nat → Rat) (n : Nat) (H : Nat → List Nat) :
    Nat → List Nat → AB → AB
  | 0, _, s => s
  | fuel + 1, wave, s =>
    if wave.isEmpty then s
    else gLoop fire useB w n H fuel (gNext n H wave) (gWave fire useB w H wave s)

theorem mem_canonSet {n : Nat} {xs : List Nat} {x : Nat} : x ∈ canonSet n xs ↔ x < n ∧ x ∈ xs := by
  simp [canonSet, List.mem_filter, List.mem_range]

/-- everything the correctness proof of the wave loop needs -/
structure Hyp (n : Nat) (G H : Nat → List Nat) (w : Nat → Rat) (base : Rat)
    (fire : Bool → Rat → Rat → Bool) (E : Nat → Rat) (d : Nat → Nat) : Prop where
  G_lt : ∀ x, x < n → ∀ p ∈ G x, p < n
  H_lt : ∀ x, x < n → ∀ y ∈ H x, y < n
  cons : ∀ x y, x < n → y < n → (x ∈ G y ↔ y ∈ H x)
  w_nn : ∀ x, x < n → 0 ≤ w x
  hE : ∀ x, x < n → E x = ((G x).map fun p => E p + w p).foldl max base
  dep : IsDepth n G d
  fire_lt : ∀ dn pre v, fire dn pre v = false → v < pre
  fire_mono : ∀ x, x < n → ∀ pre v, pre ≤ E x → fire true pre v = true → pre ≤ v

/-- node `x` holds a genuine value: it is a start node or has been written by a relaxation -/
def IsSet (G : Nat → List Nat) (w : Nat → Rat) (base : Rat) (E : Nat → Rat) (s : AB) (x : Nat) : Prop :=
  (base ≤ s.A x ∧ s.A x ≤ E x ∧ s.B x = s.A x + w x) ∧ (G x = [] ∨ s.D x = true)

/-- node `x` is untouched: any candidate will be stored -/
def Fresh (base : Rat) (fire : Bool → Rat → Rat → Bool) (s : AB) (x : Nat) : Prop :=
  ∀ v, base ≤ v → fire (s.D x) (s.A x) v = true

section generic
variable {n : Nat} {G H : Nat → List Nat} {w : Nat → Rat} {base : Rat}
  {fire : Bool → Rat → Rat → Bool} {useB : Bool} {E : Nat → Rat} {d : Nat → Nat}

theorem Hyp.E_base (hy : Hyp n G H w base fire E d) {x : Nat} (hx : x < n) : base ≤ E x := by
  rw [hy.hE x hx]; exact le_foldl_max_init _ _

theorem Hyp.E_edge (hy : Hyp n G H w base fire E d) {x p : Nat} (hx : x < n) (hp : p ∈ G x) :
    E p + w p ≤ E x := by
  rw [hy.hE x hx]; exact le_foldl_max_of_mem _ _ (List.mem_map.2 ⟨p, hp, rfl⟩)

theorem relax_other (s : AB) (i nx x : Nat) (h : x ≠ nx) :
    (gRelax fire useB w s i nx).A x = s.A x ∧ (gRelax fire useB w s i nx).B x = s.B x := by
  unfold gRelax
  generalize (if useB then s.B i else s.A i + w i) = v
  by_cases hf : fire (s.D nx) (s.A nx) v = true <;> simp [hf, h]

theorem relax_other_D (s : AB) (i nx x : Nat) (h : x ≠ nx) :
    (gRelax fire useB w s i nx).D x = s.D x := by
  unfold gRelax
  generalize (if useB then s.B i else s.A i + w i) = v
  by_cases hf : fire (s.D nx) (s.A nx) v = true <;> simp [hf, h]

theorem relax_set (hy : Hyp n G H w base fire E d) {s : AB} {i nx : Nat} (hi : i < n)
    (hnx : nx ∈ H i) (hsi : IsSet G w base E s i) {x : Nat} (hx : x < n)
    (hsx : IsSet G w base E s x) :
    IsSet G w base E (gRelax fire useB w s i nx) x ∧ s.A x ≤ (gRelax fire useB w s i nx).A x := by
  have hnxn := hy.H_lt i hi nx hnx
  have hedge := hy.E_edge hnxn ((hy.cons i nx hi hnxn).2 hnx)
  have hwi := hy.w_nn i hi
  obtain ⟨⟨a1, a2, a3⟩, _⟩ := hsi
  obtain ⟨⟨b1, b2, b3⟩, b4⟩ := hsx
  have hv : (if useB then s.B i else s.A i + w i) = s.A i + w i := by
    cases useB <;> simp [a3]
  unfold gRelax IsSet
  simp only [hv]
  split
  · rename_i hf
    by_cases hxe : x = nx
    · subst hxe
      have hD : s.D x = true := by
        rcases b4 with b4 | b4
        · have := (hy.cons i x hi hx).2 hnx
          rw [b4] at this; simp at this
        · exact b4
      rw [hD] at hf
      have := hy.fire_mono x hx _ _ b2 hf
      simp only [upd_same]
      grind
    · simp only [upd_other _ _ _ _ hxe]
      grind
  · grind

theorem relax_post (hy : Hyp n G H w base fire E d) {s : AB} {i nx : Nat} (hi : i < n)
    (hnx : nx ∈ H i) (hsi : IsSet G w base E s i)
    (hJ : IsSet G w base E s nx ∨ Fresh base fire s nx) :
    IsSet G w base E (gRelax fire useB w s i nx) nx ∧
      s.A i + w i ≤ (gRelax fire useB w s i nx).A nx := by
  have hnxn := hy.H_lt i hi nx hnx
  have hedge := hy.E_edge hnxn ((hy.cons i nx hi hnxn).2 hnx)
  have hwi := hy.w_nn i hi
  obtain ⟨⟨a1, a2, a3⟩, _⟩ := hsi
  have hv : (if useB then s.B i else s.A i + w i) = s.A i + w i := by
    cases useB <;> simp [a3]
  unfold gRelax IsSet
  simp only [hv]
  split
  · simp only [upd_same]
    grind
  · rename_i hf
    have hlt := hy.fire_lt _ _ _ (by simpa using hf)
    rcases hJ with hJ | hJ
    · obtain ⟨⟨b1, b2, b3⟩, b4⟩ := hJ
      grind
    · have := hJ (s.A i + w i) (by grind)
      simp [this] at hf

theorem foldl_inv {σ α : Type} (step : σ → α → σ) (Inv : σ → Prop) (P : α → Prop)
    (hinv : ∀ s a, P a → Inv s → Inv (step s a)) :
    ∀ (l : List α), (∀ a ∈ l, P a) → ∀ s, Inv s → Inv (l.foldl step s) := by
  intro l
  induction l with
  | nil => intro _ s hs; exact hs
  | cons a l ih =>
    intro hP s hs
    exact ih (fun b hb => hP b (List.mem_cons_of_mem _ hb)) _
      (hinv s a (hP a List.mem_cons_self) hs)

theorem foldl_post {σ α : Type} (step : σ → α → σ) (Inv : σ → Prop) (P : α → Prop)
    (Post : α → σ → Prop)
    (hinv : ∀ s a, P a → Inv s → Inv (step s a))
    (hest : ∀ s a, P a → Inv s → Post a (step s a))
    (hkeep : ∀ s a b, P a → P b → Inv s → Post b s → Post b (step s a)) :
    ∀ (l : List α), (∀ a ∈ l, P a) → ∀ s, Inv s → ∀ a ∈ l, Post a (l.foldl step s) := by
  intro l
  induction l with
  | nil => intro _ s _ a ha; simp at ha
  | cons c l ih =>
    intro hP s hs a ha
    have hPl : ∀ b ∈ l, P b := fun b hb => hP b (List.mem_cons_of_mem _ hb)
    have hPc := hP c List.mem_cons_self
    simp only [List.foldl_cons]
    rcases List.mem_cons.1 ha with rfl | ha
    · have h1 : Inv (step s a) ∧ Post a (step s a) := ⟨hinv s a hPc hs, hest s a hPc hs⟩
      have := foldl_inv step (fun t => Inv t ∧ Post a t) P
        (fun t b hb ht => ⟨hinv t b hb ht.1, hkeep t b a hb hPc ht.1 ht.2⟩) l hPl _ h1
      exact this.2
    · exact ih hPl _ (hinv s c hPc hs) a ha

/-- the relaxations of one wave, in execution order -/
def pairs (H : Nat → List Nat) (W : List Nat) : List (Nat × Nat) :=
  W.flatMap fun i => (H i).map fun nx => (i, nx)

theorem gWave_eq (W : List Nat) (s : AB) :
    gWave fire useB w H W s = (pairs H W).foldl (fun a q => gRelax fire useB w a q.1 q.2) s := by
  induction W generalizing s with
  | nil => rfl
  | cons i W ih =>
    simp only [gWave, List.foldl_cons, pairs, List.flatMap_cons, List.foldl_append, List.foldl_map]
    exact ih _

theorem mem_pairs {W : List Nat} {q : Nat × Nat} : q ∈ pairs H W ↔ q.1 ∈ W ∧ q.2 ∈ H q.1 := by
  obtain ⟨a, b⟩ := q
  simp only [pairs, List.mem_flatMap, List.mem_map, Prod.mk.injEq]
  constructor
  · rintro ⟨i, hi, nx, hnx, rfl, rfl⟩; exact ⟨hi, hnx⟩
  · rintro ⟨h1, h2⟩; exact ⟨a, h1, b, h2, rfl, rfl⟩

/-- invariant while wave number `k` (the list `W`) is being processed -/
structure JW (n : Nat) (G : Nat → List Nat) (w : Nat → Rat) (base : Rat) (fire : Bool → Rat → Rat → Bool)
    (E : Nat → Rat) (d : Nat → Nat) (k : Nat) (W : List Nat) (s : AB) : Prop where
  all : ∀ x, x < n → IsSet G w base E s x ∨ (G x ≠ [] ∧ Fresh base fire s x)
  wave : ∀ i ∈ W, IsSet G w base E s i
  done : ∀ x, x < n → ∀ p ∈ G x, d p < k → IsSet G w base E s x ∧ E p + w p ≤ s.A x

/-- a node of depth `≤ k` has its final value during wave `k` -/
theorem JW.final (hy : Hyp n G H w base fire E d) {k : Nat} {W : List Nat} {s : AB}
    (hJ : JW n G w base fire E d k W s) {x : Nat} (hx : x < n) (hd : d x ≤ k) :
    IsSet G w base E s x ∧ s.A x = E x := by
  have hdone : ∀ p ∈ G x, IsSet G w base E s x ∧ E p + w p ≤ s.A x := by
    intro p hp
    exact hJ.done x hx p hp (by have := hy.dep.edge x hx p hp; omega)
  have hset : IsSet G w base E s x := by
    rcases hJ.all x hx with h | ⟨hne, _⟩
    · exact h
    · obtain ⟨p, hp⟩ := List.exists_mem_of_ne_nil _ hne
      exact (hdone p hp).1
  refine ⟨hset, ?_⟩
  have hle : E x ≤ s.A x := by
    rw [hy.hE x hx, foldl_max_le_iff]
    refine ⟨hset.1.1, ?_⟩
    intro y hy'
    obtain ⟨p, hp, rfl⟩ := List.mem_map.1 hy'
    exact (hdone p hp).2
  have := hset.1.2.1
  grind

theorem JW.relax (hy : Hyp n G H w base fire E d) {k : Nat} {W : List Nat} {s : AB}
    (hW : ∀ i ∈ W, i < n)
    (hJ : JW n G w base fire E d k W s) {i nx : Nat} (hi : i ∈ W) (hnx : nx ∈ H i) :
    JW n G w base fire E d k W (gRelax fire useB w s i nx) := by
  have hin := hW i hi
  have hsi := hJ.wave i hi
  have hnxn := hy.H_lt i hin nx hnx
  refine ⟨?_, ?_, ?_⟩
  · intro x hx
    by_cases hxe : x = nx
    · subst hxe
      refine Or.inl (relax_post hy hin hnx hsi ?_).1
      rcases hJ.all x hx with h | h
      · exact Or.inl h
      · exact Or.inr h.2
    · rcases hJ.all x hx with h | ⟨h1, h2⟩
      · exact Or.inl (relax_set hy hin hnx hsi hx h).1
      · refine Or.inr ⟨h1, ?_⟩
        intro v hv
        rw [(relax_other s i nx x hxe).1, relax_other_D s i nx x hxe]
        exact h2 v hv
  · intro j hj
    exact (relax_set hy hin hnx hsi (hW j hj) (hJ.wave j hj)).1
  · intro x hx p hp hdp
    obtain ⟨h1, h2⟩ := hJ.done x hx p hp hdp
    obtain ⟨h3, h4⟩ := relax_set (useB := useB) hy hin hnx hsi hx h1
    exact ⟨h3, by grind⟩

/-- what the relaxation `q.1 → q.2` of wave `k` leaves behind -/
def Post (G : Nat → List Nat) (w : Nat → Rat) (base : Rat) (E : Nat → Rat) (d : Nat → Nat) (k : Nat)
    (q : Nat × Nat) (s : AB) : Prop :=
  IsSet G w base E s q.2 ∧ (d q.1 = k → E q.1 + w q.1 ≤ s.A q.2)

theorem JW.wave_post (hy : Hyp n G H w base fire E d) {k : Nat} {W : List Nat} {s : AB}
    (hW : ∀ i ∈ W, i < n) (hJ : JW n G w base fire E d k W s) :
    JW n G w base fire E d k W (gWave fire useB w H W s) ∧
      ∀ q ∈ pairs H W, Post G w base E d k q (gWave fire useB w H W s) := by
  rw [gWave_eq]
  have hP : ∀ q ∈ pairs H W, q.1 ∈ W ∧ q.2 ∈ H q.1 := fun q hq => mem_pairs.1 hq
  have hinv : ∀ (t : AB) (q : Nat × Nat), (q.1 ∈ W ∧ q.2 ∈ H q.1) →
      JW n G w base fire E d k W t → JW n G w base fire E d k W (gRelax fire useB w t q.1 q.2) :=
    fun t q hq ht => JW.relax hy hW ht hq.1 hq.2
  refine ⟨foldl_inv _ _ _ hinv _ hP s hJ, ?_⟩
  refine foldl_post _ (JW n G w base fire E d k W) (fun q => q.1 ∈ W ∧ q.2 ∈ H q.1)
    (Post G w base E d k) hinv ?_ ?_ _ hP s hJ
  · intro t q hq ht
    have hin := hW _ hq.1
    have hsi := ht.wave _ hq.1
    have h := relax_post (useB := useB) hy hin hq.2 hsi (by
      rcases ht.all q.2 (hy.H_lt _ hin _ hq.2) with h | h
      · exact Or.inl h
      · exact Or.inr h.2)
    refine ⟨h.1, ?_⟩
    intro hdk
    have := (JW.final hy ht hin (by omega)).2
    rw [← this]; exact h.2
  · intro t q b hq hb ht hpost
    have hin := hW _ hq.1
    have hsi := ht.wave _ hq.1
    have hbn := hy.H_lt _ (hW _ hb.1) _ hb.2
    obtain ⟨h3, h4⟩ := relax_set (useB := useB) hy hin hq.2 hsi hbn hpost.1
    refine ⟨h3, ?_⟩
    intro hdk
    have := hpost.2 hdk
    grind

/-- the loop invariant before wave `k` -/
structure Inv (n : Nat) (G : Nat → List Nat) (w : Nat → Rat) (base : Rat)
    (fire : Bool → Rat → Rat → Bool) (E : Nat → Rat) (d : Nat → Nat) (k : Nat) (W : List Nat) (s : AB) :
    Prop where
  jw : JW n G w base fire E d k W s
  W_lt : ∀ i ∈ W, i < n ∧ k ≤ d i
  W_all : ∀ x, x < n → d x = k → x ∈ W

theorem mem_gNext {W : List Nat} {x : Nat} : x ∈ gNext n H W ↔ x < n ∧ ∃ i ∈ W, x ∈ H i := by
  simp [gNext, mem_canonSet, List.mem_flatMap]

theorem Inv.step (hy : Hyp n G H w base fire E d) {k : Nat} {W : List Nat} {s : AB}
    (hI : Inv n G w base fire E d k W s) :
    Inv n G w base fire E d (k + 1) (gNext n H W) (gWave fire useB w H W s) := by
  have hW : ∀ i ∈ W, i < n := fun i hi => (hI.W_lt i hi).1
  obtain ⟨hJ, hpost⟩ := JW.wave_post (useB := useB) hy hW hI.jw
  refine ⟨⟨hJ.all, ?_, ?_⟩, ?_, ?_⟩
  · intro x hx
    obtain ⟨_, i, hi, hxi⟩ := mem_gNext.1 hx
    exact (hpost (i, x) (mem_pairs.2 ⟨hi, hxi⟩)).1
  · intro x hx p hp hdp
    by_cases hlt : d p < k
    · exact hJ.done x hx p hp hlt
    · have hpn := hy.G_lt x hx p hp
      have hpW := hI.W_all p hpn (by omega)
      have hxp := (hy.cons p x hpn hx).1 hp
      have := hpost (p, x) (mem_pairs.2 ⟨hpW, hxp⟩)
      exact ⟨this.1, this.2 (by simp; omega)⟩
  · intro x hx
    obtain ⟨hxn, i, hi, hxi⟩ := mem_gNext.1 hx
    obtain ⟨hin, hki⟩ := hI.W_lt i hi
    have := hy.dep.edge x hxn i ((hy.cons i x hin hxn).2 hxi)
    exact ⟨hxn, by omega⟩
  · intro x hx hdx
    have hne : G x ≠ [] := by
      intro h0; have := hy.dep.head x hx h0; omega
    obtain ⟨p, hp, hdp⟩ := hy.dep.pred x hx hne
    have hpn := hy.G_lt x hx p hp
    exact mem_gNext.2 ⟨hx, p, hI.W_all p hpn (by omega), (hy.cons p x hpn hx).1 hp⟩

theorem gLoop_final (hy : Hyp n G H w base fire E d) :
    ∀ (fuel k : Nat) (W : List Nat) (s : AB), Inv n G w base fire E d k W s →
      (∀ x, x < n → d x < k + fuel) →
      ∀ x, x < n → (gLoop fire useB w n H fuel W s).A x = E x ∧
        (gLoop fire useB w n H fuel W s).B x = E x + w x := by
  intro fuel
  induction fuel with
  | zero =>
    intro k W s hI hd x hx
    have := JW.final hy hI.jw hx (by have := hd x hx; omega)
    simp only [gLoop]
    exact ⟨this.2, by rw [this.1.1.2.2, this.2]⟩
  | succ fuel ih =>
    intro k W s hI hd x hx
    simp only [gLoop]
    split
    · rename_i hemp
      have hall : ∀ y, y < n → d y < k := by
        intro y hy'
        apply Nat.lt_of_not_le
        intro hge
        obtain ⟨z, hz, hdz⟩ := hy.dep.down hy.G_lt (d y) y hy' rfl k hge
        have := hI.W_all z hz hdz
        simp [List.isEmpty_iff.1 hemp] at this
      have := JW.final hy hI.jw hx (by have := hall x hx; omega)
      exact ⟨this.2, by rw [this.1.1.2.2, this.2]⟩
    · exact ih (k + 1) _ _ (Inv.step hy hI) (fun y hy' => by have := hd y hy'; omega) x hx

/-- correctness of the wave loop from its initial state -/
theorem gLoop_correct (hy : Hyp n G H w base fire E d) (W0 : List Nat) (s : AB)
    (hW0 : ∀ i, i ∈ W0 ↔ i < n ∧ G i = [])
    (hhead : ∀ x, x < n → G x = [] → s.A x = base ∧ s.B x = base + w x)
    (hfresh : ∀ x, x < n → G x ≠ [] → Fresh base fire s x) :
    ∀ x, x < n → (gLoop fire useB w n H (n + 1) W0 s).A x = E x ∧
        (gLoop fire useB w n H (n + 1) W0 s).B x = E x + w x := by
  have hset : ∀ x, x < n → G x = [] → IsSet G w base E s x := by
    intro x hx h0
    obtain ⟨h1, h2⟩ := hhead x hx h0
    have : E x = base := by rw [hy.hE x hx, h0]; rfl
    exact ⟨⟨by rw [h1]; exact Rat.le_refl, by rw [h1, this]; exact Rat.le_refl, by rw [h2, h1]⟩,
      Or.inl h0⟩
  apply gLoop_final hy (n + 1) 0 W0 s
  · refine ⟨⟨?_, ?_, ?_⟩, ?_, ?_⟩
    · intro x hx
      by_cases h0 : G x = []
      · exact Or.inl (hset x hx h0)
      · exact Or.inr ⟨h0, hfresh x hx h0⟩
    · intro i hi
      obtain ⟨h1, h2⟩ := (hW0 i).1 hi
      exact hset i h1 h2
    · intro x _ p _ h; omega
    · intro i hi
      exact ⟨((hW0 i).1 hi).1, Nat.zero_le _⟩
    · intro x hx hdx
      refine (hW0 x).2 ⟨hx, ?_⟩
      apply Classical.byContradiction
      intro hne
      obtain ⟨p, _, hdp⟩ := hy.dep.pred x hx hne
      omega
  · intro x hx
    have := hy.dep.lt hy.G_lt x hx
    omega

end generic

/-! ### the specification, abstractly -/

/-- the minimum of a list, `dflt` when it is empty -/
def lmin (dflt : Rat) : List Rat → Rat
  | [] => dflt
  | x :: xs => xs.foldl min x

theorem le_foldl_min_iff (l : List Rat) (a c : Rat) :
    c ≤ l.foldl min a ↔ c ≤ a ∧ ∀ y ∈ l, c ≤ y := by
  induction l generalizing a with
  | nil => simp
  | cons x xs ih =>
    simp only [List.foldl_cons, ih, List.mem_cons, forall_eq_or_imp]
    grind

theorem foldl_min_mem (l : List Rat) (a : Rat) : l.foldl min a = a ∨ l.foldl min a ∈ l := by
  induction l generalizing a with
  | nil => simp
  | cons x xs ih =>
    simp only [List.foldl_cons, List.mem_cons]
    rcases ih (min a x) with h | h
    · rw [h]; grind
    · exact Or.inr (Or.inr h)

theorem lmin_mem (c : Rat) {l : List Rat} (h : l ≠ []) : lmin c l ∈ l := by
  cases l with
  | nil => exact absurd rfl h
  | cons x xs =>
    simp only [lmin, List.mem_cons]
    exact foldl_min_mem xs x

theorem lmin_le (c : Rat) {l : List Rat} {y : Rat} (h : y ∈ l) : lmin c l ≤ y := by
  cases l with
  | nil => simp at h
  | cons x xs =>
    have := (le_foldl_min_iff xs x (lmin c (x :: xs))).1 Rat.le_refl
    rcases List.mem_cons.1 h with rfl | h
    · exact this.1
    · exact this.2 y h

theorem lmin_unique (c : Rat) {l : List Rat} {v : Rat} (hm : v ∈ l) (hle : ∀ y ∈ l, v ≤ y) :
    lmin c l = v := by
  have h1 := lmin_le c hm
  have h2 := hle _ (lmin_mem c (List.ne_nil_of_mem hm))
  grind

/-- The PERT/CPM equations on an abstract finish-to-start network: `G` = predecessors,
`H` = successors, `w` = remaining work. -/
structure AEqs (n : Nat) (G H : Nat → List Nat) (w : Nat → Rat) (time : Rat)
    (est eft lst lft : Nat → Rat) (cpl : Rat) : Prop where
  est_eq : ∀ x, x < n → est x = ((G x).map fun p => est p + w p).foldl max time
  eft_eq : ∀ x, x < n → eft x = est x + w x
  cpl_ge : ∀ x, x < n → H x = [] → eft x ≤ cpl
  cpl_at : ∃ x, x < n ∧ H x = [] ∧ eft x = cpl
  lft_eq : ∀ x, x < n → lft x = lmin cpl ((H x).map lst)
  lst_eq : ∀ x, x < n → lst x = lft x - w x

section spec
variable {n : Nat} {G H : Nat → List Nat} {w : Nat → Rat} {time : Rat}
  {est eft lst lft : Nat → Rat} {cpl : Rat}

theorem AEqs.time_le_est (h : AEqs n G H w time est eft lst lft cpl) {x : Nat} (hx : x < n) :
    time ≤ est x := by
  rw [h.est_eq x hx]; exact le_foldl_max_init _ _

theorem AEqs.edge (h : AEqs n G H w time est eft lst lft cpl) {x p : Nat} (hx : x < n)
    (hp : p ∈ G x) : est p + w p ≤ est x := by
  rw [h.est_eq x hx]; exact le_foldl_max_of_mem _ _ (List.mem_map.2 ⟨p, hp, rfl⟩)

/-- every earliest finish is below the critical path length -/
theorem AEqs.eft_le_cpl (hg : DAG n G H) (hw : ∀ x, x < n → 0 ≤ w x)
    (h : AEqs n G H w time est eft lst lft cpl) : ∀ x, x < n → eft x ≤ cpl := by
  apply hg.symm.induction
  intro x hx ih
  by_cases h0 : H x = []
  · exact h.cpl_ge x hx h0
  · obtain ⟨y, hy⟩ := List.exists_mem_of_ne_nil _ h0
    have hyn := hg.H_lt x hx y hy
    have h1 := h.edge hyn ((hg.cons x y hx hyn).2 hy)
    have h2 := ih y hy
    have h3 := hw y hyn
    rw [h.eft_eq y hyn] at h2
    rw [h.eft_eq x hx]
    grind

/-- the critical path length is the largest earliest finish over *all* tasks -/
theorem AEqs.cpl_all (hg : DAG n G H) (hw : ∀ x, x < n → 0 ≤ w x)
    (h : AEqs n G H w time est eft lst lft cpl) :
    (∀ x, x < n → eft x ≤ cpl) ∧ ∃ x, x < n ∧ eft x = cpl := by
  refine ⟨h.eft_le_cpl hg hw, ?_⟩
  obtain ⟨x, hx, _, he⟩ := h.cpl_at
  exact ⟨x, hx, he⟩

/-- no negative slack, finish form -/
theorem AEqs.eft_le_lft (hg : DAG n G H)
    (h : AEqs n G H w time est eft lst lft cpl) : ∀ x, x < n → eft x ≤ lft x := by
  apply hg.symm.induction
  intro x hx ih
  by_cases h0 : H x = []
  · rw [h.lft_eq x hx, h0]
    exact h.cpl_ge x hx h0
  · have hne : (H x).map lst ≠ [] := by simpa using h0
    have hm := lmin_mem cpl hne
    rw [← h.lft_eq x hx] at hm
    obtain ⟨y, hy, hly⟩ := List.mem_map.1 hm
    have hyn := hg.H_lt x hx y hy
    have h1 := h.edge hyn ((hg.cons x y hx hyn).2 hy)
    have h2 := ih y hy
    rw [h.eft_eq y hyn] at h2
    rw [h.eft_eq x hx]
    have h3 := h.lst_eq y hyn
    grind

/-- no negative slack, start form -/
theorem AEqs.est_le_lst (hg : DAG n G H)
    (h : AEqs n G H w time est eft lst lft cpl) : ∀ x, x < n → est x ≤ lst x := by
  intro x hx
  have h1 := h.eft_le_lft hg x hx
  rw [h.eft_eq x hx] at h1
  rw [h.lst_eq x hx]
  grind

/-- the equations have at most one solution on an acyclic network -/
theorem AEqs.unique (hg : DAG n G H)
    {est' eft' lst' lft' : Nat → Rat} {cpl' : Rat}
    (h : AEqs n G H w time est eft lst lft cpl)
    (h' : AEqs n G H w time est' eft' lst' lft' cpl') :
    cpl = cpl' ∧ ∀ x, x < n → est x = est' x ∧ eft x = eft' x ∧ lst x = lst' x ∧ lft x = lft' x := by
  have hest : ∀ x, x < n → est x = est' x := by
    apply hg.induction
    intro x hx ih
    rw [h.est_eq x hx, h'.est_eq x hx]
    congr 1
    apply List.map_congr_left
    intro p hp
    rw [ih p hp]
  have heft : ∀ x, x < n → eft x = eft' x := by
    intro x hx
    rw [h.eft_eq x hx, h'.eft_eq x hx, hest x hx]
  have hcpl : cpl = cpl' := by
    obtain ⟨x, hx, hx0, hxe⟩ := h.cpl_at
    obtain ⟨y, hy, hy0, hye⟩ := h'.cpl_at
    have h1 := h'.cpl_ge x hx hx0
    have h2 := h.cpl_ge y hy hy0
    rw [heft x hx] at hxe
    rw [heft y hy] at h2
    grind
  have hl : ∀ x, x < n → lft x = lft' x ∧ lst x = lst' x := by
    apply hg.symm.induction
    intro x hx ih
    have : lft x = lft' x := by
      rw [h.lft_eq x hx, h'.lft_eq x hx, hcpl]
      congr 1
      apply List.map_congr_left
      intro y hy
      exact (ih y hy).2
    exact ⟨this, by rw [h.lst_eq x hx, h'.lst_eq x hx, this]⟩
  exact ⟨hcpl, fun x hx => ⟨hest x hx, heft x hx, (hl x hx).2, (hl x hx).1⟩⟩

/-- the equations only look at values below `n` -/
theorem AEqs.congr (hg : DAG n G H) {est' eft' lst' lft' : Nat → Rat}
    (h : AEqs n G H w time est eft lst lft cpl)
    (he : ∀ x, x < n → est' x = est x ∧ eft' x = eft x ∧ lst' x = lst x ∧ lft' x = lft x) :
    AEqs n G H w time est' eft' lst' lft' cpl := by
  refine ⟨?_, ?_, ?_, ?_, ?_, ?_⟩
  · intro x hx
    rw [(he x hx).1, h.est_eq x hx]
    congr 1
    apply List.map_congr_left
    intro p hp
    rw [(he p (hg.G_lt x hx p hp)).1]
  · intro x hx
    rw [(he x hx).2.1, (he x hx).1, h.eft_eq x hx]
  · intro x hx h0
    rw [(he x hx).2.1]; exact h.cpl_ge x hx h0
  · obtain ⟨x, hx, h0, h1⟩ := h.cpl_at
    exact ⟨x, hx, h0, by rw [(he x hx).2.1, h1]⟩
  · intro x hx
    rw [(he x hx).2.2.2, h.lft_eq x hx]
    congr 1
    apply List.map_congr_left
    intro y hy
    rw [(he y (hg.H_lt x hx y hy)).2.2.1]
  · intro x hx
    rw [(he x hx).2.2.1, (he x hx).2.2.2, h.lst_eq x hx]

/-- a critical task that has predecessors has a critical predecessor, and its earliest start is
that predecessor's earliest finish -/
theorem AEqs.crit_pred (hg : DAG n G H) (hw : ∀ x, x < n → 0 ≤ w x)
    (h : AEqs n G H w time est eft lst lft cpl) {x : Nat} (hx : x < n) (hne : G x ≠ [])
    (hc : lst x = est x) : ∃ p ∈ G x, lst p = est p ∧ est x = eft p := by
  have hex : ∃ p ∈ G x, est x = est p + w p := by
    rcases foldl_max_mem ((G x).map fun p => est p + w p) time with h1 | h1
    · obtain ⟨p, hp⟩ := List.exists_mem_of_ne_nil _ hne
      refine ⟨p, hp, ?_⟩
      have hpn := hg.G_lt x hx p hp
      have h2 := h.edge hx hp
      have h3 := h.time_le_est hpn
      have h4 := hw p hpn
      rw [← h.est_eq x hx] at h1
      grind
    · rw [← h.est_eq x hx] at h1
      obtain ⟨p, hp, e⟩ := List.mem_map.1 h1
      exact ⟨p, hp, e.symm⟩
  obtain ⟨p, hp, hpe⟩ := hex
  have hpn := hg.G_lt x hx p hp
  refine ⟨p, hp, ?_, by rw [h.eft_eq p hpn, hpe]⟩
  have h1 : lft p ≤ lst x := by
    rw [h.lft_eq p hpn]
    exact lmin_le cpl (List.mem_map.2 ⟨x, (hg.cons p x hpn hx).1 hp, rfl⟩)
  have h2 := h.eft_le_lft hg p hpn
  rw [h.eft_eq p hpn] at h2
  rw [h.lst_eq p hpn]
  grind

/-- a tail attaining the critical path length is critical -/
theorem AEqs.crit_tail (h : AEqs n G H w time est eft lst lft cpl) :
    ∃ x, x < n ∧ H x = [] ∧ eft x = cpl ∧ lst x = est x := by
  obtain ⟨x, hx, h0, he⟩ := h.cpl_at
  refine ⟨x, hx, h0, he, ?_⟩
  have h1 := h.lft_eq x hx
  rw [h0] at h1
  have h2 := h.eft_eq x hx
  rw [h.lst_eq x hx]
  simp only [List.map_nil, lmin] at h1
  grind

/-- a forward and a backward longest-path function give a solution of the equations -/
theorem AEqs.of_ref (hg : DAG n G H) (hw : ∀ x, x < n → 0 ≤ w x) {E E' : Nat → Rat}
    (hE : ∀ x, x < n → E x = ((G x).map fun p => E p + w p).foldl max time)
    (hge : ∀ x, x < n → H x = [] → E x + w x ≤ cpl)
    (hat : ∃ x, x < n ∧ H x = [] ∧ E x + w x = cpl)
    (hE' : ∀ x, x < n → E' x = ((H x).map fun y => E' y + w y).foldl max (-cpl)) :
    AEqs n G H w time E (fun x => E x + w x) (fun x => -(E' x + w x)) (fun x => -(E' x)) cpl := by
  refine ⟨hE, fun _ _ => rfl, hge, hat, ?_, ?_⟩
  · intro x hx
    show -(E' x) = lmin cpl ((H x).map fun y => -(E' y + w y))
    by_cases h0 : H x = []
    · rw [hE' x hx, h0]
      simp [lmin, Rat.neg_neg]
    · have hb : ∀ y ∈ H x, -cpl ≤ E' y + w y := by
        intro y hy
        have hyn := hg.H_lt x hx y hy
        have h1 : -cpl ≤ E' y := by rw [hE' y hyn]; exact le_foldl_max_init _ _
        have := hw y hyn
        grind
      have hle : ∀ y ∈ H x, E' y + w y ≤ E' x := by
        intro y hy
        rw [hE' x hx]
        exact le_foldl_max_of_mem _ _ (List.mem_map.2 ⟨y, hy, rfl⟩)
      have hmem : ∃ y ∈ H x, E' x = E' y + w y := by
        rcases foldl_max_mem ((H x).map fun y => E' y + w y) (-cpl) with h1 | h1
        · obtain ⟨y, hy⟩ := List.exists_mem_of_ne_nil _ h0
          rw [← hE' x hx] at h1
          have := hb y hy
          have := hle y hy
          exact ⟨y, hy, by grind⟩
        · rw [← hE' x hx] at h1
          obtain ⟨y, hy, e⟩ := List.mem_map.1 h1
          exact ⟨y, hy, e.symm⟩
      obtain ⟨y, hy, e⟩ := hmem
      symm
      apply lmin_unique
      · exact List.mem_map.2 ⟨y, hy, by rw [e]⟩
      · intro z hz
        obtain ⟨y', hy', rfl⟩ := List.mem_map.1 hz
        have := hle y' hy'
        grind
  · intro x hx
    show -(E' x + w x) = -(E' x) - w x
    grind

end spec

/-! ### the model's network -/

/-- predecessor / successor indices of a task -/
def Gm (m : Model) (x : Nat) : List Nat := (m.task x).inputs.map (·.1)
def Hm (m : Model) (x : Nat) : List Nat := (m.task x).outputs.map (·.1)

/-- every dependency is finish-to-start -/
def FSOnly (m : Model) : Prop :=
  ∀ t, t < m.nT → (∀ e ∈ (m.task t).inputs, e.2 = Dep.fs) ∧ (∀ e ∈ (m.task t).outputs, e.2 = Dep.fs)

/-- indices are in range and the input and output lists describe the same edges
(`(p, d) ∈ inputs t ↔ (t, d) ∈ outputs p`, see `GraphOK.iff`) -/
def GraphOK (m : Model) : Prop :=
  ∀ t, t < m.nT →
    (∀ e ∈ (m.task t).inputs, e.1 < m.nT ∧ (t, e.2) ∈ (m.task e.1).outputs) ∧
    (∀ e ∈ (m.task t).outputs, e.1 < m.nT ∧ (t, e.2) ∈ (m.task e.1).inputs)

/-- the dependency graph has no cycle: some rank strictly increases along every edge -/
def Acyclic (m : Model) : Prop :=
  ∃ rk : Nat → Nat, ∀ t, t < m.nT → ∀ e ∈ (m.task t).inputs, rk e.1 < rk t

instance (m : Model) : Decidable (FSOnly m) := by unfold FSOnly; infer_instance
instance (m : Model) : Decidable (GraphOK m) := by unfold GraphOK; infer_instance

theorem GraphOK.iff {m : Model} (h : GraphOK m) {t p : Nat} (ht : t < m.nT) (hp : p < m.nT)
    (d : Dep) : (p, d) ∈ (m.task t).inputs ↔ (t, d) ∈ (m.task p).outputs :=
  ⟨fun hi => ((h t ht).1 (p, d) hi).2, fun ho => ((h p hp).2 (t, d) ho).2⟩

/-- `GraphOK` is the literal "indices in range, `(p, d) ∈ inputs t ↔ (t, d) ∈ outputs p`" -/
theorem graphOK_iff (m : Model) :
    GraphOK m ↔
      (∀ t, t < m.nT → (∀ e ∈ (m.task t).inputs, e.1 < m.nT) ∧ (∀ e ∈ (m.task t).outputs, e.1 < m.nT)) ∧
      (∀ t p d, t < m.nT → p < m.nT → ((p, d) ∈ (m.task t).inputs ↔ (t, d) ∈ (m.task p).outputs)) := by
  constructor
  · intro h
    exact ⟨fun t ht => ⟨fun e he => ((h t ht).1 e he).1, fun e he => ((h t ht).2 e he).1⟩,
      fun t p d ht hp => h.iff ht hp d⟩
  · rintro ⟨h1, h2⟩ t ht
    refine ⟨fun e he => ⟨(h1 t ht).1 e he, ?_⟩, fun e he => ⟨(h1 t ht).2 e he, ?_⟩⟩
    · exact (h2 t e.1 e.2 ht ((h1 t ht).1 e he)).1 he
    · exact (h2 e.1 t e.2 ((h1 t ht).2 e he) ht).2 he

theorem mem_Gm {m : Model} {x p : Nat} : p ∈ Gm m x ↔ ∃ d, (p, d) ∈ (m.task x).inputs := by
  simp [Gm]

theorem mem_Hm {m : Model} {x y : Nat} : y ∈ Hm m x ↔ ∃ d, (y, d) ∈ (m.task x).outputs := by
  simp [Hm]

theorem dag_of {m : Model} (hok : GraphOK m) (hac : Acyclic m) : DAG m.nT (Gm m) (Hm m) := by
  refine ⟨?_, ?_, ?_, ?_⟩
  · intro x hx p hp
    obtain ⟨d, hd⟩ := mem_Gm.1 hp
    exact ((hok x hx).1 _ hd).1
  · intro x hx y hy
    obtain ⟨d, hd⟩ := mem_Hm.1 hy
    exact ((hok x hx).2 _ hd).1
  · intro x y hx hy
    rw [mem_Gm, mem_Hm]
    constructor
    · rintro ⟨d, hd⟩; exact ⟨d, (hok.iff hy hx d).1 hd⟩
    · rintro ⟨d, hd⟩; exact ⟨d, (hok.iff hy hx d).2 hd⟩
  · obtain ⟨rk, hrk⟩ := hac
    refine ⟨rk, ?_⟩
    intro x hx p hp
    obtain ⟨d, hd⟩ := mem_Gm.1 hp
    exact hrk x hx _ hd

/-- **The PERT/CPM equations** for the model's network at time `time` with remaining work
`l.rem` (only `l.rem` is read from `l`). -/
structure PertEqs (m : Model) (time : Rat) (l : Live) (est eft lst lft : Nat → Rat) (cpl : Rat) :
    Prop where
  /-- earliest start = the largest of `time` and the predecessors' `est + rem` -/
  est_eq : ∀ t, t < m.nT →
    est t = ((m.task t).inputs.map fun e => est e.1 + l.rem e.1).foldl max time
  /-- earliest finish = earliest start + own remaining work -/
  eft_eq : ∀ t, t < m.nT → eft t = est t + l.rem t
  /-- `cpl` is an upper bound of the earliest finishes of the tasks without successors … -/
  cpl_ge : ∀ t, t < m.nT → (m.task t).outputs = [] → eft t ≤ cpl
  /-- … and is attained by one of them -/
  cpl_at : ∃ t, t < m.nT ∧ (m.task t).outputs = [] ∧ eft t = cpl
  /-- latest finish = the smallest latest start among the successors, `cpl` without successors -/
  lft_eq : ∀ t, t < m.nT → lft t = lmin cpl ((m.task t).outputs.map fun e => lst e.1)
  /-- latest start = latest finish − own remaining work -/
  lst_eq : ∀ t, t < m.nT → lst t = lft t - l.rem t

theorem Gm_map {α : Type} (m : Model) (x : Nat) (f : Nat → α) :
    (Gm m x).map f = (m.task x).inputs.map fun e => f e.1 := by
  simp [Gm, List.map_map, Function.comp_def]

theorem Hm_map {α : Type} (m : Model) (x : Nat) (f : Nat → α) :
    (Hm m x).map f = (m.task x).outputs.map fun e => f e.1 := by
  simp [Hm, List.map_map, Function.comp_def]

theorem Hm_nil {m : Model} {x : Nat} : Hm m x = [] ↔ (m.task x).outputs = [] := by
  simp [Hm]

theorem Gm_nil {m : Model} {x : Nat} : Gm m x = [] ↔ (m.task x).inputs = [] := by
  simp [Gm]

theorem pertEqs_iff {m : Model} {time : Rat} {l : Live} {est eft lst lft : Nat → Rat} {cpl : Rat} :
    PertEqs m time l est eft lst lft cpl ↔
      AEqs m.nT (Gm m) (Hm m) l.rem time est eft lst lft cpl := by
  constructor
  · intro h
    refine ⟨?_, h.eft_eq, ?_, ?_, ?_, h.lst_eq⟩
    · intro x hx; rw [Gm_map]; exact h.est_eq x hx
    · intro x hx h0; exact h.cpl_ge x hx (Hm_nil.1 h0)
    · obtain ⟨x, hx, h0, h1⟩ := h.cpl_at; exact ⟨x, hx, Hm_nil.2 h0, h1⟩
    · intro x hx; rw [Hm_map]; exact h.lft_eq x hx
  · intro h
    refine ⟨?_, h.eft_eq, ?_, ?_, ?_, h.lst_eq⟩
    · intro x hx; rw [← Gm_map m x (fun p => est p + l.rem p)]; exact h.est_eq x hx
    · intro x hx h0; exact h.cpl_ge x hx (Hm_nil.2 h0)
    · obtain ⟨x, hx, h0, h1⟩ := h.cpl_at; exact ⟨x, hx, Hm_nil.1 h0, h1⟩
    · intro x hx; rw [← Hm_map m x lst]; exact h.lft_eq x hx

/-! ### the model's passes are instances of the abstract loop -/

/-- forward store test: `est >= pre_est` -/
def ffire (_dn : Bool) (pre v : Rat) : Bool := decide (v ≥ pre)
/-- backward store test on negated values: `pv not in calculated_task_set or pre_lft >= lft` -/
def bfire (dn : Bool) (pre v : Rat) : Bool := decide (dn = false ∨ -pre ≥ -v)

def fput (s : AB) (p : Pert) : Pert := { p with est := s.A, eft := s.B }
def bput (s : AB) (p : Pert) : Pert :=
  { p with lft := fun x => -(s.A x), lst := fun x => -(s.B x), done := s.D }

theorem fwdRelax_sim (l : Live) (s : AB) (p : Pert) (i : Nat) (e : Nat × Dep) (he : e.2 = Dep.fs) :
    fwdRelax l (fput s p) i e = fput (gRelax ffire false l.rem s i e.1) p := by
  obtain ⟨nx, dep⟩ := e
  simp only at he
  subst he
  simp only [fwdRelax, gRelax, fput, ffire, Bool.false_eq_true, if_false, decide_eq_true_eq]
  split
  · rename_i hc; simp only [hc, if_true]
  · rename_i hc; simp only [hc, if_false]

theorem bwdRelax_sim (l : Live) (s : AB) (p : Pert) (o : Nat) (e : Nat × Dep) (he : e.2 = Dep.fs) :
    bwdRelax l (bput s p) o e = bput (gRelax bfire true l.rem s o e.1) p := by
  obtain ⟨pv, dep⟩ := e
  simp only at he
  subst he
  simp only [bwdRelax, gRelax, bput, bfire, if_true, decide_eq_true_eq]
  split
  · rename_i hc; simp only [hc, if_true]
    congr 1
    · funext x; simp only [upd_apply]; split <;> grind
    · funext x; simp only [upd_apply]; split <;> rfl
  · rename_i hc; simp only [hc, if_false]

theorem fwdInner_sim (l : Live) (p : Pert) (i : Nat) :
    ∀ (es : List (Nat × Dep)) (s : AB), (∀ e ∈ es, e.2 = Dep.fs) →
      es.foldl (fun a e => fwdRelax l a i e) (fput s p) =
        fput ((es.map (·.1)).foldl (fun a nx => gRelax ffire false l.rem a i nx) s) p := by
  intro es
  induction es with
  | nil => intro s _; rfl
  | cons e es ih =>
    intro s h
    simp only [List.foldl_cons, List.map_cons]
    rw [fwdRelax_sim l s p i e (h e List.mem_cons_self)]
    exact ih _ (fun e' he' => h e' (List.mem_cons_of_mem _ he'))

theorem bwdInner_sim (l : Live) (p : Pert) (o : Nat) :
    ∀ (es : List (Nat × Dep)) (s : AB), (∀ e ∈ es, e.2 = Dep.fs) →
      es.foldl (fun a e => bwdRelax l a o e) (bput s p) =
        bput ((es.map (·.1)).foldl (fun a nx => gRelax bfire true l.rem a o nx) s) p := by
  intro es
  induction es with
  | nil => intro s _; rfl
  | cons e es ih =>
    intro s h
    simp only [List.foldl_cons, List.map_cons]
    rw [bwdRelax_sim l s p o e (h e List.mem_cons_self)]
    exact ih _ (fun e' he' => h e' (List.mem_cons_of_mem _ he'))

theorem fwdWave_sim {m : Model} (hfs : FSOnly m) (l : Live) (p : Pert) :
    ∀ (W : List Nat) (s : AB), (∀ i ∈ W, i < m.nT) →
      fwdWave m l W (fput s p) = fput (gWave ffire false l.rem (Hm m) W s) p := by
  intro W
  induction W with
  | nil => intro s _; rfl
  | cons i W ih =>
    intro s h
    simp only [fwdWave, gWave, List.foldl_cons]
    rw [fwdInner_sim l p i _ s (hfs i (h i List.mem_cons_self)).2]
    exact ih _ (fun j hj => h j (List.mem_cons_of_mem _ hj))

theorem bwdWave_sim {m : Model} (hfs : FSOnly m) (l : Live) (p : Pert) :
    ∀ (W : List Nat) (s : AB), (∀ i ∈ W, i < m.nT) →
      bwdWave m l W (bput s p) = bput (gWave bfire true l.rem (Gm m) W s) p := by
  intro W
  induction W with
  | nil => intro s _; rfl
  | cons i W ih =>
    intro s h
    simp only [bwdWave, gWave, List.foldl_cons]
    rw [bwdInner_sim l p i _ s (hfs i (h i List.mem_cons_self)).1]
    exact ih _ (fun j hj => h j (List.mem_cons_of_mem _ hj))

theorem fwdLoop_sim {m : Model} (hfs : FSOnly m) (l : Live) (p : Pert) :
    ∀ (fuel : Nat) (W : List Nat) (s : AB), (∀ i ∈ W, i < m.nT) →
      fwdLoop m l fuel W (fput s p) = fput (gLoop ffire false l.rem m.nT (Hm m) fuel W s) p := by
  intro fuel
  induction fuel with
  | zero => intro W s _; rfl
  | succ fuel ih =>
    intro W s h
    simp only [fwdLoop, gLoop]
    split
    · rfl
    · rw [fwdWave_sim hfs l p W s h]
      exact ih _ _ (fun j hj => (mem_canonSet.1 hj).1)

theorem bwdLoop_sim {m : Model} (hfs : FSOnly m) (l : Live) (p : Pert) :
    ∀ (fuel : Nat) (W : List Nat) (s : AB), (∀ i ∈ W, i < m.nT) →
      bwdLoop m l fuel W (bput s p) = bput (gLoop bfire true l.rem m.nT (Gm m) fuel W s) p := by
  intro fuel
  induction fuel with
  | zero => intro W s _; rfl
  | succ fuel ih =>
    intro W s h
    simp only [bwdLoop, gLoop]
    split
    · rfl
    · rw [bwdWave_sim hfs l p W s h]
      exact ih _ _ (fun j hj => (mem_canonSet.1 hj).1)

theorem mem_heads {m : Model} {i : Nat} : i ∈ heads m ↔ i < m.nT ∧ Gm m i = [] := by
  simp [heads, List.mem_filter, List.mem_range, Gm_nil, List.isEmpty_iff]

theorem mem_tails {m : Model} {i : Nat} : i ∈ tails m ↔ i < m.nT ∧ Hm m i = [] := by
  simp [tails, List.mem_filter, List.mem_range, Hm_nil, List.isEmpty_iff]

/-- forward pass: `est`/`eft` are the longest-path values, whatever was stored before -/
theorem pertFwd_correct {m : Model} (hfs : FSOnly m) (time : Rat) (l : Live) {E : Nat → Rat}
    {d : Nat → Nat} (hy : Hyp m.nT (Gm m) (Hm m) l.rem time ffire E d) :
    ∀ x, x < m.nT → (pertFwd m time l).est x = E x ∧ (pertFwd m time l).eft x = E x + l.rem x := by
  let s0 : AB :=
    { A := fun t => if t < m.nT then time else l.est t
      B := fun t => if t < m.nT && (m.task t).inputs.isEmpty then time + l.rem t else l.eft t }
  have hrw : pertFwd m time l =
      fput (gLoop ffire false l.rem m.nT (Hm m) (m.nT + 1) (heads m) s0)
        { est := l.est, eft := l.eft, lst := l.lst, lft := l.lft } := by
    rw [← fwdLoop_sim hfs l _ _ _ _ (fun i hi => (mem_heads.1 hi).1)]
    rfl
  rw [hrw]
  apply gLoop_correct hy (heads m) s0 (fun i => mem_heads)
  · intro x hx h0
    have : (m.task x).inputs.isEmpty = true := by simpa [List.isEmpty_iff] using Gm_nil.1 h0
    simp [s0, hx, this]
  · intro x hx _ v hv
    simp only [s0, hx, if_true, ffire, decide_eq_true_eq]
    exact hv

theorem maxList_eq (dflt x : Rat) (xs : List Rat) : maxList dflt (x :: xs) = xs.foldl max x := by
  simp only [maxList]
  congr 1
  funext a b
  grind

theorem maxList_spec (dflt : Rat) {l : List Rat} (h : l ≠ []) :
    maxList dflt l ∈ l ∧ ∀ y ∈ l, y ≤ maxList dflt l := by
  cases l with
  | nil => exact absurd rfl h
  | cons x xs =>
    rw [maxList_eq]
    constructor
    · rcases foldl_max_mem xs x with h1 | h1
      · rw [h1]; exact List.mem_cons_self
      · exact List.mem_cons_of_mem _ h1
    · intro y hy
      rcases List.mem_cons.1 hy with rfl | hy
      · exact le_foldl_max_init _ _
      · exact le_foldl_max_of_mem _ _ hy

theorem exists_tail {n : Nat} {G H : Nat → List Nat} (hg : DAG n G H) (hn : 0 < n) :
    ∃ x, x < n ∧ H x = [] := by
  obtain ⟨d', hd'⟩ := exists_depth hg.symm.G_lt hg.symm.acyc
  obtain ⟨y, hy, hdy⟩ := hd'.down hg.symm.G_lt (d' 0) 0 hn rfl 0 (Nat.zero_le _)
  refine ⟨y, hy, ?_⟩
  apply Classical.byContradiction
  intro hne
  obtain ⟨p, _, hdp⟩ := hd'.pred y hy hne
  omega

/-- backward pass (with reset): `lft`/`lst` are `cpl` minus the longest path to a tail -/
theorem pertBwd_correct {m : Model} (hfs : FSOnly m) (l : Live) (p : Pert) {E' : Nat → Rat}
    {d' : Nat → Nat} (cpl : Rat) (hc : cpl = maxList l.cpl ((tails m).map p.eft))
    (hy : Hyp m.nT (Hm m) (Gm m) l.rem (-cpl) bfire E' d') :
    (pertBwd m l true p).2 = cpl ∧ (pertBwd m l true p).1.est = p.est ∧
      (pertBwd m l true p).1.eft = p.eft ∧
      ∀ x, x < m.nT → (pertBwd m l true p).1.lft x = -(E' x) ∧
        (pertBwd m l true p).1.lst x = -(E' x + l.rem x) := by
  let s1 : AB :=
    { A := fun t => -(if (tails m).contains t then cpl else if t < m.nT then -1 else p.lft t)
      B := fun t => -(if (tails m).contains t then cpl - l.rem t else if t < m.nT then -1 else p.lst t) }
  have hrw : pertBwd m l true p =
      (bput (gLoop bfire true l.rem m.nT (Gm m) (m.nT + 1) (tails m) s1) p, cpl) := by
    rw [← bwdLoop_sim hfs l _ _ _ _ (fun i hi => (mem_tails.1 hi).1)]
    simp only [pertBwd, if_true, ← hc, bput, s1, Rat.neg_neg]
  rw [hrw]
  refine ⟨rfl, rfl, rfl, ?_⟩
  have := gLoop_correct (useB := true) hy (tails m) s1 (fun i => mem_tails) ?_ ?_
  · intro x hx
    obtain ⟨h1, h2⟩ := this x hx
    exact ⟨by simp only [bput]; rw [h1], by simp only [bput]; rw [h2]⟩
  · intro x hx h0
    have : (tails m).contains x = true := by
      simpa using mem_tails.2 ⟨hx, h0⟩
    simp only [s1, this, if_true]
    constructor <;> grind
  · intro x hx h0 v _
    have : (tails m).contains x = false := by
      apply Bool.eq_false_iff.2
      intro hcon
      exact h0 (mem_tails.1 (by simpa using hcon)).2
    simp only [s1, bfire, decide_eq_true_eq]
    left
    trivial

/-- **C12, network form**: the result of `pert` solves the PERT/CPM equations. -/
theorem pert_AEqs {m : Model} (time : Nat) (l : Live) (hfs : FSOnly m) (hok : GraphOK m)
    (hac : Acyclic m) (hn : 0 < m.nT) (hrem : ∀ t, t < m.nT → 0 ≤ l.rem t) :
    AEqs m.nT (Gm m) (Hm m) l.rem (time : Rat) (pert m time l).est (pert m time l).eft
      (pert m time l).lst (pert m time l).lft (pert m time l).cpl := by
  have hg := dag_of hok hac
  obtain ⟨E, hE⟩ := exists_lp (time : Rat) l.rem hg.G_lt hg.acyc
  obtain ⟨d, hd⟩ := exists_depth hg.G_lt hg.acyc
  have hyf : Hyp m.nT (Gm m) (Hm m) l.rem (time : Rat) ffire E d :=
    ⟨hg.G_lt, hg.H_lt, hg.cons, hrem, hE, hd,
      fun dn pre v h => by simp only [ffire, decide_eq_false_iff_not] at h; grind,
      fun _ _ pre v _ h => by simpa [ffire] using h⟩
  have hfwd := pertFwd_correct hfs (time : Rat) l hyf
  -- the critical path length
  let pf := pertFwd m (time : Rat) l
  let cpl := maxList l.cpl ((tails m).map pf.eft)
  obtain ⟨x0, hx0, hx0t⟩ := exists_tail hg hn
  have hne : (tails m).map pf.eft ≠ [] := by
    intro h
    have : x0 ∈ tails m := mem_tails.2 ⟨hx0, hx0t⟩
    simp only [List.map_eq_nil_iff] at h
    rw [h] at this
    simp at this
  obtain ⟨hcm, hcle⟩ := maxList_spec l.cpl hne
  have hge : ∀ x, x < m.nT → Hm m x = [] → E x + l.rem x ≤ cpl := by
    intro x hx h0
    rw [← (hfwd x hx).2]
    exact hcle _ (List.mem_map.2 ⟨x, mem_tails.2 ⟨hx, h0⟩, rfl⟩)
  have hat : ∃ x, x < m.nT ∧ Hm m x = [] ∧ E x + l.rem x = cpl := by
    obtain ⟨x, hxt, hxe⟩ := List.mem_map.1 hcm
    obtain ⟨hx, h0⟩ := mem_tails.1 hxt
    exact ⟨x, hx, h0, by rw [← (hfwd x hx).2]; exact hxe⟩
  -- the backward reference
  obtain ⟨E', hE'⟩ := exists_lp (-cpl) l.rem hg.symm.G_lt hg.symm.acyc
  obtain ⟨d', hd'⟩ := exists_depth hg.symm.G_lt hg.symm.acyc
  have href := AEqs.of_ref hg hrem hE hge hat hE'
  have hyb : Hyp m.nT (Hm m) (Gm m) l.rem (-cpl) bfire E' d' :=
    ⟨hg.H_lt, hg.G_lt, hg.symm.cons, hrem, hE', hd',
      fun dn pre v h => by
        simp only [bfire, decide_eq_false_iff_not] at h
        grind,
      fun x hx pre v hp h => by
        simp only [bfire, decide_eq_true_eq] at h
        grind⟩
  obtain ⟨b1, b2, b3, b4⟩ := pertBwd_correct hfs l pf cpl rfl hyb
  apply href.congr hg
  intro x hx
  simp only [pert, pertReset, tabN_eq]
  refine ⟨?_, ?_, ?_, ?_⟩
  · rw [b2]; exact (hfwd x hx).1
  · rw [b3]; exact (hfwd x hx).2
  · exact (b4 x hx).2
  · exact (b4 x hx).1

theorem pert_cpl (m : Model) (time : Nat) (l : Live) :
    (pert m time l).cpl = maxList l.cpl ((tails m).map (pertFwd m (time : Rat) l).eft) := rfl

/-! ### critical paths -/

/-- `CritPath m est eft lst a b`: a chain of dependency edges from `a` to `b` on which every task
has zero slack and every task starts exactly when its predecessor on the chain finishes. -/
inductive CritPath (m : Model) (est eft lst : Nat → Rat) : Nat → Nat → Prop
  | single {x : Nat} : x < m.nT → lst x = est x → CritPath m est eft lst x x
  | snoc {a p x : Nat} (d : Dep) : CritPath m est eft lst a p → (p, d) ∈ (m.task x).inputs →
      x < m.nT → lst x = est x → est x = eft p → CritPath m est eft lst a x

theorem PertEqs.crit_to {m : Model} {time : Rat} {l : Live} {est eft lst lft : Nat → Rat} {cpl : Rat}
    (hok : GraphOK m) (hac : Acyclic m) (hrem : ∀ t, t < m.nT → 0 ≤ l.rem t)
    (h : PertEqs m time l est eft lst lft cpl) :
    ∀ x, x < m.nT → lst x = est x →
      ∃ a, a < m.nT ∧ (m.task a).inputs = [] ∧ CritPath m est eft lst a x := by
  have hg := dag_of hok hac
  have ha := pertEqs_iff.1 h
  apply hg.induction
  intro x hx ih hc
  by_cases h0 : Gm m x = []
  · exact ⟨x, hx, Gm_nil.1 h0, .single hx hc⟩
  · obtain ⟨p, hp, hpc, hpe⟩ := ha.crit_pred hg hrem hx h0 hc
    obtain ⟨a, han, ha0, hch⟩ := ih p hp hpc
    obtain ⟨d, hd⟩ := mem_Gm.1 hp
    exact ⟨a, han, ha0, .snoc d hch hd hx hc hpe⟩

/-- the equations read only `rem` from the live state -/
theorem PertEqs.of_rem_eq {m : Model} {time : Rat} {l l' : Live} {est eft lst lft : Nat → Rat}
    {cpl : Rat} (hr : l'.rem = l.rem) (h : PertEqs m time l est eft lst lft cpl) :
    PertEqs m time l' est eft lst lft cpl := by
  refine ⟨?_, ?_, h.cpl_ge, h.cpl_at, h.lft_eq, ?_⟩
  · rw [hr]; exact h.est_eq
  · rw [hr]; exact h.eft_eq
  · rw [hr]; exact h.lst_eq

end PDesy.PertSpec
