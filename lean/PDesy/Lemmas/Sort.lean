/-
  PDesy.Lemmas.Sort — `sortBy le` is a stable sort.

  Part 1 (namespace `PDesy.Sort`): generic facts about `insertBy` / `sortBy`
    * permutation of the input (`sortBy_perm`, `mem_sortBy`, `length_sortBy`, `nodup_sortBy`);
    * ordered output for a total, transitive comparator (`sortBy_pairwise`);
    * stability in filter form (`sortBy_filter_equiv`) and in sublist form (`sortBy_stable_pair`);
    * uniqueness: permutation + ordered + stable characterises `sortBy le xs` (`eq_sortBy_of_…`);
    * the key-based packaging `StableSortedBy r key inp out` used by the C11 theorems.
  Part 2: total-preorder facts for `ExtRat.le`, `lex3Le`, and the four concrete comparators
    `taskLe`, `workerLe`, `facLe`, `wpLe`.
-/
import PDesy.Model.Priority

namespace PDesy.Sort

variable {α : Type}

/-! ### Comparator properties -/

/-- `le` is total: any two elements are comparable (hence `le` is reflexive). -/
def Total (le : α → α → Bool) : Prop := ∀ a b, le a b = true ∨ le b a = true

/-- `le` is transitive. -/
def Trans (le : α → α → Bool) : Prop := ∀ a b c, le a b = true → le b c = true → le a c = true

/-- `a` and `b` are tied under `le` (each is `le` the other): "equal sort keys". -/
def equiv (le : α → α → Bool) (a b : α) : Bool := le a b && le b a

theorem Total.refl {le : α → α → Bool} (h : Total le) (a : α) : le a a = true := by
  cases h a a <;> assumption

/-! ### Permutation -/

theorem insertBy_perm (le : α → α → Bool) (x : α) (ys : List α) :
    (insertBy le x ys).Perm (x :: ys) := by
  induction ys with
  | nil => simp [insertBy]
  | cons y ys ih =>
    unfold insertBy
    split
    · exact List.Perm.refl _
    · exact ((List.Perm.cons y ih).trans (List.Perm.swap x y ys))

/-- The output of `sortBy` is a permutation of its input. -/
theorem sortBy_perm (le : α → α → Bool) (xs : List α) : (sortBy le xs).Perm xs := by
  induction xs with
  | nil => simp [sortBy]
  | cons x xs ih =>
    unfold sortBy
    exact (insertBy_perm le x _).trans (List.Perm.cons x ih)

theorem mem_insertBy {le : α → α → Bool} {x a : α} {ys : List α} :
    a ∈ insertBy le x ys ↔ a = x ∨ a ∈ ys := by
  rw [(insertBy_perm le x ys).mem_iff]; simp

@[simp] theorem mem_sortBy {le : α → α → Bool} {a : α} {xs : List α} :
    a ∈ sortBy le xs ↔ a ∈ xs := (sortBy_perm le xs).mem_iff

@[simp] theorem length_sortBy (le : α → α → Bool) (xs : List α) :
    (sortBy le xs).length = xs.length := (sortBy_perm le xs).length_eq

theorem nodup_sortBy {le : α → α → Bool} {xs : List α} :
    (sortBy le xs).Nodup ↔ xs.Nodup := (sortBy_perm le xs).nodup_iff

/-! ### Ordered output -/

theorem insertBy_pairwise {le : α → α → Bool} (htot : Total le) (htr : Trans le) (x : α)
    {ys : List α} (h : ys.Pairwise (fun a b => le a b = true)) :
    (insertBy le x ys).Pairwise (fun a b => le a b = true) := by
  induction ys with
  | nil => simp [insertBy]
  | cons y ys ih =>
    rw [List.pairwise_cons] at h
    unfold insertBy
    split
    next hxy =>
      refine List.pairwise_cons.2 ⟨?_, List.pairwise_cons.2 h⟩
      intro z hz
      rcases List.mem_cons.1 hz with rfl | hz
      · exact hxy
      · exact htr _ _ _ hxy (h.1 z hz)
    next hxy =>
      have hyx : le y x = true := by
        cases htot x y with
        | inl h' => exact absurd h' hxy
        | inr h' => exact h'
      refine List.pairwise_cons.2 ⟨?_, ih h.2⟩
      intro z hz
      rcases mem_insertBy.1 hz with rfl | hz
      · exact hyx
      · exact h.1 z hz

/-- For a total, transitive comparator the output of `sortBy` is ordered: every element is
`le` every later element. -/
theorem sortBy_pairwise {le : α → α → Bool} (htot : Total le) (htr : Trans le) (xs : List α) :
    (sortBy le xs).Pairwise (fun a b => le a b = true) := by
  induction xs with
  | nil => simp [sortBy]
  | cons x xs ih => unfold sortBy; exact insertBy_pairwise htot htr x ih

/-! ### Stability -/

/-- Inserting `x` only moves it past elements that are *strictly* smaller, so for every tie
class the relative order of `x :: ys` is kept. -/
theorem insertBy_filter_equiv {le : α → α → Bool} (htr : Trans le) (a x : α) (ys : List α) :
    (insertBy le x ys).filter (equiv le a) = (x :: ys).filter (equiv le a) := by
  induction ys with
  | nil => simp [insertBy]
  | cons y ys ih =>
    unfold insertBy
    split
    · rfl
    next hxy =>
      rw [List.filter_cons, ih]
      -- `x` and `y` cannot both be tied with `a`, otherwise `le x y`.
      have hnot : ¬ (equiv le a x = true ∧ equiv le a y = true) := by
        rintro ⟨hx, hy⟩
        simp only [equiv, Bool.and_eq_true] at hx hy
        exact hxy (htr _ _ _ hx.2 hy.1)
      by_cases hx : equiv le a x = true <;> by_cases hy : equiv le a y = true
      · exact absurd ⟨hx, hy⟩ hnot
      · simp [hx, hy]
      · simp [hx, hy]
      · simp [hx, hy]

/-- **Stability (filter form).**  For every `a`, the elements tied with `a` appear in the
output of `sortBy` exactly in their input order.  Only transitivity is needed. -/
theorem sortBy_filter_equiv {le : α → α → Bool} (htr : Trans le) (a : α) (xs : List α) :
    (sortBy le xs).filter (fun b => le a b && le b a) = xs.filter (fun b => le a b && le b a) := by
  show (sortBy le xs).filter (equiv le a) = xs.filter (equiv le a)
  induction xs with
  | nil => simp [sortBy]
  | cons x xs ih =>
    unfold sortBy
    rw [insertBy_filter_equiv htr, List.filter_cons, List.filter_cons, ih]

/-- **Stability (pair form).**  If `a` occurs before `b` in the input and the two are tied,
then `a` still occurs before `b` in the output. -/
theorem sortBy_stable_pair {le : α → α → Bool} (htr : Trans le) {a b : α} {xs : List α}
    (hab : le a b = true) (hba : le b a = true) (h : [a, b].Sublist xs) :
    [a, b].Sublist (sortBy le xs) := by
  have haa : le a a = true := htr _ _ _ hab hba
  have h1 : ([a, b].filter (fun c => le a c && le c a)).Sublist
      (xs.filter (fun c => le a c && le c a)) := h.filter _
  rw [← sortBy_filter_equiv htr a xs] at h1
  have h2 : [a, b].filter (fun c => le a c && le c a) = [a, b] := by
    simp [haa, hab, hba]
  rw [h2] at h1
  exact h1.trans List.filter_sublist

/-- Two lists that are permutations of each other, both ordered by a total transitive `le`, and
agree on the order inside every tie class, are equal. -/
theorem eq_of_perm_pairwise_filter {le : α → α → Bool} (htot : Total le) :
    ∀ {ys zs : List α}, ys.Perm zs →
      ys.Pairwise (fun a b => le a b = true) → zs.Pairwise (fun a b => le a b = true) →
      (∀ a, ys.filter (fun b => le a b && le b a) = zs.filter (fun b => le a b && le b a)) →
      ys = zs := by
  intro ys
  induction ys with
  | nil => intro zs hp _ _ _; exact (List.Perm.nil_eq hp)
  | cons y ys ih =>
    intro zs hp hys hzs hf
    cases zs with
    | nil => exact absurd hp.length_eq (by simp)
    | cons z zs =>
      rw [List.pairwise_cons] at hys hzs
      have hyy : le y y = true := htot.refl y
      have hyz : y = z := by
        have hfy := hf y
        by_cases hz : (le y z && le z y) = true
        · have h := hfy
          simp [hyy, hz] at h
          exact h.1
        · -- otherwise both `le y z` and `le z y` follow from orderedness
          have hz_mem : z ∈ y :: ys := hp.mem_iff.2 (List.mem_cons_self ..)
          have hy_mem : y ∈ z :: zs := hp.mem_iff.1 (List.mem_cons_self ..)
          rcases List.mem_cons.1 hz_mem with h | h
          · exact h.symm
          · rcases List.mem_cons.1 hy_mem with h' | h'
            · exact h'
            · exact absurd (by simp [hys.1 z h, hzs.1 y h']) hz
      subst hyz
      have hp' : ys.Perm zs := List.Perm.cons_inv hp
      congr 1
      refine ih hp' hys.2 hzs.2 ?_
      intro a
      have := hf a
      rw [List.filter_cons, List.filter_cons] at this
      split at this
      · exact List.cons.inj this |>.2
      · exact this

/-- **Uniqueness.**  `sortBy le xs` is the *only* list that is a permutation of `xs`, ordered by
`le`, and stable (keeps the input order inside every tie class). -/
theorem eq_sortBy_of_perm_pairwise_stable {le : α → α → Bool} (htot : Total le) (htr : Trans le)
    {xs ys : List α} (hp : ys.Perm xs) (hs : ys.Pairwise (fun a b => le a b = true))
    (hst : ∀ a, ys.filter (fun b => le a b && le b a) = xs.filter (fun b => le a b && le b a)) :
    ys = sortBy le xs :=
  eq_of_perm_pairwise_filter htot (hp.trans (sortBy_perm le xs).symm) hs
    (sortBy_pairwise htot htr xs) (fun a => (hst a).trans (sortBy_filter_equiv htr a xs).symm)

/-- The always-true comparator leaves the list alone (facility rule MW). -/
theorem sortBy_true (xs : List α) : sortBy (fun _ _ => true) xs = xs := by
  induction xs with
  | nil => rfl
  | cons x xs ih =>
    unfold sortBy; rw [ih]
    cases xs <;> simp [insertBy]

/-! ### Key-based packaging -/

/-- `out` is the **stable sort of `inp` by `key` with respect to the key order `r`**:
* `perm`: `out` is a permutation of `inp`;
* `sorted`: keys are `r`-ordered along `out` (every element's key is `r` every later one's);
* `stable`: for every key value `c`, the elements whose key equals `c` appear in `out` in exactly
  the order in which they appear in `inp` (this is Python's guarantee for `sorted(key=…)` and for
  `sorted(key=…, reverse=True)`). -/
structure StableSortedBy {κ : Type} [DecidableEq κ] (r : κ → κ → Prop) (key : α → κ)
    (inp out : List α) : Prop where
  perm : out.Perm inp
  sorted : out.Pairwise (fun a b => r (key a) (key b))
  stable : ∀ c : κ, out.filter (fun b => key b == c) = inp.filter (fun b => key b == c)

/-- A total order on keys (as needed for sorting by key). -/
structure TotalOrder {κ : Type} (r : κ → κ → Prop) : Prop where
  total : ∀ x y, r x y ∨ r y x
  trans : ∀ x y z, r x y → r y z → r x z
  antisymm : ∀ x y, r x y → r y x → x = y

theorem TotalOrder.refl {κ : Type} {r : κ → κ → Prop} (h : TotalOrder r) (x : κ) : r x x := by
  cases h.total x x <;> assumption

/-- the reverse of a total order is a total order (for `reverse=True`) -/
theorem TotalOrder.flip {κ : Type} {r : κ → κ → Prop} (h : TotalOrder r) :
    TotalOrder (fun x y => r y x) where
  total x y := (h.total x y).symm
  trans x y z hxy hyz := h.trans z y x hyz hxy
  antisymm x y hxy hyx := h.antisymm x y hyx hxy

/-- a comparator that decides a total order on keys is total -/
theorem total_of_key {κ : Type} {r : κ → κ → Prop} (hr : TotalOrder r)
    {le : α → α → Bool} {key : α → κ} (hle : ∀ a b, le a b = true ↔ r (key a) (key b)) :
    Total le := fun a b => by
  rw [hle, hle]; exact hr.total _ _

/-- a comparator that decides a total order on keys is transitive -/
theorem trans_of_key {κ : Type} {r : κ → κ → Prop} (hr : TotalOrder r)
    {le : α → α → Bool} {key : α → κ} (hle : ∀ a b, le a b = true ↔ r (key a) (key b)) :
    Trans le := fun a b c => by
  rw [hle, hle, hle]; exact hr.trans _ _ _

/-- If the comparator `le` decides "key a `r` key b" for a total order `r` on keys, then
`sortBy le` is the stable sort by that key. -/
theorem stableSortedBy_sortBy {κ : Type} [DecidableEq κ] {r : κ → κ → Prop} (hr : TotalOrder r)
    {le : α → α → Bool} {key : α → κ} (hle : ∀ a b, le a b = true ↔ r (key a) (key b))
    (xs : List α) : StableSortedBy r key xs (sortBy le xs) := by
  have htot : Total le := total_of_key hr hle
  have htr : Trans le := trans_of_key hr hle
  refine ⟨sortBy_perm le xs, ?_, ?_⟩
  · exact (sortBy_pairwise htot htr xs).imp (fun h => (hle _ _).1 h)
  · intro c
    by_cases hc : ∃ a ∈ xs, key a = c
    · obtain ⟨a, _, rfl⟩ := hc
      have hfun : (fun b => key b == key a) = (fun b => le a b && le b a) := by
        funext b
        rw [Bool.eq_iff_iff]
        simp only [beq_iff_eq, Bool.and_eq_true, hle]
        constructor
        · intro h; rw [h]; exact ⟨hr.refl _, hr.refl _⟩
        · intro h; exact hr.antisymm _ _ h.2 h.1
      rw [hfun]
      exact sortBy_filter_equiv htr a xs
    · have h1 : xs.filter (fun b => key b == c) = [] := by
        rw [List.filter_eq_nil_iff]
        intro a ha hk
        exact hc ⟨a, ha, by simpa using hk⟩
      have h2 : (sortBy le xs).filter (fun b => key b == c) = [] := by
        rw [List.filter_eq_nil_iff]
        intro a ha hk
        exact hc ⟨a, mem_sortBy.1 ha, by simpa using hk⟩
      rw [h1, h2]

/-- A stable sort by key is unique: there is exactly one list with the three properties. -/
theorem StableSortedBy.unique {κ : Type} [DecidableEq κ] {r : κ → κ → Prop} (hr : TotalOrder r)
    {key : α → κ} {inp out₁ out₂ : List α}
    (h₁ : StableSortedBy r key inp out₁) (h₂ : StableSortedBy r key inp out₂) : out₁ = out₂ := by
  let le : α → α → Bool := fun a b => @decide (r (key a) (key b)) (Classical.propDecidable _)
  have hle : ∀ a b, le a b = true ↔ r (key a) (key b) := fun a b => by simp [le]
  have htot : Total le := fun a b => by rw [hle, hle]; exact hr.total _ _
  have hfun : ∀ a, (fun b => le a b && le b a) = (fun b => key b == key a) := by
    intro a; funext b
    rw [Bool.eq_iff_iff]
    simp only [beq_iff_eq, Bool.and_eq_true, hle]
    constructor
    · intro h; exact hr.antisymm _ _ h.2 h.1
    · intro h; rw [h]; exact ⟨hr.refl _, hr.refl _⟩
  refine eq_of_perm_pairwise_filter htot (h₁.perm.trans h₂.perm.symm)
    (h₁.sorted.imp (fun h => (hle _ _).2 h)) (h₂.sorted.imp (fun h => (hle _ _).2 h)) ?_
  intro a
  rw [hfun a, h₁.stable, h₂.stable]

/-! ### Orders on keys -/

open PDesy

theorem ratLe_totalOrder : TotalOrder (fun a b : Rat => a ≤ b) where
  total := fun _ _ => Rat.le_total
  trans := fun _ _ _ => Rat.le_trans
  antisymm := fun _ _ => Rat.le_antisymm

/-- descending order on `Rat` (`reverse=True`) -/
theorem ratGe_totalOrder : TotalOrder (fun a b : Rat => b ≤ a) := ratLe_totalOrder.flip

/-- `a ≤ b` on extended rationals, as a proposition: the usual order on `fin`, with `inf` on top. -/
def ExtLe (a b : ExtRat) : Prop := a.le b = true

theorem extLe_totalOrder : TotalOrder ExtLe where
  total := by
    intro x y; cases x <;> cases y <;> simp [ExtLe, ExtRat.le, Rat.le_total]
  trans := by
    intro x y z; cases x <;> cases y <;> cases z <;> simp [ExtLe, ExtRat.le]
    exact Rat.le_trans
  antisymm := by
    intro x y; cases x <;> cases y <;> simp [ExtLe, ExtRat.le]
    exact Rat.le_antisymm

/-- Lexicographic product of two orders: strictly smaller first component, or equal first
components and `rb` on the second. -/
def LexProd {α β : Type} (ra : α → α → Prop) (rb : β → β → Prop) (x y : α × β) : Prop :=
  (ra x.1 y.1 ∧ x.1 ≠ y.1) ∨ (x.1 = y.1 ∧ rb x.2 y.2)

theorem lexProd_totalOrder {α β : Type} {ra : α → α → Prop} {rb : β → β → Prop}
    (ha : TotalOrder ra) (hb : TotalOrder rb) : TotalOrder (LexProd ra rb) where
  total := by
    rintro ⟨a1, b1⟩ ⟨a2, b2⟩
    simp only [LexProd]
    by_cases h : a1 = a2
    · subst h
      rcases hb.total b1 b2 with h | h
      · exact Or.inl (Or.inr ⟨rfl, h⟩)
      · exact Or.inr (Or.inr ⟨rfl, h⟩)
    · rcases ha.total a1 a2 with h' | h'
      · exact Or.inl (Or.inl ⟨h', h⟩)
      · exact Or.inr (Or.inl ⟨h', Ne.symm h⟩)
  trans := by
    rintro ⟨a1, b1⟩ ⟨a2, b2⟩ ⟨a3, b3⟩
    simp only [LexProd]
    rintro (⟨h12, n12⟩ | ⟨rfl, h12⟩) (⟨h23, n23⟩ | ⟨rfl, h23⟩)
    · refine Or.inl ⟨ha.trans _ _ _ h12 h23, ?_⟩
      rintro rfl
      exact n12 (ha.antisymm _ _ h12 h23)
    · exact Or.inl ⟨h12, n12⟩
    · exact Or.inl ⟨h23, n23⟩
    · exact Or.inr ⟨rfl, hb.trans _ _ _ h12 h23⟩
  antisymm := by
    rintro ⟨a1, b1⟩ ⟨a2, b2⟩
    simp only [LexProd]
    rintro (⟨h12, n12⟩ | ⟨rfl, h12⟩) (⟨h21, n21⟩ | ⟨h, h21⟩)
    · exact absurd (ha.antisymm _ _ h12 h21) n12
    · exact absurd h.symm n12
    · exact absurd rfl n21
    · rw [hb.antisymm _ _ h12 h21]

/-- strict order on extended rationals -/
def ExtLt (a b : ExtRat) : Prop := ExtLe a b ∧ a ≠ b

/-- Lexicographic order on triples of extended rationals (Python tuple comparison `a <= b`):
the first differing component decides. -/
def Lex3 (a b : ExtRat × ExtRat × ExtRat) : Prop :=
  ExtLt a.1 b.1 ∨ (a.1 = b.1 ∧ (ExtLt a.2.1 b.2.1 ∨ (a.2.1 = b.2.1 ∧ ExtLe a.2.2 b.2.2)))

theorem lex3_eq_lexProd : Lex3 = LexProd ExtLe (LexProd ExtLe ExtLe) := rfl

theorem extRat_lt_iff (a b : ExtRat) : a.lt b = true ↔ ExtLt a b := by
  simp only [ExtRat.lt, Bool.and_eq_true, Bool.not_eq_true', ExtLt]
  constructor
  · rintro ⟨h1, h2⟩
    refine ⟨h1, ?_⟩
    rintro rfl
    rw [show a.le a = true from extLe_totalOrder.refl a] at h2
    exact Bool.noConfusion h2
  · rintro ⟨h1, h2⟩
    refine ⟨h1, ?_⟩
    cases h : b.le a
    · rfl
    · exact absurd (extLe_totalOrder.antisymm a b h1 h) h2

theorem not_extLt_symm {a b : ExtRat} (h1 : ¬ ExtLt a b) (h2 : ¬ ExtLt b a) : a = b := by
  rcases extLe_totalOrder.total a b with h | h
  · exact Classical.byContradiction (fun hne => h1 ⟨h, hne⟩)
  · exact Classical.byContradiction (fun hne => h2 ⟨h, fun e => hne e.symm⟩)

theorem lex3Le_iff (a b : ExtRat × ExtRat × ExtRat) : lex3Le a b = true ↔ Lex3 a b := by
  obtain ⟨a1, a2, a3⟩ := a
  obtain ⟨b1, b2, b3⟩ := b
  simp only [lex3Le, Lex3]
  by_cases h1 : ExtLt a1 b1
  · simp [h1, (extRat_lt_iff a1 b1).2 h1]
  · have l1 : ¬ (a1.lt b1 = true) := fun h => h1 ((extRat_lt_iff _ _).1 h)
    by_cases h1' : ExtLt b1 a1
    · have : a1 ≠ b1 := fun e => h1'.2 e.symm
      simp [h1, l1, (extRat_lt_iff b1 a1).2 h1', this]
    · have l1' : ¬ (b1.lt a1 = true) := fun h => h1' ((extRat_lt_iff _ _).1 h)
      have e1 := not_extLt_symm h1 h1'
      subst e1
      by_cases h2 : ExtLt a2 b2
      · simp [h1, l1, h2, (extRat_lt_iff a2 b2).2 h2]
      · have l2 : ¬ (a2.lt b2 = true) := fun h => h2 ((extRat_lt_iff _ _).1 h)
        by_cases h2' : ExtLt b2 a2
        · have : a2 ≠ b2 := fun e => h2'.2 e.symm
          simp [h1, l1, h2, l2, (extRat_lt_iff b2 a2).2 h2', this]
        · have l2' : ¬ (b2.lt a2 = true) := fun h => h2' ((extRat_lt_iff _ _).1 h)
          have e2 := not_extLt_symm h2 h2'
          subst e2
          simp [h1, l1, h2, l2, ExtLe]


theorem lex3_totalOrder : TotalOrder Lex3 :=
  lexProd_totalOrder extLe_totalOrder (lexProd_totalOrder extLe_totalOrder extLe_totalOrder)

/-! ### The model's comparators are total preorders -/

theorem extRat_le_total : Total ExtRat.le :=
  total_of_key (key := id) extLe_totalOrder (fun _ _ => Iff.rfl)

theorem extRat_le_trans : Trans ExtRat.le :=
  trans_of_key (key := id) extLe_totalOrder (fun _ _ => Iff.rfl)

theorem lex3Le_total : Total lex3Le :=
  total_of_key (key := id) lex3_totalOrder lex3Le_iff

theorem lex3Le_trans : Trans lex3Le :=
  trans_of_key (key := id) lex3_totalOrder lex3Le_iff

/-- `taskLe` compares the `taskKey`s, ascending or descending as `taskRuleDesc` says. -/
theorem taskLe_iff (m : Model) (l : Live) (lg : Logs) (rule : TaskRule) (a b : Nat) :
    taskLe m l lg rule a b = true ↔
      (if taskRuleDesc rule then taskKey m l lg rule b ≤ taskKey m l lg rule a
       else taskKey m l lg rule a ≤ taskKey m l lg rule b) := by
  unfold taskLe; split <;> simp

theorem taskLe_total (m : Model) (l : Live) (lg : Logs) (rule : TaskRule) :
    Total (taskLe m l lg rule) := by
  cases h : taskRuleDesc rule
  · exact total_of_key (key := taskKey m l lg rule) ratLe_totalOrder
      (fun a b => by simp [taskLe_iff, h])
  · exact total_of_key (key := taskKey m l lg rule) ratGe_totalOrder
      (fun a b => by simp [taskLe_iff, h])

theorem taskLe_trans (m : Model) (l : Live) (lg : Logs) (rule : TaskRule) :
    Trans (taskLe m l lg rule) := by
  cases h : taskRuleDesc rule
  · exact trans_of_key (key := taskKey m l lg rule) ratLe_totalOrder
      (fun a b => by simp [taskLe_iff, h])
  · exact trans_of_key (key := taskKey m l lg rule) ratGe_totalOrder
      (fun a b => by simp [taskLe_iff, h])

theorem workerLe_iff (m : Model) (rule : ResRule) (name : Nat) (target : Option Nat) (a b : Nat) :
    workerLe m rule name target a b = true ↔
      Lex3 (workerKey m rule name target a) (workerKey m rule name target b) :=
  lex3Le_iff _ _

theorem workerLe_total (m : Model) (rule : ResRule) (name : Nat) (target : Option Nat) :
    Total (workerLe m rule name target) :=
  total_of_key lex3_totalOrder (workerLe_iff m rule name target)

theorem workerLe_trans (m : Model) (rule : ResRule) (name : Nat) (target : Option Nat) :
    Trans (workerLe m rule name target) :=
  trans_of_key lex3_totalOrder (workerLe_iff m rule name target)

/-- the HSV key: minus the skill for `name`, `+∞` when the skill is missing -/
def hsvKey (skills : List (Nat × Rat)) (name : Nat) : ExtRat :=
  match lookup skills name with
  | some v => .fin (-v)
  | Option.none => .inf

theorem facLe_hsv_iff (m : Model) (name : Nat) (a b : Nat) :
    facLe m .hsv name a b = true ↔
      ExtLe (hsvKey (m.fac a).skills name) (hsvKey (m.fac b).skills name) := Iff.rfl

theorem facLe_total (m : Model) (rule : ResRule) (name : Nat) : Total (facLe m rule name) := by
  cases rule
  · intro a b; simp [facLe]
  · exact total_of_key (key := fun f => sumVals (m.fac f).skills) ratLe_totalOrder
      (fun a b => by simp [facLe])
  · exact total_of_key (key := fun f => (m.fac f).cost) ratLe_totalOrder
      (fun a b => by simp [facLe])
  · exact total_of_key extLe_totalOrder (facLe_hsv_iff m name)

theorem facLe_trans (m : Model) (rule : ResRule) (name : Nat) : Trans (facLe m rule name) := by
  cases rule
  · intro a b c; simp [facLe]
  · exact trans_of_key (key := fun f => sumVals (m.fac f).skills) ratLe_totalOrder
      (fun a b => by simp [facLe])
  · exact trans_of_key (key := fun f => (m.fac f).cost) ratLe_totalOrder
      (fun a b => by simp [facLe])
  · exact trans_of_key extLe_totalOrder (facLe_hsv_iff m name)

theorem wpLe_iff (m : Model) (l : Live) (rule : WpRule) (name : Nat) (a b : Nat) :
    wpLe m l rule name a b = true ↔ wpKey m l rule name b ≤ wpKey m l rule name a := by
  simp [wpLe]

theorem wpLe_total (m : Model) (l : Live) (rule : WpRule) (name : Nat) :
    Total (wpLe m l rule name) :=
  total_of_key ratGe_totalOrder (wpLe_iff m l rule name)

theorem wpLe_trans (m : Model) (l : Live) (rule : WpRule) (name : Nat) :
    Trans (wpLe m l rule name) :=
  trans_of_key ratGe_totalOrder (wpLe_iff m l rule name)

/-! ### Permutation facts for the four sorting functions (convenience) -/

theorem sortTasks_perm (m : Model) (l : Live) (lg : Logs) (rule : TaskRule) (ts : List Nat) :
    (sortTasks m l lg rule ts).Perm ts := sortBy_perm _ _

theorem sortWorkers_perm (m : Model) (rule : ResRule) (name : Nat) (target : Option Nat)
    (ws : List Nat) : (sortWorkers m rule name target ws).Perm ws := sortBy_perm _ _

theorem sortFacs_perm (m : Model) (rule : ResRule) (name : Nat) (fs : List Nat) :
    (sortFacs m rule name fs).Perm fs := sortBy_perm _ _

theorem sortWps_perm (m : Model) (l : Live) (rule : WpRule) (name : Nat) (ps : List Nat) :
    (sortWps m l rule name ps).Perm ps := sortBy_perm _ _

@[simp] theorem mem_sortTasks {m : Model} {l : Live} {lg : Logs} {rule : TaskRule}
    {ts : List Nat} {t : Nat} : t ∈ sortTasks m l lg rule ts ↔ t ∈ ts := mem_sortBy

@[simp] theorem mem_sortWorkers {m : Model} {rule : ResRule} {name : Nat} {target : Option Nat}
    {ws : List Nat} {w : Nat} : w ∈ sortWorkers m rule name target ws ↔ w ∈ ws := mem_sortBy

@[simp] theorem mem_sortFacs {m : Model} {rule : ResRule} {name : Nat} {fs : List Nat} {f : Nat} :
    f ∈ sortFacs m rule name fs ↔ f ∈ fs := mem_sortBy

@[simp] theorem mem_sortWps {m : Model} {l : Live} {rule : WpRule} {name : Nat} {ps : List Nat}
    {p : Nat} : p ∈ sortWps m l rule name ps ↔ p ∈ ps := mem_sortBy

@[simp] theorem hsvKey_of_some {skills : List (Nat × Rat)} {name : Nat} {v : Rat}
    (h : lookup skills name = some v) : hsvKey skills name = .fin (-v) := by
  simp [hsvKey, h]

@[simp] theorem hsvKey_of_none {skills : List (Nat × Rat)} {name : Nat}
    (h : lookup skills name = Option.none) : hsvKey skills name = .inf := by
  simp [hsvKey, h]

/-- Ascending `hsvKey` means: whenever the later element has the skill, the earlier one has it
too, with a value at least as high (missing skills go last, higher skills first). -/
theorem extLe_hsvKey_iff (sa sb : List (Nat × Rat)) (name : Nat) :
    ExtLe (hsvKey sa name) (hsvKey sb name) ↔
      ∀ v, lookup sb name = some v → ∃ u, lookup sa name = some u ∧ v ≤ u := by
  unfold hsvKey ExtLe
  cases ha : lookup sa name <;> cases hb : lookup sb name <;> simp [ExtRat.le, Rat.neg_le_neg_iff]

/-- the first component of a lexicographically ordered pair of triples is ordered -/
theorem Lex3.fst {a b : ExtRat × ExtRat × ExtRat} (h : Lex3 a b) : ExtLe a.1 b.1 := by
  rcases h with h | ⟨h, _⟩
  · exact h.1
  · rw [h]; exact extLe_totalOrder.refl _

end PDesy.Sort
