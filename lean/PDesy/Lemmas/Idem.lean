/-
  PDesy.Lemmas.Idem — helper lemmas for C15 (pause / resume):
  * the loop does not look at `status`, its result does not depend on the amount of fuel
    as long as there is enough of it, and it only reads `rule/absence/autoFlag/maxTime`
    of its parameters;
  * the `__update` block is idempotent on its own output (`update_idem`), phase by phase:
    `check_state(FINISHED)` reaches a fixpoint, `product.check_state`,
    `check_removing_placed_workplace`, `check_state(READY)` find nothing more to do, and
    the PERT recomputation reads nothing stale when no remaining work amount is negative.
-/
import PDesy.Lemmas.Lifecycle

namespace PDesy
namespace Idem

open Lifecycle

/-! ### the loop: one unfolding, fuel irrelevance, congruences -/

theorem ite3_congr {α β : Type} (f : β → α) {c d : Prop} [Decidable c] [Decidable d]
    {a b e : α} {a' b' e' : β}
    (h1 : c → a = f a') (h2 : ¬ c → d → b = f b') (h3 : ¬ c → ¬ d → e = f e') :
    (if c then a else if d then b else e) = f (if c then a' else if d then b' else e') := by
  by_cases hc : c
  · rw [if_pos hc, if_pos hc]; exact h1 hc
  · rw [if_neg hc, if_neg hc]
    by_cases hd : d
    · rw [if_pos hd, if_pos hd]; exact h2 hc hd
    · rw [if_neg hd, if_neg hd]; exact h3 hc hd

section loop
variable (m : Model) (p : Params)

/-- one unfolding of the loop -/
theorem loop_succ (fuel : Nat) (s : St) :
    loop m p (fuel + 1) s =
      if allFinished m (updated m s).live then { updated m s with status := .success }
      else if s.time ≥ p.maxTime then { updated m s with status := .failure }
      else loop m p fuel (stepBody m p (updated m s)) := rfl

theorem stepBody_time (s : St) : (stepBody m p s).time = s.time + 1 := rfl

theorem fuelOf_pos (s : St) : 0 < fuelOf p s := by unfold fuelOf; omega

theorem fuelOf_step (s : St) (h : ¬ s.time ≥ p.maxTime) :
    fuelOf p (stepBody m p (updated m s)) + 1 = fuelOf p s := by
  unfold fuelOf
  rw [stepBody_time]
  show p.maxTime - (s.time + 1) + 1 + 1 = p.maxTime - s.time + 1
  omega

/-- one more unit of fuel than needed changes nothing -/
theorem loop_fuel_succ : ∀ (fuel : Nat) (s : St), fuelOf p s ≤ fuel →
    loop m p (fuel + 1) s = loop m p fuel s := by
  intro fuel
  induction fuel with
  | zero => intro s h; have := fuelOf_pos p s; omega
  | succ n ih =>
    intro s h
    rw [loop_succ m p (n + 1), loop_succ m p n]
    refine ite3_congr id (fun _ => rfl) (fun _ _ => rfl) (fun _ ht => ?_)
    apply ih
    have := fuelOf_step m p s ht
    omega

theorem loop_fuel_add (d : Nat) (fuel : Nat) (s : St) (h : fuelOf p s ≤ fuel) :
    loop m p (fuel + d) s = loop m p fuel s := by
  induction d with
  | zero => rfl
  | succ d ih =>
    rw [← Nat.add_assoc, loop_fuel_succ m p (fuel + d) s (by omega), ih]

/-- **fuel irrelevance**: any amount of fuel that is enough gives the same result -/
theorem loop_fuel (fuel : Nat) (s : St) (h : fuelOf p s ≤ fuel) :
    loop m p fuel s = loop m p (fuelOf p s) s := by
  have := loop_fuel_add m p (fuel - fuelOf p s) (fuelOf p s) s (Nat.le_refl _)
  rw [← this]
  congr 1
  omega

/-- the loop with exactly the fuel `simulate` gives it -/
def run (s : St) : St := loop m p (fuelOf p s) s

theorem run_step (s : St) :
    run m p s =
      if allFinished m (updated m s).live then { updated m s with status := .success }
      else if s.time ≥ p.maxTime then { updated m s with status := .failure }
      else run m p (stepBody m p (updated m s)) := by
  unfold run
  have h0 : fuelOf p s = (p.maxTime - s.time) + 1 := rfl
  rw [h0, loop_succ]
  split
  · rfl
  · split
    · rfl
    · rename_i _ ht
      rw [loop_fuel m p (p.maxTime - s.time)]
      have := fuelOf_step m p s ht
      omega

theorem loop_eq_run (fuel : Nat) (s : St) (h : fuelOf p s ≤ fuel) : loop m p fuel s = run m p s :=
  loop_fuel m p fuel s h

/-- the loop never reads `status` (given enough fuel to reach an exit) -/
theorem loop_status (x : Status) : ∀ (fuel : Nat) (s : St), fuelOf p s ≤ fuel →
    loop m p fuel { s with status := x } = loop m p fuel s := by
  intro fuel
  induction fuel with
  | zero => intro s h; have := fuelOf_pos p s; omega
  | succ n ih =>
    intro s h
    rw [loop_succ, loop_succ]
    refine ite3_congr id (fun _ => rfl) (fun _ _ => rfl) (fun _ ht => ?_)
    have ht' : ¬ s.time ≥ p.maxTime := ht
    have hf := fuelOf_step m p s ht'
    exact ih (stepBody m p (updated m s)) (by omega)

theorem run_status (x : Status) (s : St) : run m p { s with status := x } = run m p s :=
  loop_status m p x _ s (Nat.le_refl _)

/-- `mode` is carried through untouched -/
theorem loop_mode : ∀ (fuel : Nat) (s : St), (loop m p fuel s).mode = s.mode := by
  intro fuel
  induction fuel with
  | zero => intro s; rfl
  | succ n ih =>
    intro s
    rw [loop_succ]
    split
    · rfl
    · split
      · rfl
      · rw [ih]; rfl

theorem loop_absence : ∀ (fuel : Nat) (s : St), (loop m p fuel s).absence = s.absence := by
  intro fuel
  induction fuel with
  | zero => intro s; rfl
  | succ n ih =>
    intro s
    rw [loop_succ]
    split
    · rfl
    · split
      · rfl
      · rw [ih]; rfl

theorem loop_autoFlag : ∀ (fuel : Nat) (s : St), (loop m p fuel s).autoFlag = s.autoFlag := by
  intro fuel
  induction fuel with
  | zero => intro s; rfl
  | succ n ih =>
    intro s
    rw [loop_succ]
    split
    · rfl
    · split
      · rfl
      · rw [ih]; rfl

/-- set the `mode` field -/
def setMode (x : Mode) (r : St) : St := { r with mode := x }

/-- the loop never reads `mode`: it commutes with setting it -/
theorem loop_set_mode (x : Mode) : ∀ (fuel : Nat) (s : St),
    loop m p fuel (setMode x s) = setMode x (loop m p fuel s) := by
  intro fuel
  induction fuel with
  | zero => intro s; rfl
  | succ n ih =>
    intro s
    rw [loop_succ, loop_succ]
    apply ite3_congr (setMode x)
    · intro _; rfl
    · intro _ _; rfl
    · intro _ _; exact ih (stepBody m p (updated m s))

end loop

/-- the loop reads only `rule`, `absence`, `autoFlag`, `maxTime` of its parameters -/
theorem loop_params (m : Model) (p q : Params) (h1 : q.rule = p.rule) (h2 : q.absence = p.absence)
    (h3 : q.autoFlag = p.autoFlag) (h4 : q.maxTime = p.maxTime) :
    ∀ (fuel : Nat) (s : St), loop m q fuel s = loop m p fuel s := by
  have hs : ∀ s, stepBody m q s = stepBody m p s := by
    intro s; simp only [stepBody, h1, h2, h3]
  intro fuel
  induction fuel with
  | zero => intro s; rfl
  | succ n ih =>
    intro s
    rw [loop_succ, loop_succ, h4, hs, ih]

/-- a state whose `updated` form is itself runs like the state it was computed from -/
theorem run_updated (m : Model) (p : Params) (s : St)
    (h : updated m (updated m s) = updated m s) : run m p (updated m s) = run m p s := by
  rw [run_step m p (updated m s), run_step m p s, h]
  rfl

/-- **resume, core form**: running to `k`, then running on to `p.maxTime ≥ k` from the
paused state, is running to `p.maxTime` — provided the update block is idempotent at every
state the run visits (`Inv` is any invariant of the run that implies it). -/
theorem resume_core (m : Model) (p : Params) (k : Nat) (hk : k ≤ p.maxTime) (Inv : St → Prop)
    (hupd : ∀ s, Inv s → Inv (updated m s))
    (hstep : ∀ s, Inv s → Inv (stepBody m p s))
    (hidem : ∀ s, Inv s → updated m (updated m s) = updated m s) :
    ∀ (n : Nat) (s : St), k - s.time ≤ n → Inv s →
      run m p (run m { p with maxTime := k } s) = run m p s := by
  intro n
  induction n with
  | zero =>
    intro s hn hs
    rw [run_step m { p with maxTime := k } s]
    split
    · rw [run_status, run_updated m p s (hidem s hs)]
    · rw [if_pos (show s.time ≥ k by omega), run_status, run_updated m p s (hidem s hs)]
  | succ n ih =>
    intro s hn hs
    rw [run_step m { p with maxTime := k } s]
    split
    · rw [run_status, run_updated m p s (hidem s hs)]
    · rename_i hf
      split
      · rw [run_status, run_updated m p s (hidem s hs)]
      · rename_i ht
        have ht' : ¬ s.time ≥ k := ht
        have hstepEq : stepBody m { p with maxTime := k } (updated m s) = stepBody m p (updated m s) := rfl
        rw [hstepEq, ih _ (by rw [stepBody_time]; show k - (s.time + 1) ≤ n; omega)
          (hstep _ (hupd _ hs))]
        rw [run_step m p s, if_neg hf, if_neg (show ¬ s.time ≥ p.maxTime by omega)]

/-! ### `check_state(FINISHED)` reaches a fixpoint -/

theorem filter_length_le {α : Type} (P Q : α → Bool) (xs : List α)
    (h : ∀ x ∈ xs, P x = true → Q x = true) : (xs.filter P).length ≤ (xs.filter Q).length := by
  induction xs with
  | nil => simp
  | cons x xs ih =>
    have ih' := ih (fun y hy => h y (List.mem_cons_of_mem _ hy))
    have hx := h x (List.mem_cons_self ..)
    simp only [List.filter_cons]
    cases hp : P x <;> cases hq : Q x <;> simp_all <;> omega

theorem filter_length_lt {α : Type} (P Q : α → Bool) (xs : List α)
    (h : ∀ x ∈ xs, P x = true → Q x = true) (a : α) (ha : a ∈ xs) (hpa : P a = false)
    (hqa : Q a = true) : (xs.filter P).length < (xs.filter Q).length := by
  induction xs with
  | nil => simp at ha
  | cons x xs ih =>
    have hle := filter_length_le P Q xs (fun y hy => h y (List.mem_cons_of_mem _ hy))
    have hx := h x (List.mem_cons_self ..)
    simp only [List.filter_cons]
    rcases List.mem_cons.mp ha with rfl | ha'
    · simp [hpa, hqa]; omega
    · have ih' := ih (fun y hy => h y (List.mem_cons_of_mem _ hy)) ha'
      cases hp : P x <;> cases hq : Q x <;> simp_all <;> omega

theorem finishedCount_le (n : Nat) (l : Live) : finishedCount n l ≤ n := by
  unfold finishedCount
  have := List.length_filter_le (fun t => l.tstate t == .finished) (List.range n)
  simpa using this

theorem finishedCount_mono (n : Nat) {l l' : Live} (h : Mono l.tstate l'.tstate) :
    finishedCount n l ≤ finishedCount n l' := by
  unfold finishedCount
  apply filter_length_le
  intro t _ ht
  simp only [beq_iff_eq] at ht ⊢
  exact Mono.finished h ht

theorem finishedCount_lt (n : Nat) {l l' : Live} (h : Mono l.tstate l'.tstate) (t : Nat) (ht : t < n)
    (h1 : l.tstate t ≠ .finished) (h2 : l'.tstate t = .finished) :
    finishedCount n l < finishedCount n l' := by
  unfold finishedCount
  apply filter_length_lt _ _ _ _ t (List.mem_range.mpr ht)
  · simpa using h1
  · simpa using h2
  · intro t _ ht
    simp only [beq_iff_eq] at ht ⊢
    exact Mono.finished h ht

/-- no task below `m.nT` can be finished by `check_state(FINISHED)` -/
def NoCand (m : Model) (l : Live) : Prop :=
  ∀ t, t < m.nT → (finishCand l t && finishGate m l.tstate t) = false

variable (m : Model)

theorem finStep_of_not (acc : Live) (t : Nat)
    (h : (finishCand acc t && finishGate m acc.tstate t) = false) : finStep m acc t = acc := by
  unfold finStep; rw [h]; rfl

theorem finStep_count_lt (acc : Live) (t : Nat) (ht : t < m.nT)
    (h : (finishCand acc t && finishGate m acc.tstate t) = true) :
    finishedCount m.nT acc < finishedCount m.nT (finStep m acc t) := by
  apply finishedCount_lt m.nT (finStep_mono m acc t) t ht
  · simp only [Bool.and_eq_true, finishCand, beq_iff_eq] at h
    rw [h.1.1]; intro hh; cases hh
  · unfold finStep; rw [if_pos h, finishOne_tstate]; simp

theorem foldl_finStep_mono (order : List Nat) (l : Live) :
    Mono l.tstate (order.foldl (finStep m) l).tstate := finishPass_mono m order l

/-- a pass that does not raise the number of FINISHED tasks did nothing, and there was
nothing it could have done -/
theorem pass_fix (order : List Nat) (ho : ∀ t ∈ order, t < m.nT) (l : Live)
    (h : finishedCount m.nT (order.foldl (finStep m) l) = finishedCount m.nT l) :
    order.foldl (finStep m) l = l ∧
      ∀ t ∈ order, (finishCand l t && finishGate m l.tstate t) = false := by
  induction order generalizing l with
  | nil => exact ⟨rfl, fun _ h => by simp at h⟩
  | cons t ts ih =>
    rw [List.foldl_cons] at h ⊢
    have hmono := finishedCount_mono m.nT (foldl_finStep_mono m ts (finStep m l t))
    by_cases hc : (finishCand l t && finishGate m l.tstate t) = true
    · have := finStep_count_lt m l t (ho t (List.mem_cons_self ..)) hc
      omega
    · have hc' : (finishCand l t && finishGate m l.tstate t) = false := by simpa using hc
      have he := finStep_of_not m l t hc'
      rw [he] at h ⊢
      obtain ⟨h1, h2⟩ := ih (fun x hx => ho x (List.mem_cons_of_mem _ hx)) l h
      refine ⟨h1, ?_⟩
      intro x hx
      rcases List.mem_cons.mp hx with rfl | hx
      · exact hc'
      · exact h2 x hx

theorem range_lt (n : Nat) : ∀ t ∈ List.range n, t < n := fun _ h => List.mem_range.mp h

theorem finishPass_noCand (l : Live) (h : NoCand m l) : finishPass m (List.range m.nT) l = l := by
  rw [finishPass_eq]
  generalize hxs : List.range m.nT = xs
  have hx : ∀ t ∈ xs, t < m.nT := by rw [← hxs]; exact range_lt _
  clear hxs
  induction xs with
  | nil => rfl
  | cons t ts ih =>
    rw [List.foldl_cons, finStep_of_not m l t (h t (hx t (List.mem_cons_self ..)))]
    exact ih (fun x hx' => hx x (List.mem_cons_of_mem _ hx'))

/-- with fuel above the number of still unfinished tasks the closure stops at a fixpoint -/
theorem finishClosure_noCand : ∀ (fuel : Nat) (l : Live), m.nT - finishedCount m.nT l < fuel →
    NoCand m (finishClosure m (List.range m.nT) fuel l) := by
  intro fuel
  induction fuel with
  | zero => intro l h; omega
  | succ n ih =>
    intro l h
    simp only [finishClosure]
    split
    · rename_i he
      rw [finishPass_eq] at he ⊢
      obtain ⟨h1, h2⟩ := pass_fix m _ (range_lt _) l he
      rw [h1]
      intro t ht
      exact h2 t (List.mem_range.mpr ht)
    · rename_i hne
      apply ih
      have h1 := finishedCount_mono m.nT (finishPass_mono m (List.range m.nT) l)
      have h2 := finishedCount_le m.nT (finishPass m (List.range m.nT) l)
      omega

theorem NoCand_congr {l l' : Live} (ht : l'.tstate = l.tstate) (hr : l'.rem = l.rem)
    (h : NoCand m l) : NoCand m l' := by
  intro t hlt
  have := h t hlt
  simpa [finishCand, ht, hr] using this

/-- **fixpoint**: after `check_state(FINISHED)` nothing more can be finished -/
theorem chkFinished_noCand (l : Live) : NoCand m (chkFinished m l) := by
  have h := finishClosure_noCand m (m.nT + 1) l (by omega)
  refine NoCand_congr m ?_ ?_ h
  · simp [chkFinished, chkFinishedOrd]
  · simp [chkFinished, chkFinishedOrd]

/-- `check_state(FINISHED)` is the identity on a state where nothing can be finished -/
theorem chkFinished_of_noCand (l : Live) (h : NoCand m l) : chkFinished m l = l := by
  have hp := finishPass_noCand m l h
  have hc : finishClosure m (List.range m.nT) (m.nT + 1) l = l := by
    simp only [finishClosure, hp, if_true]
  simp only [chkFinished, chkFinishedOrd, hc, tabN_eq]


/-! ### task states that differ only by NONE → READY -/

/-- `ts'` differs from `ts` only by NONE → READY -/
def NR (ts ts' : Nat → TS) : Prop := ∀ t, ts' t = ts t ∨ (ts t = .none ∧ ts' t = .ready)

theorem NR.refl (ts : Nat → TS) : NR ts ts := fun _ => Or.inl rfl

theorem NR.finished {ts ts' : Nat → TS} (h : NR ts ts') (t : Nat) :
    (ts' t == .finished) = (ts t == .finished) := by
  rcases h t with h | ⟨h1, h2⟩
  · rw [h]
  · rw [h1, h2]; rfl

theorem NR.working {ts ts' : Nat → TS} (h : NR ts ts') (t : Nat) :
    (ts' t == .working) = (ts t == .working) := by
  rcases h t with h | ⟨h1, h2⟩
  · rw [h]
  · rw [h1, h2]; rfl

theorem NR.started {ts ts' : Nat → TS} (h : NR ts ts') (t : Nat) :
    (ts' t).started = (ts t).started := by
  rcases h t with h | ⟨h1, h2⟩
  · rw [h]
  · rw [h1, h2]; rfl

section gates
variable (m : Model)

theorem finishGate_congr {ts ts' : Nat → TS} (h1 : ∀ t, (ts' t == .finished) = (ts t == .finished))
    (h2 : ∀ t, (ts' t).started = (ts t).started) (t : Nat) :
    finishGate m ts' t = finishGate m ts t := by
  unfold finishGate
  congr 1
  funext e
  obtain ⟨q, d⟩ := e
  cases d <;> simp only [h1, h2]

theorem readyGate_congr {ts ts' : Nat → TS} (h1 : ∀ t, (ts' t == .finished) = (ts t == .finished))
    (h2 : ∀ t, (ts' t).started = (ts t).started) (t : Nat) :
    readyGate m ts' t = readyGate m ts t := by
  unfold readyGate
  congr 1
  funext e
  obtain ⟨q, d⟩ := e
  cases d <;> simp only [h1, h2]

theorem chkReady_NR (l : Live) : NR l.tstate (chkReady m l).tstate := by
  intro t
  rw [chkReady_tstate]
  split
  · rename_i h
    simp only [Bool.and_eq_true, beq_iff_eq] at h
    exact Or.inr ⟨h.1.2, rfl⟩
  · exact Or.inl rfl

/-- (a) nothing becomes finishable by NONE → READY changes -/
theorem NoCand_NR {l l' : Live} (h : NoCand m l) (hn : NR l.tstate l'.tstate) (hr : l'.rem = l.rem) :
    NoCand m l' := by
  intro t ht
  have := h t ht
  rw [finishGate_congr m hn.finished hn.started]
  simpa [finishCand, hn.working t, hr] using this

/-- (d) `check_state(READY)` finds nothing to do on its own output -/
theorem chkReady_fix (l l' : Live) (h : l'.tstate = (chkReady m l).tstate) : chkReady m l' = l' := by
  have hn : NR l.tstate l'.tstate := h ▸ chkReady_NR m l
  have key : ∀ t, (if t < m.nT && l'.tstate t == .none && readyGate m l'.tstate t then TS.ready
      else l'.tstate t) = l'.tstate t := by
    intro t
    split
    · rename_i hc
      exfalso
      simp only [Bool.and_eq_true, beq_iff_eq, decide_eq_true_eq] at hc
      obtain ⟨⟨hlt, h0⟩, hg⟩ := hc
      rw [readyGate_congr m hn.finished hn.started] at hg
      have hv := chkReady_tstate m l t
      rw [← h, h0] at hv
      split at hv
      · cases hv
      · rename_i hc'
        apply hc'
        simp [hlt, hg, ← hv]
    · rfl
  unfold chkReady
  rw [tabN_eq, funext key]

/-! ### (b) `product.check_state` -/

theorem compNext_congr {l l' : Live} (ht : l'.tstate = l.tstate) (c : Nat)
    (hc : l'.cstate c = l.cstate c) : compNext m l' c = compNext m l c := by
  unfold compNext
  simp only [ht, hc]

/-- `compNext` after `compCheck` gives the same value again -/
theorem compNext_compCheck (l : Live) (c : Nat) (hc : c < m.nC) :
    compNext m (compCheck m l) c = compNext m l c := by
  by_cases hF : ∀ t ∈ (m.comp c).tasks, l.tstate t = .finished
  · rw [compNext_fin m _ c (by simpa using hF), compNext_fin m l c hF]
  · rw [compNext_notfin m _ c (by simpa using hF), compNext_notfin m l c hF]
    by_cases hW : ∃ t ∈ (m.comp c).tasks, l.tstate t = .working
    · have hW' : ∃ t ∈ (m.comp c).tasks, (compCheck m l).tstate t = .working := hW
      rw [if_pos hW, if_pos hW']
    · have hW' : ¬ ∃ t ∈ (m.comp c).tasks, (compCheck m l).tstate t = .working := hW
      rw [if_neg hW, if_neg hW']
      by_cases hR : ∃ t ∈ (m.comp c).tasks, l.tstate t = .ready
      · have hR' : ∃ t ∈ (m.comp c).tasks, (compCheck m l).tstate t = .ready := hR
        rw [if_pos hR, if_pos hR']
      · have hR' : ¬ ∃ t ∈ (m.comp c).tasks, (compCheck m l).tstate t = .ready := hR
        rw [if_neg hR, if_neg hR', compCheck_cstate, if_pos hc, compNext_notfin m l c hF,
          if_neg hW, if_neg hR]

theorem compCheck_fix (l l' : Live) (ht : l'.tstate = l.tstate)
    (hc : l'.cstate = (compCheck m l).cstate) : compCheck m l' = l' := by
  have key : ∀ c, (if c < m.nC then compNext m l' c else l'.cstate c) = l'.cstate c := by
    intro c
    split
    · rename_i hlt
      have h1 : compNext m l' c = compNext m (compCheck m l) c :=
        compNext_congr m (by rw [ht]; rfl) c (by rw [hc])
      rw [h1, compNext_compCheck m l c hlt, hc, compCheck_cstate, if_pos hlt]
    · rfl
  unfold compCheck
  rw [tabN_eq, funext key]

/-! ### (c) `check_removing_placed_workplace` -/

theorem removeOne_placed (l : Live) (c' c : Nat) :
    (removeOne l c').placed c = if c = c' then Option.none else l.placed c := by
  unfold removeOne
  split
  · rename_i h
    split
    · rename_i hc; rw [hc, h]
    · rfl
  · simp only [upd_apply]

theorem foldl_removeOne_placed (cs : List Nat) (l : Live) (c : Nat) :
    (cs.foldl removeOne l).placed c = if c ∈ cs then Option.none else l.placed c := by
  induction cs generalizing l with
  | nil => simp
  | cons x xs ih =>
    rw [List.foldl_cons, ih, removeOne_placed]
    by_cases h1 : c ∈ xs
    · simp [h1]
    · by_cases h2 : c = x
      · simp [h2]
      · simp [h1, h2]

theorem chkRemove_placed (l : Live) (c : Nat) :
    (chkRemove m l).placed c =
      if c < m.nC ∧ removeCand m l c = true then Option.none else l.placed c := by
  simp only [chkRemove, chkRemoveOrd, tabN_eq, foldl_removeOne_placed, List.mem_filter, List.mem_range]

theorem chkRemove_of_none (l : Live) (h : ∀ c, c < m.nC → removeCand m l c = false) :
    chkRemove m l = l := by
  have : (List.range m.nC).filter (removeCand m l) = [] := by
    rw [List.filter_eq_nil_iff]
    intro c hc
    rw [h c (List.mem_range.mp hc)]; simp
  simp only [chkRemove, chkRemoveOrd, this, List.foldl_nil, tabN_eq]

theorem chkRemove_fix (l l' : Live) (hfin : ∀ t, (l'.tstate t == .finished) = (l.tstate t == .finished))
    (hp : l'.placed = (chkRemove m l).placed) : chkRemove m l' = l' := by
  apply chkRemove_of_none
  intro c hc
  have hpc : l'.placed c = if c < m.nC ∧ removeCand m l c = true then Option.none else l.placed c := by
    rw [hp, chkRemove_placed]
  by_cases hr : removeCand m l c = true
  · rw [if_pos ⟨hc, hr⟩] at hpc
    simp [removeCand, hpc]
  · rw [if_neg (fun h => hr h.2)] at hpc
    have : removeCand m l' c = removeCand m l c := by
      simp only [removeCand, hpc, hfin]
    rw [this]; simpa using hr

end gates


end Idem
end PDesy
