/-
  PDesy.Lemmas.Idem — helper lemmas for C15 (pause / resume):
  * the loop does not look at `status`, its result does not depend on the amount of fuel
    as long as there is enough of it, and it only reads `rule/absence/autoFlag/maxTime`
    of its parameters;
  * the `__update` block is idempotent on its own output (`update_idem`), phase by phase:
    `check_state(FINISHED)` reaches a fixpoint, `product.check_state`,
    `check_removing_placed_workplace`, `check_state(READY)` find nothing more to do, and
    the PERT recomputation reads nothing stale when no remaining work amount is negative.
-/
import PDesy.Lemmas.Lifecycle

namespace PDesy
namespace Idem

open Lifecycle

/-! ### the loop: one unfolding, fuel irrelevance, congruences -/

theorem ite3_congr {α β : Type} (f : β → α) {c d : Prop} [Decidable c] [Decidable d]
    {a b e : α} {a' b' e' : β}
    (h1 : c → a = f a') (h2 : ¬ c → d → b = f b') (h3 : ¬ c → ¬ d → e = f e') :
    (if c then a else if d then b else e) = f (if c then a' else if d then b' else e') := by
  by_cases hc : c
  · rw [if_pos hc, if_pos hc]; exact h1 hc
  · rw [if_neg hc, if_neg hc]
    by_cases hd : d
    · rw [if_pos hd, if_pos hd]; exact h2 hc hd
    · rw [if_neg hd, if_neg hd]; exact h3 hc hd

section loop
variable (m : Model) (p : Params)

/-- one unfolding of the loop -/
theorem loop_succ (fuel : Nat) (s : St) :
    loop m p (fuel + 1) s =
      if allFinished m (updated m s).live then { updated m s with status := .success }
      else if s.time ≥ p.maxTime then { updated m s with status := .failure }
      else loop m p fuel (stepBody m p (updated m s)) := rfl

theorem stepBody_time (s : St) : (stepBody m p s).time = s.time + 1 := rfl

theorem fuelOf_pos (s : St) : 0 < fuelOf p s := by unfold fuelOf; omega

theorem fuelOf_step (s : St) (h : ¬ s.time ≥ p.maxTime) :
    fuelOf p (stepBody m p (updated m s)) + 1 = fuelOf p s := by
  unfold fuelOf
  rw [stepBody_time]
  show p.maxTime - (s.time + 1) + 1 + 1 = p.maxTime - s.time + 1
  omega

/-- one more unit of fuel than needed changes nothing -/
theorem loop_fuel_succ : ∀ (fuel : Nat) (s : St), fuelOf p s ≤ fuel →
    loop m p (fuel + 1) s = loop m p fuel s := by
  intro fuel
  induction fuel with
  | zero => intro s h; have := fuelOf_pos p s; omega
  | succ n ih =>
    intro s h
    rw [loop_succ m p (n + 1), loop_succ m p n]
    refine ite3_congr id (fun _ => rfl) (fun _ _ => rfl) (fun _ ht => ?_)
    apply ih
    have := fuelOf_step m p s ht
    omega

theorem loop_fuel_add (d : Nat) (fuel : Nat) (s : St) (h : fuelOf p s ≤ fuel) :
    loop m p (fuel + d) s = loop m p fuel s := by
  induction d with
  | zero => rfl
  | succ d ih =>
    rw [← Nat.add_assoc, loop_fuel_succ m p (fuel + d) s (by omega), ih]

/-- **fuel irrelevance**: any amount of fuel that is enough gives the same result -/
theorem loop_fuel (fuel : Nat) (s : St) (h : fuelOf p s ≤ fuel) :
    loop m p fuel s = loop m p (fuelOf p s) s := by
  have := loop_fuel_add m p (fuel - fuelOf p s) (fuelOf p s) s (Nat.le_refl _)
  rw [← this]
  congr 1
  omega

/-- the loop with exactly the fuel `simulate` gives it -/
def run (s : St) : St := loop m p (fuelOf p s) s

theorem run_step (s : St) :
    run m p s =
      if allFinished m (updated m s).live then { updated m s with status := .success }
      else if s.time ≥ p.maxTime then { updated m s with status := .failure }
      else run m p (stepBody m p (updated m s)) := by
  unfold run
  have h0 : fuelOf p s = (p.maxTime - s.time) + 1 := rfl
  rw [h0, loop_succ]
  split
  · rfl
  · split
    · rfl
    · rename_i _ ht
      rw [loop_fuel m p (p.maxTime - s.time)]
      have := fuelOf_step m p s ht
      omega

theorem loop_eq_run (fuel : Nat) (s : St) (h : fuelOf p s ≤ fuel) : loop m p fuel s = run m p s :=
  loop_fuel m p fuel s h

/-- the loop never reads `status` (given enough fuel to reach an exit) -/
theorem loop_status (x : Status) : ∀ (fuel : Nat) (s : St), fuelOf p s ≤ fuel →
    loop m p fuel { s with status := x } = loop m p fuel s := by
  intro fuel
  induction fuel with
  | zero => intro s h; have := fuelOf_pos p s; omega
  | succ n ih =>
    intro s h
    rw [loop_succ, loop_succ]
    refine ite3_congr id (fun _ => rfl) (fun _ _ => rfl) (fun _ ht => ?_)
    have ht' : ¬ s.time ≥ p.maxTime := ht
    have hf := fuelOf_step m p s ht'
    exact ih (stepBody m p (updated m s)) (by omega)

theorem run_status (x : Status) (s : St) : run m p { s with status := x } = run m p s :=
  loop_status m p x _ s (Nat.le_refl _)

/-- `mode` is carried through untouched -/
theorem loop_mode : ∀ (fuel : Nat) (s : St), (loop m p fuel s).mode = s.mode := by
  intro fuel
  induction fuel with
  | zero => intro s; rfl
  | succ n ih =>
    intro s
    rw [loop_succ]
    split
    · rfl
    · split
      · rfl
      · rw [ih]; rfl

theorem loop_absence : ∀ (fuel : Nat) (s : St), (loop m p fuel s).absence = s.absence := by
  intro fuel
  induction fuel with
  | zero => intro s; rfl
  | succ n ih =>
    intro s
    rw [loop_succ]
    split
    · rfl
    · split
      · rfl
      · rw [ih]; rfl

theorem loop_autoFlag : ∀ (fuel : Nat) (s : St), (loop m p fuel s).autoFlag = s.autoFlag := by
  intro fuel
  induction fuel with
  | zero => intro s; rfl
  | succ n ih =>
    intro s
    rw [loop_succ]
    split
    · rfl
    · split
      · rfl
      · rw [ih]; rfl

/-- set the `mode` field -/
def setMode (x : Mode) (r : St) : St := { r with mode := x }

/-- the loop never reads `mode`: it commutes with setting it -/
theorem loop_set_mode (x : Mode) : ∀ (fuel : Nat) (s : St),
    loop m p fuel (setMode x s) = setMode x (loop m p fuel s) := by
  intro fuel
  induction fuel with
  | zero => intro s; rfl
  | succ n ih =>
    intro s
    rw [loop_succ, loop_succ]
    apply ite3_congr (setMode x)
    · intro _; rfl
    · intro _ _; rfl
    · intro _ _; exact ih (stepBody m p (updated m s))

end loop

/-- the loop reads only `rule`, `absence`, `autoFlag`, `maxTime` of its parameters -/
theorem loop_params (m : Model) (p q : Params) (h1 : q.rule = p.rule) (h2 : q.absence = p.absence)
    (h3 : q.autoFlag = p.autoFlag) (h4 : q.maxTime = p.maxTime) :
    ∀ (fuel : Nat) (s : St), loop m q fuel s = loop m p fuel s := by
  have hs : ∀ s, stepBody m q s = stepBody m p s := by
    intro s; simp only [stepBody, h1, h2, h3]
  intro fuel
  induction fuel with
  | zero => intro s; rfl
  | succ n ih =>
    intro s
    rw [loop_succ, loop_succ, h4, hs, ih]

/-- a state whose `updated` form is itself runs like the state it was computed from -/
theorem run_updated (m : Model) (p : Params) (s : St)
    (h : updated m (updated m s) = updated m s) : run m p (updated m s) = run m p s := by
  rw [run_step m p (updated m s), run_step m p s, h]
  rfl

/-- **resume, core form**: running to `k`, then running on to `p.maxTime ≥ k` from the
paused state, is running to `p.maxTime` — provided the update block is idempotent at every
state the run visits (`Inv` is any invariant of the run that implies it). -/
theorem resume_core (m : Model) (p : Params) (k : Nat) (hk : k ≤ p.maxTime) (Inv : St → Prop)
    (hupd : ∀ s, Inv s → Inv (updated m s))
    (hstep : ∀ s, Inv s → Inv (stepBody m p s))
    (hidem : ∀ s, Inv s → updated m (updated m s) = updated m s) :
    ∀ (n : Nat) (s : St), k - s.time ≤ n → Inv s →
      run m p (run m { p with maxTime := k } s) = run m p s := by
  intro n
  induction n with
  | zero =>
    intro s hn hs
    rw [run_step m { p with maxTime := k } s]
    split
    · rw [run_status, run_updated m p s (hidem s hs)]
    · rw [if_pos (show s.time ≥ k by omega), run_status, run_updated m p s (hidem s hs)]
  | succ n ih =>
    intro s hn hs
    rw [run_step m { p with maxTime := k } s]
    split
    · rw [run_status, run_updated m p s (hidem s hs)]
    · rename_i hf
      split
      · rw [run_status, run_updated m p s (hidem s hs)]
      · rename_i ht
        have ht' : ¬ s.time ≥ k := ht
        have hstepEq : stepBody m { p with maxTime := k } (updated m s) = stepBody m p (updated m s) := rfl
        rw [hstepEq, ih _ (by rw [stepBody_time]; show k - (s.time + 1) ≤ n; omega)
          (hstep _ (hupd _ hs))]
        rw [run_step m p s, if_neg hf, if_neg (show ¬ s.time ≥ p.maxTime by omega)]

section fin

/-! ### `check_state(FINISHED)` reaches a fixpoint -/

theorem filter_length_le {α : Type} (P Q : α → Bool) (xs : List α)
    (h : ∀ x ∈ xs, P x = true → Q x = true) : (xs.filter P).length ≤ (xs.filter Q).length := by
  induction xs with
  | nil => simp
  | cons x xs ih =>
    have ih' := ih (fun y hy => h y (List.mem_cons_of_mem _ hy))
    have hx := h x (List.mem_cons_self ..)
    simp only [List.filter_cons]
    cases hp : P x <;> cases hq : Q x <;> simp_all <;> omega

theorem filter_length_lt {α : Type} (P Q : α → Bool) (xs : List α)
    (h : ∀ x ∈ xs, P x = true → Q x = true) (a : α) (ha : a ∈ xs) (hpa : P a = false)
    (hqa : Q a = true) : (xs.filter P).length < (xs.filter Q).length := by
  induction xs with
  | nil => simp at ha
  | cons x xs ih =>
    have hle := filter_length_le P Q xs (fun y hy => h y (List.mem_cons_of_mem _ hy))
    have hx := h x (List.mem_cons_self ..)
    simp only [List.filter_cons]
    rcases List.mem_cons.mp ha with rfl | ha'
    · simp [hpa, hqa]; omega
    · have ih' := ih (fun y hy => h y (List.mem_cons_of_mem _ hy)) ha'
      cases hp : P x <;> cases hq : Q x <;> simp_all <;> omega

theorem finishedCount_le (n : Nat) (l : Live) : finishedCount n l ≤ n := by
  unfold finishedCount
  have := List.length_filter_le (fun t => l.tstate t == .finished) (List.range n)
  simpa using this

theorem finishedCount_mono (n : Nat) {l l' : Live} (h : Mono l.tstate l'.tstate) :
    finishedCount n l ≤ finishedCount n l' := by
  unfold finishedCount
  apply filter_length_le
  intro t _ ht
  simp only [beq_iff_eq] at ht ⊢
  exact Mono.finished h ht

theorem finishedCount_lt (n : Nat) {l l' : Live} (h : Mono l.tstate l'.tstate) (t : Nat) (ht : t < n)
    (h1 : l.tstate t ≠ .finished) (h2 : l'.tstate t = .finished) :
    finishedCount n l < finishedCount n l' := by
  unfold finishedCount
  apply filter_length_lt _ _ _ _ t (List.mem_range.mpr ht)
  · simpa using h1
  · simpa using h2
  · intro t _ ht
    simp only [beq_iff_eq] at ht ⊢
    exact Mono.finished h ht

/-- no task below `m.nT` can be finished by `check_state(FINISHED)` -/
def NoCand (m : Model) (l : Live) : Prop :=
  ∀ t, t < m.nT → (finishCand l t && finishGate m l.tstate t) = false

variable (m : Model)

theorem finStep_of_not (acc : Live) (t : Nat)
    (h : (finishCand acc t && finishGate m acc.tstate t) = false) : finStep m acc t = acc := by
  unfold finStep; rw [h]; rfl

theorem finStep_count_lt (acc : Live) (t : Nat) (ht : t < m.nT)
    (h : (finishCand acc t && finishGate m acc.tstate t) = true) :
    finishedCount m.nT acc < finishedCount m.nT (finStep m acc t) := by
  apply finishedCount_lt m.nT (finStep_mono m acc t) t ht
  · simp only [Bool.and_eq_true, finishCand, beq_iff_eq] at h
    rw [h.1.1]; intro hh; cases hh
  · unfold finStep; rw [if_pos h, finishOne_tstate]; simp

theorem foldl_finStep_mono (order : List Nat) (l : Live) :
    Mono l.tstate (order.foldl (finStep m) l).tstate := finishPass_mono m order l

/-- a pass that does not raise the number of FINISHED tasks did nothing, and there was
nothing it could have done -/
theorem pass_fix (order : List Nat) (ho : ∀ t ∈ order, t < m.nT) (l : Live)
    (h : finishedCount m.nT (order.foldl (finStep m) l) = finishedCount m.nT l) :
    order.foldl (finStep m) l = l ∧
      ∀ t ∈ order, (finishCand l t && finishGate m l.tstate t) = false := by
  induction order generalizing l with
  | nil => exact ⟨rfl, fun _ h => by simp at h⟩
  | cons t ts ih =>
    rw [List.foldl_cons] at h ⊢
    have hmono := finishedCount_mono m.nT (foldl_finStep_mono m ts (finStep m l t))
    by_cases hc : (finishCand l t && finishGate m l.tstate t) = true
    · have := finStep_count_lt m l t (ho t (List.mem_cons_self ..)) hc
      omega
    · have hc' : (finishCand l t && finishGate m l.tstate t) = false := by simpa using hc
      have he := finStep_of_not m l t hc'
      rw [he] at h ⊢
      obtain ⟨h1, h2⟩ := ih (fun x hx => ho x (List.mem_cons_of_mem _ hx)) l h
      refine ⟨h1, ?_⟩
      intro x hx
      rcases List.mem_cons.mp hx with rfl | hx
      · exact hc'
      · exact h2 x hx

theorem range_lt (n : Nat) : ∀ t ∈ List.range n, t < n := fun _ h => List.mem_range.mp h

theorem finishPass_noCand (l : Live) (h : NoCand m l) : finishPass m (List.range m.nT) l = l := by
  rw [finishPass_eq]
  generalize hxs : List.range m.nT = xs
  have hx : ∀ t ∈ xs, t < m.nT := by rw [← hxs]; exact range_lt _
  clear hxs
  induction xs with
  | nil => rfl
  | cons t ts ih =>
    rw [List.foldl_cons, finStep_of_not m l t (h t (hx t (List.mem_cons_self ..)))]
    exact ih (fun x hx' => hx x (List.mem_cons_of_mem _ hx'))

/-- with fuel above the number of still unfinished tasks the closure stops at a fixpoint -/
theorem finishClosure_noCand : ∀ (fuel : Nat) (l : Live), m.nT - finishedCount m.nT l < fuel →
    NoCand m (finishClosure m (List.range m.nT) fuel l) := by
  intro fuel
  induction fuel with
  | zero => intro l h; omega
  | succ n ih =>
    intro l h
    simp only [finishClosure]
    split
    · rename_i he
      rw [finishPass_eq] at he ⊢
      obtain ⟨h1, h2⟩ := pass_fix m _ (range_lt _) l he
      rw [h1]
      intro t ht
      exact h2 t (List.mem_range.mpr ht)
    · rename_i hne
      apply ih
      have h1 := finishedCount_mono m.nT (finishPass_mono m (List.range m.nT) l)
      have h2 := finishedCount_le m.nT (finishPass m (List.range m.nT) l)
      omega

theorem NoCand_congr {l l' : Live} (ht : l'.tstate = l.tstate) (hr : l'.rem = l.rem)
    (h : NoCand m l) : NoCand m l' := by
  intro t hlt
  have := h t hlt
  simpa [finishCand, ht, hr] using this

/-- **fixpoint**: after `check_state(FINISHED)` nothing more can be finished -/
theorem chkFinished_noCand (l : Live) : NoCand m (chkFinished m l) := by
  have h := finishClosure_noCand m (m.nT + 1) l (by omega)
  refine NoCand_congr m ?_ ?_ h
  · simp [chkFinished, chkFinishedOrd]
  · simp [chkFinished, chkFinishedOrd]

/-- `check_state(FINISHED)` is the identity on a state where nothing can be finished -/
theorem chkFinished_of_noCand (l : Live) (h : NoCand m l) : chkFinished m l = l := by
  have hp := finishPass_noCand m l h
  have hc : finishClosure m (List.range m.nT) (m.nT + 1) l = l := by
    simp only [finishClosure, hp, if_true]
  simp only [chkFinished, chkFinishedOrd, hc, tabN_eq]


end fin

/-! ### task states that differ only by NONE → READY -/

/-- `ts'` differs from `ts` only by NONE → READY -/
def NR (ts ts' : Nat → TS) : Prop := ∀ t, ts' t = ts t ∨ (ts t = .none ∧ ts' t = .ready)

theorem NR.refl (ts : Nat → TS) : NR ts ts := fun _ => Or.inl rfl

theorem NR.finished {ts ts' : Nat → TS} (h : NR ts ts') (t : Nat) :
    (ts' t == .finished) = (ts t == .finished) := by
  rcases h t with h | ⟨h1, h2⟩
  · rw [h]
  · rw [h1, h2]; rfl

theorem NR.working {ts ts' : Nat → TS} (h : NR ts ts') (t : Nat) :
    (ts' t == .working) = (ts t == .working) := by
  rcases h t with h | ⟨h1, h2⟩
  · rw [h]
  · rw [h1, h2]; rfl

theorem NR.started {ts ts' : Nat → TS} (h : NR ts ts') (t : Nat) :
    (ts' t).started = (ts t).started := by
  rcases h t with h | ⟨h1, h2⟩
  · rw [h]
  · rw [h1, h2]; rfl

section gates
variable (m : Model)

theorem finishGate_congr {ts ts' : Nat → TS} (h1 : ∀ t, (ts' t == .finished) = (ts t == .finished))
    (h2 : ∀ t, (ts' t).started = (ts t).started) (t : Nat) :
    finishGate m ts' t = finishGate m ts t := by
  unfold finishGate
  congr 1
  funext e
  obtain ⟨q, d⟩ := e
  cases d <;> simp only [h1, h2]

theorem readyGate_congr {ts ts' : Nat → TS} (h1 : ∀ t, (ts' t == .finished) = (ts t == .finished))
    (h2 : ∀ t, (ts' t).started = (ts t).started) (t : Nat) :
    readyGate m ts' t = readyGate m ts t := by
  unfold readyGate
  congr 1
  funext e
  obtain ⟨q, d⟩ := e
  cases d <;> simp only [h1, h2]

theorem chkReady_NR (l : Live) : NR l.tstate (chkReady m l).tstate := by
  intro t
  rw [chkReady_tstate]
  split
  · rename_i h
    simp only [Bool.and_eq_true, beq_iff_eq] at h
    exact Or.inr ⟨h.1.2, rfl⟩
  · exact Or.inl rfl

/-- (a) nothing becomes finishable by NONE → READY changes -/
theorem NoCand_NR {l l' : Live} (h : NoCand m l) (hn : NR l.tstate l'.tstate) (hr : l'.rem = l.rem) :
    NoCand m l' := by
  intro t ht
  have := h t ht
  rw [finishGate_congr m hn.finished hn.started]
  simpa [finishCand, hn.working t, hr] using this

/-- (d) `check_state(READY)` finds nothing to do on its own output -/
theorem chkReady_fix (l l' : Live) (h : l'.tstate = (chkReady m l).tstate) : chkReady m l' = l' := by
  have hn : NR l.tstate l'.tstate := h ▸ chkReady_NR m l
  have key : ∀ t, (if t < m.nT && l'.tstate t == .none && readyGate m l'.tstate t then TS.ready
      else l'.tstate t) = l'.tstate t := by
    intro t
    split
    · rename_i hc
      exfalso
      simp only [Bool.and_eq_true, beq_iff_eq, decide_eq_true_eq] at hc
      obtain ⟨⟨hlt, h0⟩, hg⟩ := hc
      rw [readyGate_congr m hn.finished hn.started] at hg
      have hv := chkReady_tstate m l t
      rw [← h, h0] at hv
      split at hv
      · cases hv
      · rename_i hc'
        apply hc'
        simp [hlt, hg, ← hv]
    · rfl
  unfold chkReady
  rw [tabN_eq, funext key]

/-! ### (b) `product.check_state` -/

theorem compNext_congr {l l' : Live} (ht : l'.tstate = l.tstate) (c : Nat)
    (hc : l'.cstate c = l.cstate c) : compNext m l' c = compNext m l c := by
  unfold compNext
  simp only [ht, hc]

/-- `compNext` after `compCheck` gives the same value again -/
theorem compNext_compCheck (l : Live) (c : Nat) (hc : c < m.nC) :
    compNext m (compCheck m l) c = compNext m l c := by
  by_cases hF : ∀ t ∈ (m.comp c).tasks, l.tstate t = .finished
  · rw [compNext_fin m _ c (by simpa using hF), compNext_fin m l c hF]
  · rw [compNext_notfin m _ c (by simpa using hF), compNext_notfin m l c hF]
    by_cases hW : ∃ t ∈ (m.comp c).tasks, l.tstate t = .working
    · have hW' : ∃ t ∈ (m.comp c).tasks, (compCheck m l).tstate t = .working := hW
      rw [if_pos hW, if_pos hW']
    · have hW' : ¬ ∃ t ∈ (m.comp c).tasks, (compCheck m l).tstate t = .working := hW
      rw [if_neg hW, if_neg hW']
      by_cases hR : ∃ t ∈ (m.comp c).tasks, l.tstate t = .ready
      · have hR' : ∃ t ∈ (m.comp c).tasks, (compCheck m l).tstate t = .ready := hR
        rw [if_pos hR, if_pos hR']
      · have hR' : ¬ ∃ t ∈ (m.comp c).tasks, (compCheck m l).tstate t = .ready := hR
        rw [if_neg hR, if_neg hR', compCheck_cstate, if_pos hc, compNext_notfin m l c hF,
          if_neg hW, if_neg hR]

theorem compCheck_fix (l l' : Live) (ht : l'.tstate = l.tstate)
    (hc : l'.cstate = (compCheck m l).cstate) : compCheck m l' = l' := by
  have key : ∀ c, (if c < m.nC then compNext m l' c else l'.cstate c) = l'.cstate c := by
    intro c
    split
    · rename_i hlt
      have h1 : compNext m l' c = compNext m (compCheck m l) c :=
        compNext_congr m (by rw [ht]; rfl) c (by rw [hc])
      rw [h1, compNext_compCheck m l c hlt, hc, compCheck_cstate, if_pos hlt]
    · rfl
  unfold compCheck
  rw [tabN_eq, funext key]

/-! ### (c) `check_removing_placed_workplace` -/

theorem removeOne_placed (l : Live) (c' c : Nat) :
    (removeOne l c').placed c = if c = c' then Option.none else l.placed c := by
  unfold removeOne
  split
  · rename_i h
    split
    · rename_i hc; rw [hc, h]
    · rfl
  · simp only [upd_apply]

theorem foldl_removeOne_placed (cs : List Nat) (l : Live) (c : Nat) :
    (cs.foldl removeOne l).placed c = if c ∈ cs then Option.none else l.placed c := by
  induction cs generalizing l with
  | nil => simp
  | cons x xs ih =>
    rw [List.foldl_cons, ih, removeOne_placed]
    by_cases h1 : c ∈ xs
    · simp [h1]
    · by_cases h2 : c = x
      · simp [h2]
      · simp [h1, h2]

theorem chkRemove_placed (l : Live) (c : Nat) :
    (chkRemove m l).placed c =
      if c < m.nC ∧ removeCand m l c = true then Option.none else l.placed c := by
  simp only [chkRemove, chkRemoveOrd, tabN_eq, foldl_removeOne_placed, List.mem_filter, List.mem_range]

theorem chkRemove_of_none (l : Live) (h : ∀ c, c < m.nC → removeCand m l c = false) :
    chkRemove m l = l := by
  have : (List.range m.nC).filter (removeCand m l) = [] := by
    rw [List.filter_eq_nil_iff]
    intro c hc
    rw [h c (List.mem_range.mp hc)]; simp
  simp only [chkRemove, chkRemoveOrd, this, List.foldl_nil, tabN_eq]

theorem chkRemove_fix (l l' : Live) (hfin : ∀ t, (l'.tstate t == .finished) = (l.tstate t == .finished))
    (hp : l'.placed = (chkRemove m l).placed) : chkRemove m l' = l' := by
  apply chkRemove_of_none
  intro c hc
  have hpc : l'.placed c = if c < m.nC ∧ removeCand m l c = true then Option.none else l.placed c := by
    rw [hp, chkRemove_placed]
  by_cases hr : removeCand m l c = true
  · rw [if_pos ⟨hc, hr⟩] at hpc
    simp [removeCand, hpc]
  · rw [if_neg (fun h => hr h.2)] at hpc
    have : removeCand m l' c = removeCand m l c := by
      simp only [removeCand, hpc, hfin]
    rw [this]; simpa using hr

end gates


/-! ### (e) PERT recomputation -/

/-- dependency links stay inside the task list -/
def WF (m : Model) : Prop :=
  ∀ t, t < m.nT → (∀ e ∈ (m.task t).inputs, e.1 < m.nT) ∧ (∀ e ∈ (m.task t).outputs, e.1 < m.nT)

/-- task `t` has a finish-to-start successor (the only kind of link along which the forward
pass adds the remaining work of the source to an `est`) -/
def FsSrc (m : Model) (t : Nat) : Prop := ∃ e ∈ (m.task t).outputs, e.2 = .fs

section pert
variable (m : Model)

/-! #### the passes read the live state only through `rem` -/

theorem fwdRelax_rem {l l' : Live} (h : l'.rem = l.rem) : fwdRelax l' = fwdRelax l := by
  funext p i e
  simp only [fwdRelax, h]

theorem fwdLoop_rem {l l' : Live} (h : l'.rem = l.rem) : fwdLoop m l' = fwdLoop m l := by
  funext fuel
  induction fuel with
  | zero => rfl
  | succ n ih =>
    funext wave p
    simp only [fwdLoop, fwdWave, fwdRelax_rem h, ih]

theorem bwdRelax_rem {l l' : Live} (h : l'.rem = l.rem) : bwdRelax l' = bwdRelax l := by
  funext p i e
  simp only [bwdRelax, h]

theorem bwdLoop_rem {l l' : Live} (h : l'.rem = l.rem) : bwdLoop m l' = bwdLoop m l := by
  funext fuel
  induction fuel with
  | zero => rfl
  | succ n ih =>
    funext wave p
    simp only [bwdLoop, bwdWave, bwdRelax_rem h, ih]

/-! #### one forward relaxation in normal form -/

/-- the `(est, eft)` a forward relaxation proposes for the target of `e` -/
def fwdCand (l : Live) (p : Pert) (i : Nat) (e : Nat × Dep) : Rat × Rat :=
  match e.2 with
  | .fs => (p.est i + l.rem i, p.est i + l.rem i + l.rem e.1)
  | .ss => (p.est i, p.est i + l.rem e.1)
  | .ff => (p.est i, if p.eft i > p.est i + l.rem e.1 then p.eft i else p.est i + l.rem e.1)
  | .sf => (p.est i, if p.est i > p.est i + l.rem e.1 then p.est i else p.est i + l.rem e.1)

theorem fwdRelax_eq (l : Live) (p : Pert) (i : Nat) (e : Nat × Dep) :
    fwdRelax l p i e =
      if (fwdCand l p i e).1 ≥ p.est e.1 then
        { p with est := upd p.est e.1 (fwdCand l p i e).1, eft := upd p.eft e.1 (fwdCand l p i e).2 }
      else p := by
  obtain ⟨nx, d⟩ := e
  cases d <;> rfl

theorem fwdCand_congr (l : Live) {p p' : Pert} (i : Nat) (e : Nat × Dep) (h1 : p'.est = p.est)
    (h2 : p'.eft i = p.eft i) : fwdCand l p' i e = fwdCand l p i e := by
  simp only [fwdCand, h1, h2]

theorem fwdCand_ge (l : Live) (p : Pert) (i : Nat) (e : Nat × Dep) (h : e.2 = .fs → 0 ≤ l.rem i) :
    p.est i ≤ (fwdCand l p i e).1 := by
  obtain ⟨nx, d⟩ := e
  cases d
  · have := h rfl
    simp only [fwdCand]; grind
  all_goals exact Rat.le_refl

/-! #### membership in the wave lists -/

theorem mem_canonSet (n : Nat) (xs : List Nat) (t : Nat) : t ∈ canonSet n xs ↔ t < n ∧ t ∈ xs := by
  simp [canonSet]

theorem mem_nextOf (wave : List Nat) (t : Nat) (h : t ∈ nextOf m wave) :
    t < m.nT ∧ ∃ i ∈ wave, ∃ e ∈ (m.task i).outputs, e.1 = t := by
  rw [nextOf, mem_canonSet] at h
  refine ⟨h.1, ?_⟩
  obtain ⟨i, hi, ht⟩ := List.mem_flatMap.mp h.2
  obtain ⟨e, he, rfl⟩ := List.mem_map.mp ht
  exact ⟨i, hi, e, he, rfl⟩

theorem mem_prevOf (wave : List Nat) (t : Nat) (h : t ∈ prevOf m wave) : t < m.nT := by
  rw [prevOf, mem_canonSet] at h
  exact h.1

theorem mem_heads (t : Nat) (h : t ∈ heads m) : t < m.nT ∧ (m.task t).inputs.isEmpty = true := by
  simpa [heads] using h

theorem mem_tails (t : Nat) (h : t ∈ tails m) : t < m.nT := by
  have : t < m.nT ∧ (m.task t).outputs.isEmpty = true := by simpa [tails] using h
  exact this.1

/-! #### two forward passes side by side -/

/-- A relation `S` between two PERT tables that every relaxation from a "good" source
(`G`) preserves — where every relaxed target becomes good and good stays good — is preserved
by the whole forward pass started from a wave of good sources. -/
theorem fwdLoop_pair (l : Live) (S : Pert → Pert → Prop) (G : Pert → Pert → Nat → Prop)
    (hstep : ∀ p p' i e, S p p' → i < m.nT → G p p' i → e ∈ (m.task i).outputs →
      S (fwdRelax l p i e) (fwdRelax l p' i e) ∧ G (fwdRelax l p i e) (fwdRelax l p' i e) e.1 ∧
      ∀ t, G p p' t → G (fwdRelax l p i e) (fwdRelax l p' i e) t) :
    ∀ (fuel : Nat) (wave : List Nat) (p p' : Pert), S p p' → (∀ i ∈ wave, i < m.nT ∧ G p p' i) →
      S (fwdLoop m l fuel wave p) (fwdLoop m l fuel wave p') := by
  -- the relaxations out of one source
  have inner : ∀ (i : Nat) (es : List (Nat × Dep)) (p p' : Pert), S p p' → i < m.nT → G p p' i →
      (∀ e ∈ es, e ∈ (m.task i).outputs) →
      S (es.foldl (fun a e => fwdRelax l a i e) p) (es.foldl (fun a e => fwdRelax l a i e) p') ∧
      (∀ e ∈ es, G (es.foldl (fun a e => fwdRelax l a i e) p)
        (es.foldl (fun a e => fwdRelax l a i e) p') e.1) ∧
      (∀ t, G p p' t → G (es.foldl (fun a e => fwdRelax l a i e) p)
        (es.foldl (fun a e => fwdRelax l a i e) p') t) := by
    intro i es
    induction es with
    | nil => intro p p' hS _ _ _; exact ⟨hS, fun _ h => by simp at h, fun _ h => h⟩
    | cons e es ih =>
      intro p p' hS hi hG hes
      obtain ⟨s1, g1, m1⟩ := hstep p p' i e hS hi hG (hes e (List.mem_cons_self ..))
      obtain ⟨s2, g2, m2⟩ := ih _ _ s1 hi (m1 i hG) (fun x hx => hes x (List.mem_cons_of_mem _ hx))
      simp only [List.foldl_cons]
      refine ⟨s2, ?_, fun t ht => m2 t (m1 t ht)⟩
      intro x hx
      rcases List.mem_cons.mp hx with rfl | hx
      · exact m2 _ g1
      · exact g2 x hx
  -- one wave
  have wv : ∀ (wave : List Nat) (p p' : Pert), S p p' → (∀ i ∈ wave, i < m.nT ∧ G p p' i) →
      S (fwdWave m l wave p) (fwdWave m l wave p') ∧
      (∀ i ∈ wave, ∀ e ∈ (m.task i).outputs, G (fwdWave m l wave p) (fwdWave m l wave p') e.1) ∧
      (∀ t, G p p' t → G (fwdWave m l wave p) (fwdWave m l wave p') t) := by
    intro wave
    induction wave with
    | nil => intro p p' hS _; exact ⟨hS, fun _ h => by simp at h, fun _ h => h⟩
    | cons i wave ih =>
      intro p p' hS hw
      obtain ⟨hi, hG⟩ := hw i (List.mem_cons_self ..)
      obtain ⟨s1, g1, m1⟩ := inner i (m.task i).outputs p p' hS hi hG (fun _ h => h)
      obtain ⟨s2, g2, m2⟩ := ih _ _ s1
        (fun j hj => ⟨(hw j (List.mem_cons_of_mem _ hj)).1, m1 j (hw j (List.mem_cons_of_mem _ hj)).2⟩)
      simp only [fwdWave, List.foldl_cons] at s2 g2 m2 ⊢
      refine ⟨s2, ?_, fun t ht => m2 t (m1 t ht)⟩
      intro j hj e he
      rcases List.mem_cons.mp hj with rfl | hj
      · exact m2 _ (g1 e he)
      · exact g2 j hj e he
  intro fuel
  induction fuel with
  | zero => intro wave p p' hS _; exact hS
  | succ n ih =>
    intro wave p p' hS hw
    simp only [fwdLoop]
    split
    · exact hS
    · obtain ⟨s1, g1, _⟩ := wv wave p p' hS hw
      apply ih _ _ _ s1
      intro t ht
      obtain ⟨hlt, i, hi, e, he, rfl⟩ := mem_nextOf m wave t ht
      exact ⟨hlt, g1 i hi e he⟩

/-- single-table version: an invariant of every relaxation is an invariant of the pass -/
theorem fwdLoop_inv (l : Live) (P : Pert → Prop)
    (hstep : ∀ p i e, P p → i < m.nT → e ∈ (m.task i).outputs → P (fwdRelax l p i e))
    (fuel : Nat) (wave : List Nat) (p : Pert) (hp : P p) (hw : ∀ i ∈ wave, i < m.nT) :
    P (fwdLoop m l fuel wave p) :=
  fwdLoop_pair m l (fun a _ => P a) (fun _ _ _ => True)
    (fun p _ i e hS hi _ he => ⟨hstep p i e hS hi he, trivial, fun _ _ => trivial⟩)
    fuel wave p p hp (fun i hi => ⟨hw i hi, trivial⟩)

/-- an invariant of every backward relaxation is an invariant of the backward pass -/
theorem bwdLoop_inv (l : Live) (P : Pert → Prop)
    (hstep : ∀ p o e, P p → o < m.nT → e ∈ (m.task o).inputs → P (bwdRelax l p o e)) :
    ∀ (fuel : Nat) (wave : List Nat) (p : Pert), P p → (∀ o ∈ wave, o < m.nT) →
      P (bwdLoop m l fuel wave p) := by
  have inner : ∀ (o : Nat) (es : List (Nat × Dep)) (p : Pert), P p → o < m.nT →
      (∀ e ∈ es, e ∈ (m.task o).inputs) → P (es.foldl (fun a e => bwdRelax l a o e) p) := by
    intro o es
    induction es with
    | nil => intro p hp _ _; exact hp
    | cons e es ih =>
      intro p hp ho hes
      exact ih _ (hstep p o e hp ho (hes e (List.mem_cons_self ..))) ho
        (fun x hx => hes x (List.mem_cons_of_mem _ hx))
  have wv : ∀ (wave : List Nat) (p : Pert), P p → (∀ o ∈ wave, o < m.nT) → P (bwdWave m l wave p) := by
    intro wave
    induction wave with
    | nil => intro p hp _; exact hp
    | cons o wave ih =>
      intro p hp hw
      simp only [bwdWave, List.foldl_cons]
      exact ih _ (inner o _ p hp (hw o (List.mem_cons_self ..)) (fun _ h => h))
        (fun x hx => hw x (List.mem_cons_of_mem _ hx))
  intro fuel
  induction fuel with
  | zero => intro wave p hp _; exact hp
  | succ n ih =>
    intro wave p hp hw
    simp only [bwdLoop]
    split
    · exact hp
    · exact ih _ _ (wv wave p hp hw) (fun t ht => mem_prevOf m wave t ht)

end pert

section pert2
variable (m : Model)

/-! #### frame facts of the two passes -/

theorem fwdRelax_lst (l : Live) (p : Pert) (i : Nat) (e : Nat × Dep) :
    (fwdRelax l p i e).lst = p.lst ∧ (fwdRelax l p i e).lft = p.lft := by
  rw [fwdRelax_eq]; split <;> exact ⟨rfl, rfl⟩

/-- the `(lst, lft)` a backward relaxation proposes for the source of `e` -/
def bwdCand (l : Live) (p : Pert) (o : Nat) (e : Nat × Dep) : Rat × Rat :=
  match e.2 with
  | .fs => (p.lst o - l.rem e.1, p.lst o)
  | .ss => (p.lst o, p.lst o + l.rem e.1)
  | .ff => (p.lst o, if p.lft o < p.lst o + l.rem e.1 then p.lft o else p.lst o + l.rem e.1)
  | .sf => (if p.lft o < p.lst o then p.lft o else p.lst o, p.lst o + l.rem e.1)

theorem bwdRelax_eq (l : Live) (p : Pert) (o : Nat) (e : Nat × Dep) :
    bwdRelax l p o e =
      if p.done e.1 = false ∨ p.lft e.1 ≥ (bwdCand l p o e).2 then
        { p with lst := upd p.lst e.1 (bwdCand l p o e).1, lft := upd p.lft e.1 (bwdCand l p o e).2,
                 done := upd p.done e.1 true }
      else p := by
  obtain ⟨pv, d⟩ := e
  cases d <;> rfl

theorem bwdRelax_est (l : Live) (p : Pert) (o : Nat) (e : Nat × Dep) :
    (bwdRelax l p o e).est = p.est ∧ (bwdRelax l p o e).eft = p.eft := by
  rw [bwdRelax_eq]; split <;> exact ⟨rfl, rfl⟩

/-- the forward pass writes below `m.nT` only, and never to `lst/lft` -/
theorem fwdLoop_frame (hwf : WF m) (l : Live) (fuel : Nat) (wave : List Nat) (p : Pert)
    (hw : ∀ i ∈ wave, i < m.nT) :
    (∀ t, ¬ t < m.nT → (fwdLoop m l fuel wave p).est t = p.est t ∧
      (fwdLoop m l fuel wave p).eft t = p.eft t) ∧
    (fwdLoop m l fuel wave p).lst = p.lst ∧ (fwdLoop m l fuel wave p).lft = p.lft := by
  refine fwdLoop_inv m l
    (fun q => (∀ t, ¬ t < m.nT → q.est t = p.est t ∧ q.eft t = p.eft t) ∧ q.lst = p.lst ∧ q.lft = p.lft)
    ?_ fuel wave p ⟨fun _ _ => ⟨rfl, rfl⟩, rfl, rfl⟩ hw
  intro q i e hq hi he
  have hlt : e.1 < m.nT := (hwf i hi).2 e he
  obtain ⟨h1, h2, h3⟩ := hq
  refine ⟨?_, (fwdRelax_lst l q i e).1.trans h2, (fwdRelax_lst l q i e).2.trans h3⟩
  intro t ht
  have hne : t ≠ e.1 := fun h => ht (h ▸ hlt)
  rw [fwdRelax_eq]
  split
  · simp only [upd_other _ _ _ _ hne]; exact h1 t ht
  · exact h1 t ht

/-- the backward pass writes below `m.nT` only, and never to `est/eft` -/
theorem bwdLoop_frame (hwf : WF m) (l : Live) (fuel : Nat) (wave : List Nat) (p : Pert)
    (hw : ∀ i ∈ wave, i < m.nT) :
    (∀ t, ¬ t < m.nT → (bwdLoop m l fuel wave p).lst t = p.lst t ∧
      (bwdLoop m l fuel wave p).lft t = p.lft t) ∧
    (bwdLoop m l fuel wave p).est = p.est ∧ (bwdLoop m l fuel wave p).eft = p.eft := by
  refine bwdLoop_inv m l
    (fun q => (∀ t, ¬ t < m.nT → q.lst t = p.lst t ∧ q.lft t = p.lft t) ∧ q.est = p.est ∧ q.eft = p.eft)
    ?_ fuel wave p ⟨fun _ _ => ⟨rfl, rfl⟩, rfl, rfl⟩ hw
  intro q o e hq ho he
  have hlt : e.1 < m.nT := (hwf o ho).1 e he
  obtain ⟨h1, h2, h3⟩ := hq
  refine ⟨?_, (bwdRelax_est l q o e).1.trans h2, (bwdRelax_est l q o e).2.trans h3⟩
  intro t ht
  have hne : t ≠ e.1 := fun h => ht (h ▸ hlt)
  rw [bwdRelax_eq]
  split
  · simp only [upd_other _ _ _ _ hne]; exact h1 t ht
  · exact h1 t ht

end pert2

section pert3
variable (m : Model)

/-! #### the forward pass on the output of a previous PERT computation -/

/-- the table the forward pass starts from -/
def fwdInit (m : Model) (time : Rat) (l : Live) : Pert :=
  { est := fun t => if t < m.nT then time else l.est t
    eft := fun t => if t < m.nT && (m.task t).inputs.isEmpty then time + l.rem t else l.eft t
    lst := l.lst, lft := l.lft }

theorem pertFwd_eq (time : Rat) (l : Live) :
    pertFwd m time l = fwdLoop m l (m.nT + 1) (heads m) (fwdInit m time l) := rfl

/-- The relation between a forward pass `p` and a second forward pass `p'` that started from
the first one's final `eft` values `E`: same `est`; every `est` is at least `time`; and every
`eft` either already agrees, or belongs to a task the first pass has not written yet (its
`est` is still `time`) and holds the final value `E`. -/
structure FR (m : Model) (time : Rat) (E : Nat → Rat) (p p' : Pert) : Prop where
  est : p'.est = p.est
  lo : ∀ t, t < m.nT → time ≤ p.est t
  eft : ∀ t, p'.eft t = p.eft t ∨ (t < m.nT ∧ p.est t = time ∧ p'.eft t = E t)

theorem FR_step (l : Live) (hrem : ∀ t, t < m.nT → FsSrc m t → 0 ≤ l.rem t) (time : Rat)
    (E : Nat → Rat) (p p' : Pert) (i : Nat) (e : Nat × Dep) (hS : FR m time E p p') (hi : i < m.nT)
    (hG : p'.eft i = p.eft i) (he : e ∈ (m.task i).outputs) :
    FR m time E (fwdRelax l p i e) (fwdRelax l p' i e) ∧
    (fwdRelax l p' i e).eft e.1 = (fwdRelax l p i e).eft e.1 ∧
    ∀ t, p'.eft t = p.eft t → (fwdRelax l p' i e).eft t = (fwdRelax l p i e).eft t := by
  have hc : fwdCand l p' i e = fwdCand l p i e := fwdCand_congr l i e hS.est hG
  have hge : time ≤ (fwdCand l p i e).1 :=
    Rat.le_trans (hS.lo i hi) (fwdCand_ge l p i e (fun hfs => hrem i hi ⟨e, he, hfs⟩))
  rw [fwdRelax_eq l p, fwdRelax_eq l p', hc, hS.est]
  by_cases hw : (fwdCand l p i e).1 ≥ p.est e.1
  · rw [if_pos hw, if_pos hw]
    refine ⟨⟨?_, ?_, ?_⟩, ?_, ?_⟩
    · rfl
    · intro t ht
      show time ≤ upd p.est e.1 _ t
      rw [upd_apply]; split
      · exact hge
      · exact hS.lo t ht
    · intro t
      show upd p'.eft e.1 _ t = upd p.eft e.1 _ t ∨ (t < m.nT ∧ upd p.est e.1 _ t = time ∧ upd p'.eft e.1 _ t = E t)
      by_cases ht : t = e.1
      · left; rw [ht, upd_same, upd_same]
      · rw [upd_other _ _ _ _ ht, upd_other _ _ _ _ ht, upd_other _ _ _ _ ht]; exact hS.eft t
    · show upd p'.eft e.1 _ e.1 = upd p.eft e.1 _ e.1
      rw [upd_same, upd_same]
    · intro t ht
      show upd p'.eft e.1 _ t = upd p.eft e.1 _ t
      by_cases h : t = e.1
      · rw [h, upd_same, upd_same]
      · rw [upd_other _ _ _ _ h, upd_other _ _ _ _ h]; exact ht
  · rw [if_neg hw, if_neg hw]
    refine ⟨hS, ?_, fun _ h => h⟩
    rcases hS.eft e.1 with h | ⟨_, h, _⟩
    · exact h
    · exfalso; apply hw; rw [h]; exact hge

/-- A second forward pass, on a state that differs from `l` only in that its `eft` (and its
`est` outside the task list) are those the first pass computed, computes the same `est` and
`eft` again. -/
theorem pertFwd_again (hwf : WF m) (l l' : Live) (hrem : ∀ t, t < m.nT → FsSrc m t → 0 ≤ l.rem t)
    (time : Rat)
    (hr : l'.rem = l.rem)
    (hest : ∀ t, ¬ t < m.nT → l'.est t = (pertFwd m time l).est t)
    (heft : l'.eft = (pertFwd m time l).eft) :
    (pertFwd m time l').est = (pertFwd m time l).est ∧
    (pertFwd m time l').eft = (pertFwd m time l).eft := by
  have hfr := fwdLoop_frame m hwf l (m.nT + 1) (heads m) (fwdInit m time l)
    (fun i hi => (mem_heads m i hi).1)
  rw [← pertFwd_eq] at hfr
  have h0 : FR m time (pertFwd m time l).eft (fwdInit m time l) (fwdInit m time l') := by
    refine ⟨?_, ?_, ?_⟩
    · funext t
      show (if t < m.nT then time else l'.est t) = (if t < m.nT then time else l.est t)
      split
      · rfl
      · rename_i ht
        rw [hest t ht, (hfr.1 t ht).1]
        show (if t < m.nT then time else l.est t) = _
        rw [if_neg ht]
    · intro t ht
      show time ≤ (if t < m.nT then time else l.est t)
      rw [if_pos ht]; exact Rat.le_refl
    · intro t
      show (if t < m.nT && (m.task t).inputs.isEmpty then time + l'.rem t else l'.eft t) =
          (if t < m.nT && (m.task t).inputs.isEmpty then time + l.rem t else l.eft t) ∨
        (t < m.nT ∧ (if t < m.nT then time else l.est t) = time ∧
          (if t < m.nT && (m.task t).inputs.isEmpty then time + l'.rem t else l'.eft t) =
            (pertFwd m time l).eft t)
      by_cases hc : (decide (t < m.nT) && (m.task t).inputs.isEmpty) = true
      · left; rw [if_pos hc, if_pos hc, hr]
      · rw [if_neg hc, if_neg hc]
        by_cases ht : t < m.nT
        · right; exact ⟨ht, if_pos ht, by rw [heft]⟩
        · left
          rw [heft, (hfr.1 t ht).2]
          show (if t < m.nT && (m.task t).inputs.isEmpty then time + l.rem t else l.eft t) = _
          rw [if_neg hc]
  have hfin := fwdLoop_pair m l (FR m time (pertFwd m time l).eft) (fun p p' t => p'.eft t = p.eft t)
    (fun p p' i e hS hi hG he => FR_step m l hrem time _ p p' i e hS hi hG he)
    (m.nT + 1) (heads m) (fwdInit m time l) (fwdInit m time l') h0 ?_
  · rw [← pertFwd_eq, ← fwdLoop_rem m hr, ← pertFwd_eq] at hfin
    refine ⟨hfin.est, ?_⟩
    funext t
    rcases hfin.eft t with h | ⟨_, _, h⟩
    · exact h
    · exact h
  · intro i hi
    obtain ⟨hlt, hemp⟩ := mem_heads m i hi
    refine ⟨hlt, ?_⟩
    show (if i < m.nT && (m.task i).inputs.isEmpty then time + l'.rem i else l'.eft i) =
      (if i < m.nT && (m.task i).inputs.isEmpty then time + l.rem i else l.eft i)
    have hc : (decide (i < m.nT) && (m.task i).inputs.isEmpty) = true := by simp [hlt, hemp]
    rw [if_pos hc, if_pos hc, hr]

end pert3

section pert4
variable (m : Model)

/-! #### the backward pass, and the whole computation -/

/-- the table the backward pass starts from (with the `pertReset` repair) -/
def bwdInit (m : Model) (l : Live) (cpl : Rat) (p : Pert) : Pert :=
  { est := p.est, eft := p.eft
    lft := fun t => if (tails m).contains t then cpl else (if t < m.nT then -1 else p.lft t)
    lst := fun t => if (tails m).contains t then cpl - l.rem t else (if t < m.nT then -1 else p.lst t)
    done := fun _ => false }

theorem pertBwd_eq (l : Live) (p : Pert) :
    pertBwd m l pertReset p =
      (bwdLoop m l (m.nT + 1) (tails m) (bwdInit m l (maxList l.cpl ((tails m).map p.eft)) p),
        maxList l.cpl ((tails m).map p.eft)) := rfl

theorem maxList_idem (d : Rat) (xs : List Rat) : maxList (maxList d xs) xs = maxList d xs := by
  cases xs <;> rfl

theorem bwdInit_congr (l l' : Live) (cpl : Rat) (p p' : Pert) (hr : l'.rem = l.rem)
    (h1 : p'.est = p.est) (h2 : p'.eft = p.eft)
    (h3 : ∀ t, ¬ t < m.nT → p'.lst t = p.lst t ∧ p'.lft t = p.lft t) :
    bwdInit m l' cpl p' = bwdInit m l cpl p := by
  unfold bwdInit
  rw [h1, h2, hr]
  congr 1
  · funext t
    split
    · rfl
    · split
      · rfl
      · rename_i ht; exact (h3 t ht).1
  · funext t
    split
    · rfl
    · split
      · rfl
      · rename_i ht; exact (h3 t ht).2

/-- the five fields `pert` computes, in terms of the two passes -/
theorem pert_fields (time : Nat) (l : Live) :
    (pert m time l).est = (pertBwd m l pertReset (pertFwd m (time : Rat) l)).1.est ∧
    (pert m time l).eft = (pertBwd m l pertReset (pertFwd m (time : Rat) l)).1.eft ∧
    (pert m time l).lst = (pertBwd m l pertReset (pertFwd m (time : Rat) l)).1.lst ∧
    (pert m time l).lft = (pertBwd m l pertReset (pertFwd m (time : Rat) l)).1.lft ∧
    (pert m time l).cpl = (pertBwd m l pertReset (pertFwd m (time : Rat) l)).2 := by
  refine ⟨?_, ?_, ?_, ?_, rfl⟩ <;> exact tabN_eq _ _

/-- `pert` is determined by what the two passes return (on states that agree elsewhere) -/
theorem pert_pert_of_out (time : Nat) (l : Live)
    (h : pertBwd m (pert m time l) pertReset (pertFwd m (time : Rat) (pert m time l)) =
      pertBwd m l pertReset (pertFwd m (time : Rat) l)) :
    pert m time (pert m time l) = pert m time l := by
  show (match pertBwd m (pert m time l) pertReset (pertFwd m (time : Rat) (pert m time l)) with
    | (pb, cpl) => ({ (pert m time l) with est := tabN m.nT pb.est, eft := tabN m.nT pb.eft,
                                           lst := tabN m.nT pb.lst, lft := tabN m.nT pb.lft,
                                           cpl := cpl } : Live)) = _
  rw [h]
  rfl

/-- **(e)** recomputing the PERT data of a state whose PERT data have just been computed
changes nothing, when no task with a finish-to-start successor has a negative remaining
work amount. -/
theorem pert_idem (hwf : WF m) (time : Nat) (l : Live)
    (hrem : ∀ t, t < m.nT → FsSrc m t → 0 ≤ l.rem t) :
    pert m time (pert m time l) = pert m time l := by
  apply pert_pert_of_out
  obtain ⟨fe, ff, fl, fL, fc⟩ := pert_fields m time l
  rw [pertBwd_eq] at fe ff fl fL fc
  have hb := bwdLoop_frame m hwf l (m.nT + 1) (tails m)
    (bwdInit m l (maxList l.cpl ((tails m).map (pertFwd m (time : Rat) l).eft)) (pertFwd m (time : Rat) l))
    (fun i hi => mem_tails m i hi)
  have hf := fwdLoop_frame m hwf l (m.nT + 1) (heads m) (fwdInit m time l)
    (fun i hi => (mem_heads m i hi).1)
  rw [← pertFwd_eq] at hf
  have hf' := fwdLoop_frame m hwf (pert m time l) (m.nT + 1) (heads m) (fwdInit m time (pert m time l))
    (fun i hi => (mem_heads m i hi).1)
  rw [← pertFwd_eq] at hf'
  -- the second forward pass
  have hfw := pertFwd_again m hwf l (pert m time l) hrem (time : Rat) rfl
    (fun t _ => by rw [fe]; exact congrFun hb.2.1 t)
    (by rw [ff]; exact hb.2.2)
  -- the critical path length
  have hcpl : maxList (pert m time l).cpl ((tails m).map (pertFwd m (time : Rat) (pert m time l)).eft) =
      maxList l.cpl ((tails m).map (pertFwd m (time : Rat) l).eft) := by
    rw [hfw.2, fc]; exact maxList_idem _ _
  rw [pertBwd_eq, pertBwd_eq, hcpl, bwdLoop_rem m (show (pert m time l).rem = l.rem from rfl)]
  congr 2
  apply bwdInit_congr m l (pert m time l) _ _ _ rfl hfw.1 hfw.2
  intro t ht
  have hnt : (tails m).contains t = false := by
    rw [Bool.eq_false_iff]; intro hc
    exact ht (mem_tails m t (by simpa using hc))
  constructor
  · rw [hf'.2.1, hf.2.1]
    show (pert m time l).lst t = l.lst t
    rw [fl, (hb.1 t ht).1]
    show (if (tails m).contains t then _ else (if t < m.nT then _ else (pertFwd m (time : Rat) l).lst t)) = _
    rw [hnt, if_neg (by simp), if_neg ht, hf.2.1]; rfl
  · rw [hf'.2.2, hf.2.2]
    show (pert m time l).lft t = l.lft t
    rw [fL, (hb.1 t ht).2]
    show (if (tails m).contains t then _ else (if t < m.nT then _ else (pertFwd m (time : Rat) l).lft t)) = _
    rw [hnt, if_neg (by simp), if_neg ht, hf.2.2]; rfl

end pert4

section upd
variable (m : Model)

/-! ### the whole `__update` block is idempotent on its own output -/

theorem removeOne_rem (l : Live) (c : Nat) : (removeOne l c).rem = l.rem := by
  unfold removeOne; split <;> rfl

theorem chkRemove_rem (l : Live) : (chkRemove m l).rem = l.rem := by
  simp only [chkRemove, chkRemoveOrd]
  exact foldl_proj _ Live.rem removeOne_rem _ _

theorem update_rem (time : Nat) (l : Live) : (update m time l).rem = (chkFinished m l).rem := by
  show (chkRemove m (compCheck m (chkFinished m l))).rem = _
  rw [chkRemove_rem]; rfl

theorem update_NR (time : Nat) (l : Live) :
    NR (chkFinished m l).tstate (update m time l).tstate := by
  have h := chkReady_NR m (chkRemove m (compCheck m (chkFinished m l)))
  rw [chkRemove_tstate, compCheck_tstate] at h
  exact h

/-- **the update block is idempotent on its own output**, given well-formed links and no
negative remaining work, after `check_state(FINISHED)`, of a task with a finish-to-start
successor (needed by the PERT part only) -/
theorem update_idem (hwf : WF m) (time : Nat) (l : Live)
    (hrem : ∀ t, t < m.nT → FsSrc m t → 0 ≤ (chkFinished m l).rem t) :
    update m time (update m time l) = update m time l := by
  have hn := update_NR m time l
  -- (a)
  have h1 : chkFinished m (update m time l) = update m time l :=
    chkFinished_of_noCand m _ (NoCand_NR m (chkFinished_noCand m l) hn (update_rem m time l))
  -- (b)
  have h2 : compCheck m (update m time l) = update m time l :=
    compCheck_fix m (chkReady m (chkRemove m (compCheck m (chkFinished m l)))) _ rfl rfl
  -- (c)
  have h3 : chkRemove m (update m time l) = update m time l :=
    chkRemove_fix m (compCheck m (chkFinished m l)) _ (fun t => hn.finished t) rfl
  -- (d)
  have h4 : chkReady m (update m time l) = update m time l :=
    chkReady_fix m (chkRemove m (compCheck m (chkFinished m l))) _ rfl
  -- (e)
  have h5 : pert m time (update m time l) = update m time l :=
    pert_idem m hwf time (compCheck m (chkReady m (chkRemove m (compCheck m (chkFinished m l)))))
      (fun t ht hfs => by
        have := hrem t ht hfs
        rw [← update_rem m time l] at this
        exact this)
  calc update m time (update m time l)
      = pert m time (compCheck m (chkReady m (chkRemove m (compCheck m
          (chkFinished m (update m time l)))))) := rfl
    _ = update m time l := by rw [h1, h2, h3, h4, h2, h5]

/-- the same with the PERT part taken as a hypothesis (no condition on the model) -/
theorem update_idem_of_pert (time : Nat) (l : Live)
    (hpert : ∀ l', pert m time (pert m time l') = pert m time l') :
    update m time (update m time l) = update m time l := by
  have hn := update_NR m time l
  have h1 : chkFinished m (update m time l) = update m time l :=
    chkFinished_of_noCand m _ (NoCand_NR m (chkFinished_noCand m l) hn (update_rem m time l))
  have h2 : compCheck m (update m time l) = update m time l :=
    compCheck_fix m (chkReady m (chkRemove m (compCheck m (chkFinished m l)))) _ rfl rfl
  have h3 : chkRemove m (update m time l) = update m time l :=
    chkRemove_fix m (compCheck m (chkFinished m l)) _ (fun t => hn.finished t) rfl
  have h4 : chkReady m (update m time l) = update m time l :=
    chkReady_fix m (chkRemove m (compCheck m (chkFinished m l))) _ rfl
  have h5 : pert m time (update m time l) = update m time l := hpert _
  calc update m time (update m time l)
      = pert m time (compCheck m (chkReady m (chkRemove m (compCheck m
          (chkFinished m (update m time l)))))) := rfl
    _ = update m time l := by rw [h1, h2, h3, h4, h2, h5]

/-! ### no negative remaining work at the PERT call: models without finish gates -/

/-- every non-WORKING task below `m.nT` has a non-negative remaining work amount -/
def RemOK (m : Model) (l : Live) : Prop :=
  ∀ t, t < m.nT → l.tstate t ≠ .working → 0 ≤ l.rem t

/-- the model has no FF / SF links -/
def NoFinishGate (m : Model) : Prop :=
  ∀ t, t < m.nT → ∀ e ∈ (m.task t).inputs, e.2 = .fs ∨ e.2 = .ss

/-- no task has both a finish gate (an FF / SF predecessor) and a finish-to-start successor -/
def GateOK (m : Model) : Prop :=
  ∀ t, t < m.nT → FsSrc m t → ∀ e ∈ (m.task t).inputs, e.2 = .fs ∨ e.2 = .ss

theorem NoFinishGate.gateOK {m : Model} (h : NoFinishGate m) : GateOK m := fun t ht _ => h t ht

/-- work amounts are non-negative and default progress is at most 1 -/
def WorkOK (m : Model) : Prop :=
  ∀ t, t < m.nT → 0 ≤ (m.task t).work ∧ (m.task t).prog ≤ 1

theorem finishGate_of_gateOK (h : GateOK m) (ts : Nat → TS) (t : Nat) (ht : t < m.nT)
    (hfs : FsSrc m t) : finishGate m ts t = true := by
  rw [finishGate_iff]
  intro e he
  rcases h t ht hfs e he with h' | h' <;> rw [h'] <;> exact ⟨(fun x => nomatch x), (fun x => nomatch x)⟩

theorem releaseW_rem (t : Nat) (l : Live) (w : Nat) : (releaseW t l w).rem = l.rem := by
  unfold releaseW; split <;> rfl
theorem releaseF_rem (t : Nat) (l : Live) (f : Nat) : (releaseF t l f).rem = l.rem := by
  unfold releaseF; split <;> rfl

theorem finishOne_rem (l : Live) (t : Nat) : (finishOne m l t).rem = upd l.rem t 0 := by
  unfold finishOne
  simp only
  split
  · simp only [foldl_proj _ Live.rem (releaseF_rem t), foldl_proj _ Live.rem (releaseW_rem t)]
  · simp only [foldl_proj _ Live.rem (releaseW_rem t)]

theorem RemOK_finStep (acc : Live) (t : Nat) (h : RemOK m acc) : RemOK m (finStep m acc t) := by
  unfold finStep
  split
  · intro t' ht' hw
    rw [finishOne_rem, upd_apply]
    split
    · exact Rat.le_refl
    · rename_i hne
      apply h t' ht'
      rw [finishOne_tstate, upd_other _ _ _ _ hne] at hw
      exact hw
  · exact h

theorem RemOK_finishClosure (order : List Nat) (fuel : Nat) (l : Live) (h : RemOK m l) :
    RemOK m (finishClosure m order fuel l) := by
  induction fuel generalizing l with
  | zero => exact h
  | succ n ih =>
    have hp : RemOK m (finishPass m order l) :=
      foldl_inv (finStep m) (RemOK m) (fun b a hb => RemOK_finStep m b a hb) order l h
    simp only [finishClosure]
    split
    · exact hp
    · exact ih _ hp

theorem RemOK_congr {l l' : Live} (ht : l'.tstate = l.tstate) (hr : l'.rem = l.rem)
    (h : RemOK m l) : RemOK m l' := by
  unfold RemOK; rw [ht, hr]; exact h

theorem RemOK_chkFinished (l : Live) (h : RemOK m l) : RemOK m (chkFinished m l) := by
  refine RemOK_congr m ?_ ?_ (RemOK_finishClosure m (List.range m.nT) (m.nT + 1) l h)
  · simp [chkFinished, chkFinishedOrd]
  · simp [chkFinished, chkFinishedOrd]

/-- without a finish gate a WORKING task that overshot is finished (and clamped to 0) at once,
so after `check_state(FINISHED)` the remaining work of a task with a finish-to-start
successor is not negative -/
theorem chkFinished_rem_nonneg (hng : GateOK m) (l : Live) (h : RemOK m l) :
    ∀ t, t < m.nT → FsSrc m t → 0 ≤ (chkFinished m l).rem t := by
  intro t ht hfs
  by_cases hw : (chkFinished m l).tstate t = .working
  · have hc := chkFinished_noCand m l t ht
    rw [finishGate_of_gateOK m hng _ t ht hfs, Bool.and_true] at hc
    simp only [finishCand, hw, beq_self_eq_true, Bool.true_and, decide_eq_false_iff_not] at hc
    exact Rat.le_of_lt (Rat.not_le.mp hc)
  · exact RemOK_chkFinished m l h t ht hw

theorem RemOK_update (time : Nat) (l : Live) (h : RemOK m l) : RemOK m (update m time l) := by
  have hn := update_NR m time l
  intro t ht hw
  rw [update_rem]
  apply RemOK_chkFinished m l h t ht
  intro hw'
  apply hw
  have := hn.working t
  rw [hw'] at this
  simpa using this

end upd

section step
variable (m : Model)

/-! ### `RemOK` along a run -/

theorem moveComp_rem (l : Live) (c p : Nat) : (moveComp l c p).rem = l.rem := by
  unfold moveComp
  dsimp only
  split <;> split <;> rfl

theorem placeStep_rem (t : Nat) (l : Live) : (placeStep m t l).rem = l.rem := by
  unfold placeStep
  split
  · rfl
  · split
    · dsimp only
      split
      · rfl
      · exact moveComp_rem _ _ _
    · rfl

theorem allocWorkers_rem (t : Nat) (a : Alloc) : (allocWorkers m t a).l.rem = a.l.rem := by
  unfold allocWorkers
  refine foldl_proj_eq _ (fun x : Alloc => x.l.rem) ?_ _ _ _ rfl
  intro b w
  split <;> rfl

theorem allocPairs_rem (t : Nat) (a : Alloc) : (allocPairs m t a).l.rem = a.l.rem := by
  unfold allocPairs
  split
  · rfl
  · split
    · rfl
    · refine foldl_proj_eq _ (fun x : Alloc => x.l.rem) ?_ _ _ _ rfl
      intro b f
      dsimp only
      split <;> rfl

theorem allocTask_rem (acc : Alloc) (t : Nat) : (allocTask m acc t).l.rem = acc.l.rem := by
  unfold allocTask
  dsimp only
  have h1 : ∀ (b : Bool) (mv : List Nat),
      (if b then acc else { acc with l := placeStep m t acc.l, moved := mv }).l.rem = acc.l.rem := by
    intro b mv
    cases b
    · exact placeStep_rem m t acc.l
    · rfl
  split
  · exact h1 _ _
  · split
    · rw [allocPairs_rem]; exact h1 _ _
    · rw [allocWorkers_rem]; exact h1 _ _

theorem allocate_rem (lg : Logs) (rule : TaskRule) (l : Live) : (allocate m lg rule l).rem = l.rem := by
  unfold allocate
  dsimp only
  exact foldl_proj_eq _ (fun x : Alloc => x.l.rem) (allocTask_rem m) _ _ _ rfl

theorem preWorking_rem (p : Params) (s : St) : (preWorking m p s).rem = s.live.rem := by
  unfold preWorking
  split
  · rw [allocate_rem]; rfl
  · rfl

theorem startOne_rem (l : Live) (t : Nat) : (startOne m l t).rem = l.rem := by
  unfold startOne
  dsimp only
  split
  · split
    · refine foldl_proj_eq _ Live.rem ?_ _ _ _ ?_
      · intro _ _; rfl
      · refine foldl_proj_eq _ Live.rem ?_ _ _ _ rfl
        intro _ _; rfl
    · refine foldl_proj_eq _ Live.rem ?_ _ _ _ rfl
      intro _ _; rfl
  · split
    · refine foldl_proj_eq _ Live.rem ?_ _ _ _ rfl
      intro a w
      split
      · refine foldl_proj_eq _ Live.rem ?_ _ _ _ ?_
        · intro b f; split <;> rfl
        · split <;> rfl
      · split <;> rfl
    · rfl

theorem chkWorking_rem (l : Live) : (chkWorking m l).rem = l.rem := by
  simp only [chkWorking, chkWorkingOrd]
  exact foldl_proj _ Live.rem (startOne_rem m) _ _

/-- a WORKING task is still WORKING after `check_state(WORKING)` -/
theorem chkWorking_keeps_working (l : Live) (t : Nat) (h : l.tstate t = .working) :
    (chkWorking m l).tstate t = .working := by
  rw [chkWorking_tstate]
  refine foldl_inv (startOne m) (fun a => a.tstate t = .working) ?_ _ l h
  intro a t' ha
  rw [startOne_tstate]
  split
  · rw [upd_apply]; split
    · rfl
    · exact ha
  · exact ha

theorem perform_rem (w a : Bool) (l : Live) (t : Nat) :
    (perform m w a l).rem t =
      if t < m.nT && l.tstate t == .working && (w || (a && (m.task t).isAuto))
      then l.rem t - contrib m l t else l.rem t := by
  simp [perform]

theorem perform_rem_of_not_working (w a : Bool) (l : Live) (t : Nat) (h : l.tstate t ≠ .working) :
    (perform m w a l).rem t = l.rem t := by
  rw [perform_rem]
  have : (l.tstate t == TS.working) = false := by simpa using h
  rw [this, Bool.and_false, Bool.false_and, if_neg (by simp)]

theorem RemOK_stepBody (p : Params) (s : St) (h : RemOK m s.live) :
    RemOK m (stepBody m p s).live := by
  intro t ht hw
  rw [stepBody_tstate] at hw
  have hpw : (preWorking m p s).tstate t ≠ .working := by
    intro hh; apply hw
    cases startGuard p s
    · exact hh
    · exact chkWorking_keeps_working m _ t hh
  rw [preWorking_tstate] at hpw
  rw [stepBody_live, perform_rem_of_not_working m _ _ _ t (by rw [compCheck_tstate]; exact hw)]
  show 0 ≤ (chkWorkingIf (startGuard p s) m (preWorking m p s)).rem t
  have hrem : (chkWorkingIf (startGuard p s) m (preWorking m p s)).rem = (preWorking m p s).rem := by
    cases startGuard p s
    · rfl
    · exact chkWorking_rem m _
  rw [hrem, preWorking_rem]
  exact h t ht hpw

theorem updated_idem (hwf : WF m) (hng : GateOK m) (s : St) (h : RemOK m s.live) :
    updated m (updated m s) = updated m s := by
  show ({ updated m s with live := update m s.time (update m s.time s.live) } : St) = _
  rw [update_idem m hwf s.time s.live (chkFinished_rem_nonneg m hng s.live h)]
  rfl

/-- after `initialize(state_info=True)` the remaining work amounts are the default ones -/
theorem RemOK_enter (hw : WorkOK m) (p : Params) (s : St) (h : p.initState = true) :
    RemOK m (enter m p s).live := by
  intro t ht _
  rw [enter_live, h, initProject_live]
  show 0 ≤ (initLive m p.initLog s.live).rem t
  have : ∀ l : Live, (initLive m p.initLog l).rem t = (m.task t).work * (1 - (m.task t).prog) := by
    intro l; simp [initLive, ht]
  rw [this]
  obtain ⟨h1, h2⟩ := hw t ht
  apply Rat.mul_nonneg h1
  grind

end step

end Idem
end PDesy
