/-
  PDesy.Lemmas.BwdStart — helpers about `bwdStart m due s = freshHelpers m (backwardModel m due) s`,
  the state the inner run of `backward_simulate` starts from (Model/Backward):
  * the frame: `bwdStart` touches nothing but the eight live task fields and the four task logs
    at indices `≥ m.nT` (the helper slots), where it installs constructor values;
  * how many helpers there are: `(backwardModel m due).nT = m.nT + #helperTargets`;
  * `Aligned` seen index-wise: a decidable form, invariance under equal sizes, and the
    "m-slots only" version of C08 (`Aligned m` is an invariant of the loop of any model `M`
    whose sizes are at least those of `m`).
-/
import PDesy.Lemmas.BackwardLemmas
import PDesy.Props.C09Det

namespace PDesy.Bwd
open PDesy PDesy.Logs

/-! ### the frame of `bwdStart` -/

section frame
variable (m : Model) (due : Bool) (s : St)

/-! non-task live fields -/
@[simp] theorem bwdStart_cpl : (bwdStart m due s).live.cpl = s.live.cpl := rfl
@[simp] theorem bwdStart_wstate : (bwdStart m due s).live.wstate = s.live.wstate := rfl
@[simp] theorem bwdStart_wasg : (bwdStart m due s).live.wasg = s.live.wasg := rfl
@[simp] theorem bwdStart_fstate : (bwdStart m due s).live.fstate = s.live.fstate := rfl
@[simp] theorem bwdStart_fasg : (bwdStart m due s).live.fasg = s.live.fasg := rfl
@[simp] theorem bwdStart_cstate : (bwdStart m due s).live.cstate = s.live.cstate := rfl
@[simp] theorem bwdStart_placed : (bwdStart m due s).live.placed = s.live.placed := rfl
@[simp] theorem bwdStart_wpComps : (bwdStart m due s).live.wpComps = s.live.wpComps := rfl

/-! non-task logs -/
@[simp] theorem bwdStart_log_wState : (bwdStart m due s).logs.wState = s.logs.wState := rfl
@[simp] theorem bwdStart_log_wCost : (bwdStart m due s).logs.wCost = s.logs.wCost := rfl
@[simp] theorem bwdStart_log_wAsg : (bwdStart m due s).logs.wAsg = s.logs.wAsg := rfl
@[simp] theorem bwdStart_log_fState : (bwdStart m due s).logs.fState = s.logs.fState := rfl
@[simp] theorem bwdStart_log_fCost : (bwdStart m due s).logs.fCost = s.logs.fCost := rfl
@[simp] theorem bwdStart_log_fAsg : (bwdStart m due s).logs.fAsg = s.logs.fAsg := rfl
@[simp] theorem bwdStart_log_teamCost : (bwdStart m due s).logs.teamCost = s.logs.teamCost := rfl
@[simp] theorem bwdStart_log_wpCost : (bwdStart m due s).logs.wpCost = s.logs.wpCost := rfl
@[simp] theorem bwdStart_log_wpPlaced : (bwdStart m due s).logs.wpPlaced = s.logs.wpPlaced := rfl
@[simp] theorem bwdStart_log_orgCost : (bwdStart m due s).logs.orgCost = s.logs.orgCost := rfl
@[simp] theorem bwdStart_log_projCost : (bwdStart m due s).logs.projCost = s.logs.projCost := rfl
@[simp] theorem bwdStart_log_cState : (bwdStart m due s).logs.cState = s.logs.cState := rfl
@[simp] theorem bwdStart_log_cPlaced : (bwdStart m due s).logs.cPlaced = s.logs.cPlaced := rfl

/-! the scalar fields of the project -/
@[simp] theorem bwdStart_time : (bwdStart m due s).time = s.time := rfl
@[simp] theorem bwdStart_status : (bwdStart m due s).status = s.status := rfl
@[simp] theorem bwdStart_mode : (bwdStart m due s).mode = s.mode := rfl
@[simp] theorem bwdStart_absence : (bwdStart m due s).absence = s.absence := rfl
@[simp] theorem bwdStart_autoFlag : (bwdStart m due s).autoFlag = s.autoFlag := rfl

variable {m} {t : Nat}

/-! live task fields and task logs below `m.nT` (the real tasks) -/
@[simp] theorem bwdStart_tstate (ht : t < m.nT) : (bwdStart m due s).live.tstate t = s.live.tstate t :=
  if_neg (Nat.not_le_of_lt ht)
@[simp] theorem bwdStart_rem (ht : t < m.nT) : (bwdStart m due s).live.rem t = s.live.rem t :=
  if_neg (Nat.not_le_of_lt ht)
@[simp] theorem bwdStart_est (ht : t < m.nT) : (bwdStart m due s).live.est t = s.live.est t :=
  if_neg (Nat.not_le_of_lt ht)
@[simp] theorem bwdStart_eft (ht : t < m.nT) : (bwdStart m due s).live.eft t = s.live.eft t :=
  if_neg (Nat.not_le_of_lt ht)
@[simp] theorem bwdStart_lst (ht : t < m.nT) : (bwdStart m due s).live.lst t = s.live.lst t :=
  if_neg (Nat.not_le_of_lt ht)
@[simp] theorem bwdStart_lft (ht : t < m.nT) : (bwdStart m due s).live.lft t = s.live.lft t :=
  if_neg (Nat.not_le_of_lt ht)
@[simp] theorem bwdStart_allocW (ht : t < m.nT) : (bwdStart m due s).live.allocW t = s.live.allocW t :=
  if_neg (Nat.not_le_of_lt ht)
@[simp] theorem bwdStart_allocF (ht : t < m.nT) : (bwdStart m due s).live.allocF t = s.live.allocF t :=
  if_neg (Nat.not_le_of_lt ht)
@[simp] theorem bwdStart_log_tState (ht : t < m.nT) : (bwdStart m due s).logs.tState t = s.logs.tState t :=
  if_neg (Nat.not_le_of_lt ht)
@[simp] theorem bwdStart_log_tRem (ht : t < m.nT) : (bwdStart m due s).logs.tRem t = s.logs.tRem t :=
  if_neg (Nat.not_le_of_lt ht)
@[simp] theorem bwdStart_log_tAllocW (ht : t < m.nT) : (bwdStart m due s).logs.tAllocW t = s.logs.tAllocW t :=
  if_neg (Nat.not_le_of_lt ht)
@[simp] theorem bwdStart_log_tAllocF (ht : t < m.nT) : (bwdStart m due s).logs.tAllocF t = s.logs.tAllocF t :=
  if_neg (Nat.not_le_of_lt ht)

/-! the helper slots `≥ m.nT`: constructor values -/
@[simp] theorem bwdStart_tstate_helper (ht : m.nT ≤ t) : (bwdStart m due s).live.tstate t = .none :=
  if_pos ht
@[simp] theorem bwdStart_rem_helper (ht : m.nT ≤ t) : (bwdStart m due s).live.rem t =
    ((backwardModel m due).task t).work * (1 - ((backwardModel m due).task t).prog) := if_pos ht
@[simp] theorem bwdStart_est_helper (ht : m.nT ≤ t) : (bwdStart m due s).live.est t = 0 := if_pos ht
@[simp] theorem bwdStart_eft_helper (ht : m.nT ≤ t) : (bwdStart m due s).live.eft t = 0 := if_pos ht
@[simp] theorem bwdStart_lst_helper (ht : m.nT ≤ t) : (bwdStart m due s).live.lst t = -1 := if_pos ht
@[simp] theorem bwdStart_lft_helper (ht : m.nT ≤ t) : (bwdStart m due s).live.lft t = -1 := if_pos ht
@[simp] theorem bwdStart_allocW_helper (ht : m.nT ≤ t) : (bwdStart m due s).live.allocW t = [] := if_pos ht
@[simp] theorem bwdStart_allocF_helper (ht : m.nT ≤ t) : (bwdStart m due s).live.allocF t = [] := if_pos ht
@[simp] theorem bwdStart_log_tState_helper (ht : m.nT ≤ t) : (bwdStart m due s).logs.tState t = [] := if_pos ht
@[simp] theorem bwdStart_log_tRem_helper (ht : m.nT ≤ t) : (bwdStart m due s).logs.tRem t = [] := if_pos ht
@[simp] theorem bwdStart_log_tAllocW_helper (ht : m.nT ≤ t) : (bwdStart m due s).logs.tAllocW t = [] := if_pos ht
@[simp] theorem bwdStart_log_tAllocF_helper (ht : m.nT ≤ t) : (bwdStart m due s).logs.tAllocF t = [] := if_pos ht

end frame

/-- `bwdStart` forgets what it is applied to at the helper slots: applying it twice is applying
it once -/
theorem bwdStart_idem (m : Model) (due : Bool) (s : St) :
    bwdStart m due (bwdStart m due s) = bwdStart m due s := by
  simp only [bwdStart, freshHelpers]
  congr 2 <;> funext t <;> by_cases h : m.nT ≤ t <;> simp [h]

/-! ### how many helpers -/

theorem addHelper_nT (mx : Int) (M : Model) (tail : Nat) : (addHelper mx M tail).nT = M.nT + 1 := rfl

theorem foldl_addHelper_nT (mx : Int) (ts : List Nat) :
    ∀ M : Model, (ts.foldl (addHelper mx) M).nT = M.nT + ts.length := by
  induction ts with
  | nil => intro M; rfl
  | cons t ts ih => intro M; rw [List.foldl_cons, ih, addHelper_nT, List.length_cons]; omega

theorem withHelpers_nT (r : Model) : (withHelpers r).nT = r.nT + (helperTargets r).length :=
  foldl_addHelper_nT _ _ r

/-- the inner run's model has one extra task per helper target, none without due times -/
theorem backwardModel_nT (m : Model) (due : Bool) :
    (backwardModel m due).nT = m.nT + (if due then (helperTargets (revDeps m)).length else 0) := by
  cases due
  · rfl
  · exact withHelpers_nT (revDeps m)

@[simp] theorem backwardModel_false (m : Model) : backwardModel m false = revDeps m := rfl

@[simp] theorem backwardModel_false_nT (m : Model) : (backwardModel m false).nT = m.nT := rfl

/-- no reversed head with a due time below the maximum: no helper -/
theorem backwardModel_nT_of_no_targets (m : Model) (due : Bool)
    (h : helperTargets (revDeps m) = []) : (backwardModel m due).nT = m.nT := by
  rw [backwardModel_nT, h]; simp

/-- … and then the model of the inner run is just the reversed model -/
theorem backwardModel_eq_of_no_targets (m : Model) (due : Bool)
    (h : helperTargets (revDeps m) = []) : backwardModel m due = revDeps m := by
  cases due
  · rfl
  · show withHelpers (revDeps m) = revDeps m
    unfold withHelpers
    simp only [h, List.foldl_nil]

/-! ### `Aligned`, index-wise -/

/-- `Aligned` as a conjunction of bounded quantifications (decidable) -/
theorem aligned_iff (m : Model) (s : St) :
    Aligned m s ↔
      ((∀ t, t < m.nT → (s.logs.tState t).length = s.time) ∧
       (∀ t, t < m.nT → (s.logs.tRem t).length = s.time) ∧
       (∀ t, t < m.nT → (s.logs.tAllocW t).length = s.time) ∧
       (∀ t, t < m.nT → (s.logs.tAllocF t).length = s.time)) ∧
      ((∀ w, w < m.nW → (s.logs.wState w).length = s.time) ∧
       (∀ w, w < m.nW → (s.logs.wCost w).length = s.time) ∧
       (∀ w, w < m.nW → (s.logs.wAsg w).length = s.time)) ∧
      ((∀ f, f < m.nF → (s.logs.fState f).length = s.time) ∧
       (∀ f, f < m.nF → (s.logs.fCost f).length = s.time) ∧
       (∀ f, f < m.nF → (s.logs.fAsg f).length = s.time)) ∧
      (∀ a, a < m.nTeam → (s.logs.teamCost a).length = s.time) ∧
      ((∀ q, q < m.nWp → (s.logs.wpCost q).length = s.time) ∧
       (∀ q, q < m.nWp → (s.logs.wpPlaced q).length = s.time)) ∧
      (s.logs.orgCost.length = s.time ∧ s.logs.projCost.length = s.time) ∧
      ((∀ c, c < m.nC → (s.logs.cState c).length = s.time) ∧
       (∀ c, c < m.nC → (s.logs.cPlaced c).length = s.time)) :=
  ⟨fun ⟨h1, h2, h3, h4, h5, h6, h7, h8, h9, h10, h11, h12, h13, h14, h15, h16, h17⟩ =>
    ⟨⟨h1, h2, h3, h4⟩, ⟨h5, h6, h7⟩, ⟨h8, h9, h10⟩, h11, ⟨h12, h13⟩, ⟨h14, h15⟩, ⟨h16, h17⟩⟩,
   fun ⟨⟨h1, h2, h3, h4⟩, ⟨h5, h6, h7⟩, ⟨h8, h9, h10⟩, h11, ⟨h12, h13⟩, ⟨h14, h15⟩, ⟨h16, h17⟩⟩ =>
    ⟨h1, h2, h3, h4, h5, h6, h7, h8, h9, h10, h11, h12, h13, h14, h15, h16, h17⟩⟩

instance (m : Model) (s : St) : Decidable (Aligned m s) :=
  decidable_of_iff _ (aligned_iff m s).symm

/-- `Aligned` reads the model's six sizes only -/
theorem Aligned.of_sizes {m m' : Model} {s : St} (h : Aligned m s) (hT : m'.nT = m.nT)
    (hW : m'.nW = m.nW) (hF : m'.nF = m.nF) (hTeam : m'.nTeam = m.nTeam) (hWp : m'.nWp = m.nWp)
    (hC : m'.nC = m.nC) : Aligned m' s :=
  Aligned.shrink h (Nat.le_of_eq hT) hW.symm hF.symm hTeam.symm hWp.symm hC.symm

/-- alignment is a property of the logs at the model's own indices and of the clock: two
states with the same clock whose logs agree below the sizes are aligned together -/
theorem Aligned.congr_below {m : Model} {s s' : St} (h : Aligned m s) (htime : s'.time = s.time)
    (h1 : ∀ t, t < m.nT → s'.logs.tState t = s.logs.tState t)
    (h2 : ∀ t, t < m.nT → s'.logs.tRem t = s.logs.tRem t)
    (h3 : ∀ t, t < m.nT → s'.logs.tAllocW t = s.logs.tAllocW t)
    (h4 : ∀ t, t < m.nT → s'.logs.tAllocF t = s.logs.tAllocF t)
    (h5 : s'.logs.wState = s.logs.wState) (h6 : s'.logs.wCost = s.logs.wCost)
    (h7 : s'.logs.wAsg = s.logs.wAsg) (h8 : s'.logs.fState = s.logs.fState)
    (h9 : s'.logs.fCost = s.logs.fCost) (h10 : s'.logs.fAsg = s.logs.fAsg)
    (h11 : s'.logs.teamCost = s.logs.teamCost) (h12 : s'.logs.wpCost = s.logs.wpCost)
    (h13 : s'.logs.wpPlaced = s.logs.wpPlaced) (h14 : s'.logs.orgCost = s.logs.orgCost)
    (h15 : s'.logs.projCost = s.logs.projCost) (h16 : s'.logs.cState = s.logs.cState)
    (h17 : s'.logs.cPlaced = s.logs.cPlaced) : Aligned m s' where
  tState := fun t ht => by rw [h1 t ht, htime]; exact h.tState t ht
  tRem := fun t ht => by rw [h2 t ht, htime]; exact h.tRem t ht
  tAllocW := fun t ht => by rw [h3 t ht, htime]; exact h.tAllocW t ht
  tAllocF := fun t ht => by rw [h4 t ht, htime]; exact h.tAllocF t ht
  wState := fun w hw => by rw [h5, htime]; exact h.wState w hw
  wCost := fun w hw => by rw [h6, htime]; exact h.wCost w hw
  wAsg := fun w hw => by rw [h7, htime]; exact h.wAsg w hw
  fState := fun f hf => by rw [h8, htime]; exact h.fState f hf
  fCost := fun f hf => by rw [h9, htime]; exact h.fCost f hf
  fAsg := fun f hf => by rw [h10, htime]; exact h.fAsg f hf
  teamCost := fun a ha => by rw [h11, htime]; exact h.teamCost a ha
  wpCost := fun q hq => by rw [h12, htime]; exact h.wpCost q hq
  wpPlaced := fun q hq => by rw [h13, htime]; exact h.wpPlaced q hq
  orgCost := by rw [h14, htime]; exact h.orgCost
  projCost := by rw [h15, htime]; exact h.projCost
  cState := fun c hc => by rw [h16, htime]; exact h.cState c hc
  cPlaced := fun c hc => by rw [h17, htime]; exact h.cPlaced c hc

/-- `bwdStart m due` keeps alignment with respect to any model with at most `m.nT` tasks
(it only touches task logs at indices `≥ m.nT`) -/
theorem aligned_bwdStart {m m' : Model} {s : St} (due : Bool) (hT : m'.nT ≤ m.nT)
    (h : Aligned m' s) : Aligned m' (bwdStart m due s) :=
  Aligned.congr_below h rfl
    (fun _ ht => bwdStart_log_tState due s (Nat.lt_of_lt_of_le ht hT))
    (fun _ ht => bwdStart_log_tRem due s (Nat.lt_of_lt_of_le ht hT))
    (fun _ ht => bwdStart_log_tAllocW due s (Nat.lt_of_lt_of_le ht hT))
    (fun _ ht => bwdStart_log_tAllocF due s (Nat.lt_of_lt_of_le ht hT))
    rfl rfl rfl rfl rfl rfl rfl rfl rfl rfl rfl rfl rfl

/-- … and conversely: alignment of `bwdStart m due s` below `m.nT` is alignment of `s` -/
theorem aligned_of_bwdStart {m m' : Model} {s : St} (due : Bool) (hT : m'.nT ≤ m.nT)
    (h : Aligned m' (bwdStart m due s)) : Aligned m' s :=
  Aligned.congr_below h rfl
    (fun _ ht => (bwdStart_log_tState due s (Nat.lt_of_lt_of_le ht hT)).symm)
    (fun _ ht => (bwdStart_log_tRem due s (Nat.lt_of_lt_of_le ht hT)).symm)
    (fun _ ht => (bwdStart_log_tAllocW due s (Nat.lt_of_lt_of_le ht hT)).symm)
    (fun _ ht => (bwdStart_log_tAllocF due s (Nat.lt_of_lt_of_le ht hT)).symm)
    rfl rfl rfl rfl rfl rfl rfl rfl rfl rfl rfl rfl rfl

/-! ### C08 on the slots of a smaller model

`Aligned m` is an invariant of the loop of ANY model `M` whose six sizes are at least those of
`m`: every log of `M` — in particular every log at an index below the sizes of `m` — grows by
exactly one entry per step.  Nothing is asked about the logs at the indices `m.nT ≤ t < M.nT`. -/

section sub
variable {m M : Model} {p : Params}

/-- the sizes of `m` are at most those of `M` -/
structure SizesLE (m M : Model) : Prop where
  nT : m.nT ≤ M.nT
  nW : m.nW ≤ M.nW
  nF : m.nF ≤ M.nF
  nTeam : m.nTeam ≤ M.nTeam
  nWp : m.nWp ≤ M.nWp
  nC : m.nC ≤ M.nC

theorem SizesLE.of_extends {r M : Model} (E : Extends r M) : SizesLE r M :=
  ⟨E.nT, Nat.le_of_eq E.nW.symm, Nat.le_of_eq E.nF.symm, Nat.le_of_eq E.nTeam.symm,
    Nat.le_of_eq E.nWp.symm, Nat.le_of_eq E.nC.symm⟩

/-- the model of the inner backward run has the sizes of `m`, and at least as many tasks -/
theorem SizesLE.backwardModel (m : Model) (due : Bool) : SizesLE m (backwardModel m due) :=
  have E := Extends.backwardModel m due
  ⟨E.nT, Nat.le_of_eq E.nW.symm, Nat.le_of_eq E.nF.symm, Nat.le_of_eq E.nTeam.symm,
    Nat.le_of_eq E.nWp.symm, Nat.le_of_eq E.nC.symm⟩

/-- one iteration of the loop of `M` appends one entry to every log below the sizes of `m` -/
theorem aligned_sub_step (hle : SizesLE m M) (s : St) (h : Aligned m s) :
    Aligned m (stepBody M p s) := by
  obtain ⟨h1, h2, h3, h4, h5, h6, h7, h8, h9, h10, h11, h12, h13, h14, h15, h16, h17⟩ := h
  obtain ⟨l1, l2, l3, l4, l5, l6⟩ := hle
  constructor
  · intro x hx; have : x < M.nT := Nat.lt_of_lt_of_le hx l1; simp [stepBody, record, cost, *]
  · intro x hx; have : x < M.nT := Nat.lt_of_lt_of_le hx l1; simp [stepBody, record, cost, *]
  · intro x hx; have : x < M.nT := Nat.lt_of_lt_of_le hx l1; simp [stepBody, record, cost, *]
  · intro x hx; have : x < M.nT := Nat.lt_of_lt_of_le hx l1; simp [stepBody, record, cost, *]
  · intro x hx; have : x < M.nW := Nat.lt_of_lt_of_le hx l2; simp [stepBody, record, cost, *]
  · intro x hx; have : x < M.nW := Nat.lt_of_lt_of_le hx l2; simp [stepBody, record, cost, *]
  · intro x hx; have : x < M.nW := Nat.lt_of_lt_of_le hx l2; simp [stepBody, record, cost, *]
  · intro x hx; have : x < M.nF := Nat.lt_of_lt_of_le hx l3; simp [stepBody, record, cost, *]
  · intro x hx; have : x < M.nF := Nat.lt_of_lt_of_le hx l3; simp [stepBody, record, cost, *]
  · intro x hx; have : x < M.nF := Nat.lt_of_lt_of_le hx l3; simp [stepBody, record, cost, *]
  · intro x hx; have : x < M.nTeam := Nat.lt_of_lt_of_le hx l4; simp [stepBody, record, cost, *]
  · intro x hx; have : x < M.nWp := Nat.lt_of_lt_of_le hx l5; simp [stepBody, record, cost, *]
  · intro x hx; have : x < M.nWp := Nat.lt_of_lt_of_le hx l5; simp [stepBody, record, cost, *]
  · simp [stepBody, record, cost, *]
  · simp [stepBody, record, cost, *]
  · intro x hx; have : x < M.nC := Nat.lt_of_lt_of_le hx l6; simp [stepBody, record, cost, *]
  · intro x hx; have : x < M.nC := Nat.lt_of_lt_of_le hx l6; simp [stepBody, record, cost, *]

/-- the whole loop of `M` keeps the slots of `m` aligned -/
theorem aligned_sub_loop (hle : SizesLE m M) (fuel : Nat) (s : St) (h : Aligned m s) :
    Aligned m (loop M p fuel s) :=
  loop_inv M p (Aligned m) (fun s hs => C08_aligned_congr (s := s) rfl rfl hs)
    (fun s hs _ => aligned_sub_step hle s hs)
    (fun s st hs => C08_aligned_status s st hs) fuel s h

/-- the state the run of `M` enters its loop with is aligned on the slots of `m` if the logs
are cleared or the slots of `m` were aligned before -/
theorem aligned_sub_enter (s : St) (h : p.initLog = true ∨ Aligned m s) :
    Aligned m (enter M p s) := by
  refine C08_aligned_congr (s := initProject M p.initState p.initLog s) rfl rfl ?_
  cases hl : p.initLog
  · rcases h with h | h
    · rw [hl] at h; cases h
    · refine C08_aligned_congr ?_ ?_ h <;> cases p.initState <;> rfl
  · constructor <;> (try intro x hx) <;> cases p.initState <;>
      simp [initProject, clearLogs, Logs.empty]

/-- **C08 on the slots of a smaller model.**  A run of `M` leaves every log at an index below
the sizes of `m` with exactly `time` entries, provided it cleared the logs or those logs (only
those) had `time` entries before. -/
theorem aligned_sub_run (hle : SizesLE m M) (s : St) (h : p.initLog = true ∨ Aligned m s) :
    Aligned m (simulate M p s) := by
  rw [simulate_eq]; exact aligned_sub_loop hle _ _ (aligned_sub_enter s h)

end sub

end PDesy.Bwd
