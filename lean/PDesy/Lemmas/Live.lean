/-
  PDesy.Lemmas.Live — helper lemmas for the liveness half of C05 ("every feasible project
  completes").

  The argument is a potential-function argument on the loop:

  * `phi m l t`  = (lifecycle stages ahead of task `t`: 3 for NONE … 0 for FINISHED)
                   + `⌈rem t / δ_t⌉` (`cnt`), where `δ_t = delta m t` is the rate of an automatic
                   task and the least skill among the eligible workers otherwise;
  * `mu m p R s` = project absence steps still to come + individual absence steps still to come
                   of the workers relied upon (`R`) + `Σ_{t < nT} phi`.

  In fragment L (`FragL`: no facilities, automatic tasks without component, FS/SS links only,
  acyclic in-range graph, positive automatic rates, no solo worker, an eligible worker of the
  organisation for every non-automatic task)
  * no iteration increases any summand (`phi_iter_le`, `absLeft_succ_le`);
  * every iteration that does not end the loop decreases `mu` (`mu_iter_lt`): on a project
    absence step the first summand drops; otherwise some task `t` is READY or WORKING after
    `__update` (`exists_open`, a rank-minimal unfinished task); if it is automatic it progresses
    by its rate (`auto_progress`); else take its eligible worker `w`: if `w` is absent now the
    second summand drops, if `w` is FREE at the end of the step C06 (`stepBody_idle`) is
    contradicted unless a solo worker shuts `w` out (`canAdd_refused`), and otherwise `w` is allocated to a task that is WORKING and
    progresses by at least `w`'s skill (`worker_progress`, via C02/C03/C04);
  * hence the loop leaves through its SUCCESS exit within `mu` iterations (`loop_success`), and
    `mu ≤ bound` after `initialize` (`mu_enter_le`).

  `Ded` is the dedicated-worker fragment; there every open task advances on every working step
  (`ded_progress`).
-/
import PDesy.Props.C06
import PDesy.Lemmas.Auto

namespace PDesy
namespace Live_
open Elig

/-! ### finite sums of naturals -/

def sumTo : Nat → (Nat → Nat) → Nat
  | 0, _ => 0
  | n + 1, f => sumTo n f + f n

theorem sumTo_le {n : Nat} {f g : Nat → Nat} (h : ∀ i, i < n → f i ≤ g i) : sumTo n f ≤ sumTo n g := by
  induction n with
  | zero => exact Nat.le_refl _
  | succ n ih =>
    simp only [sumTo]
    have := ih (fun i hi => h i (by omega))
    have := h n (by omega)
    omega

theorem sumTo_lt {n : Nat} {f g : Nat → Nat} (h : ∀ i, i < n → f i ≤ g i)
    (k : Nat) (hk : k < n) (hlt : f k + 1 ≤ g k) : sumTo n f + 1 ≤ sumTo n g := by
  induction n with
  | zero => omega
  | succ n ih =>
    simp only [sumTo]
    have hle := sumTo_le (n := n) (f := f) (g := g) (fun i hi => h i (by omega))
    have hn := h n (by omega)
    by_cases e : k = n
    · subst e; omega
    · have := ih (fun i hi => h i (by omega)) (by omega)
      omega

theorem sumTo_zero {n : Nat} {f : Nat → Nat} (h : sumTo n f = 0) : ∀ i, i < n → f i = 0 := by
  induction n with
  | zero => intro i hi; omega
  | succ n ih =>
    simp only [sumTo] at h
    intro i hi
    by_cases e : i = n
    · subst e; omega
    · exact ih (by omega) i (by omega)

/-! ### absence times still to come -/

/-- number of entries of `xs` that are `≥ τ` -/
def absLeft (xs : List Nat) (τ : Nat) : Nat := (xs.filter fun x => decide (τ ≤ x)).length

theorem absLeft_le_length (xs : List Nat) (τ : Nat) : absLeft xs τ ≤ xs.length :=
  List.length_filter_le _ _

theorem absLeft_succ_le (xs : List Nat) (τ : Nat) : absLeft xs (τ + 1) ≤ absLeft xs τ := by
  induction xs with
  | nil => exact Nat.le_refl _
  | cons x xs ih =>
    simp only [absLeft, List.filter_cons] at ih ⊢
    by_cases h1 : τ + 1 ≤ x
    · have h2 : τ ≤ x := by omega
      simp only [h1, h2, decide_true, if_true, List.length_cons]; omega
    · by_cases h2 : τ ≤ x
      · simp only [h1, h2, decide_true, decide_false, if_true, List.length_cons]
        simp; omega
      · simp only [h1, h2, decide_false]; simpa using ih

theorem absLeft_succ_lt (xs : List Nat) (τ : Nat) (h : τ ∈ xs) :
    absLeft xs (τ + 1) + 1 ≤ absLeft xs τ := by
  induction xs with
  | nil => cases h
  | cons x xs ih =>
    have hle := absLeft_succ_le xs τ
    simp only [absLeft, List.filter_cons] at ih hle ⊢
    by_cases e : x = τ
    · subst e
      have hn : ¬ (x + 1 ≤ x) := by omega
      simp [hn]; omega
    · have hmem : τ ∈ xs := by
        rcases List.mem_cons.mp h with h | h
        · exact absurd h.symm e
        · exact h
      have := ih hmem
      by_cases h1 : τ + 1 ≤ x
      · have h2 : τ ≤ x := by omega
        simp [h1, h2]; omega
      · have h2 : ¬ τ ≤ x := by omega
        simp [h1, h2]; omega

/-! ### the ceiling count -/

/-- `⌈r / δ⌉` as a natural number (0 when `r ≤ 0`) -/
def cnt (δ r : Rat) : Nat := Auto.ceilNat (r / δ)

theorem div_le_div {δ a b : Rat} (hδ : 0 < δ) (h : a ≤ b) : a / δ ≤ b / δ := by
  have e1 : a / δ * δ = a := by grind
  have e2 : b / δ * δ = b := by grind
  apply Rat.not_lt.mp
  intro hlt
  have := Rat.mul_lt_mul_of_pos_right hlt hδ
  grind

theorem cnt_mono {δ a b : Rat} (hδ : 0 < δ) (h : a ≤ b ∨ a ≤ 0) : cnt δ a ≤ cnt δ b := by
  unfold cnt Auto.ceilNat
  rcases h with h | h
  · have h1 : (a / δ).ceil ≤ (b / δ).ceil :=
      Rat.ceil_le_iff.mpr (Rat.le_trans (div_le_div hδ h) Rat.le_ceil)
    omega
  · have h0 : a / δ ≤ ((0 : Int) : Rat) := by
      have := div_le_div hδ h
      have e : (0 : Rat) / δ = 0 := by grind
      rw [e] at this; simpa using this
    have h1 : (a / δ).ceil ≤ 0 := Rat.ceil_le_iff.mpr h0
    omega

theorem cnt_drop {δ a b : Rat} (hδ : 0 < δ) (hb : 0 < b) (h : a ≤ b - δ) : cnt δ a + 1 ≤ cnt δ b := by
  unfold cnt Auto.ceilNat
  have e : (b - δ) / δ = b / δ - 1 := by grind
  have h1 : (a / δ).ceil ≤ (b / δ).ceil - 1 := by
    rw [← Rat.ceil_sub_one, ← e]
    exact Rat.ceil_le_iff.mpr (Rat.le_trans (div_le_div hδ h) Rat.le_ceil)
  have hx : ((0 : Int) : Rat) < b / δ := by
    apply Rat.not_le.mp
    intro hle
    have e2 : b / δ * δ = b := by grind
    have := Rat.mul_le_mul_of_nonneg_right hle (Rat.le_of_lt hδ)
    rw [e2] at this
    simp at this
    exact absurd hb (Rat.not_lt.mpr this)
  have h2 : (0 : Int) < (b / δ).ceil := Rat.lt_ceil_iff.mpr hx
  omega

/-! ### least element of a list of rationals -/

def lowest : List Rat → Rat
  | [] => 1
  | [x] => x
  | x :: y :: ys => if x ≤ lowest (y :: ys) then x else lowest (y :: ys)

theorem lowest_le {xs : List Rat} {x : Rat} (h : x ∈ xs) : lowest xs ≤ x := by
  induction xs with
  | nil => cases h
  | cons a as ih =>
    cases as with
    | nil => simp at h; subst h; exact Rat.le_refl
    | cons b bs =>
      simp only [lowest]
      rcases List.mem_cons.mp h with h | h
      · subst h; split
        · exact Rat.le_refl
        · rename_i hn; exact Rat.le_of_lt (Rat.not_le.mp hn)
      · have := ih h
        split
        · rename_i hle; exact Rat.le_trans hle this
        · exact this

theorem lowest_pos {xs : List Rat} (h : ∀ x ∈ xs, 0 < x) : 0 < lowest xs := by
  induction xs with
  | nil => simp only [lowest]; decide
  | cons a as ih =>
    cases as with
    | nil => exact h a (by simp)
    | cons b bs =>
      simp only [lowest]
      split
      · exact h a (by simp)
      · exact ih (fun x hx => h x (List.mem_cons_of_mem _ hx))

theorem sumList_nonneg {xs : List Rat} (h : ∀ x ∈ xs, 0 ≤ x) : 0 ≤ sumList xs := by
  induction xs with
  | nil => simp [sumList]
  | cons a as ih =>
    simp only [sumList]
    have := h a (by simp)
    have := ih (fun x hx => h x (List.mem_cons_of_mem _ hx))
    grind

theorem le_sumList {xs : List Rat} (h : ∀ x ∈ xs, 0 ≤ x) {x : Rat} (hx : x ∈ xs) : x ≤ sumList xs := by
  induction xs with
  | nil => cases hx
  | cons a as ih =>
    simp only [sumList]
    have ha := h a (by simp)
    have hs := sumList_nonneg (fun x hx => h x (List.mem_cons_of_mem _ hx))
    rcases List.mem_cons.mp hx with e | e
    · subst e; grind
    · have := ih (fun x hx => h x (List.mem_cons_of_mem _ hx)) e
      grind


/-! ### the fragment -/

/-- skill of worker `w` for task `t` -/
def skillOf (m : Model) (t w : Nat) : Rat := skillVal (m.worker w).skills (m.task t).name

/-- the workers of the organisation eligible for `t` -/
def eligWorkers (m : Model) (t : Nat) : List Nat := (List.range m.nW).filter (workerEligB m t)

/-- guaranteed progress per productive step: the rate of an automatic task, the least skill among
the eligible workers otherwise -/
def delta (m : Model) (t : Nat) : Rat :=
  if (m.task t).isAuto then (m.task t).autoRate
  else lowest ((eligWorkers m t).map (skillOf m t))

/-- the remaining work `initialize` gives task `t` -/
def rem0 (m : Model) (t : Nat) : Rat := (m.task t).work * (1 - (m.task t).prog)

/-- number of productive steps task `t` needs at most -/
def need (m : Model) (t : Nat) : Nat := cnt (delta m t) (rem0 m t)

/-- the sequential bound: project absence steps, individual absence steps of the workers relied
upon (`R`), and per task three lifecycle steps plus the productive steps it needs -/
def bound (m : Model) (p : Params) (R : Nat → Bool) : Nat :=
  p.absence.length + sumTo m.nW (fun w => if R w then (m.worker w).absence.length else 0) +
    sumTo m.nT (fun t => 3 + need m t)

/-- Fragment L ("shared workers"): tasks without facility, automatic tasks without component,
FS/SS links only, an acyclic in-range graph (rank function `rk`), positive automatic rates, and
for every non-automatic task at least one eligible worker of the organisation among those relied
upon (`R w = true`; their individual absence steps enter the bound).  Solo workers are allowed
only when every worker is relied upon (a solo worker, or a worker already on the task when a solo
worker comes, shuts the others out: then it is that worker's presence that matters). -/
structure FragL (m : Model) (rk : Nat → Nat) (R : Nat → Bool) : Prop where
  noFac : ∀ t, t < m.nT → (m.task t).needFac = false
  autoNoComp : ∀ t, t < m.nT → (m.task t).isAuto = true → (m.task t).comp = Option.none
  noFin : ∀ t, t < m.nT → Auto.NoFinDeps m t
  graph : ∀ t, t < m.nT → ∀ e ∈ (m.task t).inputs, e.1 < m.nT ∧ rk e.1 < rk t
  autoRate : ∀ t, t < m.nT → (m.task t).isAuto = true → 0 < (m.task t).autoRate
  solo : ∀ w, w < m.nW → (m.worker w).solo = true → ∀ w', w' < m.nW → R w' = true
  served : ∀ t, t < m.nT → (m.task t).isAuto = false →
    ∃ w, w < m.nW ∧ R w = true ∧ WorkerElig m t w

theorem hasSkill_pos {skills : List (Nat × Rat)} {name : Nat} (h : hasSkill skills name = true) :
    0 < skillVal skills name := by
  unfold hasSkill at h
  unfold skillVal
  split at h
  · rename_i v hv; rw [hv]; simpa using h
  · cases h

theorem delta_pos {m : Model} {rk : Nat → Nat} {R : Nat → Bool} (hF : FragL m rk R) {t : Nat} (ht : t < m.nT) :
    0 < delta m t := by
  unfold delta
  split
  · rename_i ha; exact hF.autoRate t ht ha
  · apply lowest_pos
    intro x hx
    obtain ⟨w, hw, rfl⟩ := List.mem_map.mp hx
    have := (List.mem_filter.mp hw).2
    exact hasSkill_pos ((workerEligB_iff m t w).mp this).1

theorem delta_le {m : Model} {t w : Nat} (ha : (m.task t).isAuto = false) (hw : w < m.nW)
    (he : WorkerElig m t w) : delta m t ≤ skillOf m t w := by
  unfold delta
  rw [if_neg (by simp [ha])]
  apply lowest_le
  exact List.mem_map.mpr ⟨w, List.mem_filter.mpr ⟨List.mem_range.mpr hw, (workerEligB_iff m t w).mpr he⟩, rfl⟩

/-! ### the potential -/

/-- lifecycle stages still ahead of a task state -/
def stage (s : TS) : Nat := 3 - s.rank

/-- potential of one task -/
def phi (m : Model) (l : Live) (t : Nat) : Nat := stage (l.tstate t) + cnt (delta m t) (l.rem t)

/-- the measure that decreases with every iteration while a task is unfinished -/
def mu (m : Model) (p : Params) (R : Nat → Bool) (s : St) : Nat :=
  absLeft p.absence s.time +
    sumTo m.nW (fun w => if R w then absLeft (m.worker w).absence s.time else 0) +
    sumTo m.nT (phi m s.live)

/-! ### invariants -/

/-- allocations stay inside the index ranges -/
def Rng (m : Model) (l : Live) : Prop := ∀ t w, w ∈ l.allocW t → t < m.nT ∧ w < m.nW

structure Inv (m : Model) (l : Live) : Prop where
  alloc : AllocInv m l
  hold : HoldWorking l
  elig : EligInv m l
  rng : Rng m l

theorem Rng_update {m : Model} (time : Nat) {l : Live} (h : AllocInv m l) (hr : Rng m l) :
    Rng m (update m time l) := by
  intro t w hw
  rw [af_allocW (update_af m time l)] at hw
  exact hr t w ((Alloc.chkFinished_asg_sub h).2.2.1 t w hw)

theorem Rng_stepBody {m : Model} (p : Params) {s : St} (h : AllocInv m s.live) (hr : Rng m s.live) :
    Rng m (stepBody m p s).live := by
  intro t w hw
  rw [af_allocW (stepBody_af m p s)] at hw
  unfold Lifecycle.preWorking at hw
  split at hw
  · rename_i hwk
    have h1 : AllocInv m (absenceSet m s.time (!(p.absence.contains s.time)) s.live) :=
      absenceSet_AllocInv h
    have hres := absenceSet_ResInv m s.time (!(p.absence.contains s.time)) s.live
    rw [hwk] at hres h1
    rw [hwk] at hw
    rcases (Alloc.allocate_gives_free s.logs p.rule h1 hres.freeIdle).1 t w hw with h' | ⟨a, b, _⟩
    · exact hr t w h'
    · exact ⟨a, b⟩
  · exact hr t w hw

theorem Inv_updated {m : Model} {s : St} (h : Inv m s.live) : Inv m (updated m s).live :=
  ⟨(update_C03 s.time h.alloc h.hold).1, (update_C03 s.time h.alloc h.hold).2,
   EligInv_updated m s h.elig, Rng_update s.time h.alloc h.rng⟩

theorem Inv_stepBody {m : Model} (p : Params) {s : St} (h : Inv m s.live) : Inv m (stepBody m p s).live :=
  ⟨(stepBody_C03 p h.alloc h.hold).1, (stepBody_C03 p h.alloc h.hold).2.1,
   EligInv_stepBody m p s h.elig, Rng_stepBody p h.alloc h.rng⟩

theorem Inv_iter {m : Model} (p : Params) {s : St} (h : Inv m s.live) : Inv m (iter m p s).live :=
  Inv_stepBody p (s := updated m s) (Inv_updated h)

theorem Inv_enter {m : Model} {p : Params} {s : St} (hp : p.initState = true) :
    Inv m (enter m p s).live := by
  refine ⟨(C03_init hp).1, (C03_init hp).2, ?_, ?_⟩
  · rw [Lifecycle.enter_live, hp]; exact EligInv_initProject m p.initLog s
  · intro t w hw
    rw [(Alloc.enter_live_empty (m := m) (s := s) hp).1 t] at hw
    cases hw


/-! ### one iteration: nothing gets worse -/

theorem plainW_nonneg (m : Model) (l : Live) (name w : Nat) : 0 ≤ Perform.plainW m l name w := by
  unfold Perform.plainW
  split
  · rename_i h; exact Rat.le_of_lt (hasSkill_pos h.1)
  · exact Rat.le_refl

theorem plainContrib_nonneg {m : Model} {rk : Nat → Nat} {R : Nat → Bool} (hF : FragL m rk R) (l : Live) {t : Nat}
    (ht : t < m.nT) : 0 ≤ Perform.plainContrib m l t := by
  unfold Perform.plainContrib
  dsimp only
  split
  · rename_i ha; exact Rat.le_of_lt (hF.autoRate t ht ha)
  · rw [hF.noFac t ht]
    simp only [Bool.false_eq_true, if_false]
    apply sumList_nonneg
    intro x hx
    obtain ⟨w, _, rfl⟩ := List.mem_map.mp hx
    exact plainW_nonneg m l _ w

variable {m : Model} {rk : Nat → Nat} {R : Nat → Bool} {p : Params}

theorem iter_time (s : St) : (iter m p s).time = s.time + 1 := rfl

theorem iter_mono (s : St) : Mono s.live.tstate (iter m p s).live.tstate :=
  Lifecycle.Mono.trans (Lifecycle.updated_mono m s) (Lifecycle.stepBody_mono m p (updated m s))

theorem rem_iter_le (hF : FragL m rk R) {s : St} (hI : Inv m s.live) {t : Nat} (ht : t < m.nT) :
    (iter m p s).live.rem t ≤ s.live.rem t ∨ (iter m p s).live.rem t ≤ 0 := by
  have hI' := Inv_iter p hI
  rw [Auto.iter_eq] at hI' ⊢
  rw [C02_iteration]
  have hc : 0 ≤ (if t < m.nT ∧ (stepBody m p (updated m s)).live.tstate t = .working ∧
          (workingAt p s.time = true ∨ (p.autoFlag = true ∧ (m.task t).isAuto = true))
       then contrib m (stepBody m p (updated m s)).live t else 0) := by
    split
    · rename_i h
      rw [C02_contrib hI'.alloc h.2.1]
      exact plainContrib_nonneg hF _ ht
    · exact Rat.le_refl
  generalize (if t < m.nT ∧ (stepBody m p (updated m s)).live.tstate t = .working ∧
          (workingAt p s.time = true ∨ (p.autoFlag = true ∧ (m.task t).isAuto = true))
       then contrib m (stepBody m p (updated m s)).live t else 0) = c at hc ⊢
  split
  · right; grind
  · left; grind

theorem stage_mono {a b : TS} (h : a.rank ≤ b.rank) : stage b ≤ stage a := by
  unfold stage; omega

theorem phi_iter_le (hF : FragL m rk R) {s : St} (hI : Inv m s.live) {t : Nat} (ht : t < m.nT) :
    phi m (iter m p s).live t ≤ phi m s.live t := by
  unfold phi
  have h1 := stage_mono (iter_mono (m := m) (p := p) s t)
  have h2 := cnt_mono (delta_pos hF ht) (rem_iter_le (p := p) hF hI ht)
  omega

/-! ### one iteration: a task that is worked on gets strictly better -/

theorem phi_drop (hF : FragL m rk R) (s : St) {t : Nat} (ht : t < m.nT)
    (hu : (updated m s).live.tstate t = .ready ∨ (updated m s).live.tstate t = .working)
    (hw : (iter m p s).live.tstate t = .working)
    (hr : (iter m p s).live.rem t ≤ (updated m s).live.rem t - delta m t) :
    phi m (iter m p s).live t + 1 ≤ phi m s.live t := by
  have hδ := delta_pos hF ht
  unfold phi
  rw [hw]
  rcases hu with hu | hu
  · -- READY after `__update`: NONE or READY before, same remaining work
    have hm := Lifecycle.updated_mono m s t
    rw [hu] at hm
    have hrem : (updated m s).live.rem t = s.live.rem t := by
      show (update m s.time s.live).rem t = _
      rw [Perform.update_rem_eq, if_neg]
      intro h
      have : (updated m s).live.tstate t = .finished := h.1
      rw [hu] at this; cases this
    rw [hrem] at hr
    have h2 : cnt (delta m t) ((iter m p s).live.rem t) ≤ cnt (delta m t) (s.live.rem t) :=
      cnt_mono hδ (Or.inl (by grind))
    have h1 : 2 ≤ stage (s.live.tstate t) := by
      revert hm; cases s.live.tstate t <;> simp [TS.rank, stage]
    have h3 : stage TS.working = 1 := rfl
    omega
  · -- WORKING after `__update`: WORKING before with work left
    have hcf : (chkFinished m s.live).tstate t = .working := NoWait.update_working m s.time s.live t hu
    have hpos : 0 < (updated m s).live.rem t := by
      apply Rat.not_le.mp
      intro hle
      exact C06_finish m s.time s.live t ht ⟨hu, hle, Auto.finishGate_true (hF.noFin t ht) _⟩
    rcases Perform.chkFinished_closes (m := m) s.live t with ⟨h1, h2⟩ | ⟨_, _, h3, _⟩
    · have hst : s.live.tstate t = .working := by rw [← h1]; exact hcf
      have hrem : (updated m s).live.rem t = s.live.rem t := by
        show (update m s.time s.live).rem t = _
        rw [Perform.update_rem]; exact h2
      rw [hrem] at hr hpos
      rw [hst]
      have := cnt_drop hδ hpos hr
      omega
    · rw [h3] at hcf; cases hcf


/-! ### who makes progress on a working step -/

/-- an automatic task that is READY or WORKING after `__update` -/
theorem auto_progress (hF : FragL m rk R) (s : St) (hwork : p.absence.contains s.time = false)
    {t : Nat} (ht : t < m.nT) (ha : (m.task t).isAuto = true)
    (hu : (updated m s).live.tstate t = .ready ∨ (updated m s).live.tstate t = .working) :
    phi m (iter m p s).live t + 1 ≤ phi m s.live t := by
  have h := Auto.stepBody_auto (m := m) (t := t) p (updated m s) ht ha (hF.autoNoComp t ht ha) hu
  have hact : activeAt p (updated m s).time = true := by
    show activeAt p s.time = true
    unfold activeAt; rw [hwork]; rfl
  rw [if_pos hact, if_pos hact] at h
  apply phi_drop hF s ht hu
  · rw [Auto.iter_eq]; exact h.1
  · rw [Auto.iter_eq, h.2]
    have : delta m t = (m.task t).autoRate := by simp [delta, ha]
    rw [this]; exact Rat.le_refl

/-- a task that holds a present worker at the end of a working step -/
theorem worker_progress (hF : FragL m rk R) {s : St} (hI : Inv m s.live)
    (hwork : p.absence.contains s.time = false) {w t : Nat}
    (hmem : w ∈ (iter m p s).live.allocW t)
    (hpres : (m.worker w).absence.contains s.time = false) :
    phi m (iter m p s).live t + 1 ≤ phi m s.live t := by
  have hIu := Inv_updated hI
  have hI' := Inv_iter p hI
  have hres : ResInv m s.time (workingAt p s.time) (iter m p s).live :=
    (stepBody_C03 p (s := updated m s) hIu.alloc hIu.hold).2.2
  have hwa : workingAt p s.time = true := by unfold workingAt; rw [hwork]; rfl
  rw [hwa] at hres
  obtain ⟨ht, hw⟩ := hI'.rng t w hmem
  have hne : (iter m p s).live.allocW t ≠ [] := by
    intro e; rw [e] at hmem; cases hmem
  have hwk : (iter m p s).live.tstate t = .working := hI'.hold t (Or.inl hne)
  have hel : WorkerElig m t w := (hI'.elig t ht).worker w hmem
  have hna : (m.task t).isAuto = false := by
    cases h : (m.task t).isAuto
    · rfl
    · exact absurd ((hI'.elig t ht).auto h).1 hne
  have hws : (iter m p s).live.wstate w ≠ .absence := by
    have := hres.1 w hw
    simp only [if_true] at this
    rw [this, hpres]
    unfold resState
    simp only [Bool.false_eq_true, if_false]
    split <;> simp
  -- the remaining work after the step
  have hw' : (Perform.preCost m p (updated m s)).tstate t = .working := hwk
  have hrem := (C02_step (m := m) (p := p) (updated m s) t).1
  rw [if_pos ⟨ht, hw', Or.inl hwa⟩] at hrem
  have hcon : contrib m (Perform.preCost m p (updated m s)) t =
      Perform.plainContrib m (iter m p s).live t := by
    rw [← (C02_step (m := m) (p := p) (updated m s) t).2.2]
    exact C02_contrib hI'.alloc hwk
  have hge : delta m t ≤ Perform.plainContrib m (iter m p s).live t := by
    unfold Perform.plainContrib
    dsimp only
    rw [hna, hF.noFac t ht]
    simp only [Bool.false_eq_true, if_false]
    refine Rat.le_trans ?_ (le_sumList (x := Perform.plainW m (iter m p s).live (m.task t).name w) ?_ ?_)
    · unfold Perform.plainW
      rw [if_pos ⟨hel.1, hws⟩]
      exact delta_le hna hw hel
    · intro x hx
      obtain ⟨w', _, rfl⟩ := List.mem_map.mp hx
      exact plainW_nonneg m _ _ w'
    · exact List.mem_map.mpr ⟨w, hmem, rfl⟩
  have hu : (updated m s).live.tstate t = .ready ∨ (updated m s).live.tstate t = .working := by
    rcases Perform.preCost_start (m := m) p (updated m s) t with e | ⟨e, _⟩
    · right; rw [← e]; exact hw'
    · left; exact e
  apply phi_drop hF s ht hu hwk
  rw [Auto.iter_eq, hrem, hcon]
  grind

/-! ### a rank-minimal unfinished task -/

theorem exists_min_unfinished (ts : Nat → TS) (n : Nat) (rk : Nat → Nat) :
    ∀ k t, rk t = k → t < n → ts t ≠ .finished →
      ∃ t0, t0 < n ∧ ts t0 ≠ .finished ∧ ∀ t', t' < n → rk t' < rk t0 → ts t' = .finished := by
  intro k
  induction k using Nat.strongRecOn with
  | _ k ih =>
    intro t hk ht hu
    by_cases hall : ∀ t', t' < n → rk t' < rk t → ts t' = .finished
    · exact ⟨t, ht, hu, hall⟩
    · have : ∃ t', t' < n ∧ rk t' < rk t ∧ ts t' ≠ .finished := by
        apply Classical.byContradiction
        intro hno
        apply hall
        intro t' h1 h2
        apply Classical.byContradiction
        intro h3
        exact hno ⟨t', h1, h2, h3⟩
      obtain ⟨t', h1, h2, h3⟩ := this
      exact ih (rk t') (by omega) t' rfl h1 h3

theorem not_allFinished {m : Model} {l : Live} (h : allFinished m l = false) :
    ∃ t, t < m.nT ∧ l.tstate t ≠ .finished := by
  apply Classical.byContradiction
  intro hno
  have : allFinished m l = true := by
    simp only [allFinished, List.all_eq_true, List.mem_range, beq_iff_eq]
    intro t ht
    apply Classical.byContradiction
    intro h3
    exact hno ⟨t, ht, h3⟩
  rw [this] at h; cases h

/-- after `__update`, if some task is unfinished, some task below `nT` is READY or WORKING -/
theorem exists_open (hF : FragL m rk R) (s : St) (h : allFinished m (updated m s).live = false) :
    ∃ t, t < m.nT ∧
      ((updated m s).live.tstate t = .ready ∨ (updated m s).live.tstate t = .working) := by
  obtain ⟨t1, ht1, hu1⟩ := not_allFinished h
  obtain ⟨t, ht, hu, hmin⟩ := exists_min_unfinished (updated m s).live.tstate m.nT rk _ t1 rfl ht1 hu1
  refine ⟨t, ht, ?_⟩
  have hne : (updated m s).live.tstate t ≠ .none := by
    apply C06_ready_deps m s.time s.live t ht
    intro e he
    have hg := hF.graph t ht e he
    have hfin : (update m s.time s.live).tstate e.1 = .finished := hmin e.1 hg.1 hg.2
    exact ⟨fun _ => hfin, fun _ => by rw [hfin]; rfl⟩
  revert hne hu
  cases (updated m s).live.tstate t <;> simp

/-! ### the measure decreases -/

theorem allocF_nil (hF : FragL m rk R) {l : Live} (hI : Inv m l) {t : Nat} (ht : t < m.nT) :
    l.allocF t = [] := by
  apply Classical.byContradiction
  intro hne
  have := hI.alloc.fac_only t hne
  rw [hF.noFac t ht] at this; cases this

/-- without solo workers an eligible worker is accepted by a READY or WORKING task -/
theorem canAdd_true (hF : FragL m rk R) (hns : ∀ w, w < m.nW → (m.worker w).solo = false)
    {l : Live} (hI : Inv m l) {t w : Nat} (ht : t < m.nT)
    (hw : w < m.nW) (hs : l.tstate t = .ready ∨ l.tstate t = .working) (hel : WorkerElig m t w) :
    canAdd m l t (some w) Option.none = true := by
  rw [NoWait.canAdd_W_iff]
  refine ⟨?_, ?_, ?_, ?_, hel.2.2, hel.1⟩
  · rcases hs with e | e <;> rw [e] <;> simp
  · intro w' hw'; exact hns w' (hI.rng t w' hw').2
  · intro f' hf'
    rw [allocF_nil hF hI ht] at hf'; cases hf'
  · intro hsolo; rw [hns w hw] at hsolo; cases hsolo

/-- an eligible worker is refused by a READY or WORKING task only because of a solo worker, and
then the task holds somebody -/
theorem canAdd_refused (hF : FragL m rk R) {l : Live} (hI : Inv m l) {t w : Nat} (ht : t < m.nT)
    (hw : w < m.nW) (hs : l.tstate t = .ready ∨ l.tstate t = .working) (hel : WorkerElig m t w)
    (hc : canAdd m l t (some w) Option.none = false) :
    l.allocW t ≠ [] ∧ ∃ ws, ws < m.nW ∧ (m.worker ws).solo = true := by
  by_cases h2 : ∃ w', w' ∈ l.allocW t ∧ (m.worker w').solo = true
  · obtain ⟨w', hw', hsolo⟩ := h2
    exact ⟨fun e => (by rw [e] at hw'; cases hw'), w', (hI.rng t w' hw').2, hsolo⟩
  · by_cases h4 : (m.worker w).solo = true ∧ l.allocW t ≠ []
    · exact ⟨h4.2, w, hw, h4.1⟩
    · exfalso
      have : canAdd m l t (some w) Option.none = true := by
        rw [NoWait.canAdd_W_iff]
        refine ⟨?_, ?_, ?_, ?_, hel.2.2, hel.1⟩
        · rcases hs with e | e <;> rw [e] <;> simp
        · intro w' hw'
          cases hsolo : (m.worker w').solo
          · rfl
          · exact absurd ⟨w', hw', hsolo⟩ h2
        · intro f' hf'
          rw [allocF_nil hF hI ht] at hf'; cases hf'
        · intro hsolo
          apply Classical.byContradiction
          intro hne
          exact h4 ⟨hsolo, hne⟩
      rw [this] at hc; cases hc

theorem mu_iter_lt (hF : FragL m rk R) {s : St} (hI : Inv m s.live)
    (hnf : allFinished m (updated m s).live = false) :
    mu m p R (iter m p s) + 1 ≤ mu m p R s := by
  unfold mu
  rw [iter_time]
  have hA := absLeft_succ_le p.absence s.time
  have hW1 : ∀ w, w < m.nW → (if R w then absLeft (m.worker w).absence (s.time + 1) else 0) ≤
      (if R w then absLeft (m.worker w).absence s.time else 0) := by
    intro w _; split
    · exact absLeft_succ_le _ _
    · exact Nat.le_refl _
  have hW : sumTo m.nW (fun w => if R w then absLeft (m.worker w).absence (s.time + 1) else 0) ≤
      sumTo m.nW (fun w => if R w then absLeft (m.worker w).absence s.time else 0) :=
    sumTo_le hW1
  have hP : sumTo m.nT (phi m (iter m p s).live) ≤ sumTo m.nT (phi m s.live) :=
    sumTo_le (fun t ht => phi_iter_le hF hI ht)
  cases hwork : p.absence.contains s.time
  · -- a working step
    obtain ⟨t, ht, hu⟩ := exists_open hF s hnf
    have hI' := Inv_iter p hI
    have hIu := Inv_updated hI
    -- a relied-upon worker held by a task at the end of the step: it is absent now, or the task
    -- progresses
    have key : ∀ w2 t2, w2 ∈ (iter m p s).live.allocW t2 → R w2 = true →
        absLeft p.absence (s.time + 1) +
          sumTo m.nW (fun w => if R w then absLeft (m.worker w).absence (s.time + 1) else 0) +
          sumTo m.nT (phi m (iter m p s).live) + 1 ≤
        absLeft p.absence s.time +
          sumTo m.nW (fun w => if R w then absLeft (m.worker w).absence s.time else 0) +
          sumTo m.nT (phi m s.live) := by
      intro w2 t2 hm2 hR2
      obtain ⟨ht2, hw2⟩ := hI'.rng t2 w2 hm2
      cases hpres : (m.worker w2).absence.contains s.time
      · have := worker_progress hF hI hwork hm2 hpres
        have := sumTo_lt (f := phi m (iter m p s).live) (g := phi m s.live)
          (fun t ht => phi_iter_le (p := p) hF hI ht) t2 ht2 this
        omega
      · have hmem : s.time ∈ (m.worker w2).absence := by simpa using hpres
        have := sumTo_lt (f := fun w => if R w then absLeft (m.worker w).absence (s.time + 1) else 0)
          (g := fun w => if R w then absLeft (m.worker w).absence s.time else 0)
          hW1 w2 hw2 (by simp only [hR2, if_true]; exact absLeft_succ_lt _ _ hmem)
        omega
    cases ha : (m.task t).isAuto
    · obtain ⟨w, hw, hR, hel⟩ := hF.served t ht ha
      cases hpres : (m.worker w).absence.contains s.time
      · -- the eligible worker is present: it is busy at the end of the step
        have hres : ResInv m s.time (workingAt p s.time) (iter m p s).live :=
          (stepBody_C03 p (s := updated m s) hIu.alloc hIu.hold).2.2
        have hwa : workingAt p s.time = true := by unfold workingAt; rw [hwork]; rfl
        rw [hwa] at hres
        have hws := hres.1 w hw
        simp only [if_true] at hws
        rw [hpres] at hws
        have hs' : (iter m p s).live.tstate t = .ready ∨ (iter m p s).live.tstate t = .working := by
          have hst := Perform.preCost_start (m := m) p (updated m s) t
          have e : (iter m p s).live.tstate t = (Perform.preCost m p (updated m s)).tstate t := rfl
          rw [e]
          rcases hst with e1 | ⟨_, e1⟩
          · rw [e1]; exact hu
          · right; exact e1
        cases hasg : (iter m p s).live.wasg w with
        | nil =>
          -- FREE at the end of the step: refused because of a solo worker; the task holds somebody
          have hfree : (iter m p s).live.wstate w = .free := by
            rw [hws, hasg]; rfl
          have h1 := NoWait.stepBody_idle m p (updated m s) hwork hIu.alloc hIu.hold w t hw hfree ht
            hs' ha (hF.noFac t ht) hel.1 hel.2.1
          rw [← Auto.iter_eq] at h1
          obtain ⟨hne, ws, hws1, hws2⟩ := canAdd_refused hF hI' ht hw hs' hel h1
          cases hal : (iter m p s).live.allocW t with
          | nil => exact absurd hal hne
          | cons w2 rest =>
            have hm2 : w2 ∈ (iter m p s).live.allocW t := by rw [hal]; simp
            exact key w2 t hm2 (hF.solo ws hws1 hws2 w2 (hI'.rng t w2 hm2).2)
        | cons t' rest =>
          have hmem : w ∈ (iter m p s).live.allocW t' :=
            (hI'.alloc.w_two t' w).mpr (by rw [hasg]; simp)
          exact key w t' hmem hR
      · -- the eligible worker is absent now: one of its absence steps is used up
        have hmem : s.time ∈ (m.worker w).absence := by simpa using hpres
        have := sumTo_lt (f := fun w => if R w then absLeft (m.worker w).absence (s.time + 1) else 0)
          (g := fun w => if R w then absLeft (m.worker w).absence s.time else 0)
          hW1 w hw (by simp only [hR, if_true]; exact absLeft_succ_lt _ _ hmem)
        omega
    · have := auto_progress hF s hwork ht ha hu
      have := sumTo_lt (f := phi m (iter m p s).live) (g := phi m s.live)
        (fun t ht => phi_iter_le (p := p) hF hI ht) t ht this
      omega
  · -- a project absence step
    have hmem : s.time ∈ p.absence := by simpa using hwork
    have := absLeft_succ_lt p.absence s.time hmem
    omega


/-! ### the loop -/

theorem le_sumTo {n : Nat} (f : Nat → Nat) {k : Nat} (hk : k < n) : f k ≤ sumTo n f := by
  induction n with
  | zero => omega
  | succ n ih =>
    simp only [sumTo]
    by_cases e : k = n
    · subst e; omega
    · have := ih (by omega); omega

theorem mu_pos (s : St) (hnf : allFinished m (updated m s).live = false) : 1 ≤ mu m p R s := by
  obtain ⟨t, ht, hu⟩ := not_allFinished hnf
  have hs : s.live.tstate t ≠ .finished :=
    fun h => hu (Lifecycle.Mono.finished (Lifecycle.updated_mono m s) h)
  have h1 : 1 ≤ phi m s.live t := by
    unfold phi
    have : 1 ≤ stage (s.live.tstate t) := by
      revert hs; cases s.live.tstate t <;> simp [stage, TS.rank]
    omega
  have := le_sumTo (phi m s.live) ht
  unfold mu; omega

/-- **Liveness of the loop.**  From a state satisfying the invariants, with a budget `n` of at
least the measure and `time + n ≤ max_time`, the loop leaves through its SUCCESS exit, at a time
`≤ time + n`. -/
theorem loop_success (hF : FragL m rk R) :
    ∀ n fuel s, Inv m s.live → mu m p R s ≤ n → s.time + n ≤ p.maxTime → n + 1 ≤ fuel →
      (loop m p fuel s).status = .success ∧ (loop m p fuel s).time ≤ s.time + n ∧
      allFinished m (loop m p fuel s).live = true := by
  intro n
  induction n with
  | zero =>
    intro fuel s hI hmu _ hfuel
    cases fuel with
    | zero => omega
    | succ f =>
      simp only [loop]
      split
      · rename_i hall; exact ⟨rfl, Nat.le_refl _, hall⟩
      · rename_i hall
        have := mu_pos (p := p) (R := R) s (by simpa [updated] using hall)
        omega
  | succ k ih =>
    intro fuel s hI hmu htime hfuel
    cases fuel with
    | zero => omega
    | succ f =>
      simp only [loop]
      split
      · rename_i hall; exact ⟨rfl, by show s.time ≤ _; omega, hall⟩
      · rename_i hall
        have hnf : allFinished m (updated m s).live = false := by simpa [updated] using hall
        split
        · rename_i ht
          have ht' : s.time ≥ p.maxTime := ht
          omega
        · have hdec := mu_iter_lt (p := p) hF hI hnf
          have h := ih f (iter m p s) (Inv_iter p hI) (by omega)
            (by rw [iter_time]; omega) (by omega)
          rw [iter_time] at h
          refine ⟨h.1, ?_, h.2.2⟩
          have := h.2.1
          show (loop m p f (iter m p s)).time ≤ _
          omega

/-! ### the run -/

theorem phi_enter_le {s : St} (hs : p.initState = true) {t : Nat} (ht : t < m.nT) :
    phi m (enter m p s).live t ≤ 3 + need m t := by
  unfold phi need
  have hr : (enter m p s).live.rem t = rem0 m t := by
    rw [Lifecycle.enter_live, hs]; exact C02_init p.initLog s t ht
  rw [hr]
  have : stage ((enter m p s).live.tstate t) ≤ 3 := by unfold stage; omega
  omega

theorem mu_enter_le {s : St} (hs : p.initState = true) : mu m p R (enter m p s) ≤ bound m p R := by
  unfold mu bound
  have h1 := absLeft_le_length p.absence (enter m p s).time
  have h2 : sumTo m.nW (fun w => if R w then absLeft (m.worker w).absence (enter m p s).time else 0) ≤
      sumTo m.nW (fun w => if R w then (m.worker w).absence.length else 0) := by
    apply sumTo_le
    intro w _; split
    · exact absLeft_le_length _ _
    · exact Nat.le_refl _
  have h3 : sumTo m.nT (phi m (enter m p s).live) ≤ sumTo m.nT (fun t => 3 + need m t) :=
    sumTo_le (fun t ht => phi_enter_le hs ht)
  omega

/-- **Liveness of `simulate`, fragment L.** -/
theorem simulate_success (hF : FragL m rk R) (s : St) (hs : p.initState = true)
    (hb : (enter m p s).time + bound m p R ≤ p.maxTime) :
    (simulate m p s).status = .success ∧
    (simulate m p s).time ≤ (enter m p s).time + bound m p R ∧
    allFinished m (simulate m p s).live = true := by
  rw [simulate_eq]
  apply loop_success hF (bound m p R) _ _ (Inv_enter hs) (mu_enter_le hs) hb
  unfold fuelOf; omega

theorem enter_time_zero (s : St) (hl : p.initLog = true) : (enter m p s).time = 0 := by
  simp [enter, initProject, hl]
  split <;> rfl

/-- relying only on workers that are never individually absent, the worker term of the bound
vanishes -/
def neverAbsent (m : Model) (w : Nat) : Bool := (m.worker w).absence.isEmpty

theorem sumTo_eq_zero {n : Nat} {f : Nat → Nat} (h : ∀ i, i < n → f i = 0) : sumTo n f = 0 := by
  induction n with
  | zero => rfl
  | succ n ih =>
    simp only [sumTo]
    rw [ih (fun i hi => h i (by omega)), h n (by omega)]

/-- the sequential bound of the design: project absence steps, and per task three lifecycle steps
plus `⌈rem₀ / δ⌉` productive steps -/
def seqBound (m : Model) (p : Params) : Nat :=
  p.absence.length + sumTo m.nT (fun t => 3 + need m t)

theorem bound_neverAbsent (m : Model) (p : Params) : bound m p (neverAbsent m) = seqBound m p := by
  unfold bound seqBound
  rw [sumTo_eq_zero]
  · omega
  · intro w _
    unfold neverAbsent
    split
    · rename_i h; simp [List.isEmpty_iff.mp h]
    · rfl


/-! ### the dedicated-worker fragment -/

/-- Fragment "dedicated workers": as fragment L, and every non-automatic task `t` has its own
worker `d t` of the organisation that is eligible for `t`, never individually absent, and
eligible (skill and team) for no other task. -/
structure Ded (m : Model) (rk : Nat → Nat) (d : Nat → Nat) : Prop where
  noFac : ∀ t, t < m.nT → (m.task t).needFac = false
  autoNoComp : ∀ t, t < m.nT → (m.task t).isAuto = true → (m.task t).comp = Option.none
  noFin : ∀ t, t < m.nT → Auto.NoFinDeps m t
  graph : ∀ t, t < m.nT → ∀ e ∈ (m.task t).inputs, e.1 < m.nT ∧ rk e.1 < rk t
  autoRate : ∀ t, t < m.nT → (m.task t).isAuto = true → 0 < (m.task t).autoRate
  noSolo : ∀ w, w < m.nW → (m.worker w).solo = false
  ded : ∀ t, t < m.nT → (m.task t).isAuto = false →
    d t < m.nW ∧ WorkerElig m t (d t) ∧ (m.worker (d t)).absence = []
  excl : ∀ t, t < m.nT → (m.task t).isAuto = false → ∀ t', t' < m.nT → t' ≠ t →
    ¬ (hasSkill (m.worker (d t)).skills (m.task t').name = true ∧ teamTargets m (d t) t' = true)

theorem Ded.toFragL {m : Model} {rk d : Nat → Nat} (h : Ded m rk d) : FragL m rk (neverAbsent m) where
  noFac := h.noFac
  autoNoComp := h.autoNoComp
  noFin := h.noFin
  graph := h.graph
  autoRate := h.autoRate
  solo := by
    intro w hw hs; rw [h.noSolo w hw] at hs; cases hs
  served := by
    intro t ht ha
    obtain ⟨h1, h2, h3⟩ := h.ded t ht ha
    exact ⟨d t, h1, by simp [neverAbsent, h3], h2⟩

/-- the dedicated worker is injective on the non-automatic tasks (a consequence of `excl`) -/
theorem Ded.inj {m : Model} {rk d : Nat → Nat} (h : Ded m rk d) {t t' : Nat} (ht : t < m.nT)
    (ht' : t' < m.nT) (ha : (m.task t).isAuto = false) (ha' : (m.task t').isAuto = false)
    (e : d t = d t') : t = t' := by
  apply Classical.byContradiction
  intro hne
  have hel := (h.ded t' ht' ha').2.1
  rw [← e] at hel
  exact h.excl t ht ha t' ht' (fun e' => hne e'.symm) ⟨hel.1, hel.2.1⟩

/-- **Dedicated workers: every open task advances on every working step.**  In the dedicated
fragment, a non-automatic task `t` that is READY or WORKING after `__update` on a working step
ends the step WORKING, holding its dedicated worker, and its potential (lifecycle stages ahead
plus `⌈rem / δ⌉`) has dropped. -/
theorem ded_progress {d : Nat → Nat} (hD : Ded m rk d) {s : St} (hI : Inv m s.live)
    (hwork : p.absence.contains s.time = false) {t : Nat} (ht : t < m.nT)
    (ha : (m.task t).isAuto = false)
    (hu : (updated m s).live.tstate t = .ready ∨ (updated m s).live.tstate t = .working) :
    d t ∈ (iter m p s).live.allocW t ∧ (iter m p s).live.tstate t = .working ∧
    (iter m p s).live.rem t ≤ (updated m s).live.rem t - delta m t ∧
    phi m (iter m p s).live t + 1 ≤ phi m s.live t := by
  have hF := hD.toFragL
  obtain ⟨hw, hel, habs⟩ := hD.ded t ht ha
  have hpres : (m.worker (d t)).absence.contains s.time = false := by rw [habs]; rfl
  have hI' := Inv_iter p hI
  have hIu := Inv_updated hI
  have hres : ResInv m s.time (workingAt p s.time) (iter m p s).live :=
    (stepBody_C03 p (s := updated m s) hIu.alloc hIu.hold).2.2
  have hwa : workingAt p s.time = true := by unfold workingAt; rw [hwork]; rfl
  rw [hwa] at hres
  have hws := hres.1 (d t) hw
  simp only [if_true] at hws
  rw [hpres] at hws
  have hs' : (iter m p s).live.tstate t = .ready ∨ (iter m p s).live.tstate t = .working := by
    have hst := Perform.preCost_start (m := m) p (updated m s) t
    have e : (iter m p s).live.tstate t = (Perform.preCost m p (updated m s)).tstate t := rfl
    rw [e]
    rcases hst with e1 | ⟨_, e1⟩
    · rw [e1]; exact hu
    · right; exact e1
  have hmem : d t ∈ (iter m p s).live.allocW t := by
    cases hasg : (iter m p s).live.wasg (d t) with
    | nil =>
      exfalso
      have hfree : (iter m p s).live.wstate (d t) = .free := by rw [hws, hasg]; rfl
      have h1 := NoWait.stepBody_idle m p (updated m s) hwork hIu.alloc hIu.hold (d t) t hw hfree ht
        hs' ha (hF.noFac t ht) hel.1 hel.2.1
      have h2 := canAdd_true hF hD.noSolo hI' ht hw hs' hel
      rw [Auto.iter_eq] at h2
      rw [h1] at h2; cases h2
    | cons t' rest =>
      have hm' : d t ∈ (iter m p s).live.allocW t' :=
        (hI'.alloc.w_two t' (d t)).mpr (by rw [hasg]; simp)
      have ht' := (hI'.rng t' (d t) hm').1
      have hel' : WorkerElig m t' (d t) := (hI'.elig t' ht').worker (d t) hm'
      have : t' = t := by
        apply Classical.byContradiction
        intro hne
        exact hD.excl t ht ha t' ht' hne ⟨hel'.1, hel'.2.1⟩
      subst this; exact hm'
  have hne : (iter m p s).live.allocW t ≠ [] := by
    intro e; rw [e] at hmem; cases hmem
  have hwk : (iter m p s).live.tstate t = .working := hI'.hold t (Or.inl hne)
  refine ⟨hmem, hwk, ?_, worker_progress hF hI hwork hmem hpres⟩
  -- the amount of progress (as in `worker_progress`)
  have hws' : (iter m p s).live.wstate (d t) ≠ .absence := by
    rw [hws]; unfold resState
    simp only [Bool.false_eq_true, if_false]
    split <;> simp
  have hw' : (Perform.preCost m p (updated m s)).tstate t = .working := hwk
  have hrem := (C02_step (m := m) (p := p) (updated m s) t).1
  rw [if_pos ⟨ht, hw', Or.inl hwa⟩] at hrem
  have hcon : contrib m (Perform.preCost m p (updated m s)) t =
      Perform.plainContrib m (iter m p s).live t := by
    rw [← (C02_step (m := m) (p := p) (updated m s) t).2.2]
    exact C02_contrib hI'.alloc hwk
  have hge : delta m t ≤ Perform.plainContrib m (iter m p s).live t := by
    unfold Perform.plainContrib
    dsimp only
    rw [ha, hF.noFac t ht]
    simp only [Bool.false_eq_true, if_false]
    refine Rat.le_trans ?_ (le_sumList
      (x := Perform.plainW m (iter m p s).live (m.task t).name (d t)) ?_ ?_)
    · unfold Perform.plainW
      rw [if_pos ⟨hel.1, hws'⟩]
      exact delta_le ha hw hel
    · intro x hx
      obtain ⟨w', _, rfl⟩ := List.mem_map.mp hx
      exact plainW_nonneg m _ _ w'
    · exact List.mem_map.mpr ⟨d t, hmem, rfl⟩
  rw [Auto.iter_eq, hrem, hcon]
  grind

end Live_
end PDesy
