/-
  PDesy.Lemmas.Logs — helper lemmas about the per-step logs: `sumList` algebra, the bridge
  between the loop and `rowLogs` over its trace, and the characterisation of every log of
  `rowLogs` (used by Props/C08 and Props/C07).
-/
import PDesy.Lemmas.Defs
import PDesy.Lemmas.Loop

namespace PDesy.Logs
open PDesy

variable {m : Model} {p : Params}

/-! ### sumList -/

theorem sumList_nil : sumList [] = 0 := rfl
theorem sumList_cons (x : Rat) (xs : List Rat) : sumList (x :: xs) = x + sumList xs := rfl

attribute [local simp] sumList_nil sumList_cons

theorem sumList_append (xs ys : List Rat) : sumList (xs ++ ys) = sumList xs + sumList ys := by
  induction xs with
  | nil => simp only [List.nil_append, sumList_nil]; grind
  | cons x xs ih => simp only [List.cons_append, sumList_cons, ih]; grind

theorem sumList_map_zero {α : Type} (xs : List α) : sumList (xs.map fun _ => (0 : Rat)) = 0 := by
  induction xs with
  | nil => rfl
  | cons x xs ih => simp only [List.map_cons, sumList_cons, ih]; grind

theorem sumList_map_add {α : Type} (f g : α → Rat) (xs : List α) :
    sumList (xs.map fun x => f x + g x) = sumList (xs.map f) + sumList (xs.map g) := by
  induction xs with
  | nil => simp only [List.map_nil, sumList_nil]; grind
  | cons x xs ih => simp only [List.map_cons, sumList_cons, ih]; grind

theorem sumList_flatMap {α : Type} (f : α → List Rat) (xs : List α) :
    sumList (xs.flatMap f) = sumList (xs.map fun x => sumList (f x)) := by
  induction xs with
  | nil => rfl
  | cons x xs ih => simp [sumList_append, ih]

theorem sumList_swap {α β : Type} (f : α → β → Rat) (xs : List α) (ys : List β) :
    sumList (xs.map fun x => sumList (ys.map fun y => f x y)) =
    sumList (ys.map fun y => sumList (xs.map fun x => f x y)) := by
  induction xs with
  | nil => simp [sumList_map_zero]
  | cons x xs ih => simp [ih, sumList_map_add]

theorem sumList_perm {xs ys : List Rat} (h : xs.Perm ys) : sumList xs = sumList ys := by
  induction h with
  | nil => rfl
  | cons x _ ih => simp [ih]
  | swap x y l => simp only [sumList_cons]; grind
  | trans _ _ ih1 ih2 => exact ih1.trans ih2

theorem sumList_map_ite {α : Type} (P : α → Bool) (c : Rat) (xs : List α) :
    sumList (xs.map fun x => if P x then c else 0) = c * ((xs.countP P : Nat) : Rat) := by
  induction xs with
  | nil => simp only [List.map_nil, sumList_nil, List.countP_nil]; grind
  | cons x xs ih =>
    simp only [List.map_cons, sumList_cons, ih, List.countP_cons]
    cases P x <;> simp <;> grind


/-- the row appended to the logs for one recorded state `s'` -/
def row (m : Model) (p : Params) (g : Logs) (s' : St) : Logs :=
  record m (workingAt p (s'.time - 1)) s'.live (cost m (workingAt p (s'.time - 1)) s'.live g)

theorem rowLogs_eq (lg : Logs) (tr : List St) : rowLogs m p lg tr = tr.foldl (row m p) lg := rfl
@[simp] theorem rowLogs_nil (lg : Logs) : rowLogs m p lg [] = lg := rfl
@[simp] theorem rowLogs_cons (lg : Logs) (s' : St) (tr : List St) :
    rowLogs m p lg (s' :: tr) = rowLogs m p (row m p lg s') tr := rfl
theorem rowLogs_append (lg : Logs) (tr tr' : List St) :
    rowLogs m p lg (tr ++ tr') = rowLogs m p (rowLogs m p lg tr) tr' := by
  simp [rowLogs_eq, List.foldl_append]

/-! ### one step -/

@[simp] theorem updated_logs (s : St) : (updated m s).logs = s.logs := rfl
@[simp] theorem updated_time (s : St) : (updated m s).time = s.time := rfl
@[simp] theorem stepBody_time (s : St) : (stepBody m p s).time = s.time + 1 := rfl

/-- `cost` only reads the resource states, which `perform` does not change -/
theorem cost_perform (w a : Bool) (l : Live) (lg : Logs) :
    cost m w (perform m w a l) lg = cost m w l lg := rfl

/-- the logs after a step are the logs before it plus the row of the state it produced -/
theorem stepBody_logs (s : St) : (stepBody m p s).logs = row m p s.logs (stepBody m p s) := rfl

/-! ### the bridge -/

theorem loop_logs : ∀ (fuel : Nat) (s : St),
    (loop m p fuel s).logs = rowLogs m p s.logs (trace m p fuel s) := by
  intro fuel
  induction fuel with
  | zero => intro s; rfl
  | succ n ih =>
    intro s
    simp only [loop, trace, done, updated]
    by_cases h1 : allFinished m (update m s.time s.live) = true
    · simp [h1]
    · by_cases h2 : s.time ≥ p.maxTime
      · simp [h1, h2]
      · simp only [h1, h2, if_false, Bool.false_eq_true, decide_false, Bool.or_false, rowLogs_cons]
        rw [ih, stepBody_logs]

theorem loop_time : ∀ (fuel : Nat) (s : St),
    (loop m p fuel s).time = s.time + (trace m p fuel s).length := by
  intro fuel
  induction fuel with
  | zero => intro s; rfl
  | succ n ih =>
    intro s
    simp only [loop, trace, done, updated]
    by_cases h1 : allFinished m (update m s.time s.live) = true
    · simp [h1]
    · by_cases h2 : s.time ≥ p.maxTime
      · simp [h1, h2]
      · simp only [h1, h2, if_false, Bool.false_eq_true, decide_false, Bool.or_false]
        rw [ih]; simp; omega

theorem trace_time : ∀ (fuel : Nat) (s : St) (k : Nat) (h : k < (trace m p fuel s).length),
    ((trace m p fuel s)[k]).time = s.time + k + 1 := by
  intro fuel
  induction fuel with
  | zero => intro s k h; simp [trace] at h
  | succ n ih =>
    intro s k h
    simp only [trace] at h ⊢
    split
    · rename_i hd; simp [hd] at h
    · rename_i hd
      simp only [hd] at h
      cases k with
      | zero => simp
      | succ k =>
        simp only [List.getElem_cons_succ]
        rw [ih]; simp; omega


/-! ### per-log characterisation of `rowLogs` -/

theorem foldl_proj_append {α : Type} (π : Logs → List α) (f : St → α) (step : Logs → St → Logs)
    (h : ∀ g s', π (step g s') = π g ++ [f s']) :
    ∀ (tr : List St) (lg : Logs), π (tr.foldl step lg) = π lg ++ tr.map f := by
  intro tr
  induction tr with
  | nil => intro lg; simp
  | cons s' tr ih => intro lg; simp [ih, h]

theorem foldl_proj_same {α : Type} (π : Logs → α) (step : Logs → St → Logs)
    (h : ∀ g s', π (step g s') = π g) :
    ∀ (tr : List St) (lg : Logs), π (tr.foldl step lg) = π lg := by
  intro tr
  induction tr with
  | nil => intro lg; rfl
  | cons s' tr ih => intro lg; simp [ih, h]

theorem row_tState (g : Logs) (s' : St) (x : Nat) :
    (row m p g s').tState x =
      if x < m.nT then g.tState x ++ [showT (workingAt p (s'.time - 1)) (s'.live.tstate x)] else g.tState x := by
  simp [row, record, cost]

/-- the `tState` log of an in-range index after appending the rows of `tr` -/
theorem rowLogs_tState (lg : Logs) (tr : List St) {x : Nat} (hx : x < m.nT) :
    (rowLogs m p lg tr).tState x = lg.tState x ++ tr.map (fun s' => showT (workingAt p (s'.time - 1)) (s'.live.tstate x)) :=
  foldl_proj_append (fun g => g.tState x) _ (row m p) (by intro g s'; simp [row_tState, hx]) tr lg

/-- out of range the `tState` log is untouched -/
theorem rowLogs_tState_out (lg : Logs) (tr : List St) {x : Nat} (hx : ¬ x < m.nT) :
    (rowLogs m p lg tr).tState x = lg.tState x :=
  foldl_proj_same (fun g => g.tState x) (row m p) (by intro g s'; simp [row_tState, hx]) tr lg

theorem row_tRem (g : Logs) (s' : St) (x : Nat) :
    (row m p g s').tRem x =
      if x < m.nT then g.tRem x ++ [s'.live.rem x] else g.tRem x := by
  simp [row, record, cost]

/-- the `tRem` log of an in-range index after appending the rows of `tr` -/
theorem rowLogs_tRem (lg : Logs) (tr : List St) {x : Nat} (hx : x < m.nT) :
    (rowLogs m p lg tr).tRem x = lg.tRem x ++ tr.map (fun s' => s'.live.rem x) :=
  foldl_proj_append (fun g => g.tRem x) _ (row m p) (by intro g s'; simp [row_tRem, hx]) tr lg

/-- out of range the `tRem` log is untouched -/
theorem rowLogs_tRem_out (lg : Logs) (tr : List St) {x : Nat} (hx : ¬ x < m.nT) :
    (rowLogs m p lg tr).tRem x = lg.tRem x :=
  foldl_proj_same (fun g => g.tRem x) (row m p) (by intro g s'; simp [row_tRem, hx]) tr lg

theorem row_tAllocW (g : Logs) (s' : St) (x : Nat) :
    (row m p g s').tAllocW x =
      if x < m.nT then g.tAllocW x ++ [s'.live.allocW x] else g.tAllocW x := by
  simp [row, record, cost]

/-- the `tAllocW` log of an in-range index after appending the rows of `tr` -/
theorem rowLogs_tAllocW (lg : Logs) (tr : List St) {x : Nat} (hx : x < m.nT) :
    (rowLogs m p lg tr).tAllocW x = lg.tAllocW x ++ tr.map (fun s' => s'.live.allocW x) :=
  foldl_proj_append (fun g => g.tAllocW x) _ (row m p) (by intro g s'; simp [row_tAllocW, hx]) tr lg

/-- out of range the `tAllocW` log is untouched -/
theorem rowLogs_tAllocW_out (lg : Logs) (tr : List St) {x : Nat} (hx : ¬ x < m.nT) :
    (rowLogs m p lg tr).tAllocW x = lg.tAllocW x :=
  foldl_proj_same (fun g => g.tAllocW x) (row m p) (by intro g s'; simp [row_tAllocW, hx]) tr lg

theorem row_tAllocF (g : Logs) (s' : St) (x : Nat) :
    (row m p g s').tAllocF x =
      if x < m.nT then g.tAllocF x ++ [s'.live.allocF x] else g.tAllocF x := by
  simp [row, record, cost]

/-- the `tAllocF` log of an in-range index after appending the rows of `tr` -/
theorem rowLogs_tAllocF (lg : Logs) (tr : List St) {x : Nat} (hx : x < m.nT) :
    (rowLogs m p lg tr).tAllocF x = lg.tAllocF x ++ tr.map (fun s' => s'.live.allocF x) :=
  foldl_proj_append (fun g => g.tAllocF x) _ (row m p) (by intro g s'; simp [row_tAllocF, hx]) tr lg

/-- out of range the `tAllocF` log is untouched -/
theorem rowLogs_tAllocF_out (lg : Logs) (tr : List St) {x : Nat} (hx : ¬ x < m.nT) :
    (rowLogs m p lg tr).tAllocF x = lg.tAllocF x :=
  foldl_proj_same (fun g => g.tAllocF x) (row m p) (by intro g s'; simp [row_tAllocF, hx]) tr lg

theorem row_wState (g : Logs) (s' : St) (x : Nat) :
    (row m p g s').wState x =
      if x < m.nW then g.wState x ++ [showR (workingAt p (s'.time - 1)) (s'.live.wstate x)] else g.wState x := by
  simp [row, record, cost]

/-- the `wState` log of an in-range index after appending the rows of `tr` -/
theorem rowLogs_wState (lg : Logs) (tr : List St) {x : Nat} (hx : x < m.nW) :
    (rowLogs m p lg tr).wState x = lg.wState x ++ tr.map (fun s' => showR (workingAt p (s'.time - 1)) (s'.live.wstate x)) :=
  foldl_proj_append (fun g => g.wState x) _ (row m p) (by intro g s'; simp [row_wState, hx]) tr lg

/-- out of range the `wState` log is untouched -/
theorem rowLogs_wState_out (lg : Logs) (tr : List St) {x : Nat} (hx : ¬ x < m.nW) :
    (rowLogs m p lg tr).wState x = lg.wState x :=
  foldl_proj_same (fun g => g.wState x) (row m p) (by intro g s'; simp [row_wState, hx]) tr lg

theorem row_wCost (g : Logs) (s' : St) (x : Nat) :
    (row m p g s').wCost x =
      if x < m.nW then g.wCost x ++ [wCostNow m s'.live (workingAt p (s'.time - 1)) x] else g.wCost x := by
  simp [row, record, cost]

/-- the `wCost` log of an in-range index after appending the rows of `tr` -/
theorem rowLogs_wCost (lg : Logs) (tr : List St) {x : Nat} (hx : x < m.nW) :
    (rowLogs m p lg tr).wCost x = lg.wCost x ++ tr.map (fun s' => wCostNow m s'.live (workingAt p (s'.time - 1)) x) :=
  foldl_proj_append (fun g => g.wCost x) _ (row m p) (by intro g s'; simp [row_wCost, hx]) tr lg

/-- out of range the `wCost` log is untouched -/
theorem rowLogs_wCost_out (lg : Logs) (tr : List St) {x : Nat} (hx : ¬ x < m.nW) :
    (rowLogs m p lg tr).wCost x = lg.wCost x :=
  foldl_proj_same (fun g => g.wCost x) (row m p) (by intro g s'; simp [row_wCost, hx]) tr lg

theorem row_wAsg (g : Logs) (s' : St) (x : Nat) :
    (row m p g s').wAsg x =
      if x < m.nW then g.wAsg x ++ [s'.live.wasg x] else g.wAsg x := by
  simp [row, record, cost]

/-- the `wAsg` log of an in-range index after appending the rows of `tr` -/
theorem rowLogs_wAsg (lg : Logs) (tr : List St) {x : Nat} (hx : x < m.nW) :
    (rowLogs m p lg tr).wAsg x = lg.wAsg x ++ tr.map (fun s' => s'.live.wasg x) :=
  foldl_proj_append (fun g => g.wAsg x) _ (row m p) (by intro g s'; simp [row_wAsg, hx]) tr lg

/-- out of range the `wAsg` log is untouched -/
theorem rowLogs_wAsg_out (lg : Logs) (tr : List St) {x : Nat} (hx : ¬ x < m.nW) :
    (rowLogs m p lg tr).wAsg x = lg.wAsg x :=
  foldl_proj_same (fun g => g.wAsg x) (row m p) (by intro g s'; simp [row_wAsg, hx]) tr lg

theorem row_fState (g : Logs) (s' : St) (x : Nat) :
    (row m p g s').fState x =
      if x < m.nF then g.fState x ++ [showR (workingAt p (s'.time - 1)) (s'.live.fstate x)] else g.fState x := by
  simp [row, record, cost]

/-- the `fState` log of an in-range index after appending the rows of `tr` -/
theorem rowLogs_fState (lg : Logs) (tr : List St) {x : Nat} (hx : x < m.nF) :
    (rowLogs m p lg tr).fState x = lg.fState x ++ tr.map (fun s' => showR (workingAt p (s'.time - 1)) (s'.live.fstate x)) :=
  foldl_proj_append (fun g => g.fState x) _ (row m p) (by intro g s'; simp [row_fState, hx]) tr lg

/-- out of range the `fState` log is untouched -/
theorem rowLogs_fState_out (lg : Logs) (tr : List St) {x : Nat} (hx : ¬ x < m.nF) :
    (rowLogs m p lg tr).fState x = lg.fState x :=
  foldl_proj_same (fun g => g.fState x) (row m p) (by intro g s'; simp [row_fState, hx]) tr lg

theorem row_fCost (g : Logs) (s' : St) (x : Nat) :
    (row m p g s').fCost x =
      if x < m.nF then g.fCost x ++ [fCostNow m s'.live (workingAt p (s'.time - 1)) x] else g.fCost x := by
  simp [row, record, cost]

/-- the `fCost` log of an in-range index after appending the rows of `tr` -/
theorem rowLogs_fCost (lg : Logs) (tr : List St) {x : Nat} (hx : x < m.nF) :
    (rowLogs m p lg tr).fCost x = lg.fCost x ++ tr.map (fun s' => fCostNow m s'.live (workingAt p (s'.time - 1)) x) :=
  foldl_proj_append (fun g => g.fCost x) _ (row m p) (by intro g s'; simp [row_fCost, hx]) tr lg

/-- out of range the `fCost` log is untouched -/
theorem rowLogs_fCost_out (lg : Logs) (tr : List St) {x : Nat} (hx : ¬ x < m.nF) :
    (rowLogs m p lg tr).fCost x = lg.fCost x :=
  foldl_proj_same (fun g => g.fCost x) (row m p) (by intro g s'; simp [row_fCost, hx]) tr lg

theorem row_fAsg (g : Logs) (s' : St) (x : Nat) :
    (row m p g s').fAsg x =
      if x < m.nF then g.fAsg x ++ [s'.live.fasg x] else g.fAsg x := by
  simp [row, record, cost]

/-- the `fAsg` log of an in-range index after appending the rows of `tr` -/
theorem rowLogs_fAsg (lg : Logs) (tr : List St) {x : Nat} (hx : x < m.nF) :
    (rowLogs m p lg tr).fAsg x = lg.fAsg x ++ tr.map (fun s' => s'.live.fasg x) :=
  foldl_proj_append (fun g => g.fAsg x) _ (row m p) (by intro g s'; simp [row_fAsg, hx]) tr lg

/-- out of range the `fAsg` log is untouched -/
theorem rowLogs_fAsg_out (lg : Logs) (tr : List St) {x : Nat} (hx : ¬ x < m.nF) :
    (rowLogs m p lg tr).fAsg x = lg.fAsg x :=
  foldl_proj_same (fun g => g.fAsg x) (row m p) (by intro g s'; simp [row_fAsg, hx]) tr lg

theorem row_teamCost (g : Logs) (s' : St) (x : Nat) :
    (row m p g s').teamCost x =
      if x < m.nTeam then g.teamCost x ++ [teamCostNow m s'.live (workingAt p (s'.time - 1)) x] else g.teamCost x := by
  simp [row, record, cost]

/-- the `teamCost` log of an in-range index after appending the rows of `tr` -/
theorem rowLogs_teamCost (lg : Logs) (tr : List St) {x : Nat} (hx : x < m.nTeam) :
    (rowLogs m p lg tr).teamCost x = lg.teamCost x ++ tr.map (fun s' => teamCostNow m s'.live (workingAt p (s'.time - 1)) x) :=
  foldl_proj_append (fun g => g.teamCost x) _ (row m p) (by intro g s'; simp [row_teamCost, hx]) tr lg

/-- out of range the `teamCost` log is untouched -/
theorem rowLogs_teamCost_out (lg : Logs) (tr : List St) {x : Nat} (hx : ¬ x < m.nTeam) :
    (rowLogs m p lg tr).teamCost x = lg.teamCost x :=
  foldl_proj_same (fun g => g.teamCost x) (row m p) (by intro g s'; simp [row_teamCost, hx]) tr lg

theorem row_wpCost (g : Logs) (s' : St) (x : Nat) :
    (row m p g s').wpCost x =
      if x < m.nWp then g.wpCost x ++ [wpCostNow m s'.live (workingAt p (s'.time - 1)) x] else g.wpCost x := by
  simp [row, record, cost]

/-- the `wpCost` log of an in-range index after appending the rows of `tr` -/
theorem rowLogs_wpCost (lg : Logs) (tr : List St) {x : Nat} (hx : x < m.nWp) :
    (rowLogs m p lg tr).wpCost x = lg.wpCost x ++ tr.map (fun s' => wpCostNow m s'.live (workingAt p (s'.time - 1)) x) :=
  foldl_proj_append (fun g => g.wpCost x) _ (row m p) (by intro g s'; simp [row_wpCost, hx]) tr lg

/-- out of range the `wpCost` log is untouched -/
theorem rowLogs_wpCost_out (lg : Logs) (tr : List St) {x : Nat} (hx : ¬ x < m.nWp) :
    (rowLogs m p lg tr).wpCost x = lg.wpCost x :=
  foldl_proj_same (fun g => g.wpCost x) (row m p) (by intro g s'; simp [row_wpCost, hx]) tr lg

theorem row_wpPlaced (g : Logs) (s' : St) (x : Nat) :
    (row m p g s').wpPlaced x =
      if x < m.nWp then g.wpPlaced x ++ [s'.live.wpComps x] else g.wpPlaced x := by
  simp [row, record, cost]

/-- the `wpPlaced` log of an in-range index after appending the rows of `tr` -/
theorem rowLogs_wpPlaced (lg : Logs) (tr : List St) {x : Nat} (hx : x < m.nWp) :
    (rowLogs m p lg tr).wpPlaced x = lg.wpPlaced x ++ tr.map (fun s' => s'.live.wpComps x) :=
  foldl_proj_append (fun g => g.wpPlaced x) _ (row m p) (by intro g s'; simp [row_wpPlaced, hx]) tr lg

/-- out of range the `wpPlaced` log is untouched -/
theorem rowLogs_wpPlaced_out (lg : Logs) (tr : List St) {x : Nat} (hx : ¬ x < m.nWp) :
    (rowLogs m p lg tr).wpPlaced x = lg.wpPlaced x :=
  foldl_proj_same (fun g => g.wpPlaced x) (row m p) (by intro g s'; simp [row_wpPlaced, hx]) tr lg

theorem row_orgCost (g : Logs) (s' : St) :
    (row m p g s').orgCost = g.orgCost ++ [orgCostNow m s'.live (workingAt p (s'.time - 1))] := by
  simp [row, record, cost]

/-- the `orgCost` log after appending the rows of `tr` -/
theorem rowLogs_orgCost (lg : Logs) (tr : List St) :
    (rowLogs m p lg tr).orgCost = lg.orgCost ++ tr.map (fun s' => orgCostNow m s'.live (workingAt p (s'.time - 1))) :=
  foldl_proj_append (fun g => g.orgCost) _ (row m p) (by intro g s'; simp [row_orgCost]) tr lg

theorem row_projCost (g : Logs) (s' : St) :
    (row m p g s').projCost = g.projCost ++ [orgCostNow m s'.live (workingAt p (s'.time - 1))] := by
  simp [row, record, cost]

/-- the `projCost` log after appending the rows of `tr` -/
theorem rowLogs_projCost (lg : Logs) (tr : List St) :
    (rowLogs m p lg tr).projCost = lg.projCost ++ tr.map (fun s' => orgCostNow m s'.live (workingAt p (s'.time - 1))) :=
  foldl_proj_append (fun g => g.projCost) _ (row m p) (by intro g s'; simp [row_projCost]) tr lg

theorem row_cState (g : Logs) (s' : St) (x : Nat) :
    (row m p g s').cState x =
      if x < m.nC then g.cState x ++ [showC (workingAt p (s'.time - 1)) (s'.live.cstate x)] else g.cState x := by
  simp [row, record, cost]

/-- the `cState` log of an in-range index after appending the rows of `tr` -/
theorem rowLogs_cState (lg : Logs) (tr : List St) {x : Nat} (hx : x < m.nC) :
    (rowLogs m p lg tr).cState x = lg.cState x ++ tr.map (fun s' => showC (workingAt p (s'.time - 1)) (s'.live.cstate x)) :=
  foldl_proj_append (fun g => g.cState x) _ (row m p) (by intro g s'; simp [row_cState, hx]) tr lg

/-- out of range the `cState` log is untouched -/
theorem rowLogs_cState_out (lg : Logs) (tr : List St) {x : Nat} (hx : ¬ x < m.nC) :
    (rowLogs m p lg tr).cState x = lg.cState x :=
  foldl_proj_same (fun g => g.cState x) (row m p) (by intro g s'; simp [row_cState, hx]) tr lg

theorem row_cPlaced (g : Logs) (s' : St) (x : Nat) :
    (row m p g s').cPlaced x =
      if x < m.nC then g.cPlaced x ++ [s'.live.placed x] else g.cPlaced x := by
  simp [row, record, cost]

/-- the `cPlaced` log of an in-range index after appending the rows of `tr` -/
theorem rowLogs_cPlaced (lg : Logs) (tr : List St) {x : Nat} (hx : x < m.nC) :
    (rowLogs m p lg tr).cPlaced x = lg.cPlaced x ++ tr.map (fun s' => s'.live.placed x) :=
  foldl_proj_append (fun g => g.cPlaced x) _ (row m p) (by intro g s'; simp [row_cPlaced, hx]) tr lg

/-- out of range the `cPlaced` log is untouched -/
theorem rowLogs_cPlaced_out (lg : Logs) (tr : List St) {x : Nat} (hx : ¬ x < m.nC) :
    (rowLogs m p lg tr).cPlaced x = lg.cPlaced x :=
  foldl_proj_same (fun g => g.cPlaced x) (row m p) (by intro g s'; simp [row_cPlaced, hx]) tr lg

/-! ### reading one entry -/

/-- entry `n` of every log of `lg` is the displayed value of the live state `l`
(display rule of a step whose working flag is `wk`) -/
structure RowAt (m : Model) (lg : Logs) (n : Nat) (wk : Bool) (l : Live) : Prop where
  tState : ∀ x, x < m.nT → (lg.tState x)[n]? = some (showT wk (l.tstate x))
  tRem : ∀ x, x < m.nT → (lg.tRem x)[n]? = some (l.rem x)
  tAllocW : ∀ x, x < m.nT → (lg.tAllocW x)[n]? = some (l.allocW x)
  tAllocF : ∀ x, x < m.nT → (lg.tAllocF x)[n]? = some (l.allocF x)
  wState : ∀ x, x < m.nW → (lg.wState x)[n]? = some (showR wk (l.wstate x))
  wCost : ∀ x, x < m.nW → (lg.wCost x)[n]? = some (wCostNow m l wk x)
  wAsg : ∀ x, x < m.nW → (lg.wAsg x)[n]? = some (l.wasg x)
  fState : ∀ x, x < m.nF → (lg.fState x)[n]? = some (showR wk (l.fstate x))
  fCost : ∀ x, x < m.nF → (lg.fCost x)[n]? = some (fCostNow m l wk x)
  fAsg : ∀ x, x < m.nF → (lg.fAsg x)[n]? = some (l.fasg x)
  teamCost : ∀ x, x < m.nTeam → (lg.teamCost x)[n]? = some (teamCostNow m l wk x)
  wpCost : ∀ x, x < m.nWp → (lg.wpCost x)[n]? = some (wpCostNow m l wk x)
  wpPlaced : ∀ x, x < m.nWp → (lg.wpPlaced x)[n]? = some (l.wpComps x)
  orgCost : lg.orgCost[n]? = some (orgCostNow m l wk)
  projCost : lg.projCost[n]? = some (orgCostNow m l wk)
  cState : ∀ x, x < m.nC → (lg.cState x)[n]? = some (showC wk (l.cstate x))
  cPlaced : ∀ x, x < m.nC → (lg.cPlaced x)[n]? = some (l.placed x)

theorem getElem?_append_map {α β : Type} (l : List β) (tr : List α) (f : α → β) (n k : Nat)
    (hl : l.length = n) (hk : k < tr.length) : (l ++ tr.map f)[n + k]? = some (f tr[k]) := by
  subst hl; simp [hk]

/-- if the logs of `s` are aligned with `s.time`, then after appending the rows of `tr`
entry `s.time + k` of every log is the row of `tr[k]` -/
theorem rowLogs_rowAt (s : St) (h : Aligned m s) (tr : List St) (k : Nat) (hk : k < tr.length) :
    RowAt m (rowLogs m p s.logs tr) (s.time + k) (workingAt p (tr[k].time - 1)) tr[k].live where
  tState := by
    intro x hx; rw [rowLogs_tState _ _ hx]
    exact getElem?_append_map _ _ _ _ _ (h.tState x hx) hk
  tRem := by
    intro x hx; rw [rowLogs_tRem _ _ hx]
    exact getElem?_append_map _ _ _ _ _ (h.tRem x hx) hk
  tAllocW := by
    intro x hx; rw [rowLogs_tAllocW _ _ hx]
    exact getElem?_append_map _ _ _ _ _ (h.tAllocW x hx) hk
  tAllocF := by
    intro x hx; rw [rowLogs_tAllocF _ _ hx]
    exact getElem?_append_map _ _ _ _ _ (h.tAllocF x hx) hk
  wState := by
    intro x hx; rw [rowLogs_wState _ _ hx]
    exact getElem?_append_map _ _ _ _ _ (h.wState x hx) hk
  wCost := by
    intro x hx; rw [rowLogs_wCost _ _ hx]
    exact getElem?_append_map _ _ _ _ _ (h.wCost x hx) hk
  wAsg := by
    intro x hx; rw [rowLogs_wAsg _ _ hx]
    exact getElem?_append_map _ _ _ _ _ (h.wAsg x hx) hk
  fState := by
    intro x hx; rw [rowLogs_fState _ _ hx]
    exact getElem?_append_map _ _ _ _ _ (h.fState x hx) hk
  fCost := by
    intro x hx; rw [rowLogs_fCost _ _ hx]
    exact getElem?_append_map _ _ _ _ _ (h.fCost x hx) hk
  fAsg := by
    intro x hx; rw [rowLogs_fAsg _ _ hx]
    exact getElem?_append_map _ _ _ _ _ (h.fAsg x hx) hk
  teamCost := by
    intro x hx; rw [rowLogs_teamCost _ _ hx]
    exact getElem?_append_map _ _ _ _ _ (h.teamCost x hx) hk
  wpCost := by
    intro x hx; rw [rowLogs_wpCost _ _ hx]
    exact getElem?_append_map _ _ _ _ _ (h.wpCost x hx) hk
  wpPlaced := by
    intro x hx; rw [rowLogs_wpPlaced _ _ hx]
    exact getElem?_append_map _ _ _ _ _ (h.wpPlaced x hx) hk
  orgCost := by
    rw [rowLogs_orgCost]
    exact getElem?_append_map _ _ _ _ _ h.orgCost hk
  projCost := by
    rw [rowLogs_projCost]
    exact getElem?_append_map _ _ _ _ _ h.projCost hk
  cState := by
    intro x hx; rw [rowLogs_cState _ _ hx]
    exact getElem?_append_map _ _ _ _ _ (h.cState x hx) hk
  cPlaced := by
    intro x hx; rw [rowLogs_cPlaced _ _ hx]
    exact getElem?_append_map _ _ _ _ _ (h.cPlaced x hx) hk

/-! ### what one step charges -/

/-- a worker is charged exactly when it is *shown* WORKING -/
theorem wCostNow_eq (l : Live) (wk : Bool) (w : Nat) :
    wCostNow m l wk w = if showR wk (l.wstate w) = .working then (m.worker w).cost else 0 := by
  cases wk <;> simp [wCostNow, showR]

theorem fCostNow_eq (l : Live) (wk : Bool) (f : Nat) :
    fCostNow m l wk f = if showR wk (l.fstate f) = .working then (m.fac f).cost else 0 := by
  cases wk <;> simp [fCostNow, showR]

/-- at a project-wide absence step nobody is charged anything -/
theorem costNow_absence (l : Live) :
    (∀ w, wCostNow m l false w = 0) ∧ (∀ f, fCostNow m l false f = 0) ∧
    (∀ a, teamCostNow m l false a = 0) ∧ (∀ q, wpCostNow m l false q = 0) ∧
    orgCostNow m l false = 0 := by
  have hw : ∀ w, wCostNow m l false w = 0 := by intro w; simp [wCostNow]
  have hf : ∀ f, fCostNow m l false f = 0 := by intro f; simp [fCostNow]
  have hw' : wCostNow m l false = fun _ => 0 := funext hw
  have hf' : fCostNow m l false = fun _ => 0 := funext hf
  have ha : ∀ a, teamCostNow m l false a = 0 := by
    intro a; rw [teamCostNow, hw']; exact sumList_map_zero _
  have hq : ∀ q, wpCostNow m l false q = 0 := by
    intro q; rw [wpCostNow, hf']; exact sumList_map_zero _
  have ha' : teamCostNow m l false = fun _ => 0 := funext ha
  have hq' : wpCostNow m l false = fun _ => 0 := funext hq
  refine ⟨hw, hf, ha, hq, ?_⟩
  rw [orgCostNow, ha', hq', sumList_map_zero, sumList_map_zero]; grind

theorem sumList_map_ite_count {α : Type} (g : α → RS) (c : Rat) (xs : List α) :
    sumList (xs.map fun x => if g x = .working then c else 0) =
      c * (((xs.map g).count RS.working : Nat) : Rat) := by
  induction xs with
  | nil => simp
  | cons x xs ih =>
    simp only [List.map_cons, sumList_cons, ih, List.count_cons]
    by_cases h : g x = .working <;> simp [h] <;> grind

/-- if teams partition the workers and workplaces the facilities (up to order), the
organization's charge is the sum over all workers plus the sum over all facilities -/
theorem orgCostNow_flat
    (hW : ((List.range m.nTeam).flatMap fun a => (m.team a).workers).Perm (List.range m.nW))
    (hF : ((List.range m.nWp).flatMap fun q => (m.wp q).facs).Perm (List.range m.nF))
    (l : Live) (wk : Bool) :
    orgCostNow m l wk = sumList ((List.range m.nW).map (wCostNow m l wk)) +
      sumList ((List.range m.nF).map (fCostNow m l wk)) := by
  have e1 : sumList ((List.range m.nTeam).map (teamCostNow m l wk)) =
      sumList ((List.range m.nW).map (wCostNow m l wk)) := by
    rw [← sumList_perm (hW.map _), List.map_flatMap, sumList_flatMap]; rfl
  have e2 : sumList ((List.range m.nWp).map (wpCostNow m l wk)) =
      sumList ((List.range m.nF).map (fCostNow m l wk)) := by
    rw [← sumList_perm (hF.map _), List.map_flatMap, sumList_flatMap]; rfl
  rw [orgCostNow, e1, e2]

theorem total_rows
    (hW : ((List.range m.nTeam).flatMap fun a => (m.team a).workers).Perm (List.range m.nW))
    (hF : ((List.range m.nWp).flatMap fun q => (m.wp q).facs).Perm (List.range m.nF))
    (tr : List St) :
    sumList (tr.map fun s' => orgCostNow m s'.live (workingAt p (s'.time - 1))) =
      sumList ((List.range m.nW).map fun w => (m.worker w).cost *
        (((tr.map fun s' => showR (workingAt p (s'.time - 1)) (s'.live.wstate w)).count
          RS.working : Nat) : Rat)) +
      sumList ((List.range m.nF).map fun f => (m.fac f).cost *
        (((tr.map fun s' => showR (workingAt p (s'.time - 1)) (s'.live.fstate f)).count
          RS.working : Nat) : Rat)) := by
  simp only [orgCostNow_flat hW hF]
  rw [sumList_map_add]
  have e1 := sumList_swap (fun (s' : St) w => wCostNow m s'.live (workingAt p (s'.time - 1)) w)
    tr (List.range m.nW)
  have e2 := sumList_swap (fun (s' : St) f => fCostNow m s'.live (workingAt p (s'.time - 1)) f)
    tr (List.range m.nF)
  rw [e1, e2]
  simp only [wCostNow_eq, fCostNow_eq, sumList_map_ite_count]

/-! ### the state a run enters its loop with -/

theorem enter_time (s : St) (h : p.initLog = true) : (enter m p s).time = 0 := by
  simp only [enter, h]
  cases p.initState <;> rfl

theorem enter_logs (s : St) (h : p.initLog = true) : (enter m p s).logs = clearLogs m s.logs := by
  simp only [enter, h]
  cases p.initState <;> rfl

/-! ### a concrete model for examples -/

/-- a small concrete model for the satisfiability examples: two tasks in sequence (the second
needs a facility), one team of two workers, one workplace with one facility, one component -/
def demo : Model where
  nT := 2
  nW := 2
  nF := 1
  nTeam := 1
  nWp := 1
  nC := 1
  task := fun t =>
    if t = 0 then { name := 0, work := 2, outputs := [(1, .fs)], wps := [0], comp := some 0 }
    else if t = 1 then { name := 1, work := 1, inputs := [(0, .fs)], needFac := true, wps := [0], comp := some 0 }
    else {}
  worker := fun w =>
    if w = 0 then { team := 0, skills := [(0, 1)], cost := 3 }
    else if w = 1 then { team := 0, skills := [(1, 1)], facSkills := [(0, 1)], cost := 5 }
    else {}
  fac := fun f => if f = 0 then { wp := 0, name := 0, skills := [(1, 1)], cost := 7 } else {}
  team := fun a => if a = 0 then { workers := [0, 1], targets := [0, 1] } else {}
  wp := fun q => if q = 0 then { facs := [0], targets := [1], cap := 10 } else {}
  comp := fun c => if c = 0 then { tasks := [0, 1] } else {}

def demoP : Params := { absence := [1], maxTime := 20 }


end PDesy.Logs
