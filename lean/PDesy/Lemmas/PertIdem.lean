/-
  PDesy.Lemmas.PertIdem — `update_PERT_data` is idempotent on EVERY state of a model whose
  link graph is acyclic, whatever the link kinds and the signs of the remaining work amounts.

  What `pert m time l` reads of the old PERT data of `l` (current `Phases.lean`):
  * `est`  : nothing below `m.nT` (reset to `time`);
  * `eft`  : reset for head tasks only; the old `eft i` of a non-head task `i` is read by a
             relaxation `i → j` of kind FF when no relaxation into `i` has been accepted yet;
  * `lst/lft` : nothing below `m.nT` (`pertReset`); `cpl` only when there is no tail task.
  The acceptance tests `est ≥ pre_est` read `est` only, so the sequence of relaxations (the
  waves depend on the graph only) and the set of accepted ones do not depend on the old `eft`.

  * `fwdLoop_eq`: the forward pass is a fold of `fwdRelax` over a value-independent list of
    relaxation events `fwdEvs`.
  * `foldl_congr`: two folds over an event list that start with the same `est` end with the same
    `est`/`eft` if every task on whose `eft` they differ is written during the fold — given the
    structural property `SS`: after any event into `i`, every event out of `i` occurs again.
    (Monotonicity: a relaxation `i → j` that was accepted is accepted again later unless `j` has
    been written in between, `est_holds`.)
  * `fwdEvs_SS`: `SS` holds for the event list of the forward pass when some rank below `m.nT`
    increases along every output link (`FwdRanked`; from `GraphOK` and `Acyclic` by
    `fwdRanked_of`): the waves die out before the fuel `m.nT + 1` does.
  * `pertFwd_again_acyc`, `pert_idem_acyc`: the second forward pass recomputes the same values,
    and `pert m time (pert m time l) = pert m time l`.
-/
import PDesy.Lemmas.Idem
import PDesy.Lemmas.Pert

namespace PDesy
namespace PertIdem

open Idem

/-! ### the forward pass as a fold over relaxation events -/

/-- a relaxation event: source task, (target task, link kind) -/
abbrev Ev := Nat × (Nat × Dep)

def evStep (l : Live) (p : Pert) (ev : Ev) : Pert := fwdRelax l p ev.1 ev.2

/-- the relaxations of one wave, in execution order -/
def waveEvs (m : Model) (wave : List Nat) : List Ev :=
  wave.flatMap fun i => (m.task i).outputs.map fun e => (i, e)

/-- all relaxations of the forward pass, in execution order: they depend on the graph only -/
def fwdEvs (m : Model) : Nat → List Nat → List Ev
  | 0, _ => []
  | fuel + 1, wave =>
    if wave.isEmpty then [] else waveEvs m wave ++ fwdEvs m fuel (nextOf m wave)

theorem fwdWave_eq (m : Model) (l : Live) (wave : List Nat) (p : Pert) :
    fwdWave m l wave p = (waveEvs m wave).foldl (evStep l) p := by
  induction wave generalizing p with
  | nil => rfl
  | cons i wave ih =>
    simp only [fwdWave, List.foldl_cons, waveEvs, List.flatMap_cons, List.foldl_append,
      List.foldl_map]
    exact ih _

theorem fwdLoop_eq (m : Model) (l : Live) : ∀ (fuel : Nat) (wave : List Nat) (p : Pert),
    fwdLoop m l fuel wave p = (fwdEvs m fuel wave).foldl (evStep l) p := by
  intro fuel
  induction fuel with
  | zero => intro wave p; rfl
  | succ n ih =>
    intro wave p
    simp only [fwdLoop, fwdEvs]
    split
    · rfl
    · rw [List.foldl_append, ← fwdWave_eq, ih]

theorem mem_waveEvs (m : Model) (wave : List Nat) (ev : Ev) :
    ev ∈ waveEvs m wave ↔ ev.1 ∈ wave ∧ ev.2 ∈ (m.task ev.1).outputs := by
  obtain ⟨a, b⟩ := ev
  simp only [waveEvs, List.mem_flatMap, List.mem_map, Prod.mk.injEq]
  constructor
  · rintro ⟨i, hi, e, he, rfl, rfl⟩; exact ⟨hi, he⟩
  · rintro ⟨h1, h2⟩; exact ⟨a, h1, b, h2, rfl, rfl⟩

/-! ### acceptance, and the tasks written during a fold -/

/-- the relaxation `ev` is accepted at table `p` (`est >= pre_est`) -/
def Acc (l : Live) (p : Pert) (ev : Ev) : Prop := (fwdCand l p ev.1 ev.2).1 ≥ p.est ev.2.1

instance (l : Live) (p : Pert) (ev : Ev) : Decidable (Acc l p ev) := by unfold Acc; infer_instance

theorem evStep_acc (l : Live) (p : Pert) (ev : Ev) (h : Acc l p ev) :
    evStep l p ev = { p with est := upd p.est ev.2.1 (fwdCand l p ev.1 ev.2).1,
                             eft := upd p.eft ev.2.1 (fwdCand l p ev.1 ev.2).2 } := by
  unfold evStep; rw [fwdRelax_eq]; exact if_pos h

theorem evStep_rej (l : Live) (p : Pert) (ev : Ev) (h : ¬ Acc l p ev) : evStep l p ev = p := by
  unfold evStep; rw [fwdRelax_eq]; exact if_neg h

/-- the proposed `est` reads `est` of the source only -/
theorem cand1_congr (l : Live) {p p' : Pert} (i : Nat) (e : Nat × Dep) (h : p'.est i = p.est i) :
    (fwdCand l p' i e).1 = (fwdCand l p i e).1 := by
  obtain ⟨nx, d⟩ := e
  cases d <;> simp only [fwdCand, h]

/-- the proposed `eft` reads `est` of the source and, for an FF link, `eft` of the source -/
theorem cand2_congr (l : Live) {p p' : Pert} (i : Nat) (e : Nat × Dep) (h : p'.est i = p.est i)
    (h2 : e.2 = .ff → p'.eft i = p.eft i) : (fwdCand l p' i e).2 = (fwdCand l p i e).2 := by
  obtain ⟨nx, d⟩ := e
  cases d
  · simp only [fwdCand, h]
  · simp only [fwdCand, h]
  · simp only [fwdCand, h, h2 rfl]
  · simp only [fwdCand, h]

/-- the proposed `est` is monotone in `est` of the source -/
theorem cand1_mono (l : Live) {p p' : Pert} (i : Nat) (e : Nat × Dep) (h : p.est i ≤ p'.est i) :
    (fwdCand l p i e).1 ≤ (fwdCand l p' i e).1 := by
  obtain ⟨nx, d⟩ := e
  cases d
  · simp only [fwdCand]; grind
  all_goals exact h

/-- task `j` is written (some relaxation into it is accepted) during the fold over `evs` from `p` -/
def Wr (l : Live) : List Ev → Pert → Nat → Prop
  | [], _, _ => False
  | ev :: rest, p, j => (Acc l p ev ∧ ev.2.1 = j) ∨ Wr l rest (evStep l p ev) j

instance Wr.dec (l : Live) : ∀ (evs : List Ev) (p : Pert) (j : Nat), Decidable (Wr l evs p j)
  | [], _, _ => isFalse (fun h => h)
  | ev :: rest, p, j =>
    @instDecidableOr _ _ inferInstance (Wr.dec l rest (evStep l p ev) j)

/-- a task that is not written keeps its `eft` -/
theorem eft_of_not_Wr (l : Live) (j : Nat) : ∀ (evs : List Ev) (p : Pert), ¬ Wr l evs p j →
    (evs.foldl (evStep l) p).eft j = p.eft j := by
  intro evs
  induction evs with
  | nil => intro p _; rfl
  | cons ev rest ih =>
    intro p h
    have h1 : ¬ (Acc l p ev ∧ ev.2.1 = j) := fun hh => h (Or.inl hh)
    have h2 : ¬ Wr l rest (evStep l p ev) j := fun hh => h (Or.inr hh)
    rw [List.foldl_cons, ih _ h2]
    by_cases hacc : Acc l p ev
    · rw [evStep_acc l p ev hacc]
      have hne : j ≠ ev.2.1 := fun e => h1 ⟨hacc, e.symm⟩
      show upd p.eft ev.2.1 _ j = p.eft j
      rw [upd_other _ _ _ _ hne]
    · rw [evStep_rej l p ev hacc]

/-- a written task is the target of an event of the list -/
theorem Wr_split (l : Live) (j : Nat) : ∀ (evs : List Ev) (p : Pert), Wr l evs p j →
    ∃ ys1 ev2 ys2, evs = ys1 ++ ev2 :: ys2 ∧ ev2.2.1 = j := by
  intro evs
  induction evs with
  | nil => intro p h; exact h.elim
  | cons ev rest ih =>
    intro p h
    rcases h with ⟨_, h⟩ | h
    · exact ⟨[], ev, rest, rfl, h⟩
    · obtain ⟨ys1, ev2, ys2, h1, h2⟩ := ih _ h
      exact ⟨ev :: ys1, ev2, ys2, by rw [h1]; rfl, h2⟩

/-- **monotonicity**: while the `est` of the target of `ev` is at most what `ev` proposes, `ev`
will be accepted when it comes up — unless the target is written before; either way the target
is written during the fold, if `ev` occurs in the list -/
theorem Wr_of_mem (l : Live) (ev : Ev) : ∀ (rest : List Ev) (p : Pert),
    ev ∈ rest → p.est ev.2.1 ≤ (fwdCand l p ev.1 ev.2).1 → Wr l rest p ev.2.1 := by
  intro rest
  induction rest with
  | nil => intro p h; simp at h
  | cons ev2 rest ih =>
    intro p hmem hle
    by_cases hacc : Acc l p ev2 ∧ ev2.2.1 = ev.2.1
    · exact Or.inl hacc
    · right
      apply ih
      · rcases List.mem_cons.mp hmem with rfl | h
        · exact absurd ⟨hle, rfl⟩ hacc
        · exact h
      · by_cases ha2 : Acc l p ev2
        · have hne : ev.2.1 ≠ ev2.2.1 := fun e => hacc ⟨ha2, e.symm⟩
          rw [evStep_acc l p ev2 ha2]
          show upd p.est ev2.2.1 _ ev.2.1 ≤ _
          rw [upd_other _ _ _ _ hne]
          apply Rat.le_trans hle
          apply cand1_mono
          show p.est ev.1 ≤ upd p.est ev2.2.1 _ ev.1
          rw [upd_apply]
          split
          · rename_i he; rw [he]; exact ha2
          · exact Rat.le_refl
        · rw [evStep_rej l p ev2 ha2]; exact hle

/-! ### two folds side by side -/

/-- after any event into a task, every event of the list out of that task occurs (again) -/
def SS (evs : List Ev) : Prop :=
  ∀ pre ev2 ys2, evs = pre ++ ev2 :: ys2 → ∀ ev ∈ evs, ev.1 = ev2.2.1 → ev ∈ ys2

theorem SS_tail {ev : Ev} {rest : List Ev} (h : SS (ev :: rest)) : SS rest := by
  intro pre ev2 ys2 hs ev' hev' hsrc
  exact h (ev :: pre) ev2 ys2 (by rw [hs]; rfl) ev' (List.mem_cons_of_mem _ hev') hsrc

/-- **congruence of the forward fold in the old `eft`**: two tables with the same `est` that
differ in `eft` only at tasks that will be written end with the same `est` and `eft` -/
theorem foldl_congr (l : Live) : ∀ (evs : List Ev) (p1 p2 : Pert), SS evs →
    (∀ ev ∈ evs, ev.1 ≠ ev.2.1) → p2.est = p1.est →
    (∀ j, p2.eft j ≠ p1.eft j → Wr l evs p1 j) →
    (evs.foldl (evStep l) p2).est = (evs.foldl (evStep l) p1).est ∧
    (evs.foldl (evStep l) p2).eft = (evs.foldl (evStep l) p1).eft := by
  intro evs
  induction evs with
  | nil =>
    intro p1 p2 _ _ hest hd
    refine ⟨hest, ?_⟩
    funext j
    exact Decidable.byContradiction fun h => hd j h
  | cons ev rest ih =>
    intro p1 p2 hss hns hest hd
    have hne : ev.1 ≠ ev.2.1 := hns ev (List.mem_cons_self ..)
    have hc1 : (fwdCand l p2 ev.1 ev.2).1 = (fwdCand l p1 ev.1 ev.2).1 :=
      cand1_congr l ev.1 ev.2 (by rw [hest])
    have hacc2 : Acc l p2 ev ↔ Acc l p1 ev := by unfold Acc; rw [hc1, hest]
    rw [List.foldl_cons, List.foldl_cons]
    apply ih _ _ (SS_tail hss) (fun e he => hns e (List.mem_cons_of_mem _ he))
    · by_cases hacc : Acc l p1 ev
      · rw [evStep_acc l p1 ev hacc, evStep_acc l p2 ev (hacc2.mpr hacc)]
        show upd p2.est _ _ = upd p1.est _ _
        rw [hest, hc1]
      · rw [evStep_rej l p1 ev hacc, evStep_rej l p2 ev (fun h => hacc (hacc2.mp h))]
        exact hest
    · intro j hj
      by_cases hacc : Acc l p1 ev
      · rw [evStep_acc l p2 ev (hacc2.mpr hacc)] at hj
        by_cases hjt : j = ev.2.1
        · -- the target itself: the two proposed `eft` differ, so the link is FF and the
          -- source differs, hence will be written, hence the target will be written again
          subst hjt
          have hsrc : p2.eft ev.1 ≠ p1.eft ev.1 := by
            intro heq
            apply hj
            rw [evStep_acc l p1 ev hacc]
            show upd p2.eft _ _ _ = upd p1.eft _ _ _
            rw [upd_same, upd_same]
            exact cand2_congr l ev.1 ev.2 (by rw [hest]) (fun _ => heq)
          have hw : Wr l rest (evStep l p1 ev) ev.1 := by
            rcases hd ev.1 hsrc with ⟨_, h⟩ | h
            · exact absurd h.symm hne
            · exact h
          obtain ⟨ys1, ev2, ys2, hs, ht⟩ := Wr_split l ev.1 rest _ hw
          have hin : ev ∈ ys2 :=
            hss (ev :: ys1) ev2 ys2 (by rw [hs]; rfl) ev (List.mem_cons_self ..) ht.symm
          apply Wr_of_mem l ev rest _ (by rw [hs]; simp [hin])
          rw [evStep_acc l p1 ev hacc]
          show upd p1.est ev.2.1 _ ev.2.1 ≤ _
          rw [upd_same]
          have hcc : ∀ q : Pert, q.est ev.1 = p1.est ev.1 →
              (fwdCand l p1 ev.1 ev.2).1 ≤ (fwdCand l q ev.1 ev.2).1 := by
            intro q hq
            rw [cand1_congr l ev.1 ev.2 hq]
            exact Rat.le_refl
          apply hcc
          show upd p1.est ev.2.1 _ ev.1 = p1.est ev.1
          rw [upd_other _ _ _ _ hne]
        · have hj' : p2.eft j ≠ p1.eft j := by
            intro heq
            apply hj
            rw [evStep_acc l p1 ev hacc]
            show upd p2.eft _ _ j = upd p1.eft _ _ j
            rw [upd_other _ _ _ _ hjt, upd_other _ _ _ _ hjt]
            exact heq
          rcases hd j hj' with ⟨_, h⟩ | h
          · exact absurd h.symm hjt
          · exact h
      · rw [evStep_rej l p2 ev (fun h => hacc (hacc2.mp h)), evStep_rej l p1 ev hacc] at hj
        rcases hd j hj with ⟨h, _⟩ | h
        · exact absurd h hacc
        · rw [evStep_rej l p1 ev hacc] at h; rw [evStep_rej l p1 ev hacc]; exact h

/-! ### the event list of the forward pass on an acyclic graph -/

/-- some rank below `m.nT` increases strictly along every output link, and output links stay
inside the task list: the link graph (as the forward pass sees it) is acyclic -/
def FwdRanked (m : Model) : Prop :=
  ∃ rk : Nat → Nat, ∀ t, t < m.nT →
    rk t < m.nT ∧ ∀ e ∈ (m.task t).outputs, e.1 < m.nT ∧ rk t < rk e.1

/-- consistent link lists without a cycle have such a rank: the depth (longest distance from a
task without predecessors) -/
theorem fwdRanked_of {m : Model} (hok : PertSpec.GraphOK m) (hac : PertSpec.Acyclic m) :
    FwdRanked m := by
  have hg := PertSpec.dag_of hok hac
  obtain ⟨d, hd⟩ := PertSpec.exists_depth hg.G_lt hg.acyc
  refine ⟨d, fun t ht => ⟨hd.lt hg.G_lt t ht, ?_⟩⟩
  intro e he
  obtain ⟨hlt, hin⟩ := (hok t ht).2 e he
  refine ⟨hlt, hd.edge e.1 hlt t ?_⟩
  exact PertSpec.mem_Gm.2 ⟨e.2, hin⟩

section ranked
variable (m : Model) (rk : Nat → Nat)
  (hrk : ∀ t, t < m.nT → rk t < m.nT ∧ ∀ e ∈ (m.task t).outputs, e.1 < m.nT ∧ rk t < rk e.1)
include hrk

omit hrk in
/-- the events of the pass are output links of tasks below `m.nT` -/
theorem mem_fwdEvs : ∀ (fuel : Nat) (wave : List Nat), (∀ i ∈ wave, i < m.nT) →
    ∀ ev ∈ fwdEvs m fuel wave, ev.1 < m.nT ∧ ev.2 ∈ (m.task ev.1).outputs := by
  intro fuel
  induction fuel with
  | zero => intro wave _ ev h; simp [fwdEvs] at h
  | succ n ih =>
    intro wave hw ev h
    simp only [fwdEvs] at h
    split at h
    · simp at h
    · rcases List.mem_append.mp h with h | h
      · obtain ⟨h1, h2⟩ := (mem_waveEvs m wave ev).mp h
        exact ⟨hw _ h1, h2⟩
      · exact ih _ (fun i hi => (mem_nextOf m wave i hi).1) ev h

/-- on a ranked graph, after any event into a task `i` all output links of `i` are relaxed
(again): `i` is in the next wave, and there is fuel left for it -/
theorem fwdEvs_after : ∀ (fuel : Nat) (wave : List Nat) (k : Nat), m.nT + 1 ≤ fuel + k →
    (∀ i ∈ wave, i < m.nT ∧ k ≤ rk i) →
    ∀ pre ev2 ys2, fwdEvs m fuel wave = pre ++ ev2 :: ys2 →
      ∀ e ∈ (m.task ev2.2.1).outputs, (ev2.2.1, e) ∈ ys2 := by
  intro fuel
  induction fuel with
  | zero =>
    intro wave k _ _ pre ev2 ys2 h
    simp [fwdEvs] at h
  | succ n ih =>
    intro wave k hf hw pre ev2 ys2 h e he
    simp only [fwdEvs] at h
    split at h
    · simp at h
    · have hnext : ∀ i ∈ nextOf m wave, i < m.nT ∧ k + 1 ≤ rk i := by
        intro i hi
        obtain ⟨hlt, s, hs, e', he', rfl⟩ := mem_nextOf m wave i hi
        obtain ⟨hs1, hs2⟩ := hw s hs
        have := ((hrk s hs1).2 e' he').2
        exact ⟨hlt, by omega⟩
      -- the event lies in this wave, or in a later one
      have tailcase : ∀ a', fwdEvs m n (nextOf m wave) = a' ++ ev2 :: ys2 → (ev2.2.1, e) ∈ ys2 :=
        fun a' ha' => ih (nextOf m wave) (k + 1) (by omega) hnext a' ev2 ys2 ha' e he
      rcases List.append_eq_append_iff.mp h with ⟨a', _, h2⟩ | ⟨c', h1, h2⟩
      · exact tailcase a' h2
      · cases c' with
        | nil => exact tailcase [] (by simpa using h2.symm)
        | cons c cs =>
          simp only [List.cons_append, List.cons.injEq] at h2
          obtain ⟨rfl, rfl⟩ := h2
          have hin : ev2 ∈ waveEvs m wave := by rw [h1]; simp
          obtain ⟨hs, hout⟩ := (mem_waveEvs m wave ev2).mp hin
          obtain ⟨hs1, hs2⟩ := hw _ hs
          obtain ⟨htl, htr⟩ := (hrk _ hs1).2 _ hout
          have htb := (hrk _ htl).1
          -- the target is in the next wave
          have hmem : ev2.2.1 ∈ nextOf m wave := by
            rw [nextOf, mem_canonSet]
            refine ⟨htl, List.mem_flatMap.mpr ⟨ev2.1, hs, List.mem_map.mpr ⟨ev2.2, hout, rfl⟩⟩⟩
          have hne : (nextOf m wave).isEmpty = false := by
            cases hnx : nextOf m wave with
            | nil => rw [hnx] at hmem; simp at hmem
            | cons _ _ => rfl
          -- there is fuel for the next wave
          obtain ⟨n', rfl⟩ : ∃ n', n = n' + 1 := ⟨n - 1, by omega⟩
          apply List.mem_append_right
          simp only [fwdEvs, hne]
          apply List.mem_append_left
          exact (mem_waveEvs m _ _).mpr ⟨hmem, he⟩

/-- the event list of the whole forward pass has the structural property `SS` -/
theorem fwdEvs_SS : SS (fwdEvs m (m.nT + 1) (heads m)) := by
  intro pre ev2 ys2 hs ev hev hsrc
  have hw : ∀ i ∈ heads m, i < m.nT := fun i hi => (mem_heads m i hi).1
  have hout := (mem_fwdEvs m (m.nT + 1) (heads m) hw ev hev).2
  have := fwdEvs_after m rk hrk (m.nT + 1) (heads m) 0 (by omega)
    (fun i hi => ⟨hw i hi, Nat.zero_le _⟩) pre ev2 ys2 hs ev.2 (hsrc ▸ hout)
  rw [← hsrc] at this
  exact this

theorem fwdEvs_noSelf : ∀ ev ∈ fwdEvs m (m.nT + 1) (heads m), ev.1 ≠ ev.2.1 := by
  intro ev hev heq
  obtain ⟨h1, h2⟩ := mem_fwdEvs m (m.nT + 1) (heads m)
    (fun i hi => (mem_heads m i hi).1) ev hev
  have := ((hrk _ h1).2 _ h2).2
  rw [← heq] at this
  omega

end ranked

/-! ### the second forward pass, and the whole computation -/

section again
variable (m : Model)

theorem pertFwd_fold (l : Live) (time : Rat) :
    pertFwd m time l = (fwdEvs m (m.nT + 1) (heads m)).foldl (evStep l) (fwdInit m time l) := by
  rw [pertFwd_eq, fwdLoop_eq]

/-- task `j` is written by the forward pass at `l` (some relaxation into it is accepted) -/
def FwdWrites (m : Model) (l : Live) (time : Rat) (j : Nat) : Prop :=
  Wr l (fwdEvs m (m.nT + 1) (heads m)) (fwdInit m time l) j

instance (m : Model) (l : Live) (time : Rat) (j : Nat) : Decidable (FwdWrites m l time j) := by
  unfold FwdWrites; infer_instance

/-- **What the forward pass reads of the old PERT data** (acyclic graph): besides `rem`, only
`est` outside the task list and the `eft` of tasks that are neither heads nor written by the
pass.  (Which tasks are written is decided by `rem` alone.) -/
theorem pertFwd_congr (hr : FwdRanked m) (l l' : Live) (time : Rat) (hrem : l'.rem = l.rem)
    (hest : ∀ t, ¬ t < m.nT → l'.est t = l.est t)
    (heft : ∀ j, ¬ (j < m.nT ∧ (m.task j).inputs.isEmpty = true) → ¬ FwdWrites m l time j →
      l'.eft j = l.eft j) :
    (pertFwd m time l').est = (pertFwd m time l).est ∧
    (pertFwd m time l').eft = (pertFwd m time l).eft := by
  obtain ⟨rk, hrk⟩ := hr
  have hP' : pertFwd m time l' =
      (fwdEvs m (m.nT + 1) (heads m)).foldl (evStep l) (fwdInit m time l') := by
    rw [pertFwd_eq, fwdLoop_rem m hrem, fwdLoop_eq]
  -- the two start tables have the same `est`
  have h0 : (fwdInit m time l').est = (fwdInit m time l).est := by
    funext t
    show (if t < m.nT then time else l'.est t) = (if t < m.nT then time else l.est t)
    split
    · rfl
    · rename_i ht; exact hest t ht
  -- where their `eft` differ, the first pass writes
  have h1 : ∀ j, (fwdInit m time l').eft j ≠ (fwdInit m time l).eft j →
      Wr l (fwdEvs m (m.nT + 1) (heads m)) (fwdInit m time l) j := by
    intro j hj
    apply Classical.byContradiction
    intro hnw
    apply hj
    show (if j < m.nT && (m.task j).inputs.isEmpty then time + l'.rem j else l'.eft j) =
      (if j < m.nT && (m.task j).inputs.isEmpty then time + l.rem j else l.eft j)
    by_cases hc : (decide (j < m.nT) && (m.task j).inputs.isEmpty) = true
    · rw [if_pos hc, if_pos hc, hrem]
    · rw [if_neg hc, if_neg hc]
      exact heft j (fun h => hc (by simp [h.1, h.2])) hnw
  have := foldl_congr l _ (fwdInit m time l) (fwdInit m time l') (fwdEvs_SS m rk hrk)
    (fwdEvs_noSelf m rk hrk) h0 h1
  rw [hP', pertFwd_fold m l time]
  exact this

/-- A second forward pass, on a state that differs from `l` only in that its `eft` (and its
`est` outside the task list) are those the first pass computed, computes the same `est` and
`eft` again — on an acyclic graph, whatever the signs of the remaining work amounts. -/
theorem pertFwd_again_acyc (hwf : WF m) (hr : FwdRanked m) (l l' : Live) (time : Rat)
    (hrem : l'.rem = l.rem)
    (hest : ∀ t, ¬ t < m.nT → l'.est t = (pertFwd m time l).est t)
    (heft : l'.eft = (pertFwd m time l).eft) :
    (pertFwd m time l').est = (pertFwd m time l).est ∧
    (pertFwd m time l').eft = (pertFwd m time l).eft := by
  have hfr := fwdLoop_frame m hwf l (m.nT + 1) (heads m) (fwdInit m time l)
    (fun i hi => (mem_heads m i hi).1)
  rw [← pertFwd_eq] at hfr
  apply pertFwd_congr m hr l l' time hrem
  · intro t ht
    rw [hest t ht, (hfr.1 t ht).1]
    show (if t < m.nT then time else l.est t) = _
    rw [if_neg ht]
  · intro j hc hnw
    have hkeep := eft_of_not_Wr l j _ _ hnw
    rw [← pertFwd_fold] at hkeep
    rw [heft, hkeep]
    show (if j < m.nT && (m.task j).inputs.isEmpty then time + l.rem j else l.eft j) = _
    rw [if_neg (by simpa using hc)]

/-- **`update_PERT_data` is idempotent on every state of an acyclic model**: links stay inside
the task list (`WF`) and some rank below `m.nT` increases along every output link. -/
theorem pert_idem_acyc (hwf : WF m) (hr : FwdRanked m) (time : Nat) (l : Live) :
    pert m time (pert m time l) = pert m time l := by
  apply pert_pert_of_out
  obtain ⟨fe, ff, fl, fL, fc⟩ := pert_fields m time l
  rw [pertBwd_eq] at fe ff fl fL fc
  have hb := bwdLoop_frame m hwf l (m.nT + 1) (tails m)
    (bwdInit m l (maxList l.cpl ((tails m).map (pertFwd m (time : Rat) l).eft)) (pertFwd m (time : Rat) l))
    (fun i hi => mem_tails m i hi)
  have hf := fwdLoop_frame m hwf l (m.nT + 1) (heads m) (fwdInit m time l)
    (fun i hi => (mem_heads m i hi).1)
  rw [← pertFwd_eq] at hf
  have hf' := fwdLoop_frame m hwf (pert m time l) (m.nT + 1) (heads m) (fwdInit m time (pert m time l))
    (fun i hi => (mem_heads m i hi).1)
  rw [← pertFwd_eq] at hf'
  -- the second forward pass
  have hfw := pertFwd_again_acyc m hwf hr l (pert m time l) (time : Rat) rfl
    (fun t _ => by rw [fe]; exact congrFun hb.2.1 t)
    (by rw [ff]; exact hb.2.2)
  -- the critical path length
  have hcpl : maxList (pert m time l).cpl ((tails m).map (pertFwd m (time : Rat) (pert m time l)).eft) =
      maxList l.cpl ((tails m).map (pertFwd m (time : Rat) l).eft) := by
    rw [hfw.2, fc]; exact maxList_idem _ _
  rw [pertBwd_eq, pertBwd_eq, hcpl, bwdLoop_rem m (show (pert m time l).rem = l.rem from rfl)]
  congr 2
  apply bwdInit_congr m l (pert m time l) _ _ _ rfl hfw.1 hfw.2
  intro t ht
  have hnt : (tails m).contains t = false := by
    rw [Bool.eq_false_iff]; intro hc
    exact ht (mem_tails m t (by simpa using hc))
  constructor
  · rw [hf'.2.1, hf.2.1]
    show (pert m time l).lst t = l.lst t
    rw [fl, (hb.1 t ht).1]
    show (if (tails m).contains t then _ else (if t < m.nT then _ else (pertFwd m (time : Rat) l).lst t)) = _
    rw [hnt, if_neg (by simp), if_neg ht, hf.2.1]; rfl
  · rw [hf'.2.2, hf.2.2]
    show (pert m time l).lft t = l.lft t
    rw [fL, (hb.1 t ht).2]
    show (if (tails m).contains t then _ else (if t < m.nT then _ else (pertFwd m (time : Rat) l).lft t)) = _
    rw [hnt, if_neg (by simp), if_neg ht, hf.2.2]; rfl

/-- the same for consistent link lists (`GraphOK`) without a cycle (`Acyclic`) -/
theorem pert_idem_of_acyclic (hok : PertSpec.GraphOK m) (hac : PertSpec.Acyclic m) (time : Nat)
    (l : Live) : pert m time (pert m time l) = pert m time l := by
  apply pert_idem_acyc m ?_ (fwdRanked_of hok hac)
  intro t ht
  exact ⟨fun e he => ((hok t ht).1 e he).1, fun e he => ((hok t ht).2 e he).1⟩

end again

end PertIdem
end PDesy
