/-
  PDesy.Lemmas.Place — helper lemmas for C13 (component placement respects location,
  capacity, conveyor and site rules).

  * `PlaceWF m`   : well-formedness of the static model (flat product, sizes and capacities
                    non-negative, task/component links consistent, facilities owned by the
                    workplace that lists them).
  * `PlaceInv m l`: the property proper — placement two-way consistent (hence at most one
                    workplace), capacity respected, facilities used on site.
  * `Inv m l`     : `PlaceInv` strengthened by what is needed to carry it through the phases.
  * preservation of `Inv` by every phase, by `update` and by `stepBody`;
  * the movement rules of one `allocate` pass (`MoveRules`, `allocate_moves`);
  * the removal rule of `chkRemove` (`chkRemove_removed`).
-/
import PDesy.Lemmas.Lifecycle
import PDesy.Lemmas.Sort

namespace PDesy
namespace Place

open Lifecycle

/-! ### definitions -/

/-- Well-formedness of the static model, as far as placement is concerned. -/
structure PlaceWF (m : Model) : Prop where
  /-- the product is flat: no component has a parent or a child -/
  flat : ∀ c, c < m.nC → (m.comp c).parents = [] ∧ (m.comp c).children = []
  /-- component sizes are non-negative -/
  size_nonneg : ∀ c, c < m.nC → 0 ≤ (m.comp c).size
  /-- workplace capacities are non-negative -/
  cap_nonneg : ∀ q, q < m.nWp → 0 ≤ (m.wp q).cap
  /-- the target component of a task is a component of the model -/
  comp_lt : ∀ t, t < m.nT → ∀ c, (m.task t).comp = some c → c < m.nC
  /-- … and lists the task among its tasks -/
  comp_tasks : ∀ t, t < m.nT → ∀ c, (m.task t).comp = some c → t ∈ (m.comp c).tasks
  /-- every facility belongs to the workplace that lists it -/
  fac_wp : ∀ q, q < m.nWp → ∀ f ∈ (m.wp q).facs, (m.fac f).wp = q

/-- The placement property on a live state. -/
structure PlaceInv (m : Model) (l : Live) : Prop where
  /-- a workplace lists a component exactly when the component reports being placed there -/
  two : ∀ c, c < m.nC → ∀ q, q < m.nWp → (c ∈ l.wpComps q ↔ l.placed c = some q)
  /-- a component is placed at a workplace of the model -/
  placed_lt : ∀ c, c < m.nC → ∀ q, l.placed c = some q → q < m.nWp
  /-- a workplace lists a component at most once -/
  nodup : ∀ q, q < m.nWp → (l.wpComps q).Nodup
  /-- a workplace lists components of the model only -/
  mem_lt : ∀ q, q < m.nWp → ∀ c ∈ l.wpComps q, c < m.nC
  /-- the space taken by the components placed at a workplace is within its capacity -/
  cap : ∀ q, q < m.nWp →
    sumList ((l.wpComps q).map fun c => (m.comp c).size) ≤ (m.wp q).cap
  /-- a facility held by a task belongs to (and is listed by) the workplace where the task's
  component is placed -/
  site : ∀ t, t < m.nT → ∀ f ∈ l.allocF t,
    ∃ c, (m.task t).comp = some c ∧ l.placed c = some (m.fac f).wp ∧
      f ∈ (m.wp (m.fac f).wp).facs

/-- The invariant carried through the loop: `PlaceInv` and three facts about held facilities. -/
structure Inv (m : Model) (l : Live) : Prop extends PlaceInv m l where
  /-- a FINISHED task holds no facility -/
  fin_noF : ∀ t, t < m.nT → l.tstate t = .finished → l.allocF t = []
  /-- a task that does not need a facility holds none -/
  nf_noF : ∀ t, t < m.nT → (m.task t).needFac = false → l.allocF t = []
  /-- a task that holds a facility also holds a worker (they are given in pairs) -/
  link : ∀ t, t < m.nT → l.allocF t ≠ [] → l.allocW t ≠ []

/-- a component is listed by at most one workplace -/
theorem PlaceInv.unique {m : Model} {l : Live} (h : PlaceInv m l) {c q1 q2 : Nat}
    (hc : c < m.nC) (h1 : q1 < m.nWp) (h2 : q2 < m.nWp)
    (m1 : c ∈ l.wpComps q1) (m2 : c ∈ l.wpComps q2) : q1 = q2 := by
  have e1 := (h.two c hc q1 h1).mp m1
  have e2 := (h.two c hc q2 h2).mp m2
  rw [e1] at e2; exact Option.some.inj e2

/-! ### sums -/

theorem sumList_append (xs ys : List Rat) : sumList (xs ++ ys) = sumList xs + sumList ys := by
  induction xs with
  | nil => simp only [List.nil_append, sumList]; grind
  | cons x xs ih => simp only [List.cons_append, sumList, ih]; grind

theorem sumList_map_erase (g : Nat → Rat) (c : Nat) (xs : List Nat) (h : c ∈ xs) :
    sumList ((xs.erase c).map g) = sumList (xs.map g) - g c := by
  induction xs with
  | nil => simp at h
  | cons x xs ih =>
    by_cases hx : x = c
    · subst hx; simp [sumList]; grind
    · have hc : c ∈ xs := by
        rcases List.mem_cons.mp h with h | h
        · exact absurd h.symm hx
        · exact h
      rw [List.erase_cons_tail (by simpa using hx)]
      simp only [List.map_cons, sumList, ih hc]; grind

theorem sumList_map_erase_le (g : Nat → Rat) (c : Nat) (xs : List Nat) (hg : 0 ≤ g c) :
    sumList ((xs.erase c).map g) ≤ sumList (xs.map g) := by
  by_cases h : c ∈ xs
  · rw [sumList_map_erase g c xs h]; grind
  · rw [List.erase_of_not_mem h]; exact Rat.le_refl

/-- erase-then-append keeps the sum when the element was present, adds it otherwise -/
theorem sumList_map_erase_append (g : Nat → Rat) (c : Nat) (xs : List Nat) :
    sumList (((xs.erase c) ++ [c]).map g) =
      if c ∈ xs then sumList (xs.map g) else sumList (xs.map g) + g c := by
  rw [List.map_append, sumList_append]
  simp only [List.map_cons, List.map_nil, sumList]
  split
  · rename_i h; rw [sumList_map_erase g c xs h]; grind
  · rename_i h; rw [List.erase_of_not_mem h]; grind

/-! ### a fold lemma with membership -/

theorem foldl_inv_mem {α β : Type} (f : β → α → β) (P : β → Prop) (xs : List α)
    (h : ∀ b a, a ∈ xs → P b → P (f b a)) (b : β) (hb : P b) : P (xs.foldl f b) := by
  induction xs generalizing b with
  | nil => exact hb
  | cons x xs ih =>
    rw [List.foldl_cons]
    exact ih (fun b a ha => h b a (List.mem_cons_of_mem _ ha)) _ (h b x List.mem_cons_self hb)

/-! ### the part of the live state the invariant reads -/

/-- placement and allocation fields -/
def core (l : Live) : (Nat → Option Nat) × (Nat → List Nat) × (Nat → List Nat) × (Nat → List Nat) :=
  (l.placed, l.wpComps, l.allocF, l.allocW)

theorem core_placed {l l' : Live} (h : core l' = core l) : l'.placed = l.placed :=
  congrArg Prod.fst h
theorem core_wpComps {l l' : Live} (h : core l' = core l) : l'.wpComps = l.wpComps :=
  congrArg (fun x => x.2.1) h
theorem core_allocF {l l' : Live} (h : core l' = core l) : l'.allocF = l.allocF :=
  congrArg (fun x => x.2.2.1) h
theorem core_allocW {l l' : Live} (h : core l' = core l) : l'.allocW = l.allocW :=
  congrArg (fun x => x.2.2.2) h

/-- `Inv` only reads `core` and which tasks are FINISHED; it survives any change that keeps
`core` and creates no FINISHED task. -/
theorem Inv.congr {m : Model} {l l' : Live} (h : Inv m l) (hc : core l' = core l)
    (ht : ∀ t, l'.tstate t = .finished → l.tstate t = .finished) : Inv m l' := by
  have e1 := core_placed hc
  have e2 := core_wpComps hc
  have e3 := core_allocF hc
  have e4 := core_allocW hc
  refine ⟨⟨?_, ?_, ?_, ?_, ?_, ?_⟩, ?_, ?_, ?_⟩
  · rw [e1, e2]; exact h.two
  · rw [e1]; exact h.placed_lt
  · rw [e2]; exact h.nodup
  · rw [e2]; exact h.mem_lt
  · rw [e2]; exact h.cap
  · rw [e1, e3]; exact h.site
  · rw [e3]; exact fun t ht' hf => h.fin_noF t ht' (ht t hf)
  · rw [e3]; exact h.nf_noF
  · rw [e3, e4]; exact h.link

theorem PlaceInv.congr {m : Model} {l l' : Live} (h : PlaceInv m l)
    (e1 : l'.placed = l.placed) (e2 : l'.wpComps = l.wpComps) (e3 : l'.allocF = l.allocF) :
    PlaceInv m l' := by
  refine ⟨?_, ?_, ?_, ?_, ?_, ?_⟩
  · rw [e1, e2]; exact h.two
  · rw [e1]; exact h.placed_lt
  · rw [e2]; exact h.nodup
  · rw [e2]; exact h.mem_lt
  · rw [e2]; exact h.cap
  · rw [e1, e3]; exact h.site

/-! ### phases that do not touch placement or allocation -/

section frame
variable (m : Model)

theorem Inv_compCheck {l : Live} (h : Inv m l) : Inv m (compCheck m l) :=
  h.congr rfl (fun _ ht => ht)

theorem Inv_pert (time : Nat) {l : Live} (h : Inv m l) : Inv m (pert m time l) :=
  h.congr rfl (fun _ ht => ht)

theorem Inv_absenceSet (time : Nat) (w : Bool) {l : Live} (h : Inv m l) :
    Inv m (absenceSet m time w l) :=
  h.congr rfl (fun _ ht => ht)

theorem Inv_perform (w a : Bool) {l : Live} (h : Inv m l) : Inv m (perform m w a l) :=
  h.congr rfl (fun _ ht => ht)

theorem Inv_chkReady {l : Live} (h : Inv m l) : Inv m (chkReady m l) := by
  refine h.congr rfl ?_
  intro t ht
  rw [chkReady_tstate] at ht
  split at ht
  · cases ht
  · exact ht

/-- `check_state(WORKING)` for one task keeps `core` -/
theorem startOne_core (l : Live) (t : Nat) : core (startOne m l t) = core l := by
  unfold startOne
  dsimp only
  split
  · split
    · refine foldl_proj_eq _ core ?_ _ _ _ ?_
      · intro _ _; rfl
      · refine foldl_proj_eq _ core ?_ _ _ _ rfl
        intro _ _; rfl
    · refine foldl_proj_eq _ core ?_ _ _ _ rfl
      intro _ _; rfl
  · split
    · refine foldl_proj_eq _ core ?_ _ _ _ rfl
      intro a w
      split
      · refine foldl_proj_eq _ core ?_ _ _ _ ?_
        · intro b f; split <;> rfl
        · split <;> rfl
      · split <;> rfl
    · rfl

theorem startOne_fin (l : Live) (t t' : Nat) (h : (startOne m l t).tstate t' = .finished) :
    l.tstate t' = .finished := by
  rw [startOne_tstate] at h
  split at h
  · rw [upd_apply] at h
    split at h
    · cases h
    · exact h
  · exact h

theorem chkWorking_core (l : Live) : core (chkWorking m l) = core l := by
  have := foldl_proj (startOne m) core (startOne_core m)
    ((List.range m.nT).filter (workingTarget m l)) l
  simpa [chkWorking, chkWorkingOrd, core] using this

theorem Inv_chkWorking {l : Live} (h : Inv m l) : Inv m (chkWorking m l) := by
  refine h.congr (chkWorking_core m l) ?_
  rw [chkWorking_tstate]
  exact foldl_rel (startOne m) (fun a b => ∀ t, b.tstate t = .finished → a.tstate t = .finished)
    (fun _ _ h => h) (fun _ _ _ h1 h2 t ht => h1 t (h2 t ht))
    (fun b a t ht => startOne_fin m b a t ht) _ l

end frame

/-! ### check_state(FINISHED) -/

section finished
variable (m : Model)

theorem releaseW_core (t : Nat) (l : Live) (w : Nat) : core (releaseW t l w) = core l := by
  unfold releaseW; split <;> rfl

theorem releaseF_core (t : Nat) (l : Live) (f : Nat) : core (releaseF t l f) = core l := by
  unfold releaseF; split <;> rfl

theorem releaseW_placed (t : Nat) (l : Live) (w : Nat) : (releaseW t l w).placed = l.placed :=
  core_placed (releaseW_core t l w)
theorem releaseW_wpComps (t : Nat) (l : Live) (w : Nat) : (releaseW t l w).wpComps = l.wpComps :=
  core_wpComps (releaseW_core t l w)
theorem releaseW_allocF (t : Nat) (l : Live) (w : Nat) : (releaseW t l w).allocF = l.allocF :=
  core_allocF (releaseW_core t l w)
theorem releaseW_allocW (t : Nat) (l : Live) (w : Nat) : (releaseW t l w).allocW = l.allocW :=
  core_allocW (releaseW_core t l w)
theorem releaseF_placed (t : Nat) (l : Live) (w : Nat) : (releaseF t l w).placed = l.placed :=
  core_placed (releaseF_core t l w)
theorem releaseF_wpComps (t : Nat) (l : Live) (w : Nat) : (releaseF t l w).wpComps = l.wpComps :=
  core_wpComps (releaseF_core t l w)
theorem releaseF_allocF (t : Nat) (l : Live) (w : Nat) : (releaseF t l w).allocF = l.allocF :=
  core_allocF (releaseF_core t l w)
theorem releaseF_allocW (t : Nat) (l : Live) (w : Nat) : (releaseF t l w).allocW = l.allocW :=
  core_allocW (releaseF_core t l w)

theorem finishOne_placed (l : Live) (t : Nat) : (finishOne m l t).placed = l.placed := by
  unfold finishOne
  simp only
  split
  · simp only [foldl_proj _ Live.placed (releaseF_placed t), foldl_proj _ Live.placed (releaseW_placed t)]
  · simp only [foldl_proj _ Live.placed (releaseW_placed t)]

theorem finishOne_wpComps (l : Live) (t : Nat) : (finishOne m l t).wpComps = l.wpComps := by
  unfold finishOne
  simp only
  split
  · simp only [foldl_proj _ Live.wpComps (releaseF_wpComps t),
      foldl_proj _ Live.wpComps (releaseW_wpComps t)]
  · simp only [foldl_proj _ Live.wpComps (releaseW_wpComps t)]

theorem finishOne_allocW (l : Live) (t : Nat) :
    (finishOne m l t).allocW = upd l.allocW t [] := by
  unfold finishOne
  simp only
  split
  · simp only [foldl_proj _ Live.allocW (releaseF_allocW t), foldl_proj _ Live.allocW (releaseW_allocW t)]
  · simp only [foldl_proj _ Live.allocW (releaseW_allocW t)]

theorem finishOne_allocF (l : Live) (t : Nat) :
    (finishOne m l t).allocF = if (m.task t).needFac then upd l.allocF t [] else l.allocF := by
  unfold finishOne
  simp only
  split
  · simp only [foldl_proj _ Live.allocF (releaseF_allocF t), foldl_proj _ Live.allocF (releaseW_allocF t)]
  · simp only [foldl_proj _ Live.allocF (releaseW_allocF t)]

theorem Inv_finishOne {l : Live} (h : Inv m l) (t : Nat) : Inv m (finishOne m l t) := by
  have eP := finishOne_placed m l t
  have eC := finishOne_wpComps m l t
  have eW := finishOne_allocW m l t
  have eF := finishOne_allocF m l t
  have eT := finishOne_tstate m l t
  -- the new facility list of any task is the old one or empty
  have hF : ∀ t', (finishOne m l t).allocF t' = l.allocF t' ∨ (finishOne m l t).allocF t' = [] := by
    intro t'; rw [eF]; split
    · rw [upd_apply]; split
      · exact Or.inr rfl
      · exact Or.inl rfl
    · exact Or.inl rfl
  -- … and the one of `t` is empty
  have hFt : t < m.nT → (finishOne m l t).allocF t = [] := by
    intro ht; rw [eF]; split
    · simp
    · rename_i hn; exact h.nf_noF t ht (by simpa using hn)
  refine ⟨⟨?_, ?_, ?_, ?_, ?_, ?_⟩, ?_, ?_, ?_⟩
  · rw [eP, eC]; exact h.two
  · rw [eP]; exact h.placed_lt
  · rw [eC]; exact h.nodup
  · rw [eC]; exact h.mem_lt
  · rw [eC]; exact h.cap
  · intro t' ht' f hf
    rw [eP]
    rcases hF t' with e | e
    · rw [e] at hf; exact h.site t' ht' f hf
    · rw [e] at hf; cases hf
  · intro t' ht' hfin
    rcases hF t' with e | e
    · by_cases htt : t' = t
      · subst htt; exact hFt ht'
      · rw [e]; apply h.fin_noF t' ht'
        rw [eT, upd_other _ _ _ _ htt] at hfin; exact hfin
    · exact e
  · intro t' ht' hn
    rcases hF t' with e | e
    · rw [e]; exact h.nf_noF t' ht' hn
    · exact e
  · intro t' ht' hne
    by_cases htt : t' = t
    · subst htt; exact absurd (hFt ht') hne
    · rw [eW, upd_other _ _ _ _ htt]
      rcases hF t' with e | e
      · rw [e] at hne; exact h.link t' ht' hne
      · exact absurd e hne

theorem Inv_finStep {l : Live} (h : Inv m l) (t : Nat) : Inv m (finStep m l t) := by
  unfold finStep; split
  · exact Inv_finishOne m h t
  · exact h

theorem Inv_finishPass (order : List Nat) {l : Live} (h : Inv m l) :
    Inv m (finishPass m order l) :=
  foldl_inv (finStep m) (Inv m) (fun _ a hb => Inv_finStep m hb a) order l h

theorem Inv_finishClosure (order : List Nat) (fuel : Nat) {l : Live} (h : Inv m l) :
    Inv m (finishClosure m order fuel l) := by
  induction fuel generalizing l with
  | zero => exact h
  | succ n ih =>
    simp only [finishClosure]
    split
    · exact Inv_finishPass m order h
    · exact ih (Inv_finishPass m order h)

theorem Inv_chkFinished {l : Live} (h : Inv m l) : Inv m (chkFinished m l) := by
  have h1 := Inv_finishClosure m (List.range m.nT) (m.nT + 1) h
  refine h1.congr ?_ ?_
  · simp [chkFinished, chkFinishedOrd, core]
  · intro t ht; simpa [chkFinished, chkFinishedOrd] using ht

end finished

/-! ### check_removing_placed_workplace -/

section remove
variable (m : Model)

/-- removing a component all of whose tasks are FINISHED keeps the invariant -/
theorem Inv_removeOne (wf : PlaceWF m) {l : Live} (h : Inv m l) (c : Nat) (hc : c < m.nC)
    (hfin : ∀ t ∈ (m.comp c).tasks, l.tstate t = .finished) : Inv m (removeOne l c) := by
  unfold removeOne
  split
  · exact h
  · rename_i p hpl
    have hp : p < m.nWp := h.placed_lt c hc p hpl
    refine ⟨⟨?_, ?_, ?_, ?_, ?_, ?_⟩, ?_, ?_, ?_⟩
    · intro c' hc' q hq
      show c' ∈ upd l.wpComps p ((l.wpComps p).erase c) q ↔ upd l.placed c Option.none c' = some q
      have h2 := h.two c' hc' q hq
      have hnd := h.nodup p hp
      rw [upd_apply, upd_apply]
      by_cases e1 : c' = c <;> by_cases e2 : q = p
      · subst e1; subst e2; simp [hnd.not_mem_erase]
      · subst e1; simp only [if_neg e2, if_true, reduceCtorEq, iff_false]
        rw [h2, hpl]; intro e; exact e2 (Option.some.inj e).symm
      · subst e2; rw [if_pos rfl, if_neg e1, ← h2, hnd.mem_erase_iff]; simp [e1]
      · rw [if_neg e1, if_neg e2]; exact h2
    · intro c' hc' q hq
      have hq' : upd l.placed c Option.none c' = some q := hq
      rw [upd_apply] at hq'
      split at hq'
      · cases hq'
      · exact h.placed_lt c' hc' q hq'
    · intro q hq
      show (upd l.wpComps p ((l.wpComps p).erase c) q).Nodup
      rw [upd_apply]; split
      · exact (h.nodup p hp).erase c
      · exact h.nodup q hq
    · intro q hq c' hc'
      have hc'' : c' ∈ upd l.wpComps p ((l.wpComps p).erase c) q := hc'
      rw [upd_apply] at hc''
      split at hc''
      · exact h.mem_lt p hp c' (List.mem_of_mem_erase hc'')
      · exact h.mem_lt q hq c' hc''
    · intro q hq
      show sumList ((upd l.wpComps p ((l.wpComps p).erase c) q).map fun c => (m.comp c).size)
        ≤ (m.wp q).cap
      rw [upd_apply]; split
      · rename_i e; subst e
        exact Rat.le_trans
          (sumList_map_erase_le (fun c => (m.comp c).size) c _ (wf.size_nonneg c hc)) (h.cap q hq)
      · exact h.cap q hq
    · intro t ht f hf
      obtain ⟨c', hc1, hc2, hc3⟩ := h.site t ht f hf
      refine ⟨c', hc1, ?_, hc3⟩
      show upd l.placed c Option.none c' = some (m.fac f).wp
      by_cases e : c' = c
      · exfalso
        subst e
        have := h.fin_noF t ht (hfin t (wf.comp_tasks t ht c' hc1))
        have hf' : f ∈ l.allocF t := hf
        rw [this] at hf'; cases hf'
      · rw [upd_other _ _ _ _ e]; exact hc2
    · exact h.fin_noF
    · exact h.nf_noF
    · exact h.link

theorem Inv_foldl_removeOne (wf : PlaceWF m) (cs : List Nat) {l : Live} (h : Inv m l)
    (hcs : ∀ c ∈ cs, c < m.nC ∧ ∀ t ∈ (m.comp c).tasks, l.tstate t = .finished) :
    Inv m (cs.foldl removeOne l) := by
  induction cs generalizing l with
  | nil => exact h
  | cons c cs ih =>
    rw [List.foldl_cons]
    obtain ⟨hc, hf⟩ := hcs c List.mem_cons_self
    refine ih (Inv_removeOne m wf h c hc hf) ?_
    intro c' hc'
    rw [removeOne_tstate]
    exact hcs c' (List.mem_cons_of_mem _ hc')

theorem Inv_chkRemove (wf : PlaceWF m) {l : Live} (h : Inv m l) : Inv m (chkRemove m l) := by
  have h1 : Inv m (((List.range m.nC).filter (removeCand m l)).foldl removeOne l) := by
    apply Inv_foldl_removeOne m wf _ h
    intro c hc
    rw [List.mem_filter, List.mem_range] at hc
    refine ⟨hc.1, ?_⟩
    have := hc.2
    simp only [removeCand, Bool.and_eq_true, List.all_eq_true, beq_iff_eq] at this
    exact this.1.2
  refine h1.congr ?_ ?_
  · simp [chkRemove, chkRemoveOrd, core]
  · intro t ht; simpa [chkRemove, chkRemoveOrd] using ht

/-! #### the removal rule -/

theorem removeOne_placed_self (l : Live) (c : Nat) : (removeOne l c).placed c = Option.none := by
  unfold removeOne
  split
  · assumption
  · simp

theorem removeOne_placed_none (l : Live) (c c' : Nat) (h : l.placed c' = Option.none) :
    (removeOne l c).placed c' = Option.none := by
  unfold removeOne
  split
  · exact h
  · show upd l.placed c Option.none c' = Option.none
    rw [upd_apply]; split
    · rfl
    · exact h

theorem foldl_removeOne_placed_none (cs : List Nat) (l : Live) (c' : Nat)
    (h : l.placed c' = Option.none) : (cs.foldl removeOne l).placed c' = Option.none := by
  induction cs generalizing l with
  | nil => exact h
  | cons c cs ih => rw [List.foldl_cons]; exact ih _ (removeOne_placed_none l c c' h)

theorem foldl_removeOne_placed_mem (cs : List Nat) (l : Live) (c' : Nat) (h : c' ∈ cs) :
    (cs.foldl removeOne l).placed c' = Option.none := by
  induction cs generalizing l with
  | nil => cases h
  | cons c cs ih =>
    rw [List.foldl_cons]
    rcases List.mem_cons.mp h with e | e
    · subst e; exact foldl_removeOne_placed_none cs _ _ (removeOne_placed_self l c')
    · exact ih _ e

/-- **Removal.** After `check_removing_placed_workplace`, a top-level component all of whose
tasks are FINISHED is not placed anywhere. -/
theorem chkRemove_removed (l : Live) (c : Nat) (hc : c < m.nC)
    (hpar : (m.comp c).parents = [])
    (hfin : ∀ t ∈ (m.comp c).tasks, (chkRemove m l).tstate t = .finished) :
    (chkRemove m l).placed c = Option.none := by
  rw [chkRemove_tstate] at hfin
  have : (chkRemove m l).placed =
      (((List.range m.nC).filter (removeCand m l)).foldl removeOne l).placed := by
    simp [chkRemove, chkRemoveOrd]
  rw [this]
  cases hpl : l.placed c with
  | none => exact foldl_removeOne_placed_none _ _ _ hpl
  | some p =>
    apply foldl_removeOne_placed_mem
    rw [List.mem_filter, List.mem_range]
    refine ⟨hc, ?_⟩
    simp only [removeCand, Bool.and_eq_true, List.all_eq_true, beq_iff_eq]
    exact ⟨⟨by simp [hpar], hfin⟩, by simp [hpl]⟩

end remove

/-! ### allocate: moving a component -/

section move
variable (m : Model)

/-- a component that `is_ready` has no WORKING task and none of its tasks holds a worker -/
theorem isReady_true {l : Live} {c : Nat} (h : isReady m l c = true) :
    ∀ t ∈ (m.comp c).tasks, l.tstate t ≠ .working ∧ l.allocW t = [] := by
  unfold isReady at h
  simp only at h
  split at h
  · cases h
  · simp only [Bool.and_eq_true, Bool.not_eq_true', List.any_eq_false, Bool.or_eq_true,
      beq_iff_eq, decide_eq_true_eq, not_or] at h
    intro t ht
    have := h.1.2 t ht
    refine ⟨this.1, ?_⟩
    have h2 := this.2
    cases hl : l.allocW t with
    | nil => rfl
    | cons a as => rw [hl] at h2; simp at h2

theorem placeOk_true {l : Live} {t c p : Nat} (h : placeOk m l t c p = true) :
    p < m.nWp ∧
    ((m.wp p).inputs ≠ [] →
      l.placed c = Option.none ∨ ∃ q0, l.placed c = some q0 ∧ q0 ∈ (m.wp p).inputs) ∧
    (m.comp c).size ≤ availSpace m l p := by
  unfold placeOk at h
  simp only [Bool.and_eq_true, Bool.or_eq_true, decide_eq_true_eq, List.isEmpty_iff] at h
  obtain ⟨⟨⟨h1, h2⟩, h3⟩, _⟩ := h
  refine ⟨h1, ?_, h3⟩
  intro hne
  rcases h2 with h2 | h2
  · exact absurd h2 hne
  · cases hpl : l.placed c with
    | none => exact Or.inl rfl
    | some q0 =>
      rw [hpl] at h2
      exact Or.inr ⟨q0, rfl, by simpa using h2⟩

/-- `placeStep` either does nothing or moves the task's (ready) component to a workplace that
passed `placeOk`; `placeMoves` names that component. -/
theorem placeStep_cases (t : Nat) (l : Live) :
    (placeMoves m t l = Option.none ∧ placeStep m t l = l) ∨
    (∃ c p, (m.task t).comp = some c ∧ isReady m l c = true ∧ placeOk m l t c p = true ∧
      placeMoves m t l = some c ∧ placeStep m t l = moveComp l c p) := by
  unfold placeMoves placeStep
  cases hc : (m.task t).comp with
  | none => exact Or.inl ⟨rfl, rfl⟩
  | some c =>
    dsimp only
    by_cases hr : isReady m l c = true
    · rw [if_pos hr, if_pos hr]
      cases hf : (sortWps m l (m.task t).wpRule (m.task t).name (m.task t).wps).find?
          (placeOk m l t c) with
      | none => exact Or.inl ⟨rfl, rfl⟩
      | some p =>
        exact Or.inr ⟨c, p, rfl, hr, List.find?_some hf, rfl, rfl⟩
    · rw [if_neg hr, if_neg hr]; exact Or.inl ⟨rfl, rfl⟩

theorem moveComp_placed (l : Live) (c p : Nat) :
    (moveComp l c p).placed = upd l.placed c (some p) := by
  unfold moveComp
  dsimp only
  split <;> split <;> rfl

theorem moveComp_allocF (l : Live) (c p : Nat) : (moveComp l c p).allocF = l.allocF := by
  unfold moveComp
  dsimp only
  split <;> split <;> rfl

theorem moveComp_allocW (l : Live) (c p : Nat) : (moveComp l c p).allocW = l.allocW := by
  unfold moveComp
  dsimp only
  split <;> split <;> rfl

theorem moveComp_tstate (l : Live) (c p : Nat) : (moveComp l c p).tstate = l.tstate :=
  congrArg Prod.fst (moveComp_tc l c p)

/-- the workplace lists after a move, under the two-way invariant: `c` is erased everywhere and
appended at `p` -/
theorem moveComp_wpComps {l : Live} (h : PlaceInv m l) {c p : Nat} (hc : c < m.nC)
    (hp : p < m.nWp) (q : Nat) (hq : q < m.nWp) :
    (moveComp l c p).wpComps q =
      if q = p then (l.wpComps p).erase c ++ [c] else (l.wpComps q).erase c := by
  have two := h.two c hc
  unfold moveComp
  cases hpl : l.placed c with
  | none =>
    have hnot : ∀ q', q' < m.nWp → c ∉ l.wpComps q' := by
      intro q' hq' hm; have := (two q' hq').mp hm; rw [hpl] at this; cases this
    have hcont : (l.wpComps p).contains c = false := by simpa using hnot p hp
    simp only [hcont, Bool.false_eq_true, if_false]
    rw [upd_apply]
    split
    · rename_i e; subst e
      rw [List.erase_of_not_mem (hnot q hq)]
    · rw [List.erase_of_not_mem (hnot q hq)]
  | some q0 =>
    have hq0 : q0 < m.nWp := h.placed_lt c hc q0 hpl
    have hnot : ∀ q', q' < m.nWp → q' ≠ q0 → c ∉ l.wpComps q' := by
      intro q' hq' hne hm; have := (two q' hq').mp hm; rw [hpl] at this
      exact hne (Option.some.inj this).symm
    have hnd := h.nodup q0 hq0
    have hcont : (upd l.wpComps q0 ((l.wpComps q0).erase c) p).contains c = false := by
      rw [upd_apply]; split
      · simpa using hnd.not_mem_erase
      · rename_i e; simpa using hnot p hp e
    simp only [hcont]
    by_cases e1 : q = p
    · subst e1
      simp only [Bool.false_eq_true, if_false, upd_same, if_true]
      rw [upd_apply]; split
      · rename_i e; subst e; rfl
      · rename_i e; rw [List.erase_of_not_mem (hnot q hq e)]
    · simp only [Bool.false_eq_true, if_false, if_neg e1, upd_other _ _ _ _ e1]
      rw [upd_apply]; split
      · rename_i e; subst e; rfl
      · rename_i e; rw [List.erase_of_not_mem (hnot q hq e)]

/-- moving a component whose tasks hold no facility to a workplace with enough free space
(measured before the component leaves its old place) keeps the invariant -/
theorem Inv_moveComp (wf : PlaceWF m) {l : Live} (h : Inv m l) {c p : Nat} (hc : c < m.nC)
    (hp : p < m.nWp) (hsp : (m.comp c).size ≤ availSpace m l p)
    (hnoF : ∀ t, t < m.nT → (m.task t).comp = some c → l.allocF t = []) :
    Inv m (moveComp l c p) := by
  have eP := moveComp_placed l c p
  have eF := moveComp_allocF l c p
  have eW := moveComp_allocW l c p
  have eT := moveComp_tstate l c p
  have eC := moveComp_wpComps m h.toPlaceInv hc hp
  refine ⟨⟨?_, ?_, ?_, ?_, ?_, ?_⟩, ?_, ?_, ?_⟩
  · intro c' hc' q hq
    have h2 := h.two c' hc' q hq
    rw [eC q hq, eP, upd_apply]
    by_cases e1 : c' = c <;> by_cases e2 : q = p
    · subst e1; subst e2; simp
    · subst e1
      simp only [if_neg e2, if_true, Option.some.injEq]
      rw [(h.nodup q hq).mem_erase_iff]
      constructor
      · intro hh; exact absurd rfl hh.1
      · intro hh; exact absurd hh.symm e2
    · subst e2
      simp only [if_true, List.mem_append, List.mem_singleton, e1, or_false]
      rw [(h.nodup q hq).mem_erase_iff]; simp [e1, h2]
    · simp only [if_neg e1, if_neg e2]
      rw [(h.nodup q hq).mem_erase_iff]; simp [e1, h2]
  · intro c' hc' q hq
    rw [eP, upd_apply] at hq
    split at hq
    · cases hq; exact hp
    · exact h.placed_lt c' hc' q hq
  · intro q hq
    rw [eC q hq]
    split
    · rename_i e; subst e
      rw [List.nodup_append]
      refine ⟨(h.nodup q hq).erase c, by simp, ?_⟩
      intro a ha b hb
      rw [List.mem_singleton] at hb; subst hb
      intro e; subst e
      exact (h.nodup q hq).not_mem_erase ha
    · exact (h.nodup q hq).erase c
  · intro q hq c' hc'
    rw [eC q hq] at hc'
    split at hc'
    · rename_i e; subst e
      rcases List.mem_append.mp hc' with hm | hm
      · exact h.mem_lt q hq c' (List.mem_of_mem_erase hm)
      · rw [List.mem_singleton] at hm; subst hm; exact hc
    · exact h.mem_lt q hq c' (List.mem_of_mem_erase hc')
  · intro q hq
    rw [eC q hq]
    split
    · rename_i e; subst e
      rw [sumList_map_erase_append (fun c => (m.comp c).size) c (l.wpComps q)]
      split
      · exact h.cap q hq
      · unfold availSpace at hsp; grind
    · exact Rat.le_trans
        (sumList_map_erase_le (fun c => (m.comp c).size) c _ (wf.size_nonneg c hc)) (h.cap q hq)
  · intro t ht f hf
    rw [eF] at hf
    obtain ⟨c', hc1, hc2, hc3⟩ := h.site t ht f hf
    refine ⟨c', hc1, ?_, hc3⟩
    rw [eP]
    by_cases e : c' = c
    · exfalso; subst e
      rw [hnoF t ht hc1] at hf; cases hf
    · rw [upd_other _ _ _ _ e]; exact hc2
  · rw [eT, eF]; exact h.fin_noF
  · rw [eF]; exact h.nf_noF
  · rw [eF, eW]; exact h.link

/-- step 3-1 keeps the invariant -/
theorem Inv_placeStep (wf : PlaceWF m) {l : Live} (h : Inv m l) (t : Nat) (ht : t < m.nT) :
    Inv m (placeStep m t l) := by
  rcases placeStep_cases m t l with ⟨_, e⟩ | ⟨c, p, hcomp, hr, hok, _, e⟩
  · rw [e]; exact h
  · rw [e]
    have hc := wf.comp_lt t ht c hcomp
    obtain ⟨hp, _, hsp⟩ := placeOk_true m hok
    refine Inv_moveComp m wf h hc hp hsp ?_
    intro t' ht' hcomp'
    have hW := (isReady_true m hr t' (wf.comp_tasks t' ht' c hcomp')).2
    cases hF : l.allocF t' with
    | nil => rfl
    | cons a as =>
      exact absurd hW (h.link t' ht' (by rw [hF]; simp))

end move

/-! ### allocate: giving resources -/

section give
variable (m : Model)

theorem Inv_giveW {l : Live} (h : Inv m l) (t w : Nat) : Inv m (giveW l t w) := by
  refine ⟨h.toPlaceInv.congr rfl rfl rfl, h.fin_noF, h.nf_noF, ?_⟩
  intro t' ht' hne
  show upd l.allocW t (l.allocW t ++ [w]) t' ≠ []
  rw [upd_apply]; split
  · simp
  · exact h.link t' ht' hne

/-- giving facility `f` of the workplace where the task's component is placed -/
theorem Inv_giveF (wf : PlaceWF m) {l : Live} (h : Inv m l) (t f c p : Nat)
    (hcomp : (m.task t).comp = some c) (hpl : l.placed c = some p) (hp : p < m.nWp)
    (hf : f ∈ (m.wp p).facs) (hnf : (m.task t).needFac = true)
    (hts : l.tstate t ≠ .finished) (hW : l.allocW t ≠ []) : Inv m (giveF l t f) := by
  have hmem : ∀ t' f', f' ∈ (giveF l t f).allocF t' → f' ∈ l.allocF t' ∨ (t' = t ∧ f' = f) := by
    intro t' f' hm
    have hm' : f' ∈ upd l.allocF t (l.allocF t ++ [f]) t' := hm
    rw [upd_apply] at hm'
    split at hm'
    · rename_i e; subst e
      rcases List.mem_append.mp hm' with hh | hh
      · exact Or.inl hh
      · exact Or.inr ⟨rfl, by simpa using hh⟩
    · exact Or.inl hm'
  have hother : ∀ t', t' ≠ t → (giveF l t f).allocF t' = l.allocF t' := by
    intro t' e
    show upd l.allocF t (l.allocF t ++ [f]) t' = l.allocF t'
    rw [upd_other _ _ _ _ e]
  refine ⟨⟨h.two, h.placed_lt, h.nodup, h.mem_lt, h.cap, ?_⟩, ?_, ?_, ?_⟩
  · intro t' ht' f' hf'
    rcases hmem t' f' hf' with hh | ⟨e1, e2⟩
    · exact h.site t' ht' f' hh
    · subst e1; subst e2
      have e := wf.fac_wp p hp f' hf
      exact ⟨c, hcomp, by rw [e]; exact hpl, by rw [e]; exact hf⟩
  · intro t' ht' hfin
    by_cases e : t' = t
    · subst e; exact absurd hfin hts
    · rw [hother t' e]; exact h.fin_noF t' ht' hfin
  · intro t' ht' hn
    by_cases e : t' = t
    · subst e; rw [hnf] at hn; cases hn
    · rw [hother t' e]; exact h.nf_noF t' ht' hn
  · intro t' ht' hne
    by_cases e : t' = t
    · subst e; exact hW
    · rw [hother t' e] at hne; exact h.link t' ht' hne

theorem giveW_allocW_ne (l : Live) (t w : Nat) : (giveW l t w).allocW t ≠ [] := by
  show upd l.allocW t (l.allocW t ++ [w]) t ≠ []
  simp

theorem canAdd_not_finished {l : Live} {t : Nat} {w f : Option Nat}
    (h : canAdd m l t w f = true) : l.tstate t ≠ .finished := by
  unfold canAdd at h
  split at h
  · cases h
  · rename_i hh
    intro e; rw [e] at hh; simp at hh

/-- step 3-2 without facility keeps the invariant -/
theorem Inv_allocWorkers (t : Nat) {a : Alloc} (h : Inv m a.l) : Inv m (allocWorkers m t a).l := by
  unfold allocWorkers
  refine foldl_inv _ (fun x : Alloc => Inv m x.l) ?_ _ _ h
  intro b w hb
  split
  · exact Inv_giveW m hb t w
  · exact hb

theorem allocWorkers_placed (t : Nat) (a : Alloc) :
    (allocWorkers m t a).l.placed = a.l.placed ∧ (allocWorkers m t a).moved = a.moved := by
  unfold allocWorkers
  refine foldl_proj_eq _ (fun x : Alloc => (x.l.placed, x.moved)) ?_ _ _ _ rfl |> fun h =>
    ⟨congrArg Prod.fst h, congrArg Prod.snd h⟩
  intro b w
  split <;> rfl

/-- step 3-2 with facility keeps the invariant -/
theorem Inv_allocPairs (wf : PlaceWF m) (t : Nat) (ht : t < m.nT)
    (hnf : (m.task t).needFac = true) {a : Alloc} (h : Inv m a.l) :
    Inv m (allocPairs m t a).l := by
  unfold allocPairs
  split
  · exact h
  · rename_i c hcomp
    split
    · exact h
    · rename_i p hpl
      have hc := wf.comp_lt t ht c hcomp
      have hp := h.placed_lt c hc p hpl
      refine (foldl_inv_mem _ (fun x : Alloc => Inv m x.l ∧ x.l.placed c = some p) _ ?_ a
        ⟨h, hpl⟩).1
      intro b f hf hb
      obtain ⟨hb1, hb2⟩ := hb
      have hf' : f ∈ (m.wp p).facs := by
        have h1 := (List.mem_filter.mp hf).1
        rw [Sort.mem_sortFacs] at h1
        exact (List.mem_filter.mp h1).1
      dsimp only
      split
      · exact ⟨hb1, hb2⟩
      · rename_i w ws hsort
        have hw : w ∈ sortWorkers m (m.task t).wRule (m.task t).name (some p)
            (b.free.filter fun w => hasSkill (m.worker w).skills (m.task t).name &&
              teamTargets m w t && canAdd m b.l t (some w) (some f)) := by
          rw [hsort]; exact List.mem_cons_self
        rw [Sort.mem_sortWorkers, List.mem_filter] at hw
        have hcan := hw.2
        simp only [Bool.and_eq_true] at hcan
        have hts := canAdd_not_finished m hcan.2
        refine ⟨Inv_giveF m wf (Inv_giveW m hb1 t w) t f c p hcomp hb2 hp hf' hnf hts
          (giveW_allocW_ne b.l t w), hb2⟩

theorem allocPairs_placed (t : Nat) (a : Alloc) :
    (allocPairs m t a).l.placed = a.l.placed ∧ (allocPairs m t a).moved = a.moved := by
  unfold allocPairs
  split
  · exact ⟨rfl, rfl⟩
  · split
    · exact ⟨rfl, rfl⟩
    · refine foldl_proj_eq _ (fun x : Alloc => (x.l.placed, x.moved)) ?_ _ _ _ rfl |> fun h =>
        ⟨congrArg Prod.fst h, congrArg Prod.snd h⟩
      intro b f
      dsimp only
      split <;> rfl

end give

/-! ### allocate: one task, the whole pass -/

section pass
variable (m : Model)

theorem Inv_allocTail (wf : PlaceWF m) (t : Nat) (ht : t < m.nT) (a1 : Alloc) (h : Inv m a1.l) :
    Inv m (if (m.task t).isAuto then a1
      else if (m.task t).needFac then allocPairs m t a1 else allocWorkers m t a1).l := by
  split
  · exact h
  · split
    · rename_i hnf; exact Inv_allocPairs m wf t ht hnf h
    · exact Inv_allocWorkers m t h

theorem Inv_allocHead (wf : PlaceWF m) (t : Nat) (ht : t < m.nT) (acc : Alloc) (h : Inv m acc.l)
    (b : Bool) (mv : List Nat) :
    Inv m (if b then acc else { acc with l := placeStep m t acc.l, moved := mv }).l := by
  cases b
  · exact Inv_placeStep m wf h t ht
  · exact h

theorem Inv_allocTask (wf : PlaceWF m) (acc : Alloc) (t : Nat) (ht : t < m.nT)
    (h : Inv m acc.l) : Inv m (allocTask m acc t).l := by
  unfold allocTask
  dsimp only
  apply Inv_allocTail m wf t ht
  exact Inv_allocHead m wf t ht acc h _ _

/-- `__allocate` keeps the invariant -/
theorem Inv_allocate (wf : PlaceWF m) (lg : Logs) (rule : TaskRule) {l : Live} (h : Inv m l) :
    Inv m (allocate m lg rule l) := by
  have h1 : Inv m ((sortTasks m l lg rule ((List.range m.nT).filter fun t =>
      l.tstate t == .ready || l.tstate t == .working)).foldl (allocTask m)
        { l := l, free := (List.range m.nW).filter fun w => l.wstate w == .free }).l := by
    refine foldl_inv_mem (allocTask m) (fun x : Alloc => Inv m x.l) _ ?_ _ h
    intro b t ht hb
    rw [Sort.mem_sortTasks, List.mem_filter, List.mem_range] at ht
    exact Inv_allocTask m wf b t ht.1 hb
  refine h1.congr ?_ ?_
  · simp [allocate, core]
  · intro t ht; simpa [allocate] using ht

/-! #### movement rules -/

/-- "component `c`, placed at `before` when the pass started, has been moved in a way that
respects the rules, and is at `now`": none of its tasks is WORKING, it is at a workplace of the
model, and if that workplace declares input workplaces it came from one of them or from nowhere. -/
def MovedOk (m : Model) (l0 : Live) (c : Nat) (now : Option Nat) : Prop :=
  (∀ t ∈ (m.comp c).tasks, l0.tstate t ≠ .working) ∧
  ∃ q, now = some q ∧ q < m.nWp ∧
    ((m.wp q).inputs ≠ [] →
      l0.placed c = Option.none ∨ ∃ q0, l0.placed c = some q0 ∧ q0 ∈ (m.wp q).inputs)

/-- what an allocation pass started from `l0` has done so far to the placement -/
structure MoveInv (m : Model) (l0 : Live) (acc : Alloc) : Prop where
  ts : acc.l.tstate = l0.tstate
  nodup : acc.moved.Nodup
  same : ∀ c, c ∉ acc.moved → acc.l.placed c = l0.placed c
  ok : ∀ c ∈ acc.moved, MovedOk m l0 c (acc.l.placed c)

theorem MoveInv.congr {l0 : Live} {a b : Alloc} (h : MoveInv m l0 a)
    (e1 : b.l.tstate = a.l.tstate) (e2 : b.l.placed = a.l.placed) (e3 : b.moved = a.moved) :
    MoveInv m l0 b := by
  refine ⟨?_, ?_, ?_, ?_⟩
  · rw [e1]; exact h.ts
  · rw [e3]; exact h.nodup
  · rw [e2, e3]; exact h.same
  · rw [e2, e3]; exact h.ok

/-- the once-per-pass guard of `allocTask`: the task's component has already moved -/
def skipB (m : Model) (acc : Alloc) (t : Nat) : Bool :=
  match (m.task t).comp with
  | some c => acc.moved.contains c
  | Option.none => false

/-- the components `allocTask m acc t` moves (none or one) -/
def stepMoves (m : Model) (acc : Alloc) (t : Nat) : List Nat :=
  if skipB m acc t then [] else (placeMoves m t acc.l).toList

/-- Ghost function: the components for which a move is executed while the allocation loop runs
over the tasks `ts` from accumulator `acc`, in order.  It mirrors `allocTask`: a move is executed
for task `t` exactly when the task is not skipped and `placeMoves` names a component. -/
def movesOf (m : Model) : Alloc → List Nat → List Nat
  | _, [] => []
  | acc, t :: ts => stepMoves m acc t ++ movesOf m (allocTask m acc t) ts

theorem allocTail_proj (t : Nat) (a1 : Alloc) :
    let r := (if (m.task t).isAuto then a1
      else if (m.task t).needFac then allocPairs m t a1 else allocWorkers m t a1)
    r.l.tstate = a1.l.tstate ∧ r.l.placed = a1.l.placed ∧ r.moved = a1.moved := by
  dsimp only
  split
  · exact ⟨rfl, rfl, rfl⟩
  · split
    · exact ⟨congrArg Prod.fst (allocPairs_tc m t a1), (allocPairs_placed m t a1).1,
        (allocPairs_placed m t a1).2⟩
    · exact ⟨congrArg Prod.fst (allocWorkers_tc m t a1), (allocWorkers_placed m t a1).1,
        (allocWorkers_placed m t a1).2⟩

/-- the head of `allocTask` (step 3-1 with the once-per-pass guard) -/
def allocHead (m : Model) (acc : Alloc) (t : Nat) : Alloc :=
  if skipB m acc t then acc
  else { acc with l := placeStep m t acc.l,
                  moved := match placeMoves m t acc.l with
                    | some c => acc.moved ++ [c]
                    | Option.none => acc.moved }

theorem allocTask_eq (acc : Alloc) (t : Nat) :
    allocTask m acc t =
      (if (m.task t).isAuto then allocHead m acc t
       else if (m.task t).needFac then allocPairs m t (allocHead m acc t)
       else allocWorkers m t (allocHead m acc t)) := rfl

theorem allocTask_proj (acc : Alloc) (t : Nat) :
    (allocTask m acc t).l.tstate = (allocHead m acc t).l.tstate ∧
    (allocTask m acc t).l.placed = (allocHead m acc t).l.placed ∧
    (allocTask m acc t).moved = (allocHead m acc t).moved := by
  rw [allocTask_eq]; exact allocTail_proj m t _

theorem allocHead_moved (acc : Alloc) (t : Nat) :
    (allocHead m acc t).moved = acc.moved ++ stepMoves m acc t := by
  unfold allocHead stepMoves
  by_cases hs : skipB m acc t = true
  · rw [if_pos hs, if_pos hs]; simp
  · rw [if_neg hs, if_neg hs]
    cases placeMoves m t acc.l <;> simp

theorem allocTask_moved (acc : Alloc) (t : Nat) :
    (allocTask m acc t).moved = acc.moved ++ stepMoves m acc t := by
  rw [(allocTask_proj m acc t).2.2, allocHead_moved]

/-- the `moved` list of the model is the ghost list -/
theorem foldl_allocTask_moved (ts : List Nat) (acc : Alloc) :
    (ts.foldl (allocTask m) acc).moved = acc.moved ++ movesOf m acc ts := by
  induction ts generalizing acc with
  | nil => simp [movesOf]
  | cons t ts ih =>
    rw [List.foldl_cons, ih, allocTask_moved, movesOf, List.append_assoc]

theorem MoveInv_allocHead {l0 : Live} {acc : Alloc} (h : MoveInv m l0 acc) (t : Nat) :
    MoveInv m l0 (allocHead m acc t) := by
  unfold allocHead
  by_cases hskip : skipB m acc t = true
  · rw [if_pos hskip]; exact h
  · rw [if_neg hskip]
    rcases placeStep_cases m t acc.l with ⟨e1, e2⟩ | ⟨c, p, hcomp, hr, hok, e1, e2⟩
    · rw [e1, e2]; exact h
    · rw [e1, e2]
      dsimp only
      have hcm : c ∉ acc.moved := by
        unfold skipB at hskip
        rw [hcomp] at hskip
        simpa using hskip
      obtain ⟨hp, hconv, _⟩ := placeOk_true m hok
      refine ⟨?_, ?_, ?_, ?_⟩
      · show (moveComp acc.l c p).tstate = l0.tstate
        rw [moveComp_tstate]; exact h.ts
      · show (acc.moved ++ [c]).Nodup
        rw [List.nodup_append]
        refine ⟨h.nodup, by simp, ?_⟩
        intro a ha b hb
        rw [List.mem_singleton] at hb; subst hb
        intro e; subst e; exact hcm ha
      · intro c' hc'
        have hc'' : c' ∉ acc.moved ++ [c] := hc'
        rw [List.mem_append, List.mem_singleton, not_or] at hc''
        show (moveComp acc.l c p).placed c' = l0.placed c'
        rw [moveComp_placed, upd_other _ _ _ _ hc''.2]
        exact h.same c' hc''.1
      · intro c' hc'
        have hc'' : c' ∈ acc.moved ++ [c] := hc'
        show MovedOk m l0 c' ((moveComp acc.l c p).placed c')
        rw [moveComp_placed]
        rw [List.mem_append, List.mem_singleton] at hc''
        by_cases e : c' = c
        · subst e
          rw [upd_same]
          refine ⟨?_, p, rfl, hp, ?_⟩
          · intro t' ht'
            rw [← h.ts]; exact (isReady_true m hr t' ht').1
          · rw [← h.same c' hcm]; exact hconv
        · rw [upd_other _ _ _ _ e]
          rcases hc'' with hh | hh
          · exact h.ok c' hh
          · exact absurd hh e

theorem MoveInv_allocTask {l0 : Live} {acc : Alloc} (h : MoveInv m l0 acc) (t : Nat) :
    MoveInv m l0 (allocTask m acc t) := by
  obtain ⟨e1, e2, e3⟩ := allocTask_proj m acc t
  exact (MoveInv_allocHead m h t).congr m e1 e2 e3

/-- the components moved by one `__allocate` pass, in the order in which they were moved -/
def passMoves (m : Model) (lg : Logs) (rule : TaskRule) (l : Live) : List Nat :=
  movesOf m { l := l, free := (List.range m.nW).filter fun w => l.wstate w == .free }
    (sortTasks m l lg rule ((List.range m.nT).filter fun t =>
      l.tstate t == .ready || l.tstate t == .working))

/-- **Movement rules of one allocation pass.**  No component is moved twice; a component whose
placement changed was moved; every moved component had no WORKING task, ends at a workplace of
the model, and entered a workplace with declared inputs only from one of them or from nowhere. -/
theorem allocate_moves (lg : Logs) (rule : TaskRule) (l : Live) :
    (passMoves m lg rule l).Nodup ∧
    (∀ c, (allocate m lg rule l).placed c ≠ l.placed c → c ∈ passMoves m lg rule l) ∧
    (∀ c ∈ passMoves m lg rule l, MovedOk m l c ((allocate m lg rule l).placed c)) := by
  have h0 : MoveInv m l { l := l, free := (List.range m.nW).filter fun w => l.wstate w == .free } :=
    ⟨rfl, List.nodup_nil, fun _ _ => rfl, fun _ hc => by cases hc⟩
  have h1 := foldl_inv (allocTask m) (MoveInv m l) (fun b a hb => MoveInv_allocTask m hb a)
    (sortTasks m l lg rule ((List.range m.nT).filter fun t =>
      l.tstate t == .ready || l.tstate t == .working)) _ h0
  have hm := foldl_allocTask_moved m (sortTasks m l lg rule ((List.range m.nT).filter fun t =>
      l.tstate t == .ready || l.tstate t == .working))
      { l := l, free := (List.range m.nW).filter fun w => l.wstate w == .free }
  simp only [List.nil_append] at hm
  have hpl : (allocate m lg rule l).placed = ((sortTasks m l lg rule ((List.range m.nT).filter
      fun t => l.tstate t == .ready || l.tstate t == .working)).foldl (allocTask m)
      { l := l, free := (List.range m.nW).filter fun w => l.wstate w == .free }).l.placed := by
    simp [allocate]
  unfold passMoves
  rw [hpl, ← hm]
  refine ⟨h1.nodup, ?_, h1.ok⟩
  intro c hne
  exact Classical.byContradiction fun hc => hne (h1.same c hc)

end pass

/-! ### `__update`, one loop step, `initialize` -/

section blocks
variable (m : Model)

theorem Inv_update (wf : PlaceWF m) (time : Nat) {l : Live} (h : Inv m l) :
    Inv m (update m time l) := by
  unfold update
  apply Inv_pert
  apply Inv_compCheck
  apply Inv_chkReady
  apply Inv_chkRemove m wf
  apply Inv_compCheck
  exact Inv_chkFinished m h

theorem Inv_updated (wf : PlaceWF m) (s : St) (h : Inv m s.live) : Inv m (updated m s).live :=
  Inv_update m wf s.time h

theorem Inv_preWorking (wf : PlaceWF m) (p : Params) (s : St) (h : Inv m s.live) :
    Inv m (preWorking m p s) := by
  unfold preWorking
  split
  · exact Inv_allocate m wf _ _ (Inv_absenceSet m _ _ h)
  · exact Inv_absenceSet m _ _ h

theorem Inv_stepBody (wf : PlaceWF m) (p : Params) (s : St) (h : Inv m s.live) :
    Inv m (stepBody m p s).live := by
  rw [stepBody_live]
  apply Inv_perform
  apply Inv_compCheck
  cases startGuard p s
  · exact Inv_preWorking m wf p s h
  · apply Inv_chkWorking
    exact Inv_preWorking m wf p s h

theorem initProject_placed (logInfo : Bool) (s : St) (c : Nat) (hc : c < m.nC) :
    (initProject m true logInfo s).live.placed c = Option.none := by
  rw [initProject_live]
  simp [initComps, compCheck, hc]

theorem initProject_wpComps (logInfo : Bool) (s : St) (q : Nat) (hq : q < m.nWp) :
    (initProject m true logInfo s).live.wpComps q = [] := by
  rw [initProject_live]
  simp [initComps, compCheck, chkReady, pert, initLive, hq]

theorem initProject_allocF (logInfo : Bool) (s : St) (t : Nat) (ht : t < m.nT) :
    (initProject m true logInfo s).live.allocF t = [] := by
  rw [initProject_live]
  simp [initComps, compCheck, chkReady, pert, initLive, ht]

/-- after `initialize(state_info=True)` nothing is placed and no facility is held -/
theorem Inv_initProject (wf : PlaceWF m) (logInfo : Bool) (s : St) :
    Inv m (initProject m true logInfo s).live := by
  refine ⟨⟨?_, ?_, ?_, ?_, ?_, ?_⟩, ?_, ?_, ?_⟩
  · intro c hc q hq
    rw [initProject_placed m logInfo s c hc, initProject_wpComps m logInfo s q hq]; simp
  · intro c hc q hq
    rw [initProject_placed m logInfo s c hc] at hq; cases hq
  · intro q hq; rw [initProject_wpComps m logInfo s q hq]; exact List.nodup_nil
  · intro q hq c hc; rw [initProject_wpComps m logInfo s q hq] at hc; cases hc
  · intro q hq; rw [initProject_wpComps m logInfo s q hq]; exact wf.cap_nonneg q hq
  · intro t ht f hf; rw [initProject_allocF m logInfo s t ht] at hf; cases hf
  · intro t ht _; exact initProject_allocF m logInfo s t ht
  · intro t ht _; exact initProject_allocF m logInfo s t ht
  · intro t ht hne; exact absurd (initProject_allocF m logInfo s t ht) hne

end blocks

/-! ### removal and movement at the level of `__update` / one step -/

section steps
variable (m : Model)

/-- after `__update`, a top-level component all of whose tasks are FINISHED is not placed -/
theorem update_removed (time : Nat) (l : Live) (c : Nat) (hc : c < m.nC)
    (hpar : (m.comp c).parents = [])
    (hfin : ∀ t ∈ (m.comp c).tasks, (update m time l).tstate t = .finished) :
    (update m time l).placed c = Option.none := by
  have hpl : (update m time l).placed =
      (chkRemove m (compCheck m (chkFinished m l))).placed := rfl
  rw [hpl]
  apply chkRemove_removed m _ c hc hpar
  intro t ht
  have h := hfin t ht
  rw [update_tstate, chkReady_tstate] at h
  split at h
  · cases h
  · exact h

/-- every `updated` state of the loop is the result of an `__update` -/
theorem updTrace_mem_updated (p : Params) :
    ∀ fuel s, ∀ s' ∈ updTrace m p fuel s, ∃ s1, s' = updated m s1 := by
  intro fuel
  induction fuel with
  | zero => intro s s' h; simp [updTrace] at h
  | succ n ih =>
    intro s s' h
    simp only [updTrace] at h
    split at h
    · simp at h; exact ⟨s, h⟩
    · rcases List.mem_cons.mp h with h | h
      · exact ⟨s, h⟩
      · exact ih _ _ h

theorem stepBody_placed (p : Params) (s : St) :
    (stepBody m p s).live.placed = (preWorking m p s).placed := by
  rw [stepBody_live]
  cases startGuard p s
  · rfl
  · exact core_placed (chkWorking_core m (preWorking m p s))

/-- **Movement rules of one step.**  A component whose placement differs before and after a
step was moved by the step's allocation pass (so the step is a working step), exactly once, and
according to the rules `MovedOk`. -/
theorem stepBody_moves (p : Params) (s : St) (c : Nat)
    (h : (stepBody m p s).live.placed c ≠ s.live.placed c) :
    workingAt p s.time = true ∧
    c ∈ passMoves m s.logs p.rule (absenceSet m s.time true s.live) ∧
    (passMoves m s.logs p.rule (absenceSet m s.time true s.live)).Nodup ∧
    MovedOk m s.live c ((stepBody m p s).live.placed c) := by
  rw [stepBody_placed] at h ⊢
  unfold preWorking at h ⊢
  by_cases hw : (!(p.absence.contains s.time)) = true
  · rw [if_pos hw] at h ⊢
    rw [hw] at h ⊢
    obtain ⟨h1, h2, h3⟩ := allocate_moves m s.logs p.rule (absenceSet m s.time true s.live)
    exact ⟨hw, h2 c h, h1, h3 c (h2 c h)⟩
  · rw [if_neg hw] at h
    exact absurd rfl h

end steps

/-! ### a checker for `PlaceWF` -/

/-- executable form of `PlaceWF` -/
def placeWFb (m : Model) : Bool :=
  ((List.range m.nC).all fun c =>
    (m.comp c).parents.isEmpty && (m.comp c).children.isEmpty && decide (0 ≤ (m.comp c).size)) &&
  ((List.range m.nWp).all fun q =>
    decide (0 ≤ (m.wp q).cap) && (m.wp q).facs.all fun f => (m.fac f).wp == q) &&
  ((List.range m.nT).all fun t =>
    match (m.task t).comp with
    | some c => decide (c < m.nC) && (m.comp c).tasks.contains t
    | Option.none => true)

theorem placeWF_of_b {m : Model} (h : placeWFb m = true) : PlaceWF m := by
  unfold placeWFb at h
  simp only [Bool.and_eq_true, List.all_eq_true, List.mem_range, decide_eq_true_eq,
    List.isEmpty_iff, beq_iff_eq] at h
  obtain ⟨⟨h1, h2⟩, h3⟩ := h
  refine ⟨?_, ?_, ?_, ?_, ?_, ?_⟩
  · intro c hc; exact ⟨(h1 c hc).1.1, (h1 c hc).1.2⟩
  · intro c hc; exact (h1 c hc).2
  · intro q hq; exact (h2 q hq).1
  · intro t ht c hcomp
    have := h3 t ht; rw [hcomp] at this
    simp only [Bool.and_eq_true, decide_eq_true_eq] at this
    exact this.1
  · intro t ht c hcomp
    have := h3 t ht; rw [hcomp] at this
    simp only [Bool.and_eq_true, decide_eq_true_eq] at this
    simpa using this.2
  · intro q hq f hf; exact (h2 q hq).2 f hf

/-! ### a small concrete model for the `example`s of C13 -/

/-- Two workplaces on a conveyor (`1` takes components only from `0`), one facility each, room
for one component each.  Component `0` has task `0` (at workplace 0) then task `1` (at
workplace 1); component `1` has task `2`, which also needs workplace 0 and has to wait until
component 0 has moved on.  Two workers who can do everything. -/
def exP : Model where
  nT := 3
  nW := 2
  nF := 2
  nTeam := 1
  nWp := 2
  nC := 2
  task := fun t =>
    match t with
    | 0 => { name := 0, work := 1, needFac := true, wps := [0], comp := some 0,
             outputs := [(1, .fs)] }
    | 1 => { name := 1, work := 1, needFac := true, wps := [1], comp := some 0,
             inputs := [(0, .fs)] }
    | _ => { name := 2, work := 1, needFac := true, wps := [0], comp := some 1 }
  worker := fun _ =>
    { team := 0, skills := [(0, 1), (1, 1), (2, 1)], facSkills := [(0, 1), (1, 1)] }
  fac := fun f =>
    match f with
    | 0 => { wp := 0, name := 0, skills := [(0, 1), (2, 1)] }
    | _ => { wp := 1, name := 1, skills := [(1, 1)] }
  team := fun _ => { workers := [0, 1], targets := [0, 1, 2] }
  wp := fun q =>
    match q with
    | 0 => { facs := [0], targets := [0, 2], cap := 1, outputs := [1] }
    | _ => { facs := [1], targets := [1], cap := 1, inputs := [0] }
  comp := fun c =>
    match c with
    | 0 => { tasks := [0, 1], size := 1 }
    | _ => { tasks := [2], size := 1 }

theorem exP_wf : PlaceWF exP := placeWF_of_b (by decide +kernel)

end Place
end PDesy
