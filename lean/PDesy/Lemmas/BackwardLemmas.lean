/-
  PDesy.Lemmas.BackwardLemmas — helpers for C17 (`backward_simulate`):
  * `revDeps` is an involution;
  * `withHelpers` only appends tasks at indices `≥ nT` and only appends links to them at the
    END of some input lists (`Extends`), `dropHelpers` removes exactly those;
  * alignment of the logs w.r.t. a smaller model and across `reverseLogs`;
  * the finish-to-start order read off the task-state logs of a forward run (any model).
-/
import PDesy.Model.Backward
import PDesy.Props.C01
import PDesy.Props.C08

namespace PDesy.Bwd
open PDesy PDesy.Lifecycle PDesy.Logs

/-! ### the dependency graph -/

/-- dependency links stay inside the task list -/
def GraphInRange (m : Model) : Prop :=
  ∀ t, t < m.nT → (∀ e ∈ (m.task t).inputs, e.1 < m.nT) ∧ (∀ e ∈ (m.task t).outputs, e.1 < m.nT)

/-- the input and the output lists describe the same edges -/
def EdgeSym (m : Model) : Prop :=
  ∀ a b d, a < m.nT → b < m.nT → ((a, d) ∈ (m.task b).inputs ↔ (b, d) ∈ (m.task a).outputs)

instance (m : Model) : Decidable (GraphInRange m) := by unfold GraphInRange; infer_instance

/-! ### `revDeps` -/

theorem revDeps_revDeps (m : Model) : revDeps (revDeps m) = m := rfl

@[simp] theorem revDeps_nT (m : Model) : (revDeps m).nT = m.nT := rfl
@[simp] theorem revDeps_inputs (m : Model) (t : Nat) :
    ((revDeps m).task t).inputs = (m.task t).outputs := rfl
@[simp] theorem revDeps_outputs (m : Model) (t : Nat) :
    ((revDeps m).task t).outputs = (m.task t).inputs := rfl
@[simp] theorem revDeps_prog (m : Model) (t : Nat) : ((revDeps m).task t).prog = (m.task t).prog := rfl

theorem GraphInRange.rev {m : Model} (h : GraphInRange m) : GraphInRange (revDeps m) :=
  fun t ht => ⟨(h t ht).2, (h t ht).1⟩

/-! ### `withHelpers` only appends -/

/-- `m'` is `r` with extra tasks at indices `≥ r.nT` and, for every old task, some links to
such extra tasks appended at the end of its input list; nothing else differs. -/
structure Extends (r m' : Model) : Prop where
  nT : r.nT ≤ m'.nT
  task : ∀ t, t < r.nT → ∃ hs : List (Nat × Dep), (∀ e ∈ hs, r.nT ≤ e.1 ∧ e.2 = .fs) ∧
      m'.task t = { r.task t with inputs := (r.task t).inputs ++ hs }
  nW : m'.nW = r.nW
  nF : m'.nF = r.nF
  nTeam : m'.nTeam = r.nTeam
  nWp : m'.nWp = r.nWp
  nC : m'.nC = r.nC
  worker : m'.worker = r.worker
  fac : m'.fac = r.fac
  team : m'.team = r.team
  wp : m'.wp = r.wp
  comp : m'.comp = r.comp

theorem Extends.refl (r : Model) : Extends r r where
  nT := Nat.le_refl _
  task := fun t _ => ⟨[], by simp, by simp⟩
  nW := rfl
  nF := rfl
  nTeam := rfl
  nWp := rfl
  nC := rfl
  worker := rfl
  fac := rfl
  team := rfl
  wp := rfl
  comp := rfl

theorem Extends.addHelper {r m' : Model} (h : Extends r m') (mx : Int) (tail : Nat) :
    Extends r (addHelper mx m' tail) where
  nT := by simp only [PDesy.addHelper]; have := h.nT; omega
  task := by
    intro t ht
    obtain ⟨hs, hhs, htask⟩ := h.task t ht
    have hne : t ≠ m'.nT := by have := h.nT; omega
    by_cases htl : t = tail
    · refine ⟨hs ++ [(m'.nT, .fs)], ?_, ?_⟩
      · intro e he
        rcases List.mem_append.mp he with he | he
        · exact hhs e he
        · simp only [List.mem_singleton] at he; subst he; exact ⟨h.nT, rfl⟩
      · simp only [PDesy.addHelper, if_neg hne, if_pos htl]
        rw [htask]; simp
    · refine ⟨hs, hhs, ?_⟩
      simp only [PDesy.addHelper, if_neg hne, if_neg htl]
      exact htask
  nW := h.nW
  nF := h.nF
  nTeam := h.nTeam
  nWp := h.nWp
  nC := h.nC
  worker := h.worker
  fac := h.fac
  team := h.team
  wp := h.wp
  comp := h.comp

theorem Extends.foldl {r : Model} (mx : Int) (ts : List Nat) :
    ∀ m', Extends r m' → Extends r (ts.foldl (PDesy.addHelper mx) m') := by
  induction ts with
  | nil => intro m' h; exact h
  | cons t ts ih => intro m' h; exact ih _ (h.addHelper mx t)

theorem Extends.withHelpers (r : Model) : Extends r (withHelpers r) :=
  Extends.foldl _ _ r (Extends.refl r)

/-- the model of the inner run extends the reversed model -/
theorem Extends.backwardModel (m : Model) (due : Bool) : Extends (revDeps m) (backwardModel m due) := by
  cases due
  · exact Extends.refl _
  · exact Extends.withHelpers _

/-- every link of the extended model's old tasks that is not a link of `r` is an FS link to a
task `≥ r.nT`; every link of `r` is kept -/
theorem Extends.mem_inputs {r m' : Model} (h : Extends r m') {t : Nat} (ht : t < r.nT)
    {e : Nat × Dep} (he : e ∈ (r.task t).inputs) : e ∈ (m'.task t).inputs := by
  obtain ⟨hs, _, htask⟩ := h.task t ht
  rw [htask]; exact List.mem_append_left _ he

theorem Extends.prog {r m' : Model} (h : Extends r m') {t : Nat} (ht : t < r.nT) :
    (m'.task t).prog = (r.task t).prog := by
  obtain ⟨hs, _, htask⟩ := h.task t ht
  rw [htask]

theorem Extends.outputs {r m' : Model} (h : Extends r m') {t : Nat} (ht : t < r.nT) :
    (m'.task t).outputs = (r.task t).outputs := by
  obtain ⟨hs, _, htask⟩ := h.task t ht
  rw [htask]

/-! ### `dropHelpers` removes exactly what was appended -/

theorem filter_append_helpers (n0 : Nat) (xs hs : List (Nat × Dep))
    (hx : ∀ e ∈ xs, e.1 < n0) (hh : ∀ e ∈ hs, n0 ≤ e.1) :
    (xs ++ hs).filter (fun e => e.1 < n0) = xs := by
  rw [List.filter_append]
  have h1 : xs.filter (fun e => decide (e.1 < n0)) = xs :=
    List.filter_eq_self.mpr fun e he => by simpa using hx e he
  have h2 : hs.filter (fun e => decide (e.1 < n0)) = [] :=
    List.filter_eq_nil_iff.mpr fun e he => by have := hh e he; simp; omega
  rw [h1, h2, List.append_nil]

theorem Extends.dropHelpers_task {r m' : Model} (h : Extends r m')
    (hr : ∀ t, t < r.nT → ∀ e ∈ (r.task t).inputs, e.1 < r.nT) (t : Nat) (ht : t < r.nT) :
    (dropHelpers r.nT m').task t = r.task t := by
  obtain ⟨hs, hhs, htask⟩ := h.task t ht
  simp only [dropHelpers, if_pos ht]
  rw [htask]
  simp only
  rw [filter_append_helpers r.nT _ hs (hr t ht) (fun e he => (hhs e he).1)]

theorem dropHelpers_task_out (n0 : Nat) (m' : Model) (t : Nat) (ht : ¬ t < n0) :
    (dropHelpers n0 m').task t = default := by
  simp only [dropHelpers, if_neg ht]

/-! ### alignment -/

/-- alignment w.r.t. a model with at least as many tasks and the same other sizes -/
theorem Aligned.shrink {m m' : Model} {s : St} (h : Aligned m' s) (hT : m.nT ≤ m'.nT)
    (hW : m'.nW = m.nW) (hF : m'.nF = m.nF) (hTeam : m'.nTeam = m.nTeam) (hWp : m'.nWp = m.nWp)
    (hC : m'.nC = m.nC) : Aligned m s where
  tState := fun t ht => h.tState t (by omega)
  tRem := fun t ht => h.tRem t (by omega)
  tAllocW := fun t ht => h.tAllocW t (by omega)
  tAllocF := fun t ht => h.tAllocF t (by omega)
  wState := fun w hw => h.wState w (by omega)
  wCost := fun w hw => h.wCost w (by omega)
  wAsg := fun w hw => h.wAsg w (by omega)
  fState := fun f hf => h.fState f (by omega)
  fCost := fun f hf => h.fCost f (by omega)
  fAsg := fun f hf => h.fAsg f (by omega)
  teamCost := fun a ha => h.teamCost a (by omega)
  wpCost := fun q hq => h.wpCost q (by omega)
  wpPlaced := fun q hq => h.wpPlaced q (by omega)
  orgCost := h.orgCost
  projCost := h.projCost
  cState := fun c hc => h.cState c (by omega)
  cPlaced := fun c hc => h.cPlaced c (by omega)

theorem reverseLogs_time (m : Model) (s : St) : (reverseLogs m s).time = s.time := rfl

/-- `reverse_log_information` keeps the length of every log and the clock -/
theorem Aligned.reverseLogs {m : Model} {s : St} (h : Aligned m s) : Aligned m (reverseLogs m s) := by
  obtain ⟨h1, h2, h3, h4, h5, h6, h7, h8, h9, h10, h11, h12, h13, h14, h15, h16, h17⟩ := h
  constructor <;> (try intro x hx) <;> simp [PDesy.reverseLogs, *]

theorem reverseLogs_tState (m : Model) (s : St) (t : Nat) (ht : t < m.nT) :
    (reverseLogs m s).logs.tState t = (s.logs.tState t).reverse := by
  simp [PDesy.reverseLogs, ht]

/-! ### the task-state logs of a forward run (any model `M`) -/

section run
variable {M : Model} {p : Params}

/-- entry `k` of a task-state log after a run that cleared the logs -/
theorem run_tState_entry (s : St) (hl : p.initLog = true) {t : Nat} (ht : t < M.nT) {k : Nat}
    (hk : k < (runTrace M p s).length) :
    ((simulate M p s).logs.tState t)[k]? =
      some (showT (workingAt p k) ((runTrace M p s)[k].live.tstate t)) :=
  (C08_run_entry s hl k hk).tState t ht

theorem run_tState_length (s : St) (hl : p.initLog = true) {t : Nat} (ht : t < M.nT) :
    ((simulate M p s).logs.tState t).length = (runTrace M p s).length := by
  rw [← C08_run_time s hl]; exact (C08_run s (Or.inl hl)).tState t ht

theorem run_lt_of_entry (s : St) (hl : p.initLog = true) {t : Nat} (ht : t < M.nT) {k : Nat} {x : TS}
    (h : ((simulate M p s).logs.tState t)[k]? = some x) : k < (runTrace M p s).length := by
  rw [← run_tState_length s hl ht]
  exact (List.getElem?_eq_some_iff.mp h).1

/-- the live state behind a logged entry -/
theorem run_entry_live (s : St) (hl : p.initLog = true) {t : Nat} (ht : t < M.nT) {k : Nat} {x : TS}
    (h : ((simulate M p s).logs.tState t)[k]? = some x) :
    ∃ hk : k < (runTrace M p s).length,
      x = showT (workingAt p k) ((runTrace M p s)[k].live.tstate t) := by
  have hk := run_lt_of_entry s hl ht h
  refine ⟨hk, ?_⟩
  rw [run_tState_entry s hl ht hk] at h
  exact (Option.some.inj h).symm

/-- **one row.**  Wherever the log of `a` shows anything but NONE, the log of each of its
finish-to-start predecessors `b` shows FINISHED (same index). -/
theorem run_fs_row (s : St) (hs : p.initState = true) (hl : p.initLog = true) {a b : Nat}
    (ha : a < M.nT) (hb : b < M.nT) (hex : ¬ exempt M a) (hedge : (b, Dep.fs) ∈ (M.task a).inputs)
    {k : Nat} {x : TS} (h : ((simulate M p s).logs.tState a)[k]? = some x) (hx : x ≠ .none) :
    ((simulate M p s).logs.tState b)[k]? = some .finished := by
  obtain ⟨hk, rfl⟩ := run_entry_live s hl ha h
  rw [run_tState_entry s hl hb hk]
  have hd := C01_run M p s hs _ (List.getElem_mem hk)
  have hne : (runTrace M p s)[k].live.tstate a ≠ .none := fun h0 => hx ((showT_none_iff _ _).mpr h0)
  have := ((hd a ha hex).1 hne (b, .fs) hedge).1 rfl
  simp only at this
  rw [this]; simp [showT]

/-- **FINISHED persists** in the log of a run. -/
theorem run_finished_persists (s : St) (hl : p.initLog = true) {b : Nat} (hb : b < M.nT) {k k' : Nat}
    (h : ((simulate M p s).logs.tState b)[k]? = some .finished) (hkk : k ≤ k')
    (hk' : k' < (runTrace M p s).length) :
    ((simulate M p s).logs.tState b)[k']? = some .finished := by
  obtain ⟨hk, hx⟩ := run_entry_live s hl hb h
  rw [run_tState_entry s hl hb hk']
  have hf : (runTrace M p s)[k].live.tstate b = .finished := (showT_finished_iff _ _).mp hx.symm
  have hf' : (runTrace M p s)[k'].live.tstate b = .finished := by
    rcases Nat.lt_or_eq_of_le hkk with hlt | heq
    · have hp := (List.pairwise_cons.mp (C01_mono_run M p s).1).2
      have := List.pairwise_iff_getElem.mp hp k k' hk hk' hlt
      exact Mono.finished this hf
    · subst heq; exact hf
  rw [hf']; simp [showT]

/-- an exempt task (default progress complete) is logged FINISHED at every step of a run that
initialises state and logs -/
theorem run_exempt_finished (s : St) (hs : p.initState = true) (hl : p.initLog = true) {a : Nat}
    (ha : a < M.nT) (hex : exempt M a) {k : Nat} {x : TS}
    (h : ((simulate M p s).logs.tState a)[k]? = some x) : x = .finished := by
  obtain ⟨hk, rfl⟩ := run_entry_live s hl ha h
  have h0 : (enter M p s).live.tstate a = .finished := by
    rw [enter_live, hs, hl]; exact initProject_exempt M s a ha hex
  have hp := (List.pairwise_cons.mp (C01_mono_run M p s).1).1 _ (List.getElem_mem hk)
  rw [Mono.finished hp h0]; simp [showT]

/-- **order.**  Every index at which `a` is logged WORKING is strictly after every index at
which its finish-to-start predecessor `b` is logged WORKING. -/
theorem run_fs_order (s : St) (hs : p.initState = true) (hl : p.initLog = true) {a b : Nat}
    (ha : a < M.nT) (hb : b < M.nT) (hedge : (b, Dep.fs) ∈ (M.task a).inputs) {i j : Nat}
    (hi : ((simulate M p s).logs.tState b)[i]? = some .working)
    (hj : ((simulate M p s).logs.tState a)[j]? = some .working) : i < j := by
  by_cases hex : exempt M a
  · have := run_exempt_finished s hs hl ha hex hj
    cases this
  · apply Nat.lt_of_not_le
    intro hji
    have h1 := run_fs_row s hs hl ha hb hex hedge hj (by intro h; cases h)
    have h2 := run_finished_persists s hl hb h1 hji (run_lt_of_entry s hl hb hi)
    rw [hi] at h2
    cases h2

end run

end PDesy.Bwd

namespace PDesy.Bwd
open PDesy

/-- two models with the same twelve fields are equal -/
theorem model_ext {a b : Model} (h1 : a.nT = b.nT) (h2 : a.nW = b.nW) (h3 : a.nF = b.nF)
    (h4 : a.nTeam = b.nTeam) (h5 : a.nWp = b.nWp) (h6 : a.nC = b.nC) (h7 : a.task = b.task)
    (h8 : a.worker = b.worker) (h9 : a.fac = b.fac) (h10 : a.team = b.team) (h11 : a.wp = b.wp)
    (h12 : a.comp = b.comp) : a = b := by
  cases a; cases b; simp_all

/-- dropping the helpers from an extension of `r` gives `r` back, provided the links of `r`
are in range and `r` has default tasks outside its range -/
theorem Extends.dropHelpers_eq {r m' : Model} (h : Extends r m')
    (hr : ∀ t, t < r.nT → ∀ e ∈ (r.task t).inputs, e.1 < r.nT)
    (hdef : ∀ t, r.nT ≤ t → r.task t = default) : dropHelpers r.nT m' = r := by
  apply model_ext
  · rfl
  · exact h.nW
  · exact h.nF
  · exact h.nTeam
  · exact h.nWp
  · exact h.nC
  · funext t
    by_cases ht : t < r.nT
    · exact h.dropHelpers_task hr t ht
    · rw [dropHelpers_task_out _ _ _ ht, hdef t (by omega)]
  · exact h.worker
  · exact h.fac
  · exact h.team
  · exact h.wp
  · exact h.comp

end PDesy.Bwd
