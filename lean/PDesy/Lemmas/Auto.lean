/-
  PDesy.Lemmas.Auto — helper lemmas for C20 ("a sub-project task lasts exactly as long as the
  sub-project it stands for").

  For the simulator a sub-project task is an automatic task without component
  (`Auto.SubTask`).  This file follows one such task through the loop:

  * `update_keep`, `update_finish`: what `__update` does to the task;
  * `stepBody_auto`, `stepBody_finished`: what the rest of the iteration does to it;
  * `iter_*`: one whole iteration `iter m p s = stepBody m p (updated m s)`;
  * `acts p τ k`: the number of active steps among the `k` steps executed from time `τ` on;
  * `IsCeil D r n`: `n = ⌈D / r⌉`, and `ceilNat_spec`: the ceiling satisfies it;
  * `run_working`, `run_ready`, `run_finished`, `run_working_iff`: the whole occupation (READY
    until the first active step — nothing starts at a project absence step with the flag off —,
    WORKING from then to the `n`-th active step);
  * `repeat_iter_tState`, `count_shownWorking`: the rows the occupation leaves in the log;
  * `stepsBelow` counted (for the duration of a saved run without its absence steps).
-/
import PDesy.Lemmas.NoWait
import PDesy.Model.SubProject

namespace PDesy
namespace Auto
open Perform

variable {m : Model} {t : Nat}

/-! ### the task -/

/-- no finish-gated (FF / SF) input dependency -/
def NoFinDeps (m : Model) (t : Nat) : Prop := ∀ e ∈ (m.task t).inputs, e.2 = .fs ∨ e.2 = .ss

/-- what the simulator sees of a sub-project task: a task of the model that is automatic, is
bound to no component and has no finish-gated input -/
structure SubTask (m : Model) (t : Nat) : Prop where
  lt : t < m.nT
  auto : (m.task t).isAuto = true
  nocomp : (m.task t).comp = Option.none
  nofin : NoFinDeps m t

theorem finishGate_true (h : NoFinDeps m t) (ts : Nat → TS) : finishGate m ts t = true := by
  rw [Lifecycle.finishGate_iff]
  intro e he
  rcases h e he with h | h <;> simp [h]

/-! ### `__update` on one task -/

theorem update_tstate_of_ne_none (time : Nat) (l : Live) (t : Nat)
    (h : (chkFinished m l).tstate t ≠ .none) :
    (update m time l).tstate t = (chkFinished m l).tstate t := by
  rw [Perform.update_tstate, Perform.chkReady_tstate, Lifecycle.chkRemove_tstate,
    Lifecycle.compCheck_tstate]
  split
  · rename_i hc
    simp only [Bool.and_eq_true, beq_iff_eq] at hc
    exact absurd hc.1.2 h
  · rfl

/-- a task that is not NONE and not (WORKING with no work left) is left alone by `__update` -/
theorem update_keep (time : Nat) (l : Live) (t : Nat) (h0 : l.tstate t ≠ .none)
    (h : ¬ (l.tstate t = .working ∧ l.rem t ≤ 0)) :
    (update m time l).tstate t = l.tstate t ∧ (update m time l).rem t = l.rem t := by
  rcases chkFinished_closes (m := m) l t with ⟨h1, h2⟩ | ⟨h1, h2, _, _⟩
  · rw [update_tstate_of_ne_none time l t (by rw [h1]; exact h0), Perform.update_rem]
    exact ⟨h1, h2⟩
  · exact absurd ⟨h1, h2⟩ h

/-- a WORKING task with no work left and no finish-gated input is FINISHED by `__update` -/
theorem update_finish (time : Nat) (l : Live) (ht : t < m.nT) (hg : NoFinDeps m t)
    (hw : l.tstate t = .working) (hr : l.rem t ≤ 0) :
    (update m time l).tstate t = .finished ∧ (update m time l).rem t = 0 := by
  have hfin : (chkFinished m l).tstate t = .finished := by
    rcases chkFinished_closes (m := m) l t with ⟨h1, h2⟩ | ⟨_, _, h3, _⟩
    · exfalso
      have h := chkFinished_stable (m := m) l t (List.mem_range.mpr ht)
      simp [finishCand, h1, h2, hw, hr, finishGate_true hg] at h
    · exact h3
  have hu : (update m time l).tstate t = .finished := (update_finished_iff time l t).mpr hfin
  refine ⟨hu, ?_⟩
  rw [update_rem_eq, if_pos ⟨hu, by rw [hw]; exact fun h => by cases h⟩]

/-- a NONE task whose start gate is open in the updated state is READY there -/
theorem update_none_ready (time : Nat) (l : Live) (ht : t < m.nT) (h0 : l.tstate t = .none)
    (hg : readyGate m (update m time l).tstate t = true) :
    (update m time l).tstate t = .ready ∧ (update m time l).rem t = l.rem t := by
  have hne : (update m time l).tstate t ≠ .none :=
    fun h => NoWait.update_ready m time l t ht ⟨h, hg⟩
  have hcf : (chkFinished m l).tstate t = .none ∧ (chkFinished m l).rem t = l.rem t := by
    rcases chkFinished_closes (m := m) l t with ⟨h1, h2⟩ | ⟨h1, _, _, _⟩
    · exact ⟨h1.trans h0, h2⟩
    · rw [h0] at h1; cases h1
  refine ⟨?_, by rw [Perform.update_rem]; exact hcf.2⟩
  rw [Perform.update_tstate, Perform.chkReady_tstate, Lifecycle.chkRemove_tstate,
    Lifecycle.compCheck_tstate] at hne ⊢
  split
  · rfl
  · rename_i hc
    rw [if_neg hc] at hne
    exact absurd hcf.1 hne

/-! ### the rest of the iteration on one task -/

theorem contrib_auto (l : Live) (ha : (m.task t).isAuto = true) :
    contrib m l t = (m.task t).autoRate := by
  simp [contrib, ha]

theorem active_iff (p : Params) (k : Nat) (ha : (m.task t).isAuto = true) :
    (workingAt p k = true ∨ (p.autoFlag = true ∧ (m.task t).isAuto = true)) ↔
      activeAt p k = true := by
  simp [workingAt, activeAt, ha]

/-- one step on a READY or WORKING automatic task without component: if the step is active it
ends the step WORKING and has progressed by its rate; if not (a project absence step with the flag
off) nothing starts and nothing is performed: its state and remaining work are unchanged -/
theorem stepBody_auto (p : Params) (s : St) (ht : t < m.nT)
    (ha : (m.task t).isAuto = true) (hc : (m.task t).comp = Option.none)
    (h : s.live.tstate t = .ready ∨ s.live.tstate t = .working) :
    (stepBody m p s).live.tstate t =
      (if activeAt p s.time = true then .working else s.live.tstate t) ∧
    (stepBody m p s).live.rem t =
      s.live.rem t - (if activeAt p s.time = true then (m.task t).autoRate else 0) := by
  by_cases hact : activeAt p s.time = true
  · have hw : (preCost m p s).tstate t = .working := by
      have hnr := NoWait.stepBody_auto m p s t ht ha hc hact
      rw [Perform.stepBody_tstate] at hnr
      rcases preCost_start (m := m) p s t with e | ⟨_, e⟩
      · rcases h with h | h
        · rw [e] at hnr; exact absurd h hnr
        · rw [e]; exact h
      · exact e
    refine ⟨by rw [Perform.stepBody_tstate, if_pos hact]; exact hw, ?_⟩
    rw [stepBody_rem, contrib_auto _ ha]
    rw [if_pos ⟨ht, hw, (active_iff p s.time ha).mpr hact⟩, if_pos hact]
  · have hab : p.absence.contains s.time = true ∧ p.autoFlag = false := by
      simpa [activeAt] using hact
    have hpc : (preCost m p s).tstate = s.live.tstate := by
      rw [preCost_inactive p s hab.1 hab.2]; rfl
    refine ⟨by rw [Perform.stepBody_tstate, hpc, if_neg hact], ?_⟩
    rw [stepBody_rem, contrib_auto _ ha]
    rw [if_neg (fun h => hact ((active_iff p s.time ha).mp h.2.2)), if_neg hact]; grind

theorem stepBody_finished (p : Params) (s : St) (h : s.live.tstate t = .finished) :
    (stepBody m p s).live.tstate t = .finished ∧ (stepBody m p s).live.rem t = s.live.rem t := by
  have hf : (preCost m p s).tstate t = .finished :=
    ((preCost_start (m := m) p s).finished_iff t).mpr h
  refine ⟨by rw [Perform.stepBody_tstate]; exact hf, ?_⟩
  rw [stepBody_rem, if_neg]
  rw [hf]; simp

/-! ### one whole iteration -/

theorem iter_eq (p : Params) (s : St) : iter m p s = stepBody m p (updated m s) := rfl

@[simp] theorem iter_time (p : Params) (s : St) : (iter m p s).time = s.time + 1 := rfl

theorem repeat_iter_time (p : Params) (s : St) (k : Nat) :
    (Nat.repeat (iter m p) k s).time = s.time + k := by
  induction k with
  | zero => rfl
  | succ k ih => show (iter m p _).time = _; rw [iter_time, ih]; omega

/-- the task is READY after the `__update` of this iteration (it was READY before, or it was
NONE and its start gate opened): at an active step it ends the iteration WORKING, performed once;
at an inactive step it stays READY with its remaining work -/
theorem iter_start (h : SubTask m t) (p : Params) (s : St)
    (hu : (update m s.time s.live).tstate t = .ready) :
    (iter m p s).live.tstate t = (if activeAt p s.time = true then .working else .ready) ∧
    (iter m p s).live.rem t =
      s.live.rem t - (if activeAt p s.time = true then (m.task t).autoRate else 0) := by
  have h1 := stepBody_auto (m := m) p (updated m s) h.lt h.auto h.nocomp (Or.inl hu)
  refine ⟨?_, ?_⟩
  · rw [iter_eq, h1.1]
    show (if activeAt p s.time = true then TS.working else (update m s.time s.live).tstate t) = _
    rw [hu]
  · rw [iter_eq, h1.2]
    show (update m s.time s.live).rem t - _ = _
    rw [update_rem_eq, if_neg]
    · rfl
    · rw [hu]; exact fun h => by cases h.1

theorem iter_ready (h : SubTask m t) (p : Params) (s : St) (hs : s.live.tstate t = .ready) :
    (iter m p s).live.tstate t = (if activeAt p s.time = true then .working else .ready) ∧
    (iter m p s).live.rem t =
      s.live.rem t - (if activeAt p s.time = true then (m.task t).autoRate else 0) := by
  apply iter_start h
  rw [(update_keep (m := m) s.time s.live t (by rw [hs]; exact fun h => by cases h)
    (by rw [hs]; exact fun h => by cases h.1)).1, hs]

theorem iter_working_pos (h : SubTask m t) (p : Params) (s : St)
    (hs : s.live.tstate t = .working) (hr : 0 < s.live.rem t) :
    (iter m p s).live.tstate t = .working ∧
    (iter m p s).live.rem t =
      s.live.rem t - (if activeAt p s.time = true then (m.task t).autoRate else 0) := by
  have hk := update_keep (m := m) s.time s.live t (by rw [hs]; exact fun h => by cases h)
    (fun h => Rat.not_le.mpr hr h.2)
  have hu : (updated m s).live.tstate t = .working := by
    show (update m s.time s.live).tstate t = _; rw [hk.1, hs]
  have h1 := stepBody_auto (m := m) p (updated m s) h.lt h.auto h.nocomp (Or.inr hu)
  refine ⟨?_, ?_⟩
  · rw [iter_eq, h1.1, hu]; split <;> rfl
  · rw [iter_eq, h1.2]
    show (update m s.time s.live).rem t - _ = _
    rw [hk.2]; rfl

theorem iter_working_done (h : SubTask m t) (p : Params) (s : St)
    (hs : s.live.tstate t = .working) (hr : s.live.rem t ≤ 0) :
    (iter m p s).live.tstate t = .finished ∧ (iter m p s).live.rem t = 0 := by
  have hu := update_finish (m := m) s.time s.live h.lt h.nofin hs hr
  have h1 := stepBody_finished (m := m) (t := t) p (updated m s) hu.1
  exact ⟨h1.1, h1.2.trans hu.2⟩

theorem iter_finished (p : Params) (s : St) (hs : s.live.tstate t = .finished) :
    (iter m p s).live.tstate t = .finished ∧ (iter m p s).live.rem t = s.live.rem t := by
  have hu : (update m s.time s.live).tstate t = .finished :=
    Lifecycle.Mono.finished (Lifecycle.update_mono m s.time s.live) hs
  have h1 := stepBody_finished (m := m) (t := t) p (updated m s) hu
  refine ⟨h1.1, h1.2.trans ?_⟩
  show (update m s.time s.live).rem t = _
  rw [update_rem_eq, if_neg]
  exact fun h => h.2 hs

/-- a NONE task whose start gate is closed in the updated state stays NONE through the iteration -/
theorem iter_none (p : Params) (s : St) (h0 : s.live.tstate t = .none)
    (hg : readyGate m (update m s.time s.live).tstate t = false) :
    (iter m p s).live.tstate t = .none ∧ (iter m p s).live.rem t = s.live.rem t := by
  have hcf : (chkFinished m s.live).tstate t = .none ∧ (chkFinished m s.live).rem t = s.live.rem t := by
    rcases chkFinished_closes (m := m) s.live t with ⟨h1, h2⟩ | ⟨h1, _, _, _⟩
    · exact ⟨h1.trans h0, h2⟩
    · rw [h0] at h1; cases h1
  have hu : (update m s.time s.live).tstate t = .none := by
    have hg' := hg
    rw [Perform.update_tstate, NoWait.chkReady_readyGate] at hg'
    rw [Perform.update_tstate, Perform.chkReady_tstate, hg']
    simp only [Bool.and_false, Bool.false_eq_true, if_false]
    rw [Lifecycle.chkRemove_tstate, Lifecycle.compCheck_tstate]
    exact hcf.1
  have hpc : (preCost m p (updated m s)).tstate t = .none := by
    rcases preCost_start (m := m) p (updated m s) t with e | ⟨e, _⟩
    · rw [e]; exact hu
    · have : (updated m s).live.tstate t = .none := hu
      rw [this] at e; cases e
  refine ⟨by rw [iter_eq, Perform.stepBody_tstate]; exact hpc, ?_⟩
  rw [iter_eq, stepBody_rem, if_neg (by rw [hpc]; simp)]
  show (update m s.time s.live).rem t = _
  rw [Perform.update_rem]; exact hcf.2

/-- a task that ends an iteration NONE or READY has not been worked on -/
theorem iter_waiting (p : Params) (s : St)
    (h : (iter m p s).live.tstate t = .none ∨ (iter m p s).live.tstate t = .ready) :
    (iter m p s).live.rem t = s.live.rem t := by
  have hw : (preCost m p (updated m s)).tstate t ≠ .working := by
    intro e
    have : (iter m p s).live.tstate t = .working := by rw [iter_eq, Perform.stepBody_tstate]; exact e
    rcases h with h | h <;> rw [this] at h <;> cases h
  have hnf : (update m s.time s.live).tstate t ≠ .finished := by
    intro e
    have := (stepBody_finished (m := m) (t := t) p (updated m s) e).1
    rw [← iter_eq] at this
    rcases h with h | h <;> rw [this] at h <;> cases h
  rw [iter_eq, stepBody_rem, if_neg (fun h => hw h.2.1)]
  show (update m s.time s.live).rem t = _
  rw [update_rem_eq, if_neg (fun h => hnf h.1)]

theorem repeat_iter_finished (p : Params) (s : St) (hs : s.live.tstate t = .finished) (k : Nat) :
    (Nat.repeat (iter m p) k s).live.tstate t = .finished ∧
    (Nat.repeat (iter m p) k s).live.rem t = s.live.rem t := by
  induction k with
  | zero => exact ⟨hs, rfl⟩
  | succ k ih =>
    have h1 := iter_finished (m := m) p (Nat.repeat (iter m p) k s) ih.1
    exact ⟨h1.1, h1.2.trans ih.2⟩

theorem repeat_add {α : Type} (f : α → α) (j k : Nat) (a : α) :
    Nat.repeat f (j + k) a = Nat.repeat f j (Nat.repeat f k a) := by
  induction j with
  | zero => simp [Nat.repeat]
  | succ j ih => rw [Nat.succ_add]; show f _ = f _; rw [ih]

/-- the task holds no worker and no facility, before and after an iteration -/
theorem iter_elig (p : Params) (s : St) (h : Elig.EligInv m s.live) :
    Elig.EligInv m (iter m p s).live :=
  Elig.EligInv_stepBody m p (updated m s) (Elig.EligInv_updated m s h)

theorem repeat_iter_elig (p : Params) (s : St) (h : Elig.EligInv m s.live) (k : Nat) :
    Elig.EligInv m (Nat.repeat (iter m p) k s).live := by
  induction k with
  | zero => exact h
  | succ k ih => exact iter_elig p _ ih

/-! ### recorded states of a trace are iterations of `iter` -/

theorem trace_repeat (p : Params) (fuel : Nat) (s : St) (j k : Nat)
    (h : j + k < (trace m p fuel s).length) :
    (trace m p fuel s)[j + k] =
      Nat.repeat (iter m p) k ((trace m p fuel s)[j]'(by omega)) := by
  induction k with
  | zero => rfl
  | succ k ih =>
    have e := trace_succ (m := m) p fuel s (j + k) (by omega)
    show (trace m p fuel s)[j + k + 1] = iter m p _
    rw [e, ih (by omega)]
    rfl

/-! ### counting active steps -/

/-- number of active steps among the `k` steps executed at times `τ, …, τ + k - 1` -/
def acts (p : Params) (τ k : Nat) : Nat :=
  ((List.range k).filter fun j => activeAt p (τ + j)).length

@[simp] theorem acts_zero (p : Params) (τ : Nat) : acts p τ 0 = 0 := rfl

theorem acts_succ (p : Params) (τ k : Nat) :
    acts p τ (k + 1) = acts p τ k + (if activeAt p (τ + k) = true then 1 else 0) := by
  unfold acts
  rw [List.range_succ, List.filter_append, List.length_append]
  by_cases h : activeAt p (τ + k) = true <;> simp [h]

theorem acts_le_succ (p : Params) (τ k : Nat) : acts p τ k ≤ acts p τ (k + 1) := by
  rw [acts_succ]; omega

theorem acts_succ_le (p : Params) (τ k : Nat) : acts p τ (k + 1) ≤ acts p τ k + 1 := by
  rw [acts_succ]; split <;> omega

theorem acts_le (p : Params) (τ k : Nat) : acts p τ k ≤ k := by
  induction k with
  | zero => simp
  | succ k ih => have := acts_succ_le p τ k; omega

theorem acts_mono (p : Params) (τ : Nat) {j k : Nat} (h : j ≤ k) : acts p τ j ≤ acts p τ k := by
  induction k with
  | zero =>
    have : j = 0 := by omega
    subst this; exact Nat.le_refl _
  | succ k ih =>
    by_cases e : j = k + 1
    · subst e; exact Nat.le_refl _
    · exact Nat.le_trans (ih (by omega)) (acts_le_succ p τ k)

theorem acts_all_active (p : Params) (τ k : Nat) (h : ∀ j, j < k → activeAt p (τ + j) = true) :
    acts p τ k = k := by
  induction k with
  | zero => rfl
  | succ k ih =>
    rw [acts_succ, ih (fun j hj => h j (by omega)), if_pos (h k (by omega))]

theorem activeAt_of_nil (p : Params) (h : p.absence = []) (k : Nat) : activeAt p k = true := by
  simp [activeAt, h]

theorem activeAt_of_flag (p : Params) (h : p.autoFlag = true) (k : Nat) : activeAt p k = true := by
  simp [activeAt, h]

theorem countP_shift_eq_le_one (τ x : Nat) (ys : List Nat) (hnd : ys.Nodup) :
    ys.countP (fun j => τ + j == x) ≤ 1 := by
  induction ys with
  | nil => simp
  | cons y ys ih =>
    have hnd' := List.nodup_cons.mp hnd
    rw [List.countP_cons]
    by_cases hy : τ + y = x
    · have : ys.countP (fun j => τ + j == x) = 0 := by
        rw [List.countP_eq_zero]
        intro j hj
        have : τ + j ≠ x := by
          intro e
          have : j = y := by omega
          subst this; exact hnd'.1 hj
        simpa using this
      simp [hy, this]
    · have := ih hnd'.2
      have hb : (τ + y == x) = false := by simpa using hy
      simp [hb, this]

theorem countP_or_le {α : Type} (f g : α → Bool) (ys : List α) :
    ys.countP (fun j => f j || g j) ≤ ys.countP f + ys.countP g := by
  induction ys with
  | nil => simp
  | cons y ys ih =>
    simp only [List.countP_cons]
    cases f y <;> cases g y <;> simp <;> omega

theorem countP_contains_le (τ : Nat) (xs ys : List Nat) (hnd : ys.Nodup) :
    ys.countP (fun j => xs.contains (τ + j)) ≤ xs.length := by
  induction xs with
  | nil => simp
  | cons x xs ih =>
    have h1 := countP_or_le (fun j => τ + j == x) (fun j => xs.contains (τ + j)) ys
    have h2 := countP_shift_eq_le_one τ x ys hnd
    simp only [List.contains_cons, List.length_cons]
    omega

/-- the inactive steps are absence steps: at most `p.absence.length` of them in any window -/
theorem acts_ge (p : Params) (τ k : Nat) : k ≤ acts p τ k + p.absence.length := by
  have hpart := List.length_eq_countP_add_countP (fun j => activeAt p (τ + j)) (l := List.range k)
  have hsub : (List.range k).countP (fun j => decide ¬(activeAt p (τ + j) = true)) ≤
      (List.range k).countP (fun j => p.absence.contains (τ + j)) := by
    apply List.countP_mono_left
    intro j _ hj
    simp only [activeAt] at hj
    simp at hj
    simpa using hj.1
  have := countP_contains_le τ p.absence (List.range k) List.nodup_range
  unfold acts
  rw [← List.countP_eq_length_filter]
  simp only [List.length_range] at hpart
  omega
/-- if at least `n` active steps happen within `M` steps, there is a first step count at which
the `n`-th one has happened -/
theorem exists_first (p : Params) (τ n M : Nat) (hn : 0 < n) (hM : n ≤ acts p τ M) :
    ∃ K, K < M ∧ acts p τ K < n ∧ acts p τ (K + 1) = n := by
  induction M with
  | zero => simp at hM; omega
  | succ M ih =>
    by_cases h : n ≤ acts p τ M
    · obtain ⟨K, hK, h1, h2⟩ := ih h
      exact ⟨K, by omega, h1, h2⟩
    · refine ⟨M, by omega, by omega, ?_⟩
      have := acts_succ_le p τ M
      omega

/-- the `n`-th active step always comes (absence lists are finite) -/
theorem exists_nth (p : Params) (τ n : Nat) (hn : 0 < n) :
    ∃ K, acts p τ K < n ∧ acts p τ (K + 1) = n := by
  obtain ⟨K, _, h1, h2⟩ := exists_first p τ n (n + p.absence.length) hn
    (by have := acts_ge p τ (n + p.absence.length); omega)
  exact ⟨K, h1, h2⟩

/-! ### the ceiling -/

/-- `n = ⌈D / r⌉` for `r > 0`, without division -/
def IsCeil (D r : Rat) (n : Nat) : Prop := ((n : Rat) - 1) * r < D ∧ D ≤ (n : Rat) * r

/-- `⌈x⌉` as a natural number -/
def ceilNat (x : Rat) : Nat := x.ceil.toNat

theorem ceilNat_spec {D r : Rat} (hD : 0 < D) (hr : 0 < r) :
    1 ≤ ceilNat (D / r) ∧ IsCeil D r (ceilNat (D / r)) := by
  have e : D / r * r = D := by grind
  have hx : 0 < D / r := by
    apply Rat.not_le.mp
    intro hle
    have := Rat.mul_le_mul_of_nonneg_right hle (Rat.le_of_lt hr)
    grind
  have hc0 : (0 : Int) < (D / r).ceil := Rat.lt_ceil_iff.mpr (by simpa using hx)
  have hcast : ((ceilNat (D / r) : Nat) : Rat) = (((D / r).ceil : Int) : Rat) := by
    unfold ceilNat
    rw [← Rat.intCast_natCast, Int.toNat_of_nonneg (Int.le_of_lt hc0)]
  refine ⟨?_, ?_, ?_⟩
  · unfold ceilNat; omega
  · rw [hcast]
    have h1 : (((D / r).ceil : Int) : Rat) - 1 < D / r := by
      have := Rat.ceil_lt (x := D / r); grind
    have := Rat.mul_lt_mul_of_pos_right h1 hr
    grind
  · rw [hcast]
    have := Rat.mul_le_mul_of_nonneg_right (Rat.le_ceil (x := D / r)) (Rat.le_of_lt hr)
    grind

/-- the natural number with `(n - 1) · r < D ≤ n · r` is unique -/
theorem IsCeil.unique {D r : Rat} (hr : 0 < r) {n n' : Nat} (h : IsCeil D r n)
    (h' : IsCeil D r n') : n = n' := by
  have key : ∀ a b : Nat, IsCeil D r a → IsCeil D r b → ¬ a < b := by
    intro a b ha hb hlt
    have h1 : (a : Rat) ≤ (b : Rat) - 1 := by
      have : ((a + 1 : Nat) : Rat) ≤ (b : Rat) := Rat.natCast_le_natCast.mpr hlt
      rw [Rat.natCast_add] at this
      grind
    have h2 := Rat.mul_le_mul_of_nonneg_right h1 (Rat.le_of_lt hr)
    have := ha.2; have := hb.1
    grind
  have := key n n' h h'; have := key n' n h' h
  omega

theorem IsCeil.pos {D r : Rat} (hD : 0 < D) {n : Nat} (h : IsCeil D r n) : 1 ≤ n := by
  rcases Nat.eq_zero_or_pos n with e | e
  · subst e
    have := h.2
    simp at this
    exact absurd hD (Rat.not_lt.mpr this)
  · exact e

/-- fewer than `n` performed steps leave work to do -/
theorem IsCeil.rem_pos {D r : Rat} (hr : 0 < r) {n a : Nat} (h : IsCeil D r n) (ha : a < n) :
    0 < D - (a : Rat) * r := by
  have h1 : (a : Rat) ≤ (n : Rat) - 1 := by
    have : ((a + 1 : Nat) : Rat) ≤ (n : Rat) := Rat.natCast_le_natCast.mpr ha
    rw [Rat.natCast_add] at this
    grind
  have h2 := Rat.mul_le_mul_of_nonneg_right h1 (Rat.le_of_lt hr)
  have := h.1
  grind

/-- `n` performed steps leave none -/
theorem IsCeil.rem_done {D r : Rat} {n : Nat} (h : IsCeil D r n) : D - (n : Rat) * r ≤ 0 := by
  have := h.2
  grind

/-! ### the whole occupation -/

/-- the remaining work after one more step, in terms of `acts` -/
theorem rem_step (p : Params) (τ k : Nat) (D r : Rat) :
    D - (acts p τ k : Rat) * r - (if activeAt p (τ + k) = true then r else 0) =
      D - (acts p τ (k + 1) : Rat) * r := by
  rw [acts_succ]
  by_cases h : activeAt p (τ + k) = true
  · simp only [h, if_true, Rat.natCast_add]; grind
  · simp only [h, Rat.natCast_add]; grind

theorem acts_succ_eq_zero (p : Params) (τ k : Nat) :
    acts p τ (k + 1) = 0 ↔ acts p τ k = 0 ∧ ¬ activeAt p (τ + k) = true := by
  rw [acts_succ]; split <;> simp [*]

/-- the state the task is in after an iteration, given the number of active steps so far:
READY until the first active step, WORKING from then on -/
def occState (a : Nat) : TS := if a = 0 then .ready else .working

/-- **Occupation.**  From a state `s0` whose `__update` leaves the task READY with remaining
work `D`: as long as fewer than `n = ⌈D / r⌉` active steps had happened before the current
iteration, the task ends the iteration with `D - acts · r` left, READY if no active step has
happened yet (nothing starts at an inactive step) and WORKING otherwise. -/
theorem run_working (h : SubTask m t) (p : Params) (s0 : St) {D : Rat} {n : Nat}
    (hr : 0 < (m.task t).autoRate)
    (hstart : (update m s0.time s0.live).tstate t = .ready) (hrem : s0.live.rem t = D)
    (hn : IsCeil D (m.task t).autoRate n) :
    ∀ k, acts p s0.time k < n →
      (Nat.repeat (iter m p) (k + 1) s0).live.tstate t = occState (acts p s0.time (k + 1)) ∧
      (Nat.repeat (iter m p) (k + 1) s0).live.rem t =
        D - (acts p s0.time (k + 1) : Rat) * (m.task t).autoRate := by
  intro k
  induction k with
  | zero =>
    intro _
    have h1 := iter_start h p s0 hstart
    refine ⟨?_, ?_⟩
    · show (iter m p s0).live.tstate t = _
      rw [h1.1, acts_succ, acts_zero, occState]
      by_cases ha : activeAt p s0.time = true
      · simp [ha]
      · simp [ha]
    · show (iter m p s0).live.rem t = _
      rw [h1.2, hrem, ← rem_step p s0.time 0 D]
      simp only [acts_zero, Nat.add_zero]
      grind
  | succ k ih =>
    intro hk
    have hk' : acts p s0.time k < n := Nat.lt_of_le_of_lt (acts_le_succ p s0.time k) hk
    obtain ⟨i1, i2⟩ := ih hk'
    by_cases hz : acts p s0.time (k + 1) = 0
    · -- still READY
      rw [hz, occState, if_pos rfl] at i1
      have h1 := iter_ready h p _ i1
      refine ⟨?_, ?_⟩
      · show (iter m p (Nat.repeat (iter m p) (k + 1) s0)).live.tstate t = _
        rw [h1.1, repeat_iter_time, occState]
        by_cases ha : activeAt p (s0.time + (k + 1)) = true
        · have : acts p s0.time (k + 1 + 1) ≠ 0 := by
            intro e; exact ((acts_succ_eq_zero p s0.time (k + 1)).mp e).2 ha
          rw [if_pos ha, if_neg this]
        · have : acts p s0.time (k + 1 + 1) = 0 :=
            (acts_succ_eq_zero p s0.time (k + 1)).mpr ⟨hz, ha⟩
          rw [if_neg ha, if_pos this]
      · show (iter m p (Nat.repeat (iter m p) (k + 1) s0)).live.rem t = _
        rw [h1.2, i2, repeat_iter_time, rem_step]
    · -- WORKING with work left
      rw [occState, if_neg hz] at i1
      have hpos : 0 < (Nat.repeat (iter m p) (k + 1) s0).live.rem t := by
        rw [i2]; exact hn.rem_pos hr hk
      have h1 := iter_working_pos h p _ i1 hpos
      refine ⟨?_, ?_⟩
      · show (iter m p (Nat.repeat (iter m p) (k + 1) s0)).live.tstate t = _
        have : acts p s0.time (k + 1 + 1) ≠ 0 := by
          have := acts_le_succ p s0.time (k + 1); omega
        rw [h1.1, occState, if_neg this]
      · show (iter m p (Nat.repeat (iter m p) (k + 1) s0)).live.rem t = _
        rw [h1.2, i2, repeat_iter_time, rem_step]

/-- after the iteration in which the `n`-th active step happens the task is WORKING with no
work left; one iteration later it is FINISHED, and it stays FINISHED -/
theorem run_finished (h : SubTask m t) (p : Params) (s0 : St) {D : Rat} {n : Nat}
    (hr : 0 < (m.task t).autoRate)
    (hstart : (update m s0.time s0.live).tstate t = .ready) (hrem : s0.live.rem t = D)
    (hn : IsCeil D (m.task t).autoRate n) (hn1 : 1 ≤ n) (K : Nat)
    (hK : acts p s0.time K < n) (hK' : acts p s0.time (K + 1) = n) :
    ((Nat.repeat (iter m p) (K + 1) s0).live.tstate t = .working ∧
     (Nat.repeat (iter m p) (K + 1) s0).live.rem t = D - (n : Rat) * (m.task t).autoRate ∧
     D - (n : Rat) * (m.task t).autoRate ≤ 0) ∧
    ∀ j, (Nat.repeat (iter m p) (K + 2 + j) s0).live.tstate t = .finished ∧
         (Nat.repeat (iter m p) (K + 2 + j) s0).live.rem t = 0 := by
  obtain ⟨w1, w2⟩ := run_working h p s0 hr hstart hrem hn K hK
  rw [hK'] at w2
  rw [hK', occState, if_neg (by omega)] at w1
  refine ⟨⟨w1, w2, hn.rem_done⟩, ?_⟩
  have hfin := iter_working_done h p (Nat.repeat (iter m p) (K + 1) s0) w1
    (by rw [w2]; exact hn.rem_done)
  intro j
  rw [Nat.add_comm (K + 2) j, repeat_add]
  have := repeat_iter_finished (m := m) (t := t) p (Nat.repeat (iter m p) (K + 2) s0) hfin.1 j
  exact ⟨this.1, this.2.trans hfin.2⟩

/-- the task is WORKING at the end of exactly the iterations from the one of the first active
step (`1 ≤ acts … j`) to iteration `K + 1`, the one in which the `n`-th active step happens -/
theorem run_working_iff (h : SubTask m t) (p : Params) (s0 : St) {D : Rat} {n : Nat}
    (hr : 0 < (m.task t).autoRate)
    (hstart : (update m s0.time s0.live).tstate t = .ready) (hrem : s0.live.rem t = D)
    (hn : IsCeil D (m.task t).autoRate n) (hn1 : 1 ≤ n) (K : Nat)
    (hK : acts p s0.time K < n) (hK' : acts p s0.time (K + 1) = n) (j : Nat) (hj : 1 ≤ j) :
    (Nat.repeat (iter m p) j s0).live.tstate t = .working ↔ 1 ≤ acts p s0.time j ∧ j ≤ K + 1 := by
  constructor
  · intro hw
    have hle : j ≤ K + 1 := by
      apply Nat.le_of_not_lt
      intro hlt
      have := (run_finished h p s0 hr hstart hrem hn hn1 K hK hK').2 (j - (K + 2))
      rw [show K + 2 + (j - (K + 2)) = j by omega, hw] at this
      cases this.1
    refine ⟨?_, hle⟩
    obtain ⟨j', rfl⟩ : ∃ j', j = j' + 1 := ⟨j - 1, by omega⟩
    have := (run_working h p s0 hr hstart hrem hn j'
      (Nat.lt_of_le_of_lt (acts_mono p s0.time (by omega)) hK)).1
    rw [hw, occState] at this
    apply Nat.pos_of_ne_zero
    intro e; rw [if_pos e] at this; cases this
  · intro ⟨hpos, hle⟩
    obtain ⟨j', rfl⟩ : ∃ j', j = j' + 1 := ⟨j - 1, by omega⟩
    have := (run_working h p s0 hr hstart hrem hn j'
      (Nat.lt_of_le_of_lt (acts_mono p s0.time (by omega)) hK)).1
    rw [this, occState, if_neg (by omega)]

/-- before the first active step the task waits in READY with all its work -/
theorem run_ready (h : SubTask m t) (p : Params) (s0 : St) {D : Rat} {n : Nat}
    (hr : 0 < (m.task t).autoRate)
    (hstart : (update m s0.time s0.live).tstate t = .ready) (hrem : s0.live.rem t = D)
    (hn : IsCeil D (m.task t).autoRate n) (hn1 : 1 ≤ n) (j : Nat) (hj : 1 ≤ j)
    (hz : acts p s0.time j = 0) :
    (Nat.repeat (iter m p) j s0).live.tstate t = .ready ∧
    (Nat.repeat (iter m p) j s0).live.rem t = D := by
  obtain ⟨j', rfl⟩ : ∃ j', j = j' + 1 := ⟨j - 1, by omega⟩
  have hlt : acts p s0.time j' < n := by
    have := acts_le_succ p s0.time j'; omega
  obtain ⟨w1, w2⟩ := run_working h p s0 hr hstart hrem hn j' hlt
  rw [hz] at w1 w2
  refine ⟨w1, ?_⟩
  rw [w2]
  have : ((0 : Nat) : Rat) = 0 := rfl
  rw [this]; grind

/-! ### the rows of the task-state log -/

/-- the row an iteration appends to the task-state log -/
theorem iter_tState (p : Params) (s : St) (ht : t < m.nT) :
    (iter m p s).logs.tState t =
      s.logs.tState t ++ [showT (workingAt p s.time) ((iter m p s).live.tstate t)] :=
  Lifecycle.record_tState m _ _ _ t ht

theorem repeat_iter_tState (p : Params) (s : St) (ht : t < m.nT) (k : Nat) :
    (Nat.repeat (iter m p) k s).logs.tState t =
      s.logs.tState t ++ (List.range k).map fun j =>
        showT (workingAt p (s.time + j)) ((Nat.repeat (iter m p) (j + 1) s).live.tstate t) := by
  induction k with
  | zero => simp [Nat.repeat]
  | succ k ih =>
    show (iter m p (Nat.repeat (iter m p) k s)).logs.tState t = _
    rw [iter_tState p _ ht, ih, repeat_iter_time, List.range_succ, List.map_append,
      List.append_assoc]
    rfl

/-- what a WORKING task is displayed as -/
def shownWorking (p : Params) (k : Nat) : TS := if workingAt p k = true then .working else .ready

theorem count_shownWorking (p : Params) (τ k : Nat) (hf : p.autoFlag = false) :
    ((List.range k).map fun j => shownWorking p (τ + j)).count .working = acts p τ k := by
  induction k with
  | zero => rfl
  | succ k ih =>
    rw [List.range_succ, List.map_append, List.count_append, ih, acts_succ]
    congr 1
    simp only [shownWorking, activeAt, workingAt, hf, Bool.or_false, List.map_cons, List.map_nil]
    by_cases hc : τ + k ∈ p.absence <;> simp [hc]

/-! ### `stepsBelow` counted -/

theorem mem_stepsBelow (n : Nat) (xs : List Nat) (k : Nat) :
    k ∈ stepsBelow n xs ↔ k < n ∧ k ∈ xs := by
  simp [stepsBelow, canonSet]

theorem stepsBelow_nodup (n : Nat) (xs : List Nat) : (stepsBelow n xs).Nodup :=
  List.Nodup.sublist List.filter_sublist List.nodup_range

/-- `(stepsBelow n xs).length` is the number of `k < n` with `k ∈ xs` -/
theorem stepsBelow_length (n : Nat) (xs : List Nat) :
    (stepsBelow n xs).length = (List.range n).countP (fun k => decide (k ∈ xs)) := by
  rw [List.countP_eq_length_filter]
  unfold stepsBelow canonSet
  congr 1
  apply List.filter_congr
  intro k _
  simp

theorem stepsBelow_length_le (n : Nat) (xs : List Nat) : (stepsBelow n xs).length ≤ n := by
  have := List.length_filter_le (fun i => xs.contains i) (List.range n)
  simpa [stepsBelow, canonSet] using this

/-- for a duplicate-free list of steps below `n` the count is the length of the list -/
theorem stepsBelow_length_of_nodup (n : Nat) (xs : List Nat) (hnd : xs.Nodup)
    (hlt : ∀ k ∈ xs, k < n) : (stepsBelow n xs).length = xs.length := by
  apply List.Perm.length_eq
  rw [List.perm_ext_iff_of_nodup (stepsBelow_nodup n xs) hnd]
  intro k
  rw [mem_stepsBelow]
  exact ⟨fun h => h.2, fun h => ⟨hlt k h, h⟩⟩

end Auto
end PDesy
