/-
  PDesy.Lemmas.Loop — induction principles for the simulation loop.
-/
import PDesy.Model.Trace

namespace PDesy

theorem simulate_eq (m : Model) (p : Params) (s : St) :
    simulate m p s = loop m p (fuelOf p (enter m p s)) (enter m p s) := rfl

/-- An invariant of `update` and of `stepBody` (on not-yet-done states) holds at every
`ticked` state of the loop. -/
theorem trace_inv (m : Model) (p : Params) (Inv : St → Prop)
    (hupd : ∀ s, Inv s → Inv (updated m s))
    (hstep : ∀ s, Inv s → done m p s = false → Inv (stepBody m p s)) :
    ∀ fuel s, Inv s → ∀ s' ∈ trace m p fuel s, Inv s' := by
  intro fuel
  induction fuel with
  | zero => intro s _ s' h; simp [trace] at h
  | succ n ih =>
    intro s hs s' h
    simp only [trace] at h
    split at h
    · simp at h
    · rename_i hd
      have h2 := hstep _ (hupd _ hs) (by simpa using hd)
      rcases List.mem_cons.mp h with h | h
      · subst h; exact h2
      · exact ih _ h2 _ h

/-- … and at every `updated` state. -/
theorem updTrace_inv (m : Model) (p : Params) (Inv : St → Prop)
    (hupd : ∀ s, Inv s → Inv (updated m s))
    (hstep : ∀ s, Inv s → done m p s = false → Inv (stepBody m p s)) :
    ∀ fuel s, Inv s → ∀ s' ∈ updTrace m p fuel s, Inv s' := by
  intro fuel
  induction fuel with
  | zero => intro s _ s' h; simp [updTrace] at h
  | succ n ih =>
    intro s hs s' h
    simp only [updTrace] at h
    split at h
    · simp at h; subst h; exact hupd _ hs
    · rename_i hd
      rcases List.mem_cons.mp h with h | h
      · subst h; exact hupd _ hs
      · exact ih _ (hstep _ (hupd _ hs) (by simpa using hd)) _ h

/-- the final state of the loop: an invariant that ignores `status` holds there too -/
theorem loop_inv (m : Model) (p : Params) (Inv : St → Prop)
    (hupd : ∀ s, Inv s → Inv (updated m s))
    (hstep : ∀ s, Inv s → done m p s = false → Inv (stepBody m p s))
    (hstatus : ∀ s st, Inv s → Inv { s with status := st }) :
    ∀ fuel s, Inv s → Inv (loop m p fuel s) := by
  intro fuel
  induction fuel with
  | zero => intro s hs; simpa [loop] using hs
  | succ n ih =>
    intro s hs
    simp only [loop]
    have h1 : Inv (updated m s) := hupd _ hs
    split
    · exact hstatus _ _ h1
    · split
      · exact hstatus _ _ h1
      · rename_i hf ht
        apply ih
        apply hstep _ h1
        simp only [done, updated, Bool.or_eq_false_iff, decide_eq_false_iff_not]
        exact ⟨by simpa [updated] using hf, by simpa [updated] using ht⟩

end PDesy
