/-
  PDesy.Lemmas.Unplaced — helper lemmas for the "still unplaced" clause of C06 ("no avoidable
  waiting"): a ready single-task component that is not placed after an allocation pass could not
  enter any of its task's workplaces.

  * `turnAcc`, `turnState` : the accumulator / live state of the allocation loop when it reaches
                             task `t` (the fold over the tasks that precede `t`);
  * `isReady_single`       : a READY task that holds no worker makes its single-task component
                             ready;
  * `allocTask_unplaced`   : one turn: component not yet moved in this pass, ready, and not placed
                             after the turn — then every candidate workplace failed `placeOk`;
  * `moved_sub`            : a component enters the `moved` list only at the turn of one of its
                             own tasks;
  * `allocate_unplaced_turn` : the clause for `allocate`, read in the state at `t`'s turn;
  * `foldl_allocTask_still`  : a stretch of the pass in which the ghost list of moves is empty
                               leaves `placed` and `wpComps` alone;
  * `allocate_unplaced`      : the clause for `allocate`, read in the state after the pass, when
                               nothing was moved in the pass;
  * `stepBody_unplaced`      : the same at the end of a working step.
-/
import PDesy.Lemmas.Pairs

namespace PDesy
namespace Unplaced

open NoWait

/-! ### the state of the loop at a task's turn -/

/-- the accumulator of the allocation loop of `allocate m lg rule l` when it reaches task `t`:
the fold of `allocTask` over the tasks that precede `t` in the sorted candidate list -/
def turnAcc (m : Model) (lg : Logs) (rule : TaskRule) (l : Live) (t : Nat) : Alloc :=
  ((sortTasks m l lg rule (cands m l)).takeWhile (· != t)).foldl (allocTask m)
    { l := l, free := Elig.freeOf m l }

/-- the live state at task `t`'s turn in the loop of `allocate m lg rule l` -/
def turnState (m : Model) (lg : Logs) (rule : TaskRule) (l : Live) (t : Nat) : Live :=
  (turnAcc m lg rule l t).l

theorem takeWhile_ne_split {t : Nat} :
    ∀ {pre post : List Nat}, t ∉ pre → (pre ++ t :: post).takeWhile (· != t) = pre := by
  intro pre
  induction pre with
  | nil => intro post _; simp
  | cons x xs ih =>
    intro post h
    have hx : x ≠ t := fun e => h (e ▸ List.mem_cons_self)
    have hxs : t ∉ xs := fun hm => h (List.mem_cons_of_mem _ hm)
    rw [List.cons_append, List.takeWhile_cons_of_pos (by simpa using hx), ih hxs]

theorem turnAcc_eq {m : Model} {lg : Logs} {rule : TaskRule} {l : Live} {t : Nat}
    {pre post : List Nat} (e : sortTasks m l lg rule (cands m l) = pre ++ t :: post)
    (hn : t ∉ pre) :
    turnAcc m lg rule l t = pre.foldl (allocTask m) { l := l, free := Elig.freeOf m l } := by
  unfold turnAcc
  rw [e, takeWhile_ne_split hn]

/-! ### `is_ready` of a single-task component -/

/-- a READY task that holds no worker makes the component that carries it alone ready -/
theorem isReady_single {m : Model} {l : Live} {c t : Nat} (hsingle : (m.comp c).tasks = [t])
    (hs : l.tstate t = .ready) (hnoW : l.allocW t = []) : isReady m l c = true := by
  unfold isReady
  simp [hsingle, hs, hnoW]

/-! ### one turn -/

theorem placeMoves_comp {m : Model} {t : Nat} {l : Live} {c : Nat}
    (h : placeMoves m t l = some c) : (m.task t).comp = some c := by
  rcases Place.placeStep_cases m t l with ⟨e, _⟩ | ⟨c', _, hc', _, _, e, _⟩
  · rw [e] at h; cases h
  · rw [e] at h; cases h; exact hc'

/-- the placement part of `allocTask` for a task whose component has not been moved in this pass -/
theorem headOf_fresh {m : Model} {acc : Alloc} {t c : Nat} (hc : (m.task t).comp = some c)
    (hnm : c ∉ acc.moved) : (headOf m acc t).l = placeStep m t acc.l := by
  unfold headOf
  have : acc.moved.contains c = false := by simpa using hnm
  simp only [hc, this, Bool.false_eq_true, if_false]

/-- **one turn.**  The component `c` of task `t` has not been moved in this pass and is ready, and
it is not placed after `t`'s turn: then every workplace of `t` failed the test `placeOk` (conveyor
rule, free space, facility skill) in the state before the turn. -/
theorem allocTask_unplaced (m : Model) (acc : Alloc) (t c : Nat)
    (hc : (m.task t).comp = some c) (hnm : c ∉ acc.moved) (hr : isReady m acc.l c = true)
    (hpl : (allocTask m acc t).l.placed c = Option.none) :
    ∀ p ∈ (m.task t).wps, placeOk m acc.l t c p = false := by
  rw [Pairs.allocTask_placed, headOf_fresh hc hnm] at hpl
  unfold placeStep at hpl
  simp only [hc, hr, if_true] at hpl
  intro p hp
  cases hf : (sortWps m acc.l (m.task t).wpRule (m.task t).name (m.task t).wps).find?
      (placeOk m acc.l t c) with
  | none =>
    have := List.find?_eq_none.mp hf p (Sort.mem_sortWps.mpr hp)
    simpa using this
  | some q =>
    rw [hf] at hpl
    simp only [Place.moveComp_placed, upd_same] at hpl
    cases hpl

/-! ### a component enters `moved` only at the turn of one of its own tasks -/

theorem stepMoves_comp {m : Model} {acc : Alloc} {t c : Nat} (h : c ∈ Place.stepMoves m acc t) :
    (m.task t).comp = some c := by
  unfold Place.stepMoves at h
  split at h
  · cases h
  · cases hm : placeMoves m t acc.l with
    | none => rw [hm] at h; cases h
    | some c' =>
      rw [hm] at h
      have : c = c' := by simpa using h
      subst this
      exact placeMoves_comp hm

theorem movesOf_comp {m : Model} {c : Nat} :
    ∀ {ts : List Nat} {acc : Alloc}, c ∈ Place.movesOf m acc ts →
      ∃ t ∈ ts, (m.task t).comp = some c := by
  intro ts
  induction ts with
  | nil => intro acc h; cases h
  | cons t ts ih =>
    intro acc h
    rw [Place.movesOf, List.mem_append] at h
    rcases h with h | h
    · exact ⟨t, List.mem_cons_self, stepMoves_comp h⟩
    · obtain ⟨t', ht', hc'⟩ := ih h
      exact ⟨t', List.mem_cons_of_mem _ ht', hc'⟩

/-- a component that no task of the list targets is not added to the `moved` list -/
theorem moved_sub {m : Model} {c : Nat} {ts : List Nat} {acc : Alloc}
    (h : c ∈ (ts.foldl (allocTask m) acc).moved) :
    c ∈ acc.moved ∨ ∃ t ∈ ts, (m.task t).comp = some c := by
  rw [Place.foldl_allocTask_moved, List.mem_append] at h
  rcases h with h | h
  · exact Or.inl h
  · exact Or.inr (movesOf_comp h)

/-! ### `allocate`, read at the task's turn -/

/-- **the "still unplaced" clause in the state at the task's turn.**  `t` is a READY candidate
that holds no worker, the only task that targets component `c`, and `c` lists `t` only.  If `c` is
not placed after the pass, every workplace of `t` failed `placeOk` in the state at `t`'s turn. -/
theorem allocate_unplaced_turn (m : Model) (lg : Logs) (rule : TaskRule) (l : Live) (t c : Nat)
    (ht : t < m.nT) (hs : l.tstate t = .ready) (hnoW : l.allocW t = [])
    (hc : (m.task t).comp = some c) (honly : Pairs.OnlyTask m c t)
    (hsingle : (m.comp c).tasks = [t])
    (hpl : (allocate m lg rule l).placed c = Option.none) :
    ∀ p ∈ (m.task t).wps, placeOk m (turnState m lg rule l t) t c p = false := by
  have hmem : t ∈ sortTasks m l lg rule (cands m l) :=
    Sort.mem_sortTasks.mpr (mem_cands.mpr ⟨ht, Or.inl hs⟩)
  obtain ⟨pre, post, e, hnpre, hnpost⟩ := Pairs.mem_split_nodup hmem (sorted_nodup m l lg rule)
  unfold turnState
  rw [turnAcc_eq e hnpre]
  rw [allocate_eq, e, List.foldl_append, List.foldl_cons,
    Pairs.foldl_allocTask_placed m c post _ (honly.others e hnpost)] at hpl
  have h0 := freeOf_nodup m l
  have g1 := (foldl_allocTask m pre { l := l, free := Elig.freeOf m l } h0).2.1.grow
  have e1 := foldl_allocTask_allocW_other m t pre { l := l, free := Elig.freeOf m l } hnpre
  have hnm : c ∉ (pre.foldl (allocTask m) { l := l, free := Elig.freeOf m l }).moved := by
    intro hm
    rcases moved_sub hm with hm | ⟨t', ht', hc'⟩
    · cases hm
    · have hmem' : t' ∈ sortTasks m l lg rule (cands m l) := by
        rw [e]; exact List.mem_append_left _ ht'
      have hlt := (mem_cands.mp (Sort.mem_sortTasks.mp hmem')).1
      exact hnpre (honly t' hlt hc' ▸ ht')
  generalize pre.foldl (allocTask m) { l := l, free := Elig.freeOf m l } = a0 at *
  refine allocTask_unplaced m a0 t c hc hnm (isReady_single hsingle ?_ ?_) hpl
  · rw [g1.ts]; exact hs
  · rw [e1]; exact hnoW

/-! ### a stretch of the pass in which nothing is moved -/

theorem wStep_wpComps (m : Model) (t : Nat) (acc : Alloc) (w : Nat) :
    (wStep m t acc w).l.wpComps = acc.l.wpComps := by
  unfold wStep; split <;> rfl

theorem pStep_wpComps (m : Model) (t p : Nat) (acc : Alloc) (f : Nat) :
    (pStep m t p acc f).l.wpComps = acc.l.wpComps := by
  unfold pStep; dsimp only; split <;> rfl

theorem allocWorkers_wpComps (m : Model) (t : Nat) (a : Alloc) :
    (allocWorkers m t a).l.wpComps = a.l.wpComps := by
  rw [allocWorkers_eq]
  exact Lifecycle.foldl_proj (wStep m t) (fun a : Alloc => a.l.wpComps) (wStep_wpComps m t) _ _

theorem allocPairs_wpComps (m : Model) (t : Nat) (a : Alloc) :
    (allocPairs m t a).l.wpComps = a.l.wpComps := by
  unfold allocPairs
  split
  · rfl
  · split
    · rfl
    · rename_i p _
      exact Lifecycle.foldl_proj (pStep m t p) (fun a : Alloc => a.l.wpComps)
        (pStep_wpComps m t p) _ _

/-- the workplace lists change only in the placement part of a turn -/
theorem allocTask_wpComps (m : Model) (acc : Alloc) (t : Nat) :
    (allocTask m acc t).l.wpComps = (headOf m acc t).l.wpComps := by
  rw [NoWait.allocTask_eq]
  split
  · rfl
  · split
    · exact allocPairs_wpComps m t _
    · exact allocWorkers_wpComps m t _

/-- a turn that executes no move leaves the placement alone -/
theorem headOf_still (m : Model) (acc : Alloc) (t : Nat) (h : Place.stepMoves m acc t = []) :
    (headOf m acc t).l = acc.l := by
  have key : ∀ (b : Bool) (mv : List Nat),
      (if b then [] else (placeMoves m t acc.l).toList) = [] →
      (if b then acc else { acc with l := placeStep m t acc.l, moved := mv }).l = acc.l := by
    intro b mv hb
    cases b
    · simp only [Bool.false_eq_true, if_false] at hb ⊢
      rcases Place.placeStep_cases m t acc.l with ⟨_, e⟩ | ⟨c, _, _, _, _, e, _⟩
      · exact e
      · rw [e] at hb; cases hb
    · rfl
  unfold Place.stepMoves Place.skipB at h
  unfold headOf
  cases hc : (m.task t).comp with
  | none => rw [hc] at h; exact key false _ h
  | some c => rw [hc] at h; exact key (acc.moved.contains c) _ h

theorem allocTask_still (m : Model) (acc : Alloc) (t : Nat) (h : Place.stepMoves m acc t = []) :
    (allocTask m acc t).l.placed = acc.l.placed ∧ (allocTask m acc t).l.wpComps = acc.l.wpComps := by
  rw [Pairs.allocTask_placed, allocTask_wpComps, headOf_still m acc t h]
  exact ⟨rfl, rfl⟩

/-- a stretch of the pass whose ghost list of moves is empty leaves `placed` and `wpComps` alone -/
theorem foldl_allocTask_still (m : Model) :
    ∀ (ts : List Nat) (acc : Alloc), Place.movesOf m acc ts = [] →
      (ts.foldl (allocTask m) acc).l.placed = acc.l.placed ∧
      (ts.foldl (allocTask m) acc).l.wpComps = acc.l.wpComps := by
  intro ts
  induction ts with
  | nil => intro acc _; exact ⟨rfl, rfl⟩
  | cons t ts ih =>
    intro acc h
    rw [Place.movesOf, List.append_eq_nil_iff] at h
    obtain ⟨i1, i2⟩ := ih _ h.2
    obtain ⟨s1, s2⟩ := allocTask_still m acc t h.1
    rw [List.foldl_cons, i1, i2, s1, s2]
    exact ⟨rfl, rfl⟩

theorem movesOf_append (m : Model) :
    ∀ (pre post : List Nat) (acc : Alloc),
      Place.movesOf m acc (pre ++ post) =
        Place.movesOf m acc pre ++ Place.movesOf m (pre.foldl (allocTask m) acc) post := by
  intro pre
  induction pre with
  | nil => intro post acc; simp [Place.movesOf]
  | cons t ts ih =>
    intro post acc
    rw [List.cons_append, Place.movesOf, Place.movesOf, ih, List.foldl_cons, List.append_assoc]

/-- the ghost list of the pass, over the same expressions as `allocate_eq` -/
theorem passMoves_eq (m : Model) (lg : Logs) (rule : TaskRule) (l : Live) :
    Place.passMoves m lg rule l =
      Place.movesOf m { l := l, free := Elig.freeOf m l } (sortTasks m l lg rule (cands m l)) := rfl

/-- `placeOk` reads, of the live state, only where the component is and what the workplace holds -/
theorem placeOk_congr {m : Model} {l l' : Live} {t c p : Nat} (h1 : l'.placed c = l.placed c)
    (h2 : l'.wpComps p = l.wpComps p) : placeOk m l' t c p = placeOk m l t c p := by
  unfold placeOk availSpace
  rw [h1, h2]

/-- when no move is executed in the pass, `placed` and `wpComps` are the same before the pass, at
every task's turn and after the pass -/
theorem allocate_still (m : Model) (lg : Logs) (rule : TaskRule) (l : Live)
    (hnm : Place.passMoves m lg rule l = []) :
    (allocate m lg rule l).placed = l.placed ∧ (allocate m lg rule l).wpComps = l.wpComps ∧
    ∀ t, (turnState m lg rule l t).placed = l.placed ∧
      (turnState m lg rule l t).wpComps = l.wpComps := by
  rw [passMoves_eq] at hnm
  refine ⟨?_, ?_, ?_⟩
  · rw [allocate_eq]; exact (foldl_allocTask_still m _ _ hnm).1
  · rw [allocate_eq]; exact (foldl_allocTask_still m _ _ hnm).2
  · intro t
    unfold turnState turnAcc
    apply foldl_allocTask_still
    have := List.takeWhile_append_dropWhile (p := (· != t)) (l := sortTasks m l lg rule (cands m l))
    rw [← this, movesOf_append, List.append_eq_nil_iff] at hnm
    exact hnm.1

/-- **the "still unplaced" clause in the state after the pass**, when no move was executed in the
pass (`Place.passMoves … = []`, the ghost list of the moves of the pass). -/
theorem allocate_unplaced (m : Model) (lg : Logs) (rule : TaskRule) (l : Live) (t c : Nat)
    (ht : t < m.nT) (hs : l.tstate t = .ready) (hnoW : l.allocW t = [])
    (hc : (m.task t).comp = some c) (honly : Pairs.OnlyTask m c t)
    (hsingle : (m.comp c).tasks = [t])
    (hpl : (allocate m lg rule l).placed c = Option.none)
    (hnm : Place.passMoves m lg rule l = []) :
    ∀ p ∈ (m.task t).wps, placeOk m (allocate m lg rule l) t c p = false := by
  intro p hp
  obtain ⟨e1, e2, e3⟩ := allocate_still m lg rule l hnm
  rw [← allocate_unplaced_turn m lg rule l t c ht hs hnoW hc honly hsingle hpl p hp]
  exact placeOk_congr (by rw [e1, (e3 t).1]) (by rw [e2, (e3 t).2])

/-! ### "nothing moved", read off the placement map

The ghost list of moves is not observable.  What is observable is the placement map before and
after the pass.  A component is moved at most once per pass, so if no component's `placed` entry
differs before and after the pass, every executed move put a component back where it was — which,
in a state that satisfies the placement invariant `Place.Inv`, changes at most the order of a
workplace's list and hence no free space. -/

/-- once a component is in the `moved` list, the rest of the pass does not touch its placement -/
theorem foldl_allocTask_placed_moved (m : Model) (c : Nat) :
    ∀ (ts : List Nat) (acc : Alloc), c ∈ acc.moved →
      (ts.foldl (allocTask m) acc).l.placed c = acc.l.placed c := by
  intro ts
  induction ts with
  | nil => intro acc _; rfl
  | cons t ts ih =>
    intro acc h
    have hm : c ∈ (allocTask m acc t).moved := by
      rw [Place.allocTask_moved]; exact List.mem_append_left _ h
    rw [List.foldl_cons, ih _ hm]
    by_cases hc : (m.task t).comp = some c
    · rw [Pairs.allocTask_placed]
      unfold headOf
      have : acc.moved.contains c = true := by simpa using h
      simp only [hc, this, if_true]
    · exact Pairs.allocTask_placed_other m acc t c hc

/-- a turn that puts a component back where it was does not change any free space -/
theorem moveComp_back_availSpace {m : Model} {l : Live} (h : Place.PlaceInv m l) {c p : Nat}
    (hc : c < m.nC) (hp : p < m.nWp) (hpl : l.placed c = some p) (q : Nat) (hq : q < m.nWp) :
    availSpace m (moveComp l c p) q = availSpace m l q := by
  unfold availSpace
  rw [Place.moveComp_wpComps m h hc hp q hq]
  split
  · rename_i e; subst e
    rw [Place.sumList_map_erase_append (fun c => (m.comp c).size) c (l.wpComps q),
      if_pos ((h.two c hc q hq).mpr hpl)]
  · rename_i e
    have : c ∉ l.wpComps q := by
      intro hm
      have := (h.two c hc q hq).mp hm
      rw [hpl] at this
      exact e (Option.some.inj this).symm
    rw [List.erase_of_not_mem this]

/-- a stretch of the pass after which every component is where it was when the pass started does
not change any free space -/
theorem foldl_allocTask_availSpace (m : Model) (wf : Place.PlaceWF m) (l0 : Live) :
    ∀ (ts : List Nat) (acc : Alloc), (∀ t ∈ ts, t < m.nT) → Place.Inv m acc.l →
      Place.MoveInv m l0 acc →
      (∀ c, c < m.nC → (ts.foldl (allocTask m) acc).l.placed c = l0.placed c) →
      ∀ q, q < m.nWp → availSpace m (ts.foldl (allocTask m) acc).l q = availSpace m acc.l q := by
  intro ts
  induction ts with
  | nil => intro acc _ _ _ _ q _; rfl
  | cons t ts ih =>
    intro acc hts hinv hmv hfin q hq
    have ht : t < m.nT := hts t List.mem_cons_self
    rw [List.foldl_cons] at hfin ⊢
    rw [ih (allocTask m acc t) (fun t' ht' => hts t' (List.mem_cons_of_mem _ ht'))
      (Place.Inv_allocTask m wf acc t ht hinv) (Place.MoveInv_allocTask m hmv t) hfin q hq]
    unfold availSpace
    rw [allocTask_wpComps]
    show availSpace m (headOf m acc t).l q = availSpace m acc.l q
    cases hcomp : (m.task t).comp with
    | none =>
      unfold headOf
      simp only [hcomp, Bool.false_eq_true, if_false]
      rcases Place.placeStep_cases m t acc.l with ⟨_, e⟩ | ⟨c, _, hc', _⟩
      · rw [e]
      · rw [hcomp] at hc'; cases hc'
    | some c =>
      by_cases hin : c ∈ acc.moved
      · unfold headOf
        have : acc.moved.contains c = true := by simpa using hin
        simp only [hcomp, this, if_true]
      · rw [headOf_fresh hcomp hin]
        rcases Place.placeStep_cases m t acc.l with ⟨_, e⟩ | ⟨c', p, hc', _, hok, hpm, e⟩
        · rw [e]
        · rw [hcomp] at hc'
          cases hc'
          rw [e]
          have hc := wf.comp_lt t ht c hcomp
          have hp := (Place.placeOk_true m hok).1
          have hm1 : c ∈ (allocTask m acc t).moved := by
            rw [Place.allocTask_moved]
            apply List.mem_append_right
            unfold Place.stepMoves Place.skipB
            simp [hcomp, hin, hpm]
          have h1 : (allocTask m acc t).l.placed c = some p := by
            rw [Pairs.allocTask_placed, headOf_fresh hcomp hin, e, Place.moveComp_placed, upd_same]
          have h2 := hfin c hc
          rw [foldl_allocTask_placed_moved m c ts _ hm1, h1, ← hmv.same c hin] at h2
          exact moveComp_back_availSpace hinv.toPlaceInv hc hp h2.symm q hq

theorem placeOk_congr_space {m : Model} {l l' : Live} {t c p : Nat}
    (h1 : l'.placed c = l.placed c) (h2 : p < m.nWp → availSpace m l' p = availSpace m l p) :
    placeOk m l' t c p = placeOk m l t c p := by
  by_cases hp : p < m.nWp
  · unfold placeOk
    rw [h1, h2 hp]
  · unfold placeOk
    simp [hp]

/-- **the "still unplaced" clause in the state after the pass, observable form.**  The model is
well-formed for placement and the incoming state satisfies the placement invariant; no component
of the model is at a different place after the pass than before it. -/
theorem allocate_unplaced_obs (m : Model) (wf : Place.PlaceWF m) (lg : Logs) (rule : TaskRule)
    (l : Live) (hinv : Place.Inv m l) (t c : Nat)
    (ht : t < m.nT) (hs : l.tstate t = .ready) (hnoW : l.allocW t = [])
    (hc : (m.task t).comp = some c) (honly : Pairs.OnlyTask m c t)
    (hsingle : (m.comp c).tasks = [t])
    (hpl : (allocate m lg rule l).placed c = Option.none)
    (hsame : ∀ c', c' < m.nC → (allocate m lg rule l).placed c' = l.placed c') :
    ∀ p ∈ (m.task t).wps, placeOk m (allocate m lg rule l) t c p = false := by
  intro p hp
  rw [← allocate_unplaced_turn m lg rule l t c ht hs hnoW hc honly hsingle hpl p hp]
  have hmem : t ∈ sortTasks m l lg rule (cands m l) :=
    Sort.mem_sortTasks.mpr (mem_cands.mpr ⟨ht, Or.inl hs⟩)
  obtain ⟨pre, post, e, hnpre, _⟩ := Pairs.mem_split_nodup hmem (sorted_nodup m l lg rule)
  have hlt : ∀ t' ∈ sortTasks m l lg rule (cands m l), t' < m.nT :=
    fun t' ht' => (mem_cands.mp (Sort.mem_sortTasks.mp ht')).1
  unfold turnState
  rw [turnAcc_eq e hnpre]
  have hpre : ∀ t' ∈ pre, (m.task t').comp ≠ some c := by
    intro t' ht' hc'
    have hm' : t' ∈ sortTasks m l lg rule (cands m l) := by
      rw [e]; exact List.mem_append_left _ ht'
    exact hnpre (honly t' (hlt t' hm') hc' ▸ ht')
  have ep := Pairs.foldl_allocTask_placed m c pre { l := l, free := Elig.freeOf m l } hpre
  have hi0 : Place.Inv m (pre.foldl (allocTask m) { l := l, free := Elig.freeOf m l }).l := by
    refine Place.foldl_inv_mem (allocTask m) (fun x : Alloc => Place.Inv m x.l) _ ?_ _ hinv
    intro b t' ht' hb
    exact Place.Inv_allocTask m wf b t' (hlt t' (by rw [e]; exact List.mem_append_left _ ht')) hb
  have hm0 : Place.MoveInv m l (pre.foldl (allocTask m) { l := l, free := Elig.freeOf m l }) :=
    Lifecycle.foldl_inv (allocTask m) (Place.MoveInv m l)
      (fun b a hb => Place.MoveInv_allocTask m hb a) pre _
      ⟨rfl, List.nodup_nil, fun _ _ => rfl, fun _ hc => by cases hc⟩
  have hfin : ∀ c', c' < m.nC →
      ((t :: post).foldl (allocTask m)
        (pre.foldl (allocTask m) { l := l, free := Elig.freeOf m l })).l.placed c' = l.placed c' := by
    intro c' hc'
    have := hsame c' hc'
    rw [allocate_eq, e, List.foldl_append] at this
    exact this
  have hsp := foldl_allocTask_availSpace m wf l (t :: post) _
    (fun t' ht' => hlt t' (by rw [e]; exact List.mem_append_right _ ht')) hi0 hm0 hfin
  have hcl := wf.comp_lt t ht c hc
  refine placeOk_congr_space ?_ ?_
  · rw [ep]; exact hsame c hcl
  · intro hq
    rw [← hsp p hq, allocate_eq, e, List.foldl_append]

/-! ### the end of a working step -/

/-- the workplace lists at the end of a working step are those after the allocation pass -/
theorem stepBody_wpComps (m : Model) (p : Params) (s : St)
    (hwork : p.absence.contains s.time = false) :
    (stepBody m p s).live.wpComps =
      (allocate m s.logs p.rule (absenceSet m s.time true s.live)).wpComps := by
  have : (stepBody m p s).live.wpComps =
      (chkWorking m (allocate m s.logs p.rule (absenceSet m s.time true s.live))).wpComps := by
    rw [Alloc.stepBody_live]; simp only [hwork, Bool.not_false, Bool.true_or, if_true]; rfl
  rw [this, Place.core_wpComps (Place.chkWorking_core m _)]

/-- a task that is READY after `check_state(WORKING)` was READY before and holds no worker -/
theorem chkWorking_ready (m : Model) (l : Live) (t : Nat) (ht : t < m.nT)
    (h : (chkWorking m l).tstate t = .ready) : l.tstate t = .ready ∧ l.allocW t = [] := by
  have hl : l.tstate t = .ready := by
    rcases Alloc.chkWorking_tstate_cases m l t with e | ⟨_, e⟩
    · rw [← e]; exact h
    · rw [e] at h; cases h
  refine ⟨hl, ?_⟩
  apply Classical.byContradiction
  intro hne
  have hw : (chkWorking m l).tstate t = .working := by
    rw [Alloc.chkWorking_eq]
    exact (Alloc.foldl_startOne_tstate m _ l).2 t
      (List.mem_filter.mpr ⟨List.mem_range.mpr ht,
        Alloc.workingTarget_of_alloc (Or.inl hl) hne⟩) (Or.inl hl)
  rw [hw] at h; cases h

/-- the "still unplaced" clause read at the end of a working step -/
theorem stepBody_unplaced (m : Model) (p : Params) (s : St)
    (hwork : p.absence.contains s.time = false) (t c : Nat)
    (ht : t < m.nT) (hs : (stepBody m p s).live.tstate t = .ready)
    (hc : (m.task t).comp = some c) (honly : Pairs.OnlyTask m c t)
    (hsingle : (m.comp c).tasks = [t])
    (hpl : (stepBody m p s).live.placed c = Option.none)
    (hnm : Place.passMoves m s.logs p.rule (absenceSet m s.time true s.live) = []) :
    ∀ q ∈ (m.task t).wps, placeOk m (stepBody m p s).live t c q = false := by
  intro q hq
  have ew := stepBody_wpComps m p s hwork
  obtain ⟨l3, e1, _, _, _, _, _, _, e8, hl3⟩ := Pairs.stepBody_work m p s hwork
  generalize absenceSet m s.time true s.live = l1 at *
  rw [e1, hl3] at hs
  obtain ⟨hs2, hw2⟩ := chkWorking_ready m _ t ht hs
  have hg := allocate_grow m s.logs p.rule l1
  have hs1 : l1.tstate t = .ready := by rw [← hg.ts]; exact hs2
  have hw1 : l1.allocW t = [] := by
    cases hl : l1.allocW t with
    | nil => rfl
    | cons x xs =>
      have := hg.subW t x (by rw [hl]; exact List.mem_cons_self)
      rw [hw2] at this; cases this
  have ep : (stepBody m p s).live.placed = (allocate m s.logs p.rule l1).placed := by
    rw [e8, hl3, Place.core_placed (Place.chkWorking_core m _)]
  rw [ep] at hpl
  rw [← allocate_unplaced m s.logs p.rule l1 t c ht hs1 hw1 hc honly hsingle hpl hnm q hq]
  exact placeOk_congr (by rw [ep]) (by rw [ew])

/-- the "still unplaced" clause read at the end of a working step, observable form -/
theorem stepBody_unplaced_obs (m : Model) (wf : Place.PlaceWF m) (p : Params) (s : St)
    (hwork : p.absence.contains s.time = false) (hinv : Place.Inv m s.live) (t c : Nat)
    (ht : t < m.nT) (hs : (stepBody m p s).live.tstate t = .ready)
    (hc : (m.task t).comp = some c) (honly : Pairs.OnlyTask m c t)
    (hsingle : (m.comp c).tasks = [t])
    (hpl : (stepBody m p s).live.placed c = Option.none)
    (hsame : ∀ c', c' < m.nC → (stepBody m p s).live.placed c' = s.live.placed c') :
    ∀ q ∈ (m.task t).wps, placeOk m (stepBody m p s).live t c q = false := by
  intro q hq
  have ew := stepBody_wpComps m p s hwork
  obtain ⟨l3, e1, _, _, _, _, _, _, e8, hl3⟩ := Pairs.stepBody_work m p s hwork
  have hinv1 : Place.Inv m (absenceSet m s.time true s.live) := Place.Inv_absenceSet m _ _ hinv
  have hsame1 : ∀ c', c' < m.nC →
      (stepBody m p s).live.placed c' = (absenceSet m s.time true s.live).placed c' := hsame
  generalize absenceSet m s.time true s.live = l1 at *
  rw [e1, hl3] at hs
  obtain ⟨hs2, hw2⟩ := chkWorking_ready m _ t ht hs
  have hg := allocate_grow m s.logs p.rule l1
  have hs1 : l1.tstate t = .ready := by rw [← hg.ts]; exact hs2
  have hw1 : l1.allocW t = [] := by
    cases hl : l1.allocW t with
    | nil => rfl
    | cons x xs =>
      have := hg.subW t x (by rw [hl]; exact List.mem_cons_self)
      rw [hw2] at this; cases this
  have ep : (stepBody m p s).live.placed = (allocate m s.logs p.rule l1).placed := by
    rw [e8, hl3, Place.core_placed (Place.chkWorking_core m _)]
  rw [ep] at hpl hsame1
  rw [← allocate_unplaced_obs m wf s.logs p.rule l1 hinv1 t c ht hs1 hw1 hc honly hsingle hpl
    hsame1 q hq]
  exact placeOk_congr (by rw [ep]) (by rw [ew])

end Unplaced
end PDesy
