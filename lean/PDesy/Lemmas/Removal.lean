/-
  PDesy.Lemmas.Removal — helper lemmas for C10, clause 3 ("deleting the project-wide absence
  steps from the result gives the result of the run without absence").
  Run A = the run with absence list `L`, run B = the run without.

  Stage 1  shift invariance: the forward PERT pass started `d` later computes every `est`
           exactly `d` later (`pert_est_shift`, any link kinds); on finish-to-start networks the
           total slack is the same (`pert_slack_shift`); hence the comparison function of
           `sort_task_list` is the *same function* for every rule but FIFO (`taskLe_pert_shift`),
           and the stable sort gives the same list (`sortBy_congr`).
  Stage 3  the logs: the row appended at a working step stays (`removeLogs_addRow_keep`), the row
           appended at an absence step is the one `popBy` deletes (`removeLogs_addRow_drop`).
  Stage 2  one step.  `setP` / `setT` overwrite the PERT fields / the task states of a live
           state.  Every phase but `pert` and the task sort commutes with `setP` (`*_setP`,
           `upd0_setP`); the allocation pass commutes with any modification it cannot see
           (`ABlind`, `allocate_blind`), in particular with `setP` (and with `setT` for task states
           that are *ahead* only on component-free automatic tasks, `Ahead`, `allocate_over`,
           `chkWorking_over`: more than is needed now, the task states of the two runs are
           equal).  `LRel` is the relation on live states, `preLive_working` / `stepLive_working`
           the working step.
  Stage 4  `Rel` (states at the top of an iteration), `rel_working`, `loop_rel` (the loop, with
           the absence-step lemma `AbsStepOK` as a hypothesis), `enter_rel`,
           `removal_of_absStep`; then the absence step itself, `stepLive_absence`, `upd0_same`,
           `rel_absence`, and the final `removal`.

  The absence step (flag off): `stepBody` runs neither `allocate` nor `check_state(WORKING)` nor
  `perform`, so the live state after it is the updated state with every resource in range set
  to ABSENCE; the next `__update` finds nothing to do on it (it is a fixpoint of every phase but
  `pert`, `upd0_same`), and the rows the step appends are the ones `removeLogs` drops.
-/
import PDesy.Lemmas.Idem
import PDesy.Lemmas.Pert
import PDesy.Lemmas.Sort
import PDesy.Lemmas.Alloc
import PDesy.Lemmas.Perform
import PDesy.Lemmas.Edit
import PDesy.Props.C08

namespace PDesy
namespace Removal

open Idem PertSpec Edit

/-! ## Stage 1 — shift invariance of PERT and of the task comparison -/

section fwd
variable (m : Model)

/-- the `est` a forward relaxation proposes does not depend on `eft` -/
theorem fwdCand_fst (l : Live) (p : Pert) (i : Nat) (e : Nat × Dep) :
    (fwdCand l p i e).1 = match e.2 with
      | .fs => p.est i + l.rem i
      | _ => p.est i := by
  obtain ⟨nx, d⟩ := e
  cases d <;> rfl

/-- `est` values below `m.nT` of `p'` are those of `p` plus `d` -/
def EstShift (m : Model) (d : Rat) (p p' : Pert) : Prop := ∀ t, t < m.nT → p'.est t = p.est t + d

theorem EstShift_relax (hwf : WF m) (l : Live) (d : Rat) (p p' : Pert) (i : Nat) (e : Nat × Dep)
    (hS : EstShift m d p p') (hi : i < m.nT) (he : e ∈ (m.task i).outputs) :
    EstShift m d (fwdRelax l p i e) (fwdRelax l p' i e) := by
  have hlt : e.1 < m.nT := (hwf i hi).2 e he
  have hc : (fwdCand l p' i e).1 = (fwdCand l p i e).1 + d := by
    rw [fwdCand_fst, fwdCand_fst, hS i hi]
    obtain ⟨nx, dd⟩ := e
    cases dd <;> simp only <;> grind
  rw [fwdRelax_eq l p, fwdRelax_eq l p', hc, hS e.1 hlt]
  have hiff : ((fwdCand l p i e).1 + d ≥ p.est e.1 + d) ↔ ((fwdCand l p i e).1 ≥ p.est e.1) := by
    constructor <;> intro h <;> grind
  by_cases hw : (fwdCand l p i e).1 ≥ p.est e.1
  · rw [if_pos hw, if_pos (hiff.2 hw)]
    intro t ht
    show upd p'.est e.1 _ t = upd p.est e.1 _ t + d
    rw [upd_apply, upd_apply]
    split
    · rfl
    · exact hS t ht
  · rw [if_neg hw, if_neg (fun h => hw (hiff.1 h))]
    exact hS

/-- **forward pass, shift**: started `d` later on the same remaining work, the forward pass
computes every `est` below `m.nT` exactly `d` later (whatever the kinds of the links; the
`est` side of the pass never reads `eft`) -/
theorem pertFwd_est_shift (hwf : WF m) (l l' : Live) (hr : l'.rem = l.rem) (time d : Rat) :
    ∀ t, t < m.nT → (pertFwd m (time + d) l').est t = (pertFwd m time l).est t + d := by
  rw [pertFwd_eq, pertFwd_eq, fwdLoop_rem m hr]
  refine fwdLoop_pair m l (EstShift m d) (fun _ _ _ => True)
    (fun p p' i e hS hi _ he => ⟨EstShift_relax m hwf l d p p' i e hS hi he, trivial, fun _ _ => trivial⟩)
    (m.nT + 1) (heads m) (fwdInit m time l) (fwdInit m (time + d) l') ?_
    (fun i hi => ⟨(mem_heads m i hi).1, trivial⟩)
  intro t ht
  show (if t < m.nT then time + d else l'.est t) = (if t < m.nT then time else l.est t) + d
  rw [if_pos ht, if_pos ht]

/-- `pert` shifts `est` -/
theorem pert_est_shift (hwf : WF m) (l l' : Live) (hr : l'.rem = l.rem) (time d : Nat) :
    ∀ t, t < m.nT → (pert m (time + d) l').est t = (pert m time l).est t + (d : Rat) := by
  intro t ht
  rw [(pert_fields m (time + d) l').1, (pert_fields m time l).1, pertBwd_eq, pertBwd_eq]
  have h1 := bwdLoop_frame m hwf l' (m.nT + 1) (tails m)
    (bwdInit m l' (maxList l'.cpl ((tails m).map (pertFwd m ((time + d : Nat) : Rat) l').eft))
      (pertFwd m ((time + d : Nat) : Rat) l')) (fun i hi => mem_tails m i hi)
  have h2 := bwdLoop_frame m hwf l (m.nT + 1) (tails m)
    (bwdInit m l (maxList l.cpl ((tails m).map (pertFwd m (time : Rat) l).eft))
      (pertFwd m (time : Rat) l)) (fun i hi => mem_tails m i hi)
  rw [h1.2.1, h2.2.1]
  show (pertFwd m ((time + d : Nat) : Rat) l').est t = (pertFwd m (time : Rat) l).est t + (d : Rat)
  have : ((time + d : Nat) : Rat) = (time : Rat) + (d : Rat) := by push_cast; rfl
  rw [this]
  exact pertFwd_est_shift m hwf l l' hr _ _ t ht

end fwd
theorem foldl_max_shift (l : List Rat) (a d : Rat) :
    (l.map (· + d)).foldl max (a + d) = l.foldl max a + d := by
  induction l generalizing a with
  | nil => rfl
  | cons x xs ih =>
    simp only [List.map_cons, List.foldl_cons]
    have : max (a + d) (x + d) = max a x + d := by grind
    rw [this, ih]

theorem foldl_min_shift (l : List Rat) (a d : Rat) :
    (l.map (· + d)).foldl min (a + d) = l.foldl min a + d := by
  induction l generalizing a with
  | nil => rfl
  | cons x xs ih =>
    simp only [List.map_cons, List.foldl_cons]
    have : min (a + d) (x + d) = min a x + d := by grind
    rw [this, ih]

theorem lmin_shift (c d : Rat) (l : List Rat) : lmin (c + d) (l.map (· + d)) = lmin c l + d := by
  cases l with
  | nil => rfl
  | cons x xs => exact foldl_min_shift xs x d

theorem AEqs_shift {n : Nat} {G H : Nat → List Nat} {w : Nat → Rat} {time : Rat}
    {est eft lst lft : Nat → Rat} {cpl : Rat}
    (h : AEqs n G H w time est eft lst lft cpl) (d : Rat) :
    AEqs n G H w (time + d) (fun x => est x + d) (fun x => eft x + d) (fun x => lst x + d)
      (fun x => lft x + d) (cpl + d) := by
  refine ⟨?_, ?_, ?_, ?_, ?_, ?_⟩
  · intro x hx
    show est x + d = _
    rw [h.est_eq x hx, ← foldl_max_shift, List.map_map]
    congr 1
    apply List.map_congr_left
    intro p _
    show est p + w p + d = est p + d + w p
    grind
  · intro x hx
    show eft x + d = est x + d + w x
    rw [h.eft_eq x hx]; grind
  · intro x hx h0
    show eft x + d ≤ cpl + d
    have := h.cpl_ge x hx h0
    grind
  · obtain ⟨x, hx, h0, he⟩ := h.cpl_at
    exact ⟨x, hx, h0, by show eft x + d = cpl + d; rw [he]⟩
  · intro x hx
    show lft x + d = _
    rw [h.lft_eq x hx, ← lmin_shift, List.map_map]
    rfl
  · intro x hx
    show lst x + d = lft x + d - w x
    rw [h.lst_eq x hx]; grind

/-- the fragment in which the backward pass is known to be the textbook one: finish-to-start
links only, consistent in-range link lists, no cycle -/
def SlackOK (m : Model) : Prop := FSOnly m ∧ GraphOK m ∧ Acyclic m

/-- **total slack, shift**: on a finish-to-start network the slack `lst − est` computed `d`
steps later on the same (non-negative) remaining work is the same -/
theorem pert_slack_shift {m : Model} (hs : SlackOK m) (l l' : Live) (hr : l'.rem = l.rem)
    (hrem : ∀ t, t < m.nT → 0 ≤ l.rem t) (time d : Nat) :
    ∀ t, t < m.nT → (pert m (time + d) l').lst t - (pert m (time + d) l').est t =
      (pert m time l).lst t - (pert m time l).est t := by
  intro t ht
  obtain ⟨hfs, hok, hac⟩ := hs
  have hn : 0 < m.nT := by omega
  have h1 := AEqs_shift (pert_AEqs time l hfs hok hac hn hrem) (d : Rat)
  have h2 := pert_AEqs (time + d) l' hfs hok hac hn (by rw [hr]; exact hrem)
  rw [hr] at h2
  have hc : ((time + d : Nat) : Rat) = (time : Rat) + (d : Rat) := by push_cast; rfl
  rw [hc] at h2
  obtain ⟨_, hu⟩ := h1.unique (dag_of hok hac) h2
  obtain ⟨e1, _, e3, _⟩ := hu t ht
  have e1' : (pert m time l).est t + (d : Rat) = (pert m (time + d) l').est t := e1
  have e3' : (pert m time l).lst t + (d : Rat) = (pert m (time + d) l').lst t := e3
  rw [← e1', ← e3']
  grind

/-! ### the comparison of `sort_task_list` -/

theorem taskLe_of_key_shift (m : Model) (l l' : Live) (lg lg' : Logs) (rule : TaskRule) (c : Rat)
    (a b : Nat) (ha : taskKey m l' lg' rule a = taskKey m l lg rule a + c)
    (hb : taskKey m l' lg' rule b = taskKey m l lg rule b + c) :
    taskLe m l' lg' rule a b = taskLe m l lg rule a b := by
  unfold taskLe
  rw [ha, hb]
  split
  · congr 1; apply propext; constructor <;> intro h <;> grind
  · congr 1; apply propext; constructor <;> intro h <;> grind

/-- **the comparison is shift invariant** for every rule but FIFO: the PERT data computed `d`
steps later on the same remaining work order the tasks below `m.nT` in the same way
(TSLACK: inside `SlackOK`, with non-negative remaining work) -/
theorem taskLe_pert_shift (m : Model) (hwf : Idem.WF m) (rule : TaskRule) (hrule : rule ≠ .fifo)
    (l l' : Live) (hr : l'.rem = l.rem)
    (hsl : rule = .tslack → SlackOK m ∧ ∀ t, t < m.nT → 0 ≤ l.rem t)
    (time d : Nat) (lg lg' : Logs) (a b : Nat) (ha : a < m.nT) (hb : b < m.nT) :
    taskLe m (pert m (time + d) l') lg' rule a b = taskLe m (pert m time l) lg rule a b := by
  have hrem : ∀ τ τ' t, (pert m τ' l').rem t = (pert m τ l).rem t := by
    intro τ τ' t; show l'.rem t = l.rem t; rw [hr]
  cases rule with
  | fifo => exact absurd rfl hrule
  | tslack =>
    obtain ⟨hs, hnn⟩ := hsl rfl
    apply taskLe_of_key_shift m _ _ lg lg' .tslack 0
    · show _ - _ = _ - _ + 0
      rw [pert_slack_shift hs l l' hr hnn time d a ha]; grind
    · show _ - _ = _ - _ + 0
      rw [pert_slack_shift hs l l' hr hnn time d b hb]; grind
  | est =>
    apply taskLe_of_key_shift m _ _ lg lg' .est (d : Rat)
    · exact pert_est_shift m hwf l l' hr time d a ha
    · exact pert_est_shift m hwf l l' hr time d b hb
  | spt => exact taskLe_of_key_shift m _ _ lg lg' .spt 0 a b (Rat.add_zero _).symm (Rat.add_zero _).symm
  | lpt => exact taskLe_of_key_shift m _ _ lg lg' .lpt 0 a b (Rat.add_zero _).symm (Rat.add_zero _).symm
  | lrpt =>
    apply taskLe_of_key_shift m _ _ lg lg' .lrpt 0
    · show (pert m _ l').rem a = (pert m _ l).rem a + 0; rw [hrem time]; grind
    · show (pert m _ l').rem b = (pert m _ l).rem b + 0; rw [hrem time]; grind
  | srpt =>
    apply taskLe_of_key_shift m _ _ lg lg' .srpt 0
    · show (pert m _ l').rem a = (pert m _ l).rem a + 0; rw [hrem time]; grind
    · show (pert m _ l').rem b = (pert m _ l).rem b + 0; rw [hrem time]; grind
  | lwrpt =>
    apply taskLe_of_key_shift m _ _ lg lg' .lwrpt ((pert m (time + d) l').cpl - (pert m time l).cpl)
    · show (pert m (time + d) l').cpl = (pert m time l).cpl + _; grind
    · show (pert m (time + d) l').cpl = (pert m time l).cpl + _; grind
  | swrpt =>
    apply taskLe_of_key_shift m _ _ lg lg' .swrpt ((pert m (time + d) l').cpl - (pert m time l).cpl)
    · show (pert m (time + d) l').cpl = (pert m time l).cpl + _; grind
    · show (pert m (time + d) l').cpl = (pert m time l).cpl + _; grind

/-! ### stable insertion sort with two comparisons that agree on the list -/

theorem insertBy_congr {α : Type} (le le' : α → α → Bool) (x : α) (ys : List α)
    (h : ∀ y ∈ ys, le x y = le' x y) : insertBy le x ys = insertBy le' x ys := by
  induction ys with
  | nil => rfl
  | cons y ys ih =>
    simp only [insertBy]
    rw [h y (List.mem_cons_self ..), ih (fun z hz => h z (List.mem_cons_of_mem _ hz))]

theorem sortBy_congr {α : Type} (le le' : α → α → Bool) (xs : List α)
    (h : ∀ a ∈ xs, ∀ b ∈ xs, le a b = le' a b) : sortBy le xs = sortBy le' xs := by
  induction xs with
  | nil => rfl
  | cons x xs ih =>
    simp only [sortBy]
    rw [← ih (fun a ha b hb => h a (List.mem_cons_of_mem _ ha) b (List.mem_cons_of_mem _ hb))]
    apply insertBy_congr
    intro y hy
    have : y ∈ xs := (Sort.sortBy_perm le xs).mem_iff.mp hy
    exact h x (List.mem_cons_self ..) y (List.mem_cons_of_mem _ this)

/-! ## Stage 3 — the logs -/

theorem delAt_append_last {α : Type} (xs : List α) (v : α) : delAt (xs ++ [v]) xs.length = xs := by
  induction xs with
  | nil => rfl
  | cons x xs ih => simp only [List.cons_append, List.length_cons, delAt, ih]

theorem delAt_append_lt {α : Type} (xs : List α) (v : α) (i : Nat) (h : i < xs.length) :
    delAt (xs ++ [v]) i = delAt xs i ++ [v] := by
  induction xs generalizing i with
  | nil => simp at h
  | cons x xs ih =>
    cases i with
    | zero => rfl
    | succ i =>
      simp only [List.cons_append, delAt]
      rw [ih i (by simpa using h)]

theorem foldl_delAt_append {α : Type} (ds : List Nat) (g : Nat) (log : List α) (v : α)
    (h : Dec ds g) (hg : g ≤ log.length) :
    ds.foldl delAt (log ++ [v]) = ds.foldl delAt log ++ [v] := by
  induction ds generalizing g log with
  | nil => rfl
  | cons d r ih =>
    obtain ⟨h1, h2⟩ := h
    rw [List.foldl_cons, List.foldl_cons, delAt_append_lt _ _ _ (by omega)]
    apply ih (g - 1) _ h2
    rw [length_delAt _ _ (by omega)]
    omega

/-- **a working step**: the row appended after the last absence step stays where it is -/
theorem popBy_append_keep {α : Type} (steps : List Nat) (n : Nat) (log : List α) (v : α)
    (hp : steps.Pairwise (· < ·)) (hlt : ∀ d ∈ steps, d < n) (hn : log.length = n) :
    popBy steps (n + 1) (log ++ [v]) = popBy steps n log ++ [v] := by
  have hd := Dec.of_asc steps n hp hlt
  have hd' := Dec.of_asc steps (n + 1) hp (fun d h => Nat.lt_succ_of_lt (hlt d h))
  rw [popBy, popBy, popSteps_eq, popSteps_eq, foldl_popF _ _ _ hd, foldl_popF _ _ _ hd']
  exact foldl_delAt_append _ n log v hd (by omega)

/-- **an absence step**: the row appended at step `n` is the first one `popBy` deletes -/
theorem popBy_append_drop {α : Type} (steps : List Nat) (n : Nat) (log : List α) (v : α)
    (hn : log.length = n) :
    popBy (steps ++ [n]) (n + 1) (log ++ [v]) = popBy steps n log := by
  rw [popBy, popBy, popSteps_eq, popSteps_eq, List.reverse_append, List.reverse_singleton,
    List.singleton_append, List.foldl_cons]
  have : popF (log ++ [v], n + 1) n = (log, n) := by
    simp only [popF, Nat.lt_succ_self, if_true, Nat.add_sub_cancel]
    rw [← hn, delAt_append_last]
  rw [this]

/-- the absence steps below `n + 1` -/
theorem stepsBelow_succ (n : Nat) (L : List Nat) :
    stepsBelow (n + 1) L = stepsBelow n L ++ (if L.contains n then [n] else []) := by
  simp only [stepsBelow, canonSet, List.range_succ, List.filter_append, List.filter_cons,
    List.filter_nil]

theorem stepsBelow_succ_of_mem (n : Nat) (L : List Nat) (h : L.contains n = true) :
    stepsBelow (n + 1) L = stepsBelow n L ++ [n] := by
  rw [stepsBelow_succ, if_pos h]

theorem stepsBelow_succ_of_not_mem (n : Nat) (L : List Nat) (h : L.contains n = false) :
    stepsBelow (n + 1) L = stepsBelow n L := by
  rw [stepsBelow_succ, h]; simp

/-- the rows one iteration appends -/
def addRow (m : Model) (wk : Bool) (l4 l5 : Live) (g : Logs) : Logs := record m wk l5 (cost m wk l4 g)

theorem ite_idx_keep {α β : Type} (N n : Nat) (steps : List Nat) (hp : steps.Pairwise (· < ·))
    (hlt : ∀ d ∈ steps, d < n) (G : Nat → List β) (X : Nat → List α)
    (hG : ∀ t, t < N → (G t).length = n) (hX : ∀ t, t < N → (X t).length = n) (t : Nat) (g : β) (v : α) :
    (if t < N then popBy steps (if t < N then G t ++ [g] else G t).length
        (if t < N then X t ++ [v] else X t) else (if t < N then X t ++ [v] else X t)) =
    (if t < N then (if t < N then popBy steps (G t).length (X t) else X t) ++ [v]
      else (if t < N then popBy steps (G t).length (X t) else X t)) := by
  by_cases ht : t < N
  · simp only [ht, if_true, List.length_append, List.length_singleton, hG t ht]
    exact popBy_append_keep steps n (X t) v hp hlt (hX t ht)
  · simp only [ht, if_false]

theorem ite_idx_drop {α β : Type} (N n : Nat) (steps : List Nat) (G : Nat → List β) (X : Nat → List α)
    (hG : ∀ t, t < N → (G t).length = n) (hX : ∀ t, t < N → (X t).length = n) (t : Nat) (g : β) (v : α) :
    (if t < N then popBy (steps ++ [n]) (if t < N then G t ++ [g] else G t).length
        (if t < N then X t ++ [v] else X t) else (if t < N then X t ++ [v] else X t)) =
    (if t < N then popBy steps (G t).length (X t) else X t) := by
  by_cases ht : t < N
  · simp only [ht, if_true, List.length_append, List.length_singleton, hG t ht]
    exact popBy_append_drop steps n (X t) v (hX t ht)
  · simp only [ht, if_false]

theorem removeLogs_addRow_keep (m : Model) (wk : Bool) (l4 l5 : Live) (s : St) (h : Aligned m s)
    (steps : List Nat) (hp : steps.Pairwise (· < ·)) (hlt : ∀ d ∈ steps, d < s.time) :
    removeLogs m steps (addRow m wk l4 l5 s.logs) = addRow m wk l4 l5 (removeLogs m steps s.logs) := by
  obtain ⟨h1, h2, h3, h4, h5, h6, h7, h8, h9, h10, h11, h12, h13, h14, h15, h16, h17⟩ := h
  simp only [addRow, removeLogs, record, cost, tabN_eq]
  congr 1
  · funext t; exact ite_idx_keep m.nT s.time steps hp hlt _ _ h1 h1 t _ _
  · funext t; exact ite_idx_keep m.nT s.time steps hp hlt _ _ h1 h2 t _ _
  · funext t; exact ite_idx_keep m.nT s.time steps hp hlt _ _ h1 h3 t _ _
  · funext t; exact ite_idx_keep m.nT s.time steps hp hlt _ _ h1 h4 t _ _
  · funext t; exact ite_idx_keep m.nW s.time steps hp hlt _ _ h5 h5 t _ _
  · funext t; exact ite_idx_keep m.nW s.time steps hp hlt _ _ h5 h6 t _ _
  · funext t; exact ite_idx_keep m.nW s.time steps hp hlt _ _ h5 h7 t _ _
  · funext t; exact ite_idx_keep m.nF s.time steps hp hlt _ _ h8 h8 t _ _
  · funext t; exact ite_idx_keep m.nF s.time steps hp hlt _ _ h8 h9 t _ _
  · funext t; exact ite_idx_keep m.nF s.time steps hp hlt _ _ h8 h10 t _ _
  · funext t; exact ite_idx_keep m.nTeam s.time steps hp hlt _ _ h11 h11 t _ _
  · funext t; exact ite_idx_keep m.nWp s.time steps hp hlt _ _ h12 h12 t _ _
  · funext t; exact ite_idx_keep m.nWp s.time steps hp hlt _ _ h13 h13 t _ _
  · rw [List.length_append, List.length_singleton, h14]
    exact popBy_append_keep steps s.time _ _ hp hlt h14
  · rw [List.length_append, List.length_singleton, h15]
    exact popBy_append_keep steps s.time _ _ hp hlt h15
  · funext t; exact ite_idx_keep m.nC s.time steps hp hlt _ _ h16 h16 t _ _
  · funext t; exact ite_idx_keep m.nC s.time steps hp hlt _ _ h16 h17 t _ _

theorem removeLogs_addRow_drop (m : Model) (wk : Bool) (l4 l5 : Live) (s : St) (h : Aligned m s)
    (steps : List Nat) :
    removeLogs m (steps ++ [s.time]) (addRow m wk l4 l5 s.logs) = removeLogs m steps s.logs := by
  obtain ⟨h1, h2, h3, h4, h5, h6, h7, h8, h9, h10, h11, h12, h13, h14, h15, h16, h17⟩ := h
  simp only [addRow, removeLogs, record, cost, tabN_eq]
  congr 1
  · funext t; exact ite_idx_drop m.nT s.time steps _ _ h1 h1 t _ _
  · funext t; exact ite_idx_drop m.nT s.time steps _ _ h1 h2 t _ _
  · funext t; exact ite_idx_drop m.nT s.time steps _ _ h1 h3 t _ _
  · funext t; exact ite_idx_drop m.nT s.time steps _ _ h1 h4 t _ _
  · funext t; exact ite_idx_drop m.nW s.time steps _ _ h5 h5 t _ _
  · funext t; exact ite_idx_drop m.nW s.time steps _ _ h5 h6 t _ _
  · funext t; exact ite_idx_drop m.nW s.time steps _ _ h5 h7 t _ _
  · funext t; exact ite_idx_drop m.nF s.time steps _ _ h8 h8 t _ _
  · funext t; exact ite_idx_drop m.nF s.time steps _ _ h8 h9 t _ _
  · funext t; exact ite_idx_drop m.nF s.time steps _ _ h8 h10 t _ _
  · funext t; exact ite_idx_drop m.nTeam s.time steps _ _ h11 h11 t _ _
  · funext t; exact ite_idx_drop m.nWp s.time steps _ _ h12 h12 t _ _
  · funext t; exact ite_idx_drop m.nWp s.time steps _ _ h13 h13 t _ _
  · rw [List.length_append, List.length_singleton, h14]
    exact popBy_append_drop steps s.time _ _ h14
  · rw [List.length_append, List.length_singleton, h15]
    exact popBy_append_drop steps s.time _ _ h15
  · funext t; exact ite_idx_drop m.nC s.time steps _ _ h16 h16 t _ _
  · funext t; exact ite_idx_drop m.nC s.time steps _ _ h16 h17 t _ _

theorem stepBody_logs_addRow (m : Model) (p : Params) (s : St) :
    ∃ l4, (stepBody m p s).logs = addRow m (!(p.absence.contains s.time)) l4 (stepBody m p s).live s.logs :=
  ⟨_, rfl⟩


/-! ## Stage 2 — one-step lemmas -/

/-- overwrite the five PERT fields of `l` by those of `q` -/
def setP (q : Live) (l : Live) : Live :=
  { l with est := q.est, eft := q.eft, lst := q.lst, lft := q.lft, cpl := q.cpl }

/-- overwrite the task states -/
def setT (ts : Nat → TS) (l : Live) : Live := { l with tstate := ts }

theorem foldl_comm {α β : Type} (g : β → α → β) (h : β → β)
    (hc : ∀ b x, g (h b) x = h (g b x)) (xs : List α) (b : β) :
    xs.foldl g (h b) = h (xs.foldl g b) := by
  induction xs generalizing b with
  | nil => rfl
  | cons x xs ih => rw [List.foldl_cons, List.foldl_cons, hc, ih]

/-- the same with an invariant of the fold -/
theorem foldl_comm_inv {α β : Type} (g : β → α → β) (h : β → β) (P : β → Prop)
    (hP : ∀ b x, P b → P (g b x))
    (hc : ∀ b x, P b → g (h b) x = h (g b x)) (xs : List α) (b : β) (hb : P b) :
    xs.foldl g (h b) = h (xs.foldl g b) := by
  induction xs generalizing b with
  | nil => rfl
  | cons x xs ih => rw [List.foldl_cons, List.foldl_cons, hc b x hb, ih _ (hP b x hb)]

/-! ### the update block does not read the PERT fields -/

section blindP
variable (m : Model) (q : Live)

theorem absenceSet_setP (time : Nat) (wk : Bool) (l : Live) :
    absenceSet m time wk (setP q l) = setP q (absenceSet m time wk l) := rfl
theorem compCheck_setP (l : Live) : compCheck m (setP q l) = setP q (compCheck m l) := rfl
theorem chkReady_setP (l : Live) : chkReady m (setP q l) = setP q (chkReady m l) := rfl
theorem perform_setP (wk af : Bool) (l : Live) :
    perform m wk af (setP q l) = setP q (perform m wk af l) := rfl

theorem releaseW_setP (t : Nat) (l : Live) (w : Nat) :
    releaseW t (setP q l) w = setP q (releaseW t l w) := by
  unfold releaseW
  rw [apply_ite (setP q)]; rfl

theorem releaseF_setP (t : Nat) (l : Live) (w : Nat) :
    releaseF t (setP q l) w = setP q (releaseF t l w) := by
  unfold releaseF
  rw [apply_ite (setP q)]; rfl

theorem foldl_releaseW_setP (t : Nat) (ws : List Nat) (l : Live) :
    ws.foldl (releaseW t) (setP q l) = setP q (ws.foldl (releaseW t) l) :=
  foldl_comm (releaseW t) (setP q) (fun b x => releaseW_setP q t b x) ws l

theorem foldl_releaseF_setP (t : Nat) (ws : List Nat) (l : Live) :
    ws.foldl (releaseF t) (setP q l) = setP q (ws.foldl (releaseF t) l) :=
  foldl_comm (releaseF t) (setP q) (fun b x => releaseF_setP q t b x) ws l

/-- `finishOne` in three pieces -/
def fin1 (t : Nat) (l : Live) : Live :=
  { l with tstate := upd l.tstate t .finished, rem := upd l.rem t 0 }
def fin2 (t : Nat) (l : Live) : Live :=
  { (l.allocW t).foldl (releaseW t) l with allocW := upd ((l.allocW t).foldl (releaseW t) l).allocW t [] }
def fin3 (m : Model) (t : Nat) (l : Live) : Live :=
  if (m.task t).needFac then
    { (l.allocF t).foldl (releaseF t) l with allocF := upd ((l.allocF t).foldl (releaseF t) l).allocF t [] }
  else l

theorem finishOne_pieces (l : Live) (t : Nat) : finishOne m l t = fin3 m t (fin2 t (fin1 t l)) := rfl

theorem fin2_setP (t : Nat) (l : Live) : fin2 t (setP q l) = setP q (fin2 t l) := by
  unfold fin2
  rw [foldl_releaseW_setP]; rfl

theorem fin3_setP (t : Nat) (l : Live) : fin3 m t (setP q l) = setP q (fin3 m t l) := by
  unfold fin3
  rw [foldl_releaseF_setP, apply_ite (setP q)]; rfl

theorem finishOne_setP (l : Live) (t : Nat) : finishOne m (setP q l) t = setP q (finishOne m l t) := by
  rw [finishOne_pieces, finishOne_pieces, ← fin3_setP, ← fin2_setP]; rfl

theorem finishPass_setP (order : List Nat) (l : Live) :
    finishPass m order (setP q l) = setP q (finishPass m order l) := by
  unfold finishPass
  apply foldl_comm
  intro b x
  show (if finishCand (setP q b) x && finishGate m (setP q b).tstate x then finishOne m (setP q b) x
    else setP q b) = setP q (if finishCand b x && finishGate m b.tstate x then finishOne m b x else b)
  rw [apply_ite (setP q), finishOne_setP]; rfl

theorem finishClosure_setP (order : List Nat) (fuel : Nat) (l : Live) :
    finishClosure m order fuel (setP q l) = setP q (finishClosure m order fuel l) := by
  induction fuel generalizing l with
  | zero => rfl
  | succ n ih =>
    simp only [finishClosure]
    rw [finishPass_setP, apply_ite (setP q), ← ih]; rfl

theorem chkFinished_setP (l : Live) : chkFinished m (setP q l) = setP q (chkFinished m l) := by
  unfold chkFinished chkFinishedOrd
  simp only
  rw [finishClosure_setP]; rfl

theorem removeOne_setP (l : Live) (c : Nat) : removeOne (setP q l) c = setP q (removeOne l c) := by
  unfold removeOne
  show (match l.placed c with
    | Option.none => setP q l
    | some p => _) = _
  cases l.placed c <;> rfl

theorem chkRemove_setP (l : Live) : chkRemove m (setP q l) = setP q (chkRemove m l) := by
  unfold chkRemove chkRemoveOrd
  simp only
  have : (List.range m.nC).filter (removeCand m (setP q l)) = (List.range m.nC).filter (removeCand m l) := rfl
  rw [this, foldl_comm removeOne (setP q) (fun b x => removeOne_setP q b x)]; rfl

/-- everything in `__update` before the PERT recomputation -/
def upd0 (m : Model) (l : Live) : Live :=
  compCheck m (chkReady m (chkRemove m (compCheck m (chkFinished m l))))

theorem update_eq (time : Nat) (l : Live) : update m time l = pert m time (upd0 m l) := rfl

theorem upd0_setP (l : Live) : upd0 m (setP q l) = setP q (upd0 m l) := by
  unfold upd0
  rw [chkFinished_setP, compCheck_setP, chkRemove_setP, chkReady_setP, compCheck_setP]

end blindP

/-! ### the allocation pass, for a modification of the live state it cannot see -/

/-- a modification `h` of live states that the allocation pass cannot see, on states satisfying
`P` -/
structure ABlind (m : Model) (h : Live → Live) (P : Live → Prop) : Prop where
  giveW : ∀ l t w, giveW (h l) t w = h (giveW l t w)
  giveF : ∀ l t f, giveF (h l) t f = h (giveF l t f)
  moveComp : ∀ l c p, moveComp (h l) c p = h (moveComp l c p)
  pGiveW : ∀ l t w, P l → P (PDesy.giveW l t w)
  pGiveF : ∀ l t f, P l → P (PDesy.giveF l t f)
  pMove : ∀ l c p, P l → P (PDesy.moveComp l c p)
  canAdd : ∀ l t w f, P l → canAdd m (h l) t w f = canAdd m l t w f
  isReady : ∀ l c, P l → isReady m (h l) c = isReady m l c
  placeOk : ∀ l t c p, placeOk m (h l) t c p = placeOk m l t c p
  sortWps : ∀ l r n ps, sortWps m (h l) r n ps = sortWps m l r n ps
  placed : ∀ l, (h l).placed = l.placed
  fstate : ∀ l, (h l).fstate = l.fstate

/-- apply `h` to the live state of an allocation accumulator -/
def liftA (h : Live → Live) (a : Alloc) : Alloc := { a with l := h a.l }

section ablind
variable {m : Model} {h : Live → Live} {P : Live → Prop} (B : ABlind m h P)
include B

theorem placeStep_blind (t : Nat) (l : Live) (hP : P l) :
    placeStep m t (h l) = h (placeStep m t l) ∧ P (placeStep m t l) := by
  unfold PDesy.placeStep
  cases (m.task t).comp with
  | none => exact ⟨rfl, hP⟩
  | some c =>
    simp only [B.isReady l c hP, B.sortWps]
    have : placeOk m (h l) t c = placeOk m l t c := by funext p; exact B.placeOk l t c p
    rw [this]
    split
    · cases List.find? (placeOk m l t c) (sortWps m l (m.task t).wpRule (m.task t).name (m.task t).wps) with
      | none => exact ⟨rfl, hP⟩
      | some p => exact ⟨B.moveComp l c p, B.pMove l c p hP⟩
    · exact ⟨rfl, hP⟩

theorem placeMoves_blind (t : Nat) (l : Live) (hP : P l) :
    placeMoves m t (h l) = placeMoves m t l := by
  unfold PDesy.placeMoves
  cases (m.task t).comp with
  | none => rfl
  | some c =>
    simp only [B.isReady l c hP, B.sortWps]
    have : placeOk m (h l) t c = placeOk m l t c := by funext p; exact B.placeOk l t c p
    rw [this]

theorem allocWorkers_blind (t : Nat) (a : Alloc) (hP : P a.l) :
    allocWorkers m t (liftA h a) = liftA h (allocWorkers m t a) ∧ P (allocWorkers m t a).l := by
  unfold PDesy.allocWorkers
  simp only
  have key : ∀ (ws : List Nat) (acc : Alloc), P acc.l →
      ws.foldl (fun acc w =>
        if PDesy.canAdd m acc.l t (some w) Option.none then
          { acc with l := PDesy.giveW acc.l t w, free := acc.free.filter (· != w) }
        else acc) (liftA h acc) =
      liftA h (ws.foldl (fun acc w =>
        if PDesy.canAdd m acc.l t (some w) Option.none then
          { acc with l := PDesy.giveW acc.l t w, free := acc.free.filter (· != w) }
        else acc) acc) ∧
      P (ws.foldl (fun acc w =>
        if PDesy.canAdd m acc.l t (some w) Option.none then
          { acc with l := PDesy.giveW acc.l t w, free := acc.free.filter (· != w) }
        else acc) acc).l := by
    intro ws
    induction ws with
    | nil => intro acc hacc; exact ⟨rfl, hacc⟩
    | cons w ws ih =>
      intro acc hacc
      simp only [List.foldl_cons]
      have e : (if PDesy.canAdd m (liftA h acc).l t (some w) Option.none = true then
            { liftA h acc with l := PDesy.giveW (liftA h acc).l t w,
                               free := (liftA h acc).free.filter (· != w) }
          else liftA h acc) =
          liftA h (if PDesy.canAdd m acc.l t (some w) Option.none = true then
            { acc with l := PDesy.giveW acc.l t w, free := acc.free.filter (· != w) } else acc) := by
        show (if PDesy.canAdd m (h acc.l) t (some w) Option.none = true then _ else _) = _
        rw [B.canAdd acc.l t _ _ hacc, apply_ite (liftA h)]
        show (if _ then ({ l := PDesy.giveW (h acc.l) t w, free := _, moved := _ } : Alloc) else _) = _
        rw [B.giveW]; rfl
      rw [e]
      apply ih
      split
      · exact B.pGiveW _ _ _ hacc
      · exact hacc
  exact key _ { a with free := sortWorkers m (m.task t).wRule (m.task t).name Option.none a.free } hP

/-- the step of the facility loop of `allocPairs` -/
def pairStep (m : Model) (t p : Nat) (acc : Alloc) (f : Nat) : Alloc :=
  let name := (m.task t).name
  let ws := acc.free.filter fun w =>
    hasSkill (m.worker w).skills name && teamTargets m w t && PDesy.canAdd m acc.l t (some w) (some f)
  match sortWorkers m (m.task t).wRule name (some p) ws with
  | [] => acc
  | w :: _ => { acc with l := PDesy.giveF (PDesy.giveW acc.l t w) t f, free := acc.free.filter (· != w) }

theorem pairStep_blind (t p : Nat) (acc : Alloc) (f : Nat) (hP : P acc.l) :
    pairStep m t p (liftA h acc) f = liftA h (pairStep m t p acc f) ∧ P (pairStep m t p acc f).l := by
  unfold pairStep
  simp only
  have e : (liftA h acc).free = acc.free := rfl
  have e2 : (liftA h acc).l = h acc.l := rfl
  rw [e, e2]
  simp only [B.canAdd acc.l t _ _ hP]
  cases sortWorkers m (m.task t).wRule (m.task t).name (some p)
      (acc.free.filter fun w => hasSkill (m.worker w).skills (m.task t).name && teamTargets m w t &&
        PDesy.canAdd m acc.l t (some w) (some f)) with
  | nil => exact ⟨rfl, hP⟩
  | cons w ws =>
    refine ⟨?_, B.pGiveF _ _ _ (B.pGiveW _ _ _ hP)⟩
    show ({ l := PDesy.giveF (PDesy.giveW (h acc.l) t w) t f, free := _, moved := _ } : Alloc) = _
    rw [B.giveW, B.giveF]; rfl

theorem foldl_pairStep_blind (t p : Nat) (fs : List Nat) (acc : Alloc) (hP : P acc.l) :
    fs.foldl (pairStep m t p) (liftA h acc) = liftA h (fs.foldl (pairStep m t p) acc) ∧
      P (fs.foldl (pairStep m t p) acc).l := by
  induction fs generalizing acc with
  | nil => exact ⟨rfl, hP⟩
  | cons f fs ih =>
    simp only [List.foldl_cons]
    obtain ⟨e, hp⟩ := pairStep_blind B t p acc f hP
    rw [e]
    exact ih _ hp

omit B in
theorem allocPairs_eq (m : Model) (t : Nat) (a : Alloc) :
    allocPairs m t a =
      match (m.task t).comp with
      | Option.none => a
      | some c =>
        match a.l.placed c with
        | Option.none => a
        | some p =>
          ((sortFacs m (m.task t).fRule (m.task t).name
            ((m.wp p).facs.filter fun f => a.l.fstate f == .free)).filter
              fun f => hasSkill (m.fac f).skills (m.task t).name && wpTargets m f t).foldl
            (pairStep m t p) a := rfl

omit B in
theorem liftA_l (h : Live → Live) (a : Alloc) : (liftA h a).l = h a.l := rfl

theorem allocPairs_blind (t : Nat) (a : Alloc) (hP : P a.l) :
    allocPairs m t (liftA h a) = liftA h (allocPairs m t a) ∧ P (allocPairs m t a).l := by
  rw [allocPairs_eq, allocPairs_eq]
  cases (m.task t).comp with
  | none => exact ⟨rfl, hP⟩
  | some c =>
    simp only [liftA_l, B.placed, B.fstate]
    cases a.l.placed c with
    | none => exact ⟨rfl, hP⟩
    | some p => exact foldl_pairStep_blind B t p _ a hP

/-- the accumulator of `allocTask` after the placement step -/
def afterPlace (m : Model) (acc : Alloc) (t : Nat) : Alloc :=
  if (match (m.task t).comp with
      | some c => acc.moved.contains c
      | Option.none => false) then acc
  else { acc with l := placeStep m t acc.l,
                  moved := match placeMoves m t acc.l with
                    | some c => acc.moved ++ [c]
                    | Option.none => acc.moved }

omit B in
theorem allocTask_eq (m : Model) (acc : Alloc) (t : Nat) :
    allocTask m acc t =
      if (m.task t).isAuto then afterPlace m acc t
      else if (m.task t).needFac then allocPairs m t (afterPlace m acc t)
      else allocWorkers m t (afterPlace m acc t) := rfl

theorem afterPlace_blind (acc : Alloc) (t : Nat) (hP : P acc.l) :
    afterPlace m (liftA h acc) t = liftA h (afterPlace m acc t) ∧ P (afterPlace m acc t).l := by
  unfold afterPlace
  have e0 : (liftA h acc).moved = acc.moved := rfl
  rw [e0, liftA_l, (placeStep_blind B t acc.l hP).1, placeMoves_blind B t acc.l hP]
  generalize (match (m.task t).comp with
    | some c => acc.moved.contains c
    | Option.none => false) = b
  cases b
  · exact ⟨rfl, (placeStep_blind B t acc.l hP).2⟩
  · exact ⟨rfl, hP⟩

theorem allocTask_blind (acc : Alloc) (t : Nat) (hP : P acc.l) :
    allocTask m (liftA h acc) t = liftA h (allocTask m acc t) ∧ P (allocTask m acc t).l := by
  rw [allocTask_eq, allocTask_eq]
  obtain ⟨e, hp⟩ := afterPlace_blind B acc t hP
  rw [e]
  split
  · exact ⟨rfl, hp⟩
  · split
    · exact allocPairs_blind B t _ hp
    · exact allocWorkers_blind B t _ hp

theorem foldl_allocTask_blind (ts : List Nat) (acc : Alloc) (hP : P acc.l) :
    ts.foldl (allocTask m) (liftA h acc) = liftA h (ts.foldl (allocTask m) acc) := by
  induction ts generalizing acc with
  | nil => rfl
  | cons t ts ih =>
    simp only [List.foldl_cons]
    obtain ⟨e, hp⟩ := allocTask_blind B acc t hP
    rw [e]
    exact ih _ hp

omit B in
theorem allocate_eq (m : Model) (lg : Logs) (rule : TaskRule) (l : Live) :
    allocate m lg rule l =
      ((sortTasks m l lg rule ((List.range m.nT).filter fun t =>
          l.tstate t == .ready || l.tstate t == .working)).foldl (allocTask m)
        { l := l, free := (List.range m.nW).filter fun w => l.wstate w == .free }).l := by
  unfold allocate
  simp only [tabN_eq]

/-- **the allocation pass commutes with a modification it cannot see**, as soon as the
candidates, their order and the free workers are the same -/
theorem allocate_blind (lg lg' : Logs) (rule : TaskRule) (l : Live) (hP : P l)
    (hc : ((List.range m.nT).filter fun t => (h l).tstate t == .ready || (h l).tstate t == .working) =
      (List.range m.nT).filter fun t => l.tstate t == .ready || l.tstate t == .working)
    (hs : sortTasks m (h l) lg' rule ((List.range m.nT).filter fun t =>
        l.tstate t == .ready || l.tstate t == .working) =
      sortTasks m l lg rule ((List.range m.nT).filter fun t =>
        l.tstate t == .ready || l.tstate t == .working))
    (hw : (h l).wstate = l.wstate) :
    allocate m lg' rule (h l) = h (allocate m lg rule l) := by
  rw [allocate_eq, allocate_eq, hc, hs, hw]
  have := foldl_allocTask_blind B (sortTasks m l lg rule ((List.range m.nT).filter fun t =>
        l.tstate t == .ready || l.tstate t == .working))
      { l := l, free := (List.range m.nW).filter fun w => l.wstate w == .free } hP
  show (List.foldl (allocTask m) (liftA h { l := l, free := _ }) _).l = _
  rw [this]; rfl

end ablind

/-! ### the two modifications -/

/-- `moveComp` in three pieces -/
def mv1 (l : Live) (c : Nat) : Live :=
  match l.placed c with
  | Option.none => l
  | some q => { l with wpComps := upd l.wpComps q ((l.wpComps q).erase c) }
def mv2 (l : Live) (c p : Nat) : Live := { l with placed := upd l.placed c (some p) }
def mv3 (l : Live) (c p : Nat) : Live :=
  if (l.wpComps p).contains c then l
  else { l with wpComps := upd l.wpComps p (l.wpComps p ++ [c]) }

theorem moveComp_pieces (l : Live) (c p : Nat) : moveComp l c p = mv3 (mv2 (mv1 l c) c p) c p := rfl

/-- a modification that overwrites fields `moveComp` neither reads nor writes -/
theorem moveComp_comm (h : Live → Live)
    (h1 : ∀ l c, mv1 (h l) c = h (mv1 l c)) (h2 : ∀ l c p, mv2 (h l) c p = h (mv2 l c p))
    (h3 : ∀ l c p, mv3 (h l) c p = h (mv3 l c p)) (l : Live) (c p : Nat) :
    moveComp (h l) c p = h (moveComp l c p) := by
  rw [moveComp_pieces, moveComp_pieces, h1, h2, h3]

theorem mv1_setP (q l : Live) (c : Nat) : mv1 (setP q l) c = setP q (mv1 l c) := by
  unfold mv1
  show (match l.placed c with
    | Option.none => setP q l
    | some p => _) = _
  cases l.placed c <;> rfl

theorem mv3_setP (q l : Live) (c p : Nat) : mv3 (setP q l) c p = setP q (mv3 l c p) := by
  unfold mv3
  rw [apply_ite (setP q)]; rfl

theorem mv1_setT (ts : Nat → TS) (l : Live) (c : Nat) : mv1 (setT ts l) c = setT ts (mv1 l c) := by
  unfold mv1
  show (match l.placed c with
    | Option.none => setT ts l
    | some p => _) = _
  cases l.placed c <;> rfl

theorem mv3_setT (ts : Nat → TS) (l : Live) (c p : Nat) : mv3 (setT ts l) c p = setT ts (mv3 l c p) := by
  unfold mv3
  rw [apply_ite (setT ts)]; rfl

theorem moveComp_tstate (l : Live) (c p : Nat) : (moveComp l c p).tstate = l.tstate :=
  congrArg (·.1) (Lifecycle.moveComp_tc l c p)

theorem ablind_setP (m : Model) (q : Live) : ABlind m (setP q) (fun _ => True) where
  giveW := fun _ _ _ => rfl
  giveF := fun _ _ _ => rfl
  moveComp := moveComp_comm (setP q) (mv1_setP q) (fun _ _ _ => rfl) (mv3_setP q)
  pGiveW := fun _ _ _ _ => trivial
  pGiveF := fun _ _ _ _ => trivial
  pMove := fun _ _ _ _ => trivial
  canAdd := fun _ _ _ _ _ => rfl
  isReady := fun _ _ _ => rfl
  placeOk := fun _ _ _ _ => rfl
  sortWps := fun _ _ _ _ => rfl
  placed := fun _ => rfl
  fstate := fun _ => rfl

/-- component-free automatic task: the only kind of task that `check_state(WORKING)` starts at a
project absence step (with the flag off nothing else happens to it there) -/
def freeAuto (m : Model) (t : Nat) : Bool := (m.task t).isAuto && (m.task t).comp.isNone

/-- run A is *ahead* of run B: same task states, except that some component-free automatic
tasks that are READY in B are already WORKING in A -/
def Ahead (m : Model) (tsA tsB : Nat → TS) : Prop :=
  ∀ t, tsA t = tsB t ∨ (t < m.nT ∧ freeAuto m t = true ∧ tsA t = .working ∧ tsB t = .ready)

/-- no component lists an automatic task -/
def CompNoAuto (m : Model) : Prop := ∀ c, ∀ t ∈ (m.comp c).tasks, (m.task t).isAuto = false

theorem Ahead.refl (m : Model) (ts : Nat → TS) : Ahead m ts ts := fun _ => Or.inl rfl

theorem Ahead.none {m : Model} {a b : Nat → TS} (h : Ahead m a b) (t : Nat) :
    (a t == .none) = (b t == .none) := by
  rcases h t with e | ⟨_, _, e1, e2⟩
  · rw [e]
  · rw [e1, e2]; rfl

theorem Ahead.finished {m : Model} {a b : Nat → TS} (h : Ahead m a b) (t : Nat) :
    (a t == .finished) = (b t == .finished) := by
  rcases h t with e | ⟨_, _, e1, e2⟩
  · rw [e]
  · rw [e1, e2]; rfl

theorem Ahead.active {m : Model} {a b : Nat → TS} (h : Ahead m a b) (t : Nat) :
    (a t == .ready || a t == .working) = (b t == .ready || b t == .working) := by
  rcases h t with e | ⟨_, _, e1, e2⟩
  · rw [e]
  · rw [e1, e2]; rfl

theorem Ahead.of_not_auto {m : Model} {a b : Nat → TS} (h : Ahead m a b) (t : Nat)
    (ht : (m.task t).isAuto = false) : a t = b t := by
  rcases h t with e | ⟨_, e0, _, _⟩
  · exact e
  · simp [freeAuto, ht] at e0

theorem canAdd_setT (m : Model) (ts : Nat → TS) (l : Live) (t : Nat) (w f : Option Nat)
    (h : Ahead m ts l.tstate) : canAdd m (setT ts l) t w f = canAdd m l t w f := by
  unfold canAdd
  show (if (ts t == .none || ts t == .finished) = true then false else _) = _
  rw [h.none t, h.finished t]
  rfl

theorem any_congr_mem {α : Type} (f g : α → Bool) (xs : List α) (h : ∀ x ∈ xs, f x = g x) :
    xs.any f = xs.any g := by
  induction xs with
  | nil => rfl
  | cons x xs ih =>
    simp only [List.any_cons]
    rw [h x (List.mem_cons_self ..), ih (fun y hy => h y (List.mem_cons_of_mem _ hy))]

/-- `BaseComponent.is_ready` as a function of the task states and the "some task is working" flag -/
def isReadyOf (ts : List TS) (anyWorking : Bool) : Bool :=
  if ts.all (· == .finished) then false
  else !(ts.all (· == .none)) && !anyWorking && ts.any (· == .ready)

theorem isReady_eq (m : Model) (l : Live) (c : Nat) :
    isReady m l c = isReadyOf ((m.comp c).tasks.map l.tstate)
      ((m.comp c).tasks.any fun t => l.tstate t == .working || decide ((l.allocW t).length > 0)) := rfl

theorem isReady_setT (m : Model) (hc : CompNoAuto m) (ts : Nat → TS) (l : Live) (c : Nat)
    (h : Ahead m ts l.tstate) : isReady m (setT ts l) c = isReady m l c := by
  have e1 : (m.comp c).tasks.map ts = (m.comp c).tasks.map l.tstate :=
    List.map_congr_left (fun t ht => h.of_not_auto t (hc c t ht))
  have e2 : ((m.comp c).tasks.any fun t => ts t == .working || decide ((l.allocW t).length > 0)) =
      ((m.comp c).tasks.any fun t => l.tstate t == .working || decide ((l.allocW t).length > 0)) := by
    apply any_congr_mem
    intro t ht
    rw [h.of_not_auto t (hc c t ht)]
  rw [isReady_eq, isReady_eq]
  show isReadyOf ((m.comp c).tasks.map ts)
    ((m.comp c).tasks.any fun t => ts t == .working || decide ((l.allocW t).length > 0)) = _
  rw [e1, e2]

theorem ablind_setT (m : Model) (hc : CompNoAuto m) (ts : Nat → TS) :
    ABlind m (setT ts) (fun l => Ahead m ts l.tstate) where
  giveW := fun _ _ _ => rfl
  giveF := fun _ _ _ => rfl
  moveComp := moveComp_comm (setT ts) (mv1_setT ts) (fun _ _ _ => rfl) (mv3_setT ts)
  pGiveW := fun _ _ _ h => h
  pGiveF := fun _ _ _ h => h
  pMove := fun l c p h => by rw [moveComp_tstate]; exact h
  canAdd := fun l t w f h => canAdd_setT m ts l t w f h
  isReady := fun l c h => isReady_setT m hc ts l c h
  placeOk := fun _ _ _ _ => rfl
  sortWps := fun _ _ _ _ => rfl
  placed := fun _ => rfl
  fstate := fun _ => rfl

/-- **`allocate` on the state of run A** (task states ahead, other PERT values, other logs) does
what it does on the state of run B, as soon as the two comparison functions agree below `m.nT` -/
theorem allocate_over (m : Model) (hc : CompNoAuto m) (lg lg' : Logs) (rule : TaskRule) (q : Live)
    (ts : Nat → TS) (l : Live) (ha : Ahead m ts l.tstate)
    (hle : ∀ a b, a < m.nT → b < m.nT →
      taskLe m (setP q (setT ts l)) lg' rule a b = taskLe m l lg rule a b) :
    allocate m lg' rule (setP q (setT ts l)) = setP q (setT ts (allocate m lg rule l)) := by
  have hmem : ∀ a ∈ (List.range m.nT).filter (fun t => ts t == .ready || ts t == .working), a < m.nT :=
    fun a h => List.mem_range.mp (List.mem_filter.mp h).1
  rw [allocate_blind (ablind_setP m q) lg lg' rule (setT ts l) trivial rfl
    (sortBy_congr _ _ _ (fun a ha' b hb' => hle a b (hmem a ha') (hmem b hb'))) rfl]
  congr 1
  refine allocate_blind (ablind_setT m hc ts) lg lg rule l ha ?_ rfl rfl
  apply List.filter_congr
  intro t _
  exact ha.active t

/-! ### `check_state(WORKING)` -/

theorem startOne_setP (m : Model) (q l : Live) (t : Nat) :
    startOne m (setP q l) t = setP q (startOne m l t) := by
  rw [Alloc.startOne_eq, Alloc.startOne_eq, apply_ite (setP q), apply_ite (setP q)]; rfl

theorem chkWorking_setP (m : Model) (q l : Live) :
    chkWorking m (setP q l) = setP q (chkWorking m l) := by
  rw [Alloc.chkWorking_eq, Alloc.chkWorking_eq]
  have : (List.range m.nT).filter (workingTarget m (setP q l)) =
      (List.range m.nT).filter (workingTarget m l) := rfl
  rw [this]
  exact foldl_comm (startOne m) (setP q) (fun b x => startOne_setP m q b x) _ l

/-- starting a task that has the same state on both sides -/
theorem startOne_setT_same (m : Model) (ts : Nat → TS) (l : Live) (x : Nat) (h : ts x = l.tstate x) :
    startOne m (setT ts l) x =
      setT (if l.tstate x = .ready then upd ts x .working else ts) (startOne m l x) := by
  rw [Alloc.startOne_eq, Alloc.startOne_eq]
  show (if ts x = .ready then _ else if ts x = .working then _ else _) = _
  rw [h]
  by_cases h1 : l.tstate x = .ready
  · simp only [h1, if_true]; rfl
  · by_cases h2 : l.tstate x = .working
    · simp only [h2, if_true, reduceCtorEq, if_false]; rfl
    · simp only [h1, h2, if_false]

/-- starting a READY task that holds nothing only changes its state -/
theorem startOne_empty (m : Model) (l : Live) (x : Nat) (h : l.tstate x = .ready)
    (hW : l.allocW x = []) (hF : l.allocF x = []) :
    startOne m l x = setT (upd l.tstate x .working) l := by
  rw [Alloc.startOne_eq, if_pos h]
  simp [setT, hW, hF]

theorem startOne_tstate_ne (m : Model) (l : Live) (x t : Nat) (h : t ≠ x) :
    (startOne m l x).tstate t = l.tstate t := by
  rw [Alloc.startOne_tstate]
  split
  · exact upd_other _ _ _ _ h
  · rfl

/-- the side condition of `cw_sim` for one task -/
def CwOk (tA tB : Nat → Bool) (ts : Nat → TS) (l : Live) (t : Nat) : Prop :=
  (ts t = l.tstate t ∧ tA t = tB t) ∨
  (ts t = .working ∧ l.tstate t = .ready ∧ tA t = false ∧ tB t = true ∧
    l.allocW t = [] ∧ l.allocF t = [])

/-- **`check_state(WORKING)`, run A against run B**: the tasks that are already WORKING in A
and still READY in B hold nothing, are targets in B only, and starting them changes only their
state — after the pass the two states are equal -/
theorem cw_sim (m : Model) (tA tB : Nat → Bool) :
    ∀ (xs : List Nat), xs.Nodup → ∀ (ts : Nat → TS) (l : Live),
      (∀ t ∈ xs, CwOk tA tB ts l t) → (∀ t, t ∉ xs → ts t = l.tstate t) →
      (xs.filter tA).foldl (startOne m) (setT ts l) = (xs.filter tB).foldl (startOne m) l := by
  intro xs
  induction xs with
  | nil =>
    intro _ ts l _ h
    have : ts = l.tstate := funext fun t => h t (by simp)
    subst this
    rfl
  | cons x xs ih =>
    intro hnd ts l hin hout
    obtain ⟨hx, hnd'⟩ := List.nodup_cons.mp hnd
    have hne : ∀ t ∈ xs, t ≠ x := fun t ht e => hx (e ▸ ht)
    rcases hin x (List.mem_cons_self ..) with ⟨e1, e2⟩ | ⟨e1, e2, e3, e4, e5, e6⟩
    · cases hb : tB x
      · -- not a target on either side
        rw [List.filter_cons, List.filter_cons, e2, hb]
        simp only [Bool.false_eq_true, if_false]
        apply ih hnd' ts l (fun t ht => hin t (List.mem_cons_of_mem _ ht))
        intro t ht
        by_cases e : t = x
        · rw [e]; exact e1
        · exact hout t (by simp [e, ht])
      · rw [List.filter_cons, List.filter_cons, e2, hb]
        simp only [if_true, List.foldl_cons]
        rw [startOne_setT_same m ts l x e1]
        have hf := Alloc.startOne_frame m l x
        apply ih hnd'
        · intro t ht
          have hn := hne t ht
          have h1 : (if l.tstate x = .ready then upd ts x .working else ts) t = ts t := by
            split
            · exact upd_other _ _ _ _ hn
            · rfl
          unfold CwOk
          rw [h1, startOne_tstate_ne m l x t hn, hf.1, hf.2.1]
          exact hin t (List.mem_cons_of_mem _ ht)
        · intro t ht
          by_cases e : t = x
          · subst e
            rw [Alloc.startOne_tstate]
            split
            · simp
            · exact e1
          · have h1 : (if l.tstate x = .ready then upd ts x .working else ts) t = ts t := by
              split
              · exact upd_other _ _ _ _ e
              · rfl
            rw [h1, startOne_tstate_ne m l x t e]
            exact hout t (by simp [e, ht])
    · rw [List.filter_cons, List.filter_cons, e3, e4]
      simp only [Bool.false_eq_true, if_false, if_true, List.foldl_cons]
      rw [startOne_empty m l x e2 e5 e6]
      have : setT ts l = setT ts (setT (upd l.tstate x .working) l) := rfl
      rw [this]
      apply ih hnd'
      · intro t ht
        have hn := hne t ht
        unfold CwOk
        show (ts t = upd l.tstate x .working t ∧ _) ∨ (_ ∧ upd l.tstate x .working t = .ready ∧ _ ∧ _ ∧
          l.allocW t = [] ∧ l.allocF t = [])
        rw [upd_other _ _ _ _ hn]
        exact hin t (List.mem_cons_of_mem _ ht)
      · intro t ht
        show ts t = upd l.tstate x .working t
        by_cases e : t = x
        · subst e; rw [upd_same]; exact e1
        · rw [upd_other _ _ _ _ e]
          exact hout t (by simp [e, ht])

theorem workingTarget_setT_same (m : Model) (ts : Nat → TS) (l : Live) (t : Nat) (h : ts t = l.tstate t) :
    workingTarget m (setT ts l) t = workingTarget m l t := by
  unfold workingTarget
  show ((ts t == .ready && _) || (ts t == .ready && _ && _) || (ts t == .ready && _ && _) ||
    (ts t == .working && _)) = _
  rw [h]
  rfl

theorem workingTarget_ahead (m : Model) (ts : Nat → TS) (l : Live) (t : Nat) (h : ts t = .working)
    (hW : l.allocW t = []) : workingTarget m (setT ts l) t = false := by
  unfold workingTarget
  show ((ts t == .ready && _) || (ts t == .ready && _ && _) || (ts t == .ready && _ && _) ||
    (ts t == .working && decide ((l.allocW t).length > 0))) = _
  rw [h, hW]
  rfl

theorem workingTarget_freeAuto (m : Model) (l : Live) (t : Nat) (h : l.tstate t = .ready)
    (hf : freeAuto m t = true) : workingTarget m l t = true := by
  unfold freeAuto at hf
  simp only [Bool.and_eq_true] at hf
  unfold workingTarget
  simp [h, hf.1, hf.2]

/-- **`check_state(WORKING)` on the state of run A** gives the state it gives in run B — the
task states coincide afterwards -/
theorem chkWorking_over (m : Model) (q : Live) (ts : Nat → TS) (l : Live) (ha : Ahead m ts l.tstate)
    (hE : ∀ t, ts t ≠ l.tstate t → l.allocW t = [] ∧ l.allocF t = []) :
    chkWorking m (setP q (setT ts l)) = setP q (chkWorking m l) := by
  rw [chkWorking_setP, Alloc.chkWorking_eq, Alloc.chkWorking_eq]
  congr 1
  apply cw_sim m _ _ _ List.nodup_range
  · intro t _
    rcases ha t with e | ⟨_, hf, e1, e2⟩
    · exact Or.inl ⟨e, workingTarget_setT_same m ts l t e⟩
    · have hne : ts t ≠ l.tstate t := by rw [e1, e2]; intro h; cases h
      obtain ⟨hW, hF⟩ := hE t hne
      exact Or.inr ⟨e1, e2, workingTarget_ahead m ts l t e1 hW, workingTarget_freeAuto m l t e2 hf, hW, hF⟩
  · intro t ht
    rcases ha t with e | ⟨hlt, _⟩
    · exact e
    · exact absurd (List.mem_range.mpr hlt) ht

/-! ### `allocate` gives nothing to automatic tasks -/

theorem giveW_allocW_ne (l : Live) (t t' w : Nat) (h : t ≠ t') : (giveW l t' w).allocW t = l.allocW t :=
  upd_other _ _ _ _ h
theorem giveF_allocF_ne (l : Live) (t t' f : Nat) (h : t ≠ t') : (giveF l t' f).allocF t = l.allocF t :=
  upd_other _ _ _ _ h

/-- the two allocation lists of task `t` -/
def holds (t : Nat) (l : Live) : List Nat × List Nat := (l.allocW t, l.allocF t)

theorem placeStep_holds (m : Model) (t t' : Nat) (l : Live) : holds t (placeStep m t' l) = holds t l := by
  have := Perform.placeStep_keepM (m := m) t' l
  unfold Perform.keepM at this
  unfold holds
  rw [show (placeStep m t' l).allocW = l.allocW from congrArg (·.1) this,
    show (placeStep m t' l).allocF = l.allocF from congrArg (·.2) this]

theorem allocWorkers_holds (m : Model) (t t' : Nat) (a : Alloc) (h : t ≠ t') :
    holds t (allocWorkers m t' a).l = holds t a.l := by
  unfold allocWorkers
  simp only
  refine Lifecycle.foldl_proj_eq _ (fun x : Alloc => holds t x.l) ?_ _ _ _ rfl
  intro b w
  split
  · show ((giveW b.l t' w).allocW t, (giveW b.l t' w).allocF t) = _
    rw [giveW_allocW_ne _ _ _ _ h]; rfl
  · rfl

theorem pairStep_holds (m : Model) (t t' p : Nat) (acc : Alloc) (f : Nat) (h : t ≠ t') :
    holds t (pairStep m t' p acc f).l = holds t acc.l := by
  unfold pairStep
  simp only
  split
  · rfl
  · show ((giveF (giveW acc.l t' _) t' f).allocW t, (giveF (giveW acc.l t' _) t' f).allocF t) = _
    rw [giveF_allocF_ne _ _ _ _ h]
    show ((giveW acc.l t' _).allocW t, _) = _
    rw [giveW_allocW_ne _ _ _ _ h]; rfl

theorem allocPairs_holds (m : Model) (t t' : Nat) (a : Alloc) (h : t ≠ t') :
    holds t (allocPairs m t' a).l = holds t a.l := by
  rw [allocPairs_eq]
  split
  · rfl
  · split
    · rfl
    · exact Lifecycle.foldl_proj _ (fun x : Alloc => holds t x.l)
        (fun b f => pairStep_holds m t t' _ b f h) _ _

theorem afterPlace_holds (m : Model) (t t' : Nat) (acc : Alloc) :
    holds t (afterPlace m acc t').l = holds t acc.l := by
  unfold afterPlace
  split
  · split
    · rfl
    · exact placeStep_holds m t t' acc.l
  · simp only [Bool.false_eq_true, if_false]; exact placeStep_holds m t t' acc.l

theorem allocTask_holds (m : Model) (t t' : Nat) (acc : Alloc) (h : (m.task t).isAuto = true) :
    holds t (allocTask m acc t').l = holds t acc.l := by
  rw [allocTask_eq]
  by_cases e : t = t'
  · subst e
    rw [if_pos h]; exact afterPlace_holds m t t acc
  · split
    · exact afterPlace_holds m t t' acc
    · split
      · rw [allocPairs_holds m t t' _ e]; exact afterPlace_holds m t t' acc
      · rw [allocWorkers_holds m t t' _ e]; exact afterPlace_holds m t t' acc

/-- an automatic task is given nothing -/
theorem allocate_auto_holds (m : Model) (lg : Logs) (rule : TaskRule) (l : Live) (t : Nat)
    (h : (m.task t).isAuto = true) :
    (allocate m lg rule l).allocW t = l.allocW t ∧ (allocate m lg rule l).allocF t = l.allocF t := by
  rw [allocate_eq]
  have := Lifecycle.foldl_proj (allocTask m) (fun x : Alloc => holds t x.l)
    (fun b t' => allocTask_holds m t t' b h)
    (sortTasks m l lg rule ((List.range m.nT).filter fun t => l.tstate t == .ready || l.tstate t == .working))
    { l := l, free := (List.range m.nW).filter fun w => l.wstate w == .free }
  exact ⟨congrArg (·.1) this, congrArg (·.2) this⟩

/-! ### the relation between the live states of the two runs -/

theorem live_ext (a b : Live) (h1 : a.tstate = b.tstate) (h2 : a.rem = b.rem) (h3 : a.est = b.est)
    (h4 : a.eft = b.eft) (h5 : a.lst = b.lst) (h6 : a.lft = b.lft) (h7 : a.cpl = b.cpl)
    (h8 : a.allocW = b.allocW) (h9 : a.allocF = b.allocF) (h10 : a.wstate = b.wstate)
    (h11 : a.wasg = b.wasg) (h12 : a.fstate = b.fstate) (h13 : a.fasg = b.fasg)
    (h14 : a.cstate = b.cstate) (h15 : a.placed = b.placed) (h16 : a.wpComps = b.wpComps) : a = b := by
  cases a; cases b; simp_all

/-- The live state `a` of run A against the live state `b` of run B (both at the `updated`
boundary): task states, remaining work, allocations, assignments, components and placement
equal; resource states equal outside the index ranges (inside, the next `absenceSet`
recomputes them).  Nothing is said about the PERT fields. -/
structure LRel (m : Model) (a b : Live) : Prop where
  ts : a.tstate = b.tstate
  rem : a.rem = b.rem
  allocW : a.allocW = b.allocW
  allocF : a.allocF = b.allocF
  wasg : a.wasg = b.wasg
  fasg : a.fasg = b.fasg
  cstate : a.cstate = b.cstate
  placed : a.placed = b.placed
  wpComps : a.wpComps = b.wpComps
  wout : ∀ w, ¬ w < m.nW → a.wstate w = b.wstate w
  fout : ∀ f, ¬ f < m.nF → a.fstate f = b.fstate f

theorem LRel.ahead {m : Model} {a b : Live} (h : LRel m a b) : Ahead m a.tstate b.tstate := by
  rw [h.ts]; exact Ahead.refl m _

/-- no worker and no facility has an absence list of its own -/
def NoIndAbs (m : Model) : Prop :=
  (∀ w, w < m.nW → (m.worker w).absence = []) ∧ (∀ f, f < m.nF → (m.fac f).absence = [])

theorem absenceSet_rel (m : Model) (hab : NoIndAbs m) (a b : Live) (h : LRel m a b) (τA τB : Nat) :
    absenceSet m τA true a = setP a (setT a.tstate (absenceSet m τB true b)) := by
  apply live_ext
  · rfl
  · exact h.rem
  · rfl
  · rfl
  · rfl
  · rfl
  · rfl
  · exact h.allocW
  · exact h.allocF
  · funext w
    show (absenceSet m τA true a).wstate w = (absenceSet m τB true b).wstate w
    simp only [absenceSet, tabN_eq, if_true]
    split
    · rename_i hw
      rw [hab.1 w hw, h.wasg]; rfl
    · rename_i hw
      exact h.wout w hw
  · exact h.wasg
  · funext f
    show (absenceSet m τA true a).fstate f = (absenceSet m τB true b).fstate f
    simp only [absenceSet, tabN_eq, if_true]
    split
    · rename_i hf
      rw [hab.2 f hf, h.fasg]; rfl
    · rename_i hf
      exact h.fout f hf
  · exact h.fasg
  · exact h.cstate
  · exact h.placed
  · exact h.wpComps

/-- the live state of one loop iteration after `allocate` (`l2` in `stepBody`) -/
def allocLive (m : Model) (lg : Logs) (rule : TaskRule) (τ : Nat) (wk : Bool) (l : Live) : Live :=
  if wk then allocate m lg rule (absenceSet m τ wk l) else absenceSet m τ wk l

/-- the live state of one loop iteration at the cost/perform boundary (`l4` in `stepBody`);
`check_state(WORKING)` runs under the guard `wk || af` -/
def preLive (m : Model) (lg : Logs) (rule : TaskRule) (af : Bool) (τ : Nat) (wk : Bool) (l : Live) : Live :=
  compCheck m (if wk || af then chkWorking m (allocLive m lg rule τ wk l) else allocLive m lg rule τ wk l)

/-- the live part of one loop iteration -/
def stepLive (m : Model) (lg : Logs) (rule : TaskRule) (af : Bool) (τ : Nat) (wk : Bool) (l : Live) : Live :=
  perform m wk af (preLive m lg rule af τ wk l)

theorem stepBody_live_eq (m : Model) (p : Params) (s : St) :
    (stepBody m p s).live =
      stepLive m s.logs p.rule p.autoFlag s.time (!(p.absence.contains s.time)) s.live := rfl

theorem stepBody_logs_eq (m : Model) (p : Params) (s : St) :
    (stepBody m p s).logs =
      addRow m (!(p.absence.contains s.time))
        (preLive m s.logs p.rule p.autoFlag s.time (!(p.absence.contains s.time)) s.live)
        (stepBody m p s).live s.logs := rfl

theorem allocate_tstate (m : Model) (lg : Logs) (rule : TaskRule) (l : Live) :
    (allocate m lg rule l).tstate = l.tstate :=
  congrArg (·.1) (Lifecycle.allocate_tc m lg rule l)

/-- **a working step, live states**: from related states the iteration of run A gives the state
the iteration of run B gives, with A's PERT fields (which an iteration does not touch) -/
theorem preLive_working (m : Model) (hab : NoIndAbs m) (hc : CompNoAuto m) (rule : TaskRule) (af : Bool)
    (a b : Live) (lgA lgB : Logs) (τA τB : Nat) (h : LRel m a b)
    (hle : ∀ x y, x < m.nT → y < m.nT → taskLe m (setP a b) lgA rule x y = taskLe m b lgB rule x y) :
    preLive m lgA rule af τA true a = setP a (preLive m lgB rule af τB true b) := by
  unfold preLive allocLive
  simp only [if_true, Bool.true_or]
  rw [absenceSet_rel m hab a b h τA τB,
    allocate_over m hc lgB lgA rule a a.tstate (absenceSet m τB true b) h.ahead hle]
  rw [chkWorking_over m a a.tstate _ (by rw [allocate_tstate]; exact h.ahead)]
  · rfl
  · intro t hne
    rw [allocate_tstate] at hne
    exact absurd (congrFun h.ts t) hne

theorem stepLive_working (m : Model) (hab : NoIndAbs m) (hc : CompNoAuto m) (rule : TaskRule) (af : Bool)
    (a b : Live) (lgA lgB : Logs) (τA τB : Nat) (h : LRel m a b)
    (hle : ∀ x y, x < m.nT → y < m.nT → taskLe m (setP a b) lgA rule x y = taskLe m b lgB rule x y) :
    stepLive m lgA rule af τA true a = setP a (stepLive m lgB rule af τB true b) := by
  unfold stepLive
  rw [preLive_working m hab hc rule af a b lgA lgB τA τB h hle]
  rfl

/-- the `__update` block after a working step -/
theorem update_rel_setP (m : Model) (q z : Live) (τ τ' : Nat) :
    LRel m (update m τ (setP q z)) (update m τ' z) := by
  rw [update_eq, update_eq, upd0_setP]
  exact ⟨rfl, rfl, rfl, rfl, rfl, rfl, rfl, rfl, rfl, fun _ _ => rfl, fun _ _ => rfl⟩

/-- the rows of a working step are the same -/
theorem addRow_setP (m : Model) (wk : Bool) (q l4 l5 : Live) (g : Logs) :
    addRow m wk (setP q l4) (setP q l5) g = addRow m wk l4 l5 g := rfl

/-! ### an absence step of run A: auxiliary facts -/

theorem perform_off (m : Model) (l : Live) : perform m false false l = l := by
  apply live_ext <;> try rfl
  funext t
  simp [perform]

theorem compNext_congr_tasks (m : Model) (l l' : Live) (c : Nat)
    (ht : ∀ t ∈ (m.comp c).tasks, l'.tstate t = l.tstate t) (hc : l'.cstate c = l.cstate c) :
    compNext m l' c = compNext m l c := by
  unfold compNext
  have : (m.comp c).tasks.map l'.tstate = (m.comp c).tasks.map l.tstate := List.map_congr_left ht
  simp only [this, hc]

/-- `product.check_state` finds nothing to do on a state that differs from one of its fixpoints
only outside the components' task lists -/
theorem compCheck_quiet (m : Model) (a l' : Live) (hfix : compCheck m a = a)
    (ht : ∀ c, ∀ t ∈ (m.comp c).tasks, l'.tstate t = a.tstate t) (hc : l'.cstate = a.cstate) :
    compCheck m l' = l' := by
  apply live_ext <;> try rfl
  funext c
  rw [Lifecycle.compCheck_cstate]
  split
  · rw [compNext_congr_tasks m a l' c (ht c) (by rw [hc]), hc]
    have := Lifecycle.compCheck_cstate m a c
    rw [hfix] at this
    rename_i hlt
    rw [if_pos hlt] at this
    exact this.symm
  · rfl

/-! ## Stage 4 — the two runs side by side -/

/-- the sort key read from `l` with the PERT fields of `q` is the key read from `q`, when the
remaining work is the same -/
theorem taskKey_setP (m : Model) (q l : Live) (lg : Logs) (rule : TaskRule) (t : Nat)
    (h : l.rem = q.rem) : taskKey m (setP q l) lg rule t = taskKey m q lg rule t := by
  cases rule <;> first | rfl | (show l.rem t = q.rem t; rw [h])

theorem taskLe_setP (m : Model) (q l : Live) (lg : Logs) (rule : TaskRule) (x y : Nat)
    (h : l.rem = q.rem) : taskLe m (setP q l) lg rule x y = taskLe m q lg rule x y := by
  unfold taskLe
  rw [taskKey_setP m q l lg rule x h, taskKey_setP m q l lg rule y h]

theorem finishGate_fsOnly (m : Model) (hfs : FSOnly m) (ts : Nat → TS) (t : Nat) (ht : t < m.nT) :
    finishGate m ts t = true := by
  rw [Lifecycle.finishGate_iff]
  intro e he
  have := (hfs t ht).1 e he
  rw [this]
  exact ⟨(fun h => nomatch h), (fun h => nomatch h)⟩

/-- on a finish-to-start network no remaining work is negative after `check_state(FINISHED)` -/
theorem rem_nonneg_fsOnly (m : Model) (hfs : FSOnly m) (l : Live) (h : RemOK m l) :
    ∀ t, t < m.nT → 0 ≤ (upd0 m l).rem t := by
  intro t ht
  have e : (upd0 m l).rem = (chkFinished m l).rem := Idem.update_rem m 0 l
  rw [e]
  by_cases hw : (chkFinished m l).tstate t = .working
  · have hc := chkFinished_noCand m l t ht
    rw [finishGate_fsOnly m hfs _ t ht, Bool.and_true] at hc
    simp only [finishCand, hw, beq_self_eq_true, Bool.true_and, decide_eq_false_iff_not] at hc
    exact Rat.le_of_lt (Rat.not_le.mp hc)
  · exact RemOK_chkFinished m l h t ht hw

/-- the side conditions on the model that the working-step lemma needs -/
structure ModelOK (m : Model) (rule : TaskRule) : Prop where
  noInd : NoIndAbs m
  compNoAuto : CompNoAuto m
  wf : WF m
  notFifo : rule ≠ .fifo
  slack : rule = .tslack → SlackOK m

/-- invariants of the live state at the top of an iteration (before `__update`) -/
structure Good (m : Model) (l : Live) : Prop where
  inv : AllocInv m l
  hold : HoldWorking l
  remOK : RemOK m l

theorem Good.update {m : Model} {l : Live} (h : Good m l) (time : Nat) : Good m (update m time l) :=
  ⟨(update_C03 time h.inv h.hold).1, (update_C03 time h.inv h.hold).2, RemOK_update m time l h.remOK⟩

theorem Good.stepBody {m : Model} (p : Params) {s : St} (h : Good m s.live) :
    Good m (stepBody m p s).live :=
  ⟨(stepBody_C03 p h.inv h.hold).1, (stepBody_C03 p h.inv h.hold).2.1, RemOK_stepBody m p s h.remOK⟩

/-- **the simulation relation**, between the state `a0` of run A (absence list `L`) and the state
`b0` of run B (no absence), both at the top of an iteration: the `updated` live states are
related by `LRel`; B's clock is A's minus the number of absence steps executed so far; B's logs
are A's with the rows of those steps deleted. -/
structure Rel (m : Model) (L : List Nat) (a0 b0 : St) : Prop where
  live : LRel m (update m a0.time a0.live) (update m b0.time b0.live)
  time : a0.time = b0.time + (stepsBelow a0.time L).length
  logs : removeLogs m (stepsBelow a0.time L) a0.logs = b0.logs
  alignA : Aligned m a0
  goodA : Good m a0.live
  goodB : Good m b0.live

/-- the comparison functions of the two runs agree at related states -/
theorem taskLe_rel (m : Model) (rule : TaskRule) (hm : ModelOK m rule) (L : List Nat) (a0 b0 : St)
    (h : Rel m L a0 b0) (lgA lgB : Logs) (x y : Nat) (hx : x < m.nT) (hy : y < m.nT) :
    taskLe m (setP (update m a0.time a0.live) (update m b0.time b0.live)) lgA rule x y =
      taskLe m (update m b0.time b0.live) lgB rule x y := by
  have hr : (upd0 m a0.live).rem = (upd0 m b0.live).rem := h.live.rem
  rw [taskLe_setP m _ _ lgA rule x y h.live.rem.symm, update_eq, update_eq, h.time]
  exact taskLe_pert_shift m hm.wf rule hm.notFifo (upd0 m b0.live) (upd0 m a0.live) hr
    (fun ht => ⟨hm.slack ht, rem_nonneg_fsOnly m (hm.slack ht).1 b0.live h.goodB.remOK⟩)
    b0.time _ lgB lgA x y hx hy

/-- **a working step preserves the relation** -/
theorem rel_working (m : Model) (pA pB : Params) (hm : ModelOK m pA.rule) (hrule : pB.rule = pA.rule)
    (haf : pB.autoFlag = pA.autoFlag) (hB : pB.absence = [])
    (a0 b0 : St) (h : Rel m pA.absence a0 b0) (hw : pA.absence.contains a0.time = false) :
    Rel m pA.absence (stepBody m pA (updated m a0)) (stepBody m pB (updated m b0)) := by
  have hwA : (!(pA.absence.contains (updated m a0).time)) = true := by
    show (!(pA.absence.contains a0.time)) = true
    rw [hw]; rfl
  have hwB : (!(pB.absence.contains (updated m b0).time)) = true := by rw [hB]; rfl
  have gA := h.goodA.update a0.time
  have gB := h.goodB.update b0.time
  have hle := taskLe_rel m pA.rule hm pA.absence a0 b0 h (updated m a0).logs (updated m b0).logs
  -- the live states at the cost / perform boundary and after the step
  have hpre := preLive_working m hm.noInd hm.compNoAuto pA.rule pA.autoFlag (updated m a0).live
    (updated m b0).live (updated m a0).logs (updated m b0).logs (updated m a0).time (updated m b0).time
    h.live hle
  have hlive : (stepBody m pA (updated m a0)).live =
      setP (updated m a0).live (stepBody m pB (updated m b0)).live := by
    rw [stepBody_live_eq, stepBody_live_eq, hwA, hwB, hrule, haf]
    exact stepLive_working m hm.noInd hm.compNoAuto pA.rule pA.autoFlag _ _ _ _ _ _ h.live hle
  have hsteps : stepsBelow (a0.time + 1) pA.absence = stepsBelow a0.time pA.absence :=
    stepsBelow_succ_of_not_mem _ _ hw
  refine ⟨?_, ?_, ?_, ?_, ?_, ?_⟩
  · show LRel m (update m (a0.time + 1) (stepBody m pA (updated m a0)).live)
      (update m (b0.time + 1) (stepBody m pB (updated m b0)).live)
    rw [hlive]
    exact update_rel_setP m _ _ _ _
  · show a0.time + 1 = b0.time + 1 + (stepsBelow (a0.time + 1) pA.absence).length
    rw [hsteps]; have := h.time; omega
  · show removeLogs m (stepsBelow (a0.time + 1) pA.absence) (stepBody m pA (updated m a0)).logs = _
    rw [hsteps, stepBody_logs_eq, stepBody_logs_eq, hwA, hwB, hlive, hrule, haf, hpre, addRow_setP]
    have := removeLogs_addRow_keep m true
      (preLive m (updated m b0).logs pA.rule pA.autoFlag (updated m b0).time true (updated m b0).live)
      (stepBody m pB (updated m b0)).live a0 h.alignA (stepsBelow a0.time pA.absence)
      (stepsBelow_pairwise _ _) (fun d hd => (mem_stepsBelow.1 hd).1)
    show removeLogs m _ (addRow m true _ _ a0.logs) = addRow m true _ _ b0.logs
    rw [this, h.logs]
  · exact C08_aligned_step _ (C08_aligned_updated _ h.alignA)
  · exact Good.stepBody pA (s := updated m a0) gA
  · exact Good.stepBody pB (s := updated m b0) gB

/-! ### the loop -/

theorem allFinished_congr {m : Model} {a b : Live} (h : a.tstate = b.tstate) :
    allFinished m a = allFinished m b := by
  unfold PDesy.allFinished
  rw [h]

/-- what the loop theorem needs from an absence step of run A: it leads to the relation with the
*same* state of run B (`J` is any further invariant of run A that the step lemma wants) -/
def AbsStepOK (m : Model) (pA : Params) (J : St → Prop) : Prop :=
  ∀ a0 b0, Rel m pA.absence a0 b0 → J a0 → pA.absence.contains a0.time = true →
    Rel m pA.absence (stepBody m pA (updated m a0)) b0

/-- what the two runs end with -/
structure EndRel (m : Model) (L : List Nat) (rA rB : St) : Prop where
  status : rB.status = .success
  time : rA.time = rB.time + (stepsBelow rA.time L).length
  logs : removeLogs m (stepsBelow rA.time L) rA.logs = rB.logs
  align : Aligned m rA

/-- **the loop, side by side**: if run A ends with SUCCESS, run B (with at least the fuel
`simulate` gives it) ends with SUCCESS too, `d` steps earlier, with the logs of A minus the rows
of the `d` absence steps A executed -/
theorem loop_rel (m : Model) (pA pB : Params) (hm : ModelOK m pA.rule) (hrule : pB.rule = pA.rule)
    (haf : pB.autoFlag = pA.autoFlag) (hB : pB.absence = []) (hmax : pB.maxTime = pA.maxTime)
    (J : St → Prop) (hJ : ∀ a0, J a0 → J (stepBody m pA (updated m a0)))
    (habs : AbsStepOK m pA J) :
    ∀ (fuelA : Nat) (a0 b0 : St) (fuelB : Nat), Rel m pA.absence a0 b0 → J a0 →
      a0.status ≠ .success → fuelOf pB b0 ≤ fuelB →
      (loop m pA fuelA a0).status = .success →
      EndRel m pA.absence (loop m pA fuelA a0) (loop m pB fuelB b0) := by
  intro fuelA
  induction fuelA with
  | zero =>
    intro a0 b0 fuelB _ _ hst _ hs
    exact absurd hs hst
  | succ n ih =>
    intro a0 b0 fuelB h hj hst hfuel hs
    obtain ⟨fB, rfl⟩ : ∃ k, fuelB = k + 1 := ⟨fuelB - 1, by have := fuelOf_pos pB b0; omega⟩
    have hfin : allFinished m (updated m a0).live = allFinished m (updated m b0).live :=
      allFinished_congr h.live.ts
    rw [loop_succ] at hs ⊢
    by_cases hA : allFinished m (updated m a0).live = true
    · rw [if_pos hA]
      rw [loop_succ, if_pos (hfin ▸ hA)]
      exact ⟨rfl, h.time, h.logs, C08_aligned_status _ _ (C08_aligned_updated _ h.alignA)⟩
    · rw [if_neg hA] at hs ⊢
      by_cases hT : a0.time ≥ pA.maxTime
      · rw [if_pos hT] at hs
        cases hs
      · rw [if_neg hT] at hs ⊢
        cases hc : pA.absence.contains a0.time
        · -- a working step of both runs
          have hBt : ¬ b0.time ≥ pB.maxTime := by
            have := h.time; rw [hmax]; omega
          rw [loop_succ m pB fB b0, if_neg (hfin ▸ hA), if_neg hBt]
          apply ih _ _ fB (rel_working m pA pB hm hrule haf hB a0 b0 h hc) (hJ a0 hj) hst
          · have := fuelOf_step m pB b0 hBt
            omega
          · exact hs
        · -- an absence step of run A
          exact ih _ b0 (fB + 1) (habs a0 b0 h hj hc) (hJ a0 hj) hst hfuel hs

theorem LRel.refl (m : Model) (l : Live) : LRel m l l :=
  ⟨rfl, rfl, rfl, rfl, rfl, rfl, rfl, rfl, rfl, fun _ _ => rfl, fun _ _ => rfl⟩

theorem stepsBelow_zero (L : List Nat) : stepsBelow 0 L = [] := rfl

theorem removeLogs_nil (m : Model) (g : Logs) : removeLogs m [] g = g := by
  cases g
  simp [removeLogs, popBy, popSteps]

/-- the two runs enter their loops in related states -/
theorem enter_rel (m : Model) (hw : WorkOK m) (p : Params) (L : List Nat) (s : St)
    (hs : p.initState = true) (hl : p.initLog = true) :
    Rel m L (enter m { p with absence := L } s) (enter m { p with absence := [] } s) := by
  have ht : (enter m { p with absence := L } s).time = 0 := Logs.enter_time (p := { p with absence := L }) s hl
  have htB : (enter m { p with absence := [] } s).time = 0 := Logs.enter_time (p := { p with absence := [] }) s hl
  have hlg : (enter m { p with absence := L } s).logs = (enter m { p with absence := [] } s).logs := rfl
  have hgood : ∀ q : Params, q.initState = true → Good m (enter m q s).live := by
    intro q hq
    obtain ⟨h1, h2, h3, h4⟩ := Alloc.enter_live_empty (m := m) (p := q) (s := s) hq
    obtain ⟨i1, i2⟩ := AllocInv_of_empty (m := m) h1 h2 h3 h4
    exact ⟨i1, i2, RemOK_enter m hw q s hq⟩
  refine ⟨?_, ?_, ?_, ?_, hgood _ hs, hgood _ hs⟩
  · exact LRel.refl m _
  · rw [ht, htB]; rfl
  · rw [ht, stepsBelow_zero, removeLogs_nil, hlg]
  · exact C08_aligned_enter (p := { p with absence := L }) s (Or.inl hl)

theorem enter_status (m : Model) (p : Params) (s : St) (hl : p.initLog = true) :
    (enter m p s).status = .none := by
  cases hs : p.initState <;> simp [enter, initProject, hl, hs]

/-- what `remove_absence_time_list` makes of the end state of run A -/
theorem removeAbs_of_endRel (m : Model) (L : List Nat) (rA rB : St) (h : EndRel m L rA rB)
    (hab : rA.absence = L) (hsA : rA.status = .success) :
    (removeAbs m rA).logs = rB.logs ∧ (removeAbs m rA).time = rB.time ∧
      (removeAbs m rA).status = rB.status := by
  have e : stepsBelow rA.logs.projCost.length rA.absence = stepsBelow rA.time L := by
    rw [h.align.projCost, hab]
  refine ⟨?_, ?_, ?_⟩
  · show removeLogs m (stepsBelow rA.logs.projCost.length rA.absence) rA.logs = rB.logs
    rw [e]; exact h.logs
  · show rA.time - (stepsBelow rA.logs.projCost.length rA.absence).length = rB.time
    rw [e]; have := h.time; omega
  · show rA.status = rB.status
    rw [hsA, h.status]

/-- **C10, clause 3, from the absence-step lemma**: whatever `check_state(WORKING)` does at an
absence step, if one absence step of run A leads to the relation with the same state of run B
(`AbsStepOK`), then deleting the absence steps from a successful run with absence list `L` gives
the logs, the clock and the status of the run without absence — which is successful too. -/
theorem removal_of_absStep (m : Model) (p : Params) (L : List Nat) (s : St)
    (hm : ModelOK m p.rule) (hw : WorkOK m) (hs : p.initState = true) (hl : p.initLog = true)
    (J : St → Prop) (hJ0 : J (enter m { p with absence := L } s))
    (hJ : ∀ a0, J a0 → J (stepBody m { p with absence := L } (updated m a0)))
    (habs : AbsStepOK m { p with absence := L } J)
    (hsucc : (simulate m { p with absence := L } s).status = .success) :
    (removeAbs m (simulate m { p with absence := L } s)).logs = (simulate m { p with absence := [] } s).logs ∧
    (removeAbs m (simulate m { p with absence := L } s)).time = (simulate m { p with absence := [] } s).time ∧
    (removeAbs m (simulate m { p with absence := L } s)).status =
      (simulate m { p with absence := [] } s).status ∧
    (simulate m { p with absence := [] } s).status = .success := by
  have hend := loop_rel m { p with absence := L } { p with absence := [] } hm rfl rfl rfl rfl J hJ habs
    (fuelOf { p with absence := L } (enter m { p with absence := L } s))
    (enter m { p with absence := L } s) (enter m { p with absence := [] } s)
    (fuelOf { p with absence := [] } (enter m { p with absence := [] } s))
    (enter_rel m hw p L s hs hl) hJ0
    (by rw [enter_status m { p with absence := L } s hl]; intro h; cases h) (Nat.le_refl _)
    (by rw [← simulate_eq]; exact hsucc)
  rw [← simulate_eq, ← simulate_eq] at hend
  have hab : (simulate m { p with absence := L } s).absence = L := by
    rw [simulate_eq, loop_absence]; rfl
  obtain ⟨h1, h2, h3⟩ := removeAbs_of_endRel m L _ _ hend hab hsucc
  exact ⟨h1, h2, h3, hend.status⟩

/-! ## The absence step (flag off) -/

/-- what `__update` leaves behind: nothing to finish, components, placements and READY states
at their fixpoints -/
structure UpdFix (m : Model) (a : Live) : Prop where
  noCand : NoCand m a
  comp : compCheck m a = a
  remove : chkRemove m a = a
  ready : chkReady m a = a

theorem updFix_update (m : Model) (time : Nat) (l : Live) : UpdFix m (update m time l) := by
  have hn := update_NR m time l
  exact ⟨NoCand_NR m (chkFinished_noCand m l) hn (Idem.update_rem m time l),
    compCheck_fix m (chkReady m (chkRemove m (compCheck m (chkFinished m l)))) _ rfl rfl,
    chkRemove_fix m (compCheck m (chkFinished m l)) _ (fun t => hn.finished t) rfl,
    chkReady_fix m (chkRemove m (compCheck m (chkFinished m l))) _ rfl⟩

/-- **`__update` after an absence step finds nothing to do** (but the PERT data): a state `x`
with the task states, remaining work, component states and placements of an updated state `a`
(whatever its resource states and allocation lists) is a fixpoint of every phase of `__update`
before the PERT recomputation -/
theorem upd0_same (m : Model) (a x : Live) (hu : UpdFix m a)
    (hts : x.tstate = a.tstate) (hrem : x.rem = a.rem)
    (hcs : x.cstate = a.cstate) (hpl : x.placed = a.placed) : upd0 m x = x := by
  have hcomp : compCheck m x = x :=
    compCheck_quiet m a x hu.comp (fun c t _ => by rw [hts]) hcs
  have h1 : chkFinished m x = x := by
    apply chkFinished_of_noCand
    intro t ht
    have h0 := hu.noCand t ht
    have : finishCand x t = finishCand a t := by
      unfold finishCand; rw [hts, hrem]
    rw [this, hts]; exact h0
  have h3 : chkRemove m x = x := by
    apply chkRemove_of_none
    intro c hlt
    have e : removeCand m x c = removeCand m a c := by
      unfold removeCand
      rw [hpl, hts]
    rw [e]
    have hpc := chkRemove_placed m a c
    rw [hu.remove] at hpc
    by_cases hr : removeCand m a c = true
    · rw [if_pos ⟨hlt, hr⟩] at hpc
      simp [removeCand, hpc] at hr
    · simpa using hr
  have h4 : chkReady m x = x := by
    apply live_ext <;> try rfl
    funext t
    rw [Lifecycle.chkReady_tstate]
    split
    · rename_i hcond
      exfalso
      simp only [Bool.and_eq_true, beq_iff_eq, decide_eq_true_eq] at hcond
      obtain ⟨⟨hlt, h0⟩, hg⟩ := hcond
      rw [hts] at hg h0
      have hv := Lifecycle.chkReady_tstate m a t
      rw [hu.ready, h0] at hv
      split at hv
      · cases hv
      · rename_i hc'
        apply hc'
        simp [hlt, hg]
    · rfl
  unfold upd0
  rw [h1, hcomp, h3, h4, hcomp]

/-- **an absence step of run A, live state** (flag off): neither `allocate` nor
`check_state(WORKING)` nor `perform` runs; every resource in range becomes ABSENCE and nothing
else changes — from any state on which `product.check_state` has nothing to do -/
theorem stepLive_absence (m : Model) (a : Live) (lg : Logs) (rule : TaskRule) (τ : Nat)
    (hfix : compCheck m a = a) :
    stepLive m lg rule false τ false a = absenceSet m τ false a := by
  unfold stepLive preLive allocLive
  simp only [Bool.false_eq_true, if_false, Bool.or_false]
  rw [perform_off]
  exact compCheck_quiet m a _ hfix (fun _ _ _ => rfl) rfl

/-- **an absence step of run A leads to the relation with the same state of run B** (flag
off): the live state is the updated one with all resources in range ABSENCE, the next
`__update` changes nothing but the PERT data, and the appended rows are the ones `removeLogs`
drops.  No condition on the model, no further invariant of run A. -/
theorem rel_absence (m : Model) (pA : Params) (hflag : pA.autoFlag = false) :
    AbsStepOK m pA (fun _ => True) := by
  intro a0 b0 h _ hc
  have gu := h.goodA.update a0.time
  have hu : UpdFix m (updated m a0).live := updFix_update m a0.time a0.live
  have hwk : (!(pA.absence.contains (updated m a0).time)) = false := by
    show (!(pA.absence.contains a0.time)) = false
    rw [hc]; rfl
  have hlive : (stepBody m pA (updated m a0)).live =
      absenceSet m a0.time false (updated m a0).live := by
    rw [stepBody_live_eq, hwk, hflag]
    exact stepLive_absence m _ _ _ _ hu.comp
  have hq : upd0 m (stepBody m pA (updated m a0)).live = (stepBody m pA (updated m a0)).live := by
    rw [hlive]
    exact upd0_same m (updated m a0).live _ hu rfl rfl rfl rfl
  have hsteps : stepsBelow (a0.time + 1) pA.absence = stepsBelow a0.time pA.absence ++ [a0.time] :=
    stepsBelow_succ_of_mem _ _ hc
  refine ⟨?_, ?_, ?_, ?_, ?_, h.goodB⟩
  · show LRel m (update m (a0.time + 1) (stepBody m pA (updated m a0)).live) _
    rw [update_eq, hq, hlive]
    have hl := h.live
    refine ⟨hl.ts, hl.rem, hl.allocW, hl.allocF, hl.wasg, hl.fasg, hl.cstate, hl.placed,
      hl.wpComps, ?_, ?_⟩
    · intro w hw
      refine Eq.trans ?_ (hl.wout w hw)
      show (absenceSet m a0.time false (updated m a0).live).wstate w = _
      simp [absenceSet, hw]; rfl
    · intro f hf
      refine Eq.trans ?_ (hl.fout f hf)
      show (absenceSet m a0.time false (updated m a0).live).fstate f = _
      simp [absenceSet, hf]; rfl
  · show a0.time + 1 = b0.time + (stepsBelow (a0.time + 1) pA.absence).length
    rw [hsteps, List.length_append, List.length_singleton]
    have := h.time; omega
  · show removeLogs m (stepsBelow (a0.time + 1) pA.absence) (stepBody m pA (updated m a0)).logs = _
    rw [hsteps, stepBody_logs_eq]
    have := removeLogs_addRow_drop m (!(pA.absence.contains (updated m a0).time))
      (preLive m (updated m a0).logs pA.rule pA.autoFlag (updated m a0).time
        (!(pA.absence.contains (updated m a0).time)) (updated m a0).live)
      (stepBody m pA (updated m a0)).live a0 h.alignA (stepsBelow a0.time pA.absence)
    exact this.trans h.logs
  · exact C08_aligned_step _ (C08_aligned_updated _ h.alignA)
  · exact Good.stepBody pA (s := updated m a0) gu

/-- **C10, clause 3** (see `PDesy/Props/C10Removal.lean`) -/
theorem removal (m : Model) (p : Params) (L : List Nat) (s : St)
    (hm : ModelOK m p.rule) (hw : WorkOK m) (hs : p.initState = true)
    (hl : p.initLog = true) (hflag : p.autoFlag = false)
    (hsucc : (simulate m { p with absence := L } s).status = .success) :
    (removeAbs m (simulate m { p with absence := L } s)).logs = (simulate m { p with absence := [] } s).logs ∧
    (removeAbs m (simulate m { p with absence := L } s)).time = (simulate m { p with absence := [] } s).time ∧
    (removeAbs m (simulate m { p with absence := L } s)).status =
      (simulate m { p with absence := [] } s).status ∧
    (simulate m { p with absence := [] } s).status = .success :=
  removal_of_absStep m p L s hm hw hs hl (fun _ => True) trivial (fun _ _ => trivial)
    (rel_absence m { p with absence := L } hflag) hsucc

end Removal
end PDesy
