/-
  PDesy.Lemmas.Removal — helper lemmas for C10, clause 3 ("deleting the project-wide absence
  steps from the result gives the result of the run without absence").

  Stage 1  shift invariance: the forward PERT pass started `d` later computes every `est`
           exactly `d` later (`pert_est_shift`, any link kinds); on finish-to-start networks the
           total slack is the same (`pert_slack_shift`); hence the comparison function of
           `sort_task_list` is the *same function* for every rule but FIFO (`taskLe_pert_shift`),
           and the stable sort gives the same list (`sortBy_congr`).
  Stage 2  one-step lemmas of the simulation relation between the run with absence list `L`
           (run A) and the run without (run B).
  Stage 3  the logs: the rows appended at absence steps are the ones `popBy` deletes.
  Stage 4  the loop.
-/
import PDesy.Lemmas.Idem
import PDesy.Lemmas.Pert
import PDesy.Lemmas.Sort
import PDesy.Lemmas.Alloc
import PDesy.Lemmas.Perform
import PDesy.Lemmas.Edit
import PDesy.Props.C08

namespace PDesy
namespace Removal

open Idem PertSpec Edit

/-! ## Stage 1 — shift invariance of PERT and of the task comparison -/

section fwd
variable (m : Model)

/-- the `est` a forward relaxation proposes does not depend on `eft` -/
theorem fwdCand_fst (l : Live) (p : Pert) (i : Nat) (e : Nat × Dep) :
    (fwdCand l p i e).1 = match e.2 with
      | .fs => p.est i + l.rem i
      | _ => p.est i := by
  obtain ⟨nx, d⟩ := e
  cases d <;> rfl

/-- `est` values below `m.nT` of `p'` are those of `p` plus `d` -/
def EstShift (m : Model) (d : Rat) (p p' : Pert) : Prop := ∀ t, t < m.nT → p'.est t = p.est t + d

theorem EstShift_relax (hwf : WF m) (l : Live) (d : Rat) (p p' : Pert) (i : Nat) (e : Nat × Dep)
    (hS : EstShift m d p p') (hi : i < m.nT) (he : e ∈ (m.task i).outputs) :
    EstShift m d (fwdRelax l p i e) (fwdRelax l p' i e) := by
  have hlt : e.1 < m.nT := (hwf i hi).2 e he
  have hc : (fwdCand l p' i e).1 = (fwdCand l p i e).1 + d := by
    rw [fwdCand_fst, fwdCand_fst, hS i hi]
    obtain ⟨nx, dd⟩ := e
    cases dd <;> simp only <;> grind
  rw [fwdRelax_eq l p, fwdRelax_eq l p', hc, hS e.1 hlt]
  have hiff : ((fwdCand l p i e).1 + d ≥ p.est e.1 + d) ↔ ((fwdCand l p i e).1 ≥ p.est e.1) := by
    constructor <;> intro h <;> grind
  by_cases hw : (fwdCand l p i e).1 ≥ p.est e.1
  · rw [if_pos hw, if_pos (hiff.2 hw)]
    intro t ht
    show upd p'.est e.1 _ t = upd p.est e.1 _ t + d
    rw [upd_apply, upd_apply]
    split
    · rfl
    · exact hS t ht
  · rw [if_neg hw, if_neg (fun h => hw (hiff.1 h))]
    exact hS

/-- **forward pass, shift**: started `d` later on the same remaining work, the forward pass
computes every `est` below `m.nT` exactly `d` later (whatever the kinds of the links; the
`est` side of the pass never reads `eft`) -/
theorem pertFwd_est_shift (hwf : WF m) (l l' : Live) (hr : l'.rem = l.rem) (time d : Rat) :
    ∀ t, t < m.nT → (pertFwd m (time + d) l').est t = (pertFwd m time l).est t + d := by
  rw [pertFwd_eq, pertFwd_eq, fwdLoop_rem m hr]
  refine fwdLoop_pair m l (EstShift m d) (fun _ _ _ => True)
    (fun p p' i e hS hi _ he => ⟨EstShift_relax m hwf l d p p' i e hS hi he, trivial, fun _ _ => trivial⟩)
    (m.nT + 1) (heads m) (fwdInit m time l) (fwdInit m (time + d) l') ?_
    (fun i hi => ⟨(mem_heads m i hi).1, trivial⟩)
  intro t ht
  show (if t < m.nT then time + d else l'.est t) = (if t < m.nT then time else l.est t) + d
  rw [if_pos ht, if_pos ht]

/-- `pert` shifts `est` -/
theorem pert_est_shift (hwf : WF m) (l l' : Live) (hr : l'.rem = l.rem) (time d : Nat) :
    ∀ t, t < m.nT → (pert m (time + d) l').est t = (pert m time l).est t + (d : Rat) := by
  intro t ht
  rw [(pert_fields m (time + d) l').1, (pert_fields m time l).1, pertBwd_eq, pertBwd_eq]
  have h1 := bwdLoop_frame m hwf l' (m.nT + 1) (tails m)
    (bwdInit m l' (maxList l'.cpl ((tails m).map (pertFwd m ((time + d : Nat) : Rat) l').eft))
      (pertFwd m ((time + d : Nat) : Rat) l')) (fun i hi => mem_tails m i hi)
  have h2 := bwdLoop_frame m hwf l (m.nT + 1) (tails m)
    (bwdInit m l (maxList l.cpl ((tails m).map (pertFwd m (time : Rat) l).eft))
      (pertFwd m (time : Rat) l)) (fun i hi => mem_tails m i hi)
  rw [h1.2.1, h2.2.1]
  show (pertFwd m ((time + d : Nat) : Rat) l').est t = (pertFwd m (time : Rat) l).est t + (d : Rat)
  have : ((time + d : Nat) : Rat) = (time : Rat) + (d : Rat) := by push_cast; rfl
  rw [this]
  exact pertFwd_est_shift m hwf l l' hr _ _ t ht

end fwd
theorem foldl_max_shift (l : List Rat) (a d : Rat) :
    (l.map (· + d)).foldl max (a + d) = l.foldl max a + d := by
  induction l generalizing a with
  | nil => rfl
  | cons x xs ih =>
    simp only [List.map_cons, List.foldl_cons]
    have : max (a + d) (x + d) = max a x + d := by grind
    rw [this, ih]

theorem foldl_min_shift (l : List Rat) (a d : Rat) :
    (l.map (· + d)).foldl min (a + d) = l.foldl min a + d := by
  induction l generalizing a with
  | nil => rfl
  | cons x xs ih =>
    simp only [List.map_cons, List.foldl_cons]
    have : min (a + d) (x + d) = min a x + d := by grind
    rw [this, ih]

theorem lmin_shift (c d : Rat) (l : List Rat) : lmin (c + d) (l.map (· + d)) = lmin c l + d := by
  cases l with
  | nil => rfl
  | cons x xs => exact foldl_min_shift xs x d

theorem AEqs_shift {n : Nat} {G H : Nat → List Nat} {w : Nat → Rat} {time : Rat}
    {est eft lst lft : Nat → Rat} {cpl : Rat}
    (h : AEqs n G H w time est eft lst lft cpl) (d : Rat) :
    AEqs n G H w (time + d) (fun x => est x + d) (fun x => eft x + d) (fun x => lst x + d)
      (fun x => lft x + d) (cpl + d) := by
  refine ⟨?_, ?_, ?_, ?_, ?_, ?_⟩
  · intro x hx
    show est x + d = _
    rw [h.est_eq x hx, ← foldl_max_shift, List.map_map]
    congr 1
    apply List.map_congr_left
    intro p _
    show est p + w p + d = est p + d + w p
    grind
  · intro x hx
    show eft x + d = est x + d + w x
    rw [h.eft_eq x hx]; grind
  · intro x hx h0
    show eft x + d ≤ cpl + d
    have := h.cpl_ge x hx h0
    grind
  · obtain ⟨x, hx, h0, he⟩ := h.cpl_at
    exact ⟨x, hx, h0, by show eft x + d = cpl + d; rw [he]⟩
  · intro x hx
    show lft x + d = _
    rw [h.lft_eq x hx, ← lmin_shift, List.map_map]
    rfl
  · intro x hx
    show lst x + d = lft x + d - w x
    rw [h.lst_eq x hx]; grind

/-- the fragment in which the backward pass is known to be the textbook one: finish-to-start
links only, consistent in-range link lists, no cycle -/
def SlackOK (m : Model) : Prop := FSOnly m ∧ GraphOK m ∧ Acyclic m

/-- **total slack, shift**: on a finish-to-start network the slack `lst − est` computed `d`
steps later on the same (non-negative) remaining work is the same -/
theorem pert_slack_shift {m : Model} (hs : SlackOK m) (l l' : Live) (hr : l'.rem = l.rem)
    (hrem : ∀ t, t < m.nT → 0 ≤ l.rem t) (time d : Nat) :
    ∀ t, t < m.nT → (pert m (time + d) l').lst t - (pert m (time + d) l').est t =
      (pert m time l).lst t - (pert m time l).est t := by
  intro t ht
  obtain ⟨hfs, hok, hac⟩ := hs
  have hn : 0 < m.nT := by omega
  have h1 := AEqs_shift (pert_AEqs time l hfs hok hac hn hrem) (d : Rat)
  have h2 := pert_AEqs (time + d) l' hfs hok hac hn (by rw [hr]; exact hrem)
  rw [hr] at h2
  have hc : ((time + d : Nat) : Rat) = (time : Rat) + (d : Rat) := by push_cast; rfl
  rw [hc] at h2
  obtain ⟨_, hu⟩ := h1.unique (dag_of hok hac) h2
  obtain ⟨e1, _, e3, _⟩ := hu t ht
  have e1' : (pert m time l).est t + (d : Rat) = (pert m (time + d) l').est t := e1
  have e3' : (pert m time l).lst t + (d : Rat) = (pert m (time + d) l').lst t := e3
  rw [← e1', ← e3']
  grind

/-! ### the comparison of `sort_task_list` -/

theorem taskLe_of_key_shift (m : Model) (l l' : Live) (lg lg' : Logs) (rule : TaskRule) (c : Rat)
    (a b : Nat) (ha : taskKey m l' lg' rule a = taskKey m l lg rule a + c)
    (hb : taskKey m l' lg' rule b = taskKey m l lg rule b + c) :
    taskLe m l' lg' rule a b = taskLe m l lg rule a b := by
  unfold taskLe
  rw [ha, hb]
  split
  · congr 1; apply propext; constructor <;> intro h <;> grind
  · congr 1; apply propext; constructor <;> intro h <;> grind

/-- **the comparison is shift invariant** for every rule but FIFO: the PERT data computed `d`
steps later on the same remaining work order the tasks below `m.nT` in the same way
(TSLACK: inside `SlackOK`, with non-negative remaining work) -/
theorem taskLe_pert_shift (m : Model) (hwf : Idem.WF m) (rule : TaskRule) (hrule : rule ≠ .fifo)
    (l l' : Live) (hr : l'.rem = l.rem)
    (hsl : rule = .tslack → SlackOK m ∧ ∀ t, t < m.nT → 0 ≤ l.rem t)
    (time d : Nat) (lg lg' : Logs) (a b : Nat) (ha : a < m.nT) (hb : b < m.nT) :
    taskLe m (pert m (time + d) l') lg' rule a b = taskLe m (pert m time l) lg rule a b := by
  have hrem : ∀ τ τ' t, (pert m τ' l').rem t = (pert m τ l).rem t := by
    intro τ τ' t; show l'.rem t = l.rem t; rw [hr]
  cases rule with
  | fifo => exact absurd rfl hrule
  | tslack =>
    obtain ⟨hs, hnn⟩ := hsl rfl
    apply taskLe_of_key_shift m _ _ lg lg' .tslack 0
    · show _ - _ = _ - _ + 0
      rw [pert_slack_shift hs l l' hr hnn time d a ha]; grind
    · show _ - _ = _ - _ + 0
      rw [pert_slack_shift hs l l' hr hnn time d b hb]; grind
  | est =>
    apply taskLe_of_key_shift m _ _ lg lg' .est (d : Rat)
    · exact pert_est_shift m hwf l l' hr time d a ha
    · exact pert_est_shift m hwf l l' hr time d b hb
  | spt => exact taskLe_of_key_shift m _ _ lg lg' .spt 0 a b (Rat.add_zero _).symm (Rat.add_zero _).symm
  | lpt => exact taskLe_of_key_shift m _ _ lg lg' .lpt 0 a b (Rat.add_zero _).symm (Rat.add_zero _).symm
  | lrpt =>
    apply taskLe_of_key_shift m _ _ lg lg' .lrpt 0
    · show (pert m _ l').rem a = (pert m _ l).rem a + 0; rw [hrem time]; grind
    · show (pert m _ l').rem b = (pert m _ l).rem b + 0; rw [hrem time]; grind
  | srpt =>
    apply taskLe_of_key_shift m _ _ lg lg' .srpt 0
    · show (pert m _ l').rem a = (pert m _ l).rem a + 0; rw [hrem time]; grind
    · show (pert m _ l').rem b = (pert m _ l).rem b + 0; rw [hrem time]; grind
  | lwrpt =>
    apply taskLe_of_key_shift m _ _ lg lg' .lwrpt ((pert m (time + d) l').cpl - (pert m time l).cpl)
    · show (pert m (time + d) l').cpl = (pert m time l).cpl + _; grind
    · show (pert m (time + d) l').cpl = (pert m time l).cpl + _; grind
  | swrpt =>
    apply taskLe_of_key_shift m _ _ lg lg' .swrpt ((pert m (time + d) l').cpl - (pert m time l).cpl)
    · show (pert m (time + d) l').cpl = (pert m time l).cpl + _; grind
    · show (pert m (time + d) l').cpl = (pert m time l).cpl + _; grind

/-! ### stable insertion sort with two comparisons that agree on the list -/

theorem insertBy_congr {α : Type} (le le' : α → α → Bool) (x : α) (ys : List α)
    (h : ∀ y ∈ ys, le x y = le' x y) : insertBy le x ys = insertBy le' x ys := by
  induction ys with
  | nil => rfl
  | cons y ys ih =>
    simp only [insertBy]
    rw [h y (List.mem_cons_self ..), ih (fun z hz => h z (List.mem_cons_of_mem _ hz))]

theorem sortBy_congr {α : Type} (le le' : α → α → Bool) (xs : List α)
    (h : ∀ a ∈ xs, ∀ b ∈ xs, le a b = le' a b) : sortBy le xs = sortBy le' xs := by
  induction xs with
  | nil => rfl
  | cons x xs ih =>
    simp only [sortBy]
    rw [← ih (fun a ha b hb => h a (List.mem_cons_of_mem _ ha) b (List.mem_cons_of_mem _ hb))]
    apply insertBy_congr
    intro y hy
    have : y ∈ xs := (Sort.sortBy_perm le xs).mem_iff.mp hy
    exact h x (List.mem_cons_self ..) y (List.mem_cons_of_mem _ this)

/-! ## Stage 3 — the logs -/

theorem delAt_append_last {α : Type} (xs : List α) (v : α) : delAt (xs ++ [v]) xs.length = xs := by
  induction xs with
  | nil => rfl
  | cons x xs ih => simp only [List.cons_append, List.length_cons, delAt, ih]

theorem delAt_append_lt {α : Type} (xs : List α) (v : α) (i : Nat) (h : i < xs.length) :
    delAt (xs ++ [v]) i = delAt xs i ++ [v] := by
  induction xs generalizing i with
  | nil => simp at h
  | cons x xs ih =>
    cases i with
    | zero => rfl
    | succ i =>
      simp only [List.cons_append, delAt]
      rw [ih i (by simpa using h)]

theorem foldl_delAt_append {α : Type} (ds : List Nat) (g : Nat) (log : List α) (v : α)
    (h : Dec ds g) (hg : g ≤ log.length) :
    ds.foldl delAt (log ++ [v]) = ds.foldl delAt log ++ [v] := by
  induction ds generalizing g log with
  | nil => rfl
  | cons d r ih =>
    obtain ⟨h1, h2⟩ := h
    rw [List.foldl_cons, List.foldl_cons, delAt_append_lt _ _ _ (by omega)]
    apply ih (g - 1) _ h2
    rw [length_delAt _ _ (by omega)]
    omega

/-- **a working step**: the row appended after the last absence step stays where it is -/
theorem popBy_append_keep {α : Type} (steps : List Nat) (n : Nat) (log : List α) (v : α)
    (hp : steps.Pairwise (· < ·)) (hlt : ∀ d ∈ steps, d < n) (hn : log.length = n) :
    popBy steps (n + 1) (log ++ [v]) = popBy steps n log ++ [v] := by
  have hd := Dec.of_asc steps n hp hlt
  have hd' := Dec.of_asc steps (n + 1) hp (fun d h => Nat.lt_succ_of_lt (hlt d h))
  rw [popBy, popBy, popSteps_eq, popSteps_eq, foldl_popF _ _ _ hd, foldl_popF _ _ _ hd']
  exact foldl_delAt_append _ n log v hd (by omega)

/-- **an absence step**: the row appended at step `n` is the first one `popBy` deletes -/
theorem popBy_append_drop {α : Type} (steps : List Nat) (n : Nat) (log : List α) (v : α)
    (hn : log.length = n) :
    popBy (steps ++ [n]) (n + 1) (log ++ [v]) = popBy steps n log := by
  rw [popBy, popBy, popSteps_eq, popSteps_eq, List.reverse_append, List.reverse_singleton,
    List.singleton_append, List.foldl_cons]
  have : popF (log ++ [v], n + 1) n = (log, n) := by
    simp only [popF, Nat.lt_succ_self, if_true, Nat.add_sub_cancel]
    rw [← hn, delAt_append_last]
  rw [this]

/-- the absence steps below `n + 1` -/
theorem stepsBelow_succ (n : Nat) (L : List Nat) :
    stepsBelow (n + 1) L = stepsBelow n L ++ (if L.contains n then [n] else []) := by
  simp only [stepsBelow, canonSet, List.range_succ, List.filter_append, List.filter_cons,
    List.filter_nil]

theorem stepsBelow_succ_of_mem (n : Nat) (L : List Nat) (h : L.contains n = true) :
    stepsBelow (n + 1) L = stepsBelow n L ++ [n] := by
  rw [stepsBelow_succ, if_pos h]

theorem stepsBelow_succ_of_not_mem (n : Nat) (L : List Nat) (h : L.contains n = false) :
    stepsBelow (n + 1) L = stepsBelow n L := by
  rw [stepsBelow_succ, h]; simp

/-- the rows one iteration appends -/
def addRow (m : Model) (wk : Bool) (l4 l5 : Live) (g : Logs) : Logs := record m wk l5 (cost m wk l4 g)

theorem ite_idx_keep {α β : Type} (N n : Nat) (steps : List Nat) (hp : steps.Pairwise (· < ·))
    (hlt : ∀ d ∈ steps, d < n) (G : Nat → List β) (X : Nat → List α)
    (hG : ∀ t, t < N → (G t).length = n) (hX : ∀ t, t < N → (X t).length = n) (t : Nat) (g : β) (v : α) :
    (if t < N then popBy steps (if t < N then G t ++ [g] else G t).length
        (if t < N then X t ++ [v] else X t) else (if t < N then X t ++ [v] else X t)) =
    (if t < N then (if t < N then popBy steps (G t).length (X t) else X t) ++ [v]
      else (if t < N then popBy steps (G t).length (X t) else X t)) := by
  by_cases ht : t < N
  · simp only [ht, if_true, List.length_append, List.length_singleton, hG t ht]
    exact popBy_append_keep steps n (X t) v hp hlt (hX t ht)
  · simp only [ht, if_false]

theorem ite_idx_drop {α β : Type} (N n : Nat) (steps : List Nat) (G : Nat → List β) (X : Nat → List α)
    (hG : ∀ t, t < N → (G t).length = n) (hX : ∀ t, t < N → (X t).length = n) (t : Nat) (g : β) (v : α) :
    (if t < N then popBy (steps ++ [n]) (if t < N then G t ++ [g] else G t).length
        (if t < N then X t ++ [v] else X t) else (if t < N then X t ++ [v] else X t)) =
    (if t < N then popBy steps (G t).length (X t) else X t) := by
  by_cases ht : t < N
  · simp only [ht, if_true, List.length_append, List.length_singleton, hG t ht]
    exact popBy_append_drop steps n (X t) v (hX t ht)
  · simp only [ht, if_false]

theorem removeLogs_addRow_keep (m : Model) (wk : Bool) (l4 l5 : Live) (s : St) (h : Aligned m s)
    (steps : List Nat) (hp : steps.Pairwise (· < ·)) (hlt : ∀ d ∈ steps, d < s.time) :
    removeLogs m steps (addRow m wk l4 l5 s.logs) = addRow m wk l4 l5 (removeLogs m steps s.logs) := by
  obtain ⟨h1, h2, h3, h4, h5, h6, h7, h8, h9, h10, h11, h12, h13, h14, h15, h16, h17⟩ := h
  simp only [addRow, removeLogs, record, cost, tabN_eq]
  congr 1
  · funext t; exact ite_idx_keep m.nT s.time steps hp hlt _ _ h1 h1 t _ _
  · funext t; exact ite_idx_keep m.nT s.time steps hp hlt _ _ h1 h2 t _ _
  · funext t; exact ite_idx_keep m.nT s.time steps hp hlt _ _ h1 h3 t _ _
  · funext t; exact ite_idx_keep m.nT s.time steps hp hlt _ _ h1 h4 t _ _
  · funext t; exact ite_idx_keep m.nW s.time steps hp hlt _ _ h5 h5 t _ _
  · funext t; exact ite_idx_keep m.nW s.time steps hp hlt _ _ h5 h6 t _ _
  · funext t; exact ite_idx_keep m.nW s.time steps hp hlt _ _ h5 h7 t _ _
  · funext t; exact ite_idx_keep m.nF s.time steps hp hlt _ _ h8 h8 t _ _
  · funext t; exact ite_idx_keep m.nF s.time steps hp hlt _ _ h8 h9 t _ _
  · funext t; exact ite_idx_keep m.nF s.time steps hp hlt _ _ h8 h10 t _ _
  · funext t; exact ite_idx_keep m.nTeam s.time steps hp hlt _ _ h11 h11 t _ _
  · funext t; exact ite_idx_keep m.nWp s.time steps hp hlt _ _ h12 h12 t _ _
  · funext t; exact ite_idx_keep m.nWp s.time steps hp hlt _ _ h13 h13 t _ _
  · rw [List.length_append, List.length_singleton, h14]
    exact popBy_append_keep steps s.time _ _ hp hlt h14
  · rw [List.length_append, List.length_singleton, h15]
    exact popBy_append_keep steps s.time _ _ hp hlt h15
  · funext t; exact ite_idx_keep m.nC s.time steps hp hlt _ _ h16 h16 t _ _
  · funext t; exact ite_idx_keep m.nC s.time steps hp hlt _ _ h16 h17 t _ _

theorem removeLogs_addRow_drop (m : Model) (wk : Bool) (l4 l5 : Live) (s : St) (h : Aligned m s)
    (steps : List Nat) :
    removeLogs m (steps ++ [s.time]) (addRow m wk l4 l5 s.logs) = removeLogs m steps s.logs := by
  obtain ⟨h1, h2, h3, h4, h5, h6, h7, h8, h9, h10, h11, h12, h13, h14, h15, h16, h17⟩ := h
  simp only [addRow, removeLogs, record, cost, tabN_eq]
  congr 1
  · funext t; exact ite_idx_drop m.nT s.time steps _ _ h1 h1 t _ _
  · funext t; exact ite_idx_drop m.nT s.time steps _ _ h1 h2 t _ _
  · funext t; exact ite_idx_drop m.nT s.time steps _ _ h1 h3 t _ _
  · funext t; exact ite_idx_drop m.nT s.time steps _ _ h1 h4 t _ _
  · funext t; exact ite_idx_drop m.nW s.time steps _ _ h5 h5 t _ _
  · funext t; exact ite_idx_drop m.nW s.time steps _ _ h5 h6 t _ _
  · funext t; exact ite_idx_drop m.nW s.time steps _ _ h5 h7 t _ _
  · funext t; exact ite_idx_drop m.nF s.time steps _ _ h8 h8 t _ _
  · funext t; exact ite_idx_drop m.nF s.time steps _ _ h8 h9 t _ _
  · funext t; exact ite_idx_drop m.nF s.time steps _ _ h8 h10 t _ _
  · funext t; exact ite_idx_drop m.nTeam s.time steps _ _ h11 h11 t _ _
  · funext t; exact ite_idx_drop m.nWp s.time steps _ _ h12 h12 t _ _
  · funext t; exact ite_idx_drop m.nWp s.time steps _ _ h13 h13 t _ _
  · rw [List.length_append, List.length_singleton, h14]
    exact popBy_append_drop steps s.time _ _ h14
  · rw [List.length_append, List.length_singleton, h15]
    exact popBy_append_drop steps s.time _ _ h15
  · funext t; exact ite_idx_drop m.nC s.time steps _ _ h16 h16 t _ _
  · funext t; exact ite_idx_drop m.nC s.time steps _ _ h16 h17 t _ _

theorem stepBody_logs_addRow (m : Model) (p : Params) (s : St) :
    ∃ l4, (stepBody m p s).logs = addRow m (!(p.absence.contains s.time)) l4 (stepBody m p s).live s.logs :=
  ⟨_, rfl⟩


end Removal
end PDesy
