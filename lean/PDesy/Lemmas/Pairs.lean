/-
  PDesy.Lemmas.Pairs — helper lemmas for the worker–facility-PAIR form of C06 ("no avoidable
  waiting") and of the second half of C11 ("allocation never inverts the priority order"), for
  tasks that need a facility (`allocPairs`).

  * `canAdd_WF_iff`   : `can_add_resources(worker=w, facility=f)` spelled out;
  * `GrowF`           : what the pass does to the facility side (facility states fixed, a
                        facility's assignment list never becomes empty again);
  * `pair_false`      : a refused pair stays refused while the lists only grow;
  * `PSettled`        : a task whose turn is over has refused, for the facility `f`, every eligible
                        worker still in the free list;
  * `allocPairs_settled`, `foldl_allocTask_placed` (a component is moved only at the turn of one
    of its own tasks), and the two consequences `allocate_idle_pair`, `allocate_no_inversion_pair`;
  * the counterfactual facility-side variant (`freed`, `CSettled`, `allocate_no_inversion_fac`);
  * the idle-pair clause at the end of a working step (`stepBody_idle_pair`).
-/
import PDesy.Lemmas.NoWait
import PDesy.Lemmas.Place

namespace PDesy
namespace Pairs

open NoWait

/-! ### `can_add_resources` for a worker together with a facility -/

/-- `can_add_resources(worker=w, facility=f)` spelled out -/
theorem canAdd_WF_iff {m : Model} {l : Live} {t w f : Nat} :
    canAdd m l t (some w) (some f) = true ↔
    (l.tstate t ≠ .none ∧ l.tstate t ≠ .finished) ∧
    (∀ w' ∈ l.allocW t, (m.worker w').solo = false) ∧
    (∀ f' ∈ l.allocF t, (m.fac f').solo = false) ∧
    ((m.worker w).solo = true → l.allocW t = []) ∧
    ((m.fac f).solo = true → l.allocF t = []) ∧
    (∀ ids, (m.task t).fixW = some ids → w ∈ ids) ∧
    (∀ ids, (m.task t).fixF = some ids → f ∈ ids) ∧
    l.fasg f = [] ∧
    hasSkill (m.fac f).skills (m.task t).name = true ∧
    hasSkill (m.worker w).facSkills (m.fac f).name = true ∧
    hasSkill (m.worker w).skills (m.task t).name = true := by
  constructor
  · exact Elig.canAdd_WF
  · rintro ⟨h1, h2, h3, h4, h5, h6, h7, h8, h9, h10, h11⟩
    unfold canAdd
    simp
    refine ⟨h1, h2, h3, ?_, ?_, ?_, ?_, h8, ⟨h9, h10⟩, h11⟩
    · cases hs : (m.worker w).solo
      · exact Or.inl rfl
      · exact Or.inr (h4 hs)
    · cases hs : (m.fac f).solo
      · exact Or.inl rfl
      · exact Or.inr (h5 hs)
    · cases hf : (m.task t).fixW with
      | none => rfl
      | some ids => simp [h6 ids hf]
    · cases hf : (m.task t).fixF with
      | none => rfl
      | some ids => simp [h7 ids hf]

theorem canAdd_pair_congr {m : Model} {l l' : Live} {t w f : Nat}
    (hW : l'.allocW t = l.allocW t) (hF : l'.allocF t = l.allocF t) (hA : l'.fasg f = l.fasg f)
    (hts : (l'.tstate t ≠ .none ∧ l'.tstate t ≠ .finished) ↔
      (l.tstate t ≠ .none ∧ l.tstate t ≠ .finished)) :
    canAdd m l' t (some w) (some f) = canAdd m l t (some w) (some f) := by
  rw [Bool.eq_iff_iff, canAdd_WF_iff, canAdd_WF_iff, hW, hF, hA, hts]

/-- a facility that is already assigned is refused -/
theorem canAdd_fasg_ne {m : Model} {l : Live} {t : Nat} {w : Option Nat} {f : Nat}
    (h : l.fasg f ≠ []) : canAdd m l t w (some f) = false := by
  cases hc : canAdd m l t w (some f) with
  | false => rfl
  | true => exact absurd (Alloc.canAdd_fac hc) h

/-! ### the facility side of the allocation pass -/

/-- what the allocation pass may do to the facility side of the live state: facility states are
fixed, a facility's assignment list never becomes empty again -/
structure GrowF (l l' : Live) : Prop where
  fs : l'.fstate = l.fstate
  fasg : ∀ f, l'.fasg f = [] → l.fasg f = []

theorem GrowF.refl (l : Live) : GrowF l l := ⟨rfl, fun _ h => h⟩

theorem GrowF.trans {a b c : Live} (h1 : GrowF a b) (h2 : GrowF b c) : GrowF a c :=
  ⟨h2.fs.trans h1.fs, fun f h => h1.fasg f (h2.fasg f h)⟩

theorem GrowF.giveW (l : Live) (t w : Nat) : GrowF l (giveW l t w) := ⟨rfl, fun _ h => h⟩

theorem GrowF.giveF (l : Live) (t f : Nat) : GrowF l (giveF l t f) where
  fs := rfl
  fasg := by
    intro f' h
    simp only [PDesy.giveF, upd_apply] at h
    split at h
    · simp at h
    · exact h

theorem GrowF.placeStep (m : Model) (t : Nat) (l : Live) : GrowF l (placeStep m t l) :=
  have h := Alloc.placeStep_frame m t l
  ⟨h.2.2.2.2.2.2, fun f hf => by rw [← h.2.2.2.1]; exact hf⟩

/-- a refused pair stays refused while the lists only grow -/
theorem pair_false {m : Model} {l l' : Live} (h : Grow l l') (hF : GrowF l l') {t w f : Nat}
    (hc : canAdd m l t (some w) (some f) = false) :
    canAdd m l' t (some w) (some f) = false := by
  cases hc' : canAdd m l' t (some w) (some f) with
  | false => rfl
  | true =>
    obtain ⟨h1, h2, h3, h4, h5, h6, h7, h8, h9, h10, h11⟩ := canAdd_WF_iff.mp hc'
    have : canAdd m l t (some w) (some f) = true := by
      rw [canAdd_WF_iff]
      refine ⟨by rw [← h.ts]; exact h1, fun w' hw' => h2 w' (h.subW t w' hw'),
        fun f' hf' => h3 f' (h.subF t f' hf'), ?_, ?_, h6, h7, hF.fasg f h8, h9, h10, h11⟩
      · intro hs
        have he := h4 hs
        cases hl : l.allocW t with
        | nil => rfl
        | cons x xs =>
          have := h.subW t x (by rw [hl]; exact List.mem_cons_self)
          rw [he] at this; cases this
      · intro hs
        have he := h5 hs
        cases hl : l.allocF t with
        | nil => rfl
        | cons x xs =>
          have := h.subF t x (by rw [hl]; exact List.mem_cons_self)
          rw [he] at this; cases this
    rw [this] at hc; cases hc

/-- a step of the pass, both sides: `NoWait.Step` and `GrowF` -/
structure Step2 (a a' : Alloc) : Prop where
  step : Step a a'
  growF : GrowF a.l a'.l

theorem Step2.refl (a : Alloc) : Step2 a a := ⟨Step.refl a, GrowF.refl _⟩

theorem Step2.trans {a b c : Alloc} (h1 : Step2 a b) (h2 : Step2 b c) : Step2 a c :=
  ⟨h1.step.trans h2.step, h1.growF.trans h2.growF⟩

theorem wStep_growF (m : Model) (t : Nat) (acc : Alloc) (w : Nat) :
    GrowF acc.l (wStep m t acc w).l := by
  unfold wStep; split
  · exact GrowF.giveW _ _ _
  · exact GrowF.refl _

theorem pStep_growF (m : Model) (t p : Nat) (acc : Alloc) (f : Nat) :
    GrowF acc.l (pStep m t p acc f).l := by
  unfold pStep; dsimp only; split
  · exact GrowF.refl _
  · exact (GrowF.giveW _ _ _).trans (GrowF.giveF _ _ _)

theorem pStep_step2 (m : Model) (t p : Nat) (acc : Alloc) (f : Nat) :
    Step2 acc (pStep m t p acc f) := ⟨pStep_step m t p acc f, pStep_growF m t p acc f⟩

theorem foldl_pStep_step2 (m : Model) (t p : Nat) (cs : List Nat) (acc : Alloc) :
    Step2 acc (cs.foldl (pStep m t p) acc) :=
  Lifecycle.foldl_rel (pStep m t p) Step2 Step2.refl (fun _ _ _ => Step2.trans)
    (pStep_step2 m t p) cs acc

theorem allocWorkers_growF (m : Model) (t : Nat) (a : Alloc) :
    GrowF a.l (allocWorkers m t a).l := by
  rw [allocWorkers_eq]
  exact Lifecycle.foldl_rel (wStep m t) (fun a b : Alloc => GrowF a.l b.l) (fun _ => GrowF.refl _)
    (fun _ _ _ => GrowF.trans) (wStep_growF m t) _
    { a with free := sortWorkers m (m.task t).wRule (m.task t).name Option.none a.free }

/-- `allocPairs` as a fold of `pStep`, when the component is placed -/
theorem allocPairs_eq (m : Model) (t : Nat) (a : Alloc) (c p : Nat)
    (hc : (m.task t).comp = some c) (hp : a.l.placed c = some p) :
    allocPairs m t a =
      ((sortFacs m (m.task t).fRule (m.task t).name
          ((m.wp p).facs.filter fun f => a.l.fstate f == .free)).filter fun f =>
        hasSkill (m.fac f).skills (m.task t).name && wpTargets m f t).foldl (pStep m t p) a := by
  unfold allocPairs
  simp only [hc, hp]
  rfl

theorem allocPairs_growF (m : Model) (t : Nat) (a : Alloc) : GrowF a.l (allocPairs m t a).l := by
  unfold allocPairs
  split
  · exact GrowF.refl _
  · split
    · exact GrowF.refl _
    · rename_i p _
      exact (foldl_pStep_step2 m t p _ a).growF

theorem headOf_growF (m : Model) (acc : Alloc) (t : Nat) : GrowF acc.l (headOf m acc t).l := by
  rcases headOf_cases m acc t with h | ⟨mv, h⟩ <;> rw [h]
  · exact GrowF.refl _
  · exact GrowF.placeStep m t acc.l

theorem allocTask_growF (m : Model) (acc : Alloc) (t : Nat) :
    GrowF acc.l (allocTask m acc t).l := by
  rw [NoWait.allocTask_eq]
  split
  · exact headOf_growF m acc t
  · split
    · exact (headOf_growF m acc t).trans (allocPairs_growF m t _)
    · exact (headOf_growF m acc t).trans (allocWorkers_growF m t _)

theorem foldl_allocTask_growF (m : Model) (ts : List Nat) (acc : Alloc) :
    GrowF acc.l (ts.foldl (allocTask m) acc).l :=
  Lifecycle.foldl_rel (allocTask m) (fun a b : Alloc => GrowF a.l b.l) (fun _ => GrowF.refl _)
    (fun _ _ _ => GrowF.trans) (allocTask_growF m) ts acc

theorem foldl_allocTask_step2 (m : Model) (ts : List Nat) (acc : Alloc) (h : acc.free.Nodup) :
    Step2 acc (ts.foldl (allocTask m) acc) :=
  ⟨(foldl_allocTask m ts acc h).2.1, foldl_allocTask_growF m ts acc⟩

theorem allocate_growF (m : Model) (lg : Logs) (rule : TaskRule) (l : Live) :
    GrowF l (allocate m lg rule l) := by
  rw [allocate_eq]
  exact foldl_allocTask_growF m _ { l := l, free := Elig.freeOf m l }

/-! ### a facility-needing task whose turn is over -/

/-- for facility `f`: the task has refused every eligible worker that is still in the free list -/
def PSettled (m : Model) (a : Alloc) (t f : Nat) : Prop :=
  ∀ w ∈ a.free, hasSkill (m.worker w).skills (m.task t).name = true → teamTargets m w t = true →
    canAdd m a.l t (some w) (some f) = false

theorem PSettled.step {m : Model} {a a' : Alloc} {t f : Nat} (h : PSettled m a t f)
    (hs : Step2 a a') : PSettled m a' t f :=
  fun w hw h1 h2 => pair_false hs.step.grow hs.growF (h w (hs.step.free_sub w hw) h1 h2)

/-- right after the loop of `allocPairs` has dealt with facility `f`, `f` is settled: either no
eligible free worker could be added with it, or it has just been given away -/
theorem pStep_settled (m : Model) (t p : Nat) (acc : Alloc) (f : Nat) :
    PSettled m (pStep m t p acc f) t f := by
  intro w hw h1 h2
  unfold pStep at hw ⊢
  dsimp only at hw ⊢
  split
  · rename_i heq
    rw [heq] at hw
    cases hc : canAdd m acc.l t (some w) (some f) with
    | false => rfl
    | true =>
      have hmem : w ∈ sortWorkers m (m.task t).wRule (m.task t).name (some p)
          (acc.free.filter fun w => hasSkill (m.worker w).skills (m.task t).name &&
            teamTargets m w t && canAdd m acc.l t (some w) (some f)) :=
        Sort.mem_sortWorkers.mpr (List.mem_filter.mpr ⟨hw, by simp [h1, h2, hc]⟩)
      rw [heq] at hmem; cases hmem
  · apply canAdd_fasg_ne
    simp [giveF, giveW]

theorem foldl_pStep_settled (m : Model) (t p f : Nat) :
    ∀ (cs : List Nat) (acc : Alloc), f ∈ cs → PSettled m (cs.foldl (pStep m t p) acc) t f := by
  intro cs
  induction cs with
  | nil => intro acc h; cases h
  | cons c cs ih =>
    intro acc h
    rw [List.foldl_cons]
    by_cases e : f = c
    · subst e
      exact (pStep_settled m t p acc f).step (foldl_pStep_step2 m t p cs _)
    · rcases List.mem_cons.mp h with h | h
      · exact absurd h e
      · exact ih _ h

/-- the loop of `allocPairs` settles every FREE facility of the workplace that has the skill and
whose workplace is assigned to the task -/
theorem allocPairs_settled (m : Model) (t : Nat) (a : Alloc) (c p f : Nat)
    (hc : (m.task t).comp = some c) (hp : a.l.placed c = some p)
    (hf : f ∈ (m.wp p).facs) (hfree : a.l.fstate f = .free)
    (hskill : hasSkill (m.fac f).skills (m.task t).name = true) (htar : wpTargets m f t = true) :
    PSettled m (allocPairs m t a) t f := by
  rw [allocPairs_eq m t a c p hc hp]
  apply foldl_pStep_settled
  refine List.mem_filter.mpr ⟨Sort.mem_sortFacs.mpr (List.mem_filter.mpr ⟨hf, by simp [hfree]⟩), ?_⟩
  simp [hskill, htar]

/-! ### a component is moved only at the turn of one of its own tasks -/

theorem headOf_placed_other (m : Model) (acc : Alloc) (t c : Nat)
    (h : (m.task t).comp ≠ some c) : (headOf m acc t).l.placed c = acc.l.placed c := by
  rcases headOf_cases m acc t with e | ⟨mv, e⟩ <;> rw [e]
  show (placeStep m t acc.l).placed c = acc.l.placed c
  rcases Place.placeStep_cases m t acc.l with ⟨_, e'⟩ | ⟨c', p, hc', _, _, _, e'⟩ <;> rw [e']
  rw [Place.moveComp_placed, upd_other]
  rintro rfl; exact h hc'

theorem allocTask_placed (m : Model) (acc : Alloc) (t : Nat) :
    (allocTask m acc t).l.placed = (headOf m acc t).l.placed :=
  (Place.allocTask_proj m acc t).2.1

theorem allocTask_placed_other (m : Model) (acc : Alloc) (t c : Nat)
    (h : (m.task t).comp ≠ some c) : (allocTask m acc t).l.placed c = acc.l.placed c := by
  rw [allocTask_placed, headOf_placed_other m acc t c h]

theorem foldl_allocTask_placed (m : Model) (c : Nat) :
    ∀ (ts : List Nat) (acc : Alloc), (∀ t ∈ ts, (m.task t).comp ≠ some c) →
      (ts.foldl (allocTask m) acc).l.placed c = acc.l.placed c := by
  intro ts
  induction ts with
  | nil => intro acc _; rfl
  | cons t ts ih =>
    intro acc h
    rw [List.foldl_cons, ih _ (fun t' ht' => h t' (List.mem_cons_of_mem _ ht')),
      allocTask_placed_other m acc t c (h t List.mem_cons_self)]

/-- the turn of a non-automatic facility-needing task whose component sits at `p` after the
placement step settles every eligible FREE facility of `p` -/
theorem allocTask_settled_pair (m : Model) (acc : Alloc) (t c p f : Nat)
    (hna : (m.task t).isAuto = false) (hnf : (m.task t).needFac = true)
    (hc : (m.task t).comp = some c) (hp : (allocTask m acc t).l.placed c = some p)
    (hf : f ∈ (m.wp p).facs) (hfree : acc.l.fstate f = .free)
    (hskill : hasSkill (m.fac f).skills (m.task t).name = true) (htar : wpTargets m f t = true) :
    PSettled m (allocTask m acc t) t f := by
  rw [allocTask_placed] at hp
  rw [NoWait.allocTask_eq]
  simp only [hna, hnf, Bool.false_eq_true, if_false, if_true]
  refine allocPairs_settled m t _ c p f hc hp hf ?_ hskill htar
  rw [(headOf_growF m acc t).fs]; exact hfree

/-! ### `allocate` -/

/-- the core of both clauses.  The sorted candidate list is `pre ++ t :: post`, no task of `post`
belongs to the component `c` of `t`: every eligible worker that is still in the free list right
after `t`'s turn is refused by `t`, together with `f`, in the state after the pass. -/
theorem allocate_pair_pos (m : Model) (lg : Logs) (rule : TaskRule) (l : Live)
    (pre post : List Nat) (w t c p f : Nat)
    (hsorted : sortTasks m l lg rule (cands m l) = pre ++ t :: post)
    (hpost : ∀ t' ∈ post, (m.task t').comp ≠ some c)
    (hw : w ∈ (allocTask m (pre.foldl (allocTask m) { l := l, free := Elig.freeOf m l }) t).free)
    (hna : (m.task t).isAuto = false) (hnf : (m.task t).needFac = true)
    (hc : (m.task t).comp = some c) (hp : (allocate m lg rule l).placed c = some p)
    (hf : f ∈ (m.wp p).facs) (hff : l.fstate f = .free)
    (hskillF : hasSkill (m.fac f).skills (m.task t).name = true) (htar : wpTargets m f t = true)
    (hskill : hasSkill (m.worker w).skills (m.task t).name = true)
    (hteam : teamTargets m w t = true) :
    canAdd m (allocate m lg rule l) t (some w) (some f) = false := by
  rw [allocate_eq, hsorted] at hp ⊢
  rw [List.foldl_append, List.foldl_cons] at hp ⊢
  have h0 := freeOf_nodup m l
  obtain ⟨n1, _, _⟩ := foldl_allocTask m pre { l := l, free := Elig.freeOf m l } h0
  have g1 := foldl_allocTask_growF m pre { l := l, free := Elig.freeOf m l }
  generalize pre.foldl (allocTask m) { l := l, free := Elig.freeOf m l } = a0 at *
  have n2 := allocTask_nodup m a0 t n1
  rw [foldl_allocTask_placed m c post _ hpost] at hp
  have hset := allocTask_settled_pair m a0 t c p f hna hnf hc hp hf
    (by rw [g1.fs]; exact hff) hskillF htar
  have h2 := foldl_allocTask_step2 m post _ n2
  exact pair_false h2.step.grow h2.growF (hset w hw hskill hteam)

theorem mem_split_nodup {t : Nat} {xs : List Nat} (h : t ∈ xs) (hnd : xs.Nodup) :
    ∃ pre post, xs = pre ++ t :: post ∧ t ∉ pre ∧ t ∉ post := by
  obtain ⟨pre, post, e⟩ := List.append_of_mem h
  subst e
  rw [List.nodup_append] at hnd
  obtain ⟨_, h2, h3⟩ := hnd
  exact ⟨pre, post, rfl, fun hm => h3 t hm t List.mem_cons_self rfl, (List.nodup_cons.mp h2).1⟩

/-- `t` is the only task (below `nT`) whose target component is `c` -/
def OnlyTask (m : Model) (c t : Nat) : Prop :=
  ∀ t', t' < m.nT → (m.task t').comp = some c → t' = t

/-- a single-task component in a model whose task → component links are consistent -/
theorem OnlyTask.of_tasks {m : Model} {c t : Nat}
    (hlink : ∀ t', t' < m.nT → (m.task t').comp = some c → t' ∈ (m.comp c).tasks)
    (hsingle : (m.comp c).tasks = [t]) : OnlyTask m c t := by
  intro t' ht' hc'
  have := hlink t' ht' hc'
  rw [hsingle] at this
  simpa using this

theorem OnlyTask.of_wf {m : Model} (wf : Place.PlaceWF m) {c t : Nat}
    (hsingle : (m.comp c).tasks = [t]) : OnlyTask m c t :=
  OnlyTask.of_tasks (fun t' ht' hc' => wf.comp_tasks t' ht' c hc') hsingle

theorem OnlyTask.others {m : Model} {l : Live} {lg : Logs} {rule : TaskRule} {c t : Nat}
    (h : OnlyTask m c t) {pre post : List Nat}
    (hsorted : sortTasks m l lg rule (cands m l) = pre ++ t :: post) (hn : t ∉ post) :
    ∀ t' ∈ post, (m.task t').comp ≠ some c := by
  intro t' ht' hc'
  have hmem : t' ∈ sortTasks m l lg rule (cands m l) := by
    rw [hsorted]; exact List.mem_append_right _ (List.mem_cons_of_mem _ ht')
  have hlt := (mem_cands.mp (Sort.mem_sortTasks.mp hmem)).1
  exact hn (h t' hlt hc' ▸ ht')

/-- **idle-pair clause** at the level of `allocate`: a FREE worker that still holds nothing after
the pass has been refused, together with every eligible FREE facility of the workplace where the
task's (single-task) component ends up, by every candidate facility-needing task it is eligible
for; the refusal still stands in the resulting state. -/
theorem allocate_idle_pair (m : Model) (lg : Logs) (rule : TaskRule) (l : Live) (w t c p f : Nat)
    (hw : w < m.nW) (hfree : l.wstate w = .free) (hidle : (allocate m lg rule l).wasg w = [])
    (ht : t < m.nT) (hs : l.tstate t = .ready ∨ l.tstate t = .working)
    (hna : (m.task t).isAuto = false) (hnf : (m.task t).needFac = true)
    (hc : (m.task t).comp = some c) (honly : OnlyTask m c t)
    (hp : (allocate m lg rule l).placed c = some p)
    (hf : f ∈ (m.wp p).facs) (hff : l.fstate f = .free)
    (hskillF : hasSkill (m.fac f).skills (m.task t).name = true) (htar : wpTargets m f t = true)
    (hskill : hasSkill (m.worker w).skills (m.task t).name = true)
    (hteam : teamTargets m w t = true) :
    canAdd m (allocate m lg rule l) t (some w) (some f) = false := by
  have hmem : t ∈ sortTasks m l lg rule (cands m l) :=
    Sort.mem_sortTasks.mpr (mem_cands.mpr ⟨ht, hs⟩)
  obtain ⟨pre, post, e, _, hn⟩ := mem_split_nodup hmem (sorted_nodup m l lg rule)
  refine allocate_pair_pos m lg rule l pre post w t c p f e (honly.others e hn) ?_ hna hnf hc
    hp hf hff hskillF htar hskill hteam
  rw [allocate_eq, e] at hidle
  obtain ⟨_, hstep, _⟩ :=
    foldl_allocTask m (pre ++ t :: post) { l := l, free := Elig.freeOf m l } (freeOf_nodup m l)
  have hwf := hstep.keep w (Elig.mem_freeOf.mpr ⟨hw, hfree⟩) hidle
  rw [List.foldl_append, List.foldl_cons] at hwf
  have h0 := freeOf_nodup m l
  obtain ⟨n1, _, _⟩ := foldl_allocTask m pre { l := l, free := Elig.freeOf m l } h0
  exact (foldl_allocTask m post _ (allocTask_nodup m _ t n1)).2.1.free_sub w hwf

/-- **no priority inversion, pair form**, at the level of `allocate`: `t1` strictly before `t2`
in the sorted candidate list, worker `w` newly given to `t2` -/
theorem allocate_no_inversion_pair (m : Model) (lg : Logs) (rule : TaskRule) (l : Live)
    (t1 t2 w c p f : Nat)
    (hord : List.Sublist [t1, t2] (sortTasks m l lg rule (cands m l)))
    (hna : (m.task t1).isAuto = false) (hnf : (m.task t1).needFac = true)
    (hc : (m.task t1).comp = some c) (honly : OnlyTask m c t1)
    (hp : (allocate m lg rule l).placed c = some p)
    (hnew : w ∈ (allocate m lg rule l).allocW t2) (hold : w ∉ l.allocW t2)
    (hf : f ∈ (m.wp p).facs) (hff : l.fstate f = .free)
    (hskillF : hasSkill (m.fac f).skills (m.task t1).name = true) (htar : wpTargets m f t1 = true)
    (hskill : hasSkill (m.worker w).skills (m.task t1).name = true)
    (hteam : teamTargets m w t1 = true) :
    canAdd m (allocate m lg rule l) t1 (some w) (some f) = false := by
  obtain ⟨pre, post, e, hb⟩ := sublist_pair_split hord
  have hnd := sorted_nodup m l lg rule
  rw [e, List.nodup_append] at hnd
  obtain ⟨_, hnd2, hdis⟩ := hnd
  have hn1 : t1 ∉ post := (List.nodup_cons.mp hnd2).1
  have h12 : t2 ≠ t1 := by rintro rfl; exact hn1 hb
  have h2 : t2 ∉ pre := fun hm => hdis t2 hm t2 (List.mem_cons_of_mem _ hb) rfl
  refine allocate_pair_pos m lg rule l pre post w t1 c p f e (honly.others e hn1) ?_ hna hnf hc
    hp hf hff hskillF htar hskill hteam
  rw [allocate_eq, e] at hnew
  rw [List.foldl_append, List.foldl_cons] at hnew
  have h0 := freeOf_nodup m l
  obtain ⟨n1, _, _⟩ := foldl_allocTask m pre { l := l, free := Elig.freeOf m l } h0
  have e1 := foldl_allocTask_allocW_other m t2 pre { l := l, free := Elig.freeOf m l } h2
  generalize pre.foldl (allocTask m) { l := l, free := Elig.freeOf m l } = a0 at *
  have e2 := allocTask_allocW_other m a0 t1 t2 h12
  have n2 := allocTask_nodup m a0 t1 n1
  generalize allocTask m a0 t1 = a1 at *
  obtain ⟨_, hstep, _⟩ := foldl_allocTask m post a1 n2
  rcases hstep.src t2 w hnew with h | h
  · rw [e2, e1] at h; exact absurd h hold
  · exact h

/-! ### the facility side of the no-inversion clause (counterfactual form) -/

/-- the live state with facility `f` handed back (its assignment list emptied) -/
def freed (l : Live) (f : Nat) : Live := { l with fasg := upd l.fasg f [] }

theorem freed_canAdd {m : Model} {l : Live} {t w f : Nat} (h : l.fasg f = []) :
    canAdd m (freed l f) t (some w) (some f) = canAdd m l t (some w) (some f) :=
  canAdd_pair_congr rfl rfl (by simp [freed, h]) Iff.rfl

theorem grow_freed {l l' : Live} (h : Grow l l') (f : Nat) : Grow (freed l f) (freed l' f) :=
  ⟨h.ts, h.ws, h.subW, h.subF, h.asg⟩

theorem GrowF.freed {l l' : Live} (h : GrowF l l') (f : Nat) : GrowF (freed l f) (freed l' f) where
  fs := h.fs
  fasg := by
    intro f' hf'
    simp only [Pairs.freed, upd_apply] at hf' ⊢
    split
    · rfl
    · rename_i e; rw [if_neg e] at hf'; exact h.fasg f' hf'

/-- for facility `f`: the task has refused every eligible worker that is still in the free list
for a reason other than "`f` is taken" -/
def CSettled (m : Model) (a : Alloc) (t f : Nat) : Prop :=
  ∀ w ∈ a.free, hasSkill (m.worker w).skills (m.task t).name = true → teamTargets m w t = true →
    canAdd m (freed a.l f) t (some w) (some f) = false

theorem CSettled.step {m : Model} {a a' : Alloc} {t f : Nat} (h : CSettled m a t f)
    (hs : Step2 a a') : CSettled m a' t f :=
  fun w hw h1 h2 => pair_false (grow_freed hs.step.grow f) (hs.growF.freed f)
    (h w (hs.step.free_sub w hw) h1 h2)

theorem PSettled.csettled {m : Model} {a : Alloc} {t f : Nat} (h : PSettled m a t f)
    (hf : a.l.fasg f = []) : CSettled m a t f :=
  fun w hw h1 h2 => by rw [freed_canAdd hf]; exact h w hw h1 h2

/-- a facility a task gains during the pass was unassigned before -/
structure StepF (l l' : Live) : Prop where
  growF : GrowF l l'
  srcF : ∀ t f, f ∈ l'.allocF t → f ∈ l.allocF t ∨ l.fasg f = []

theorem StepF.refl (l : Live) : StepF l l := ⟨GrowF.refl l, fun _ _ h => Or.inl h⟩

theorem StepF.trans {a b c : Live} (h1 : StepF a b) (h2 : StepF b c) : StepF a c where
  growF := h1.growF.trans h2.growF
  srcF := by
    intro t f h
    rcases h2.srcF t f h with h | h
    · exact h1.srcF t f h
    · exact Or.inr (h1.growF.fasg f h)

theorem StepF.of_eq {l l' : Live} (hg : GrowF l l') (h : l'.allocF = l.allocF) : StepF l l' :=
  ⟨hg, fun _ _ hm => Or.inl (by rw [← h]; exact hm)⟩

theorem wStep_stepF (m : Model) (t : Nat) (acc : Alloc) (w : Nat) :
    StepF acc.l (wStep m t acc w).l := by
  refine StepF.of_eq (wStep_growF m t acc w) ?_
  unfold wStep; split <;> rfl

theorem pStep_stepF (m : Model) (t p : Nat) (acc : Alloc) (f : Nat) :
    StepF acc.l (pStep m t p acc f).l := by
  refine ⟨pStep_growF m t p acc f, ?_⟩
  unfold pStep; dsimp only; split
  · exact fun _ _ h => Or.inl h
  · rename_i w rest heq
    have hw : w ∈ sortWorkers m (m.task t).wRule (m.task t).name (some p)
        (acc.free.filter fun w => hasSkill (m.worker w).skills (m.task t).name &&
          teamTargets m w t && canAdd m acc.l t (some w) (some f)) := by
      rw [heq]; exact List.mem_cons_self
    have hcan : canAdd m acc.l t (some w) (some f) = true := by
      have := (List.mem_filter.mp (Sort.mem_sortWorkers.mp hw)).2
      simp only [Bool.and_eq_true] at this
      exact this.2
    intro t' f' h
    rcases Elig.mem_upd_append h with h | ⟨_, h⟩
    · exact Or.inl h
    · exact Or.inr (h ▸ Alloc.canAdd_fac hcan)

theorem allocTask_stepF (m : Model) (acc : Alloc) (t : Nat) : StepF acc.l (allocTask m acc t).l := by
  have h1 : StepF acc.l (headOf m acc t).l := by
    refine StepF.of_eq (headOf_growF m acc t) ?_
    rcases headOf_cases m acc t with h | ⟨mv, h⟩ <;> rw [h]
    exact (Alloc.placeStep_frame m t acc.l).2.1
  rw [NoWait.allocTask_eq]
  split
  · exact h1
  · split
    · refine h1.trans ?_
      unfold allocPairs
      split
      · exact StepF.refl _
      · split
        · exact StepF.refl _
        · rename_i p _
          exact Lifecycle.foldl_rel (pStep m t p) (fun a b : Alloc => StepF a.l b.l)
            (fun _ => StepF.refl _) (fun _ _ _ => StepF.trans) (pStep_stepF m t p) _ _
    · refine h1.trans ?_
      rw [allocWorkers_eq]
      exact Lifecycle.foldl_rel (wStep m t) (fun a b : Alloc => StepF a.l b.l)
        (fun _ => StepF.refl _) (fun _ _ _ => StepF.trans) (wStep_stepF m t) _
        { l := (headOf m acc t).l, moved := (headOf m acc t).moved,
          free := sortWorkers m (m.task t).wRule (m.task t).name Option.none
            (headOf m acc t).free }

theorem foldl_allocTask_stepF (m : Model) (ts : List Nat) (acc : Alloc) :
    StepF acc.l (ts.foldl (allocTask m) acc).l :=
  Lifecycle.foldl_rel (allocTask m) (fun a b : Alloc => StepF a.l b.l) (fun _ => StepF.refl _)
    (fun _ _ _ => StepF.trans) (allocTask_stepF m) ts acc

/-! #### a task's facility list changes only at its own turn -/

theorem wStep_allocF_other (m : Model) (t t' : Nat) (acc : Alloc) (w : Nat) :
    (wStep m t acc w).l.allocF t' = acc.l.allocF t' := by
  unfold wStep; split <;> rfl

theorem pStep_allocF_other (m : Model) (t p t' : Nat) (h : t' ≠ t) (acc : Alloc) (f : Nat) :
    (pStep m t p acc f).l.allocF t' = acc.l.allocF t' := by
  unfold pStep; dsimp only; split
  · rfl
  · simp [giveF, giveW, h]

theorem allocTask_allocF_other (m : Model) (acc : Alloc) (t t' : Nat) (h : t' ≠ t) :
    (allocTask m acc t).l.allocF t' = acc.l.allocF t' := by
  have h1 : (headOf m acc t).l.allocF t' = acc.l.allocF t' := by
    rcases headOf_cases m acc t with h | ⟨mv, h⟩ <;> rw [h]
    exact congrFun (Alloc.placeStep_frame m t acc.l).2.1 t'
  rw [NoWait.allocTask_eq]
  split
  · exact h1
  · split
    · rw [← h1]
      unfold allocPairs
      split
      · rfl
      · split
        · rfl
        · rename_i p _
          exact Lifecycle.foldl_proj (pStep m t p) (fun a : Alloc => a.l.allocF t')
            (pStep_allocF_other m t p t' h) _ _
    · rw [← h1, allocWorkers_eq]
      exact Lifecycle.foldl_proj (wStep m t) (fun a : Alloc => a.l.allocF t')
        (wStep_allocF_other m t t') _ _

theorem foldl_allocTask_allocF_other (m : Model) (t' : Nat) :
    ∀ (ts : List Nat) (acc : Alloc), t' ∉ ts →
      (ts.foldl (allocTask m) acc).l.allocF t' = acc.l.allocF t' := by
  intro ts
  induction ts with
  | nil => intro acc _; rfl
  | cons t ts ih =>
    intro acc h
    rw [List.foldl_cons, ih _ (fun hm => h (List.mem_cons_of_mem _ hm)),
      allocTask_allocF_other m acc t t' (fun e => h (e ▸ List.mem_cons_self))]

/-- **no priority inversion, facility side**, at the level of `allocate`: `t1` strictly before
`t2` in the sorted candidate list, facility `f` of the workplace of `t1`'s component newly given
to `t2`, worker `w` FREE and still holding nothing after the pass: `t1` refused the pair `(w, f)`
for a reason other than "`f` is taken" — even with `f` handed back it could not accept it. -/
theorem allocate_no_inversion_fac (m : Model) (lg : Logs) (rule : TaskRule) (l : Live)
    (t1 t2 w c p f : Nat)
    (hord : List.Sublist [t1, t2] (sortTasks m l lg rule (cands m l)))
    (hna : (m.task t1).isAuto = false) (hnf : (m.task t1).needFac = true)
    (hc : (m.task t1).comp = some c) (honly : OnlyTask m c t1)
    (hp : (allocate m lg rule l).placed c = some p)
    (hnew : f ∈ (allocate m lg rule l).allocF t2) (hold : f ∉ l.allocF t2)
    (hf : f ∈ (m.wp p).facs) (hff : l.fstate f = .free)
    (hw : w < m.nW) (hfree : l.wstate w = .free) (hidle : (allocate m lg rule l).wasg w = [])
    (hskillF : hasSkill (m.fac f).skills (m.task t1).name = true) (htar : wpTargets m f t1 = true)
    (hskill : hasSkill (m.worker w).skills (m.task t1).name = true)
    (hteam : teamTargets m w t1 = true) :
    canAdd m (freed (allocate m lg rule l) f) t1 (some w) (some f) = false := by
  obtain ⟨pre, post, e, hb⟩ := sublist_pair_split hord
  have hnd := sorted_nodup m l lg rule
  rw [e, List.nodup_append] at hnd
  obtain ⟨_, hnd2, hdis⟩ := hnd
  have hn1 : t1 ∉ post := (List.nodup_cons.mp hnd2).1
  have h12 : t2 ≠ t1 := by rintro rfl; exact hn1 hb
  have h2 : t2 ∉ pre := fun hm => hdis t2 hm t2 (List.mem_cons_of_mem _ hb) rfl
  have hpost := honly.others e hn1
  rw [allocate_eq, e] at hp hnew hidle ⊢
  rw [List.foldl_append, List.foldl_cons] at hp hnew hidle ⊢
  have h0 := freeOf_nodup m l
  obtain ⟨n1, s1, _⟩ := foldl_allocTask m pre { l := l, free := Elig.freeOf m l } h0
  have g1 := foldl_allocTask_growF m pre { l := l, free := Elig.freeOf m l }
  have e1 := foldl_allocTask_allocF_other m t2 pre { l := l, free := Elig.freeOf m l } h2
  have hw0 : w ∈ Elig.freeOf m l := Elig.mem_freeOf.mpr ⟨hw, hfree⟩
  generalize pre.foldl (allocTask m) { l := l, free := Elig.freeOf m l } = a0 at *
  have e2 := allocTask_allocF_other m a0 t1 t2 h12
  have n2 := allocTask_nodup m a0 t1 n1
  have s2 := allocTask_step m a0 t1 n1
  rw [foldl_allocTask_placed m c post _ hpost] at hp
  have hset := allocTask_settled_pair m a0 t1 c p f hna hnf hc hp hf
    (by rw [g1.fs]; exact hff) hskillF htar
  generalize allocTask m a0 t1 = a1 at *
  have s3 := foldl_allocTask_step2 m post a1 n2
  have hfa : a1.l.fasg f = [] := by
    rcases (foldl_allocTask_stepF m post a1).srcF t2 f hnew with h | h
    · rw [e2, e1] at h; exact absurd h hold
    · exact h
  exact ((hset.csettled hfa).step s3) w
    ((s1.trans (s2.trans s3.step)).keep w hw0 hidle) hskill hteam

/-! ### the end of a working step -/

/-- `check_state(WORKING)` keeps a READY/WORKING task READY/WORKING and all allocation and
assignment lists, so it does not change the answer of `can_add_resources(worker, facility)` -/
theorem chkWorking_canAdd_pair (m : Model) (l : Live) (t w f : Nat)
    (hs : l.tstate t = .ready ∨ l.tstate t = .working) :
    canAdd m (chkWorking m l) t (some w) (some f) = canAdd m l t (some w) (some f) := by
  have hfr := Alloc.chkWorking_frame m l
  apply canAdd_pair_congr
  · rw [hfr.1]
  · rw [hfr.2.1]
  · rw [hfr.2.2.2]
  · rcases Alloc.chkWorking_tstate_cases m l t with e | ⟨_, e⟩
    · rw [e]
    · rcases hs with e' | e' <;> simp [e, e']

/-- the live state at the end of a working step, as seen by `canAdd`, the placement map and the
allocation lists: `check_state(WORKING)` of the allocation pass on the absence-updated state -/
theorem stepBody_work (m : Model) (p : Params) (s : St)
    (hwork : p.absence.contains s.time = false) :
    ∃ l3 : Live, (stepBody m p s).live.tstate = l3.tstate ∧ (stepBody m p s).live.allocW = l3.allocW ∧
      (stepBody m p s).live.allocF = l3.allocF ∧ (stepBody m p s).live.wasg = l3.wasg ∧
      (stepBody m p s).live.fasg = l3.fasg ∧ (stepBody m p s).live.wstate = l3.wstate ∧
      (stepBody m p s).live.fstate = l3.fstate ∧ (stepBody m p s).live.placed = l3.placed ∧
      l3 = chkWorking m (allocate m s.logs p.rule (absenceSet m s.time true s.live)) := by
  refine ⟨_, ?_, ?_, ?_, ?_, ?_, ?_, ?_, ?_, rfl⟩ <;>
    (rw [Alloc.stepBody_live]; simp only [hwork, Bool.not_false, Bool.true_or, if_true]) <;> rfl

/-- a facility that is FREE at the end of a working step was FREE (not absent, unassigned) when
the allocation pass started, and is still unassigned -/
theorem stepBody_fac_free (m : Model) (p : Params) (s : St)
    (hwork : p.absence.contains s.time = false)
    (hinv : AllocInv m s.live) (hhw : HoldWorking s.live) (f : Nat) (hf : f < m.nF)
    (hff : (stepBody m p s).live.fstate f = .free) :
    (absenceSet m s.time true s.live).fstate f = .free ∧ (stepBody m p s).live.fasg f = [] := by
  have hres := (stepBody_C03 p hinv hhw).2.2
  have hwa : workingAt p s.time = true := by unfold workingAt; rw [hwork]; rfl
  rw [hwa] at hres
  have h1 := hres.2 f hf
  rw [hff] at h1
  obtain ⟨habs, hasg⟩ := Alloc.resState_eq_free (by simpa using h1.symm)
  refine ⟨?_, hasg⟩
  obtain ⟨l3, _, _, _, _, e5, _, _, _, rfl⟩ := stepBody_work m p s hwork
  rw [e5, (Alloc.chkWorking_frame m _).2.2.2] at hasg
  have h0 : s.live.fasg f = [] :=
    (allocate_growF m s.logs p.rule (absenceSet m s.time true s.live)).fasg f hasg
  have habs' : s.time ∉ (m.fac f).absence := by simpa using habs
  simp [absenceSet, hf, resState, habs', h0]

/-- a worker that is FREE at the end of a working step was FREE when the allocation pass started
and holds nothing after the pass -/
theorem stepBody_worker_free (m : Model) (p : Params) (s : St)
    (hwork : p.absence.contains s.time = false)
    (hinv : AllocInv m s.live) (hhw : HoldWorking s.live) (w : Nat) (hw : w < m.nW)
    (hfree : (stepBody m p s).live.wstate w = .free) :
    (absenceSet m s.time true s.live).wstate w = .free ∧
    (allocate m s.logs p.rule (absenceSet m s.time true s.live)).wasg w = [] := by
  have hres := (stepBody_C03 p hinv hhw).2.2
  have hwa : workingAt p s.time = true := by unfold workingAt; rw [hwork]; rfl
  rw [hwa] at hres
  have h1 := hres.1 w hw
  rw [hfree] at h1
  obtain ⟨habs, hasg⟩ := Alloc.resState_eq_free (by simpa using h1.symm)
  obtain ⟨l3, _, _, _, e4, _, _, _, _, rfl⟩ := stepBody_work m p s hwork
  rw [e4, (Alloc.chkWorking_frame m _).2.2.1] at hasg
  refine ⟨?_, hasg⟩
  have h0 : s.live.wasg w = [] :=
    (allocate_grow m s.logs p.rule (absenceSet m s.time true s.live)).asg w hasg
  have habs' : s.time ∉ (m.worker w).absence := by simpa using habs
  simp [absenceSet, hw, resState, habs', h0]

/-- the idle-pair clause read at the end of a working step -/
theorem stepBody_idle_pair (m : Model) (p : Params) (s : St)
    (hwork : p.absence.contains s.time = false)
    (hinv : AllocInv m s.live) (hhw : HoldWorking s.live) (w t c q f : Nat)
    (hw : w < m.nW) (hfree : (stepBody m p s).live.wstate w = .free)
    (hfl : f < m.nF) (hff : (stepBody m p s).live.fstate f = .free)
    (ht : t < m.nT)
    (hs : (stepBody m p s).live.tstate t = .ready ∨ (stepBody m p s).live.tstate t = .working)
    (hna : (m.task t).isAuto = false) (hnf : (m.task t).needFac = true)
    (hc : (m.task t).comp = some c) (honly : OnlyTask m c t)
    (hp : (stepBody m p s).live.placed c = some q) (hf : f ∈ (m.wp q).facs)
    (hskillF : hasSkill (m.fac f).skills (m.task t).name = true) (htar : wpTargets m f t = true)
    (hskill : hasSkill (m.worker w).skills (m.task t).name = true)
    (hteam : teamTargets m w t = true) :
    canAdd m (stepBody m p s).live t (some w) (some f) = false := by
  obtain ⟨hw1, hidle⟩ := stepBody_worker_free m p s hwork hinv hhw w hw hfree
  obtain ⟨hf1, _⟩ := stepBody_fac_free m p s hwork hinv hhw f hfl hff
  obtain ⟨l3, e1, e2, e3, _, e5, _, _, e8, hl3⟩ := stepBody_work m p s hwork
  generalize absenceSet m s.time true s.live = l1 at *
  have hg := allocate_grow m s.logs p.rule l1
  have hs2 : (allocate m s.logs p.rule l1).tstate t = .ready ∨
      (allocate m s.logs p.rule l1).tstate t = .working := by
    rw [e1, hl3] at hs
    rcases Alloc.chkWorking_tstate_cases m (allocate m s.logs p.rule l1) t with e | ⟨e, _⟩
    · rw [e] at hs; exact hs
    · exact Or.inl e
  have hs1 : l1.tstate t = .ready ∨ l1.tstate t = .working := by rw [← hg.ts]; exact hs2
  have hp2 : (allocate m s.logs p.rule l1).placed c = some q := by
    rw [e8, hl3, Place.core_placed (Place.chkWorking_core m _)] at hp; exact hp
  have hcan := allocate_idle_pair m s.logs p.rule l1 w t c q f hw hw1 hidle ht hs1 hna hnf hc honly
    hp2 hf hf1 hskillF htar hskill hteam
  rw [← hcan, ← chkWorking_canAdd_pair m _ t w f hs2, ← hl3]
  exact canAdd_pair_congr (by rw [e2]) (by rw [e3]) (by rw [e5]) (by rw [e1])

/-- the pair form of the no-inversion clause read at the end of a working step -/
theorem stepBody_no_inversion_pair (m : Model) (p : Params) (s : St)
    (hwork : p.absence.contains s.time = false)
    (hinv : AllocInv m s.live) (hhw : HoldWorking s.live) (t1 t2 w c q f : Nat)
    (hord : List.Sublist [t1, t2] (sortTasks m s.live s.logs p.rule (cands m s.live)))
    (hna : (m.task t1).isAuto = false) (hnf : (m.task t1).needFac = true)
    (hc : (m.task t1).comp = some c) (honly : OnlyTask m c t1)
    (hp : (stepBody m p s).live.placed c = some q)
    (hnew : w ∈ (stepBody m p s).live.allocW t2) (hold : w ∉ s.live.allocW t2)
    (hfl : f < m.nF) (hff : (stepBody m p s).live.fstate f = .free) (hf : f ∈ (m.wp q).facs)
    (hskillF : hasSkill (m.fac f).skills (m.task t1).name = true) (htar : wpTargets m f t1 = true)
    (hskill : hasSkill (m.worker w).skills (m.task t1).name = true)
    (hteam : teamTargets m w t1 = true) :
    canAdd m (stepBody m p s).live t1 (some w) (some f) = false := by
  obtain ⟨hf1, _⟩ := stepBody_fac_free m p s hwork hinv hhw f hfl hff
  obtain ⟨l3, e1, e2, e3, _, e5, _, _, e8, hl3⟩ := stepBody_work m p s hwork
  have hord1 : List.Sublist [t1, t2] (sortTasks m (absenceSet m s.time true s.live) s.logs p.rule
      (cands m (absenceSet m s.time true s.live))) := hord
  have hold1 : w ∉ (absenceSet m s.time true s.live).allocW t2 := hold
  generalize absenceSet m s.time true s.live = l1 at *
  have hfr := Alloc.chkWorking_frame m (allocate m s.logs p.rule l1)
  have hnew2 : w ∈ (allocate m s.logs p.rule l1).allocW t2 := by
    rw [e2, hl3, hfr.1] at hnew; exact hnew
  have hp2 : (allocate m s.logs p.rule l1).placed c = some q := by
    rw [e8, hl3, Place.core_placed (Place.chkWorking_core m _)] at hp; exact hp
  have hcan := allocate_no_inversion_pair m s.logs p.rule l1 t1 t2 w c q f hord1 hna hnf hc honly hp2
    hnew2 hold1 hf hf1 hskillF htar hskill hteam
  have ht1 : l1.tstate t1 = .ready ∨ l1.tstate t1 = .working :=
    (mem_cands.mp (Sort.mem_sortTasks.mp (hord1.subset List.mem_cons_self))).2
  rw [← (allocate_grow m s.logs p.rule l1).ts] at ht1
  rw [← hcan, ← chkWorking_canAdd_pair m _ t1 w f ht1, ← hl3]
  exact canAdd_pair_congr (by rw [e2]) (by rw [e3]) (by rw [e5]) (by rw [e1])

end Pairs
end PDesy
