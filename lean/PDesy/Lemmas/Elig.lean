/-
  PDesy.Lemmas.Elig — helper lemmas for C04 ("only eligible resources are ever allocated to a
  task") and for the safety half of C05 ("the reported status is truthful").

  * `WorkerElig`, `FacElig`, `PairElig`: what "eligible" means (static facts of the model).
  * `EligAt m t ws fs`: the clauses for one task holding workers `ws` and facilities `fs`;
    `EligInv m l`: `EligAt` for every task `t < m.nT` of the live state `l`.
  * `Rel m l0 free0 a`: what the allocation loop maintains about its accumulator `a` relative to
    the live state `l0` and free-worker list `free0` it started from.
  * `Idle l t`: task `t` is NONE or READY and holds no worker (C05, unservable task).
-/
import PDesy.Lemmas.Lifecycle
import PDesy.Lemmas.Sort

namespace PDesy
namespace Elig
open Lifecycle

/-! ### eligibility -/

/-- worker `w` may work on task `t`: positive skill for the task, the worker's team is assigned
to the task, and the task's fixed worker list (if any) contains the worker -/
def WorkerElig (m : Model) (t w : Nat) : Prop :=
  hasSkill (m.worker w).skills (m.task t).name = true ∧ teamTargets m w t = true ∧
  (∀ ids, (m.task t).fixW = some ids → w ∈ ids)

/-- facility `f` may be used for task `t`: positive skill, its workplace is assigned to the
task, and the task's fixed facility list (if any) contains it -/
def FacElig (m : Model) (t f : Nat) : Prop :=
  hasSkill (m.fac f).skills (m.task t).name = true ∧ wpTargets m f t = true ∧
  (∀ ids, (m.task t).fixF = some ids → f ∈ ids)

/-- the pair (worker, facility) may work on `t`: both are eligible and the worker can operate
the facility -/
def PairElig (m : Model) (t w f : Nat) : Prop :=
  WorkerElig m t w ∧ FacElig m t f ∧ hasSkill (m.worker w).facSkills (m.fac f).name = true

/-- the clauses of C04 for one task `t` that holds the workers `ws` and the facilities `fs` -/
structure EligAt (m : Model) (t : Nat) (ws fs : List Nat) : Prop where
  /-- (a) every held worker is eligible -/
  worker : ∀ w ∈ ws, WorkerElig m t w
  /-- (b) a solo worker is alone -/
  soloW : (∃ w ∈ ws, (m.worker w).solo = true) → ws.length = 1
  /-- (b) a solo facility is alone -/
  soloF : (∃ f ∈ fs, (m.fac f).solo = true) → fs.length = 1
  /-- (c) a task that needs a facility holds workers and facilities in eligible pairs -/
  pairs : (m.task t).needFac = true →
    ws.length = fs.length ∧ ∀ wf ∈ ws.zip fs, PairElig m t wf.1 wf.2
  /-- (d) a task that needs no facility holds none -/
  noFac : (m.task t).needFac = false → fs = []
  /-- (e) an automatic task holds nothing -/
  auto : (m.task t).isAuto = true → ws = [] ∧ fs = []

/-- the invariant of C04 on the allocations held in a live state -/
def EligInv (m : Model) (l : Live) : Prop :=
  ∀ t, t < m.nT → EligAt m t (l.allocW t) (l.allocF t)

/-! ### decidability (for the `example`s) -/

def workerEligB (m : Model) (t w : Nat) : Bool :=
  hasSkill (m.worker w).skills (m.task t).name && teamTargets m w t &&
  (match (m.task t).fixW with | some ids => ids.contains w | Option.none => true)

def facEligB (m : Model) (t f : Nat) : Bool :=
  hasSkill (m.fac f).skills (m.task t).name && wpTargets m f t &&
  (match (m.task t).fixF with | some ids => ids.contains f | Option.none => true)

theorem workerEligB_iff (m : Model) (t w : Nat) : workerEligB m t w = true ↔ WorkerElig m t w := by
  unfold workerEligB WorkerElig
  cases h : (m.task t).fixW <;> simp [and_assoc]

theorem facEligB_iff (m : Model) (t f : Nat) : facEligB m t f = true ↔ FacElig m t f := by
  unfold facEligB FacElig
  cases h : (m.task t).fixF <;> simp [and_assoc]

instance (m : Model) (t w : Nat) : Decidable (WorkerElig m t w) :=
  decidable_of_iff _ (workerEligB_iff m t w)

instance (m : Model) (t f : Nat) : Decidable (FacElig m t f) :=
  decidable_of_iff _ (facEligB_iff m t f)

instance (m : Model) (t w f : Nat) : Decidable (PairElig m t w f) := by
  unfold PairElig; infer_instance

theorem eligAt_iff (m : Model) (t : Nat) (ws fs : List Nat) :
    EligAt m t ws fs ↔
      (∀ w ∈ ws, WorkerElig m t w) ∧
      ((∃ w ∈ ws, (m.worker w).solo = true) → ws.length = 1) ∧
      ((∃ f ∈ fs, (m.fac f).solo = true) → fs.length = 1) ∧
      ((m.task t).needFac = true →
        ws.length = fs.length ∧ ∀ wf ∈ ws.zip fs, PairElig m t wf.1 wf.2) ∧
      ((m.task t).needFac = false → fs = []) ∧
      ((m.task t).isAuto = true → ws = [] ∧ fs = []) :=
  ⟨fun h => ⟨h.worker, h.soloW, h.soloF, h.pairs, h.noFac, h.auto⟩,
   fun ⟨a, b, c, d, e, f⟩ => ⟨a, b, c, d, e, f⟩⟩

instance (m : Model) (t : Nat) (ws fs : List Nat) : Decidable (EligAt m t ws fs) :=
  decidable_of_iff _ (eligAt_iff m t ws fs).symm

instance (m : Model) (l : Live) : Decidable (EligInv m l) := by
  unfold EligInv; infer_instance

/-! ### basic facts about `EligAt` / `EligInv` -/

theorem EligAt.nil (m : Model) (t : Nat) : EligAt m t [] [] where
  worker := by intro w hw; cases hw
  soloW := by rintro ⟨w, hw, _⟩; cases hw
  soloF := by rintro ⟨f, hf, _⟩; cases hf
  pairs := by intro _; exact ⟨rfl, by intro wf h; cases h⟩
  noFac := fun _ => rfl
  auto := fun _ => ⟨rfl, rfl⟩

/-- the invariant only reads the two allocation maps -/
theorem EligInv.of_eq {m : Model} {l l' : Live} (h : EligInv m l)
    (hW : l'.allocW = l.allocW) (hF : l'.allocF = l.allocF) : EligInv m l' := by
  intro t ht; rw [hW, hF]; exact h t ht

/-- replacing the lists of one task -/
theorem EligInv.upd {m : Model} {l l' : Live} (h : EligInv m l) (t : Nat) (ws fs : List Nat)
    (hW : l'.allocW = upd l.allocW t ws) (hF : l'.allocF = upd l.allocF t fs)
    (hat : t < m.nT → EligAt m t ws fs) : EligInv m l' := by
  intro t' ht'
  rw [hW, hF]
  by_cases he : t' = t
  · subst he; simpa using hat ht'
  · simpa [he] using h t' ht'

/-- one more worker for a task without facility -/
theorem EligAt.addW {m : Model} {t : Nat} {ws fs : List Nat} (h : EligAt m t ws fs) (w : Nat)
    (hnf : (m.task t).needFac = false) (hna : (m.task t).isAuto = false)
    (hel : WorkerElig m t w)
    (hs1 : ∀ w' ∈ ws, (m.worker w').solo = false)
    (hs2 : (m.worker w).solo = true → ws = []) : EligAt m t (ws ++ [w]) fs where
  worker := by
    intro w' hw'
    rcases List.mem_append.mp hw' with h' | h'
    · exact h.worker w' h'
    · rw [List.mem_singleton.mp h']; exact hel
  soloW := by
    rintro ⟨w', hw', hsolo⟩
    rcases List.mem_append.mp hw' with h' | h'
    · rw [hs1 w' h'] at hsolo; cases hsolo
    · rw [List.mem_singleton.mp h'] at hsolo
      rw [hs2 hsolo]; rfl
  soloF := h.soloF
  pairs := by intro hn; rw [hnf] at hn; cases hn
  noFac := h.noFac
  auto := by intro ha; rw [hna] at ha; cases ha

/-- one more (worker, facility) pair for a task that needs a facility -/
theorem EligAt.addWF {m : Model} {t : Nat} {ws fs : List Nat} (h : EligAt m t ws fs) (w f : Nat)
    (hnf : (m.task t).needFac = true) (hna : (m.task t).isAuto = false)
    (hel : PairElig m t w f)
    (hs1 : ∀ w' ∈ ws, (m.worker w').solo = false)
    (hs2 : (m.worker w).solo = true → ws = [])
    (hs3 : ∀ f' ∈ fs, (m.fac f').solo = false)
    (hs4 : (m.fac f).solo = true → fs = []) : EligAt m t (ws ++ [w]) (fs ++ [f]) where
  worker := by
    intro w' hw'
    rcases List.mem_append.mp hw' with h' | h'
    · exact h.worker w' h'
    · rw [List.mem_singleton.mp h']; exact hel.1
  soloW := by
    rintro ⟨w', hw', hsolo⟩
    rcases List.mem_append.mp hw' with h' | h'
    · rw [hs1 w' h'] at hsolo; cases hsolo
    · rw [List.mem_singleton.mp h'] at hsolo
      rw [hs2 hsolo]; rfl
  soloF := by
    rintro ⟨f', hf', hsolo⟩
    rcases List.mem_append.mp hf' with h' | h'
    · rw [hs3 f' h'] at hsolo; cases hsolo
    · rw [List.mem_singleton.mp h'] at hsolo
      rw [hs4 hsolo]; rfl
  pairs := by
    intro _
    obtain ⟨hlen, hp⟩ := h.pairs hnf
    refine ⟨by simp [hlen], ?_⟩
    intro wf hwf
    rw [List.zip_append hlen] at hwf
    rcases List.mem_append.mp hwf with h' | h'
    · exact hp wf h'
    · have : wf = (w, f) := by simpa using h'
      rw [this]; exact hel
  noFac := by intro hn; rw [hnf] at hn; cases hn
  auto := by intro ha; rw [hna] at ha; cases ha

/-! ### what `canAdd … = true` says -/

theorem canAdd_W {m : Model} {l : Live} {t w : Nat}
    (h : canAdd m l t (some w) Option.none = true) :
    (l.tstate t ≠ .none ∧ l.tstate t ≠ .finished) ∧
    (∀ w' ∈ l.allocW t, (m.worker w').solo = false) ∧
    (∀ f' ∈ l.allocF t, (m.fac f').solo = false) ∧
    ((m.worker w).solo = true → l.allocW t = []) ∧
    (∀ ids, (m.task t).fixW = some ids → w ∈ ids) ∧
    hasSkill (m.worker w).skills (m.task t).name = true := by
  unfold canAdd at h
  simp at h
  obtain ⟨h1, h2, h3, h4, h5, h6⟩ := h
  refine ⟨h1, h2, h3, ?_, ?_, h6⟩
  · intro hs; rcases h4 with h4 | h4
    · rw [hs] at h4; cases h4
    · exact h4
  · intro ids hids; rw [hids] at h5; simpa using h5

theorem canAdd_WF {m : Model} {l : Live} {t w f : Nat}
    (h : canAdd m l t (some w) (some f) = true) :
    (l.tstate t ≠ .none ∧ l.tstate t ≠ .finished) ∧
    (∀ w' ∈ l.allocW t, (m.worker w').solo = false) ∧
    (∀ f' ∈ l.allocF t, (m.fac f').solo = false) ∧
    ((m.worker w).solo = true → l.allocW t = []) ∧
    ((m.fac f).solo = true → l.allocF t = []) ∧
    (∀ ids, (m.task t).fixW = some ids → w ∈ ids) ∧
    (∀ ids, (m.task t).fixF = some ids → f ∈ ids) ∧
    l.fasg f = [] ∧
    hasSkill (m.fac f).skills (m.task t).name = true ∧
    hasSkill (m.worker w).facSkills (m.fac f).name = true ∧
    hasSkill (m.worker w).skills (m.task t).name = true := by
  unfold canAdd at h
  simp at h
  obtain ⟨h1, h2, h3, h4, h5, h6, h7, h8, ⟨h9, h10⟩, h11⟩ := h
  refine ⟨h1, h2, h3, ?_, ?_, ?_, ?_, h8, h9, h10, h11⟩
  · intro hs; rcases h4 with h4 | h4
    · rw [hs] at h4; cases h4
    · exact h4
  · intro hs; rcases h5 with h5 | h5
    · rw [hs] at h5; cases h5
    · exact h5
  · intro ids hids; rw [hids] at h6; simpa using h6
  · intro ids hids; rw [hids] at h7; simpa using h7

/-! ### frame facts: which phases touch `allocW` / `allocF` -/

/-- the two allocation maps -/
def af (l : Live) : (Nat → List Nat) × (Nat → List Nat) := (l.allocW, l.allocF)

theorem af_allocW {l l' : Live} (h : af l' = af l) : l'.allocW = l.allocW := congrArg Prod.fst h
theorem af_allocF {l l' : Live} (h : af l' = af l) : l'.allocF = l.allocF := congrArg Prod.snd h

theorem EligInv.of_af {m : Model} {l l' : Live} (h : EligInv m l) (e : af l' = af l) :
    EligInv m l' := h.of_eq (af_allocW e) (af_allocF e)

section frame
variable (m : Model)

@[simp] theorem compCheck_af (l : Live) : af (compCheck m l) = af l := rfl
@[simp] theorem chkReady_af (l : Live) : af (chkReady m l) = af l := rfl
@[simp] theorem pert_af (time : Nat) (l : Live) : af (pert m time l) = af l := rfl
@[simp] theorem absenceSet_af (time : Nat) (w : Bool) (l : Live) :
    af (absenceSet m time w l) = af l := rfl
@[simp] theorem perform_af (w a : Bool) (l : Live) : af (perform m w a l) = af l := rfl

theorem removeOne_af (l : Live) (c : Nat) : af (removeOne l c) = af l := by
  unfold removeOne; split <;> rfl

@[simp] theorem chkRemove_af (l : Live) : af (chkRemove m l) = af l := by
  show af (((List.range m.nC).filter (removeCand m l)).foldl removeOne l) = af l
  exact foldl_proj _ af removeOne_af _ _

theorem startOne_af (l : Live) (t : Nat) : af (startOne m l t) = af l := by
  unfold startOne
  dsimp only
  split
  · split
    · refine foldl_proj_eq _ af ?_ _ _ _ ?_
      · intro _ _; rfl
      · refine foldl_proj_eq _ af ?_ _ _ _ rfl
        intro _ _; rfl
    · refine foldl_proj_eq _ af ?_ _ _ _ rfl
      intro _ _; rfl
  · split
    · refine foldl_proj_eq _ af ?_ _ _ _ rfl
      intro a w
      split
      · refine foldl_proj_eq _ af ?_ _ _ _ ?_
        · intro b f; split <;> rfl
        · split <;> rfl
      · split <;> rfl
    · rfl

@[simp] theorem chkWorking_af (l : Live) : af (chkWorking m l) = af l := by
  show af (((List.range m.nT).filter (workingTarget m l)).foldl (startOne m) l) = af l
  exact foldl_proj _ af (startOne_af m) _ _

@[simp] theorem chkWorkingIf_af (b : Bool) (l : Live) : af (chkWorkingIf b m l) = af l := by
  cases b
  · rfl
  · exact chkWorking_af m l

end frame

/-! ### check_state(FINISHED) only clears lists -/

section finished
variable (m : Model)

theorem releaseW_af (t : Nat) (l : Live) (w : Nat) : af (releaseW t l w) = af l := by
  unfold releaseW; split <;> rfl

theorem releaseF_af (t : Nat) (l : Live) (f : Nat) : af (releaseF t l f) = af l := by
  unfold releaseF; split <;> rfl

theorem releaseW_allocW (t : Nat) (l : Live) (w : Nat) : (releaseW t l w).allocW = l.allocW :=
  af_allocW (releaseW_af t l w)
theorem releaseW_allocF (t : Nat) (l : Live) (w : Nat) : (releaseW t l w).allocF = l.allocF :=
  af_allocF (releaseW_af t l w)
theorem releaseF_allocW (t : Nat) (l : Live) (f : Nat) : (releaseF t l f).allocW = l.allocW :=
  af_allocW (releaseF_af t l f)
theorem releaseF_allocF (t : Nat) (l : Live) (f : Nat) : (releaseF t l f).allocF = l.allocF :=
  af_allocF (releaseF_af t l f)

/-- `finishOne` empties the worker list of the finished task and nothing else -/
theorem finishOne_allocW (l : Live) (t : Nat) :
    (finishOne m l t).allocW = upd l.allocW t [] := by
  unfold finishOne
  simp only
  split
  · simp only [foldl_proj _ Live.allocW (releaseF_allocW t),
      foldl_proj _ Live.allocW (releaseW_allocW t)]
  · simp only [foldl_proj _ Live.allocW (releaseW_allocW t)]

/-- … and its facility list when the task needs a facility -/
theorem finishOne_allocF (l : Live) (t : Nat) :
    (finishOne m l t).allocF =
      if (m.task t).needFac then upd l.allocF t [] else l.allocF := by
  unfold finishOne
  simp only
  split
  · simp only [foldl_proj _ Live.allocF (releaseF_allocF t),
      foldl_proj _ Live.allocF (releaseW_allocF t)]
  · simp only [foldl_proj _ Live.allocF (releaseW_allocF t)]

theorem EligInv_finishOne (l : Live) (t : Nat) (h : EligInv m l) : EligInv m (finishOne m l t) := by
  by_cases hn : (m.task t).needFac = true
  · refine h.upd t [] [] (finishOne_allocW m l t) ?_ (fun _ => EligAt.nil m t)
    rw [finishOne_allocF, if_pos hn]
  · have hn' : (m.task t).needFac = false := by simpa using hn
    refine h.upd t [] (l.allocF t) (finishOne_allocW m l t) ?_ ?_
    · rw [finishOne_allocF, if_neg hn]
      funext j; rw [upd_apply]; split
      · rename_i hj; rw [hj]
      · rfl
    · intro ht
      rw [(h t ht).noFac hn']; exact EligAt.nil m t

theorem EligInv_finStep (acc : Live) (t : Nat) (h : EligInv m acc) : EligInv m (finStep m acc t) := by
  unfold finStep; split
  · exact EligInv_finishOne m acc t h
  · exact h

theorem EligInv_finishPass (order : List Nat) (l : Live) (h : EligInv m l) :
    EligInv m (finishPass m order l) :=
  foldl_inv (finStep m) (EligInv m) (fun b a hb => EligInv_finStep m b a hb) order l h

theorem EligInv_finishClosure (order : List Nat) (fuel : Nat) (l : Live) (h : EligInv m l) :
    EligInv m (finishClosure m order fuel l) := by
  induction fuel generalizing l with
  | zero => exact h
  | succ n ih =>
    simp only [finishClosure]
    split
    · exact EligInv_finishPass m order l h
    · exact ih _ (EligInv_finishPass m order l h)

theorem chkFinished_af (l : Live) :
    af (chkFinished m l) = af (finishClosure m (List.range m.nT) (m.nT + 1) l) := by
  simp [chkFinished, chkFinishedOrd, af]

theorem EligInv_chkFinished (l : Live) (h : EligInv m l) : EligInv m (chkFinished m l) :=
  (EligInv_finishClosure m _ _ l h).of_af (chkFinished_af m l)

end finished

/-! ### allocate -/

section alloc
variable (m : Model)

/-- a facility that `allocate` newly gives to task `t`, seen from the live state `l0` the pass
started from: it was FREE and held no task, and it stands in some workplace while the task
has a target component -/
def FacFresh (m : Model) (l0 : Live) (t f : Nat) : Prop :=
  l0.fstate f = .free ∧ l0.fasg f = [] ∧
  ∃ c p, (m.task t).comp = some c ∧ f ∈ (m.wp p).facs

/-- what the allocation loop maintains about its accumulator, relative to the live state `l0`
and the free-worker list `free0` the pass started from -/
structure Rel (m : Model) (l0 : Live) (free0 : List Nat) (a : Alloc) : Prop where
  elig : EligInv m l0 → EligInv m a.l
  free_sub : ∀ w ∈ a.free, w ∈ free0
  prefW : ∀ t, l0.allocW t <+: a.l.allocW t
  prefF : ∀ t, l0.allocF t <+: a.l.allocF t
  addW : ∀ t, ∀ w ∈ a.l.allocW t, w ∈ l0.allocW t ∨ w ∈ free0
  addF : ∀ t, ∀ f ∈ a.l.allocF t, f ∈ l0.allocF t ∨ FacFresh m l0 t f
  fstate_eq : a.l.fstate = l0.fstate
  fasg_nil : ∀ f, a.l.fasg f = [] → l0.fasg f = []

variable {m}
variable {l0 : Live} {free0 : List Nat}

theorem Rel.init (l0 : Live) (free0 : List Nat) : Rel m l0 free0 { l := l0, free := free0 } where
  elig := id
  free_sub := fun _ h => h
  prefW := fun _ => List.prefix_refl _
  prefF := fun _ => List.prefix_refl _
  addW := fun _ _ h => Or.inl h
  addF := fun _ _ h => Or.inl h
  fstate_eq := rfl
  fasg_nil := fun _ h => h

/-- the four maps the relation reads -/
def af4 (l : Live) : (Nat → List Nat) × (Nat → List Nat) × (Nat → RS) × (Nat → List Nat) :=
  (l.allocW, l.allocF, l.fstate, l.fasg)

theorem Rel.frame {a : Alloc} (h : Rel m l0 free0 a) (a' : Alloc) (e : af4 a'.l = af4 a.l)
    (hfree : ∀ w ∈ a'.free, w ∈ a.free) : Rel m l0 free0 a' := by
  have hW : a'.l.allocW = a.l.allocW := congrArg (·.1) e
  have hF : a'.l.allocF = a.l.allocF := congrArg (·.2.1) e
  have hS : a'.l.fstate = a.l.fstate := congrArg (·.2.2.1) e
  have hA : a'.l.fasg = a.l.fasg := congrArg (·.2.2.2) e
  exact {
    elig := fun h0 => (h.elig h0).of_eq hW hF
    free_sub := fun w hw => h.free_sub w (hfree w hw)
    prefW := by rw [hW]; exact h.prefW
    prefF := by rw [hF]; exact h.prefF
    addW := by rw [hW]; exact h.addW
    addF := by rw [hF]; exact h.addF
    fstate_eq := by rw [hS]; exact h.fstate_eq
    fasg_nil := by rw [hA]; exact h.fasg_nil }

theorem mem_upd_append {f : Nat → List Nat} {t t' x y : Nat}
    (h : y ∈ upd f t (f t ++ [x]) t') : y ∈ f t' ∨ (t' = t ∧ y = x) := by
  rw [upd_apply] at h
  split at h
  · rename_i he
    rcases List.mem_append.mp h with h | h
    · left; rw [he]; exact h
    · right; exact ⟨he, List.mem_singleton.mp h⟩
  · exact Or.inl h

theorem prefix_upd_append {g f : Nat → List Nat} {t x : Nat} (h : ∀ t', g t' <+: f t') (t' : Nat) :
    g t' <+: upd f t (f t ++ [x]) t' := by
  rw [upd_apply]
  split
  · rename_i he; rw [← he]; exact (h t').trans (List.prefix_append _ _)
  · exact h t'

/-- one worker given to a task without facility -/
theorem Rel.stepW {a : Alloc} (h : Rel m l0 free0 a) (t w : Nat)
    (hna : (m.task t).isAuto = false) (hnf : (m.task t).needFac = false)
    (hw : w ∈ free0) (hc : canAdd m a.l t (some w) Option.none = true)
    (htt : teamTargets m w t = true) :
    Rel m l0 free0 { a with l := giveW a.l t w, free := a.free.filter (· != w) } := by
  obtain ⟨_, hs1, _, hs2, hfix, hskill⟩ := canAdd_W hc
  exact {
    elig := by
      intro h0
      have hI := h.elig h0
      refine hI.upd t (a.l.allocW t ++ [w]) (a.l.allocF t) rfl ?_ ?_
      · show a.l.allocF = _
        funext j; rw [upd_apply]; split
        · rename_i hj; rw [hj]
        · rfl
      · intro ht
        exact (hI t ht).addW w hnf hna ⟨hskill, htt, hfix⟩ hs1 hs2
    free_sub := fun w' hw' => h.free_sub w' (List.mem_filter.mp hw').1
    prefW := prefix_upd_append h.prefW
    prefF := h.prefF
    addW := by
      intro t' w' hw'
      rcases mem_upd_append hw' with h' | ⟨_, h'⟩
      · exact h.addW t' w' h'
      · right; rw [h']; exact hw
    addF := h.addF
    fstate_eq := h.fstate_eq
    fasg_nil := h.fasg_nil }

/-- one (worker, facility) pair given to a task that needs a facility -/
theorem Rel.stepWF {a : Alloc} (h : Rel m l0 free0 a) (t w f : Nat)
    (hna : (m.task t).isAuto = false) (hnf : (m.task t).needFac = true)
    (hw : w ∈ free0) (hc : canAdd m a.l t (some w) (some f) = true)
    (htt : teamTargets m w t = true) (hwt : wpTargets m f t = true)
    (hfree : l0.fstate f = .free)
    (hplace : ∃ c p, (m.task t).comp = some c ∧ f ∈ (m.wp p).facs) :
    Rel m l0 free0 { a with l := giveF (giveW a.l t w) t f, free := a.free.filter (· != w) } := by
  obtain ⟨_, hs1, hs3, hs2, hs4, hfixW, hfixF, hasg, hfs, hfo, hws⟩ := canAdd_WF hc
  exact {
    elig := by
      intro h0
      have hI := h.elig h0
      refine hI.upd t (a.l.allocW t ++ [w]) (a.l.allocF t ++ [f]) rfl rfl ?_
      intro ht
      exact (hI t ht).addWF w f hnf hna ⟨⟨hws, htt, hfixW⟩, ⟨hfs, hwt, hfixF⟩, hfo⟩ hs1 hs2 hs3 hs4
    free_sub := fun w' hw' => h.free_sub w' (List.mem_filter.mp hw').1
    prefW := prefix_upd_append h.prefW
    prefF := prefix_upd_append h.prefF
    addW := by
      intro t' w' hw'
      rcases mem_upd_append hw' with h' | ⟨_, h'⟩
      · exact h.addW t' w' h'
      · right; rw [h']; exact hw
    addF := by
      intro t' f' hf'
      rcases mem_upd_append hf' with h' | ⟨ht', h'⟩
      · exact h.addF t' f' h'
      · right; rw [h', ht']; exact ⟨hfree, h.fasg_nil f hasg, hplace⟩
    fstate_eq := h.fstate_eq
    fasg_nil := by
      intro f' hf'
      apply h.fasg_nil
      change upd a.l.fasg f (a.l.fasg f ++ [t]) f' = [] at hf'
      rw [upd_apply] at hf'
      split at hf'
      · simp at hf'
      · exact hf' }

/-- a fold whose step preserves an invariant for the elements of the list -/
theorem foldl_inv_mem {α β : Type} (f : β → α → β) (P : β → Prop) (xs : List α)
    (h : ∀ b a, a ∈ xs → P b → P (f b a)) (b : β) (hb : P b) : P (xs.foldl f b) := by
  induction xs generalizing b with
  | nil => exact hb
  | cons x xs ih =>
    rw [List.foldl_cons]
    exact ih (fun b a ha => h b a (List.mem_cons_of_mem _ ha)) _ (h b x List.mem_cons_self hb)

theorem Rel_allocWorkers {a : Alloc} (h : Rel m l0 free0 a) (t : Nat)
    (hna : (m.task t).isAuto = false) (hnf : (m.task t).needFac = false) :
    Rel m l0 free0 (allocWorkers m t a) := by
  unfold allocWorkers
  dsimp only
  refine foldl_inv_mem _ (Rel m l0 free0) _ ?_ _ ?_
  · intro acc w hw hacc
    split
    · rename_i hc
      obtain ⟨hw1, hw2⟩ := List.mem_filter.mp hw
      simp only [Bool.and_eq_true] at hw2
      exact hacc.stepW t w hna hnf (h.free_sub w (Sort.mem_sortWorkers.mp hw1)) hc hw2.2
    · exact hacc
  · exact h.frame _ rfl (fun w hw => Sort.mem_sortWorkers.mp hw)

theorem Rel_allocPairs {a : Alloc} (h : Rel m l0 free0 a) (t : Nat)
    (hna : (m.task t).isAuto = false) (hnf : (m.task t).needFac = true) :
    Rel m l0 free0 (allocPairs m t a) := by
  unfold allocPairs
  split
  · exact h
  · rename_i c hc
    split
    · exact h
    · rename_i p hp
      dsimp only
      refine foldl_inv_mem _ (Rel m l0 free0) _ ?_ _ h
      intro acc f hf hacc
      split
      · exact hacc
      · rename_i w rest heq
        have hwmem : w ∈ sortWorkers m (m.task t).wRule (m.task t).name (some p)
            (acc.free.filter fun w => hasSkill (m.worker w).skills (m.task t).name &&
              teamTargets m w t && canAdd m acc.l t (some w) (some f)) := by
          rw [heq]; exact List.mem_cons_self
        obtain ⟨hw1, hw2⟩ := List.mem_filter.mp (Sort.mem_sortWorkers.mp hwmem)
        simp only [Bool.and_eq_true] at hw2
        obtain ⟨hf1, hf2⟩ := List.mem_filter.mp hf
        simp only [Bool.and_eq_true] at hf2
        obtain ⟨hf3, hf4⟩ := List.mem_filter.mp (Sort.mem_sortFacs.mp hf1)
        have hfree : l0.fstate f = .free := by
          rw [← h.fstate_eq]; simpa using hf4
        exact hacc.stepWF t w f hna hnf (hacc.free_sub w hw1) hw2.2 hw2.1.2 hf2.2 hfree
          ⟨c, p, hc, hf3⟩

theorem moveComp_af4 (l : Live) (c p : Nat) : af4 (moveComp l c p) = af4 l := by
  unfold moveComp
  dsimp only
  split <;> split <;> rfl

theorem placeStep_af4 (t : Nat) (l : Live) : af4 (placeStep m t l) = af4 l := by
  unfold placeStep
  split
  · rfl
  · split
    · dsimp only
      split
      · rfl
      · exact moveComp_af4 _ _ _
    · rfl

theorem Rel_head {acc : Alloc} (h : Rel m l0 free0 acc) (t : Nat) (b : Bool) (mv : List Nat) :
    Rel m l0 free0 (if b then acc else { acc with l := placeStep m t acc.l, moved := mv }) := by
  cases b
  · exact h.frame _ (placeStep_af4 t acc.l) (fun _ hw => hw)
  · exact h

theorem Rel_tail {a1 : Alloc} (h : Rel m l0 free0 a1) (t : Nat) :
    Rel m l0 free0 (if (m.task t).isAuto then a1
        else if (m.task t).needFac then allocPairs m t a1 else allocWorkers m t a1) := by
  split
  · exact h
  · rename_i ha
    have hna : (m.task t).isAuto = false := by simpa using ha
    split
    · rename_i hn; exact Rel_allocPairs h t hna hn
    · rename_i hn; exact Rel_allocWorkers h t hna (by simpa using hn)

theorem Rel_allocTask {acc : Alloc} (h : Rel m l0 free0 acc) (t : Nat) :
    Rel m l0 free0 (allocTask m acc t) := by
  unfold allocTask
  dsimp only
  apply Rel_tail
  exact Rel_head h t _ _

/-- the free workers `allocate` starts from -/
def freeOf (m : Model) (l : Live) : List Nat :=
  (List.range m.nW).filter fun w => l.wstate w == .free

theorem mem_freeOf {m : Model} {l : Live} {w : Nat} :
    w ∈ freeOf m l ↔ w < m.nW ∧ l.wstate w = .free := by
  simp [freeOf]

/-- the accumulator at the end of the pass is related to the state at its start -/
theorem Rel_allocate (lg : Logs) (rule : TaskRule) (l : Live) :
    ∃ a : Alloc, Rel m l (freeOf m l) a ∧
      (allocate m lg rule l).allocW = a.l.allocW ∧ (allocate m lg rule l).allocF = a.l.allocF := by
  refine ⟨(sortTasks m l lg rule ((List.range m.nT).filter fun t =>
      l.tstate t == .ready || l.tstate t == .working)).foldl (allocTask m)
      { l := l, free := freeOf m l }, ?_, ?_, ?_⟩
  · exact foldl_inv (allocTask m) (Rel m l (freeOf m l)) (fun b t hb => Rel_allocTask hb t) _ _
      (Rel.init l (freeOf m l))
  · simp [allocate, freeOf]
  · simp [allocate, freeOf]

variable (m)

/-- `allocate` preserves the eligibility invariant -/
theorem EligInv_allocate (lg : Logs) (rule : TaskRule) (l : Live) (h : EligInv m l) :
    EligInv m (allocate m lg rule l) := by
  obtain ⟨a, hr, hW, hF⟩ := Rel_allocate (m := m) lg rule l
  exact (hr.elig h).of_eq hW hF

/-- `allocate` never removes or reorders what a task holds -/
theorem allocate_prefixW (lg : Logs) (rule : TaskRule) (l : Live) (t : Nat) :
    l.allocW t <+: (allocate m lg rule l).allocW t := by
  obtain ⟨a, hr, hW, hF⟩ := Rel_allocate (m := m) lg rule l
  rw [hW]; exact hr.prefW t

theorem allocate_prefixF (lg : Logs) (rule : TaskRule) (l : Live) (t : Nat) :
    l.allocF t <+: (allocate m lg rule l).allocF t := by
  obtain ⟨a, hr, hW, hF⟩ := Rel_allocate (m := m) lg rule l
  rw [hF]; exact hr.prefF t

/-- a worker held after `allocate` was held before or was a FREE worker of the organisation -/
theorem allocate_addedW (lg : Logs) (rule : TaskRule) (l : Live) (t w : Nat)
    (h : w ∈ (allocate m lg rule l).allocW t) :
    w ∈ l.allocW t ∨ (w < m.nW ∧ l.wstate w = .free) := by
  obtain ⟨a, hr, hW, hF⟩ := Rel_allocate (m := m) lg rule l
  rw [hW] at h
  rcases hr.addW t w h with h' | h'
  · exact Or.inl h'
  · exact Or.inr (mem_freeOf.mp h')

/-- a facility held after `allocate` was held before or was FREE, unassigned, and standing in a
workplace -/
theorem allocate_addedF (lg : Logs) (rule : TaskRule) (l : Live) (t f : Nat)
    (h : f ∈ (allocate m lg rule l).allocF t) :
    f ∈ l.allocF t ∨ FacFresh m l t f := by
  obtain ⟨a, hr, hW, hF⟩ := Rel_allocate (m := m) lg rule l
  rw [hF] at h
  exact hr.addF t f h

/-- the precise guarantee of one call of `allocPairs`: a facility it adds stands in the workplace
where the task's component is placed at that moment, is FREE and unassigned, and the worker it
is paired with comes from the current free list -/
theorem allocPairs_added (t : Nat) (a : Alloc) (f : Nat)
    (h : f ∈ (allocPairs m t a).l.allocF t) :
    f ∈ a.l.allocF t ∨
      ∃ c p, (m.task t).comp = some c ∧ a.l.placed c = some p ∧ f ∈ (m.wp p).facs ∧
        a.l.fstate f = .free ∧ a.l.fasg f = [] := by
  unfold allocPairs at h
  split at h
  · exact Or.inl h
  · rename_i c hc
    split at h
    · exact Or.inl h
    · rename_i p hp
      dsimp only at h
      revert h
      refine foldl_inv_mem _ (fun acc : Alloc =>
        (a.l.fstate = acc.l.fstate ∧ ∀ f', acc.l.fasg f' = [] → a.l.fasg f' = []) ∧
        (f ∈ acc.l.allocF t → f ∈ a.l.allocF t ∨
          ∃ c p, (m.task t).comp = some c ∧ a.l.placed c = some p ∧ f ∈ (m.wp p).facs ∧
            a.l.fstate f = .free ∧ a.l.fasg f = [])) _ ?_ _ ⟨⟨rfl, fun _ h => h⟩, Or.inl⟩ |>.2
      intro acc f' hf' ⟨⟨hst, hasg⟩, hacc⟩
      split
      · exact ⟨⟨hst, hasg⟩, hacc⟩
      · rename_i w rest heq
        refine ⟨⟨hst, ?_⟩, ?_⟩
        · intro f'' h''
          apply hasg
          change upd acc.l.fasg f' (acc.l.fasg f' ++ [t]) f'' = [] at h''
          rw [upd_apply] at h''
          split at h''
          · simp at h''
          · exact h''
        · intro hmem
          change f ∈ upd acc.l.allocF t (acc.l.allocF t ++ [f']) t at hmem
          rw [upd_same] at hmem
          rcases List.mem_append.mp hmem with h' | h'
          · exact hacc h'
          · right
            have hff : f = f' := List.mem_singleton.mp h'
            subst hff
            have hwmem : w ∈ sortWorkers m (m.task t).wRule (m.task t).name (some p)
                (acc.free.filter fun w => hasSkill (m.worker w).skills (m.task t).name &&
                  teamTargets m w t && canAdd m acc.l t (some w) (some f)) := by
              rw [heq]; exact List.mem_cons_self
            obtain ⟨_, hw2⟩ := List.mem_filter.mp (Sort.mem_sortWorkers.mp hwmem)
            simp only [Bool.and_eq_true] at hw2
            obtain ⟨hf1, _⟩ := List.mem_filter.mp hf'
            obtain ⟨hf3, hf4⟩ := List.mem_filter.mp (Sort.mem_sortFacs.mp hf1)
            exact ⟨c, p, hc, hp, hf3, by simpa using hf4, hasg f (canAdd_WF hw2.2).2.2.2.2.2.2.2.1⟩

end alloc

/-! ### the `__update` block, one loop step, initialize -/

section blocks
variable (m : Model)

theorem update_af (time : Nat) (l : Live) : af (update m time l) = af (chkFinished m l) := by
  simp [update]

theorem EligInv_update (time : Nat) (l : Live) (h : EligInv m l) : EligInv m (update m time l) :=
  (EligInv_chkFinished m l h).of_af (update_af m time l)

theorem EligInv_updated (s : St) (h : EligInv m s.live) : EligInv m (updated m s).live :=
  EligInv_update m s.time s.live h

theorem EligInv_preWorking (p : Params) (s : St) (h : EligInv m s.live) :
    EligInv m (preWorking m p s) := by
  unfold preWorking
  split
  · exact EligInv_allocate m _ _ _ (h.of_af (absenceSet_af m _ _ _))
  · exact h.of_af (absenceSet_af m _ _ _)

theorem stepBody_af (p : Params) (s : St) : af (stepBody m p s).live = af (preWorking m p s) := by
  rw [stepBody_live]; simp

theorem EligInv_stepBody (p : Params) (s : St) (h : EligInv m s.live) :
    EligInv m (stepBody m p s).live :=
  (EligInv_preWorking m p s h).of_af (stepBody_af m p s)

theorem initProject_af (logInfo : Bool) (s : St) :
    af (initProject m true logInfo s).live = af (initLive m logInfo s.live) := by
  rw [initProject_live]; rfl

theorem initLive_allocW (both : Bool) (l : Live) (t : Nat) (ht : t < m.nT) :
    (initLive m both l).allocW t = [] := by
  simp [initLive, ht]

theorem initLive_allocF (both : Bool) (l : Live) (t : Nat) (ht : t < m.nT) :
    (initLive m both l).allocF t = [] := by
  simp [initLive, ht]

theorem EligInv_initProject (logInfo : Bool) (s : St) :
    EligInv m (initProject m true logInfo s).live := by
  intro t ht
  rw [af_allocW (initProject_af m logInfo s), af_allocF (initProject_af m logInfo s),
    initLive_allocW m _ _ t ht, initLive_allocF m _ _ t ht]
  exact EligAt.nil m t

end blocks

/-! ### C05: a task nobody can serve stays idle -/

/-- task `t` has not started and holds no worker -/
def Idle (l : Live) (t : Nat) : Prop :=
  (l.tstate t = .none ∨ l.tstate t = .ready) ∧ l.allocW t = []

theorem Idle.of_eq {l l' : Live} {t : Nat} (h : Idle l t) (hT : l'.tstate = l.tstate)
    (hA : af l' = af l) : Idle l' t := by
  unfold Idle; rw [hT, af_allocW hA]; exact h

section idle
variable (m : Model)

theorem Idle_finStep (acc : Live) (t' t : Nat) (h : Idle acc t) : Idle (finStep m acc t') t := by
  unfold finStep; split
  · rename_i hc
    simp only [Bool.and_eq_true, finishCand, beq_iff_eq] at hc
    have hne : t ≠ t' := by
      intro he; subst he
      rcases h.1 with h1 | h1 <;> rw [h1] at hc <;> exact absurd hc.1.1 (by decide)
    constructor
    · rw [finishOne_tstate, upd_other _ _ _ _ hne]; exact h.1
    · rw [finishOne_allocW, upd_other _ _ _ _ hne]; exact h.2
  · exact h

theorem Idle_finishPass (order : List Nat) (l : Live) (t : Nat) (h : Idle l t) :
    Idle (finishPass m order l) t :=
  foldl_inv (finStep m) (fun a => Idle a t) (fun b a hb => Idle_finStep m b a t hb) order l h

theorem Idle_finishClosure (order : List Nat) (fuel : Nat) (l : Live) (t : Nat) (h : Idle l t) :
    Idle (finishClosure m order fuel l) t := by
  induction fuel generalizing l with
  | zero => exact h
  | succ n ih =>
    simp only [finishClosure]
    split
    · exact Idle_finishPass m order l t h
    · exact ih _ (Idle_finishPass m order l t h)

theorem Idle_chkFinished (l : Live) (t : Nat) (h : Idle l t) : Idle (chkFinished m l) t :=
  (Idle_finishClosure m _ _ l t h).of_eq (chkFinished_tstate m l) (chkFinished_af m l)

theorem Idle_chkReady (l : Live) (t : Nat) (h : Idle l t) : Idle (chkReady m l) t := by
  refine ⟨?_, h.2⟩
  rw [chkReady_tstate]
  split
  · exact Or.inr rfl
  · exact h.1

theorem Idle_update (time : Nat) (l : Live) (t : Nat) (h : Idle l t) :
    Idle (update m time l) t := by
  unfold update
  have h1 : Idle (chkRemove m (compCheck m (chkFinished m l))) t :=
    (Idle_chkFinished m l t h).of_eq (by simp) (by simp)
  exact (Idle_chkReady m _ t h1).of_eq rfl rfl

/-- a task that holds no worker and for which no worker of the organisation is eligible gets
none from `allocate` -/
theorem allocate_allocW_nil (lg : Logs) (rule : TaskRule) (l : Live) (t : Nat) (ht : t < m.nT)
    (hI : EligInv m l) (hno : ∀ w, w < m.nW → ¬ WorkerElig m t w) (h0 : l.allocW t = []) :
    (allocate m lg rule l).allocW t = [] := by
  rw [List.eq_nil_iff_forall_not_mem]
  intro w hw
  rcases allocate_addedW m lg rule l t w hw with h' | ⟨hlt, _⟩
  · rw [h0] at h'; cases h'
  · exact hno w hlt ((EligInv_allocate m lg rule l hI t ht).worker w hw)

theorem Idle_preWorking (p : Params) (s : St) (t : Nat) (ht : t < m.nT)
    (hI : EligInv m s.live) (hno : ∀ w, w < m.nW → ¬ WorkerElig m t w) (h : Idle s.live t) :
    Idle (preWorking m p s) t := by
  refine ⟨by rw [preWorking_tstate]; exact h.1, ?_⟩
  unfold preWorking
  split
  · exact allocate_allocW_nil m _ _ _ t ht (hI.of_af (absenceSet_af m _ _ _)) hno h.2
  · exact h.2

theorem workingTarget_idle (l : Live) (t : Nat) (h : Idle l t) (ha : (m.task t).isAuto = false) :
    workingTarget m l t = false := by
  unfold workingTarget
  simp [h.2, ha]

theorem foldl_startOne_tstate_notin (ts : List Nat) (l : Live) (t : Nat) (h : t ∉ ts) :
    (ts.foldl (startOne m) l).tstate t = l.tstate t := by
  induction ts generalizing l with
  | nil => rfl
  | cons x xs ih =>
    rw [List.foldl_cons, ih _ (fun hx => h (List.mem_cons_of_mem _ hx)), startOne_tstate]
    have hne : t ≠ x := fun he => h (he ▸ List.mem_cons_self)
    split
    · exact upd_other _ _ _ _ hne
    · rfl

theorem Idle_chkWorking (l : Live) (t : Nat) (h : Idle l t) (ha : (m.task t).isAuto = false) :
    Idle (chkWorking m l) t := by
  constructor
  · rw [chkWorking_tstate, foldl_startOne_tstate_notin]
    · exact h.1
    · intro hmem
      have := (List.mem_filter.mp hmem).2
      rw [workingTarget_idle m l t h ha] at this
      cases this
  · rw [af_allocW (chkWorking_af m l)]; exact h.2

theorem Idle_stepBody (p : Params) (s : St) (t : Nat) (ht : t < m.nT)
    (ha : (m.task t).isAuto = false)
    (hI : EligInv m s.live) (hno : ∀ w, w < m.nW → ¬ WorkerElig m t w) (h : Idle s.live t) :
    Idle (stepBody m p s).live t := by
  rw [stepBody_live]
  cases startGuard p s
  · exact (Idle_preWorking m p s t ht hI hno h).of_eq rfl rfl
  · exact (Idle_chkWorking m _ t (Idle_preWorking m p s t ht hI hno h) ha).of_eq rfl rfl

/-- after `initialize(state_info=True)` a task below `nT` is NONE or READY and holds nothing,
unless the logs were reset too and its default progress is already complete -/
theorem Idle_initProject (logInfo : Bool) (s : St) (t : Nat) (ht : t < m.nT)
    (hp : logInfo = true → (m.task t).prog < 1) :
    Idle (initProject m true logInfo s).live t := by
  constructor
  · rw [initProject_tstate, chkReady_tstate]
    have h0 : (pert m 0 { initLive m logInfo s.live with cpl := 0 }).tstate t = .none := by
      rw [pert_tstate]
      show (initLive m logInfo s.live).tstate t = .none
      rw [initLive_tstate]
      cases logInfo
      · simp
      · have := hp rfl
        have hn : ¬ (m.task t).prog ≥ 1 := Rat.not_le.mpr this
        simp [hn]
    split
    · exact Or.inr rfl
    · exact Or.inl h0
  · rw [af_allocW (initProject_af m logInfo s)]; exact initLive_allocW m _ _ t ht

end idle

/-! ### concrete models for the `example`s of the property files -/

/-- Task 0 needs a facility (component 0, workplace 0 with the single facility 0); task 1 follows
it finish-to-start and fixes worker 1; task 2 is automatic.  Worker 0 works solo, has the skill
for tasks 0 and 1 and can operate facility 0; worker 1 only has the skill for task 1. -/
def exF : Model where
  nT := 3
  nW := 2
  nF := 1
  nTeam := 1
  nWp := 1
  nC := 1
  task := fun t =>
    match t with
    | 0 => { name := 0, work := 2, needFac := true, wps := [0], comp := some 0,
             outputs := [(1, .fs)] }
    | 1 => { name := 1, work := 1, inputs := [(0, .fs)], fixW := some [1] }
    | _ => { name := 2, work := 1, isAuto := true }
  worker := fun w =>
    match w with
    | 0 => { team := 0, skills := [(0, 1), (1, 1)], facSkills := [(0, 1)], solo := true }
    | _ => { team := 0, skills := [(1, 1)] }
  fac := fun _ => { wp := 0, name := 0, skills := [(0, 1)] }
  team := fun _ => { workers := [0, 1], targets := [0, 1, 2] }
  wp := fun _ => { facs := [0], targets := [0], cap := 1 }
  comp := fun _ => { tasks := [0], size := 1 }

/-- a mid-run live state of `exF`: task 0 WORKING with the pair (worker 0, facility 0) -/
def exFLive : Live :=
  { Live.empty with
    tstate := fun t => if t = 0 then .working else .none
    allocW := fun t => if t = 0 then [0] else []
    allocF := fun t => if t = 0 then [0] else []
    wstate := fun w => if w = 0 then .working else .free
    wasg := fun w => if w = 0 then [0] else []
    fstate := fun f => if f = 0 then .working else .free
    fasg := fun f => if f = 0 then [0] else [] }

def exFSt : St := { St.fresh with live := exFLive }

/-- two tasks; nobody has the skill for task 1 (its name 5 is in no skill map) -/
def exU : Model where
  nT := 2
  nW := 1
  nF := 0
  nTeam := 1
  nWp := 0
  nC := 0
  task := fun t =>
    match t with
    | 0 => { name := 0, work := 1 }
    | _ => { name := 5, work := 1 }
  worker := fun _ => { team := 0, skills := [(0, 1)] }
  fac := fun _ => {}
  team := fun _ => { workers := [0], targets := [0, 1] }
  wp := fun _ => {}
  comp := fun _ => {}

end Elig
end PDesy
