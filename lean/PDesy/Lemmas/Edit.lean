/-
  PDesy.Lemmas.Edit — helper lemmas for the log-editing functions of `PDesy.Model.LogEdit`
  (`remove_absence_time_list`, `insert_absence_time_list`, `reverse_log_information`).

  * `delAt` / `insAt` are `List.eraseIdx` / `List.insertIdx` (the latter for `i ≤ length`);
  * `popSteps` on a list of steps whose pops are all accepted (`Dec`) is a plain fold of `delAt`;
  * `insSteps` on a list of steps whose insertions are all accepted (`Acc`) is a plain fold of
    `insAt` (`insFold`);
  * `insertable` (`insR`) returns exactly an accepted list, ascending when its input is;
  * popping the inserted steps, highest first, gives back the original log (`popBy_insSteps`);
  * the value found at each inserted step (`insFold_spec`).
-/
import PDesy.Model.LogEdit
import PDesy.Lemmas.Defs
import PDesy.Lemmas.Sort

namespace PDesy.Edit

variable {α : Type}

/-- induction on a list from its end -/
theorem rev_induction {β : Type} {motive : List β → Prop} (nil : motive [])
    (append_singleton : ∀ a st, motive a → motive (a ++ [st])) (l : List β) : motive l := by
  have key : ∀ r : List β, motive r.reverse := by
    intro r
    induction r with
    | nil => exact nil
    | cons x r ih => rw [List.reverse_cons]; exact append_singleton _ _ ih
  have := key l.reverse
  rwa [List.reverse_reverse] at this

/-! ### `delAt` and `insAt` -/

theorem delAt_eq (xs : List α) (i : Nat) : delAt xs i = xs.eraseIdx i := by
  induction xs generalizing i with
  | nil => cases i <;> rfl
  | cons x xs ih =>
    cases i with
    | zero => rfl
    | succ i => simp [delAt, ih]

theorem insAt_eq (xs : List α) (i : Nat) (v : α) (h : i ≤ xs.length) :
    insAt xs i v = xs.insertIdx i v := by
  induction xs generalizing i with
  | nil =>
    cases i with
    | zero => rfl
    | succ i => simp at h
  | cons x xs ih =>
    cases i with
    | zero => rfl
    | succ i =>
      have : i ≤ xs.length := by simpa using h
      simp [insAt, ih i this]

/-- `list.insert` always adds one entry (it appends when the index is past the end). -/
@[simp] theorem length_insAt (xs : List α) (i : Nat) (v : α) :
    (insAt xs i v).length = xs.length + 1 := by
  induction xs generalizing i with
  | nil => cases i <;> rfl
  | cons x xs ih =>
    cases i with
    | zero => rfl
    | succ i => simp [insAt, ih]

theorem length_delAt (xs : List α) (i : Nat) (h : i < xs.length) :
    (delAt xs i).length = xs.length - 1 := by
  rw [delAt_eq, List.length_eraseIdx, if_pos h]

/-- the content of a log after `insert(i, v)` with `i ≤ len`: entries before `i` unchanged,
entry `i` is `v`, later entries shifted by one. -/
theorem getElem?_insAt (xs : List α) (i : Nat) (v : α) (h : i ≤ xs.length) (j : Nat) :
    (insAt xs i v)[j]? = if j < i then xs[j]? else if j = i then some v else xs[j - 1]? := by
  rw [insAt_eq xs i v h, List.getElem?_insertIdx]
  by_cases h1 : j < i
  · simp [h1]
  · by_cases h2 : j = i
    · subst h2; simp [h]
    · simp [h1, h2]

/-- the content of a log after `pop(i)`. -/
theorem getElem?_delAt (xs : List α) (i j : Nat) :
    (delAt xs i)[j]? = if j < i then xs[j]? else xs[j + 1]? := by
  rw [delAt_eq, List.getElem?_eraseIdx]

/-- `pop(i)` undoes `insert(i, v)` (for `i ≤ len`). -/
theorem delAt_insAt (xs : List α) (i : Nat) (v : α) (h : i ≤ xs.length) :
    delAt (insAt xs i v) i = xs := by
  induction xs generalizing i with
  | nil =>
    cases i with
    | zero => rfl
    | succ i => simp at h
  | cons x xs ih =>
    cases i with
    | zero => rfl
    | succ i =>
      have : i ≤ xs.length := by simpa using h
      simp [insAt, delAt, ih i this]

/-! ### accepted pops: `popSteps` is a fold of `delAt` -/

/-- the step function of `popSteps` -/
def popF (acc : List α × Nat) (st : Nat) : List α × Nat :=
  if st < acc.2 then (delAt acc.1 st, acc.2 - 1) else acc

theorem popSteps_eq (steps : List Nat) (g : Nat) (log : List α) :
    popSteps steps g log = steps.reverse.foldl popF (log, g) := rfl

/-- every pop of the list `ds` (processed left to right) passes its guard, starting from guard
length `g` -/
def Dec : List Nat → Nat → Prop
  | [], _ => True
  | d :: r, g => d < g ∧ Dec r (g - 1)

theorem foldl_popF (ds : List Nat) (g : Nat) (log : List α) (h : Dec ds g) :
    ds.foldl popF (log, g) = (ds.foldl delAt log, g - ds.length) := by
  induction ds generalizing g log with
  | nil => rfl
  | cons d r ih =>
    obtain ⟨h1, h2⟩ := h
    rw [List.foldl_cons, List.foldl_cons]
    have : popF (log, g) d = (delAt log d, g - 1) := by simp [popF, h1]
    rw [this, ih _ _ h2]
    simp only [List.length_cons]
    congr 1
    omega

theorem Dec.length_le {ds : List Nat} {g : Nat} (h : Dec ds g) : ds.length ≤ g := by
  induction ds generalizing g with
  | nil => simp
  | cons d r ih =>
    obtain ⟨h1, h2⟩ := h
    have := ih h2
    simp only [List.length_cons]
    omega

/-- each accepted pop removes exactly one entry (the index is in range because the guard is) -/
theorem length_foldl_delAt (ds : List Nat) (g : Nat) (log : List α) (h : Dec ds g)
    (hg : g ≤ log.length) : (ds.foldl delAt log).length = log.length - ds.length := by
  induction ds generalizing g log with
  | nil => rfl
  | cons d r ih =>
    obtain ⟨h1, h2⟩ := h
    rw [List.foldl_cons, ih (g - 1) _ h2]
    · rw [length_delAt _ _ (by omega)]
      simp only [List.length_cons]
      omega
    · rw [length_delAt _ _ (by omega)]
      omega

/-- a strictly descending list of indices below `g` only makes accepted pops -/
theorem Dec.of_desc (ds : List Nat) (g : Nat) (hp : ds.Pairwise (fun a b => b < a))
    (hlt : ∀ d ∈ ds, d < g) : Dec ds g := by
  induction ds generalizing g with
  | nil => trivial
  | cons d r ih =>
    rw [List.pairwise_cons] at hp
    refine ⟨hlt d (by simp), ih _ hp.2 ?_⟩
    intro e he
    have := hp.1 e he
    have := hlt d (by simp)
    omega

/-- `stepsBelow n xs` is ascending, duplicate-free and below `n` -/
theorem stepsBelow_pairwise (n : Nat) (xs : List Nat) :
    (stepsBelow n xs).Pairwise (· < ·) :=
  List.Pairwise.filter _ List.pairwise_lt_range

theorem mem_stepsBelow {n : Nat} {xs : List Nat} {k : Nat} :
    k ∈ stepsBelow n xs ↔ k < n ∧ k ∈ xs := by
  simp [stepsBelow, canonSet]

theorem length_stepsBelow_le (n : Nat) (xs : List Nat) : (stepsBelow n xs).length ≤ n := by
  have := List.length_filter_le (fun i => xs.contains i) (List.range n)
  simpa [stepsBelow, canonSet] using this

/-- popping an ascending list of in-range steps, highest first: every pop is accepted -/
theorem Dec.of_asc (steps : List Nat) (g : Nat) (hp : steps.Pairwise (· < ·))
    (hlt : ∀ d ∈ steps, d < g) : Dec steps.reverse g := by
  apply Dec.of_desc
  · rw [List.pairwise_reverse]; exact hp
  · intro d hd; exact hlt d (List.mem_reverse.1 hd)

/-- length of a log after popping ascending in-range steps -/
theorem length_popBy (steps : List Nat) (g : Nat) (log : List α) (hp : steps.Pairwise (· < ·))
    (hlt : ∀ d ∈ steps, d < g) (hg : g ≤ log.length) :
    (popBy steps g log).length = log.length - steps.length := by
  have hd := Dec.of_asc steps g hp hlt
  rw [popBy, popSteps_eq, foldl_popF _ _ _ hd]
  simp only
  rw [length_foldl_delAt _ g _ hd hg, List.length_reverse]

theorem length_popBy_stepsBelow (n : Nat) (xs : List Nat) (log : List α) (hg : log.length = n) :
    (popBy (stepsBelow n xs) n log).length = n - (stepsBelow n xs).length := by
  rw [length_popBy _ _ _ (stepsBelow_pairwise n xs) (fun d hd => (mem_stepsBelow.1 hd).1)
    (by omega), hg]

/-- two ascending lists with the same members are equal -/
theorem eq_of_pairwise_lt {l₁ l₂ : List Nat} (h₁ : l₁.Pairwise (· < ·)) (h₂ : l₂.Pairwise (· < ·))
    (h : ∀ a, a ∈ l₁ ↔ a ∈ l₂) : l₁ = l₂ := by
  induction l₁ generalizing l₂ with
  | nil =>
    cases l₂ with
    | nil => rfl
    | cons b l₂ => exact absurd ((h b).2 (by simp)) (by simp)
  | cons a l₁ ih =>
    cases l₂ with
    | nil => exact absurd ((h a).1 (by simp)) (by simp)
    | cons b l₂ =>
      rw [List.pairwise_cons] at h₁ h₂
      have hab : a = b := by
        have ha := (h a).1 (by simp)
        have hb := (h b).2 (by simp)
        rcases List.mem_cons.1 ha with rfl | ha
        · rfl
        · rcases List.mem_cons.1 hb with rfl | hb
          · rfl
          · have := h₁.1 b hb
            have := h₂.1 a ha
            omega
      subst hab
      congr 1
      apply ih h₁.2 h₂.2
      intro c
      constructor
      · intro hc
        have hlt := h₁.1 c hc
        rcases List.mem_cons.1 ((h c).1 (List.mem_cons_of_mem _ hc)) with rfl | h'
        · omega
        · exact h'
      · intro hc
        have hlt := h₂.1 c hc
        rcases List.mem_cons.1 ((h c).2 (List.mem_cons_of_mem _ hc)) with rfl | h'
        · omega
        · exact h'

/-- `sorted(set(…))` of an ascending, duplicate-free, in-range list is the list itself -/
theorem stepsBelow_eq_self (n : Nat) (xs : List Nat) (hp : xs.Pairwise (· < ·))
    (hlt : ∀ d ∈ xs, d < n) : stepsBelow n xs = xs := by
  apply eq_of_pairwise_lt (stepsBelow_pairwise n xs) hp
  intro a
  rw [mem_stepsBelow]
  exact ⟨fun h => h.2, fun h => ⟨hlt a h, h⟩⟩

/-! ### accepted insertions: `insSteps` is a fold of `insAt` -/

/-- the step function of `insSteps` -/
def insF (mk : Nat → List α → α) (acc : List α × Nat) (st : Nat) : List α × Nat :=
  if st < acc.2 then (insAt acc.1 st (mk st acc.1), acc.2 + 1) else acc

theorem insSteps_eq (steps : List Nat) (g : Nat) (mk : Nat → List α → α) (log : List α) :
    insSteps steps g mk log = (steps.foldl (insF mk) (log, g)).1 := rfl

/-- insert the steps one after the other, no guard -/
def insFold (mk : Nat → List α → α) (log : List α) (steps : List Nat) : List α :=
  steps.foldl (fun l st => insAt l st (mk st l)) log

@[simp] theorem insFold_nil (mk : Nat → List α → α) (log : List α) : insFold mk log [] = log := rfl

@[simp] theorem insFold_cons (mk : Nat → List α → α) (log : List α) (st : Nat) (r : List Nat) :
    insFold mk log (st :: r) = insFold mk (insAt log st (mk st log)) r := rfl

theorem insFold_append (mk : Nat → List α → α) (log : List α) (a b : List Nat) :
    insFold mk log (a ++ b) = insFold mk (insFold mk log a) b := by
  simp [insFold, List.foldl_append]

@[simp] theorem length_insFold (mk : Nat → List α → α) (log : List α) (steps : List Nat) :
    (insFold mk log steps).length = log.length + steps.length := by
  induction steps generalizing log with
  | nil => rfl
  | cons st r ih => simp [ih]; omega

/-- every insertion of the list passes its guard, starting from guard length `g` (the guard
grows by one with every insertion) -/
def Acc : List Nat → Nat → Prop
  | [], _ => True
  | st :: r, g => st < g ∧ Acc r (g + 1)

theorem foldl_insF (mk : Nat → List α → α) (steps : List Nat) (g : Nat) (log : List α)
    (h : Acc steps g) :
    steps.foldl (insF mk) (log, g) = (insFold mk log steps, g + steps.length) := by
  induction steps generalizing g log with
  | nil => rfl
  | cons st r ih =>
    obtain ⟨h1, h2⟩ := h
    rw [List.foldl_cons]
    have : insF mk (log, g) st = (insAt log st (mk st log), g + 1) := by simp [insF, h1]
    rw [this, ih _ _ h2]
    simp only [insFold_cons, List.length_cons]
    congr 1
    omega

theorem insSteps_eq_insFold (mk : Nat → List α → α) (steps : List Nat) (g : Nat) (log : List α)
    (h : Acc steps g) : insSteps steps g mk log = insFold mk log steps := by
  rw [insSteps_eq, foldl_insF mk steps g log h]

theorem length_insSteps (mk : Nat → List α → α) (steps : List Nat) (g : Nat) (log : List α)
    (h : Acc steps g) : (insSteps steps g mk log).length = log.length + steps.length := by
  rw [insSteps_eq_insFold mk steps g log h, length_insFold]

theorem Acc.append {a : List Nat} {st g : Nat} :
    Acc (a ++ [st]) g ↔ Acc a g ∧ st < g + a.length := by
  induction a generalizing g with
  | nil => simp [Acc]
  | cons x a ih =>
    simp only [List.cons_append, Acc, ih, List.length_cons]
    constructor
    · rintro ⟨h1, h2, h3⟩; exact ⟨⟨h1, h2⟩, by omega⟩
    · rintro ⟨⟨h1, h2⟩, h3⟩; exact ⟨h1, h2, by omega⟩

/-- each accepted step is below the final guard length -/
theorem Acc.lt {steps : List Nat} {g : Nat} (h : Acc steps g) :
    ∀ k ∈ steps, k < g + steps.length := by
  induction steps generalizing g with
  | nil => simp
  | cons st r ih =>
    obtain ⟨h1, h2⟩ := h
    intro k hk
    simp only [List.length_cons]
    rcases List.mem_cons.1 hk with rfl | hk
    · omega
    · have := ih h2 k hk; omega

/-- popping accepted insertions in reverse order: every pop is accepted -/
theorem Acc.dec {steps : List Nat} {g : Nat} (h : Acc steps g) :
    Dec steps.reverse (g + steps.length) := by
  induction steps using rev_induction generalizing g with
  | nil => trivial
  | append_singleton a st ih =>
    rw [Acc.append] at h
    rw [List.reverse_append, List.reverse_singleton, List.singleton_append]
    refine ⟨by simp; omega, ?_⟩
    have := ih h.1
    simpa [← Nat.add_assoc] using this

/-! ### `insertable` -/

/-- recursive form of `insertable` -/
def insR : Nat → List Nat → List Nat
  | _, [] => []
  | g, st :: r => if st < g then st :: insR (g + 1) r else insR g r

theorem insertable_eq (len : Nat) (l : List Nat) : insertable len l = insR len l := by
  have key : ∀ (l : List Nat) (acc : List Nat) (g : Nat),
      (l.foldl (fun (acc : List Nat × Nat) st =>
        if st < acc.2 then (acc.1 ++ [st], acc.2 + 1) else acc) (acc, g)).1 = acc ++ insR g l := by
    intro l
    induction l with
    | nil => intro acc g; simp [insR]
    | cons st r ih =>
      intro acc g
      rw [List.foldl_cons]
      by_cases h : st < g
      · simp only [h, if_true, insR]
        rw [ih]; simp
      · simp only [h, if_false, insR]
        rw [ih]
  have := key l [] len
  simpa [insertable] using this

theorem insR_acc (g : Nat) (l : List Nat) : Acc (insR g l) g := by
  induction l generalizing g with
  | nil => trivial
  | cons st r ih =>
    unfold insR
    split
    next h => exact ⟨h, ih _⟩
    next h => exact ih _

theorem insR_sublist (g : Nat) (l : List Nat) : (insR g l).Sublist l := by
  induction l generalizing g with
  | nil => exact List.Sublist.refl _
  | cons st r ih =>
    unfold insR
    split
    · exact (ih _).cons_cons _
    · exact (ih _).cons _

/-- every requested step below the current length is inserted -/
theorem mem_insR_of_lt (g : Nat) (l : List Nat) (k : Nat) (hk : k ∈ l) (hlt : k < g) :
    k ∈ insR g l := by
  induction l generalizing g with
  | nil => simp at hk
  | cons st r ih =>
    unfold insR
    rcases List.mem_cons.1 hk with rfl | hk
    · simp [hlt]
    · split
      · exact List.mem_cons_of_mem _ (ih _ hk (by omega))
      · exact ih _ hk hlt

theorem insertable_acc (len : Nat) (l : List Nat) : Acc (insertable len l) len := by
  rw [insertable_eq]; exact insR_acc _ _

theorem insertable_sublist (len : Nat) (l : List Nat) : (insertable len l).Sublist l := by
  rw [insertable_eq]; exact insR_sublist _ _

/-! ### `newSteps` -/

theorem newSteps_spec (old : List Nat) (l acc : List Nat) (hn : acc.Nodup)
    (hd : ∀ k ∈ acc, k ∉ old) :
    (newSteps old l acc).Nodup ∧ (∀ k ∈ newSteps old l acc, k ∉ old) ∧
    (∀ k, k ∈ newSteps old l acc ↔ k ∈ acc ∨ (k ∈ l ∧ k ∉ old)) := by
  induction l generalizing acc with
  | nil => simp [newSteps, hn]; exact hd
  | cons x xs ih =>
    unfold newSteps
    split
    next h =>
      obtain ⟨i1, i2, i3⟩ := ih acc hn hd
      refine ⟨i1, i2, ?_⟩
      intro k
      rw [i3]
      simp only [Bool.or_eq_true, List.contains_iff_mem] at h
      constructor
      · rintro (h' | h')
        · exact Or.inl h'
        · exact Or.inr ⟨List.mem_cons_of_mem _ h'.1, h'.2⟩
      · rintro (h' | ⟨h', h''⟩)
        · exact Or.inl h'
        · rcases List.mem_cons.1 h' with rfl | h'
          · rcases h with h | h
            · exact absurd h h''
            · exact Or.inl h
          · exact Or.inr ⟨h', h''⟩
    next h =>
      simp only [Bool.or_eq_true, List.contains_iff_mem, not_or] at h
      have hn' : (acc ++ [x]).Nodup := by
        rw [List.nodup_append]
        refine ⟨hn, by simp, ?_⟩
        intro a ha b hb
        simp at hb
        subst hb
        intro hab
        subst hab
        exact h.2 ha
      have hd' : ∀ k ∈ acc ++ [x], k ∉ old := by
        intro k hk
        rcases List.mem_append.1 hk with hk | hk
        · exact hd k hk
        · simp at hk; subst hk; exact h.1
      obtain ⟨i1, i2, i3⟩ := ih (acc ++ [x]) hn' hd'
      refine ⟨i1, i2, ?_⟩
      intro k
      rw [i3]
      simp only [List.mem_append, List.mem_cons, List.not_mem_nil, or_false]
      constructor
      · rintro ((h' | rfl) | h')
        · exact Or.inl h'
        · exact Or.inr ⟨Or.inl rfl, h.1⟩
        · exact Or.inr ⟨Or.inr h'.1, h'.2⟩
      · rintro (h' | ⟨rfl | h', h''⟩)
        · exact Or.inl (Or.inl h')
        · exact Or.inl (Or.inr rfl)
        · exact Or.inr ⟨h', h''⟩

/-! ### the list of inserted steps of `insertAbs` -/

/-- the steps `insert_absence_time_list(L)` actually inserts into logs of length `len` -/
def insOf (old L : List Nat) (len : Nat) : List Nat :=
  insertable len (sortBy (fun a b => decide (a ≤ b)) (newSteps old L []))

theorem leNat_total : Sort.Total (fun a b : Nat => decide (a ≤ b)) := by
  intro a b; simp; omega

theorem leNat_trans : Sort.Trans (fun a b : Nat => decide (a ≤ b)) := by
  intro a b c; simp; omega

theorem sorted_new_pairwise (old L : List Nat) :
    (sortBy (fun a b => decide (a ≤ b)) (newSteps old L [])).Pairwise (· < ·) := by
  have h1 := Sort.sortBy_pairwise leNat_total leNat_trans (newSteps old L [])
  have h2 : (sortBy (fun a b => decide (a ≤ b)) (newSteps old L [])).Nodup :=
    Sort.nodup_sortBy.2 (newSteps_spec old L [] List.nodup_nil (by simp)).1
  have h3 := List.Pairwise.and h1 h2
  refine h3.imp ?_
  intro a b hab
  simp at hab
  omega

theorem insOf_pairwise (old L : List Nat) (len : Nat) : (insOf old L len).Pairwise (· < ·) :=
  (sorted_new_pairwise old L).sublist (insertable_sublist _ _)

theorem insOf_nodup (old L : List Nat) (len : Nat) : (insOf old L len).Nodup :=
  (insOf_pairwise old L len).imp (fun h => Nat.ne_of_lt h)

theorem insOf_acc (old L : List Nat) (len : Nat) : Acc (insOf old L len) len :=
  insertable_acc _ _

theorem mem_insOf {old L : List Nat} {len k : Nat} (h : k ∈ insOf old L len) :
    k ∈ L ∧ k ∉ old := by
  have h1 := (insertable_sublist _ _).subset h
  rw [Sort.mem_sortBy, (newSteps_spec old L [] List.nodup_nil (by simp)).2.2] at h1
  simpa using h1

theorem mem_insOf_of_lt {old L : List Nat} {len k : Nat} (h1 : k ∈ L) (h2 : k ∉ old)
    (h3 : k < len) : k ∈ insOf old L len := by
  unfold insOf
  rw [insertable_eq]
  apply mem_insR_of_lt _ _ _ _ h3
  rw [Sort.mem_sortBy, (newSteps_spec old L [] List.nodup_nil (by simp)).2.2]
  exact Or.inr ⟨h1, h2⟩

theorem insOf_lt (old L : List Nat) (len : Nat) :
    ∀ k ∈ insOf old L len, k < len + (insOf old L len).length :=
  (insOf_acc old L len).lt

/-! ### round trip on one log -/

/-- popping, last first, what `insFold` inserted gives back the log -/
theorem foldl_delAt_insFold (mk : Nat → List α → α) (steps : List Nat) (log : List α)
    (h : Acc steps log.length) :
    steps.reverse.foldl delAt (insFold mk log steps) = log := by
  induction steps using rev_induction generalizing log with
  | nil => rfl
  | append_singleton a st ih =>
    rw [Acc.append] at h
    rw [List.reverse_append, List.reverse_singleton, List.singleton_append, List.foldl_cons,
      insFold_append, insFold_cons, insFold_nil, delAt_insAt, ih _ h.1]
    rw [length_insFold]; omega

/-- **Round trip on one log.**  Insert accepted steps (guard = the log's own length, or the
equally long guard log), then pop the same steps with the grown guard: the log is back. -/
theorem popBy_insSteps (mk : Nat → List α → α) (steps : List Nat) (log : List α)
    (h : Acc steps log.length) :
    popBy steps (log.length + steps.length) (insSteps steps log.length mk log) = log := by
  rw [insSteps_eq_insFold mk steps _ log h, popBy, popSteps_eq, foldl_popF _ _ _ h.dec]
  exact foldl_delAt_insFold mk steps log h

/-! ### the value found at the inserted steps -/

/-- later (larger, accepted) insertions do not touch the entries before them -/
theorem insFold_prefix (mk : Nat → List α → α) (steps : List Nat) (log : List α)
    (h : Acc steps log.length) (i : Nat) (hi : ∀ st ∈ steps, i < st) :
    (insFold mk log steps)[i]? = log[i]? := by
  induction steps generalizing log with
  | nil => rfl
  | cons st r ih =>
    obtain ⟨h1, h2⟩ := h
    rw [insFold_cons, ih]
    · rw [getElem?_insAt _ _ _ (by omega), if_pos (hi st (by simp))]
    · simpa using h2
    · intro s hs; exact hi s (List.mem_cons_of_mem _ hs)

/-- **What is found at an inserted step.**  For ascending accepted steps and `k` one of them,
there is the log `log'` "at the time of the insertion" with: entry `k` of the result is
`mk k log'`; the result agrees with `log'` before `k`; and, if `k + 1` is not inserted as well,
entry `k + 1` of the result is entry `k` of `log'` (the old "after" neighbour). -/
theorem insFold_spec (mk : Nat → List α → α) (steps : List Nat) (log : List α)
    (hp : steps.Pairwise (· < ·)) (h : Acc steps log.length) (k : Nat) (hk : k ∈ steps) :
    ∃ log' : List α, k < log'.length ∧
      (insFold mk log steps)[k]? = some (mk k log') ∧
      (∀ i, i < k → (insFold mk log steps)[i]? = log'[i]?) ∧
      (k + 1 ∉ steps → (insFold mk log steps)[k + 1]? = log'[k]?) := by
  induction steps generalizing log with
  | nil => simp at hk
  | cons st r ih =>
    obtain ⟨h1, h2⟩ := h
    rw [List.pairwise_cons] at hp
    have h2' : Acc r (insAt log st (mk st log)).length := by simpa using h2
    rcases List.mem_cons.1 hk with rfl | hk
    · refine ⟨log, h1, ?_, ?_, ?_⟩
      · rw [insFold_cons, insFold_prefix mk r _ h2' k hp.1, getElem?_insAt _ _ _ (by omega)]
        simp
      · intro i hi
        rw [insFold_cons, insFold_prefix mk r _ h2' i (fun s hs => by have := hp.1 s hs; omega),
          getElem?_insAt _ _ _ (by omega), if_pos hi]
      · intro hn
        rw [insFold_cons, insFold_prefix mk r _ h2' (k + 1), getElem?_insAt _ _ _ (by omega),
          if_neg (by omega), if_neg (by omega)]
        · simp
        · intro s hs
          have := hp.1 s hs
          have : s ≠ k + 1 := by rintro rfl; exact hn (List.mem_cons_of_mem _ hs)
          omega
    · obtain ⟨log', e1, e2, e3, e4⟩ := ih _ hp.2 h2' hk
      refine ⟨log', e1, ?_, ?_, ?_⟩
      · rw [insFold_cons]; exact e2
      · rw [insFold_cons]; exact e3
      · intro hn
        rw [insFold_cons]
        exact e4 (fun hc => hn (List.mem_cons_of_mem _ hc))

/-- constant inserted value -/
theorem insFold_const (c : α) (steps : List Nat) (log : List α)
    (hp : steps.Pairwise (· < ·)) (h : Acc steps log.length) (k : Nat) (hk : k ∈ steps) :
    (insFold (fun _ _ => c) log steps)[k]? = some c := by
  obtain ⟨log', _, e2, _, _⟩ := insFold_spec (fun _ _ => c) steps log hp h k hk
  exact e2

/-- copied inserted value: entry `k` is entry `k - 1` (`zero` at step 0) -/
theorem insFold_copyPrev (zero : α) (steps : List Nat) (log : List α)
    (hp : steps.Pairwise (· < ·)) (h : Acc steps log.length) (k : Nat) (hk : k ∈ steps) :
    (insFold (copyPrev zero) log steps)[k]? =
      if k = 0 then some zero else (insFold (copyPrev zero) log steps)[k - 1]? := by
  obtain ⟨log', e1, e2, e3, _⟩ := insFold_spec (copyPrev zero) steps log hp h k hk
  rw [e2]
  by_cases hk0 : k = 0
  · simp [copyPrev, hk0]
  · rw [if_neg hk0, e3 (k - 1) (by omega)]
    have : k - 1 < log'.length := by omega
    simp [copyPrev, hk0, List.getElem?_eq_getElem this]

/-! ### the same, for `insSteps` with the guard of an equally long log -/

section guarded
variable {β : Type}

theorem insSteps_const (c : α) (steps : List Nat) (glen : Nat) (log : List α) (n : Nat)
    (hg : glen = n) (hl : log.length = n) (hp : steps.Pairwise (· < ·)) (h : Acc steps n)
    (k : Nat) (hk : k ∈ steps) : (insSteps steps glen (fun _ _ => c) log)[k]? = some c := by
  subst hg
  rw [insSteps_eq_insFold _ _ _ _ h]
  exact insFold_const c steps log hp (hl ▸ h) k hk

theorem insSteps_copyPrev (zero : α) (steps : List Nat) (glen : Nat) (log : List α) (n : Nat)
    (hg : glen = n) (hl : log.length = n) (hp : steps.Pairwise (· < ·)) (h : Acc steps n)
    (k : Nat) (hk : k ∈ steps) :
    (insSteps steps glen (copyPrev zero) log)[k]? =
      if k = 0 then some zero else (insSteps steps glen (copyPrev zero) log)[k - 1]? := by
  subst hg
  rw [insSteps_eq_insFold _ _ _ _ h]
  exact insFold_copyPrev zero steps log hp (hl ▸ h) k hk

/-- task state log: the inserted entry is NONE at step 0 and `insStateT before after` otherwise,
`before`/`after` being the neighbours in the result (when step `k + 1` is not inserted too) -/
theorem insSteps_mkStateT (steps : List Nat) (log : List TS)
    (hp : steps.Pairwise (· < ·)) (h : Acc steps log.length)
    (k : Nat) (hk : k ∈ steps) (hk1 : k + 1 ∉ steps) :
    (insSteps steps log.length mkStateT log)[k]? =
      some (if k = 0 then TS.none else
        insStateT (((insSteps steps log.length mkStateT log)[k - 1]?).getD .none)
          (((insSteps steps log.length mkStateT log)[k + 1]?).getD .none)) := by
  rw [insSteps_eq_insFold _ _ _ _ h]
  obtain ⟨log', _, e2, e3, e4⟩ := insFold_spec mkStateT steps log hp h k hk
  rw [e2, e4 hk1]
  by_cases hk0 : k = 0
  · simp [mkStateT, hk0]
  · rw [e3 (k - 1) (by omega)]
    simp [mkStateT, hk0]

theorem insSteps_mkStateC (steps : List Nat) (log : List CS)
    (hp : steps.Pairwise (· < ·)) (h : Acc steps log.length)
    (k : Nat) (hk : k ∈ steps) (hk1 : k + 1 ∉ steps) :
    (insSteps steps log.length mkStateC log)[k]? =
      some (if k = 0 then CS.none else
        insStateC (((insSteps steps log.length mkStateC log)[k - 1]?).getD .none)
          (((insSteps steps log.length mkStateC log)[k + 1]?).getD .none)) := by
  rw [insSteps_eq_insFold _ _ _ _ h]
  obtain ⟨log', _, e2, e3, e4⟩ := insFold_spec mkStateC steps log hp h k hk
  rw [e2, e4 hk1]
  by_cases hk0 : k = 0
  · simp [mkStateC, hk0]
  · rw [e3 (k - 1) (by omega)]
    simp [mkStateC, hk0]

/-- a single accepted step: `insSteps` is one `insAt` -/
theorem insSteps_single (mk : Nat → List α → α) (k glen : Nat) (log : List α) (hk : k < glen) :
    insSteps [k] glen mk log = insAt log k (mk k log) := by
  simp [insSteps, hk]

theorem length_insSteps' (mk : Nat → List α → α) (steps : List Nat) (glen : Nat) (log : List α)
    (n : Nat) (hg : glen = n) (hl : log.length = n) (h : Acc steps n) :
    (insSteps steps glen mk log).length = n + steps.length := by
  subst hg
  rw [length_insSteps mk steps _ log h, hl]

theorem popBy_insSteps' (mk : Nat → List α → α) (mk' : Nat → List β → β) (steps : List Nat)
    (glog : List β) (log : List α) (n : Nat) (hg : glog.length = n) (hl : log.length = n)
    (h : Acc steps n) :
    popBy steps (insSteps steps glog.length mk' glog).length (insSteps steps glog.length mk log)
      = log := by
  subst hg
  rw [length_insSteps mk' steps _ glog h, ← hl]
  exact popBy_insSteps mk steps log (hl ▸ h)

end guarded

/-! ### round trip on all logs -/

/-- removing exactly the accepted steps that were inserted gives back all 17 logs (in-range
objects by `popBy_insSteps`; out-of-range indices are touched by neither function) -/
theorem removeLogs_insertLogs {m : Model} {s : St} (h : Aligned m s) (steps : List Nat)
    (hacc : Acc steps s.time) : removeLogs m steps (insertLogs m steps s.logs) = s.logs := by
  obtain ⟨h1, h2, h3, h4, h5, h6, h7, h8, h9, h10, h11, h12, h13, h14, h15, h16, h17⟩ := h
  rcases hs : s.logs with
    ⟨a1, a2, a3, a4, a5, a6, a7, a8, a9, a10, a11, a12, a13, a14, a15, a16, a17⟩
  simp only [hs] at *
  simp only [removeLogs, insertLogs, Logs.mk.injEq]
  refine ⟨?_, ?_, ?_, ?_, ?_, ?_, ?_, ?_, ?_, ?_, ?_, ?_, ?_, ?_, ?_, ?_, ?_⟩
  all_goals first
    | (funext i
       split
       · rename_i hi
         apply popBy_insSteps' (n := s.time) <;> first | exact hacc | simp [*]
       · rfl)
    | (apply popBy_insSteps' (n := s.time) <;> first | exact hacc | simp [*])

theorem insOf_single (old : List Nat) (k len : Nat) (hn : k ∉ old) (hk : k < len) :
    insOf old [k] len = [k] := by
  simp [insOf, newSteps, sortBy, insertBy, insertable, hn, hk]

end PDesy.Edit
