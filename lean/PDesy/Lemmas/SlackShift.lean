/-
  PDesy.Lemmas.SlackShift — how does the total slack `lst − est` of `update_PERT_data` change
  when the same remaining work is looked at `d` steps later, on GENERAL acyclic networks (any mix of
  FS / SS / FF / SF links, negative remaining work of overshooting tasks included)?

  History.  The backward pass used to test "`lft` not calculated yet" by `pre_lft < 0`.  A task that
  is WORKING behind a closed FF / SF finish gate overshoots (`remaining_work_amount < 0`) and can get
  a genuinely negative `lft`, which any later relaxation then overwrote — at a small clock only, so
  the slack depended on the absolute time.  The models `cxM`, `cxM4`, `cxR` of Part 1 were
  counterexamples to C10 clause 3 under TSLACK (replayed on the Python code).  The code now remembers
  the tasks it has set in the current pass (`calculated_task_set`; `Pert.done` in the model), the
  test is `pv not in calculated_task_set or pre_lft >= lft`, and the backward pass contains no
  comparison with an absolute number any more.

  Answer now: the slack of EVERY task changes by the SAME constant `(cpl' − cpl) − d`
  (`pert_slack_shift_dag`), so `sort_task_list(TSLACK)` orders the tasks in the same way.  The
  constant is `0` when no remaining work is negative (`pert_slack_shift_nonneg`); it need not be `0`
  otherwise (`cxR_slack`: a tail task all of whose forward relaxations are rejected keeps the `eft`
  of an earlier `update_PERT_data`, and that stale `eft` is the critical path length).

  Part 1 (`cxM` …): the concrete models of the former counterexamples, the run states at which
  the comparison of `sort_task_list(TSLACK)` used to differ (`cx_slack`, `cx_order`: equal now) and
  the states of `cxR` at which the slacks differ by the constant `−1` (`cxR_slack`).

  Part 2: forward pass — `pertFwd_shift` (no negative remaining work: `est`, `eft` exactly `d`
  later); backward pass — `brel_step`, `pertBwd_shift`, `pert_lst_shift`: on a consistent acyclic
  network with ANY link kinds, ANY remaining work and ANY old PERT data, `lst` and `lft` of two
  computations on the same remaining work differ by `cpl' − cpl`.  `pert_slack_shift_dag`,
  `pert_shift_nonneg`, `pert_slack_shift_nonneg`.

  Part 3: the final assembly of `PDesy.Lemmas.Removal` once more with that lemma: `removal_dag`
  (C10.3 for TSLACK on any consistent acyclic network, no further condition), and its former partial
  forms `removal_nonneg`, `removal_noGate` as corollaries.
-/
import PDesy.Lemmas.Removal
import PDesy.Lemmas.PertIdem

namespace PDesy
namespace SlackShift

open Idem PertSpec Removal PertIdem Edit

/-! ## Part 1 — the counterexample model -/

/-- `Removal.ModelOK` with the restriction on TSLACK as a parameter: `slack : rule = .tslack → S m`.
`ModelOK m rule` is `ModelOKw SlackOK m rule`. -/
structure ModelOKw (S : Model → Prop) (m : Model) (rule : TaskRule) : Prop where
  noInd : NoIndAbs m
  compNoAuto : CompNoAuto m
  wf : WF m
  notFifo : rule ≠ .fifo
  slack : rule = .tslack → S m

theorem modelOKw_of (m : Model) (rule : TaskRule) (h : ModelOK m rule) : ModelOKw SlackOK m rule :=
  ⟨h.noInd, h.compNoAuto, h.wf, h.notFifo, h.slack⟩

/-- `ModelOK` (TSLACK on finish-to-start networks only) is the special case of
`ModelOKw (GraphOK ∧ Acyclic)` -/
theorem modelOKw_dag_of (m : Model) (rule : TaskRule) (h : ModelOK m rule) :
    ModelOKw (fun m => GraphOK m ∧ Acyclic m) m rule :=
  ⟨h.noInd, h.compNoAuto, h.wf, h.notFifo, fun ht => (h.slack ht).2⟩

/-- Six tasks, two workers, no component, no workplace.

* `0 = K` work 1; `1 = G` work 2 and `2 = H` work 1, both finish-to-start after `K`;
* `3 = P` work 1 with a finish-to-finish link from `G` (`P` may start at once but cannot finish
  before `G` has finished);
* `4 = O1` automatic, work 3, start-to-start after `P`; `5 = O2` automatic, work 1,
  finish-to-start after `P`;
* worker `0` has skill 1 for `K`, `G`, `H`; worker `1` has skill 3 for `P`.

`P` is finished after one step of work (1 − 3 = −2) but stays WORKING behind its finish gate and
overshoots by 3 per step.  (Former counterexample, absence list `[0]`.) -/
def cxM : Model where
  nT := 6
  nW := 2
  nF := 0
  nTeam := 1
  nWp := 0
  nC := 0
  task := fun t =>
    match t with
    | 0 => { name := 0, work := 1, outputs := [(1, .fs), (2, .fs)] }
    | 1 => { name := 1, work := 2, inputs := [(0, .fs)], outputs := [(3, .ff)] }
    | 2 => { name := 2, work := 1, inputs := [(0, .fs)] }
    | 3 => { name := 3, work := 1, inputs := [(1, .ff)], outputs := [(4, .ss), (5, .fs)] }
    | 4 => { name := 4, work := 3, isAuto := true, inputs := [(3, .ss)] }
    | _ => { name := 5, work := 1, isAuto := true, inputs := [(3, .fs)] }
  worker := fun w =>
    match w with
    | 0 => { team := 0, skills := [(0, 1), (1, 1), (2, 1)] }
    | _ => { team := 0, skills := [(3, 3)] }
  fac := fun _ => {}
  team := fun _ => { workers := [0, 1], targets := [0, 1, 2, 3, 4, 5] }
  wp := fun _ => {}
  comp := fun _ => {}

/-- the same with skill 4 for `P` (overshoot 4 per step): the stored value is `−2`, not the
marker `−1` itself -/
def cxM4 : Model :=
  { cxM with worker := fun w =>
      match w with
      | 0 => { team := 0, skills := [(0, 1), (1, 1), (2, 1)] }
      | _ => { team := 0, skills := [(3, 4)] } }

theorem cxM_cases {t : Nat} (ht : t < cxM.nT) : t = 0 ∨ t = 1 ∨ t = 2 ∨ t = 3 ∨ t = 4 ∨ t = 5 := by
  simp only [cxM] at ht; omega

theorem cxM_wf : WF cxM := by
  intro t ht
  rcases cxM_cases ht with rfl | rfl | rfl | rfl | rfl | rfl <;> decide +kernel

theorem cxM_graphOK : GraphOK cxM := by decide +kernel

theorem cxM_acyclic : Acyclic cxM := by
  refine ⟨id, ?_⟩
  intro t ht
  rcases cxM_cases ht with rfl | rfl | rfl | rfl | rfl | rfl <;> decide +kernel

theorem cxM_workOK : WorkOK cxM := by
  intro t ht
  rcases cxM_cases ht with rfl | rfl | rfl | rfl | rfl | rfl <;> decide +kernel

/-- every side condition of `C10_removal` except "TSLACK only on finish-to-start networks", with
"consistent acyclic network" in its place -/
theorem cxM_ok (rule : TaskRule) (h : rule ≠ .fifo) :
    ModelOKw (fun m => GraphOK m ∧ Acyclic m) cxM rule where
  noInd := ⟨fun w hw => by
      have : w = 0 ∨ w = 1 := by simp only [cxM] at hw; omega
      rcases this with rfl | rfl <;> rfl, fun _ _ => rfl⟩
  compNoAuto := fun c t ht => by simp [cxM] at ht
  wf := cxM_wf
  notFifo := h
  slack := fun _ => ⟨cxM_graphOK, cxM_acyclic⟩

theorem cxM4_ok (rule : TaskRule) (h : rule ≠ .fifo) :
    ModelOKw (fun m => GraphOK m ∧ Acyclic m) cxM4 rule where
  noInd := ⟨fun w hw => by
      have : w = 0 ∨ w = 1 := by simp only [cxM4, cxM] at hw; omega
      rcases this with rfl | rfl <;> rfl, fun _ _ => rfl⟩
  compNoAuto := fun c t ht => by simp [cxM4, cxM] at ht
  wf := cxM_wf
  notFifo := h
  slack := fun _ => ⟨cxM_graphOK, cxM_acyclic⟩

/-- **All progress rates ≤ 1.**  Eight tasks, three workers (each task has at most one skilled
worker, every skill is ≤ 1, automatic tasks progress by 1 per step):

* `0 = K` work 1/2; `1 = g` work 2 and `2 = h` work 2, both finish-to-start after `K`;
* `3 = pv` work 1/4, finish-to-finish after `g`;
* `4 = o` work 0, finish-to-finish after `pv`;
* `5 = o2` automatic, work 1, finish-to-start after `pv`; `7 = o3` automatic, work 1,
  finish-to-start after `o2`;
* `6 = q` automatic, work 10, finish-to-start after `o`;
* worker `0`: skill 1/2 for `K`, 1 for `g` and `h`; worker `1`: skill 1 for `pv`; worker `2`:
  skill 1/8 for `o`.

`pv` and `o` overshoot (by 1 and by 1/8 per step) behind their finish gates.  The FS relaxation
`o → q` of the forward pass is then rejected and the tail `q` keeps the `eft` of the previous
`update_PERT_data`, so that `lst(q) < est(q)`; `lft(pv) = lst(o) + rem(pv)` along the FF link
`pv → o` is `−1/8` at time 1 in the run without absence and `7/8` at time 2 in the run with the
absence step 0 (before the repair of the backward pass the first was misread as "unset").
(Former counterexample, absence list `[0]`.) -/
def cxR : Model where
  nT := 8
  nW := 3
  nF := 0
  nTeam := 1
  nWp := 0
  nC := 0
  task := fun t =>
    match t with
    | 0 => { name := 0, work := 1/2, outputs := [(1, .fs), (2, .fs)] }
    | 1 => { name := 1, work := 2, inputs := [(0, .fs)], outputs := [(3, .ff)] }
    | 2 => { name := 2, work := 2, inputs := [(0, .fs)] }
    | 3 => { name := 3, work := 1/4, inputs := [(1, .ff)], outputs := [(4, .ff), (5, .fs)] }
    | 4 => { name := 4, work := 0, inputs := [(3, .ff)], outputs := [(6, .fs)] }
    | 5 => { name := 5, work := 1, isAuto := true, inputs := [(3, .fs)], outputs := [(7, .fs)] }
    | 6 => { name := 6, work := 10, isAuto := true, inputs := [(4, .fs)] }
    | _ => { name := 7, work := 1, isAuto := true, inputs := [(5, .fs)] }
  worker := fun w =>
    match w with
    | 0 => { team := 0, skills := [(0, 1/2), (1, 1), (2, 1)] }
    | 1 => { team := 0, skills := [(3, 1)] }
    | _ => { team := 0, skills := [(4, 1/8)] }
  fac := fun _ => {}
  team := fun _ => { workers := [0, 1, 2], targets := [0, 1, 2, 3, 4, 5, 6, 7] }
  wp := fun _ => {}
  comp := fun _ => {}

theorem cxR_cases {t : Nat} (ht : t < cxR.nT) :
    t = 0 ∨ t = 1 ∨ t = 2 ∨ t = 3 ∨ t = 4 ∨ t = 5 ∨ t = 6 ∨ t = 7 := by
  simp only [cxR] at ht; omega

theorem cxR_wf : WF cxR := by
  intro t ht
  rcases cxR_cases ht with rfl | rfl | rfl | rfl | rfl | rfl | rfl | rfl <;> decide +kernel

theorem cxR_acyclic : Acyclic cxR := by
  refine ⟨id, ?_⟩
  intro t ht
  rcases cxR_cases ht with rfl | rfl | rfl | rfl | rfl | rfl | rfl | rfl <;> decide +kernel

theorem cxR_graphOK : GraphOK cxR := by decide +kernel

theorem cxR_workOK : WorkOK cxR := by
  intro t ht
  rcases cxR_cases ht with rfl | rfl | rfl | rfl | rfl | rfl | rfl | rfl <;> decide +kernel

theorem cxR_ok (rule : TaskRule) (h : rule ≠ .fifo) :
    ModelOKw (fun m => GraphOK m ∧ Acyclic m) cxR rule where
  noInd := ⟨fun w hw => by
      have : w = 0 ∨ w = 1 ∨ w = 2 := by simp only [cxR] at hw; omega
      rcases this with rfl | rfl | rfl <;> rfl, fun _ _ => rfl⟩
  compNoAuto := fun c t ht => by simp [cxR] at ht
  wf := cxR_wf
  notFifo := h
  slack := fun _ => ⟨cxR_graphOK, cxR_acyclic⟩

/-- every skill of every worker of `cxR` is at most 1, and no task has two skilled workers -/
theorem cxR_rates :
    (∀ w ∈ [0, 1, 2], ∀ e ∈ (cxR.worker w).skills, e.2 ≤ 1) ∧
    (∀ t ∈ List.range 8, (([0, 1, 2] : List Nat).filter
      (fun w => hasSkill (cxR.worker w).skills (cxR.task t).name)).length ≤ 1) := by
  decide +kernel

/-- parameters of run A (absence step 0) and run B (no absence), rule TSLACK, flag off -/
def pA : Params := { absence := [0], maxTime := 40 }
def pB : Params := { absence := [], maxTime := 40 }

/-- run B at the top of iteration 1 (one working step done) -/
def b1 : St := stepBody cxM pB (updated cxM (enter cxM pB St.fresh))

/-- run A at the top of iteration 2 (the absence step 0 and one working step done) -/
def a2 : St := stepBody cxM pA (updated cxM (stepBody cxM pA (updated cxM (enter cxM pA St.fresh))))

/-- the two states are related as in `Removal.Rel`: clocks one apart, and after
`check_state(FINISHED)`, … of `__update` the same task states and the same remaining work
`[0, 2, 1, −2, 3, 1]` (`P` has overshot, `K` is FINISHED, `G`, `H`, `O1` are READY) -/
theorem cx_states :
    a2.time = b1.time + 1 ∧ b1.time = 1 ∧
    (List.range 6).map (upd0 cxM a2.live).rem = [0, 2, 1, -2, 3, 1] ∧
    (List.range 6).map (upd0 cxM b1.live).rem = [0, 2, 1, -2, 3, 1] ∧
    (List.range 6).map (upd0 cxM a2.live).tstate = [.finished, .ready, .ready, .working, .ready, .none] ∧
    (List.range 6).map (upd0 cxM b1.live).tstate = [.finished, .ready, .ready, .working, .ready, .none] := by
  decide +kernel

/-- total slack of every task after `__update` -/
def slacks (l : Live) : List Rat := (List.range 6).map fun t => l.lst t - l.est t

/-- **the slack on these reachable states, after the repair of the backward pass**: run B
(time 1) and run A (time 2, same remaining work) give the same slacks `[0, 0, 2, 0, 0, 2]`; every
`lft` of run A is that of run B plus 1, the negative `lft(P) = lft(G) = −1` of run B included.
(Before the repair — "not yet set" was tested by `pre_lft < 0` — the value `lft(P) = −1` stored in
run B along the SS link from `O1` was taken for unset and overwritten along the FS link from `O2`:
run B had the slacks `[2, 4, 2, 4, 0, 2]` and the `lft` `[3, 3, 4, 3, 4, 4]`, run A
`[0, 0, 2, 0, 0, 2]` and `[2, 0, 5, 0, 5, 5]`.) -/
theorem cx_slack :
    slacks (update cxM 1 b1.live) = [0, 0, 2, 0, 0, 2] ∧
    slacks (update cxM 2 a2.live) = [0, 0, 2, 0, 0, 2] ∧
    (List.range 6).map (update cxM 1 b1.live).lft = [1, -1, 4, -1, 4, 4] ∧
    (List.range 6).map (update cxM 2 a2.live).lft = [2, 0, 5, 0, 5, 5] := by
  decide +kernel

/-- the same with `pert` applied to ONE state at two times (the form of
`Removal.pert_slack_shift`): `l' = l`, `time = 1`, `d = 1` — equal now (was `≠`) -/
theorem cx_slack_same_state :
    (pert cxM (1 + 1) (upd0 cxM b1.live)).lst 1 - (pert cxM (1 + 1) (upd0 cxM b1.live)).est 1 =
      (pert cxM 1 (upd0 cxM b1.live)).lst 1 - (pert cxM 1 (upd0 cxM b1.live)).est 1 := by
  decide +kernel

/-- **the order of `sort_task_list(TSLACK)` is the same**: the READY / WORKING tasks
`G, H, P, O1` are sorted `G, P, O1, H` in both runs (before the repair run B sorted them
`O1, H, G, P` and gave the free worker `0` to `H` instead of `G`). -/
theorem cx_order :
    sortTasks cxM (update cxM 1 b1.live) b1.logs .tslack [1, 2, 3, 4] = [1, 3, 4, 2] ∧
    sortTasks cxM (update cxM 2 a2.live) a2.logs .tslack [1, 2, 3, 4] = [1, 3, 4, 2] := by
  decide +kernel

/-- `cxR`: run B (no absence) at the top of iteration 1, run A (absence step 1) at the top of
iteration 2 — one working step done in both, and in run A one absence step after it -/
def pAR : Params := { absence := [1], maxTime := 80 }
def pBR : Params := { absence := [], maxTime := 80 }
def bR : St := stepBody cxR pBR (updated cxR (enter cxR pBR St.fresh))
def aR : St := stepBody cxR pAR (updated cxR (stepBody cxR pAR (updated cxR (enter cxR pAR St.fresh))))

def slacks8 (l : Live) : List Rat := (List.range 8).map fun t => l.lst t - l.est t

/-- **on reachable states the slack is shift invariant only up to a constant.**  Same task states,
same remaining work `[0, 2, 2, −3/4, −1/8, 1, 10, 1]`, clocks 1 and 2.  The FS relaxation `o → q` of
the forward pass is rejected in both (`o` has overshot), the tail `q` keeps `eft = 21/2` from the
`update_PERT_data` at time 0, which is the critical path length in both runs; so every `lst` is the
same in both runs, every `est` is 1 later in run A, and every slack of run A is that of run B
minus 1.  The order of `sort_task_list(TSLACK)` is the same. -/
theorem cxR_slack :
    aR.time = bR.time + 1 ∧ bR.time = 1 ∧
    (List.range 8).map (upd0 cxR aR.live).rem = [0, 2, 2, -3/4, -1/8, 1, 10, 1] ∧
    (List.range 8).map (upd0 cxR bR.live).rem = [0, 2, 2, -3/4, -1/8, 1, 10, 1] ∧
    (update cxR 1 bR.live).cpl = 21/2 ∧ (update cxR 2 aR.live).cpl = 21/2 ∧
    slacks8 (update cxR 1 bR.live) = [-3/8, -3/8, 15/2, -3/8, -3/8, 15/2, -1/2, 15/2] ∧
    slacks8 (update cxR 2 aR.live) = [-11/8, -11/8, 13/2, -11/8, -11/8, 13/2, -3/2, 13/2] ∧
    sortTasks cxR (update cxR 1 bR.live) bR.logs .tslack [1, 2, 3, 4] = [1, 3, 4, 2] ∧
    sortTasks cxR (update cxR 2 aR.live) aR.logs .tslack [1, 2, 3, 4] = [1, 3, 4, 2] := by
  decide +kernel

/-- the same with `pert` applied to ONE state at two times: the slack of task `K` is `−3/8` at
time 1 and `−11/8` at time 2 -/
theorem cxR_slack_same_state :
    (pert cxR (1 + 1) (upd0 cxR bR.live)).lst 0 - (pert cxR (1 + 1) (upd0 cxR bR.live)).est 0 ≠
      (pert cxR 1 (upd0 cxR bR.live)).lst 0 - (pert cxR 1 (upd0 cxR bR.live)).est 0 := by
  decide +kernel

/-! ## Part 2 — general link kinds: the slack is shift invariant up to one constant

Forward pass: `est` and `eft` are `d` later (`pertFwd_shift`; the old `eft` is forgotten,
`pertFwd_norm`), every `est` is at least the clock (`pertFwd_lo`), `est + rem ≤ eft`
(`pertFwd_span`) and the final `est` satisfies every edge inequality (`pertFwd_edge`).
Backward pass: the relation `BRel c` (same `calculated_task_set` in both tables, the tasks in it
hold values `c` apart) is preserved by every relaxation out of a task whose values are `c` apart
(`brel_step`: the test `pv not in calculated_task_set or pre_lft >= lft` takes the same branch in
both), and the waves reach every task (`bwdLoop_cover`).  Result: `pertBwd_shift`,
`pert_lst_shift` (any remaining work), `pert_slack_shift_dag`, `pert_shift_nonneg`,
`pert_slack_shift_nonneg`. -/

section fwd

/-- `est` never decreases along the forward fold -/
theorem fold_est_mono (l : Live) : ∀ (evs : List Ev) (p : Pert) (j : Nat),
    p.est j ≤ (evs.foldl (evStep l) p).est j := by
  intro evs
  induction evs with
  | nil => intro p j; exact Rat.le_refl
  | cons ev rest ih =>
    intro p j
    rw [List.foldl_cons]
    refine Rat.le_trans ?_ (ih _ j)
    by_cases hacc : Acc l p ev
    · rw [evStep_acc l p ev hacc]
      show p.est j ≤ upd p.est ev.2.1 _ j
      rw [upd_apply]
      split
      · rename_i h; rw [h]; exact hacc
      · exact Rat.le_refl
    · rw [evStep_rej l p ev hacc]; exact Rat.le_refl

/-- a task into which no event of the list leads keeps its `est` -/
theorem fold_est_keep (l : Live) : ∀ (evs : List Ev) (p : Pert) (j : Nat),
    (∀ ev ∈ evs, ev.2.1 ≠ j) → (evs.foldl (evStep l) p).est j = p.est j := by
  intro evs
  induction evs with
  | nil => intro p j _; rfl
  | cons ev rest ih =>
    intro p j h
    rw [List.foldl_cons, ih _ j (fun e he => h e (List.mem_cons_of_mem _ he))]
    have hne : j ≠ ev.2.1 := fun e => h ev (List.mem_cons_self ..) e.symm
    by_cases hacc : Acc l p ev
    · rw [evStep_acc l p ev hacc]
      show upd p.est ev.2.1 _ j = p.est j
      rw [upd_other _ _ _ _ hne]
    · rw [evStep_rej l p ev hacc]

/-- **the final `est` satisfies every edge inequality**: along an event list with the structural
property `SS`, the `est` the pass ends with is, at the target of every event, at least what the
event proposes from the final `est` of its source -/
theorem fold_edge (l : Live) : ∀ (evs : List Ev) (p : Pert), SS evs → (∀ ev ∈ evs, ev.1 ≠ ev.2.1) →
    ∀ ev ∈ evs, (fwdCand l (evs.foldl (evStep l) p) ev.1 ev.2).1 ≤ (evs.foldl (evStep l) p).est ev.2.1 := by
  intro evs
  induction evs with
  | nil => intro p _ _ ev h; simp at h
  | cons ev0 rest ih =>
    intro p hss hns ev hev
    rw [List.foldl_cons]
    by_cases hin : ev ∈ rest
    · exact ih _ (SS_tail hss) (fun e he => hns e (List.mem_cons_of_mem _ he)) ev hin
    · have he0 : ev = ev0 := by
        rcases List.mem_cons.mp hev with h | h
        · exact h
        · exact absurd h hin
      subst he0
      have hne : ev.1 ≠ ev.2.1 := hns ev (List.mem_cons_self ..)
      -- no later event leads into the source
      have hno : ∀ e2 ∈ rest, e2.2.1 ≠ ev.1 := by
        intro e2 he2 heq
        obtain ⟨ys1, ys2, hs⟩ := List.append_of_mem he2
        have := hss (ev :: ys1) e2 ys2 (by rw [hs]; rfl) ev (List.mem_cons_self ..) heq.symm
        exact hin (by rw [hs]; simp [this])
      have hkeep := fold_est_keep l rest (evStep l p ev) ev.1 hno
      have hsrc : (evStep l p ev).est ev.1 = p.est ev.1 := by
        by_cases hacc : Acc l p ev
        · rw [evStep_acc l p ev hacc]
          show upd p.est ev.2.1 _ ev.1 = p.est ev.1
          rw [upd_other _ _ _ _ hne]
        · rw [evStep_rej l p ev hacc]
      rw [cand1_congr l ev.1 ev.2 (hkeep.trans hsrc)]
      refine Rat.le_trans ?_ (fold_est_mono l rest _ ev.2.1)
      by_cases hacc : Acc l p ev
      · rw [evStep_acc l p ev hacc]
        show _ ≤ upd p.est ev.2.1 _ ev.2.1
        rw [upd_same]; exact Rat.le_refl
      · rw [evStep_rej l p ev hacc]
        exact Rat.le_of_lt (Rat.not_le.mp hacc)

end fwd
section cover
variable {m : Model}

theorem wf_of_graphOK (hok : GraphOK m) : WF m := fun t ht =>
  ⟨fun e he => ((hok t ht).1 e he).1, fun e he => ((hok t ht).2 e he).1⟩

/-- on a consistent acyclic graph every output link of every task is relaxed by the forward pass -/
theorem all_fwdEvs (hok : GraphOK m) (hac : Acyclic m) :
    ∀ i, i < m.nT → ∀ e ∈ (m.task i).outputs, (i, e) ∈ fwdEvs m (m.nT + 1) (heads m) := by
  obtain ⟨rk, hrk⟩ := fwdRanked_of hok hac
  have hg := dag_of hok hac
  apply hg.induction
  intro x hx ih e he
  cases hin : (m.task x).inputs with
  | nil =>
    have hh : x ∈ heads m := PertSpec.mem_heads.2 ⟨hx, Gm_nil.2 hin⟩
    have hne : (heads m).isEmpty = false := by
      cases hc : heads m with
      | nil => rw [hc] at hh; simp at hh
      | cons _ _ => rfl
    simp only [fwdEvs, hne]
    apply List.mem_append_left
    exact (mem_waveEvs m _ _).mpr ⟨hh, he⟩
  | cons e0 es =>
    have he0 : e0 ∈ (m.task x).inputs := by rw [hin]; exact List.mem_cons_self ..
    obtain ⟨hp, hout⟩ := (hok x hx).1 e0 he0
    have hmem := ih e0.1 (mem_Gm.2 ⟨e0.2, he0⟩) (x, e0.2) hout
    obtain ⟨pre, ys2, hs⟩ := List.append_of_mem hmem
    have := fwdEvs_after m rk hrk (m.nT + 1) (heads m) 0 (by omega)
      (fun i hi => ⟨(Idem.mem_heads m i hi).1, Nat.zero_le _⟩) pre (e0.1, (x, e0.2)) ys2 hs e he
    rw [hs]
    simp [this]

/-- with no negative remaining work every task that has a predecessor is written by the pass -/
theorem all_written (hok : GraphOK m) (hac : Acyclic m) (l : Live) (time : Rat)
    (hnn : ∀ t, t < m.nT → 0 ≤ l.rem t) :
    ∀ t, t < m.nT → (m.task t).inputs ≠ [] → FwdWrites m l time t := by
  intro t ht hne
  obtain ⟨e0, he0⟩ := List.exists_mem_of_ne_nil _ hne
  obtain ⟨hp, hout⟩ := (hok t ht).1 e0 he0
  have hmem := all_fwdEvs hok hac e0.1 hp (t, e0.2) hout
  have := Wr_of_mem l (e0.1, (t, e0.2)) _ (fwdInit m time l) hmem (by
    show (if t < m.nT then time else l.est t) ≤ _
    rw [if_pos ht]
    have h1 := fwdCand_ge l (fwdInit m time l) e0.1 (t, e0.2) (fun _ => hnn e0.1 hp)
    have h2 : (fwdInit m time l).est e0.1 = time := by
      show (if e0.1 < m.nT then time else l.est e0.1) = time
      rw [if_pos hp]
    rw [h2] at h1
    exact h1)
  exact this

/-- **the forward pass forgets the old `eft` below `m.nT`** (consistent acyclic graph, no negative
remaining work): two states with the same remaining work and the same `est` / `eft` outside the
task list give the same `est` and `eft` -/
theorem pertFwd_norm (hok : GraphOK m) (hac : Acyclic m) (l l' : Live) (time : Rat)
    (hrem : l'.rem = l.rem) (hnn : ∀ t, t < m.nT → 0 ≤ l.rem t)
    (hest : ∀ t, ¬ t < m.nT → l'.est t = l.est t) (heft : ∀ t, ¬ t < m.nT → l'.eft t = l.eft t) :
    (pertFwd m time l').est = (pertFwd m time l).est ∧
    (pertFwd m time l').eft = (pertFwd m time l).eft := by
  apply pertFwd_congr m (fwdRanked_of hok hac) l l' time hrem hest
  intro j hc hnw
  by_cases hj : j < m.nT
  · exfalso
    apply hnw
    apply all_written hok hac l time hnn j hj
    intro h0
    exact hc ⟨hj, by rw [h0]; rfl⟩
  · exact heft j hj

/-- every `est` is at least the clock -/
theorem pertFwd_lo (l : Live) (time : Rat) :
    ∀ t, t < m.nT → time ≤ (pertFwd m time l).est t := by
  rw [pertFwd_eq]
  refine fwdLoop_inv m l (fun p => ∀ t, t < m.nT → time ≤ p.est t) ?_ _ _ _ ?_
    (fun i hi => (Idem.mem_heads m i hi).1)
  · intro p i e hp hi he t ht
    rw [fwdRelax_eq]
    split
    · rename_i hacc
      show time ≤ upd p.est e.1 _ t
      rw [upd_apply]
      split
      · rename_i h
        have := hp e.1 (h ▸ ht)
        exact Rat.le_trans this hacc
      · exact hp t ht
    · exact hp t ht
  · intro t ht
    show time ≤ (if t < m.nT then time else l.est t)
    rw [if_pos ht]; exact Rat.le_refl

/-- the `(est, eft)` a relaxation proposes are at least the remaining work of the target apart -/
theorem fwdCand_span (l : Live) (p : Pert) (i : Nat) (e : Nat × Dep) :
    (fwdCand l p i e).1 + l.rem e.1 ≤ (fwdCand l p i e).2 := by
  obtain ⟨nx, d⟩ := e
  cases d <;> simp only [fwdCand] <;> grind

/-- `est + remaining ≤ eft` for every task -/
theorem pertFwd_span (hok : GraphOK m) (hac : Acyclic m) (l : Live) (time : Rat)
    (hnn : ∀ t, t < m.nT → 0 ≤ l.rem t) :
    ∀ t, t < m.nT → (pertFwd m time l).est t + l.rem t ≤ (pertFwd m time l).eft t := by
  let l2 : Live := { l with eft := fun t => if t < m.nT then time + l.rem t else l.eft t }
  obtain ⟨h1, h2⟩ := pertFwd_norm hok hac l l2 time rfl hnn (fun _ _ => rfl)
    (fun t ht => by show (if t < m.nT then _ else l.eft t) = l.eft t; rw [if_neg ht])
  rw [← h1, ← h2, pertFwd_eq]
  refine fwdLoop_inv m l2 (fun p => ∀ t, t < m.nT → p.est t + l.rem t ≤ p.eft t) ?_ _ _ _ ?_
    (fun i hi => (Idem.mem_heads m i hi).1)
  · intro p i e hp hi he t ht
    rw [fwdRelax_eq]
    split
    · show upd p.est e.1 _ t + l.rem t ≤ upd p.eft e.1 _ t
      rw [upd_apply, upd_apply]
      split
      · rename_i h
        rw [h]
        exact fwdCand_span l2 p i e
      · exact hp t ht
    · exact hp t ht
  · intro t ht
    show (if t < m.nT then time else l.est t) + l.rem t ≤
      (if t < m.nT && (m.task t).inputs.isEmpty then time + l.rem t
        else (if t < m.nT then time + l.rem t else l.eft t))
    rw [if_pos ht]
    split
    · exact Rat.le_refl
    · exact Rat.le_refl

/-- the pair a relaxation proposes, `d` later -/
theorem fwdCand_shift (l : Live) (p p' : Pert) (i : Nat) (e : Nat × Dep) (d : Rat)
    (h1 : p'.est i = p.est i + d) (h2 : p'.eft i = p.eft i + d) :
    (fwdCand l p' i e).1 = (fwdCand l p i e).1 + d ∧ (fwdCand l p' i e).2 = (fwdCand l p i e).2 + d := by
  obtain ⟨nx, k⟩ := e
  cases k <;> simp only [fwdCand, h1, h2] <;> constructor <;> grind

/-- **forward pass, shift of `est` and `eft`**: started `d` later on the same (non-negative)
remaining work, the pass computes every `est` and every `eft` below `m.nT` exactly `d` later -/
theorem pertFwd_shift (hok : GraphOK m) (hac : Acyclic m) (l l' : Live) (hr : l'.rem = l.rem)
    (hnn : ∀ t, t < m.nT → 0 ≤ l.rem t) (time d : Rat) :
    ∀ t, t < m.nT → (pertFwd m (time + d) l').est t = (pertFwd m time l).est t + d ∧
      (pertFwd m (time + d) l').eft t = (pertFwd m time l).eft t + d := by
  have hwf := wf_of_graphOK hok
  let l2 : Live := { l' with eft := fun t => if t < m.nT then l.eft t + d else l'.eft t }
  obtain ⟨h1, h2⟩ := pertFwd_norm hok hac l' l2 (time + d) rfl (by rw [hr]; exact hnn) (fun _ _ => rfl)
    (fun t ht => by show (if t < m.nT then _ else l'.eft t) = l'.eft t; rw [if_neg ht])
  rw [← h1, ← h2, pertFwd_eq, pertFwd_eq, fwdLoop_rem m (show l2.rem = l.rem from hr)]
  refine fwdLoop_pair m l
    (fun p p' => ∀ t, t < m.nT → p'.est t = p.est t + d ∧ p'.eft t = p.eft t + d) (fun _ _ _ => True)
    ?_ (m.nT + 1) (heads m) (fwdInit m time l) (fwdInit m (time + d) l2) ?_
    (fun i hi => ⟨(Idem.mem_heads m i hi).1, trivial⟩)
  · intro p p' i e hS hi _ he
    refine ⟨?_, trivial, fun _ _ => trivial⟩
    have hlt : e.1 < m.nT := (hwf i hi).2 e he
    obtain ⟨c1, c2⟩ := fwdCand_shift l p p' i e d (hS i hi).1 (hS i hi).2
    rw [fwdRelax_eq l p, fwdRelax_eq l p', c1, (hS e.1 hlt).1]
    have hiff : ((fwdCand l p i e).1 + d ≥ p.est e.1 + d) ↔ ((fwdCand l p i e).1 ≥ p.est e.1) := by
      constructor <;> intro h <;> grind
    by_cases hw : (fwdCand l p i e).1 ≥ p.est e.1
    · rw [if_pos hw, if_pos (hiff.2 hw)]
      intro t ht
      show upd p'.est e.1 _ t = upd p.est e.1 _ t + d ∧ upd p'.eft e.1 _ t = upd p.eft e.1 _ t + d
      rw [upd_apply, upd_apply, upd_apply, upd_apply]
      split
      · exact ⟨rfl, c2⟩
      · exact hS t ht
    · rw [if_neg hw, if_neg (fun h => hw (hiff.1 h))]
      exact hS
  · intro t ht
    show (if t < m.nT then time + d else l'.est t) = (if t < m.nT then time else l.est t) + d ∧
      (if t < m.nT && (m.task t).inputs.isEmpty then time + d + l'.rem t
        else (if t < m.nT then l.eft t + d else l'.eft t)) =
      (if t < m.nT && (m.task t).inputs.isEmpty then time + l.rem t else l.eft t) + d
    rw [if_pos ht, if_pos ht, if_pos ht, hr]
    refine ⟨rfl, ?_⟩
    split
    · grind
    · rfl

/-- **every edge inequality holds for the final `est`** -/
theorem pertFwd_edge (hok : GraphOK m) (hac : Acyclic m) (l : Live) (time : Rat) :
    ∀ o, o < m.nT → ∀ e ∈ (m.task o).inputs,
      (fwdCand l (pertFwd m time l) e.1 (o, e.2)).1 ≤ (pertFwd m time l).est o := by
  intro o ho e he
  obtain ⟨rk, hrk⟩ := fwdRanked_of hok hac
  obtain ⟨hp, hout⟩ := (hok o ho).1 e he
  rw [pertFwd_fold]
  exact fold_edge l _ _ (fwdEvs_SS m rk hrk) (fwdEvs_noSelf m rk hrk) (e.1, (o, e.2))
    (all_fwdEvs hok hac e.1 hp (o, e.2) hout)

end cover

section bwd
variable {m : Model}

theorem mem_prevOf_iff (wave : List Nat) (t : Nat) :
    t ∈ prevOf m wave ↔ t < m.nT ∧ ∃ o ∈ wave, ∃ e ∈ (m.task o).inputs, e.1 = t := by
  rw [prevOf, Idem.mem_canonSet]
  constructor
  · rintro ⟨h1, h2⟩
    obtain ⟨o, ho, ht⟩ := List.mem_flatMap.mp h2
    obtain ⟨e, he, rfl⟩ := List.mem_map.mp ht
    exact ⟨h1, o, ho, e, he, rfl⟩
  · rintro ⟨h1, o, ho, e, he, rfl⟩
    exact ⟨h1, List.mem_flatMap.mpr ⟨o, ho, List.mem_map.mpr ⟨e, he, rfl⟩⟩⟩

/-- **two backward passes side by side, with coverage.**  `S` relates the two tables, `G p p' t`
says that task `t` is "good"; a relaxation out of a good task preserves `S`, makes its target good
and keeps good tasks good.  `hgt` is a height (longest distance to a task without successor): if
the pass starts from a wave of good tasks containing every task of height `k`, all tasks below
height `k` being good, and has fuel for the remaining heights, it ends with `S` and with every
task below `m.nT` good. -/
theorem bwdLoop_cover (l : Live) (S : Pert → Pert → Prop) (G : Pert → Pert → Nat → Prop)
    (hstep : ∀ p p' o e, S p p' → o < m.nT → G p p' o → e ∈ (m.task o).inputs →
      S (bwdRelax l p o e) (bwdRelax l p' o e) ∧ G (bwdRelax l p o e) (bwdRelax l p' o e) e.1 ∧
      ∀ t, G p p' t → G (bwdRelax l p o e) (bwdRelax l p' o e) t)
    (hgt : Nat → Nat)
    (hpred : ∀ t, t < m.nT → ∀ k, hgt t = k + 1 →
      ∃ o, o < m.nT ∧ hgt o = k ∧ ∃ e ∈ (m.task o).inputs, e.1 = t)
    (hdown : ∀ t, t < m.nT → ∀ j, j ≤ hgt t → ∃ y, y < m.nT ∧ hgt y = j) :
    ∀ (fuel k : Nat) (wave : List Nat) (p p' : Pert), S p p' →
      (∀ o ∈ wave, o < m.nT ∧ G p p' o) →
      (∀ t, t < m.nT → hgt t < k → G p p' t) →
      (∀ t, t < m.nT → hgt t = k → t ∈ wave) →
      (∀ t, t < m.nT → hgt t < fuel + k) →
      S (bwdLoop m l fuel wave p) (bwdLoop m l fuel wave p') ∧
      ∀ t, t < m.nT → G (bwdLoop m l fuel wave p) (bwdLoop m l fuel wave p') t := by
  -- the relaxations into the predecessors of one task
  have inner : ∀ (o : Nat) (es : List (Nat × Dep)) (p p' : Pert), S p p' → o < m.nT → G p p' o →
      (∀ e ∈ es, e ∈ (m.task o).inputs) →
      S (es.foldl (fun a e => bwdRelax l a o e) p) (es.foldl (fun a e => bwdRelax l a o e) p') ∧
      (∀ e ∈ es, G (es.foldl (fun a e => bwdRelax l a o e) p)
        (es.foldl (fun a e => bwdRelax l a o e) p') e.1) ∧
      (∀ t, G p p' t → G (es.foldl (fun a e => bwdRelax l a o e) p)
        (es.foldl (fun a e => bwdRelax l a o e) p') t) := by
    intro o es
    induction es with
    | nil => intro p p' hS _ _ _; exact ⟨hS, fun _ h => by simp at h, fun _ h => h⟩
    | cons e es ih =>
      intro p p' hS ho hG hes
      obtain ⟨s1, g1, m1⟩ := hstep p p' o e hS ho hG (hes e (List.mem_cons_self ..))
      obtain ⟨s2, g2, m2⟩ := ih _ _ s1 ho (m1 o hG) (fun x hx => hes x (List.mem_cons_of_mem _ hx))
      simp only [List.foldl_cons]
      refine ⟨s2, ?_, fun t ht => m2 t (m1 t ht)⟩
      intro x hx
      rcases List.mem_cons.mp hx with rfl | hx
      · exact m2 _ g1
      · exact g2 x hx
  -- one wave
  have wv : ∀ (wave : List Nat) (p p' : Pert), S p p' → (∀ o ∈ wave, o < m.nT ∧ G p p' o) →
      S (bwdWave m l wave p) (bwdWave m l wave p') ∧
      (∀ o ∈ wave, ∀ e ∈ (m.task o).inputs, G (bwdWave m l wave p) (bwdWave m l wave p') e.1) ∧
      (∀ t, G p p' t → G (bwdWave m l wave p) (bwdWave m l wave p') t) := by
    intro wave
    induction wave with
    | nil => intro p p' hS _; exact ⟨hS, fun _ h => by simp at h, fun _ h => h⟩
    | cons o wave ih =>
      intro p p' hS hw
      obtain ⟨ho, hG⟩ := hw o (List.mem_cons_self ..)
      obtain ⟨s1, g1, m1⟩ := inner o (m.task o).inputs p p' hS ho hG (fun _ h => h)
      obtain ⟨s2, g2, m2⟩ := ih _ _ s1
        (fun j hj => ⟨(hw j (List.mem_cons_of_mem _ hj)).1, m1 j (hw j (List.mem_cons_of_mem _ hj)).2⟩)
      simp only [bwdWave, List.foldl_cons] at s2 g2 m2 ⊢
      refine ⟨s2, ?_, fun t ht => m2 t (m1 t ht)⟩
      intro j hj e he
      rcases List.mem_cons.mp hj with rfl | hj
      · exact m2 _ (g1 e he)
      · exact g2 j hj e he
  intro fuel
  induction fuel with
  | zero =>
    intro k wave p p' hS _ h3 _ h5
    exact ⟨hS, fun t ht => h3 t ht (by have := h5 t ht; omega)⟩
  | succ n ih =>
    intro k wave p p' hS hw h3 h4 h5
    simp only [bwdLoop]
    split
    · rename_i hemp
      refine ⟨hS, fun t ht => ?_⟩
      by_cases hk : hgt t < k
      · exact h3 t ht hk
      · obtain ⟨y, hy, hyk⟩ := hdown t ht k (by omega)
        have := h4 y hy hyk
        have hnil : wave = [] := by simpa using hemp
        rw [hnil] at this
        simp at this
    · obtain ⟨s1, g1, m1⟩ := wv wave p p' hS hw
      apply ih (k + 1) _ _ _ s1
      · intro t ht
        obtain ⟨hlt, o, ho, e, he, rfl⟩ := (mem_prevOf_iff wave t).1 ht
        exact ⟨hlt, g1 o ho e he⟩
      · intro t ht hk
        by_cases hk' : hgt t < k
        · exact m1 t (h3 t ht hk')
        · exact m1 t (hw t (h4 t ht (by omega))).2
      · intro t ht hk
        obtain ⟨o, ho, hok, e, he, het⟩ := hpred t ht k hk
        exact (mem_prevOf_iff wave t).2 ⟨ht, o, h4 o ho hok, e, he, het⟩
      · intro t ht
        have := h5 t ht
        omega

/-- task `t` holds in the second table the `lft` / `lst` of the first one plus `c` -/
def GoodAt (c : Rat) (p p' : Pert) (t : Nat) : Prop :=
  p'.lft t = p.lft t + c ∧ p'.lst t = p.lst t + c

/-- the two tables have the same `calculated_task_set`, and every task in it holds values `c`
apart (nothing is said about a task that has not been set: the pass never reads its values) -/
def BRel (c : Rat) (p p' : Pert) : Prop :=
  p'.done = p.done ∧ ∀ t, p.done t = true → GoodAt c p p' t

theorem bwdCand_shift (l : Live) (p p' : Pert) (o : Nat) (e : Nat × Dep) (d : Rat)
    (h1 : p'.lft o = p.lft o + d) (h2 : p'.lst o = p.lst o + d) :
    (bwdCand l p' o e).1 = (bwdCand l p o e).1 + d ∧ (bwdCand l p' o e).2 = (bwdCand l p o e).2 + d := by
  obtain ⟨pv, k⟩ := e
  cases k <;> simp only [bwdCand, h1, h2] <;> constructor <;> grind

/-- what a relaxation out of a set task proposes lies between the `est` of the target and … -/
theorem bwdCand_bounds (l : Live) (p : Pert) (o : Nat) (e : Nat × Dep) (E : Nat → Rat)
    (hrem : 0 ≤ l.rem e.1) (h1 : E o ≤ p.lst o) (h2 : p.lst o ≤ p.lft o)
    (hedge : (match e.2 with | .fs => E e.1 + l.rem e.1 | _ => E e.1) ≤ E o) :
    E e.1 ≤ (bwdCand l p o e).1 ∧ (bwdCand l p o e).1 ≤ (bwdCand l p o e).2 := by
  obtain ⟨pv, k⟩ := e
  cases k <;> simp only [bwdCand] at * <;> constructor <;> grind

/-- **one backward relaxation is equivariant under a shift of the tables by any constant**: out
of a task whose values are `c` apart, with the same `calculated_task_set` and the set tasks `c`
apart, the two relaxations take the same branch (the test is `pv not in calculated_task_set or
pre_lft >= lft`: no absolute number), and afterwards the target is set in both, `c` apart.  No
condition on the link kind, the remaining work or the sign of any value. -/
theorem brel_step (l : Live) (c : Rat) (p p' : Pert) (o : Nat) (e : Nat × Dep)
    (hS : BRel c p p') (hG : GoodAt c p p' o) :
    BRel c (bwdRelax l p o e) (bwdRelax l p' o e) ∧
    GoodAt c (bwdRelax l p o e) (bwdRelax l p' o e) e.1 ∧
    ∀ t, GoodAt c p p' t → GoodAt c (bwdRelax l p o e) (bwdRelax l p' o e) t := by
  obtain ⟨c1, c2⟩ := bwdCand_shift l p p' o e c hG.1 hG.2
  -- the two acceptance tests agree
  have hcond : (p'.done e.1 = false ∨ p'.lft e.1 ≥ (bwdCand l p' o e).2) ↔
      (p.done e.1 = false ∨ p.lft e.1 ≥ (bwdCand l p o e).2) := by
    rw [hS.1]
    cases hd : p.done e.1 with
    | false => exact ⟨fun _ => Or.inl rfl, fun _ => Or.inl rfl⟩
    | true =>
      obtain ⟨g1, _⟩ := hS.2 e.1 hd
      rw [c2, g1]
      constructor <;> intro h <;> grind
  rw [bwdRelax_eq l p, bwdRelax_eq l p']
  by_cases hc : p.done e.1 = false ∨ p.lft e.1 ≥ (bwdCand l p o e).2
  · rw [if_pos hc, if_pos (hcond.2 hc)]
    have hgood : GoodAt c
        { p with lst := upd p.lst e.1 (bwdCand l p o e).1, lft := upd p.lft e.1 (bwdCand l p o e).2,
                 done := upd p.done e.1 true }
        { p' with lst := upd p'.lst e.1 (bwdCand l p' o e).1, lft := upd p'.lft e.1 (bwdCand l p' o e).2,
                  done := upd p'.done e.1 true } e.1 := by
      constructor
      · show upd p'.lft e.1 _ e.1 = upd p.lft e.1 _ e.1 + c
        rw [upd_same, upd_same, c2]
      · show upd p'.lst e.1 _ e.1 = upd p.lst e.1 _ e.1 + c
        rw [upd_same, upd_same, c1]
    have hother : ∀ t, t ≠ e.1 → (GoodAt c
        { p with lst := upd p.lst e.1 (bwdCand l p o e).1, lft := upd p.lft e.1 (bwdCand l p o e).2,
                 done := upd p.done e.1 true }
        { p' with lst := upd p'.lst e.1 (bwdCand l p' o e).1, lft := upd p'.lft e.1 (bwdCand l p' o e).2,
                  done := upd p'.done e.1 true } t
          ↔ GoodAt c p p' t) := by
      intro t hne
      simp only [GoodAt, upd_other _ _ _ _ hne]
    refine ⟨⟨?_, ?_⟩, hgood, ?_⟩
    · show upd p'.done e.1 true = upd p.done e.1 true
      rw [hS.1]
    · intro t ht
      by_cases hte : t = e.1
      · rw [hte]; exact hgood
      · apply (hother t hte).2
        apply hS.2 t
        have : upd p.done e.1 true t = true := ht
        rw [upd_other _ _ _ _ hte] at this
        exact this
    · intro t hg
      by_cases hte : t = e.1
      · rw [hte]; exact hgood
      · exact (hother t hte).2 hg
  · rw [if_neg hc, if_neg (fun h => hc (hcond.1 h))]
    refine ⟨hS, ?_, fun _ h => h⟩
    apply hS.2 e.1
    cases hd : p.done e.1 with
    | false => exact absurd (Or.inl hd) hc
    | true => rfl

end bwd

section main
variable {m : Model}

theorem maxList_shift (c c' d : Rat) {xs : List Rat} (h : xs ≠ []) :
    maxList c' (xs.map (· + d)) = maxList c xs + d := by
  cases xs with
  | nil => exact absurd rfl h
  | cons x xs =>
    rw [List.map_cons, maxList_eq, maxList_eq]
    exact foldl_max_shift xs x d

/-- **the backward pass is equivariant under a shift of the critical path length by any constant**
(consistent acyclic network, ANY link kinds, ANY remaining work): started from `cpl + c` instead of
`cpl` on the same remaining work, it ends with every `lft` and every `lst` below `m.nT` exactly `c`
later.  (The `est` / `eft` of the tables are not read at all.) -/
theorem pertBwd_shift (hok : GraphOK m) (hac : Acyclic m) (l l' : Live) (hr : l'.rem = l.rem)
    (p p' : Pert) (cpl c : Rat) :
    ∀ t, t < m.nT →
      GoodAt c (bwdLoop m l (m.nT + 1) (tails m) (bwdInit m l cpl p))
        (bwdLoop m l (m.nT + 1) (tails m) (bwdInit m l' (cpl + c) p')) t := by
  have hg := dag_of hok hac
  obtain ⟨hgt, hdep⟩ := exists_depth hg.symm.G_lt hg.symm.acyc
  have hcov := bwdLoop_cover (m := m) l (BRel c) (GoodAt c)
    (fun p p' o e hS _ hG _ => brel_step l c p p' o e hS hG)
    hgt
    (fun t ht k hk => by
      have hne : Hm m t ≠ [] := by
        intro h0; have := hdep.head t ht h0; omega
      obtain ⟨y, hy, hyk⟩ := hdep.pred t ht hne
      have hylt := hg.H_lt t ht y hy
      obtain ⟨dd, hdd⟩ := mem_Hm.1 hy
      exact ⟨y, hylt, by omega, (t, dd), ((hok t ht).2 (y, dd) hdd).2, rfl⟩)
    (fun t ht j hj => hdep.down hg.symm.G_lt (hgt t) t ht rfl j hj)
    (m.nT + 1) 0 (tails m) (bwdInit m l cpl p) (bwdInit m l' (cpl + c) p')
    ?_ ?_ (fun _ _ h => absurd h (Nat.not_lt_zero _)) ?_
    (fun t ht => by have := hdep.lt hg.symm.G_lt t ht; omega)
  · exact hcov.2
  · -- the start tables: nothing is set
    exact ⟨rfl, fun t ht => by cases ht⟩
  · -- the tails hold `cpl`, `cpl − rem`
    intro x hxt
    have hx := Idem.mem_tails m x hxt
    have hc : (tails m).contains x = true := by simpa using hxt
    refine ⟨hx, ?_, ?_⟩
    · show (if (tails m).contains x then _ else _) = (if (tails m).contains x then _ else _) + c
      rw [hc]; rfl
    · show (if (tails m).contains x then _ else _) = (if (tails m).contains x then _ else _) + c
      rw [hc, if_pos rfl, if_pos rfl, hr]; grind
  · -- height 0 means tail
    intro x hx h0
    apply PertSpec.mem_tails.2 ⟨hx, ?_⟩
    apply Classical.byContradiction
    intro hne
    obtain ⟨y, _, hyk⟩ := hdep.pred x hx hne
    omega

/-- **`update_PERT_data`, `lst` and `lft`: shift by the difference of the critical path lengths**
(consistent acyclic network, ANY link kinds, ANY remaining work, ANY old PERT data, ANY two times):
on the same remaining work, every `lst` and every `lft` below `m.nT` of the one computation is that
of the other plus `cpl' − cpl`. -/
theorem pert_lst_shift (hok : GraphOK m) (hac : Acyclic m) (l l' : Live) (hr : l'.rem = l.rem)
    (time time' : Nat) :
    ∀ t, t < m.nT →
      (pert m time' l').lst t = (pert m time l).lst t + ((pert m time' l').cpl - (pert m time l).cpl) ∧
      (pert m time' l').lft t = (pert m time l).lft t + ((pert m time' l').cpl - (pert m time l).cpl) := by
  intro t ht
  obtain ⟨_, _, fl, fL, fc⟩ := pert_fields m time l
  obtain ⟨_, _, fl', fL', fc'⟩ := pert_fields m time' l'
  rw [fl, fl', fL, fL', fc, fc', pertBwd_eq, pertBwd_eq, bwdLoop_rem m hr]
  have key := pertBwd_shift hok hac l l' hr (pertFwd m (time : Rat) l) (pertFwd m (time' : Rat) l')
    (maxList l.cpl ((tails m).map (pertFwd m (time : Rat) l).eft))
    (maxList l'.cpl ((tails m).map (pertFwd m (time' : Rat) l').eft) -
      maxList l.cpl ((tails m).map (pertFwd m (time : Rat) l).eft)) t ht
  have hc : maxList l.cpl ((tails m).map (pertFwd m (time : Rat) l).eft) +
      (maxList l'.cpl ((tails m).map (pertFwd m (time' : Rat) l').eft) -
        maxList l.cpl ((tails m).map (pertFwd m (time : Rat) l).eft)) =
      maxList l'.cpl ((tails m).map (pertFwd m (time' : Rat) l').eft) := by grind
  rw [hc] at key
  exact ⟨key.2, key.1⟩

/-- **total slack on a general acyclic network: the same up to ONE constant for all tasks.**
Consistent acyclic network, ANY link kinds, ANY remaining work (negative too), ANY old PERT data:
computed `d` steps later on the same remaining work, the total slack `lst − est` of every task
below `m.nT` changes by the same amount `(cpl' − cpl) − d`.  (The amount is `0` when no remaining
work is negative, `pert_slack_shift_nonneg`; it need not be `0` otherwise — a task all of whose
forward relaxations are rejected keeps the `eft` of an earlier `update_PERT_data`, which enters the
critical path length — but the ORDER of the slacks is the same.) -/
theorem pert_slack_shift_dag (hok : GraphOK m) (hac : Acyclic m) (l l' : Live) (hr : l'.rem = l.rem)
    (time d : Nat) :
    ∀ t, t < m.nT → (pert m (time + d) l').lst t - (pert m (time + d) l').est t =
      (pert m time l).lst t - (pert m time l).est t +
        (((pert m (time + d) l').cpl - (pert m time l).cpl) - (d : Rat)) := by
  intro t ht
  rw [(pert_lst_shift hok hac l l' hr time (time + d) t ht).1,
    pert_est_shift m (wf_of_graphOK hok) l l' hr time d t ht]
  grind

/-- the critical path length `d` steps later on the same non-negative remaining work is `d` later -/
theorem pert_cpl_shift_nonneg (hok : GraphOK m) (hac : Acyclic m) (l l' : Live) (hr : l'.rem = l.rem)
    (hnn : ∀ t, t < m.nT → 0 ≤ l.rem t) (time d : Nat) (hn : 0 < m.nT) :
    (pert m (time + d) l').cpl = (pert m time l).cpl + (d : Rat) := by
  have hg := dag_of hok hac
  have hcast : ((time + d : Nat) : Rat) = (time : Rat) + (d : Rat) := by push_cast; rfl
  have hsh := pertFwd_shift hok hac l l' hr hnn (time : Rat) (d : Rat)
  rw [← hcast] at hsh
  obtain ⟨x0, hx0, hx0t⟩ := exists_tail hg hn
  have hne : (tails m).map (pertFwd m (time : Rat) l).eft ≠ [] := by
    intro h
    have : x0 ∈ tails m := PertSpec.mem_tails.2 ⟨hx0, hx0t⟩
    simp only [List.map_eq_nil_iff] at h
    rw [h] at this
    simp at this
  have hmap : (tails m).map (pertFwd m ((time + d : Nat) : Rat) l').eft =
      ((tails m).map (pertFwd m (time : Rat) l).eft).map (· + (d : Rat)) := by
    rw [List.map_map]
    apply List.map_congr_left
    intro x hx
    exact (hsh x (Idem.mem_tails m x hx)).2
  rw [pert_cpl, pert_cpl, hmap]
  exact maxList_shift _ _ _ hne

/-- **`update_PERT_data`, shift** (consistent acyclic network, ANY link kinds, no negative
remaining work): computed `d` steps later on the same remaining work, every `est` and every `lst`
below `m.nT` is exactly `d` later. -/
theorem pert_shift_nonneg (hok : GraphOK m) (hac : Acyclic m) (l l' : Live) (hr : l'.rem = l.rem)
    (hnn : ∀ t, t < m.nT → 0 ≤ l.rem t) (time d : Nat) :
    ∀ t, t < m.nT → (pert m (time + d) l').est t = (pert m time l).est t + (d : Rat) ∧
      (pert m (time + d) l').lst t = (pert m time l).lst t + (d : Rat) := by
  intro t ht
  refine ⟨pert_est_shift m (wf_of_graphOK hok) l l' hr time d t ht, ?_⟩
  rw [(pert_lst_shift hok hac l l' hr time (time + d) t ht).1,
    pert_cpl_shift_nonneg hok hac l l' hr hnn time d (by omega)]
  grind

/-- **total slack, shift** for any link kinds: on a consistent acyclic network, on a state without
negative remaining work, the slack `lst − est` of every task does not depend on the time -/
theorem pert_slack_shift_nonneg (hok : GraphOK m) (hac : Acyclic m) (l l' : Live) (hr : l'.rem = l.rem)
    (hnn : ∀ t, t < m.nT → 0 ≤ l.rem t) (time d : Nat) :
    ∀ t, t < m.nT → (pert m (time + d) l').lst t - (pert m (time + d) l').est t =
      (pert m time l).lst t - (pert m time l).est t := by
  intro t ht
  obtain ⟨h1, h2⟩ := pert_shift_nonneg hok hac l l' hr hnn time d t ht
  rw [h1, h2]; grind

end main

/-! ## Part 3 — C10.3 for TSLACK on general networks

The final assembly of `PDesy.Lemmas.Removal` (`taskLe_rel`, `rel_working`, `loop_rel`,
`removal_of_absStep`) once more, with `ModelOKw (GraphOK ∧ Acyclic)` in place of `ModelOK`. -/

section runs

/-- after `check_state(FINISHED)` of the next `__update` no task has negative remaining work -/
def NonNeg (m : Model) (a0 : St) : Prop := ∀ t, t < m.nT → 0 ≤ (upd0 m a0.live).rem t

/-- the weakest restriction on TSLACK used below: consistent link lists, no cycle -/
abbrev DagOK (m : Model) : Prop := GraphOK m ∧ Acyclic m

/-- `Removal.taskLe_pert_shift` with TSLACK admitted on every consistent acyclic network, any link
kinds, any remaining work: the slacks of the two computations differ by one constant
(`pert_slack_shift_dag`), so they order the tasks in the same way -/
theorem taskLe_pert_shift_dag (m : Model) (hwf : WF m) (rule : TaskRule) (hrule : rule ≠ .fifo)
    (l l' : Live) (hr : l'.rem = l.rem) (hsl : rule = .tslack → DagOK m)
    (time d : Nat) (lg lg' : Logs) (a b : Nat) (ha : a < m.nT) (hb : b < m.nT) :
    taskLe m (pert m (time + d) l') lg' rule a b = taskLe m (pert m time l) lg rule a b := by
  by_cases ht : rule = .tslack
  · obtain ⟨hok, hac⟩ := hsl ht
    subst ht
    exact taskLe_of_key_shift m _ _ lg lg' .tslack
      (((pert m (time + d) l').cpl - (pert m time l).cpl) - (d : Rat)) a b
      (pert_slack_shift_dag hok hac l l' hr time d a ha)
      (pert_slack_shift_dag hok hac l l' hr time d b hb)
  · exact taskLe_pert_shift m hwf rule hrule l l' hr (fun h => absurd h ht) time d lg lg' a b ha hb

/-- the same, in the form it had before the repair of the backward pass (the hypothesis "no
negative remaining work" is no longer used) -/
theorem taskLe_pert_shift_nonneg (m : Model) (hwf : WF m) (rule : TaskRule) (hrule : rule ≠ .fifo)
    (l l' : Live) (hr : l'.rem = l.rem)
    (hsl : rule = .tslack → DagOK m ∧ ∀ t, t < m.nT → 0 ≤ l.rem t)
    (time d : Nat) (lg lg' : Logs) (a b : Nat) (ha : a < m.nT) (hb : b < m.nT) :
    taskLe m (pert m (time + d) l') lg' rule a b = taskLe m (pert m time l) lg rule a b :=
  taskLe_pert_shift_dag m hwf rule hrule l l' hr (fun h => (hsl h).1) time d lg lg' a b ha hb

/-- the comparison functions of the two runs agree at related states -/
theorem taskLe_rel' (m : Model) (rule : TaskRule) (hm : ModelOKw DagOK m rule) (L : List Nat) (a0 b0 : St)
    (h : Rel m L a0 b0)
    (lgA lgB : Logs) (x y : Nat) (hx : x < m.nT) (hy : y < m.nT) :
    taskLe m (setP (update m a0.time a0.live) (update m b0.time b0.live)) lgA rule x y =
      taskLe m (update m b0.time b0.live) lgB rule x y := by
  have hr : (upd0 m a0.live).rem = (upd0 m b0.live).rem := h.live.rem
  rw [taskLe_setP m _ _ lgA rule x y h.live.rem.symm, update_eq, update_eq, h.time]
  exact taskLe_pert_shift_dag m hm.wf rule hm.notFifo (upd0 m b0.live) (upd0 m a0.live) hr
    hm.slack b0.time _ lgB lgA x y hx hy

/-- **a working step preserves the relation** (as `Removal.rel_working`) -/
theorem rel_working' (m : Model) (pA pB : Params) (hm : ModelOKw DagOK m pA.rule) (hrule : pB.rule = pA.rule)
    (haf : pB.autoFlag = pA.autoFlag) (hB : pB.absence = [])
    (a0 b0 : St) (h : Rel m pA.absence a0 b0)
    (hw : pA.absence.contains a0.time = false) :
    Rel m pA.absence (stepBody m pA (updated m a0)) (stepBody m pB (updated m b0)) := by
  have hwA : (!(pA.absence.contains (updated m a0).time)) = true := by
    show (!(pA.absence.contains a0.time)) = true
    rw [hw]; rfl
  have hwB : (!(pB.absence.contains (updated m b0).time)) = true := by rw [hB]; rfl
  have gA := h.goodA.update a0.time
  have gB := h.goodB.update b0.time
  have hle := taskLe_rel' m pA.rule hm pA.absence a0 b0 h (updated m a0).logs (updated m b0).logs
  have hpre := preLive_working m hm.noInd hm.compNoAuto pA.rule pA.autoFlag (updated m a0).live
    (updated m b0).live (updated m a0).logs (updated m b0).logs (updated m a0).time (updated m b0).time
    h.live hle
  have hlive : (stepBody m pA (updated m a0)).live =
      setP (updated m a0).live (stepBody m pB (updated m b0)).live := by
    rw [stepBody_live_eq, stepBody_live_eq, hwA, hwB, hrule, haf]
    exact stepLive_working m hm.noInd hm.compNoAuto pA.rule pA.autoFlag _ _ _ _ _ _ h.live hle
  have hsteps : stepsBelow (a0.time + 1) pA.absence = stepsBelow a0.time pA.absence :=
    stepsBelow_succ_of_not_mem _ _ hw
  refine ⟨?_, ?_, ?_, ?_, ?_, ?_⟩
  · show LRel m (update m (a0.time + 1) (stepBody m pA (updated m a0)).live)
      (update m (b0.time + 1) (stepBody m pB (updated m b0)).live)
    rw [hlive]
    exact update_rel_setP m _ _ _ _
  · show a0.time + 1 = b0.time + 1 + (stepsBelow (a0.time + 1) pA.absence).length
    rw [hsteps]; have := h.time; omega
  · show removeLogs m (stepsBelow (a0.time + 1) pA.absence) (stepBody m pA (updated m a0)).logs = _
    rw [hsteps, stepBody_logs_eq, stepBody_logs_eq, hwA, hwB, hlive, hrule, haf, hpre, addRow_setP]
    have := removeLogs_addRow_keep m true
      (preLive m (updated m b0).logs pA.rule pA.autoFlag (updated m b0).time true (updated m b0).live)
      (stepBody m pB (updated m b0)).live a0 h.alignA (stepsBelow a0.time pA.absence)
      (stepsBelow_pairwise _ _) (fun d hd => (mem_stepsBelow.1 hd).1)
    show removeLogs m _ (addRow m true _ _ a0.logs) = addRow m true _ _ b0.logs
    rw [this, h.logs]
  · exact C08_aligned_step _ (C08_aligned_updated _ h.alignA)
  · exact Good.stepBody pA (s := updated m a0) gA
  · exact Good.stepBody pB (s := updated m b0) gB

/-- **the loop, side by side** (as `Removal.loop_rel`); `J` is any invariant of run A that the
absence step may use -/
theorem loop_rel' (m : Model) (pA pB : Params) (hm : ModelOKw DagOK m pA.rule) (hrule : pB.rule = pA.rule)
    (haf : pB.autoFlag = pA.autoFlag) (hB : pB.absence = []) (hmax : pB.maxTime = pA.maxTime)
    (J : St → Prop) (hJ : ∀ a0, J a0 → J (stepBody m pA (updated m a0)))
    (habs : AbsStepOK m pA J) :
    ∀ (fuelA : Nat) (a0 b0 : St) (fuelB : Nat), Rel m pA.absence a0 b0 → J a0 →
      a0.status ≠ .success → fuelOf pB b0 ≤ fuelB →
      (loop m pA fuelA a0).status = .success →
      EndRel m pA.absence (loop m pA fuelA a0) (loop m pB fuelB b0) := by
  intro fuelA
  induction fuelA with
  | zero =>
    intro a0 b0 fuelB _ _ hst _ hs
    exact absurd hs hst
  | succ n ih =>
    intro a0 b0 fuelB h hj hst hfuel hs
    obtain ⟨fB, rfl⟩ : ∃ k, fuelB = k + 1 := ⟨fuelB - 1, by have := fuelOf_pos pB b0; omega⟩
    have hfin : allFinished m (updated m a0).live = allFinished m (updated m b0).live :=
      allFinished_congr h.live.ts
    rw [loop_succ] at hs ⊢
    by_cases hA : allFinished m (updated m a0).live = true
    · rw [if_pos hA]
      rw [loop_succ, if_pos (hfin ▸ hA)]
      exact ⟨rfl, h.time, h.logs, C08_aligned_status _ _ (C08_aligned_updated _ h.alignA)⟩
    · rw [if_neg hA] at hs ⊢
      by_cases hT : a0.time ≥ pA.maxTime
      · rw [if_pos hT] at hs
        cases hs
      · rw [if_neg hT] at hs ⊢
        cases hc : pA.absence.contains a0.time
        · have hBt : ¬ b0.time ≥ pB.maxTime := by
            have := h.time; rw [hmax]; omega
          rw [loop_succ m pB fB b0, if_neg (hfin ▸ hA), if_neg hBt]
          apply ih _ _ fB (rel_working' m pA pB hm hrule haf hB a0 b0 h hc)
            (hJ a0 hj) hst
          · have := fuelOf_step m pB b0 hBt
            omega
          · exact hs
        · exact ih _ b0 (fB + 1) (habs a0 b0 h hj hc) (hJ a0 hj) hst hfuel hs

/-- **C10.3 with TSLACK on a general acyclic network** (as `Removal.removal`, with
`ModelOKw DagOK` — TSLACK on any consistent acyclic network, any link kinds — in place of
`ModelOK`); no condition on the signs of the remaining work -/
theorem removal_dag (m : Model) (p : Params) (L : List Nat) (s : St)
    (hm : ModelOKw DagOK m p.rule) (hw : WorkOK m) (hs : p.initState = true) (hl : p.initLog = true)
    (hflag : p.autoFlag = false)
    (hsucc : (simulate m { p with absence := L } s).status = .success) :
    (removeAbs m (simulate m { p with absence := L } s)).logs = (simulate m { p with absence := [] } s).logs ∧
    (removeAbs m (simulate m { p with absence := L } s)).time = (simulate m { p with absence := [] } s).time ∧
    (removeAbs m (simulate m { p with absence := L } s)).status =
      (simulate m { p with absence := [] } s).status ∧
    (simulate m { p with absence := [] } s).status = .success := by
  have habs : AbsStepOK m { p with absence := L } (fun _ => True) :=
    fun a0 b0 h _ hc => rel_absence m { p with absence := L } hflag a0 b0 h trivial hc
  have hend := loop_rel' m { p with absence := L } { p with absence := [] } hm rfl rfl rfl rfl
    (fun _ => True) (fun _ _ => trivial) habs
    (fuelOf { p with absence := L } (enter m { p with absence := L } s))
    (enter m { p with absence := L } s) (enter m { p with absence := [] } s)
    (fuelOf { p with absence := [] } (enter m { p with absence := [] } s))
    (enter_rel m hw p L s hs hl) trivial
    (by rw [enter_status m { p with absence := L } s hl]; intro h; cases h) (Nat.le_refl _)
    (by rw [← simulate_eq]; exact hsucc)
  rw [← simulate_eq, ← simulate_eq] at hend
  have hab : (simulate m { p with absence := L } s).absence = L := by
    rw [simulate_eq, loop_absence]; rfl
  obtain ⟨h1, h2, h3⟩ := removeAbs_of_endRel m L _ _ hend hab hsucc
  exact ⟨h1, h2, h3, hend.status⟩

/-- `removal_dag` in the form it had before the repair of the backward pass: with an invariant
`J` of run A that keeps the remaining work non-negative (no longer used) -/
theorem removal_nonneg (m : Model) (p : Params) (L : List Nat) (s : St)
    (hm : ModelOKw DagOK m p.rule) (hw : WorkOK m) (hs : p.initState = true) (hl : p.initLog = true)
    (hflag : p.autoFlag = false)
    (J : St → Prop) (_hJ0 : J (enter m { p with absence := L } s))
    (_hJ : ∀ a0, J a0 → J (stepBody m { p with absence := L } (updated m a0)))
    (_hJnn : p.rule = .tslack → ∀ a0, J a0 → NonNeg m a0)
    (hsucc : (simulate m { p with absence := L } s).status = .success) :
    (removeAbs m (simulate m { p with absence := L } s)).logs = (simulate m { p with absence := [] } s).logs ∧
    (removeAbs m (simulate m { p with absence := L } s)).time = (simulate m { p with absence := [] } s).time ∧
    (removeAbs m (simulate m { p with absence := L } s)).status =
      (simulate m { p with absence := [] } s).status ∧
    (simulate m { p with absence := [] } s).status = .success :=
  removal_dag m p L s hm hw hs hl hflag hsucc

/-- without FF / SF links every finish gate is open -/
theorem finishGate_noGate (m : Model) (hng : NoFinishGate m) (ts : Nat → TS) (t : Nat) (ht : t < m.nT) :
    finishGate m ts t = true := by
  rw [Lifecycle.finishGate_iff]
  intro e he
  rcases hng t ht e he with h | h <;> rw [h] <;> exact ⟨(fun x => nomatch x), (fun x => nomatch x)⟩

/-- on a network without FF / SF links no remaining work is negative after
`check_state(FINISHED)` -/
theorem rem_nonneg_noGate (m : Model) (hng : NoFinishGate m) (l : Live) (h : RemOK m l) :
    ∀ t, t < m.nT → 0 ≤ (upd0 m l).rem t := by
  intro t ht
  have e : (upd0 m l).rem = (chkFinished m l).rem := Idem.update_rem m 0 l
  rw [e]
  by_cases hw : (chkFinished m l).tstate t = .working
  · have hc := chkFinished_noCand m l t ht
    rw [finishGate_noGate m hng _ t ht, Bool.and_true] at hc
    simp only [finishCand, hw, beq_self_eq_true, Bool.true_and, decide_eq_false_iff_not] at hc
    exact Rat.le_of_lt (Rat.not_le.mp hc)
  · exact RemOK_chkFinished m l h t ht hw

/-- the restriction on TSLACK of the partial result: FS and SS links only, consistent, acyclic -/
def SlackOK2 (m : Model) : Prop := NoFinishGate m ∧ GraphOK m ∧ Acyclic m

/-- **C10.3 with TSLACK on networks of FS and SS links** -/
theorem removal_noGate (m : Model) (p : Params) (L : List Nat) (s : St)
    (hm : ModelOKw SlackOK2 m p.rule) (hw : WorkOK m) (hs : p.initState = true) (hl : p.initLog = true)
    (hflag : p.autoFlag = false)
    (hsucc : (simulate m { p with absence := L } s).status = .success) :
    (removeAbs m (simulate m { p with absence := L } s)).logs = (simulate m { p with absence := [] } s).logs ∧
    (removeAbs m (simulate m { p with absence := L } s)).time = (simulate m { p with absence := [] } s).time ∧
    (removeAbs m (simulate m { p with absence := L } s)).status =
      (simulate m { p with absence := [] } s).status ∧
    (simulate m { p with absence := [] } s).status = .success := by
  exact removal_dag m p L s ⟨hm.noInd, hm.compNoAuto, hm.wf, hm.notFifo, fun h => (hm.slack h).2⟩
    hw hs hl hflag hsucc

end runs

end SlackShift
end PDesy
