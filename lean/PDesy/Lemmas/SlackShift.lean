/-
  PDesy.Lemmas.SlackShift — is the total slack `lst − est` of `update_PERT_data` shift invariant
  (same remaining work, clock `d` steps later) on GENERAL acyclic networks?

  Answer: NO on reachable states as soon as a task can overshoot (a WORKING task behind a closed
  FF / SF finish gate whose remaining work goes below zero), YES when no remaining work is
  negative, whatever the link kinds.

  Part 1 (this file, `cxM` …): the concrete model of the counterexample and the two run states at
  which the comparison of `sort_task_list(TSLACK)` differs.  The backward pass stores
  `lft(P) = lst(O1) + rem(P)` along a start-to-start link out of the overshooting task `P`; in the
  run without absence this is `−1` at time 1 and the test `pre_lft < 0` of the next relaxation
  into `P` takes it for "not yet set" and overwrites it; in the run with one absence step the same
  value is `0` at time 2 and is kept.
-/
import PDesy.Lemmas.Removal
import PDesy.Lemmas.PertIdem

namespace PDesy
namespace SlackShift

open Idem PertSpec Removal

/-! ## Part 1 — the counterexample model -/

/-- `Removal.ModelOK` with the restriction on TSLACK as a parameter: `slack : rule = .tslack → S m`.
`ModelOK m rule` is `ModelOKw SlackOK m rule`. -/
structure ModelOKw (S : Model → Prop) (m : Model) (rule : TaskRule) : Prop where
  noInd : NoIndAbs m
  compNoAuto : CompNoAuto m
  wf : WF m
  notFifo : rule ≠ .fifo
  slack : rule = .tslack → S m

theorem modelOKw_of (m : Model) (rule : TaskRule) (h : ModelOK m rule) : ModelOKw SlackOK m rule :=
  ⟨h.noInd, h.compNoAuto, h.wf, h.notFifo, h.slack⟩

/-- Six tasks, two workers, no component, no workplace.

* `0 = K` work 1; `1 = G` work 2 and `2 = H` work 1, both finish-to-start after `K`;
* `3 = P` work 1 with a finish-to-finish link from `G` (`P` may start at once but cannot finish
  before `G` has finished);
* `4 = O1` automatic, work 3, start-to-start after `P`; `5 = O2` automatic, work 1,
  finish-to-start after `P`;
* worker `0` has skill 1 for `K`, `G`, `H`; worker `1` has skill 3 for `P`.

`P` is finished after one step of work (1 − 3 = −2) but stays WORKING behind its finish gate and
overshoots by 3 per step. -/
def cxM : Model where
  nT := 6
  nW := 2
  nF := 0
  nTeam := 1
  nWp := 0
  nC := 0
  task := fun t =>
    match t with
    | 0 => { name := 0, work := 1, outputs := [(1, .fs), (2, .fs)] }
    | 1 => { name := 1, work := 2, inputs := [(0, .fs)], outputs := [(3, .ff)] }
    | 2 => { name := 2, work := 1, inputs := [(0, .fs)] }
    | 3 => { name := 3, work := 1, inputs := [(1, .ff)], outputs := [(4, .ss), (5, .fs)] }
    | 4 => { name := 4, work := 3, isAuto := true, inputs := [(3, .ss)] }
    | _ => { name := 5, work := 1, isAuto := true, inputs := [(3, .fs)] }
  worker := fun w =>
    match w with
    | 0 => { team := 0, skills := [(0, 1), (1, 1), (2, 1)] }
    | _ => { team := 0, skills := [(3, 3)] }
  fac := fun _ => {}
  team := fun _ => { workers := [0, 1], targets := [0, 1, 2, 3, 4, 5] }
  wp := fun _ => {}
  comp := fun _ => {}

/-- the same with skill 4 for `P` (overshoot 4 per step): the stored value is `−2`, not the
marker `−1` itself -/
def cxM4 : Model :=
  { cxM with worker := fun w =>
      match w with
      | 0 => { team := 0, skills := [(0, 1), (1, 1), (2, 1)] }
      | _ => { team := 0, skills := [(3, 4)] } }

theorem cxM_cases {t : Nat} (ht : t < cxM.nT) : t = 0 ∨ t = 1 ∨ t = 2 ∨ t = 3 ∨ t = 4 ∨ t = 5 := by
  simp only [cxM] at ht; omega

theorem cxM_wf : WF cxM := by
  intro t ht
  rcases cxM_cases ht with rfl | rfl | rfl | rfl | rfl | rfl <;> decide +kernel

theorem cxM_graphOK : GraphOK cxM := by decide +kernel

theorem cxM_acyclic : Acyclic cxM := by
  refine ⟨id, ?_⟩
  intro t ht
  rcases cxM_cases ht with rfl | rfl | rfl | rfl | rfl | rfl <;> decide +kernel

theorem cxM_workOK : WorkOK cxM := by
  intro t ht
  rcases cxM_cases ht with rfl | rfl | rfl | rfl | rfl | rfl <;> decide +kernel

/-- every side condition of `C10_removal` except "TSLACK only on finish-to-start networks", with
"consistent acyclic network" in its place -/
theorem cxM_ok (rule : TaskRule) (h : rule ≠ .fifo) :
    ModelOKw (fun m => GraphOK m ∧ Acyclic m) cxM rule where
  noInd := ⟨fun w hw => by
      have : w = 0 ∨ w = 1 := by simp only [cxM] at hw; omega
      rcases this with rfl | rfl <;> rfl, fun _ _ => rfl⟩
  compNoAuto := fun c t ht => by simp [cxM] at ht
  wf := cxM_wf
  notFifo := h
  slack := fun _ => ⟨cxM_graphOK, cxM_acyclic⟩

theorem cxM4_ok (rule : TaskRule) (h : rule ≠ .fifo) :
    ModelOKw (fun m => GraphOK m ∧ Acyclic m) cxM4 rule where
  noInd := ⟨fun w hw => by
      have : w = 0 ∨ w = 1 := by simp only [cxM4, cxM] at hw; omega
      rcases this with rfl | rfl <;> rfl, fun _ _ => rfl⟩
  compNoAuto := fun c t ht => by simp [cxM4, cxM] at ht
  wf := cxM_wf
  notFifo := h
  slack := fun _ => ⟨cxM_graphOK, cxM_acyclic⟩

/-- parameters of run A (absence step 0) and run B (no absence), rule TSLACK, flag off -/
def pA : Params := { absence := [0], maxTime := 40 }
def pB : Params := { absence := [], maxTime := 40 }

/-- run B at the top of iteration 1 (one working step done) -/
def b1 : St := stepBody cxM pB (updated cxM (enter cxM pB St.fresh))

/-- run A at the top of iteration 2 (the absence step 0 and one working step done) -/
def a2 : St := stepBody cxM pA (updated cxM (stepBody cxM pA (updated cxM (enter cxM pA St.fresh))))

/-- the two states are related as in `Removal.Rel`: clocks one apart, and after
`check_state(FINISHED)`, … of `__update` the same task states and the same remaining work
`[0, 2, 1, −2, 3, 1]` (`P` has overshot, `K` is FINISHED, `G`, `H`, `O1` are READY) -/
theorem cx_states :
    a2.time = b1.time + 1 ∧ b1.time = 1 ∧
    (List.range 6).map (upd0 cxM a2.live).rem = [0, 2, 1, -2, 3, 1] ∧
    (List.range 6).map (upd0 cxM b1.live).rem = [0, 2, 1, -2, 3, 1] ∧
    (List.range 6).map (upd0 cxM a2.live).tstate = [.finished, .ready, .ready, .working, .ready, .none] ∧
    (List.range 6).map (upd0 cxM b1.live).tstate = [.finished, .ready, .ready, .working, .ready, .none] := by
  decide +kernel

/-- total slack of every task after `__update` -/
def slacks (l : Live) : List Rat := (List.range 6).map fun t => l.lst t - l.est t

/-- **the slack is not shift invariant on these reachable states**: run B (time 1) gives `G`
the slack 4 and `H` the slack 2; run A (time 2, same remaining work) gives `G` the slack 0 and `H`
the slack 2.  In run A the value `lft(P) = 0` stored along the SS link from `O1` survives (and
`lft(G) = 0`); in run B it is `−1`, is overwritten along the FS link from `O2`, and `lft(P) = 3`. -/
theorem cx_slack :
    slacks (update cxM 1 b1.live) = [2, 4, 2, 4, 0, 2] ∧
    slacks (update cxM 2 a2.live) = [0, 0, 2, 0, 0, 2] ∧
    (List.range 6).map (update cxM 1 b1.live).lft = [3, 3, 4, 3, 4, 4] ∧
    (List.range 6).map (update cxM 2 a2.live).lft = [2, 0, 5, 0, 5, 5] := by
  decide +kernel

/-- the same with `pert` applied to ONE state at two times (the form of
`Removal.pert_slack_shift`): `l' = l`, `time = 1`, `d = 1` -/
theorem cx_slack_same_state :
    (pert cxM (1 + 1) (upd0 cxM b1.live)).lst 1 - (pert cxM (1 + 1) (upd0 cxM b1.live)).est 1 ≠
      (pert cxM 1 (upd0 cxM b1.live)).lst 1 - (pert cxM 1 (upd0 cxM b1.live)).est 1 := by
  decide +kernel

/-- **the order of `sort_task_list(TSLACK)` differs**: the READY / WORKING tasks `G, H, P, O1`
are sorted `O1, H, G, P` in run B and `G, P, O1, H` in run A — the free worker `0` goes to `H`
in run B and to `G` in run A. -/
theorem cx_order :
    sortTasks cxM (update cxM 1 b1.live) b1.logs .tslack [1, 2, 3, 4] = [4, 2, 1, 3] ∧
    sortTasks cxM (update cxM 2 a2.live) a2.logs .tslack [1, 2, 3, 4] = [1, 3, 4, 2] := by
  decide +kernel

end SlackShift
end PDesy
