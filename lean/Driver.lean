/-
  Driver — line protocol between the Python harness and the model's executable definitions.
  One request per line on stdin, one answer per line on stdout.  Run with
  `lake env lean --run Driver.lean`.
  Never defaults a malformed request: answers `bad-op <reason>`.
-/
import PDesy.Model.Ser
import PDesy.Model.Report
import PDesy.Model.Backward
import PDesy.Model.Persist
import PDesy.Model.SubProject

open PDesy

def applyPhase (m : Model) (name : String) (working autoFlag : Bool) (rule : TaskRule) (s : St) :
    Option St :=
  match name with
  | "finished" => some { s with live := chkFinished m s.live }
  | "comp" => some { s with live := compCheck m s.live }
  | "removed" => some { s with live := chkRemove m s.live }
  | "ready" => some { s with live := chkReady m s.live }
  | "pert" => some { s with live := pert m s.time s.live }
  | "absence" => some { s with live := absenceSet m s.time working s.live }
  | "allocate" => some { s with live := if working then allocate m s.logs rule s.live else s.live }
  | "working" => some { s with live := if working || autoFlag then chkWorking m s.live else s.live }
  | "cost" => some { s with logs := cost m working s.live s.logs }
  | "perform" => some { s with live := perform m working autoFlag s.live }
  | "record" => some { s with logs := record m working s.live s.logs }
  | "tick" => some { s with time := s.time + 1 }
  | "update" => some { s with live := update m s.time s.live }
  | _ => none

def getIds (m : Model) : P Ids := do
  let t ← getTab m.nT (0 : Nat); let w ← getTab m.nW (0 : Nat); let f ← getTab m.nF (0 : Nat)
  let a ← getTab m.nTeam (0 : Nat); let q ← getTab m.nWp (0 : Nat); let c ← getTab m.nC (0 : Nat)
  pure { task := t, worker := w, fac := f, team := a, wp := q, comp := c }

def putIvs (xs : List Iv) : List String := Wire.put xs

/-- pure-function calls: `FN <name> <args…>` -/
def fnCall (m : Model) : P (List String) := do
  let name ← tok
  match name with
  | "sortTasks" => do
    let rule : TaskRule ← Wire.get; let xs : List Nat ← Wire.get; let s ← getSt m
    pure (Wire.put (sortTasks m s.live s.logs rule xs))
  | "sortWorkers" => do
    let rule : ResRule ← Wire.get; let nm ← pNat; let target : Option Nat ← Wire.get
    let xs : List Nat ← Wire.get
    pure (Wire.put (sortWorkers m rule nm target xs))
  | "sortFacs" => do
    let rule : ResRule ← Wire.get; let nm ← pNat; let xs : List Nat ← Wire.get
    pure (Wire.put (sortFacs m rule nm xs))
  | "sortWps" => do
    let rule : WpRule ← Wire.get; let nm ← pNat; let xs : List Nat ← Wire.get; let s ← getSt m
    pure (Wire.put (sortWps m s.live rule nm xs))
  | "ganttT" => do
    let margin ← pRat; let log : List TS ← Wire.get
    let r := ganttT log margin
    pure (putIvs r.1 ++ putIvs r.2)
  | "ganttC" => do
    let margin ← pRat; let log : List CS ← Wire.get
    let r := ganttC log margin
    pure (putIvs r.1 ++ putIvs r.2)
  | "ganttR" => do
    let margin ← pRat; let log : List RS ← Wire.get
    let r := ganttR log margin
    pure (putIvs r.1 ++ putIvs r.2.1 ++ putIvs r.2.2)
  | "plotlyT" => do
    let init ← pRat; let unit ← pRat; let view : Bool ← Wire.get; let margin ← pRat
    let log : List TS ← Wire.get
    pure (Wire.put (plotlyRows init unit view (ganttT log margin)))
  | "plotlyC" => do
    let init ← pRat; let unit ← pRat; let view : Bool ← Wire.get; let margin ← pRat
    let log : List CS ← Wire.get
    pure (Wire.put (plotlyRows init unit view (ganttC log margin)))
  | "plotlyR" => do
    let init ← pRat; let unit ← pRat; let vr : Bool ← Wire.get; let va : Bool ← Wire.get; let margin ← pRat
    let log : List RS ← Wire.get
    pure (Wire.put (plotlyRowsR init unit vr va (ganttR log margin)))
  | "extractT" => do
    let st : TS ← Wire.get; let times : List Nat ← Wire.get; let s ← getSt m
    pure (Wire.put (extractIdx m.nT s.logs.tState times st))
  | "extractC" => do
    let st : CS ← Wire.get; let times : List Nat ← Wire.get; let s ← getSt m
    pure (Wire.put (extractIdx m.nC s.logs.cState times st))
  | "extractW" => do
    let st : RS ← Wire.get; let times : List Nat ← Wire.get; let ws : List Nat ← Wire.get; let s ← getSt m
    pure (Wire.put ((extractIdx m.nW s.logs.wState times st).filter (ws.contains ·)))
  | "extractF" => do
    let st : RS ← Wire.get; let times : List Nat ← Wire.get; let fs : List Nat ← Wire.get; let s ← getSt m
    pure (Wire.put ((extractIdx m.nF s.logs.fState times st).filter (fs.contains ·)))
  | "setLast" => do
    let last ← pRat; let unit ← pRat; let time ← pNat
    pure (Wire.put (setLastDatetime last unit time))
  | "canAdd" => do
    let t ← pNat; let w : Option Nat ← Wire.get; let f : Option Nat ← Wire.get; let s ← getSt m
    pure (Wire.put (canAdd m s.live t w f))
  | "canPut" => do
    let q ← pNat; let c ← pNat; let s ← getSt m
    pure (Wire.put (decide (availSpace m s.live q ≥ (m.comp c).size)))
  | "isReady" => do
    let c ← pNat; let s ← getSt m
    pure (Wire.put (isReady m s.live c))
  | "availSpace" => do
    let q ← pNat; let s ← getSt m
    pure (Wire.put (availSpace m s.live q))
  | "contrib" => do
    let t ← pNat; let s ← getSt m
    pure (Wire.put (contrib m s.live t))
  | "subcfg" => do
    -- status time absence costLen unit remove parentUnit  (starting from work 10, unit 60, rate 1)
    let status : Status ← Wire.get; let time ← pNat; let absence : List Nat ← Wire.get
    let costLen ← pNat; let unit ← pRat; let remove : Bool ← Wire.get; let parentUnit ← pRat
    let cfg0 : SubCfg := { work := 10, unit := 60, rate := 1, readFile := false, removeAbs := false }
    let (cfg1, warned) := configureSub cfg0 { status, time, absence, costLen, unit } remove
    let cfg2 := relateSub cfg1 parentUnit
    pure (Wire.put cfg2.work ++ Wire.put cfg2.unit ++ Wire.put cfg2.rate ++ Wire.put cfg2.readFile ++
          Wire.put cfg2.removeAbs ++ Wire.put warned)
  | _ => throw s!"unknown function {name}"

def handle (model : Option Model) (line : String) : Option Model × String :=
  let toks := (line.splitOn " ").filter (· ≠ "") |>.toArray
  if h : 0 < toks.size then
    let cmd := toks[0]
    let rest := toks.extract 1 toks.size
    match cmd with
    | "M" =>
      match getModel.run' rest with
      | .ok m => (some m, "ok")
      | .error e => (model, s!"bad-op {e}")
    | "PH" =>
      match model with
      | none => (model, "bad-op no model")
      | some m =>
        let p : P (String × Bool × Bool × TaskRule × St) := do
          let name ← tok; let working ← Wire.get; let autoFlag ← Wire.get; let rule ← Wire.get
          let s ← getSt m
          pure (name, working, autoFlag, rule, s)
        match p.run' rest with
        | .ok (name, working, autoFlag, rule, s) =>
          match applyPhase m name working autoFlag rule s with
          | some s' => (model, " ".intercalate (putSt m s'))
          | none => (model, s!"bad-op unknown phase {name}")
        | .error e => (model, s!"bad-op {e}")
    | "RUN" =>
      match model with
      | none => (model, "bad-op no model")
      | some m =>
        let p : P (Params × St) := do let ps ← getParams; let s ← getSt m; pure (ps, s)
        match p.run' rest with
        | .ok (ps, s) => (model, " ".intercalate (putSt m (simulate m ps s)))
        | .error e => (model, s!"bad-op {e}")
    | "INIT" =>
      match model with
      | none => (model, "bad-op no model")
      | some m =>
        let p : P (Bool × Bool × St) := do
          let a ← Wire.get; let b ← Wire.get; let s ← getSt m; pure (a, b, s)
        match p.run' rest with
        | .ok (a, b, s) => (model, " ".intercalate (putSt m (initProject m a b s)))
        | .error e => (model, s!"bad-op {e}")
    | "RM" =>
      match model with
      | none => (model, "bad-op no model")
      | some m =>
        match (getSt m).run' rest with
        | .ok s => (model, " ".intercalate (putSt m (removeAbs m s)))
        | .error e => (model, s!"bad-op {e}")
    | "INS" =>
      match model with
      | none => (model, "bad-op no model")
      | some m =>
        let p : P (List Nat × St) := do let l ← Wire.get; let s ← getSt m; pure (l, s)
        match p.run' rest with
        | .ok (l, s) => (model, " ".intercalate (putSt m (insertAbs m l s)))
        | .error e => (model, s!"bad-op {e}")
    | "REV" =>
      match model with
      | none => (model, "bad-op no model")
      | some m =>
        match (getSt m).run' rest with
        | .ok s => (model, " ".intercalate (putSt m (reverseLogs m s)))
        | .error e => (model, s!"bad-op {e}")
    | "BWD" =>
      match model with
      | none => (model, "bad-op no model")
      | some m =>
        let p : P (Params × Bool × Bool × St) := do
          let ps ← getParams; let a ← Wire.get; let b ← Wire.get; let s ← getSt m; pure (ps, a, b, s)
        match p.run' rest with
        | .ok (ps, a, b, s) =>
          (model, " ".intercalate (putSt m (backwardSimulate m ps a b s) ++ putModel (restored m a)))
        | .error e => (model, s!"bad-op {e}")
    | "EXP" =>
      match model with
      | none => (model, "bad-op no model")
      | some m =>
        let p : P (Ids × St) := do let ids ← getIds m; let s ← getSt m; pure (ids, s)
        match p.run' rest with
        | .ok (ids, s) =>
          match exportP ids m s with
          | some (m', s') => (model, " ".intercalate (putModel m' ++ putSt m' s'))
          | none => (model, "fail")
        | .error e => (model, s!"bad-op {e}")
    | "IMP" =>
      let p : P (Ids × Model × St) := do
        let sm ← getModel; let ids ← getIds sm; let ss ← getSt sm; pure (ids, sm, ss)
      match p.run' rest with
      | .ok (ids, sm, ss) =>
        match importP ids sm ss with
        | some (m', s') => (model, " ".intercalate (putModel m' ++ putSt m' s'))
        | none => (model, "fail")
      | .error e => (model, s!"bad-op {e}")
    | "FN" =>
      match model with
      | none => (model, "bad-op no model")
      | some m =>
        match (fnCall m).run' rest with
        | .ok out => (model, " ".intercalate out)
        | .error e => (model, s!"bad-op {e}")
    | _ => (model, s!"bad-op unknown command {cmd}")
  else (model, "bad-op empty line")

partial def loopIO (h : IO.FS.Stream) (out : IO.FS.Stream) (model : Option Model) : IO Unit := do
  let line ← h.getLine
  if line.isEmpty then return ()
  let (model', ans) := handle model (line.trimAscii.toString)
  out.putStrLn ans
  out.flush
  loopIO h out model'

def main : IO Unit := do
  loopIO (← IO.getStdin) (← IO.getStdout) none
