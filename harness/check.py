#!/venv/bin/python
"""Entry point of every check:  check.py <Cxx> [--tier quick|thorough] [--replay <path>]

Verdict logic (DESIGN.md section 4):
  1. proof obligations of the property (lake build, forbidden-token scan, #print axioms);
  2. correspondence between the Lean model and /repo's working tree on the property's footprint;
  3. the property's executable predicate on every real trace produced in step 2;
  4. exit 0 / VIOLATION (with a failing input when one is found, else `no-failing-input-found`);
  5. evidence/<id>.json.
Exit codes: 0 held, 1 violation, 2 infrastructure failure.
"""
import sys
import os

sys.path.insert(0, os.path.dirname(os.path.abspath(__file__)))
import argparse
import json
import time
import traceback

T0 = time.time()
VERIF = os.path.dirname(os.path.dirname(os.path.abspath(__file__)))


def infra(msg):
    print("INFRASTRUCTURE-FAILURE: " + msg)
    sys.exit(2)


try:
    import env  # noqa: F401  (imports pDESy from /repo with the hook on)
    import audit
    import simstream
    import props
except Exception as e:  # pragma: no cover
    traceback.print_exc()
    infra("harness import failed: %s" % e)

TRUSTED_BASE = [
    "Lean 4.33 kernel (thorough tier re-checks the property modules with leanchecker)",
    "axioms of every listed theorem ⊆ {propext, Classical.choice, Quot.sound}; no native_decide/bv_decide/sorry/own axioms (audited on every run)",
    "the hand-written Lean model lean/PDesy/Model/*.lean is NOT trusted to equal the code: its correspondence with /repo is checked on every run, on sampled inputs only (coverage reported below)",
    "harness: harness/real.py snapshot + ID/enum/Fraction canonicalisation, harness/codec.py token codec, lean/PDesy/Model/Ser.lean, lean/Driver.lean, the PDESY_VERIF observer hook (add-only call sites in base_project.py)",
    "CPython semantics assumed: sorted() stable, list.remove/insert/pop, numpy.random.normal(m, 0) = m",
    "not modelled: float rounding and numeric tolerances (exact rationals on a dyadic grid instead), exceptions, object identity/hash seeds (explicit iteration order instead), JSON text/file I/O, plotting",
]


def load_known():
    path = os.path.join(VERIF, "known_findings.json")
    if not os.path.exists(path):
        return []
    return json.load(open(path)).get("findings", [])


def main():
    ap = argparse.ArgumentParser()
    ap.add_argument("prop")
    ap.add_argument("--tier", default=os.environ.get("VERIF_TIER", "quick"), choices=["quick", "thorough"])
    ap.add_argument("--replay", default=None)
    ap.add_argument("--n", type=int, default=None, help="override the number of generated cases")
    args = ap.parse_args()
    pid = args.prop
    seed = int(os.environ.get("VERIF_SEED", "0"))
    if pid not in props.REGISTRY:
        infra("unknown property %s" % pid)
    P = props.REGISTRY[pid]

    if args.replay:
        rc = props.replay(pid, args.replay)
        sys.exit(rc)

    # VERIF_OUT: where evidence/ and replays/ are written (default: /verif itself; runs against a patched
    # copy of the repository write elsewhere, so that they never overwrite evidence of the unchanged tree)
    OUT = os.environ.get("VERIF_OUT", VERIF)
    os.makedirs(os.path.join(OUT, "evidence"), exist_ok=True)
    os.makedirs(os.path.join(OUT, "replays"), exist_ok=True)

    # 1. proof obligations
    aud = audit.audit(pid, with_checker=(args.tier == "thorough"))

    # 2 + 3. correspondence and predicates
    ctx = props.Context(pid=pid, seed=seed, tier=args.tier, n_override=args.n)
    try:
        import fingerprint
        ctx.changed_source = fingerprint.changed()
    except Exception as e:
        ctx.changed_source = ["fingerprint failed: %r" % e]
    if ctx.changed_source and args.tier == "quick" and args.n is None:
        ctx.budget = 4      # the code under the model has moved: exercise the tie harder
    crashed = None
    try:
        P["run"](ctx)
    except SystemExit:
        raise
    except Exception as e:
        traceback.print_exc()
        crashed = "stream crashed: %s: %s\n%s" % (type(e).__name__, e, traceback.format_exc()[-1500:])
    if ctx.infra and not crashed:
        for m in ctx.infra[:5]:
            print("INFRA:", m)
        crashed = "%d case(s) failed inside the harness; first: %s" % (len(ctx.infra), ctx.infra[0])
    if crashed:
        # On the code the model was validated against, a crash of the machinery is an infrastructure failure
        # (exit 2, never a verdict).  When the modelled functions have changed since then, the correspondence
        # check could not be carried out on this code: the tie is broken, which is reported like any other
        # broken correspondence (the search below still looks for a failing input in what did run).
        if not ctx.changed_source:
            infra(crashed.splitlines()[0])
        ctx.footprint_disagreements.append(dict(phase="harness", detail=crashed,
                                                note="the correspondence check could not run to the end on this (changed) code"))

    # 4. decision
    known = [k for k in load_known() if k.get("property") == pid and k.get("status") == "finding"]
    violations = []       # real failing inputs (not known)
    known_hit = []
    for v in ctx.violations:
        kk = props.match_known(v, known)
        if kk is not None:
            known_hit.append((kk, v))
        else:
            violations.append(v)
    for kk in known:
        hits = [v for k2, v in known_hit if k2 is kk]
        if hits or props.known_still_fails(kk):
            print("KNOWN-FINDING: property=%s %s" % (pid, kk.get("what", kk.get("id", ""))))
    exit_code = 0
    lines = []
    if violations:
        v = violations[0]
        path = os.path.join(OUT, "replays", "%s-%d.json" % (pid, seed))
        json.dump(dict(property=pid, kind="failing-input", seed=seed, tier=args.tier, violation=v,
                       others=violations[1:5]), open(path, "w"), indent=1, default=str)
        lines.append("VIOLATION property=%s replay=%s" % (pid, os.path.relpath(path, OUT)))
        exit_code = 1
    else:
        broken = []
        for f in aud["failures"]:
            broken.append(dict(kind="proof-obligation", detail=f))
        if aud["obligations"] == 0:
            broken.append(dict(kind="proof-obligation", detail="no theorem registered for %s" % pid))
        for d in ctx.footprint_disagreements:
            broken.append(dict(kind="correspondence", detail=d))
        if broken:
            # search harder for a failing input before reporting "no longer shown to hold"
            extra = props.widen_search(ctx)
            extra = [v for v in extra if props.match_known(v, known) is None]
            path = os.path.join(OUT, "replays", "%s-%d.json" % (pid, seed))
            if extra:
                json.dump(dict(property=pid, kind="failing-input", seed=seed, tier=args.tier, violation=extra[0],
                               broken=broken[:10]), open(path, "w"), indent=1, default=str)
                lines.append("VIOLATION property=%s replay=%s" % (pid, os.path.relpath(path, OUT)))
            else:
                json.dump(dict(property=pid, kind="no-longer-shown", seed=seed, tier=args.tier,
                               no_longer_checks=broken[:20],
                               note="the theorem(s) or the model/code correspondence named here no longer check; "
                                    "the search found no input on which the property itself fails"),
                          open(path, "w"), indent=1, default=str)
                lines.append("VIOLATION property=%s replay=%s no-failing-input-found" % (pid, os.path.relpath(path, OUT)))
            exit_code = 1

    # 5. evidence
    cov = dict(
        obligations=aud["obligations"], discharged=aud["discharged"], checker_cmd=aud["checker_cmd"],
        trusted_base=TRUSTED_BASE, theorems=aud["theorems"],
        evaluations=ctx.evaluations, distinct_nontrivial=ctx.distinct_nontrivial, rule=ctx.rule,
        samples=ctx.samples[:3], traces_validated_against_impl=ctx.traces_validated,
        correspondence=ctx.matrix, distribution=ctx.distribution,
        footprint=P.get("footprint_doc", ""), proof_failures=aud["failures"][:10],
        source_changed_since_model_validated=ctx.changed_source[:40], budget_multiplier=ctx.budget,
    )
    ev = dict(property_id=pid, tier=args.tier, seed=seed, level="proof", coverage=cov,
              assumptions=P.get("assumptions", []), wall_s=round(time.time() - T0, 2),
              violations=len(violations) + (1 if exit_code == 1 and not violations else 0))
    json.dump(ev, open(os.path.join(OUT, "evidence", "%s.json" % pid), "w"), indent=1, default=str)
    for ln in lines:
        print(ln)
    print("%s %s tier=%s seed=%d obligations=%d/%d evaluations=%d distinct_nontrivial=%d disagreements(footprint)=%d wall=%.1fs" % (
        pid, "OK" if exit_code == 0 else "FAILED", args.tier, seed, aud["discharged"], aud["obligations"],
        ctx.evaluations, ctx.distinct_nontrivial, len(ctx.footprint_disagreements), time.time() - T0))
    sys.exit(exit_code)


if __name__ == "__main__":
    main()
