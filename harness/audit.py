"""Proof-obligation audit: build, forbidden-token scan, `#print axioms` of every theorem
listed for a property in lean/obligations.json."""
import json
import os
import re
import subprocess
import tempfile

VERIF = os.path.dirname(os.path.dirname(os.path.abspath(__file__)))
LEAN_DIR = os.path.join(VERIF, "lean")
ALLOWED = {"propext", "Classical.choice", "Quot.sound"}
FORBIDDEN = re.compile(r"\bsorry\b|\badmit\b|^\s*axiom\s|\bnative_decide\b|\bbv_decide\b|implemented_by|\bunsafe\s|maxHeartbeats\s+0\b",
                       re.M)


def strip_comments(src):
    out = []
    i, n, depth = 0, len(src), 0
    while i < n:
        if src.startswith("/-", i):
            depth += 1
            i += 2
        elif depth and src.startswith("-/", i):
            depth -= 1
            i += 2
        elif depth:
            if src[i] == "\n":
                out.append("\n")
            i += 1
        elif src.startswith("--", i):
            while i < n and src[i] != "\n":
                i += 1
        elif src[i] == '"':
            j = i + 1
            while j < n and src[j] != '"':
                j += 2 if src[j] == "\\" else 1
            out.append('""')
            i = j + 1
        else:
            out.append(src[i])
            i += 1
    return "".join(out)


def load_obligations():
    with open(os.path.join(LEAN_DIR, "obligations.json")) as f:
        return json.load(f)


def imported_modules():
    """modules reachable from PDesy.lean (the library root) — what the audit covers"""
    seen, todo = set(), ["PDesy"]
    while todo:
        mod = todo.pop()
        if mod in seen:
            continue
        path = os.path.join(LEAN_DIR, mod.replace(".", "/") + ".lean")
        if not os.path.exists(path):
            continue
        seen.add(mod)
        for line in open(path):
            mm = re.match(r"\s*import\s+(PDesy[\w.]*)", line)
            if mm:
                todo.append(mm.group(1))
    return sorted(seen)


def scan_forbidden():
    hits = []
    files = [os.path.join(LEAN_DIR, m.replace(".", "/") + ".lean") for m in imported_modules()]
    files.append(os.path.join(LEAN_DIR, "Driver.lean"))
    for path in files:
        src = strip_comments(open(path).read())
        for mm in FORBIDDEN.finditer(src):
            line = src.count("\n", 0, mm.start()) + 1
            hits.append("%s:%d: %s" % (os.path.relpath(path, VERIF), line, mm.group(0).strip()))
    return hits


def build():
    """`lake build` (a no-op when up to date); returns (ok, tail of output)"""
    r = subprocess.run(["lake", "build"], cwd=LEAN_DIR, capture_output=True, text=True)
    tail = "\n".join((r.stdout + r.stderr).strip().splitlines()[-15:])
    return r.returncode == 0, tail


def print_axioms(theorems):
    """returns {theorem: sorted axiom list} or {theorem: None} when it does not exist / errors"""
    src = "import PDesy\n" + "".join("#print axioms %s\n" % t for t in theorems)
    with tempfile.NamedTemporaryFile("w", suffix=".lean", dir=LEAN_DIR, delete=False, prefix=".audit_") as f:
        f.write(src)
        path = f.name
    try:
        r = subprocess.run(["lake", "env", "lean", path], cwd=LEAN_DIR, capture_output=True, text=True)
    finally:
        os.unlink(path)
    text = r.stdout + r.stderr
    res = {t: None for t in theorems}
    for mm in re.finditer(r"'([^']+)' depends on axioms: \[([^\]]*)\]", text):
        res[mm.group(1)] = sorted(a.strip() for a in mm.group(2).replace("\n", " ").split(",") if a.strip())
    for mm in re.finditer(r"'([^']+)' does not depend on any axioms", text):
        res[mm.group(1)] = []
    return res, text


def audit(prop_id, with_checker=False):
    """returns dict(obligations, discharged, failures[], theorems{name: axioms}, checker_cmd)"""
    obl = load_obligations().get(prop_id, {})
    theorems = obl.get("theorems", [])
    failures = []
    ok, tail = build()
    if not ok:
        failures.append("lake build failed:\n" + tail)
    hits = scan_forbidden()
    for h in hits:
        failures.append("forbidden token: " + h)
    axioms = {}
    if ok and theorems:
        axioms, text = print_axioms(theorems)
    discharged = 0
    for t in theorems:
        ax = axioms.get(t)
        if ax is None:
            failures.append("theorem %s does not check (missing or error)" % t)
        elif not set(ax) <= ALLOWED:
            failures.append("theorem %s depends on %s" % (t, sorted(set(ax) - ALLOWED)))
        elif not hits and ok:
            discharged += 1
    checker = "cd lean && lake build && lake env lean <file with `#print axioms` of each listed theorem>"
    if with_checker and ok:
        mods = obl.get("modules", [])
        if mods:
            r = subprocess.run(["lake", "env", "leanchecker"] + mods, cwd=LEAN_DIR, capture_output=True, text=True)
            checker += " && lake env leanchecker " + " ".join(mods)
            if r.returncode != 0:
                failures.append("leanchecker failed: " + (r.stdout + r.stderr)[-400:])
                discharged = 0
    return dict(obligations=len(theorems), discharged=discharged, failures=failures,
                theorems={t: axioms.get(t) for t in theorems}, checker_cmd=checker)
