"""Fixture stream: the project models that pDESy's own test-suite builds (the pytest fixtures of
tests/model/test_base_project.py that yield a flat product) are run under every task priority rule,
with and without project absence steps, and compared phase by phase and as whole runs with the Lean
model, like every generated model.  Ties the model to the maintainers' own examples (place check,
space judge, conveyor) rather than only to inputs of our generator."""
from env import *  # noqa: F401,F403
import env
import importlib
import inspect
import sys

import preds
from lockstep import Recorder, real_simulate, lockstep, free_run
from real import Index, extract_model, snapshot, Unsupported

MODULES = ["tests.model.test_base_project", "tests.model.test_base_subproject_task"]


def fixture_functions():
    if env.REPO not in sys.path:
        sys.path.insert(0, env.REPO)
    out = []
    for mn in MODULES:
        try:
            mod = importlib.import_module(mn)
        except Exception:
            continue
        for name, obj in sorted(vars(mod).items()):
            if name.startswith("test_"):
                continue
            f = getattr(obj, "__wrapped__", None)
            if f is None and hasattr(obj, "_get_wrapped_function"):
                try:
                    f = obj._get_wrapped_function()
                except Exception:
                    f = None
            if f is None or not callable(f):
                continue
            try:
                if any(p.default is inspect._empty for p in inspect.signature(f).parameters.values()):
                    continue
                o = f()
            except Exception:
                continue
            if isinstance(o, BaseProject):
                out.append(("%s.%s" % (mn, name), f))
    return out


def run_fixtures(drv, prop_ids):
    """returns list of result dicts shaped like simstream.evaluate's (plus 'name')"""
    results = []
    for name, f in fixture_functions():
        probe = f()
        if any(c.child_component_list or c.parent_component_list for c in probe.product.component_list):
            continue      # nested products are outside the model
        for rule in range(9):
            for absence in ([], [1, 3]):
                project = f()
                params = dict(rule=rule, absence=absence, autoFlag=False, maxTime=100, initState=True, initLog=True)
                res = dict(name=name, params=params, dis=[], viol=[], stats={}, exc=None, steps=0)
                try:
                    ix = Index(project)
                    model = extract_model(project, ix)
                    pre = snapshot(project, ix)
                except Unsupported as e:   # the real objects are in a state the model cannot represent
                    res["exc"] = "Unsupported: %s" % e
                    res["dis"].append(dict(phase="exception", fields=["*"], time=None, detail="state outside the model: %s" % e))
                    results.append(res)
                    continue
                rec = Recorder(ix)
                try:
                    real_simulate(project, params, rec)
                except Exception as e:
                    res["exc"] = "%s: %s" % (type(e).__name__, e)
                    res["dis"].append(dict(phase="exception", fields=["*"], time=None, detail=res["exc"]))
                try:
                    final = snapshot(project, ix)
                except Unsupported as e:
                    res["exc"] = "Unsupported: %s" % e
                    res["dis"].append(dict(phase="exception", fields=["*"], time=None, detail="state outside the model: %s" % e))
                    results.append(res)
                    continue
                st = {}
                for d in lockstep(drv, model, params, pre, rec.snaps, st):
                    res["dis"].append(dict(phase=d["phase"], fields=d["fields"], time=d["time"]))
                res["stats"] = st
                if res["exc"] is None and not res["dis"]:
                    fr, _ = free_run(drv, model, params, pre, final)
                    if fr:
                        res["dis"].append(dict(phase="free-run", fields=fr, time=None))
                run = dict(pre=pre, snaps=rec.snaps, final=final, exc=res["exc"])
                for pid in prop_ids:
                    fp = preds.PREDS.get(pid)
                    if fp is not None:
                        try:
                            res["viol"].extend(fp(model, params, run)[:2])
                        except Exception as e:
                            res["viol"].append(dict(property=pid, what="PREDICATE-CRASH %s: %s" % (type(e).__name__, e)))
                res["steps"] = final["time"]
                results.append(res)
    return results
