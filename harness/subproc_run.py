"""Runs cases (JSON on stdin) in this fresh process and prints the digests of the results."""
import sys, os, json
sys.path.insert(0, os.path.dirname(os.path.abspath(__file__)))
from env import *  # noqa
from lockstep import real_simulate
from real import build, snapshot, Index
from histprops import digest
cases = json.load(sys.stdin)
out = []
for c in cases:
    try:
        p = build(c["spec"])
        real_simulate(p, c["params"])
        out.append(digest(snapshot(p, Index(p))))
    except Exception as e:
        out.append("EXC %r" % e)
print(json.dumps(out))
