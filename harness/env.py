"""Import guard: always import pDESy from /repo's working tree with the hook on.

/venv/lib/python3.12/site-packages holds a stale *copy* of pDESy; a script outside /repo
would silently import it.  Every harness entry point imports this module first.
"""
import os
import sys
import warnings

REPO = os.environ.get("PDESY_REPO", "/repo")
os.environ["PDESY_VERIF"] = "1"
if REPO in sys.path:
    sys.path.remove(REPO)
sys.path.insert(0, REPO)
warnings.filterwarnings("ignore")

import pDESy  # noqa: E402

assert os.path.realpath(pDESy.__file__).startswith(os.path.realpath(REPO) + os.sep), (
    "pDESy imported from %s, not from %s" % (pDESy.__file__, REPO)
)

from pDESy.model import base_project as bp  # noqa: E402
from pDESy.model.base_project import BaseProject, BaseProjectStatus, SimulationMode  # noqa: E402
from pDESy.model.base_task import BaseTask, BaseTaskState, BaseTaskDependency  # noqa: E402
from pDESy.model.base_subproject_task import BaseSubProjectTask  # noqa: E402
from pDESy.model.base_worker import BaseWorker, BaseWorkerState  # noqa: E402
from pDESy.model.base_facility import BaseFacility, BaseFacilityState  # noqa: E402
from pDESy.model.base_team import BaseTeam  # noqa: E402
from pDESy.model.base_workplace import BaseWorkplace  # noqa: E402
from pDESy.model.base_component import BaseComponent, BaseComponentState  # noqa: E402
from pDESy.model.base_product import BaseProduct  # noqa: E402
from pDESy.model.base_workflow import BaseWorkflow  # noqa: E402
from pDESy.model.base_organization import BaseOrganization  # noqa: E402
from pDESy.model.base_priority_rule import (  # noqa: E402
    TaskPriorityRuleMode,
    ResourcePriorityRuleMode,
    WorkplacePriorityRuleMode,
)
from pDESy.model import base_priority_rule as pr  # noqa: E402

assert bp._VERIF_ON, "hook guard PDESY_VERIF is not on (hook commit missing from /repo?)"

VERIF = os.path.dirname(os.path.dirname(os.path.abspath(__file__)))
