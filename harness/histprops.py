"""History-based property runners (C08 histories, C09, C10 clause 3, C15, C17, C18)."""
from env import *  # noqa: F401,F403
import env
import copy
import json
import os
import random
import subprocess
import sys
import tempfile

import codec
import gen
import preds
from driver import Driver
from histories import run_history, apply_real, gen_ops
from lockstep import real_simulate, Recorder, Crash, CrashBase
from real import build, extract_model, snapshot, Index, TASK_RULES

HERE = os.path.dirname(os.path.abspath(__file__))


def case_of(seed, i, profile="full"):
    rng = random.Random(seed * 999983 + i * 101 + 7)
    spec = gen.gen_spec(rng, profile)
    params = gen.gen_params(rng, spec)
    return rng, spec, params


def record_dis(ctx, h, case):
    for d in h["dis"]:
        cell = ctx.matrix.setdefault(d["phase"], dict(executions=0, disagreements=0))
        cell["disagreements"] += 1
        ctx.footprint_disagreements.append(dict(case=case, phase=d["phase"], fields=d["fields"], detail=d.get("detail"), op_index=d.get("op_index")))


def count_ops(ctx, ops):
    for o in ops:
        cell = ctx.matrix.setdefault("history:" + o["op"], dict(executions=0, disagreements=0))
        cell["executions"] += 1


LOGF = [f for f, _, _ in codec.LOGS]


def same_result(a, b, fields=None):
    """fields in which two final states differ (logs, time, status by default)"""
    fields = fields or (LOGF + ["time", "status"])
    return codec.diff_states(a, b, fields)


def finish(ctx, n_eval, fps, what):
    ctx.evaluations = n_eval
    ctx.traces_validated = n_eval
    ctx.distinct_nontrivial = len(fps)
    ctx.rule = what


# ---- C08: alignment over histories ---------------------------------------------------------------

def run_c08_hist(ctx, drv, n):
    fps = set()
    for i in range(n):
        rng, spec, params = case_of(ctx.seed, i)
        ops = gen_ops(rng, spec, params, "c08")
        case = dict(stream="hist-c08", seed=ctx.seed, index=i, ops=ops)
        h = run_history(spec, ops, drv)
        count_ops(ctx, ops)
        record_dis(ctx, h, case)
        for s in h["structure"]:
            ctx.footprint_disagreements.append(dict(case=case, phase="structure", detail=s))
        for k, st in enumerate(h["states"]):
            bad = preds.aligned(h["model"], st)
            if bad:
                ctx.violations.append(dict(property="C08", what="after op %d (%s): %s" % (k, ops[k]["op"], bad), case=dict(case, spec=spec)))
                break
        if len(ops) >= 2 and any(st["time"] >= 2 for st in h["states"]):
            fps.add(json.dumps([spec, ops], sort_keys=True, default=str))
        if len(ctx.samples) < 2:
            ctx.samples.append(dict(stream="hist-c08", ops=ops))
    return n, fps


# ---- C15 -------------------------------------------------------------------------------------------

def run_c15(ctx):
    n = ctx.n(40, 1500)
    fps = set()
    n_eval = 0
    with Driver() as drv:
        for i in range(n):
            rng, spec, params = case_of(ctx.seed, i)
            M = 40
            p_full = dict(params, maxTime=M, initState=True, initLog=True)
            base = run_history(spec, [dict(op="sim", params=p_full)], drv)
            case = dict(stream="c15", seed=ctx.seed, index=i, spec=spec, params=p_full)
            record_dis(ctx, base, case)
            if not base["states"] or base["exc"][0]:
                continue
            F = base["states"][-1]
            makespan = F["time"]
            ks = [k for k in range(0, makespan + 2) if k <= M]
            if ctx.tier == "quick" and len(ks) > 5:
                ks = sorted(set([0, 1, makespan, min(makespan + 1, M)] + rng.sample(ks, 2)))
            for k in ks:
                n_eval += 1
                ops = [dict(op="sim", params=dict(p_full, maxTime=k)),
                       dict(op="sim", params=dict(p_full, initState=False, initLog=False))]
                h = run_history(spec, ops, drv)
                count_ops(ctx, ops)
                record_dis(ctx, h, dict(case, pause=k))
                if len(h["states"]) == 2:
                    d = same_result(h["states"][-1], F)
                    if d:
                        ctx.violations.append(dict(property="C15", what="pausing at step %d and resuming differs from the uninterrupted run in %s" % (k, d[:6]),
                                                   case=dict(case, pause=k)))
                # through a JSON file
                if k in (ks[0], ks[len(ks) // 2], ks[-1]):
                    n_eval += 1
                    json_resume.persist_diff = None
                    bad = json_resume(spec, p_full, k, F)
                    cell = ctx.matrix.setdefault("persist:load(save(paused))", dict(executions=0, disagreements=0))
                    cell["executions"] += 1
                    if json_resume.persist_diff:
                        cell["disagreements"] += 1
                        ctx.footprint_disagreements.append(dict(case=dict(case, pause=k, via="json"), phase="persist",
                                                                fields=json_resume.persist_diff, detail="the project read back from JSON differs from the paused one"))
                    if bad:
                        ctx.violations.append(dict(property="C15", what="pausing at step %d, saving to JSON, loading and resuming: %s" % (k, bad),
                                                   case=dict(case, pause=k, via="json")))
            if makespan >= 2:
                fps.add(json.dumps([spec, p_full], sort_keys=True))
            if len(ctx.samples) < 2:
                ctx.samples.append(dict(stream="c15", spec=spec, params=p_full, makespan=makespan))
    finish(ctx, n_eval, fps, "random models; the uninterrupted run is compared with pause-at-k + resume for k = 0..makespan+1 (quick: 0, 1, makespan, "
                           "makespan+1 and two random k), in memory and — for three k per model — through write_simple_json/read_simple_json; every op is "
                           "also mirrored in the model; non-trivial = makespan >= 2; distinct = distinct (spec, params)")


def json_resume(spec, p_full, k, F):
    project = build(spec, plain=True)   # the saved format only knows the classes BaseTask / BaseSubProjectTask
    try:
        real_simulate(project, dict(p_full, maxTime=k))
        with tempfile.TemporaryDirectory() as d:
            path = os.path.join(d, "p.json")
            project.write_simple_json(path)
            q = BaseProject()
            q.read_simple_json(path)
        # the JSON clause rests on "load(save(x)) = x" (C16): check that tie here as well
        m0, m1 = extract_model(project), extract_model(q)
        if m0 != m1:
            json_resume.persist_diff = [k_ for k_ in m0 if m0[k_] != m1[k_]]
        elif codec.diff_states(snapshot(project, Index(project)), snapshot(q, Index(q))):
            json_resume.persist_diff = codec.diff_states(snapshot(project, Index(project)), snapshot(q, Index(q)))
        real_simulate(q, dict(p_full, initState=False, initLog=False))
        st = snapshot(q, Index(q))
    except Exception as e:
        return "raised %s: %s" % (type(e).__name__, e)
    d = same_result(st, F)
    return ("differs from the uninterrupted run in %s" % d[:6]) if d else None


# ---- C17 -------------------------------------------------------------------------------------------

def structure_ids(project):
    wf, org = project.workflow, project.organization
    return ([id(t) for t in wf.task_list],
            [[(id(x), int(d)) for x, d in t.input_task_list] for t in wf.task_list],
            [[(id(x), int(d)) for x, d in t.output_task_list] for t in wf.task_list],
            [[id(x) for x in q.input_workplace_list] for q in org.workplace_list],
            [[id(x) for x in q.output_workplace_list] for q in org.workplace_list])


def run_c17(ctx):
    n = ctx.n(40, 1200)
    fps = set()
    n_eval = 0
    with Driver() as drv:
        for i in range(n):
            rng, spec, params = case_of(ctx.seed, i)
            p = dict(params, maxTime=40, initState=True, initLog=True)
            due, rev = rng.random() < 0.6, rng.random() < 0.7
            case = dict(stream="c17", seed=ctx.seed, index=i, spec=spec, params=p, due=due, reverse=rev)
            fresh = run_history(spec, [dict(op="sim", params=p)], None)
            if not fresh["states"] or fresh["exc"][0]:
                continue
            F = fresh["states"][-1]
            # (a) + (b): backward then forward
            ops = [dict(op="bwd", params=p, due=due, reverse=rev), dict(op="sim", params=p)]
            project = build(spec)
            ix = Index(project)
            ids0 = structure_ids(project)
            n_eval += 1
            h = run_history(spec, ops, drv)
            count_ops(ctx, ops)
            record_dis(ctx, h, case)
            for s in h["structure"]:
                ctx.violations.append(dict(property="C17", what="backward_simulate changed the model: " + s, case=case))
            if len(h["states"]) == 2:
                bad = preds.aligned(h["model"], h["states"][0])
                if bad:
                    ctx.violations.append(dict(property="C17", what="logs not aligned after backward_simulate: " + bad, case=case))
                d = same_result(h["states"][1], F)
                if d:
                    ctx.violations.append(dict(property="C17", what="forward simulate after backward_simulate differs from a fresh forward run in %s" % d[:6], case=case))
                b = h["states"][0]
                if rev and b["status"] == 1:
                    bad = reversed_order_ok(h["model"], b)
                    if bad:
                        ctx.violations.append(dict(property="C17", what=bad, case=case))
            # object identity of the restored lists
            e = apply_real(project, ops[0])
            if e is None and structure_ids(project) != ids0:
                ctx.violations.append(dict(property="C17", what="backward_simulate did not restore the same objects in the same order", case=case))
            # (c) crash at observer call j
            probe = build(spec)
            rec = Recorder(Index(probe))
            apply_real(probe, ops[0], rec)
            total = rec.n
            js = list(range(total)) if ctx.tier == "thorough" and total <= 400 else sorted(set([0, 1, total - 1] + [rng.randrange(total) for _ in range(5)])) if total else []
            for j in js:
                n_eval += 1
                pr = build(spec)
                ids1 = structure_ids(pr)
                m0 = extract_model(pr)
                # alternately an Exception and a BaseException (KeyboardInterrupt-like) abort
                cr = Recorder(Index(pr), crash_at=j, crash_cls=(CrashBase if n_eval % 2 else Crash))
                e = apply_real(pr, ops[0], cr)
                cell = ctx.matrix.setdefault("crash-injection", dict(executions=0, disagreements=0))
                cell["executions"] += 1
                if not isinstance(e, (Crash, CrashBase)):
                    continue
                if structure_ids(pr) != ids1 or extract_model(pr) != m0:
                    ctx.violations.append(dict(property="C17", what="exception at observer call %d of the inner run: predecessor/successor or workplace lists (or a helper task) not restored" % j,
                                               case=dict(case, crash_at=j)))
                    break
                e2 = apply_real(pr, dict(op="sim", params=p))
                st = snapshot(pr, Index(pr))
                d = same_result(st, F)
                if e2 is not None or d:
                    ctx.violations.append(dict(property="C17", what="forward simulate after an aborted backward_simulate (crash at call %d) differs from a fresh run in %s" % (j, (d or [str(e2)])[:6]),
                                               case=dict(case, crash_at=j)))
                    break
            if F["time"] >= 2:
                fps.add(json.dumps([spec, p, due, rev], sort_keys=True))
            if len(ctx.samples) < 2:
                ctx.samples.append(dict(stream="c17", spec=spec, params=p, due=due, reverse=rev))
    finish(ctx, n_eval, fps, "random models; backward_simulate with both option flags and random due times, then forward simulate, compared with a fresh "
                           "forward run; object identity and order of every dependency list before/after; an exception (alternately an Exception and a BaseException subclass) injected by the observer at "
                           "observer call j of the inner run (quick: first, second, last and five random j; thorough: every j) followed by a forward run; "
                           "every op mirrored in the model; non-trivial = forward makespan >= 2")


def reversed_order_ok(model, st):
    for s, tk in enumerate(model["tasks"]):
        for p_, d in tk["inputs"]:
            if d != 0:
                continue
            wp = [k for k, x in enumerate(st["tState"][p_]) if x == 2]
            ws = [k for k, x in enumerate(st["tState"][s]) if x == 2]
            if wp and ws and max(wp) >= min(ws):
                return "reversed backward log: task %d is WORKING at step %d before its FS predecessor %d stopped WORKING (step %d)" % (s, min(ws), p_, max(wp))
    return None


# ---- C18 -------------------------------------------------------------------------------------------

def run_c18(ctx):
    n = ctx.n(80, 3000)
    fps = set()
    n_eval = 0
    with Driver() as drv:
        for i in range(n):
            rng, spec, params = case_of(ctx.seed, i)
            p = dict(params, maxTime=40, initState=True, initLog=True)
            ops = [dict(op="sim", params=p)]
            # index lists are drawn relative to the run length and to the recorded absence steps:
            # steps inside, exactly at, just past and far past the end, and repeats of present ones
            probe = run_history(spec, [dict(op="sim", params=p)], None)
            T = probe["states"][0]["time"] if probe["states"] else 5
            present = [a for a in p["absence"]] or [0]
            pool = [0, 0, 1, 2, 3, max(T - 1, 0), T, T, T + 1, T + 1, T + 2, 30] + present + present
            for _ in range(rng.randint(1, 4)):
                if rng.random() < 0.4:
                    ops.append(dict(op="rm"))
                else:
                    ops.append(dict(op="ins", steps=[rng.choice(pool) for _ in range(rng.randint(1, 4))]))
            case = dict(stream="c18", seed=ctx.seed, index=i, spec=spec, ops=ops)
            n_eval += 1
            h = run_history(spec, ops, drv)
            count_ops(ctx, ops)
            record_dis(ctx, h, case)
            for k, e in enumerate(h["exc"]):
                if e and ops[k]["op"] in ("rm", "ins"):
                    ctx.violations.append(dict(property="C18", what="%s raised %s" % (ops[k]["op"], e), case=case))
            prev = None
            for k, st in enumerate(h["states"]):
                bad = preds.aligned(h["model"], st)
                if bad:
                    ctx.violations.append(dict(property="C18", what="after op %d (%s %s): %s" % (k, ops[k]["op"], ops[k].get("steps", ""), bad), case=case))
                    break
                if prev is not None and ops[k]["op"] == "ins":
                    bad = inserted_ok(h["model"], prev, st)
                    if bad:
                        ctx.violations.append(dict(property="C18", what="after insert %s: %s" % (ops[k]["steps"], bad), case=case))
                        break
                prev = st
            # insert into an absence-free result, then remove: back to the previous logs
            if not p["absence"]:
                n_eval += 1
                L = [rng.choice([0, 1, 2, 3, 5, 30]) for _ in range(rng.randint(1, 3))]
                ops2 = [dict(op="sim", params=p), dict(op="ins", steps=L), dict(op="rm")]
                h2 = run_history(spec, ops2, drv)
                count_ops(ctx, ops2)
                record_dis(ctx, h2, dict(case, ops=ops2))
                if len(h2["states"]) == 3:
                    d = same_result(h2["states"][2], h2["states"][0])
                    if d:
                        ctx.violations.append(dict(property="C18", what="insert %s then remove does not give back the previous logs (%s)" % (L, d[:6]),
                                                   case=dict(case, ops=ops2)))
            if h["states"] and h["states"][0]["time"] >= 2:
                fps.add(json.dumps([spec, ops], sort_keys=True))
            if len(ctx.samples) < 2:
                ctx.samples.append(dict(stream="c18", ops=ops))
    finish(ctx, n_eval, fps, "random models simulated with random project absence lists (incl. 0, duplicates, beyond the end), followed by 1-4 random "
                           "remove/insert calls with index lists from {0,1,2,3,5,8,30}; alignment, time, no-work/zero-cost of inserted entries checked "
                           "after every call; insert-then-remove on absence-free results; every op mirrored in the model; non-trivial = run length >= 2")


def inserted_ok(model, before, after):
    """the entries that were inserted are no-work, zero-cost steps"""
    added = after["time"] - before["time"]
    if added < 0:
        return "time decreased"
    new_abs = [x for x in after["absence"] if x not in before["absence"]]
    if len(new_abs) != added:
        return "time grew by %d but %d steps were added to absence_time_list" % (added, len(new_abs))
    for k in new_abs:
        if codec.to_frac(after["projCost"][k]) != 0 or codec.to_frac(after["orgCost"][k]) != 0:
            return "inserted step %d has a cost" % k
        for w in range(model["nW"]):
            if codec.to_frac(after["wCost"][w][k]) != 0:
                return "inserted step %d charges worker %d" % (k, w)
        for t in range(model["nT"]):
            if k > 0 and codec.to_frac(after["tRem"][t][k]) != codec.to_frac(after["tRem"][t][k - 1]):
                return "inserted step %d changes the remaining work of task %d" % (k, t)
    return None


# ---- C10 clause 3 ------------------------------------------------------------------------------------

def c10_eligible(spec, params):
    if params["autoFlag"]:
        return False
    for tm in spec["teams"]:
        for w in tm["workers"]:
            if w.get("absence"):
                return False
    for q in spec.get("workplaces", []):
        for f in q["facilities"]:
            if f.get("absence"):
                return False
    in_comp = {t for c in spec.get("components", []) for t in c["tasks"]}
    for i, t in enumerate(spec["tasks"]):
        if t.get("auto") and i in in_comp:
            return False
    return True


def c10_in_partial(spec, params):
    """inside the hypotheses under which clause 3 is claimed: the kept finding is excluded
    (FIFO rule: F16).  The former exclusion of automatic tasks that start with no work left (F26)
    is gone: /repo commit c33e3f4 repaired that defect."""
    if params["rule"] == 4:
        return False
    return True


def c10_removal_differs(spec, p1):
    """None when removing the absence steps gives the absence-free run (or a run did not succeed)"""
    p0 = dict(p1, absence=[])
    a = run_history(spec, [dict(op="sim", params=p1), dict(op="rm")], None)
    b = run_history(spec, [dict(op="sim", params=p0)], None)
    if len(a["states"]) == 2 and len(b["states"]) == 1 and not a["exc"][0] and not b["exc"][0]:
        if a["states"][0]["status"] != 1 or b["states"][0]["status"] != 1:
            return None
        d = same_result(a["states"][1], b["states"][0])
        return d or None
    return ["exception"]


def run_c10_removal(ctx, n):
    fps = set()
    n_eval = 0
    # minimised past failures run first
    cpath = os.path.join(os.path.dirname(HERE), "corpus", "c10_removal.json")
    if os.path.exists(cpath):
        for d in json.load(open(cpath)):
            n_eval += 1
            dd = c10_removal_differs(d["spec"], d["params"])
            if dd:
                ctx.violations.append(dict(property="C10", what="removing the absence steps %s does not give the absence-free run (corpus witness: %s; differs in %s)" % (
                    d["params"]["absence"], d["label"], dd[:6]), case=dict(stream="c10-removal-corpus", spec=d["spec"], params=d["params"])))
    for i in range(n * 3):
        if n_eval >= n:
            break
        rng, spec, params = case_of(ctx.seed + 31, i)
        if not c10_eligible(spec, params) or not c10_in_partial(spec, params):
            continue
        L = sorted(set(rng.choice([0, 1, 2, 3, 4, 6, 9, 30]) for _ in range(rng.randint(1, 4))))
        if rng.random() < 0.3:
            L = L + [L[0]]
        p1 = dict(params, maxTime=200, absence=L, initState=True, initLog=True)
        n_eval += 1
        d = c10_removal_differs(spec, p1)
        if d:
            ctx.violations.append(dict(property="C10", what="removing the absence steps %s does not give the absence-free run (differs in %s)" % (L, d[:6]),
                                       case=dict(stream="c10-removal", seed=ctx.seed + 31, index=i, spec=spec, params=p1)))
        fps.add(json.dumps([spec, p1], sort_keys=True))
    return n_eval, fps


# ---- C09 -------------------------------------------------------------------------------------------

def final_of(spec, params, hashes=None, chashes=None, twice=False, junk=0, id_seed=None):
    keep = [object() for _ in range(junk)]
    if id_seed is not None:
        spec = dict(spec, id_seed=id_seed)
    project = build(spec, hashes=hashes, chashes=chashes)
    real_simulate(project, params)
    if twice:
        real_simulate(project, params)
    del keep
    return snapshot(project, Index(project))


def run_c09(ctx):
    n = ctx.n(40, 1500)
    fps = set()
    n_eval = 0
    sub_cases = []
    # corpus of past order-dependence witnesses, replayed first
    cpath = os.path.join(os.path.dirname(HERE), "corpus", "c09_pert_order.json")
    if os.path.exists(cpath):
        for d in json.load(open(cpath)):
            n_eval += 1
            res = {}
            for hs in d["hashes"]:
                try:
                    res[tuple(hs)] = digest(final_of(d["spec"], d["params"], hashes=hs))
                except Exception as e:
                    res[tuple(hs)] = "EXC %r" % e
            if len(set(res.values())) > 1:
                ctx.violations.append(dict(property="C09", what="corpus witness: the result depends on the task hash values (%d distinct results)" % len(set(res.values())),
                                           case=dict(stream="c09-corpus", spec=d["spec"], params=d["params"], hashes=d["hashes"])))
    with Driver() as drv:
        for i in range(n):
            rng, spec, params = case_of(ctx.seed, i)
            p = dict(params, initState=True, initLog=True)
            case = dict(stream="c09", seed=ctx.seed, index=i, spec=spec, params=p)
            base_h = run_history(spec, [dict(op="sim", params=p)], drv)
            record_dis(ctx, base_h, case)
            if not base_h["states"] or base_h["exc"][0]:
                continue
            base = base_h["states"][0]
            nT, nC = len(spec["tasks"]), len(spec.get("components", []))
            variants = [("simulate called twice on the same object", dict(twice=True)),
                        ("same model with other ID strings", dict(id_seed=rng.randrange(1, 1000))),
                        ("same model with other ID strings (2)", dict(id_seed=rng.randrange(1000, 2000))),
                        ("model rebuilt at other addresses", dict(junk=rng.randint(1000, 50000)))]
            k = 3 if ctx.tier == "quick" else 8
            for _ in range(k):
                hs = list(range(nT))
                rng.shuffle(hs)
                cs = list(range(nC))
                rng.shuffle(cs)
                if rng.random() < 0.5:  # spread hashes so that set tables are larger and probe differently
                    hs = [x * 8 + rng.randrange(8) for x in hs]
                variants.append(("task hashes %s component hashes %s" % (hs, cs), dict(hashes=hs, chashes=cs)))
            for label, kw in variants:
                n_eval += 1
                try:
                    st = final_of(spec, p, **kw)
                except Exception as e:
                    ctx.violations.append(dict(property="C09", what="%s: raised %s" % (label, e), case=case))
                    continue
                d = codec.diff_states(st, base, LOGF + ["time", "status"])
                if d:
                    ctx.violations.append(dict(property="C09", what="result depends on iteration order / identity (%s): differs in %s" % (label, d[:6]),
                                               case=dict(case, variant=label, kw=kw)))
                    break
            # hidden state through defaulted arguments (on ANOTHER project object)
            if i % 4 == 0:
                n_eval += 1
                a = build(spec)
                a.simulate(max_time=p["maxTime"])
                d0 = snapshot(a, Index(a))
                a.insert_absence_time_list([1])
                b = build(spec)
                b.simulate(max_time=p["maxTime"])
                d1 = snapshot(b, Index(b))
                d = codec.diff_states(d0, d1, LOGF + ["time", "status"])
                if d:
                    ctx.violations.append(dict(property="C09", what="a run on one project changed a later default-argument run on another project (%s)" % d[:6],
                                               case=case))
            if i % 5 == 0:
                sub_cases.append(dict(spec=spec, params=p, expect=digest(base)))
            if base["time"] >= 2 and any(d != 0 for t in spec["tasks"] for _, d in t.get("inputs", [])) or base["time"] >= 3:
                fps.add(json.dumps([spec, p], sort_keys=True))
            if len(ctx.samples) < 2:
                ctx.samples.append(dict(stream="c09", spec=spec, params=p))
    # fresh processes with different hash seeds
    for hs in (["0", "12345"] if ctx.tier == "quick" else ["0", "1", "12345", "987654321"]):
        out = subprocess.run([sys.executable, os.path.join(HERE, "subproc_run.py")], input=json.dumps(sub_cases), capture_output=True, text=True,
                             env=dict(os.environ, PYTHONHASHSEED=hs))
        if out.returncode != 0:
            ctx.infra.append("subprocess run failed: " + out.stderr[-300:])
            continue
        got = json.loads(out.stdout)
        for c, g in zip(sub_cases, got):
            n_eval += 1
            if g != c["expect"]:
                ctx.violations.append(dict(property="C09", what="a fresh process (PYTHONHASHSEED=%s) gives a different result" % hs,
                                           case=dict(stream="c09", spec=c["spec"], params=c["params"])))
    finish(ctx, n_eval, fps, "random models over all four dependency kinds; the result of one run is compared with: simulate called twice on the same "
                           "object, the model rebuilt at other addresses, %d random assignments of task/component hash values (HTask/HComponent steer "
                           "the iteration order of every internal set), fresh processes with different PYTHONHASHSEED, and a default-argument run on a "
                           "second project after editing absence steps on the first; each base run is mirrored in the model; non-trivial = a non-FS link "
                           "and makespan >= 2, or makespan >= 3" % (3 if ctx.tier == "quick" else 8))


def digest(st):
    import hashlib
    return hashlib.sha1(json.dumps({f: codec.norm(st[f]) for f in LOGF + ["time", "status"]}, default=str, sort_keys=True).encode()).hexdigest()


# ---- predicates on LOADED projects (save in the middle of a run, load, resume) -----------------------

def run_loaded(ctx, n, pred, what):
    """simulate up to a random step, write_simple_json, read_simple_json, look at the loaded project's logs,
    resume it with both initialisation flags off, look again — `pred(model, params, run)` is evaluated on the
    loaded project both times.  Real code only (the persistence model is C16's business)."""
    n_eval = 0
    cnt = dict(cases=0, violations=0, exceptions=0)
    for i in range(n):
        rng, spec, params = case_of(ctx.seed + 53, i)
        params = dict(params, initState=True, initLog=True)
        params.pop("warmup", None)
        k = rng.choice([1, 2, 3, 5, 8])
        case = dict(stream="loaded", seed=ctx.seed + 53, index=i, spec=spec, params=params, pause=k)
        try:
            project = build(spec, plain=True)
            real_simulate(project, dict(params, maxTime=k))
            with tempfile.TemporaryDirectory() as d:
                path = os.path.join(d, "p.json")
                project.write_simple_json(path)
                q = BaseProject()
                q.read_simple_json(path)
            model = extract_model(q, Index(q))
            stages = [("right after loading", snapshot(q, Index(q)))]
            real_simulate(q, dict(params, initState=False, initLog=False))
            stages.append(("after resuming the loaded project", snapshot(q, Index(q))))
        except Exception as e:
            cnt["exceptions"] += 1
            ctx.violations.append(dict(property=ctx.pid, what="save / load / resume raised %s: %s" % (type(e).__name__, e), case=case))
            continue
        cnt["cases"] += 1
        n_eval += 1
        for label, st in stages:
            vs = pred(model, dict(params, initState=False, initLog=False), dict(final=st, snaps=[], pre=None, exc=None))
            if vs:
                cnt["violations"] += 1
                ctx.violations.append(dict(vs[0], what="%s: %s" % (label, vs[0]["what"]), case=case))
                break
    ctx.evaluations += n_eval
    ctx.traces_validated += n_eval
    ctx.distribution["loaded_projects"] = cnt
    ctx.rule += "; plus %s on projects that were saved to JSON in the middle of a run, loaded, and resumed (real code only)" % what


def run_resumed(ctx, n, pred, what):
    """pause a run at a step k (max_time = k) and resume it with both initialisation flags off, the observer
    recording the resumed run; `pred` is evaluated on the resumed run (with the paused state as its `pre`).
    Real code only: the model side of pause/resume is C15's stream."""
    n_eval = 0
    cnt = dict(cases=0, violations=0, exceptions=0)
    for i in range(n):
        rng, spec, params = case_of(ctx.seed + 59, i)
        params = dict(params, initState=True, initLog=True, maxTime=40)
        params.pop("warmup", None)
        for k in sorted(set(rng.choice([1, 2, 3, 4, 5, 6, 8]) for _ in range(3))):
            case = dict(stream="resumed", seed=ctx.seed + 59, index=i, spec=spec, params=params, pause=k)
            try:
                project = build(spec)
                ix = Index(project)
                model = extract_model(project, ix)
                real_simulate(project, dict(params, maxTime=k))
                pre = snapshot(project, ix)
                rec = Recorder(ix)
                p2 = dict(params, initState=False, initLog=False)
                real_simulate(project, p2, rec)
                run = dict(pre=pre, snaps=rec.snaps, final=snapshot(project, ix), exc=None)
            except Exception as e:
                cnt["exceptions"] += 1
                ctx.violations.append(dict(property=ctx.pid, what="pause at %d / resume raised %s: %s" % (k, type(e).__name__, e), case=case))
                break
            cnt["cases"] += 1
            n_eval += 1
            vs = pred(model, p2, run)
            if vs:
                cnt["violations"] += 1
                ctx.violations.append(dict(vs[0], what="run resumed after a pause at step %d: %s" % (k, vs[0]["what"]), case=case))
                break
    ctx.evaluations += n_eval
    ctx.traces_validated += n_eval
    ctx.distribution["resumed_runs"] = cnt
    ctx.rule += "; plus %s on runs that were paused at a step k and resumed with both initialisation flags off (real code only)" % what


def run_unit_time(ctx, n, pred, what):
    """real runs with simulate(unit_time=2 or 3) (no project absence): the clock then advances by unit_time per
    step while every log gets one entry per step (kept finding C08-F20), so only predicates that do not index the
    logs by the clock can be evaluated — `pred` gets initLog=False in its params to say so.  Real code only."""
    n_eval = 0
    cnt = dict(cases=0, violations=0, exceptions=0)
    for i in range(n):
        rng, spec, params = case_of(ctx.seed + 61, i)
        params = dict(params, initState=True, initLog=True, maxTime=60, absence=[])
        params.pop("warmup", None)
        u = rng.choice([2, 3])
        case = dict(stream="unit_time", seed=ctx.seed + 61, index=i, spec=spec, params=params, unit_time=u)
        try:
            project = build(spec)
            ix = Index(project)
            model = extract_model(project, ix)
            real_simulate(project, params, None, unit_time=u)
            st = snapshot(project, ix)
        except Exception as e:
            cnt["exceptions"] += 1
            ctx.violations.append(dict(property=ctx.pid, what="simulate(unit_time=%d) raised %s: %s" % (u, type(e).__name__, e), case=case))
            continue
        cnt["cases"] += 1
        n_eval += 1
        vs = pred(model, dict(params, initLog=False), dict(final=st, snaps=[], pre=None, exc=None))
        if vs:
            cnt["violations"] += 1
            ctx.violations.append(dict(vs[0], what="simulate(unit_time=%d): %s" % (u, vs[0]["what"]), case=case))
    ctx.evaluations += n_eval
    ctx.traces_validated += n_eval
    ctx.distribution["unit_time_runs"] = cnt
    ctx.rule += "; plus %s on real runs with unit_time = 2 or 3 (real code only; clauses that index the logs by the clock are skipped)" % what


# ---- C10 in backward runs -------------------------------------------------------------------------------

def run_c10_backward(ctx, n):
    """backward_simulate on a fresh object with project absence steps, both values of the auto-task flag: the whole
    result against the model (BWD), and on the unreversed logs the flag clause: a component-free automatic task that
    is in progress at an absence step loses exactly its rate there iff the flag is set"""
    import gen as _gen
    n_eval = 0
    fps = set()
    with Driver() as drv:
        for i in range(n):
            rng = random.Random(ctx.seed * 7177 + i * 313 + 3)
            spec = _gen.decorate(_gen.gen_auto_theme(rng)) if rng.random() < 0.5 else _gen.gen_spec(rng, "full")
            params = _gen.gen_params(rng, spec)
            params.pop("warmup", None)
            flag = rng.random() < 0.6
            A = sorted(set(rng.choice([0, 1, 2, 3, 4]) for _ in range(rng.randint(1, 3))))
            p = dict(params, absence=A, autoFlag=flag, maxTime=40, initState=True, initLog=True)
            ops = [dict(op="bwd", params=p, due=False, reverse=False)]
            case = dict(stream="c10-backward", seed=ctx.seed, index=i, spec=spec, ops=ops)
            h = run_history(spec, ops, drv)
            count_ops(ctx, ops)
            record_dis(ctx, h, case)
            n_eval += 1
            if not h["states"] or h["exc"][0]:
                continue
            st, model = h["states"][0], h["model"]
            for t, tk in enumerate(model["tasks"]):
                if not tk["isAuto"] or tk["comp"] is not None:
                    continue
                rem, log = st["tRem"][t], st["tState"][t]
                for k in A:
                    if k < 1 or k >= len(rem) or k >= len(log):
                        continue
                    before, after = codec.to_frac(rem[k - 1]), codec.to_frac(rem[k])
                    in_progress = log[k] == 1 and log[k - 1] in (1, 2) and before > 0   # shown READY at an absence step
                    if not in_progress:
                        continue
                    if flag and before - after != codec.to_frac(tk["autoRate"]):
                        ctx.violations.append(dict(property="C10", what="backward run: automatic task %d did not progress at absence step %d although the flag is set" % (t, k), case=case))
                        break
                    if not flag and before != after:
                        ctx.violations.append(dict(property="C10", what="backward run: automatic task %d progressed at absence step %d although the flag is off" % (t, k), case=case))
                        break
            if st["time"] >= 2:
                fps.add(json.dumps([spec, p], sort_keys=True, default=str))
    ctx.evaluations += n_eval
    ctx.traces_validated += n_eval
    ctx.distinct_nontrivial += len(fps)
    ctx.rule += "; plus backward_simulate with project absence steps and both flag values (whole result against the model; flag clause on the unreversed logs)"
