"""Real-code side: build pDESy objects from a JSON-able spec, extract the static model and
snapshot the dynamic state from the *real objects* (never from the spec)."""
from env import *  # noqa: F401,F403
import env
from fractions import Fraction

TS_MAP = {BaseTaskState.NONE: 0, BaseTaskState.READY: 1, BaseTaskState.WORKING: 2,
          BaseTaskState.FINISHED: 3}
RS_W_MAP = {BaseWorkerState.FREE: 0, BaseWorkerState.WORKING: 1, BaseWorkerState.ABSENCE: 2}
RS_F_MAP = {BaseFacilityState.FREE: 0, BaseFacilityState.WORKING: 1, BaseFacilityState.ABSENCE: 2}
CS_MAP = {BaseComponentState.NONE: 0, BaseComponentState.READY: 1, BaseComponentState.WORKING: 2,
          BaseComponentState.FINISHED: 3}
RES_RULE = {ResourcePriorityRuleMode.MW: 0, ResourcePriorityRuleMode.SSP: 1,
            ResourcePriorityRuleMode.VC: 2, ResourcePriorityRuleMode.HSV: 3}
RES_RULE_INV = {v: k for k, v in RES_RULE.items()}
WP_RULE = {WorkplacePriorityRuleMode.FSS: 0, WorkplacePriorityRuleMode.SSP: 1}
WP_RULE_INV = {v: k for k, v in WP_RULE.items()}
STATUS_MAP = {BaseProjectStatus.NONE: 0, BaseProjectStatus.FINISHED_SUCCESS: 1,
              BaseProjectStatus.FINISHED_FAILURE: 2}
MODE_MAP = {SimulationMode.NONE: 0, SimulationMode.FORWARD: 1, SimulationMode.BACKWARD: 2}
DEPS = [BaseTaskDependency.FS, BaseTaskDependency.SS, BaseTaskDependency.FF, BaseTaskDependency.SF]
TASK_RULES = list(TaskPriorityRuleMode)
TASK_RULES.sort(key=int)


class HTask(BaseTask):
    """A task whose hash is chosen by the harness (steers Python set iteration order)."""

    def __hash__(self):
        return self._h

    def __eq__(self, other):
        return self is other


class HComponent(BaseComponent):
    def __hash__(self):
        return self._h

    def __eq__(self, other):
        return self is other


class Unsupported(Exception):
    """the real objects are outside what the model represents"""


def build(spec, hashes=None, chashes=None, fresh_strings=False, plain=False):
    """Construct a BaseProject from a spec.  `hashes[i]` = hash of task i (default i)."""
    S = (lambda s: "".join(list(s)) if isinstance(s, str) else s) if fresh_strings else (lambda s: s)
    # spec["id_seed"]: ID strings are numbered by a permutation instead of by position, so that their
    # string order differs from the list order (the simulator must not depend on what IDs look like)
    _perm = {}

    def ID(kind, k):
        if spec.get("id_scheme") == "int0":
            return k          # plain integers numbered from 0 per kind: a falsy ID, and the same ID for objects of different kinds
        if spec.get("id_scheme") == "str0":
            return "%d" % k   # the same as strings ("0", "1", ...: equal IDs across kinds, none falsy)
        if spec.get("id_seed") is None:
            return "%s%d" % (kind, k)
        if kind not in _perm:
            import random as _r
            xs = list(range(64))
            _r.Random("%s-%s" % (spec["id_seed"], kind)).shuffle(xs)
            _perm[kind] = xs
        return "%s%02d" % (kind, _perm[kind][k] if k < 64 else k + 64)
    tasks = []
    for i, ts in enumerate(spec["tasks"]):
        t = (BaseTask if plain else HTask)(
            name=ts.get("name", "T%d" % i),
            ID=ID("t", i),
            default_work_amount=ts["work"],
            work_amount_progress_of_unit_step_time=ts.get("auto_rate", 1.0),
            default_progress=ts.get("prog", 0.0),
            auto_task=ts.get("auto", False),
            need_facility=ts.get("need_fac", False),
            due_time=ts.get("due", None),
            fixing_allocating_worker_id_list=(
                None if ts.get("fixW") is None else [S(ID("w", k)) for k in ts["fixW"]]),
            fixing_allocating_facility_id_list=(
                None if ts.get("fixF") is None else [S(ID("f", k)) for k in ts["fixF"]]),
            worker_priority_rule=RES_RULE_INV[ts.get("wrule", 0)],
            facility_priority_rule=RES_RULE_INV[ts.get("frule", 1)],
            workplace_priority_rule=WP_RULE_INV[ts.get("wprule", 0)],
        )
        t._h = i if hashes is None else hashes[i]
        tasks.append(t)
    if spec.get("wf_build") == "incremental" and not plain:
        # the workflow is grown through the public API, successors first: a task is registered, then its
        # predecessors are linked to it (they are not registered yet), then they are registered in turn
        workflow = BaseWorkflow(task_list=[])
        for i in reversed(range(len(tasks))):
            workflow.append_child_task(tasks[i])
            for j, d in spec["tasks"][i].get("inputs", []):
                tasks[i].append_input_task(tasks[j], task_dependency_mode=DEPS[d])
        missing = [t for t in tasks if t not in workflow.task_list]
        if missing:
            raise Unsupported("append_child_task dropped %d task(s) that were linked before they were registered" % len(missing))
        workflow.task_list.sort(key=lambda t: tasks.index(t))     # same listing order as the batch construction
    else:
        for i, ts in enumerate(spec["tasks"]):
            for j, d in ts.get("inputs", []):
                tasks[i].append_input_task(tasks[j], task_dependency_mode=DEPS[d])
        workflow = BaseWorkflow(task_list=tasks)
    for t in tasks:
        t.parent_workflow = workflow

    comps = []
    for i, cs in enumerate(spec.get("components", [])):
        c = (BaseComponent if plain else HComponent)(name="C%d" % i, ID=ID("c", i), space_size=cs.get("size", 1.0))
        c._h = i if chashes is None else chashes[i]
        comps.append(c)
    for i, cs in enumerate(spec.get("components", [])):
        for k in cs.get("children", []):
            comps[i].append_child_component(comps[k])
        for k in cs.get("tasks", []):
            if spec.get("comp_wiring") == "ctor":
                comps[i].targeted_task_list.append(tasks[k])   # what BaseComponent(targeted_task_list=[...]) does: task.target_component stays None
            else:
                comps[i].append_targeted_task(tasks[k])
    product = BaseProduct(component_list=comps)

    wid = 0
    teams = []
    for i, tm in enumerate(spec.get("teams", [])):
        team = BaseTeam(name="Team%d" % i, ID=ID("team", i))
        for ws in tm.get("workers", []):
            w = BaseWorker(
                name="W%d" % wid, ID=ID("w", wid),
                cost_per_time=ws.get("cost", 0.0), solo_working=ws.get("solo", False),
                workamount_skill_mean_map=dict(ws.get("skills", {})),
                workamount_skill_sd_map={},
                facility_skill_map=dict(ws.get("fac_skills", {})),
                absence_time_list=list(ws.get("absence", [])),
                main_workplace_id=(None if ws.get("main_wp") is None else S(ID("wp", ws["main_wp"]))),
                quality_skill_mean_map=dict(ws.get("quality", {})), quality_skill_sd_map={},
            )
            team.add_worker(w)
            wid += 1
        if spec.get("team_wiring") == "ctor":
            team.targeted_task_list = [tasks[k] for k in tm.get("targets", [])]   # what BaseTeam(targeted_task_list=...) does
        else:
            team.extend_targeted_task_list([tasks[k] for k in tm.get("targets", [])])
        teams.append(team)

    fid = 0
    wps = []
    for i, ps in enumerate(spec.get("workplaces", [])):
        wp = BaseWorkplace(name="Wp%d" % i, ID=ID("wp", i), max_space_size=ps.get("cap", 1.0))
        for fs in ps.get("facilities", []):
            f = BaseFacility(
                name=fs.get("name", "F%d" % fid), ID=ID("f", fid),
                cost_per_time=fs.get("cost", 0.0), solo_working=fs.get("solo", False),
                workamount_skill_mean_map=dict(fs.get("skills", {})),
                workamount_skill_sd_map={},
                absence_time_list=list(fs.get("absence", [])),
            )
            wp.add_facility(f)
            fid += 1
        wp.extend_targeted_task_list([tasks[k] for k in ps.get("targets", [])])
        wps.append(wp)
    for i, ps in enumerate(spec.get("workplaces", [])):
        for k in ps.get("inputs", []):
            if spec.get("wp_wiring") == "ctor":
                wps[i].input_workplace_list.append(wps[k])     # the upstream workplace does not list it as an output
            else:
                wps[i].append_input_workplace(wps[k])
    org = BaseOrganization(team_list=teams, workplace_list=wps)
    for i, ts in enumerate(spec["tasks"]):
        if ts.get("wps_order") is not None:     # the task's own preference order of its workplaces
            cur = tasks[i].allocated_workplace_list
            if sorted(ts["wps_order"]) == sorted(wps.index(q) for q in cur):
                tasks[i].allocated_workplace_list = [wps[k] for k in ts["wps_order"]]

    import datetime
    project = BaseProject(
        init_datetime=datetime.datetime(2020, 4, 1, 8, 0, 0),
        unit_timedelta=datetime.timedelta(days=1),
        product=product, organization=org, workflow=workflow,
    )
    return project


class Index:
    """identity / ID → index maps of a project's objects"""

    def __init__(self, project):
        self.tasks = list(project.workflow.task_list)
        self.comps = list(project.product.component_list)
        self.teams = list(project.organization.team_list)
        self.wps = list(project.organization.workplace_list)
        self.workers = [w for tm in self.teams for w in tm.worker_list]
        self.facs = [f for p in self.wps for f in p.facility_list]
        self.t_ix = {id(t): i for i, t in enumerate(self.tasks)}
        self.c_ix = {id(c): i for i, c in enumerate(self.comps)}
        self.tm_ix = {id(t): i for i, t in enumerate(self.teams)}
        self.wp_ix = {id(p): i for i, p in enumerate(self.wps)}
        self.w_ix = {id(w): i for i, w in enumerate(self.workers)}
        self.f_ix = {id(f): i for i, f in enumerate(self.facs)}
        self.t_id = first_map([t.ID for t in self.tasks])
        self.c_id = first_map([c.ID for c in self.comps])
        self.wp_id = first_map([p.ID for p in self.wps])
        self.tm_id = first_map([t.ID for t in self.teams])
        self.w_id = first_map([w.ID for w in self.workers])
        self.f_id = first_map([f.ID for f in self.facs])
        names = set(t.name for t in self.tasks)
        for r in self.workers + self.facs:
            names.update(r.workamount_skill_mean_map.keys())
        self.names = {n: i for i, n in enumerate(sorted(names))}
        fnames = set(f.name for f in self.facs)
        for w in self.workers:
            fnames.update(w.facility_skill_map.keys())
        self.fnames = {n: i for i, n in enumerate(sorted(fnames))}

    def sizes(self):
        return dict(nT=len(self.tasks), nW=len(self.workers), nF=len(self.facs),
                    nTeam=len(self.teams), nWp=len(self.wps), nC=len(self.comps))


def first_map(ids):
    m = {}
    for i, x in enumerate(ids):
        m.setdefault(x, i)
    return m


UNKNOWN = 1000  # index base for references that resolve to nothing in the project


def ref(ix, obj, what):
    k = ix.get(id(obj))
    if k is None:
        raise Unsupported("dangling %s reference" % what)
    return k


def extract_model(project, ix=None):
    """static model dict (codec.MODEL_GROUPS) read off the real objects"""
    ix = ix or Index(project)
    m = ix.sizes()

    def skills(d, names):
        return [(names[k], v) for k, v in d.items()]

    def idlist(ids, idmap):
        if ids is None:
            return None
        return [idmap.get(x, UNKNOWN + k) for k, x in enumerate(ids)]

    m["tasks"] = []
    for t in ix.tasks:
        if isinstance(t, BaseSubProjectTask) and False:
            raise Unsupported("sub-project task")
        m["tasks"].append(dict(
            name=ix.names[t.name], work=t.default_work_amount, prog=t.default_progress,
            autoRate=t.work_amount_progress_of_unit_step_time, isAuto=bool(t.auto_task),
            needFac=bool(t.need_facility),
            inputs=[(ref(ix.t_ix, p, "input task"), int(d)) for p, d in t.input_task_list],
            outputs=[(ref(ix.t_ix, p, "output task"), int(d)) for p, d in t.output_task_list],
            wps=[ix.wp_ix.get(id(p), UNKNOWN + k) for k, p in enumerate(t.allocated_workplace_list)],
            comp=None if t.target_component is None else ref(ix.c_ix, t.target_component, "component"),
            fixW=idlist(t.fixing_allocating_worker_id_list, ix.w_id),
            fixF=idlist(t.fixing_allocating_facility_id_list, ix.f_id),
            wRule=RES_RULE[t.worker_priority_rule], fRule=RES_RULE[t.facility_priority_rule],
            wpRule=WP_RULE[t.workplace_priority_rule], due=t.due_time,
        ))
    m["workers"] = []
    for w in ix.workers:
        if w.team_id not in ix.tm_id:
            raise Unsupported("worker.team_id names no team")
        m["workers"].append(dict(
            team=ix.tm_id[w.team_id], skills=skills(w.workamount_skill_mean_map, ix.names),
            facSkills=skills(w.facility_skill_map, ix.fnames), solo=bool(w.solo_working),
            cost=w.cost_per_time, absence=list(w.absence_time_list),
            mainWp=None if w.main_workplace_id is None else ix.wp_id.get(w.main_workplace_id, UNKNOWN),
        ))
    m["facs"] = []
    for f in ix.facs:
        if f.workplace_id not in ix.wp_id:
            raise Unsupported("facility.workplace_id names no workplace")
        m["facs"].append(dict(
            wp=ix.wp_id[f.workplace_id], name=ix.fnames[f.name],
            skills=skills(f.workamount_skill_mean_map, ix.names), solo=bool(f.solo_working),
            cost=f.cost_per_time, absence=list(f.absence_time_list),
        ))
    m["teams"] = [dict(workers=[ix.w_ix[id(w)] for w in tm.worker_list],
                       targets=[ix.t_ix.get(id(t), UNKNOWN + k) for k, t in enumerate(tm.targeted_task_list)])
                  for tm in ix.teams]
    m["wps"] = [dict(facs=[ix.f_ix[id(f)] for f in p.facility_list],
                     targets=[ix.t_ix.get(id(t), UNKNOWN + k) for k, t in enumerate(p.targeted_task_list)],
                     cap=p.max_space_size,
                     inputs=[ix.wp_ix.get(id(q), UNKNOWN + k) for k, q in enumerate(p.input_workplace_list)],
                     outputs=[ix.wp_ix.get(id(q), UNKNOWN + k) for k, q in enumerate(p.output_workplace_list)])
                for p in ix.wps]
    m["comps"] = [dict(tasks=[ref(ix.t_ix, t, "targeted task") for t in c.targeted_task_list],
                       size=c.space_size,
                       parents=[ref(ix.c_ix, q, "parent component") for q in c.parent_component_list],
                       children=[ref(ix.c_ix, q, "child component") for q in c.child_component_list])
                  for c in ix.comps]
    return m


def _ids(rec, idmap):
    """a per-step ID list record (None after an insert at step 0 is read as empty)"""
    if rec is None:
        return []
    return [idmap.get(x, UNKNOWN) for x in rec]


def snapshot(project, ix=None):
    """dynamic state dict (codec.STATE) read off the real objects"""
    ix = ix or Index(project)
    st = {}
    T, W, F, C, P, TM = ix.tasks, ix.workers, ix.facs, ix.comps, ix.wps, ix.teams
    st["tstate"] = [TS_MAP[t.state] for t in T]
    st["rem"] = [t.remaining_work_amount for t in T]
    st["est"] = [t.est for t in T]
    st["eft"] = [t.eft for t in T]
    st["lst"] = [t.lst for t in T]
    st["lft"] = [t.lft for t in T]
    st["cpl"] = project.workflow.critical_path_length
    st["allocW"] = [[ref(ix.w_ix, w, "allocated worker") for w in t.allocated_worker_list] for t in T]
    st["allocF"] = [[ref(ix.f_ix, f, "allocated facility") for f in t.allocated_facility_list] for t in T]
    st["wstate"] = [RS_W_MAP[w.state] for w in W]
    st["wasg"] = [[ref(ix.t_ix, t, "assigned task") for t in w.assigned_task_list] for w in W]
    st["fstate"] = [RS_F_MAP[f.state] for f in F]
    st["fasg"] = [[ref(ix.t_ix, t, "assigned task") for t in f.assigned_task_list] for f in F]
    st["cstate"] = [CS_MAP[c.state] for c in C]
    st["placed"] = [None if c.placed_workplace is None else ref(ix.wp_ix, c.placed_workplace, "placed workplace")
                    for c in C]
    st["wpComps"] = [[ref(ix.c_ix, c, "placed component") for c in p.placed_component_list] for p in P]
    # logs
    st["tState"] = [[TS_MAP[s] for s in t.state_record_list] for t in T]
    st["tRem"] = [list(t.remaining_work_amount_record_list) for t in T]
    st["tAllocW"] = [[_ids(r, ix.w_id) for r in t.allocated_worker_id_record] for t in T]
    st["tAllocF"] = [[_ids(r, ix.f_id) for r in t.allocated_facility_id_record] for t in T]
    st["wState"] = [[RS_W_MAP[s] for s in w.state_record_list] for w in W]
    st["wCost"] = [list(w.cost_list) for w in W]
    st["wAsg"] = [[_ids(r, ix.t_id) for r in w.assigned_task_id_record] for w in W]
    st["fState"] = [[RS_F_MAP[s] for s in f.state_record_list] for f in F]
    st["fCost"] = [list(f.cost_list) for f in F]
    st["fAsg"] = [[_ids(r, ix.t_id) for r in f.assigned_task_id_record] for f in F]
    st["teamCost"] = [list(tm.cost_list) for tm in TM]
    st["wpCost"] = [list(p.cost_list) for p in P]
    st["wpPlaced"] = [[_ids(r, ix.c_id) for r in p.placed_component_id_record] for p in P]
    st["orgCost"] = list(project.organization.cost_list)
    st["projCost"] = list(project.cost_list)
    st["cState"] = [[CS_MAP[s] for s in c.state_record_list] for c in C]
    st["cPlaced"] = [[None if r is None else ix.wp_id.get(r, UNKNOWN) for r in c.placed_workplace_id_record]
                     for c in C]
    st["time"] = project.time
    st["status"] = STATUS_MAP[project.status]
    st["mode"] = MODE_MAP[project.simulation_mode]
    st["absence"] = list(project.absence_time_list)
    st["autoFlag"] = bool(project.perform_auto_task_while_absence_time)
    return st
