"""State-function stream: the side-effect-free decision functions the allocation and perform phases
call (`BaseTask.can_add_resources`, `BaseWorkplace.can_put`, the per-step contribution inside
`BaseTask.perform`) are evaluated on REAL mid-run states — taken at random observer boundaries of a
real run, half of them after scrambling task / resource states so that also the branches no run
reaches (a NONE or FINISHED task asking for resources, an ABSENT member of a WORKING task) are tied
to the model's `canAdd`, `availSpace`, `isReady`, `contrib`.  Mirrors purestream.py: real function and model
function on the same input, disagreement = broken correspondence of that function."""
from env import *  # noqa: F401,F403
import env
import random

import codec
import gen
from driver import Driver
from lockstep import real_simulate
from real import build, extract_model, snapshot, Index

TS_INV = {0: BaseTaskState.NONE, 1: BaseTaskState.READY, 2: BaseTaskState.WORKING, 3: BaseTaskState.FINISHED}


class Probe:
    def __init__(self, ix, model, drv, rng, fns, ctx, case):
        self.ix, self.model, self.drv, self.rng, self.fns, self.ctx, self.case = ix, model, drv, rng, fns, ctx, case
        self.calls = 0
        self.nontrivial = 0

    def cell(self, fn):
        return self.ctx.matrix.setdefault("fn:" + fn, dict(executions=0, disagreements=0))

    def differ(self, fn, boundary, args, real, model_ans, scrambled):
        c = self.cell(fn)
        c["disagreements"] += 1
        self.ctx.footprint_disagreements.append(dict(phase="fn:" + fn, boundary=boundary, args=args, real=real, model=model_ans,
                                                     scrambled=scrambled, case=self.case))

    def __call__(self, project, boundary):
        rng = self.rng
        if rng.random() > 0.12 or self.calls >= 6:
            return
        self.calls += 1
        ix, model, drv = self.ix, self.model, self.drv
        saved = None
        scrambled = rng.random() < 0.5
        if scrambled:
            # scramble states in place (restored below): pure functions must agree on any state
            saved = ([(t, t.state) for t in ix.tasks], [(w, w.state) for w in ix.workers], [(f, f.state) for f in ix.facs])
            for t in ix.tasks:
                if rng.random() < 0.4:
                    t.state = TS_INV[rng.randrange(4)]
            for w in ix.workers:
                if rng.random() < 0.3:
                    w.state = rng.choice([BaseWorkerState.FREE, BaseWorkerState.WORKING, BaseWorkerState.ABSENCE])
            for f in ix.facs:
                if rng.random() < 0.3:
                    f.state = rng.choice([BaseFacilityState.FREE, BaseFacilityState.WORKING, BaseFacilityState.ABSENCE])
        try:
            st = snapshot(project, ix)
            toks = codec.enc_state(model, st)
            if "canAdd" in self.fns:
                combos = [(t, w, f) for t in range(len(ix.tasks)) for w in [None] + list(range(len(ix.workers)))
                          for f in [None] + list(range(len(ix.facs))) if not (w is None and f is not None)]
                rng.shuffle(combos)
                for t, w, f in combos[:24]:
                    try:
                        real = bool(ix.tasks[t].can_add_resources(worker=None if w is None else ix.workers[w],
                                                                  facility=None if f is None else ix.facs[f]))
                    except Exception as e:
                        self.ctx.violations.append(dict(property=self.ctx.pid, what="can_add_resources raised %r" % e,
                                                        case=dict(self.case, boundary=boundary, args=[t, w, f])))
                        continue
                    req = ["FN", "canAdd", str(t)]
                    codec.e_opt(codec.e_nat)(w, req)
                    codec.e_opt(codec.e_nat)(f, req)
                    ans = drv.ask(req + toks)
                    self.cell("canAdd")["executions"] += 1
                    if real:
                        self.nontrivial += 1
                    if ans != ("1" if real else "0"):
                        self.differ("canAdd", boundary, [t, w, f], real, ans, scrambled)
            if "canPut" in self.fns and ix.comps and ix.wps:
                for q in range(len(ix.wps)):
                    for c in range(len(ix.comps)):
                        real = bool(ix.wps[q].can_put(ix.comps[c]))
                        ans = drv.ask(["FN", "canPut", str(q), str(c)] + toks)
                        self.cell("canPut")["executions"] += 1
                        if not real:
                            self.nontrivial += 1
                        if ans != ("1" if real else "0"):
                            self.differ("canPut", boundary, [q, c], real, ans, scrambled)
            if "canPut" in self.fns:
                for c in range(len(ix.comps)):
                    real = bool(ix.comps[c].is_ready())
                    ans = drv.ask(["FN", "isReady", str(c)] + toks)
                    self.cell("isReady")["executions"] += 1
                    if ans != ("1" if real else "0"):
                        self.differ("isReady", boundary, [c], real, ans, scrambled)
                for q in range(len(ix.wps)):
                    real = codec.rat_str(ix.wps[q].get_available_space_size())
                    ans = drv.ask(["FN", "availSpace", str(q)] + toks)
                    self.cell("availSpace")["executions"] += 1
                    if ans != real:
                        self.differ("availSpace", boundary, [q], real, ans, scrambled)
            if "contrib" in self.fns:
                for t, task in enumerate(ix.tasks):
                    if task.state != BaseTaskState.WORKING:
                        continue
                    rem = task.remaining_work_amount
                    comp = task.target_component
                    err = None if comp is None else comp.error
                    try:
                        task.perform(project.time)
                        delta = codec.to_frac(rem) - codec.to_frac(task.remaining_work_amount)
                    except ZeroDivisionError:
                        delta = None       # a member with no WORKING task: unreachable (C03), the code rejects it
                    finally:
                        task.remaining_work_amount = rem
                        if comp is not None:
                            comp.error = err
                    if delta is None:
                        continue
                    ans = drv.ask(["FN", "contrib", str(t)] + toks)
                    self.cell("contrib")["executions"] += 1
                    if delta != 0:
                        self.nontrivial += 1
                    if ans != codec.rat_str(delta):
                        self.differ("contrib", boundary, [t], str(delta), ans, scrambled)
        finally:
            if saved is not None:
                for lst in saved:
                    for o, s in lst:
                        o.state = s


def run_statefn(ctx, n, fns):
    """n real runs with probes; returns (evaluations, distinct non-trivial)"""
    ev = nt = 0
    with Driver() as drv:
        for i in range(n):
            rng = random.Random(ctx.seed * 7919 + i * 104729 + 5)
            spec = gen.gen_spec(rng, "full")
            params = gen.gen_params(rng, spec)
            project = build(spec)
            ix = Index(project)
            model = extract_model(project, ix)
            drv.ask(["M"] + codec.enc_model(model))
            case = dict(stream="statefn", seed=ctx.seed, index=i, spec=spec, params=params)
            pr = Probe(ix, model, drv, rng, fns, ctx, case)
            try:
                real_simulate(project, params, pr)
            except Exception as e:
                ctx.footprint_disagreements.append(dict(phase="exception", detail="%s: %s" % (type(e).__name__, e), case=case))
            ev += sum(1 for _ in range(pr.calls))
            nt += 1 if pr.nontrivial else 0
    ctx.rule += ("; plus state-function stream (harness/statefn.py): %s evaluated by the real code and by the model on real mid-run states "
                 "taken at random observer boundaries, half of them with scrambled task/resource states" % "/".join(sorted(fns)))
    return ev, nt
