"""Pure-function streams (C11 sorts, C12 PERT, C19 Gantt/extract/dates): the real function and
the model's function are called on the same arbitrary inputs (not only simulation-reachable
ones) and an independent Python rendering of the property is evaluated on the real output."""
from env import *  # noqa: F401,F403
import env
import datetime
import itertools
import random
from fractions import Fraction as Fr

import codec
from driver import Driver
from real import (HTask, HComponent, Index, extract_model, snapshot, TS_MAP, RS_W_MAP, CS_MAP, TASK_RULES,
                  RES_RULE_INV, WP_RULE_INV, build)

TS_INV = {v: k for k, v in TS_MAP.items()}
CS_INV = {v: k for k, v in CS_MAP.items()}
RSW_INV = {v: k for k, v in RS_W_MAP.items()}
RSF_INV = {0: BaseFacilityState.FREE, 1: BaseFacilityState.WORKING, 2: BaseFacilityState.ABSENCE}
# the same states as members of the sibling enum (equal by value, not the same object): a log may hold them, e.g.
# after append_project_log_from_simple_json; comparing states by identity would see a change where there is none
_ALT = {}
for _inv, _other in ((TS_INV, BaseComponentState), (CS_INV, BaseTaskState), (RSW_INV, BaseFacilityState), (RSF_INV, BaseWorkerState)):
    _ALT[id(_inv)] = {k: _other(int(v)) for k, v in _inv.items()}


def mixed_log(inv, seq, salt):
    """the log `seq` as enum members, every third entry (by a cheap hash) taken from the sibling enum"""
    alt = _ALT[id(inv)]
    return [(alt if (i * 7 + x + salt) % 3 == 0 else inv)[x] for i, x in enumerate(seq)]


def F(x):
    return x if isinstance(x, Fr) else Fr(x)


def enc_ivs(ivs):
    out = [str(len(ivs))]
    for a, n in ivs:
        out.append(str(int(a)))
        out.append(codec.rat_str(n))
    return out


# ------------------------------------------------------------------------------------------------
# C19
# ------------------------------------------------------------------------------------------------

def rle(log):
    """maximal runs (value, start, length) — the independent specification"""
    out = []
    i = 0
    while i < len(log):
        j = i
        while j < len(log) and log[j] == log[i]:
            j += 1
        out.append((log[i], i, j - i))
        i = j
    return out


def runs_of(st, log, margin):
    return [(a, Fr(n - 1) + F(margin)) for v, a, n in rle(log) if v == st]


def c19_logs(rng, tier):
    """state sequences: exhaustive up to a length, then random longer ones"""
    L = 5 if tier == "quick" else 7
    for n in range(0, L + 1):
        for tup in itertools.product(range(4), repeat=n):
            yield "T", list(tup)
    Lr = 6 if tier == "quick" else 8
    for n in range(0, Lr + 1):
        for tup in itertools.product(range(3), repeat=n):
            yield "R", list(tup)
    k = 300 if tier == "quick" else 6000
    for _ in range(k):
        n = rng.randint(6, 40)
        # run-structured random sequences (long runs, few switches) and uniform noise
        if rng.random() < 0.7:
            seq = []
            while len(seq) < n:
                seq += [rng.randrange(4)] * rng.randint(1, 6)
            seq = seq[:n]
        else:
            seq = [rng.randrange(4) for _ in range(n)]
        yield "T", seq
        yield "R", [x % 3 for x in seq]


def run_c19(ctx):
    rng = random.Random(ctx.seed * 31 + 5)
    margins = [1.0, 0.0, 0.5, 2.0]
    branches = {}
    fps = set()
    n_eval = 0
    init = datetime.datetime(2021, 3, 4, 5, 6, 7)
    with Driver() as drv:
        drv.ask(["M"] + codec.enc_model(dict(nT=0, nW=0, nF=0, nTeam=0, nWp=0, nC=0, tasks=[], workers=[],
                                               facs=[], teams=[], wps=[], comps=[])))
        for kind, seq in c19_logs(rng, ctx.tier):
            margin = margins[(len(seq) + sum(seq)) % 4]
            n_eval += 1
            nontriv = len(set(seq)) >= 2
            if nontriv:
                fps.add((kind, tuple(seq), margin))
            if kind == "T":
                for cls, fn, inv in (("task", "ganttT", TS_INV), ("component", "ganttC", CS_INV)):
                    obj = BaseTask("t") if cls == "task" else BaseComponent("c")
                    obj.state_record_list = mixed_log(inv, seq, n_eval) if n_eval % 2 else [inv[x] for x in seq]
                    try:
                        ready, working = obj.get_time_list_for_gannt_chart(finish_margin=margin)
                    except Exception as e:
                        ctx.footprint_disagreements.append(dict(phase=fn, detail="real code raised %r" % e, case=dict(stream="c19", kind=cls, log=seq, margin=margin)))
                        continue
                    real = [[(a, F(n)) for a, n in ready], [(a, F(n)) for a, n in working]]
                    spec = [runs_of(1, seq, margin), runs_of(2, seq, margin)]
                    case = dict(stream="c19", kind=cls, log=seq, margin=margin)
                    if real != spec:
                        ctx.violations.append(dict(property="C19", what="%s Gantt intervals are not the maximal runs of the log" % cls,
                                                   case=case, real=str(real), expected=str(spec)))
                    ans = drv.ask(["FN", fn, codec.rat_str(margin), str(len(seq))] + [str(x) for x in seq])
                    exp = " ".join(enc_ivs(real[0]) + enc_ivs(real[1]))
                    cell = ctx.matrix.setdefault(fn, dict(executions=0, disagreements=0))
                    cell["executions"] += 1
                    if ans != exp:
                        cell["disagreements"] += 1
                        ctx.footprint_disagreements.append(dict(phase=fn, case=case, real=exp, model=ans))
                    # plotly rows (unit = 1 day; Start/Finish formatted by the real code)
                    if cls == "task" or True:
                        unit = datetime.timedelta(hours=6)
                        for view in (False, True):
                            try:
                                rows = obj.create_data_for_gantt_plotly(init, unit, finish_margin=margin, view_ready=view)
                            except Exception as e:
                                ctx.violations.append(dict(property="C19", what="create_data_for_gantt_plotly raised %r" % e, case=case))
                                continue
                            got = [((datetime.datetime.strptime(r["Start"], "%Y-%m-%d %H:%M:%S") - init).total_seconds(),
                                    (datetime.datetime.strptime(r["Finish"], "%Y-%m-%d %H:%M:%S") - init).total_seconds(), r["State"]) for r in rows]
                            exp_rows = ([(F(a) * 21600, (F(a) + n) * 21600, "READY") for a, n in spec[0]] if view else []) + \
                                       [(F(a) * 21600, (F(a) + n) * 21600, "WORKING") for a, n in spec[1]]
                            if [(F(a), F(b), s) for a, b, s in got] != exp_rows:
                                ctx.violations.append(dict(property="C19", what="plotly rows do not map index k to init + k*unit", case=case,
                                                           real=str(got), expected=str(exp_rows)))
                    branches["len%d" % min(len(seq), 9)] = branches.get("len%d" % min(len(seq), 9), 0) + 1
            else:
                for cls, inv in (("worker", RSW_INV), ("facility", RSF_INV)):
                    obj = BaseWorker("w") if cls == "worker" else BaseFacility("f")
                    obj.state_record_list = mixed_log(inv, seq, n_eval) if n_eval % 2 else [inv[x] for x in seq]
                    case = dict(stream="c19", kind=cls, log=seq, margin=margin)
                    try:
                        ready, working, absence = obj.get_time_list_for_gannt_chart(finish_margin=margin)
                    except Exception as e:
                        ctx.violations.append(dict(property="C19", what="%s Gantt raised %r" % (cls, e), case=case))
                        continue
                    real = [[(a, F(n)) for a, n in x] for x in (ready, working, absence)]
                    spec = [runs_of(0, seq, margin), runs_of(1, seq, margin), runs_of(2, seq, margin)]
                    if real != spec:
                        ctx.violations.append(dict(property="C19", what="%s Gantt intervals are not the maximal runs of the log" % cls,
                                                   case=case, real=str(real), expected=str(spec)))
                    # chart rows produced by the team / workplace that owns the resource
                    unit = datetime.timedelta(hours=6)
                    owner = BaseTeam("tm", worker_list=[obj]) if cls == "worker" else BaseWorkplace("wp", facility_list=[obj])
                    for vr, va in ((False, False), (True, False), (True, True)):
                        try:
                            rows = owner.create_data_for_gantt_plotly(init, unit, finish_margin=margin, view_ready=vr, view_absence=va)
                        except Exception as e:
                            ctx.violations.append(dict(property="C19", what="%s rows raised %r" % (cls, e), case=case))
                            continue
                        kind = {"READY": 0, "WORKING": 1, "ABSENCE": 2}
                        got = [(F((datetime.datetime.strptime(r["Start"], "%Y-%m-%d %H:%M:%S") - init).total_seconds()),
                                F((datetime.datetime.strptime(r["Finish"], "%Y-%m-%d %H:%M:%S") - init).total_seconds()), kind[r["State"]]) for r in rows]
                        exp_rows = ([(F(a) * 21600, (F(a) + n) * 21600, 0) for a, n in spec[0]] if vr else []) + \
                                   ([(F(a) * 21600, (F(a) + n) * 21600, 2) for a, n in spec[2]] if va else []) + \
                                   [(F(a) * 21600, (F(a) + n) * 21600, 1) for a, n in spec[1]]
                        if got != exp_rows:
                            ctx.violations.append(dict(property="C19", what="%s chart rows do not map the runs of the log to init + k*unit" % cls, case=case,
                                                       real=str(got), expected=str(exp_rows)))
                        req = ["FN", "plotlyR", "0", "21600", "1" if vr else "0", "1" if va else "0", codec.rat_str(margin), str(len(seq))] + [str(x) for x in seq]
                        ans2 = drv.ask(req)
                        exp2 = [str(len(got))]
                        for a, b2, k2 in got:
                            exp2 += [codec.rat_str(a), codec.rat_str(b2), str(k2)]
                        cell = ctx.matrix.setdefault("plotlyR", dict(executions=0, disagreements=0))
                        cell["executions"] += 1
                        if ans2 != " ".join(exp2):
                            cell["disagreements"] += 1
                            ctx.footprint_disagreements.append(dict(phase="plotlyR", case=case, real=exp2, model=ans2))
                    ans = drv.ask(["FN", "ganttR", codec.rat_str(margin), str(len(seq))] + [str(x) for x in seq])
                    exp = " ".join(enc_ivs(real[0]) + enc_ivs(real[1]) + enc_ivs(real[2]))
                    cell = ctx.matrix.setdefault("ganttR", dict(executions=0, disagreements=0))
                    cell["executions"] += 1
                    if ans != exp:
                        cell["disagreements"] += 1
                        ctx.footprint_disagreements.append(dict(phase="ganttR", case=case, real=exp, model=ans))
        # the same object queried again after its log was edited IN PLACE (same list object, same
        # length): the answer must follow the log, not an earlier call
        k = 150 if ctx.tier == "quick" else 4000
        objs = dict(task=(BaseTask("t"), TS_INV, 4), component=(BaseComponent("c"), CS_INV, 4),
                    worker=(BaseWorker("w"), RSW_INV, 3), facility=(BaseFacility("f"), RSF_INV, 3))
        for o, _, _ in objs.values():
            o.state_record_list = []
        for i in range(k):
            n_eval += 1
            cls = ("task", "component", "worker", "facility")[i % 4]
            obj, inv, base = objs[cls]
            L = len(obj.state_record_list)
            if L == 0 or rng.random() < 0.2:
                L = rng.randint(1, 8)
                seq = [rng.randrange(base) for _ in range(L)]
                obj.state_record_list[:] = [inv[x] for x in seq]
            else:
                seq = [rng.randrange(base) for _ in range(L)]
                how = rng.random()
                if how < 0.5:
                    obj.state_record_list[:] = [inv[x] for x in seq]          # slice assignment
                else:
                    for j, x in enumerate(seq):                               # element assignment
                        obj.state_record_list[j] = inv[x]
            margin = 1.0
            case = dict(stream="c19", kind=cls + " (object reused, log edited in place)", log=seq, margin=margin)
            try:
                res = obj.get_time_list_for_gannt_chart(finish_margin=margin)
            except Exception as e:
                ctx.violations.append(dict(property="C19", what="%s Gantt raised %r" % (cls, e), case=case))
                continue
            real = [[(a, F(n)) for a, n in x] for x in res]
            if base == 4:
                spec = [runs_of(1, seq, margin), runs_of(2, seq, margin)]
            else:
                spec = [runs_of(0, seq, margin), runs_of(1, seq, margin), runs_of(2, seq, margin)]
            fps.add((cls, "reuse", tuple(seq)))
            if real != spec:
                ctx.violations.append(dict(property="C19", what="%s Gantt intervals do not follow the log after it was edited in place" % cls,
                                           case=case, real=str(real), expected=str(spec)))
        # ... and through the project API: simulate, ask, move the absence steps, ask again
        k = 12 if ctx.tier == "quick" else 400
        import gen as _gen
        from lockstep import real_simulate as _rs
        for i in range(k):
            n_eval += 1
            r2 = random.Random(ctx.seed * 7 + i)
            spec_ = _gen.gen_spec(r2, "full")
            params_ = dict(_gen.gen_params(r2, spec_), maxTime=30, absence=sorted(set(r2.choice([1, 2, 3, 4]) for _ in range(2))))
            project = build(spec_)
            try:
                _rs(project, params_)
                ix = Index(project)
                for phase in range(3):
                    for kind, lst, col in (("task", ix.tasks, (1, 2)), ("component", ix.comps, (1, 2)), ("worker", ix.workers, (0, 1, 2)), ("facility", ix.facs, (0, 1, 2))):
                        mp = {"task": TS_MAP, "component": CS_MAP, "worker": RS_W_MAP, "facility": {v: k2 for k2, v in RSF_INV.items()}}[kind]
                        for o in lst:
                            seq = [mp[x] for x in o.state_record_list]
                            res = o.get_time_list_for_gannt_chart(finish_margin=1.0)
                            real = [[(a, F(n)) for a, n in x] for x in res]
                            spec = [runs_of(c, seq, 1.0) for c in col]
                            if real != spec:
                                ctx.violations.append(dict(property="C19", what="%s Gantt intervals are not the runs of the current log after editing absence steps (call %d)" % (kind, phase),
                                                           case=dict(stream="c19", kind="project history", spec=spec_, params=params_, log=seq)))
                    if phase == 0:
                        project.remove_absence_time_list()
                        project.insert_absence_time_list([r2.choice([0, 1, 2, 3, 5]) for _ in range(2)])
                    elif phase == 1:
                        project.reverse_log_information()
            except Exception as e:
                ctx.infra.append("c19 project history crashed: %r" % e)
        # extract_* and set_last_datetime on projects with arbitrary logs
        k = 60 if ctx.tier == "quick" else 1500
        for i in range(k):
            n_eval += 1
            c19_extract_case(ctx, drv, rng, i, fps)
    ctx.evaluations = n_eval
    ctx.traces_validated = n_eval
    ctx.distinct_nontrivial = len(fps)
    ctx.distribution = dict(by_length=branches)
    ctx.samples = [dict(kind="T", log=[0, 1, 1, 2, 2, 1, 3], margin=1.0), dict(kind="R", log=[0, 1, 2, 2, 0], margin=0.5)]
    ctx.rule = ("all state sequences over {NONE,READY,WORKING,FINISHED} up to length %d and over {FREE,WORKING,ABSENCE} up to length %d "
                "plus random run-structured sequences up to length 40, four finish margins; each given to the real "
                "get_time_list_for_gannt_chart / create_data_for_gantt_plotly of tasks, components, workers, facilities, to the model "
                "encoder and to an independent run-length encoding; extract_*_list / set_last_datetime on projects with arbitrary logs; "
                "non-trivial = the sequence contains at least two different states; distinct = distinct (alphabet, sequence, margin)"
                ) % ((5, 6) if ctx.tier == "quick" else (7, 8))


def c19_extract_case(ctx, drv, rng, i, fps):
    nT, nC, nW, nF = rng.randint(1, 4), rng.randint(0, 3), rng.randint(1, 3), rng.randint(0, 2)
    spec = dict(tasks=[dict(work=1.0, inputs=[]) for _ in range(nT)],
                teams=[dict(workers=[dict(skills={}) for _ in range(nW)], targets=[])],
                components=[dict(tasks=[]) for _ in range(nC)],
                workplaces=[dict(facilities=[dict(name="F%d" % k, skills={}) for k in range(nF)], targets=[])])
    project = build(spec)
    ix = Index(project)
    L = rng.randint(0, 6)
    for t in ix.tasks:
        t.state_record_list = [TS_INV[rng.randrange(4)] for _ in range(rng.choice([L, L, max(0, L - 1)]))]
    for c in ix.comps:
        c.state_record_list = [CS_INV[rng.randrange(4)] for _ in range(L)]
    for w in ix.workers:
        w.state_record_list = [RSW_INV[rng.randrange(3)] for _ in range(L)]
    for f in ix.facs:
        f.state_record_list = [RSF_INV[rng.randrange(3)] for _ in range(L)]
    model = extract_model(project, ix)
    st = snapshot(project, ix)
    drv.ask(["M"] + codec.enc_model(model))
    st_toks = codec.enc_state(model, st)
    r_ = rng.random()
    if r_ < 0.5:
        times = sorted(set(rng.randrange(0, 8) for _ in range(rng.randint(0, 3))))
    elif r_ < 0.65:
        times = [rng.randrange(0, 8)] * 2
    else:   # any list of times: unsorted, with repeats, of any length
        times = [rng.randrange(0, 7) for _ in range(rng.randint(1, 4))]
    wf, prod, team, wp = project.workflow, project.product, project.organization.team_list[0], project.organization.workplace_list[0]
    calls = [
        ("extractT", 0, wf.extract_none_task_list, ix.t_ix, "tState"), ("extractT", 1, wf.extract_ready_task_list, ix.t_ix, "tState"),
        ("extractT", 2, wf.extract_working_task_list, ix.t_ix, "tState"), ("extractT", 3, wf.extract_finished_task_list, ix.t_ix, "tState"),
        ("extractC", 0, prod.extract_none_component_list, ix.c_ix, "cState"), ("extractC", 1, prod.extract_ready_component_list, ix.c_ix, "cState"),
        ("extractC", 2, prod.extract_working_component_list, ix.c_ix, "cState"), ("extractC", 3, prod.extract_finished_component_list, ix.c_ix, "cState"),
        ("extractW", 0, team.extract_free_worker_list, ix.w_ix, "wState"), ("extractW", 1, team.extract_working_worker_list, ix.w_ix, "wState"),
        ("extractF", 0, wp.extract_free_facility_list, ix.f_ix, "fState"), ("extractF", 1, wp.extract_working_facility_list, ix.f_ix, "fState"),
    ]
    for fn, stv, real_fn, imap, logf in calls:
        case = dict(stream="c19", kind=fn, state=stv, times=times, logs=st[logf])
        try:
            got = sorted(imap[id(o)] for o in real_fn(times))
        except Exception as e:
            ctx.violations.append(dict(property="C19", what="%s raised %r" % (real_fn.__name__, e), case=case))
            continue
        exp = [k for k, lg in enumerate(st[logf]) if all(t < len(lg) and lg[t] == stv for t in times)]
        if got != exp:
            ctx.violations.append(dict(property="C19", what="%s does not return exactly the objects logged in that state at all requested times" % real_fn.__name__,
                                       case=case, real=got, expected=exp))
        req = ["FN", fn, str(stv), str(len(times))] + [str(t) for t in times]
        if fn in ("extractW", "extractF"):
            members = list(range(len(st[logf])))
            req += [str(len(members))] + [str(x) for x in members]
        ans = drv.ask(req + st_toks)
        cell = ctx.matrix.setdefault(fn, dict(executions=0, disagreements=0))
        cell["executions"] += 1
        if ans != " ".join([str(len(got))] + [str(x) for x in got]):
            cell["disagreements"] += 1
            ctx.footprint_disagreements.append(dict(phase=fn, case=case, real=got, model=ans))
    fps.add(("extract", i))
    # set_last_datetime
    project.time = rng.randint(0, 9)
    unit = datetime.timedelta(minutes=rng.choice([0, 1, 15, 60, 1440]))      # a zero step length is a legal (falsy) value
    last = datetime.datetime(2022, 1, 1) + datetime.timedelta(minutes=rng.randrange(0, 100000))
    old_init, old_unit = project.init_datetime, project.unit_timedelta
    variant = rng.choice(["unit", "unit", "default-unit", "keep-init"])
    if variant == "default-unit":
        got = project.set_last_datetime(last)
        unit = old_unit
    elif variant == "keep-init":
        got = project.set_last_datetime(last, unit_timedelta=unit, set_init_datetime=False)
        if project.init_datetime != old_init:
            ctx.violations.append(dict(property="C19", what="set_last_datetime(set_init_datetime=False) changed init_datetime",
                                       case=dict(stream="c19", kind="setLast", time=project.time, unit=str(unit), last=str(last))))
        project.init_datetime = got
    else:
        got = project.set_last_datetime(last, unit_timedelta=unit)
    if got + unit * (project.time - 1) != last or project.init_datetime != got or project.unit_timedelta != unit:
        ctx.violations.append(dict(property="C19", what="set_last_datetime: last simulated step does not fall on the given date",
                                   case=dict(stream="c19", kind="setLast", time=project.time, unit=str(unit), last=str(last))))
    base = datetime.datetime(2022, 1, 1)
    ans = drv.ask(["FN", "setLast", str(int((last - base).total_seconds())), str(int(unit.total_seconds())), str(project.time)])
    cell = ctx.matrix.setdefault("setLast", dict(executions=0, disagreements=0))
    cell["executions"] += 1
    if ans != str(int((got - base).total_seconds())):
        cell["disagreements"] += 1
        ctx.footprint_disagreements.append(dict(phase="setLast", real=str(got), model=ans))


# ------------------------------------------------------------------------------------------------
# C11 — sorting functions
# ------------------------------------------------------------------------------------------------

def stable_sorted_ok(inp, out, key, desc):
    """out is a permutation of inp, ordered by key, stable"""
    if sorted(inp) != sorted(out):
        return "not a permutation"
    ks = [key(x) for x in out]
    for a, b in zip(ks, ks[1:]):
        if (a < b) if desc else (a > b):
            return "not ordered by the documented key"
    for k in set(ks):
        if [x for x in out if key(x) == k] != [x for x in inp if key(x) == k]:
            return "not stable"
    return None


INF = float("inf")


def run_c11_pure(ctx, drv, rng, n):
    skills = [None, 0.0, 0.5, 1.0, 1.0, 2.0]
    for i in range(n):
        ctx.evaluations += 1
        nT = rng.randint(2, 7)
        names = ["A", "B", "C"]
        spec = dict(tasks=[dict(work=rng.choice([1.0, 2.0, 2.0, 3.0]), name=rng.choice(names), inputs=[]) for _ in range(nT)],
                    teams=[dict(workers=[dict(skills={n_: v for n_ in names for v in [rng.choice(skills)] if v is not None},
                                              cost=rng.choice([0.0, 1.0, 1.0, 5.0]),
                                              main_wp=rng.choice([None, None, 0, 1, 2]))
                                         for _ in range(rng.randint(2, 6))], targets=[])],
                    components=[dict(tasks=[], size=rng.choice([0.5, 1.0, 1.0])) for _ in range(rng.randint(0, 4))],
                    workplaces=[dict(facilities=[dict(name="F", skills={n_: v for n_ in names for v in [rng.choice(skills)] if v is not None},
                                                      cost=rng.choice([0.0, 1.0, 1.0, 5.0])) for _ in range(rng.randint(0, 4))],
                                     cap=rng.choice([1.0, 2.0, 2.0, 3.0]), targets=[]) for _ in range(3)])
        project = build(spec, fresh_strings=True)
        ix = Index(project)
        for t in ix.tasks:
            t.est = rng.choice([0.0, 1.0, 1.0, 2.0, 3.5])
            t.lst = t.est + rng.choice([0.0, 0.0, 1.0, 2.0])
            t.remaining_work_amount = rng.choice([0.0, 0.5, 1.0, 1.0, 2.0])
            t.state_record_list = [TS_INV[rng.choice([0, 1, 1, 2])] for _ in range(rng.randint(0, 4))]
        project.workflow.critical_path_length = rng.choice([3.0, 5.0])
        for q in ix.wps:
            for c in ix.comps:
                if rng.random() < 0.3:
                    q.placed_component_list.append(c)
        model = extract_model(project, ix)
        st = snapshot(project, ix)
        drv.ask(["M"] + codec.enc_model(model))
        st_toks = codec.enc_state(model, st)
        nontrivial = False

        def check(fn, real_out, inp, key, desc, req, label):
            nonlocal nontrivial
            case = dict(stream="c11", fn=fn, label=label, spec=spec, input=inp, index=i, seed=ctx.seed)
            bad = stable_sorted_ok(inp, real_out, key, desc)
            if bad:
                ctx.violations.append(dict(property="C11", what="%s(%s): output %s" % (fn, label, bad), case=case, real=real_out))
            ans = drv.ask(req)
            cell = ctx.matrix.setdefault(fn, dict(executions=0, disagreements=0))
            cell["executions"] += 1
            if ans != " ".join([str(len(real_out))] + [str(x) for x in real_out]):
                cell["disagreements"] += 1
                ctx.footprint_disagreements.append(dict(phase=fn, case=case, real=real_out, model=ans))
            ks = [key(x) for x in inp]
            if len(set(ks)) < len(ks) and len(set(ks)) > 1:
                nontrivial = True

        # tasks, all nine modes
        order = list(range(nT))
        rng.shuffle(order)
        tl = [ix.tasks[k] for k in order]
        tkeys = {
            0: (lambda k: F(ix.tasks[k].lst) - F(ix.tasks[k].est), False), 1: (lambda k: F(ix.tasks[k].est), False),
            2: (lambda k: F(ix.tasks[k].default_work_amount), False), 3: (lambda k: F(ix.tasks[k].default_work_amount), True),
            4: (lambda k: sum(1 for s in st["tState"][k] if s == 1), True), 5: (lambda k: F(ix.tasks[k].remaining_work_amount), True),
            6: (lambda k: F(ix.tasks[k].remaining_work_amount), False), 7: (lambda k: 0, True), 8: (lambda k: 0, False),
        }
        for mode in range(9):
            try:
                out = [ix.t_ix[id(t)] for t in env.pr.sort_task_list(list(tl), TASK_RULES[mode])]
            except Exception as e:
                ctx.violations.append(dict(property="C11", what="sort_task_list raised %r for mode %d" % (e, mode), case=dict(stream="c11", spec=spec)))
                continue
            key, desc = tkeys[mode]
            check("sortTasks", out, order, key, desc, ["FN", "sortTasks", str(mode), str(len(order))] + [str(x) for x in order] + st_toks, "mode %d" % mode)
        # workers, four modes, with and without a target workplace; IDs equal but not identical
        worder = list(range(len(ix.workers)))
        rng.shuffle(worder)
        wl = [ix.workers[k] for k in worder]
        name = rng.choice(names)
        for target in (None, rng.randrange(3)):
            tid = None if target is None else "".join(list("wp%d" % target))
            for mode in range(4):
                kw = dict(name=name)
                if tid is not None:
                    kw["workplace_id"] = tid
                try:
                    out = [ix.w_ix[id(w)] for w in env.pr.sort_worker_list(list(wl), RES_RULE_INV[mode], **kw)]
                except Exception as e:
                    ctx.violations.append(dict(property="C11", what="sort_worker_list raised %r for mode %d" % (e, mode), case=dict(stream="c11", spec=spec)))
                    continue

                def wkey(k, mode=mode, target=target):
                    w = model["workers"][k]
                    mw1 = w["mainWp"] != target
                    mw2 = w["mainWp"] is not None
                    ssum = sum((F(v) for _, v in w["skills"]), Fr(0))
                    sk = dict(w["skills"]).get(ix.names[name])
                    if mode == 0:
                        return (mw1, mw2, ssum)
                    if mode == 1:
                        return (ssum, mw1, mw2)
                    if mode == 2:
                        return (F(w["cost"]), mw1, mw2)
                    return (INF if sk is None else -F(sk), mw1, mw2)
                req = ["FN", "sortWorkers", str(mode), str(ix.names[name])] + (["N"] if target is None else ["S", str(target)]) + \
                      [str(len(worder))] + [str(x) for x in worder]
                check("sortWorkers", out, worder, wkey, False, req, "mode %d target %r" % (mode, target))
        # facilities
        forder = list(range(len(ix.facs)))
        rng.shuffle(forder)
        fl = [ix.facs[k] for k in forder]
        for mode in range(4):
            try:
                out = [ix.f_ix[id(f)] for f in env.pr.sort_facility_list(list(fl), RES_RULE_INV[mode], name=name)]
            except Exception as e:
                ctx.violations.append(dict(property="C11", what="sort_facility_list raised %r for mode %d" % (e, mode), case=dict(stream="c11", spec=spec)))
                continue

            def fkey(k, mode=mode):
                f = model["facs"][k]
                if mode == 0:
                    return forder.index(k) * 0  # MW: identity
                if mode == 1:
                    return sum((F(v) for _, v in f["skills"]), Fr(0))
                if mode == 2:
                    return F(f["cost"])
                sk = dict(f["skills"]).get(ix.names[name])
                return INF if sk is None else -F(sk)
            req = ["FN", "sortFacs", str(mode), str(ix.names[name]), str(len(forder))] + [str(x) for x in forder]
            check("sortFacs", out, forder, fkey, False, req, "mode %d" % mode)
        # workplaces
        porder = list(range(len(ix.wps)))
        rng.shuffle(porder)
        pl = [ix.wps[k] for k in porder]
        for mode in range(2):
            try:
                out = [ix.wp_ix[id(q)] for q in env.pr.sort_workplace_list(list(pl), WP_RULE_INV[mode], name=name)]
            except Exception as e:
                ctx.violations.append(dict(property="C11", what="sort_workplace_list raised %r" % e, case=dict(stream="c11", spec=spec)))
                continue

            def pkey(k, mode=mode):
                q = model["wps"][k]
                if mode == 0:
                    return F(q["cap"]) - sum((F(model["comps"][c]["size"]) for c in st["wpComps"][k]), Fr(0))
                tot = Fr(0)
                for f in q["facs"]:
                    v = dict(model["facs"][f]["skills"]).get(ix.names[name])
                    if v is not None and F(v) > 0:
                        tot += F(v)
                return tot
            req = ["FN", "sortWps", str(mode), str(ix.names[name]), str(len(porder))] + [str(x) for x in porder] + st_toks
            check("sortWps", out, porder, pkey, True, req, "mode %d" % mode)
        if nontrivial:
            ctx.distinct_nontrivial += 1
        if len(ctx.samples) < 2:
            ctx.samples.append(dict(stream="c11", spec=spec))


# ------------------------------------------------------------------------------------------------
# C12 — PERT on arbitrary FS networks, arbitrary remaining work, arbitrary stale values
# ------------------------------------------------------------------------------------------------

def cpm(model, rem, time):
    """independent critical-path computation (topological order, not a wave front)"""
    n = model["nT"]
    preds_ = [[p for p, _ in model["tasks"][t]["inputs"]] for t in range(n)]
    succs = [[q for q, _ in model["tasks"][t]["outputs"]] for t in range(n)]
    est, done = [None] * n, 0
    while done < n:
        for t in range(n):
            if est[t] is None and all(est[p] is not None for p in preds_[t]):
                est[t] = max([F(time)] + [est[p] + F(rem[p]) for p in preds_[t]])
                done += 1
    eft = [est[t] + F(rem[t]) for t in range(n)]
    cpl = max(eft)
    lst, lft, done = [None] * n, [None] * n, 0
    while done < n:
        for t in range(n):
            if lst[t] is None and all(lst[q] is not None for q in succs[t]):
                lft[t] = min([lst[q] for q in succs[t]]) if succs[t] else cpl
                lst[t] = lft[t] - F(rem[t])
                done += 1
    return est, eft, lst, lft, cpl


def run_c12_pure(ctx, drv, rng, n):
    for i in range(n):
        ctx.evaluations += 1
        nT = rng.randint(1, 8)
        tasks = []
        for k in range(nT):
            ins = []
            if k > 0:
                for j in rng.sample(range(k), min(k, rng.choice([0, 1, 1, 2, 3]))):
                    ins.append([j, 0])
            tasks.append(dict(work=rng.choice([0.0, 0.5, 1.0, 2.0, 3.0]), inputs=ins))
        if rng.random() < 0.5:
            perm = list(range(nT))
            rng.shuffle(perm)
            inv = {old: new for new, old in enumerate(perm)}
            tasks = [dict(tasks[old], inputs=[[inv[j], d] for j, d in tasks[old]["inputs"]]) for old in perm]
        spec = dict(tasks=tasks, teams=[], components=[], workplaces=[])
        hashes = list(range(nT))
        project = build(spec, hashes=hashes)
        ix = Index(project)
        wf = project.workflow
        model = extract_model(project, ix)
        drv.ask(["M"] + codec.enc_model(model))
        updates = rng.randint(1, 3)
        time = 0
        for u in range(updates):
            for t in ix.tasks:  # arbitrary progress and arbitrary stale PERT values
                t.remaining_work_amount = rng.choice([0.0, 0.0, 0.5, 1.0, 1.5, 2.0, 4.0])
                if rng.random() < 0.6:
                    t.est, t.eft = rng.choice([0.0, 3.0, 7.5]), rng.choice([0.0, 1.0, 9.0])
                    t.lst, t.lft = rng.choice([-1.0, 0.0, 2.0, 50.0]), rng.choice([-1.0, 0.0, 2.5, 50.0])
            time += rng.randint(0, 3)
            project.time = time
            pre = snapshot(project, ix)
            case = dict(stream="c12", spec=spec, rem=[t.remaining_work_amount for t in ix.tasks], time=time, update=u, index=i, seed=ctx.seed,
                        stale=dict(est=pre["est"], eft=pre["eft"], lst=pre["lst"], lft=pre["lft"]))
            try:
                wf.update_PERT_data(time)
            except Exception as e:
                ctx.violations.append(dict(property="C12", what="update_PERT_data raised %r" % e, case=case))
                break
            post = snapshot(project, ix)
            est, eft, lst, lft, cpl = cpm(model, pre["rem"], time)
            got = ([F(x) for x in post["est"]], [F(x) for x in post["eft"]], [F(x) for x in post["lst"]], [F(x) for x in post["lft"]], F(post["cpl"]))
            if got != (est, eft, lst, lft, cpl):
                which = [nm for nm, a, b in zip(("est", "eft", "lst", "lft", "cpl"), got, (est, eft, lst, lft, cpl)) if a != b]
                ctx.violations.append(dict(property="C12", what="PERT values differ from the critical-path computation in %s" % ",".join(which),
                                           case=case, real=str(got), expected=str((est, eft, lst, lft, cpl))))
            elif any(l_ < e_ for l_, e_ in zip(lst, est)):
                ctx.violations.append(dict(property="C12", what="negative slack", case=case))
            toks = ["PH", "pert", "1", "0", "0"] + codec.enc_state(model, pre)
            ans = drv.ask(toks)
            cell = ctx.matrix.setdefault("pert(pure)", dict(executions=0, disagreements=0))
            cell["executions"] += 1
            if ans != " ".join(codec.enc_state(model, post)):
                cell["disagreements"] += 1
                d = codec.diff_states(codec.dec_state(model, ans.split()), post)
                ctx.footprint_disagreements.append(dict(phase="pert", fields=d, case=case))
        if nT >= 3 and any(t["inputs"] for t in tasks):
            ctx.distinct_nontrivial += 1
        if len(ctx.samples) < 2 and nT >= 4:
            ctx.samples.append(dict(stream="c12", spec=spec))
