"""Per-property wiring: which streams feed a property, its footprint in the correspondence
matrix, how a violation is replayed, shrunk and matched against known findings."""
from env import *  # noqa: F401,F403
import copy
import json
import os

import simstream

VERIF = os.path.dirname(os.path.dirname(os.path.abspath(__file__)))


class Context:
    def __init__(self, pid, seed, tier, n_override=None):
        self.pid, self.seed, self.tier, self.n_override = pid, seed, tier, n_override
        self.violations = []               # dicts with at least: what, case (replayable)
        self.footprint_disagreements = []  # dicts
        self.other_disagreements = []
        self.infra = []
        self.evaluations = 0
        self.distinct_nontrivial = 0
        self.rule = ""
        self.samples = []
        self.traces_validated = 0
        self.matrix = {}
        self.distribution = {}
        self.changed_source = []
        self.budget = 1

    def n(self, quick, thorough):
        if self.n_override is not None:
            return self.n_override
        return quick * self.budget if self.tier == "quick" else thorough


# ---- footprints: state fields whose model/code agreement a property's theorem rests on -------

ALLOC = ["allocW", "allocF", "wasg", "fasg"]
ALLOC_LOGS = ["tAllocW", "tAllocF", "wAsg", "fAsg"]
RES = ["wstate", "fstate"]
RES_LOGS = ["wState", "fState"]
COSTS = ["wCost", "fCost", "teamCost", "wpCost", "orgCost", "projCost"]
PLACE = ["placed", "wpComps", "cPlaced", "wpPlaced"]
PERT = ["est", "eft", "lst", "lft", "cpl"]
ALL_LOGS = ["tState", "tRem"] + ALLOC_LOGS + RES_LOGS + COSTS + ["wpPlaced", "cState", "cPlaced"]

FOOTPRINT = {
    # pid: (fields, phases or None = any phase)
    "C01": (["tstate", "tState"], None),
    "C02": (["rem", "tRem", "tstate"] + ALLOC + RES, ["perform", "finished", "init", "record", "absence", "allocate", "working", "free-run", "exception"]),
    "C03": (ALLOC + RES + ALLOC_LOGS + RES_LOGS + ["tstate"], None),
    "C04": (ALLOC, ["allocate", "init", "finished", "free-run", "exception"]),
    # the liveness theorems (C05_live_*) rest on the whole step semantics of the live state: who is allocated,
    # who is present, how much work is left — not on the logs or the costs
    "C05": (["time", "status", "tstate", "rem"] + ALLOC + RES, None),
    "C06": (["tstate"] + ALLOC, ["finished", "ready", "allocate", "working", "init", "free-run", "exception"]),
    "C07": (COSTS + RES_LOGS, ["cost", "record", "init", "free-run", "exception"]),
    "C08": (ALL_LOGS + ["time"], None),
    "C10": (["rem", "tstate"] + ALLOC + RES + COSTS + RES_LOGS, ["absence", "allocate", "working", "cost", "perform", "record", "free-run", "exception"]),
    "C11": (ALLOC, ["allocate", "exception"]),
    "C12": (PERT, None),
    "C13": (PLACE + ["allocF", "tstate"], None),
    "C14": (["cstate", "cState", "tstate", "tState"], None),
}


def codec_fields():
    import codec
    return [f for f, _, _ in codec.STATE] + ["*"]


def relevant(pid, d):
    fields, phases = FOOTPRINT[pid]
    if phases is not None and d["phase"] not in phases:
        return False
    return "*" in d["fields"] or any(f in fields for f in d["fields"])


# ---- the simulation stream as a property runner -------------------------------------------------

def nontrivial(r):
    return r["steps"] >= 2 and r["feats"].get("alloc")


def absorb_fixtures(ctx):
    """pDESy's own test fixtures (flat products) under every rule, with/without absence steps"""
    import fixtures
    from driver import Driver
    with Driver() as drv:
        res = fixtures.run_fixtures(drv, [ctx.pid])
    cell = ctx.matrix.setdefault("fixtures", dict(executions=0, disagreements=0, models=sorted(set(r["name"] for r in res))))
    for r in res:
        cell["executions"] += 1
        ctx.evaluations += 1
        ctx.traces_validated += 1
        case = dict(stream="fixture", fixture=r["name"], params=r["params"])
        for d in r["dis"]:
            cell["disagreements"] += 1
            rec = dict(case=case, phase=d["phase"], fields=d["fields"], time=d.get("time"), detail=d.get("detail"))
            (ctx.footprint_disagreements if relevant(ctx.pid, d) else ctx.other_disagreements).append(rec)
        for v in r["viol"]:
            if v["what"].startswith("PREDICATE-CRASH"):
                ctx.infra.append("fixture %s: %s" % (r["name"], v["what"]))
                continue
            ctx.violations.append(dict(v, case=case))
    ctx.rule += "; plus pDESy's own test fixtures with a flat product (%d runs: every rule, with/without project absence steps), lockstep + whole run + predicate" % len(res)


def sim_runner(profile="full", quick=480, thorough=16000):
    def run(ctx):
        n = ctx.n(quick, thorough)
        results = simstream.run_stream(ctx.seed, n, profile, [ctx.pid])
        absorb_sim(ctx, results, profile)
        absorb_fixtures(ctx)
        if ctx.tier == "thorough" and ctx.n_override is None:
            exhaustive_small(ctx)
    return run


def exhaustive_small(ctx):
    """thorough tier: every model of the small scope gen.exh_spec, once (complete enumeration)"""
    import gen
    total = gen.exh_total()
    keep = (ctx.evaluations, ctx.distinct_nontrivial, ctx.traces_validated, ctx.samples, ctx.matrix, ctx.distribution, ctx.rule)
    results = simstream.run_stream(0, total, "exh", [ctx.pid])
    ctx.evaluations = ctx.distinct_nontrivial = ctx.traces_validated = 0
    ctx.samples, ctx.matrix = [], {}
    absorb_sim(ctx, results, "exh")
    ev, dn, tv, samples, matrix, dist, rule = keep
    ctx.distribution = dict(dist, exhaustive_small_scope=dict(models=total, complete=True, **{k: v for k, v in ctx.distribution.items() if k in ("cases", "success", "failure", "with_allocation")}))
    for ph, cell in ctx.matrix.items():
        c0 = matrix.setdefault(ph, dict(executions=0, disagreements=0))
        c0["executions"] += cell["executions"]
        c0["disagreements"] += cell["disagreements"]
        if "first" in cell:
            c0.setdefault("first", cell["first"])
    ctx.matrix = matrix
    ctx.evaluations += ev
    ctx.distinct_nontrivial += dn
    ctx.traces_validated += tv
    ctx.samples = samples
    ctx.rule = rule + "; plus the complete enumeration of a small scope (<= 3 tasks, every pair unlinked or linked by one of the four kinds, work in {0,1,2}, five worker configurations, three task rules, with/without an absence step: %d models)" % total


def absorb_sim(ctx, results, profile):
    pid = ctx.pid
    fps = set()
    matrix = {}
    dist = dict(cases=0, with_allocation=0, with_facility_pairs=0, with_moves=0, with_project_absence=0,
                with_individual_absence=0, with_contention=0, success=0, failure=0, steps_total=0,
                dep_kinds={}, exceptions=0, on_used_object=0)
    for r in results:
        if r.get("infra"):
            ctx.infra.append("case %d: %s" % (r["index"], r["infra"]))
            continue
        ctx.evaluations += 1
        ctx.traces_validated += 1
        dist["cases"] += 1
        fe = r["feats"]
        dist["with_allocation"] += bool(fe.get("alloc"))
        dist["with_facility_pairs"] += bool(fe.get("facility_pairs"))
        dist["with_moves"] += bool(fe.get("moves"))
        dist["with_project_absence"] += bool(fe.get("absence_steps"))
        dist["with_individual_absence"] += bool(fe.get("ind_absence"))
        dist["with_contention"] += bool(fe.get("contention"))
        dist["on_used_object"] += bool(fe.get("used_object"))
        dist["success"] += fe.get("status") == 1
        dist["failure"] += fe.get("status") == 2
        dist["steps_total"] += r["steps"]
        dist["exceptions"] += r["exc"] is not None
        for d in fe.get("deps", []):
            dist["dep_kinds"][str(d)] = dist["dep_kinds"].get(str(d), 0) + 1
        if nontrivial(r):
            fps.add(r["fp"])
        for ph, k in r["stats"].items():
            cell = matrix.setdefault(ph, dict(executions=0, disagreements=0))
            cell["executions"] += k
        case = dict(stream="sim", seed=ctx.seed, index=r["index"], profile=profile)
        for d in r["dis"]:
            cell = matrix.setdefault(d["phase"], dict(executions=0, disagreements=0))
            cell["disagreements"] += 1
            cell.setdefault("first", dict(case=case, fields=d["fields"], time=d.get("time")))
            rec = dict(case=case, phase=d["phase"], fields=d["fields"], time=d.get("time"), detail=d.get("detail"))
            if relevant(pid, d):
                ctx.footprint_disagreements.append(rec)
            else:
                ctx.other_disagreements.append(rec)
        for v in r["viol"]:
            if v["what"].startswith("PREDICATE-CRASH"):
                ctx.infra.append("case %d: %s" % (r["index"], v["what"]))
                continue
            v = dict(v)
            v["case"] = case
            ctx.violations.append(v)
        if len(ctx.samples) < 3 and nontrivial(r):
            spec, params = simstream.make_case(ctx.seed, r["index"], profile)
            ctx.samples.append(dict(case=case, spec=spec, params=params, steps=r["steps"]))
    ctx.distinct_nontrivial = len(fps)
    ctx.matrix = matrix
    ctx.distribution = dist
    ctx.rule = ("random models from harness/gen.py (profile %s; tasks on a random DAG with FS/SS/FF/SF links, teams, "
                "skills incl. 0/missing, solo flags, fixed-ID lists, individual and project absences, flat products, "
                "workplaces with capacities/input links/facilities, all priority rules), each run on the real code "
                "with the observer at 14 phase boundaries and compared phase by phase with the Lean model; a case is "
                "non-trivial when the run has >= 2 recorded steps and at least one worker allocation; distinct = "
                "distinct (spec, params) fingerprints among those") % profile
    if ctx.violations:
        ctx.violations = [shrink(ctx, v) for v in ctx.violations[:1]] + ctx.violations[1:]


# ---- replay / shrink / known findings ---------------------------------------------------------

def eval_case(case, pid):
    """re-run one replayable case; returns list of violations of pid (and disagreements)"""
    if "spec" in case:
        spec, params = case["spec"], case["params"]
    else:
        spec, params = simstream.make_case(case["seed"], case["index"], case["profile"])
    r = simstream.evaluate(spec, params, [pid], want_lockstep=True)
    return r, spec, params


def shrink(ctx, v, budget=120):
    """greedy structural shrinking of the failing model; keeps the same predicate message class"""
    pid = ctx.pid
    try:
        r, spec, params = eval_case(v["case"], pid)
    except Exception:
        return v
    key = v["what"].split(" ")[0:3]

    def fails(sp, pa):
        try:
            rr = simstream.evaluate(sp, pa, [pid], want_lockstep=False)
        except Exception:
            return False
        return any(x["what"].split(" ")[0:3] == key or True for x in rr["viol"]) and bool(rr["viol"])

    if not fails(spec, params):
        return v
    cur_s, cur_p = copy.deepcopy(spec), copy.deepcopy(params)
    used = 0
    changed = True
    while changed and used < budget:
        changed = False
        for cand_s, cand_p in candidates(cur_s, cur_p):
            used += 1
            if used > budget:
                break
            if fails(cand_s, cand_p):
                cur_s, cur_p = cand_s, cand_p
                changed = True
                break
    v = dict(v)
    v["case"] = dict(stream="sim", spec=cur_s, params=cur_p, shrunk_from=v["case"])
    try:
        rr = simstream.evaluate(cur_s, cur_p, [pid], want_lockstep=False)
        if rr["viol"]:
            v["what"] = rr["viol"][0]["what"]
            v["detail"] = rr["viol"][0]
    except Exception:
        pass
    return v


def drop_task(spec, k):
    s = copy.deepcopy(spec)
    del s["tasks"][k]

    def re(i):
        return i - 1 if i > k else i
    for t in s["tasks"]:
        t["inputs"] = [[re(j), d] for j, d in t.get("inputs", []) if j != k]
    for tm in s.get("teams", []):
        tm["targets"] = [re(i) for i in tm.get("targets", []) if i != k]
    for p in s.get("workplaces", []):
        p["targets"] = [re(i) for i in p.get("targets", []) if i != k]
    for t in s["tasks"]:
        t.pop("wps_order", None)
    for c in s.get("components", []):
        c["tasks"] = [re(i) for i in c.get("tasks", []) if i != k]
    return s


def candidates(spec, params):
    nT = len(spec["tasks"])
    if nT > 1:
        for k in reversed(range(nT)):
            yield drop_task(spec, k), params
    for a, tm in enumerate(spec.get("teams", [])):
        for wi in range(len(tm.get("workers", []))):
            s = copy.deepcopy(spec)
            # dropping a worker shifts worker indices: only allowed when no fixW list is used
            if any(t.get("fixW") is not None for t in s["tasks"]):
                continue
            del s["teams"][a]["workers"][wi]
            yield s, params
    if spec.get("components"):
        s = copy.deepcopy(spec)
        if not any(t.get("need_fac") for t in s["tasks"]):
            s["components"], s["workplaces"] = [], []
            for tm in s["teams"]:
                for w in tm["workers"]:
                    w.pop("main_wp", None)
            yield s, params
    if params["absence"]:
        for k in range(len(params["absence"])):
            p = dict(params)
            p["absence"] = params["absence"][:k] + params["absence"][k + 1:]
            yield spec, p
    for i, t in enumerate(spec["tasks"]):
        for key in ("fixW", "fixF", "due"):
            if t.get(key) is not None:
                s = copy.deepcopy(spec)
                s["tasks"][i].pop(key)
                yield s, params
        if t.get("inputs"):
            for j in range(len(t["inputs"])):
                s = copy.deepcopy(spec)
                del s["tasks"][i]["inputs"][j]
                yield s, params
    for a, tm in enumerate(spec.get("teams", [])):
        for wi, w in enumerate(tm.get("workers", [])):
            if w.get("absence"):
                s = copy.deepcopy(spec)
                s["teams"][a]["workers"][wi]["absence"] = []
                yield s, params
    if params["maxTime"] > 3:
        p = dict(params)
        p["maxTime"] = max(3, params["maxTime"] // 2)
        yield spec, p


def match_known(v, known):
    for k in known:
        sig = k.get("match", {})
        if "what_prefix" in sig and not v.get("what", "").startswith(sig["what_prefix"]):
            continue
        if sig.get("zero_duration") and v.get("case", {}).get("duration") != 0:
            continue
        if sig.get("nested") and not v.get("case", {}).get("nested"):
            continue
        if "what_contains" in sig and sig["what_contains"] not in v.get("what", ""):
            continue
        if sig.get("zero_auto"):
            case = v.get("case", {})
            sp = case.get("spec")
            if sp is None or not any(t.get("auto") and t["work"] * (1.0 - t.get("prog", 0.0)) <= 0 for t in sp["tasks"]):
                continue
        if "params_rule" in sig:
            case = v.get("case", {})
            params = case.get("params")
            if params is None and "seed" in case:
                _, params = simstream.make_case(case["seed"], case["index"], case["profile"])
            if params is None or params.get("rule") != sig["params_rule"]:
                continue
        return k
    return None


def known_still_fails(k):
    w = k.get("witness")
    if not w:
        return False
    if w.get("kind") in ("sim-exception", "sim-pred"):
        try:
            from lockstep import run_real
            from real import snapshot
            import preds
            project, ix, model, pre, snaps, exc = run_real(w["spec"], w["params"])
            if w["kind"] == "sim-exception":
                return exc is not None
            run = dict(pre=pre, snaps=snaps, final=snapshot(project, ix), exc=None)
            return exc is not None or bool(preds.PREDS[k["property"]](model, w["params"], run))
        except Exception:
            return True
    if w.get("kind") == "unit-time":
        try:
            from real import build
            pr = build(w["spec"])
            pr.simulate(unit_time=w["unit_time"])
            return pr.time != len(pr.cost_list)
        except Exception:
            return True
    if w.get("kind") == "c20-zero":
        import persist
        try:
            return bool(persist.c20_zero_duration_witness())
        except Exception:
            return True
    if w.get("kind") == "c10-removal":
        import histprops
        try:
            return bool(histprops.c10_removal_differs(w["spec"], w["params"]))
        except Exception:
            return True
    try:
        r = simstream.evaluate(w["spec"], w["params"], [k["property"]], want_lockstep=False)
        return bool(r["viol"])
    except Exception:
        return True


def widen_search(ctx):
    """a broken obligation/correspondence: look harder for an input on which the property fails"""
    pid = ctx.pid
    if pid not in FOOTPRINT:
        return []
    import preds
    if pid not in preds.PREDS:
        # history/pure properties: re-run the property's own stream with a larger budget and another seed
        try:
            c2 = Context(pid=pid, seed=ctx.seed + 4242, tier="thorough", n_override=(ctx.n_override or 0) * 4 or {"C15": 160, "C17": 120, "C18": 400, "C09": 160, "C16": 200, "C20": 160, "C19": None}.get(pid))
            REGISTRY[pid]["run"](c2)
            return c2.violations[:3]
        except Exception:
            return []
    out = []
    # 1. the disagreeing cases themselves and their neighbours (predicate only)
    n = 1500 if ctx.tier == "quick" else 20000
    results = simstream.run_stream(ctx.seed + 7777, n, "full", [pid], want_lockstep=False)
    for r in results:
        for v in r.get("viol", []):
            if v["what"].startswith("PREDICATE-CRASH"):
                continue
            v = dict(v)
            v["case"] = dict(stream="sim", seed=ctx.seed + 7777, index=r["index"], profile="full")
            out.append(v)
            if len(out) >= 3:
                return [shrink(ctx, out[0])] + out[1:]
    return [shrink(ctx, out[0])] + out[1:] if out else []


def replay(pid, path):
    data = json.load(open(path))
    v = data.get("violation")
    if not v:
        print("replay file names what no longer checks (no failing input):")
        print(json.dumps(data.get("no_longer_checks", data), indent=1)[:3000])
        return 1
    if v["case"].get("stream") == "fixture":
        import fixtures
        from driver import Driver
        with Driver() as drv:
            rs = [r for r in fixtures.run_fixtures(drv, [pid])
                  if r["name"] == v["case"]["fixture"] and r["params"] == v["case"]["params"]]
        bad = 0
        for r in rs:
            for x in r["viol"]:
                print("VIOLATION-REPLAYED:", x["what"])
                bad = 1
            for d in r["dis"]:
                print("DISAGREEMENT:", d)
        return bad
    st = str(v["case"].get("stream", ""))
    if st.startswith("c10-removal") and "spec" in v["case"]:
        d = _hp.c10_removal_differs(v["case"]["spec"], v["case"]["params"])
        print(json.dumps(dict(spec=v["case"]["spec"], params=v["case"]["params"])))
        if d:
            print("VIOLATION-REPLAYED: simulate(absence=%s); remove_absence_time_list() differs from simulate() in %s" % (v["case"]["params"]["absence"], d[:8]))
        return 1 if d else 0
    if "ops" in v["case"] and "spec" in v["case"]:
        from histories import run_history
        from driver import Driver
        with Driver() as drv:
            h = run_history(v["case"]["spec"], v["case"]["ops"], drv)
        print(json.dumps(dict(spec=v["case"]["spec"], ops=v["case"]["ops"]), default=str)[:4000])
        for i, e in enumerate(h["exc"]):
            if e:
                print("EXCEPTION at op %d: %s" % (i, e))
        for d in h["dis"] + [dict(structure=x) for x in h["structure"]]:
            print("DISAGREEMENT:", d)
        print("reported violation:", v.get("what"))
        return 1 if (h["dis"] or h["structure"] or any(h["exc"])) else 0
    API_STREAMS = {"readonly-queries": "run_readonly_queries", "add-labor-cost": "run_add_labor_cost_flags", "nonfinite-json": "run_nonfinite_json",
                   "class-level-edits": "run_class_level_edits", "placement-after-insert": "run_placement_logs_after_insert",
                   "cost-sums-after-class-inserts": "run_cost_sums_after_class_inserts"}
    if st in API_STREAMS and "index" in v["case"] and "seed" in v["case"]:
        # API-corner streams derive every choice from (seed, index): re-run the stream up to that index on the real code
        import types
        import apistream
        c2 = types.SimpleNamespace(seed=v["case"]["seed"], pid=pid, violations=[], evaluations=0, traces_validated=0,
                                   distribution={}, rule="")
        getattr(apistream, API_STREAMS[st])(c2, v["case"]["index"] + 1)
        hits = [x for x in c2.violations if x["case"].get("index") == v["case"]["index"]]
        print(json.dumps(dict(stream=st, seed=v["case"]["seed"], index=v["case"]["index"], spec=v["case"].get("spec")), default=str)[:4000])
        for x in hits:
            print("VIOLATION-REPLAYED:", x["what"])
        return 1 if hits else 0
    if "spec" not in v["case"] and "seed" not in v["case"]:
        print("this replay is a history/pure-function case; its full description:")
        print(json.dumps(v, indent=1, default=str)[:4000])
        return 1
    r, spec, params = eval_case(v["case"], pid)
    print(json.dumps(dict(spec=spec, params=params), indent=None))
    for x in r["viol"]:
        print("VIOLATION-REPLAYED:", x["what"])
    for d in r["dis"]:
        print("DISAGREEMENT:", d)
    return 1 if r["viol"] else 0


def pure_then_sim(pure_fn, quick_pure, thorough_pure, quick_sim=128, thorough_sim=8000, profile="full"):
    def run(ctx):
        import purestream
        import random
        from driver import Driver
        rng = random.Random(ctx.seed * 97 + 3)
        with Driver() as drv:
            pure_fn(ctx, drv, rng, ctx.n(quick_pure, thorough_pure))
        pure_eval, pure_dn, pure_samples, pure_matrix = ctx.evaluations, ctx.distinct_nontrivial, ctx.samples, ctx.matrix
        results = simstream.run_stream(ctx.seed, ctx.n(quick_sim, thorough_sim), profile, [ctx.pid])
        ctx.evaluations, ctx.samples, ctx.matrix = 0, [], {}
        absorb_sim(ctx, results, profile)
        ctx.evaluations += pure_eval
        ctx.distinct_nontrivial += pure_dn
        ctx.samples = (pure_samples + ctx.samples)[:3]
        ctx.matrix.update(pure_matrix)
        ctx.traces_validated += pure_eval
        ctx.rule = "pure-function stream (harness/purestream.py: the real function and the model function on the same arbitrary inputs, incl. ties, missing keys, equal-but-not-identical ID strings, stale values) followed by: " + ctx.rule
    return run


def nest_spec(rng, spec):
    """turn the flat product of a spec into a forest (component i may become a child of some j < i)"""
    cs = spec.get("components", [])
    if len(cs) < 2:
        return False
    done = False
    for i in range(1, len(cs)):
        if rng.random() < 0.7:
            cs[rng.randrange(i)].setdefault("children", []).append(i)
            done = True
    return done


NESTED_KNOWN_PREFIXES = ("task", "component")   # see known_findings.json: C13-F15-nested-*


def run_c13_full(ctx):
    """flat products: lockstep + predicate (the claimed fragment); nested products: predicate only"""
    import random
    import gen
    import preds
    from lockstep import run_real
    from real import snapshot
    results = simstream.run_stream(ctx.seed, ctx.n(480, 16000), "full", [ctx.pid])
    absorb_sim(ctx, results, "full")
    n = ctx.n(100, 6000)
    cnt = dict(cases=0, exceptions=0, violations=0)
    res = simstream.run_stream(ctx.seed + 99, n, "nested", [ctx.pid], want_lockstep=False)
    for r in res:
        if r.get("infra"):
            ctx.infra.append("nested case %d: %s" % (r["index"], r["infra"]))
            continue
        cnt["cases"] += 1
        spec, params = simstream.make_case(ctx.seed + 99, r["index"], "nested")
        case = dict(stream="nested", spec=spec, params=params, nested=True)
        if r["exc"] is not None:
            cnt["exceptions"] += 1
            ctx.violations.append(dict(property="C13", what="simulate raised %s" % r["exc"], case=case))
            continue
        for v in r["viol"][:1]:
            cnt["violations"] += 1
            v = dict(v)
            v["case"] = case
            ctx.violations.append(v)
    ctx.evaluations += cnt["cases"]
    ctx.distribution["nested_products"] = cnt
    ctx.rule += ("; plus NESTED products (search only, outside the model): the same generators with the components turned into a random "
                 "forest, real runs only, the C13 predicate evaluated on every boundary; the known nested-product findings are matched by category")


def run_c19(ctx):
    import purestream
    purestream.run_c19(ctx)


REGISTRY = {}
for _pid in ("C01", "C02", "C03", "C04", "C05", "C06", "C07", "C08", "C10", "C13", "C14"):
    REGISTRY[_pid] = dict(run=sim_runner(), footprint_doc="fields %s, phases %s" % FOOTPRINT[_pid])
REGISTRY["C13"]["run"] = run_c13_full


def with_statefn(inner, fns, quick, thorough):
    """append the state-function stream (decision functions on real, partly scrambled mid-run states)"""
    def run(ctx):
        inner(ctx)
        import statefn
        ev, nt = statefn.run_statefn(ctx, ctx.n(quick, thorough), fns)
        ctx.evaluations += ev
        ctx.traces_validated += ev
        ctx.distinct_nontrivial += nt
    return run


def with_decimal(inner, quick, thorough):
    """append real-code-only runs off the dyadic grid (float residues), predicate in tolerance mode"""
    def run(ctx):
        inner(ctx)
        res = simstream.run_stream(ctx.seed + 77, ctx.n(quick, thorough), "decimal", [ctx.pid], want_lockstep=False)
        cnt = dict(cases=0, violations=0, exceptions=0)
        for r in res:
            if r.get("infra"):
                ctx.infra.append("decimal case %d: %s" % (r["index"], r["infra"]))
                continue
            cnt["cases"] += 1
            spec, params = simstream.make_case(ctx.seed + 77, r["index"], "decimal")
            case = dict(stream="decimal", spec=spec, params=params)
            if r["exc"] is not None:
                cnt["exceptions"] += 1
                ctx.violations.append(dict(property=ctx.pid, what="simulate raised %s" % r["exc"], case=case))
            for v in r["viol"][:1]:
                if v["what"].startswith("PREDICATE-CRASH"):
                    ctx.infra.append("decimal case %d: %s" % (r["index"], v["what"]))
                    continue
                cnt["violations"] += 1
                ctx.violations.append(dict(v, case=case))
        ctx.evaluations += cnt["cases"]
        ctx.distribution["off_grid_real_runs"] = cnt
        ctx.rule += ("; plus real runs OFF the dyadic grid (work, progress, skills from 0.1/0.3/0.7/...: float residues), real code only, "
                     "the predicate in tolerance mode (no work left = below 1e-12; the code documents 1e-10)")
    return run


REGISTRY["C06"]["run"] = with_decimal(REGISTRY["C06"]["run"], 150, 6000)
for _pid in ("C01", "C03", "C05", "C14"):
    REGISTRY[_pid]["run"] = with_decimal(REGISTRY[_pid]["run"], 150, 6000)
REGISTRY["C04"]["run"] = with_statefn(REGISTRY["C04"]["run"], {"canAdd"}, 150, 6000)
REGISTRY["C02"]["run"] = with_statefn(REGISTRY["C02"]["run"], {"contrib"}, 150, 6000)
REGISTRY["C13"]["run"] = with_decimal(with_statefn(REGISTRY["C13"]["run"], {"canPut"}, 150, 6000), 150, 6000)
for _pid, _f in (("C04", "can_add_resources"), ("C02", "per-step contribution of perform"), ("C13", "can_put")):
    REGISTRY[_pid]["footprint_doc"] += "; %s on real mid-run and scrambled states" % _f

import purestream as _ps
REGISTRY["C11"] = dict(run=pure_then_sim(_ps.run_c11_pure, 120, 6000), footprint_doc="sort_task/worker/facility/workplace_list (pure stream); allocate x allocation fields")
REGISTRY["C12"] = dict(run=pure_then_sim(_ps.run_c12_pure, 300, 20000), footprint_doc="update_PERT_data (pure stream, arbitrary stale values); pert x est/eft/lst/lft/cpl in every phase")
REGISTRY["C19"] = dict(run=run_c19, footprint_doc="Gantt encoders, plotly rows, extract_*_list, set_last_datetime (pure functions of the logs)")


# ---- history-based properties -------------------------------------------------------------------
import histprops as _hp


def _hist(fn):
    def run(ctx):
        fn(ctx)
    return run


def run_c08_full(ctx):
    """simulation stream (lockstep on all logs) + histories of simulate/backward/initialize/resume/reverse"""
    from driver import Driver
    results = simstream.run_stream(ctx.seed, ctx.n(128, 8000), "full", [ctx.pid])
    absorb_sim(ctx, results, "full")
    with Driver() as drv:
        n, fps = _hp.run_c08_hist(ctx, drv, ctx.n(60, 3000))
    ctx.evaluations += n
    ctx.traces_validated += n
    ctx.distinct_nontrivial += len(fps)
    ctx.rule += "; plus histories: random sequences (1-5 ops) of simulate (all init-flag combinations, several max_time values), backward_simulate (both flags), initialize(flags), resume and reverse_log_information on one project object, alignment checked after every op and every op mirrored in the model"


def run_c10_full(ctx):
    results = simstream.run_stream(ctx.seed, ctx.n(128, 8000), "full", [ctx.pid])
    absorb_sim(ctx, results, "full")
    _hp.run_c10_backward(ctx, ctx.n(40, 1500))
    n, fps = _hp.run_c10_removal(ctx, ctx.n(60, 3000))
    ctx.evaluations += n
    ctx.traces_validated += n
    ctx.distinct_nontrivial += len(fps)
    ctx.rule += "; plus clause 3 on real histories: simulate(absence=L); remove_absence_time_list() against simulate() for models without individual absences and component-bound automatic tasks, flag off"


REGISTRY["C08"] = dict(run=with_decimal(run_c08_full, 150, 6000), footprint_doc=REGISTRY["C08"]["footprint_doc"] + "; history ops")
REGISTRY["C10"] = dict(run=run_c10_full, footprint_doc=REGISTRY["C10"]["footprint_doc"] + "; removal histories (search only)")
def run_c09_full(ctx):
    """phase-level lockstep (the order-independence theorems are about the model: every phase must
    agree with the code) + whole runs under permuted iteration orders / identities / processes"""
    results = simstream.run_stream(ctx.seed, ctx.n(160, 8000), "full", [])
    absorb_sim(ctx, results, "full")
    ev, dn, tv, samples, matrix, rule = ctx.evaluations, ctx.distinct_nontrivial, ctx.traces_validated, ctx.samples, ctx.matrix, ctx.rule
    _hp.run_c09(ctx)
    ctx.evaluations += ev
    ctx.distinct_nontrivial += dn
    ctx.traces_validated += tv
    ctx.samples = (ctx.samples + samples)[:3]
    matrix.update(ctx.matrix)
    ctx.matrix = matrix
    ctx.rule = ctx.rule + "; plus: " + rule


REGISTRY["C09"] = dict(run=run_c09_full, footprint_doc="every phase x every field (lockstep); whole runs under permuted set-iteration orders, rebuilt objects, repeated simulate, fresh processes")
def _c07_loaded(inner):
    def run(ctx):
        import preds
        inner(ctx)
        _hp.run_loaded(ctx, ctx.n(40, 1500), preds.pred_C07, "the cost-accounting predicate")
        _hp.run_unit_time(ctx, ctx.n(40, 1500), preds.pred_C07, "the cost-accounting predicate")
    return run


REGISTRY["C07"]["run"] = _c07_loaded(REGISTRY["C07"]["run"])


def _c14_resumed(inner):
    def run(ctx):
        import preds
        inner(ctx)
        _hp.run_resumed(ctx, ctx.n(60, 2000), preds.pred_C14, "the component-state predicate")
    return run


REGISTRY["C14"]["run"] = _c14_resumed(REGISTRY["C14"]["run"])
REGISTRY["C15"] = dict(run=_hp.run_c15, footprint_doc="pause/resume histories at every k, in memory and through JSON")
REGISTRY["C17"] = dict(run=_hp.run_c17, footprint_doc="backward_simulate histories incl. exception injection at observer calls")
REGISTRY["C18"] = dict(run=_hp.run_c18, footprint_doc="remove/insert_absence_time_list histories")
for _p in ("C15", "C17", "C18"):
    FOOTPRINT.setdefault(_p, (["*"], None))
FOOTPRINT["C09"] = (codec_fields(), None)

import persist as _pe
REGISTRY["C16"] = dict(run=_pe.run_c16, footprint_doc="write_simple_json / read_simple_json at five life stages; static inspection of constructor parameters")
REGISTRY["C20"] = dict(run=_pe.run_c20, footprint_doc="sub-project setters; parent run (all phases)")
for _p in ("C16", "C20"):
    FOOTPRINT.setdefault(_p, (["*"], None))


for _pid in ("C02", "C04", "C07", "C10"):
    REGISTRY[_pid]["run"] = with_decimal(REGISTRY[_pid]["run"], 150, 6000)


def with_profile(inner, profile, quick, thorough, note):
    """append another profile of the simulation stream (lockstep + predicate), merging the coverage numbers"""
    def run(ctx):
        inner(ctx)
        keep = (ctx.evaluations, ctx.distinct_nontrivial, ctx.traces_validated, ctx.samples, ctx.matrix, ctx.distribution, ctx.rule, ctx.violations)
        ctx.evaluations = ctx.distinct_nontrivial = ctx.traces_validated = 0
        ctx.samples, ctx.matrix, ctx.violations = [], {}, []
        results = simstream.run_stream(ctx.seed + 13, ctx.n(quick, thorough), profile, [ctx.pid])
        absorb_sim(ctx, results, profile)
        ev, dn, tv, samples, matrix, dist, rule, viol = keep
        for ph, cell in ctx.matrix.items():
            c0 = matrix.setdefault(ph, dict(executions=0, disagreements=0))
            c0["executions"] += cell["executions"]
            c0["disagreements"] += cell["disagreements"]
            if "first" in cell:
                c0.setdefault("first", cell["first"])
        dist["profile_" + profile] = {k: v for k, v in ctx.distribution.items() if k in ("cases", "success", "failure", "on_used_object")}
        ctx.evaluations += ev
        ctx.distinct_nontrivial += dn
        ctx.traces_validated += tv
        ctx.samples = (samples + ctx.samples)[:3]
        ctx.matrix, ctx.distribution = matrix, dist
        ctx.violations = viol + ctx.violations
        ctx.rule = rule + "; plus " + note
    return run


REGISTRY["C12"]["run"] = with_profile(REGISTRY["C12"]["run"], "rerun", 100, 4000,
                                      "the same stream on USED objects only (every case observed after an earlier forward run or a backward run with "
                                      "due times of the tail tasks, i.e. after helper tasks were added and removed)")


def with_api(inner, fn_name, quick, thorough):
    """append one of the API-corner streams of harness/apistream.py (real code only)"""
    def run(ctx):
        inner(ctx)
        import apistream
        getattr(apistream, fn_name)(ctx, ctx.n(quick, thorough))
    return run


REGISTRY["C08"]["run"] = with_api(REGISTRY["C08"]["run"], "run_readonly_queries", 60, 2000)
REGISTRY["C07"]["run"] = with_api(REGISTRY["C07"]["run"], "run_add_labor_cost_flags", 60, 2000)
REGISTRY["C18"]["run"] = with_api(REGISTRY["C18"]["run"], "run_class_level_edits", 80, 3000)
REGISTRY["C08"]["run"] = with_api(REGISTRY["C08"]["run"], "run_class_level_edits", 80, 3000)
REGISTRY["C07"]["run"] = with_api(REGISTRY["C07"]["run"], "run_cost_sums_after_class_inserts", 80, 3000)
REGISTRY["C13"]["run"] = with_api(REGISTRY["C13"]["run"], "run_placement_logs_after_insert", 80, 3000)
REGISTRY["C16"]["run"] = with_api(REGISTRY["C16"]["run"], "run_nonfinite_json", 40, 1000)
