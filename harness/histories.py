"""History stream: sequences of API calls on one real project object, mirrored op by op in the
Lean model (each op is applied to the REAL pre-state, like the phase-level lockstep)."""
from env import *  # noqa: F401,F403
import env
import copy
import random

import codec
from lockstep import real_simulate, Recorder, Crash, CrashBase
from real import build, extract_model, snapshot, Index


def apply_real(project, op, recorder=None):
    """apply one op to the real project; returns exception or None"""
    k = op["op"]
    try:
        if k == "sim":
            real_simulate(project, op["params"], recorder)
        elif k == "bwd":
            real_simulate(project, op["params"], recorder, backward=True,
                          considering_due_time_of_tail_tasks=op.get("due", False),
                          reverse_log_information=op.get("reverse", True))
        elif k == "init":
            project.initialize(state_info=op["state"], log_info=op["log"])
        elif k == "rev":
            project.reverse_log_information()
        elif k == "rm":
            project.remove_absence_time_list()
        elif k == "ins":
            project.insert_absence_time_list(list(op["steps"]))
        else:
            raise ValueError("unknown op %r" % k)
    except (Crash, CrashBase) as e:
        return e
    except Exception as e:
        return e
    return None


def model_request(model, op, st_toks):
    k = op["op"]
    if k == "sim":
        return ["RUN"] + codec.enc_params(op["params"]) + st_toks
    if k == "bwd":
        t = ["BWD"] + codec.enc_params(op["params"])
        codec.e_bool(op.get("due", False), t)
        codec.e_bool(op.get("reverse", True), t)
        return t + st_toks
    if k == "init":
        t = ["INIT"]
        codec.e_bool(op["state"], t)
        codec.e_bool(op["log"], t)
        return t + st_toks
    if k == "rev":
        return ["REV"] + st_toks
    if k == "rm":
        return ["RM"] + st_toks
    if k == "ins":
        t = ["INS"]
        codec.e_list(codec.e_nat)(op["steps"], t)
        return t + st_toks
    raise ValueError(k)


def run_history(spec, ops, drv=None, hashes=None, chashes=None):
    """returns dict(model, states=[snapshot after each op], dis=[...], exc=[...], structure_ok)"""
    project = build(spec, hashes=hashes, chashes=chashes)
    ix = Index(project)
    model = extract_model(project, ix)
    out = dict(model=model, states=[], dis=[], exc=[], structure=[])
    if drv is not None:
        drv.ask(["M"] + codec.enc_model(model))
    st = snapshot(project, ix)
    out["pre"] = st
    for i, op in enumerate(ops):
        pre_toks = codec.enc_state(model, st)
        e = apply_real(project, op)
        out["exc"].append(None if e is None else "%s: %s" % (type(e).__name__, e))
        ix2 = Index(project)
        if len(ix2.tasks) != len(ix.tasks):
            out["structure"].append("op %d (%s): task list has %d entries, had %d" % (i, op["op"], len(ix2.tasks), len(ix.tasks)))
            break
        model_after = extract_model(project, ix)
        if model_after != model:
            diff = [k for k in model if model[k] != model_after[k]]
            out["structure"].append("op %d (%s): static structure changed in %s" % (i, op["op"], diff))
        st = snapshot(project, ix)
        out["states"].append(st)
        if e is not None:
            out["dis"].append(dict(phase="history:" + op["op"], fields=["*"], time=None, detail=out["exc"][-1], op_index=i))
            break
        if drv is not None:
            ans = drv.ask(model_request(model, op, pre_toks))
            exp = codec.enc_state(model, st)
            if op["op"] == "bwd":
                exp = exp + codec.enc_model(model)   # the driver also returns the restored structure
            if ans != " ".join(exp):
                toks = ans.split()
                f = codec.diff_states(codec.dec_state(model, toks, allow_trailing=True), st)
                if not f and op["op"] == "bwd":
                    f = ["structure"]
                out["dis"].append(dict(phase="history:" + op["op"], fields=f, time=None, op_index=i))
    out["project"] = project
    out["ix"] = ix
    return out


def gen_ops(rng, spec, params, kind):
    """op sequences for the different properties"""
    P = lambda **kw: dict(params, **kw)  # noqa: E731
    if kind == "c08":
        ops = []
        n = rng.randint(1, 5)
        for _ in range(n):
            r = rng.random()
            if r < 0.35:
                ops.append(dict(op="sim", params=P(initState=rng.random() < 0.8, initLog=rng.random() < 0.7,
                                                    maxTime=rng.choice([0, 2, 5, 40]))))
            elif r < 0.55:
                ops.append(dict(op="bwd", params=P(maxTime=rng.choice([3, 40])), due=rng.random() < 0.5, reverse=rng.random() < 0.6))
            elif r < 0.7:
                ops.append(dict(op="init", state=rng.random() < 0.5, log=rng.random() < 0.5))
            elif r < 0.85:
                ops.append(dict(op="rev"))
            else:
                ops.append(dict(op="sim", params=P(initState=False, initLog=False, maxTime=40)))
        return ops
    raise ValueError(kind)
