"""Executable renderings of the properties on *real* traces (the failing-input search).

Each `pred_Cxx(model, params, run)` returns a list of violation dicts (empty = holds).
`run` = dict(pre=state, snaps=[(boundary, state)], final=state, exc=str|None).
States are the dicts produced by real.snapshot (indices, exact numbers).
These functions are supporting validation, never the proof: the theorems are in lean/PDesy/Props.
"""
from fractions import Fraction as Fr

NONE, READY, WORKING, FINISHED = 0, 1, 2, 3
FREE, RWORKING, ABSENCE = 0, 1, 2
FS, SS, FF, SF = 0, 1, 2, 3


def F(x):
    return x if isinstance(x, Fr) else Fr(x)


def lookup(pairs, key):
    for k, v in pairs:
        if k == key:
            return v
    return None


def has_skill(pairs, key):
    v = lookup(pairs, key)
    return v is not None and F(v) > 0


def steps(run):
    """group the observer snapshots of a run by loop iteration:
    list of dict boundary->state, one per iteration (last may be partial: update only)"""
    out = []
    cur = None
    for b, st in run["snaps"]:
        if b == "enter":
            continue
        if b == "finished":
            cur = {}
            out.append(cur)
        if cur is not None:
            cur[b] = st
    return out


def viol(prop, what, **kw):
    d = dict(property=prop, what=what)
    d.update(kw)
    return d


def started(s):
    return s in (WORKING, FINISHED)


# ---- C01 ------------------------------------------------------------------------------------

def dep_ok(model, ts, exempt):
    """dependency invariant on a vector of live task states; returns offending (t, pred, dep)"""
    for t, tk in enumerate(model["tasks"]):
        if exempt[t]:
            continue
        for p, d in tk["inputs"]:
            if ts[t] != NONE:
                if d == FS and ts[p] != FINISHED:
                    return (t, p, d)
                if d == SS and not started(ts[p]):
                    return (t, p, d)
            if ts[t] == FINISHED:
                if d == FF and ts[p] != FINISHED:
                    return (t, p, d)
                if d == SF and not started(ts[p]):
                    return (t, p, d)
    return None


RANK = {NONE: 0, READY: 1, WORKING: 2, FINISHED: 3}


def pred_C01(model, params, run):
    out = []
    exempt = [F(tk["prog"]) >= 1 for tk in model["tasks"]]
    prev = None
    for b, st in run["snaps"]:
        bad = dep_ok(model, st["tstate"], exempt)
        if bad:
            out.append(viol("C01", "dependency violated in live state", boundary=b, time=st["time"], task=bad[0], pred=bad[1], dep=bad[2]))
            break
        if prev is not None and b != "enter":
            for t in range(model["nT"]):
                if RANK[st["tstate"][t]] < RANK[prev["tstate"][t]]:
                    out.append(viol("C01", "task state moved backwards", boundary=b, time=st["time"], task=t))
                    return out
        prev = st
    # log level
    fin = run["final"]
    logs = fin["tState"]
    n = min(len(x) for x in logs) if logs else 0
    absn = set(params["absence"])
    for k in range(n):
        for t, tk in enumerate(model["tasks"]):
            if exempt[t]:
                continue
            for p, d in tk["inputs"]:
                a, bq = logs[t][k], logs[p][k]
                if d == FS and a != NONE and bq != FINISHED:
                    out.append(viol("C01", "log: left NONE before FS predecessor finished", step=k, task=t, pred=p))
                    return out
                if d == FF and a == FINISHED and bq != FINISHED:
                    out.append(viol("C01", "log: FINISHED before FF predecessor", step=k, task=t, pred=p))
                    return out
            if k + 1 < n:
                a, b2 = logs[t][k], logs[t][k + 1]
                if RANK[b2] < RANK[a] and not (a == WORKING and b2 == READY and (k + 1) in absn):
                    out.append(viol("C01", "log: state moved backwards", step=k + 1, task=t))
                    return out
    return out


# ---- C02 ------------------------------------------------------------------------------------

def contrib(model, st, t, time=None):
    """the documented contribution; "absent" is read from the absence lists (time given) —
    not from the resource state, which is what a defect may get wrong"""
    tk = model["tasks"][t]
    name = tk["name"]
    if tk["isAuto"]:
        return F(tk["autoRate"])

    def wp(w):
        ws = model["workers"][w]
        absent = (st["wstate"][w] == ABSENCE) if time is None else (time in ws["absence"])
        if not has_skill(ws["skills"], name) or absent:
            return Fr(0)
        return F(lookup(ws["skills"], name))

    def fp(f):
        fs = model["facs"][f]
        absent = (st["fstate"][f] == ABSENCE) if time is None else (time in fs["absence"])
        if not has_skill(fs["skills"], name) or absent:
            return Fr(0)
        return F(lookup(fs["skills"], name))

    if tk["needFac"]:
        return sum((wp(w) * fp(f) for w, f in zip(st["allocW"][t], st["allocF"][t])), Fr(0))
    return sum((wp(w) for w in st["allocW"][t]), Fr(0))


def pred_C02(model, params, run):
    out = []
    absn = set(params["absence"])
    # off the dyadic grid the code computes with floats: equalities hold up to rounding, and "no work left"
    # is what the code documents (remaining < error_tol)
    tol = Fr(1, 10 ** 9) if model.get("decimal") else Fr(0)
    etol = F(params.get("errorTol") or 1e-10) if model.get("decimal") else Fr(0)
    for it in steps(run):
        if "performed" not in it:
            continue
        pre, post = it["costed"], it["performed"]
        working = pre["time"] not in absn
        for t, tk in enumerate(model["tasks"]):
            before, after = F(pre["rem"][t]), F(post["rem"][t])
            active = pre["tstate"][t] == WORKING and (working or (params["autoFlag"] and tk["isAuto"]))
            if active:
                c = contrib(model, pre, t, time=(pre["time"] if working else None))
                if abs(before - after - c) > tol:
                    out.append(viol("C02", "remaining work did not decrease by the contribution", time=pre["time"], task=t,
                                    before=str(before), after=str(after), contribution=str(c)))
                    return out
            elif before != after:
                out.append(viol("C02", "remaining work of a non-working task changed", time=pre["time"], task=t))
                return out
        # no other phase changes remaining work, except check_finished which clamps to 0
    prev = None
    for b, st in run["snaps"]:
        if prev is not None and b not in ("performed", "enter"):
            for t in range(model["nT"]):
                if F(prev["rem"][t]) != F(st["rem"][t]):
                    if b == "finished" and st["tstate"][t] == FINISHED and prev["tstate"][t] == WORKING and F(st["rem"][t]) == 0:
                        continue
                    out.append(viol("C02", "remaining work changed outside perform", boundary=b, time=st["time"], task=t))
                    return out
        prev = st
    # finish: FINISHED only after remaining reached zero; then reported 0
    prev = None
    for b, st in run["snaps"]:
        if prev is not None and b == "finished":
            for t in range(model["nT"]):
                if st["tstate"][t] == FINISHED and prev["tstate"][t] != FINISHED:
                    if not (prev["tstate"][t] == WORKING and F(prev["rem"][t]) <= etol):
                        out.append(viol("C02", "task finished before its remaining work reached zero", time=st["time"], task=t))
                        return out
        prev = st
    fin = run["final"]
    for t in range(model["nT"]):
        for k, s in enumerate(fin["tState"][t]):
            if s == FINISHED and k < len(fin["tRem"][t]) and F(fin["tRem"][t][k]) != 0 and F(model["tasks"][t]["prog"]) < 1:
                out.append(viol("C02", "FINISHED task logged with non-zero remaining work", step=k, task=t))
                return out
    return out


# ---- C03 ------------------------------------------------------------------------------------

def alloc_inv(model, st):
    nT, nW, nF = model["nT"], model["nW"], model["nF"]
    for t in range(nT):
        for w in st["allocW"][t]:
            if t not in st["wasg"][w]:
                return "task %d lists worker %d which does not list it" % (t, w)
        for f in st["allocF"][t]:
            if t not in st["fasg"][f]:
                return "task %d lists facility %d which does not list it" % (t, f)
        if len(set(st["allocW"][t])) != len(st["allocW"][t]) or len(set(st["allocF"][t])) != len(st["allocF"][t]):
            return "duplicate resource on task %d" % t
        if (st["allocW"][t] or st["allocF"][t]) and st["tstate"][t] not in (READY, WORKING):
            return "task %d holds resources in state %d" % (t, st["tstate"][t])
    for w in range(nW):
        if len(st["wasg"][w]) > 1:
            return "worker %d assigned to %d tasks" % (w, len(st["wasg"][w]))
        for t in st["wasg"][w]:
            if w not in st["allocW"][t]:
                return "worker %d lists task %d which does not list it" % (w, t)
    for f in range(nF):
        if len(st["fasg"][f]) > 1:
            return "facility %d assigned to %d tasks" % (f, len(st["fasg"][f]))
        for t in st["fasg"][f]:
            if f not in st["allocF"][t]:
                return "facility %d lists task %d which does not list it" % (f, t)
    return None


def res_inv(model, st, time, working):
    for w in range(model["nW"]):
        absent = time in model["workers"][w]["absence"]
        exp = ABSENCE if (not working or absent) else (RWORKING if st["wasg"][w] else FREE)
        if st["wstate"][w] != exp:
            return "worker %d state %d, expected %d" % (w, st["wstate"][w], exp)
    for f in range(model["nF"]):
        absent = time in model["facs"][f]["absence"]
        exp = ABSENCE if (not working or absent) else (RWORKING if st["fasg"][f] else FREE)
        if st["fstate"][f] != exp:
            return "facility %d state %d, expected %d" % (f, st["fstate"][f], exp)
    return None


def pred_C03(model, params, run):
    out = []
    absn = set(params["absence"])
    for b, st in run["snaps"]:
        bad = alloc_inv(model, st)
        if bad:
            out.append(viol("C03", bad, boundary=b, time=st["time"]))
            return out
        if b not in ("allocated",):
            for t in range(model["nT"]):
                if (st["allocW"][t] or st["allocF"][t]) and st["tstate"][t] != WORKING:
                    out.append(viol("C03", "task %d holds resources but is not WORKING" % t, boundary=b, time=st["time"]))
                    return out
    for it in steps(run):
        for b in ("absence", "working", "comp3", "costed", "performed", "recorded"):
            if b in it:
                st = it[b]
                bad = res_inv(model, st, st["time"], st["time"] not in absn)
                if bad:
                    out.append(viol("C03", bad, boundary=b, time=st["time"]))
                    return out
    # log level: allocation records two-way, exclusive
    fin = run["final"]
    n = fin["time"]
    for k in range(min(n, len(fin["projCost"]))):
        for t in range(model["nT"]):
            if k < len(fin["tAllocW"][t]):
                for w in fin["tAllocW"][t][k]:
                    if w >= model["nW"] or k >= len(fin["wAsg"][w]) or t not in fin["wAsg"][w][k]:
                        out.append(viol("C03", "log: task %d lists worker %d one-sidedly" % (t, w), step=k))
                        return out
        for w in range(model["nW"]):
            if k < len(fin["wAsg"][w]) and len(fin["wAsg"][w][k]) > 1:
                out.append(viol("C03", "log: worker %d on several tasks" % w, step=k))
                return out
        for f in range(model["nF"]):
            if k < len(fin["fAsg"][f]) and len(fin["fAsg"][f][k]) > 1:
                out.append(viol("C03", "log: facility %d on several tasks" % f, step=k))
                return out
    return out


# ---- C04 ------------------------------------------------------------------------------------

def pred_C04(model, params, run):
    out = []
    for it in steps(run):
        if "allocated" not in it or "absence" not in it:
            continue
        pre, post = it["absence"], it["allocated"]
        time = pre["time"]
        for t, tk in enumerate(model["tasks"]):
            name = tk["name"]
            oldW, newW = pre["allocW"][t], post["allocW"][t]
            oldF, newF = pre["allocF"][t], post["allocF"][t]
            if newW[:len(oldW)] != oldW or newF[:len(oldF)] != oldF:
                out.append(viol("C04", "allocate removed or reordered resources of task %d" % t, time=time))
                return out
            addW, addF = newW[len(oldW):], newF[len(oldF):]
            for w in addW:
                ws = model["workers"][w]
                why = None
                if not has_skill(ws["skills"], name):
                    why = "no positive skill"
                elif t not in model["teams"][ws["team"]]["targets"]:
                    why = "team not assigned to the task"
                elif time in ws["absence"] or pre["wstate"][w] != FREE:
                    why = "absent or not free at allocation"
                elif tk["fixW"] is not None and w not in tk["fixW"]:
                    why = "not in the fixed worker list"
                elif pre["wasg"][w]:
                    why = "already assigned"
                if why:
                    out.append(viol("C04", "worker %d given to task %d: %s" % (w, t, why), time=time))
                    return out
            if any(model["workers"][w]["solo"] for w in newW) and len(newW) != 1:
                out.append(viol("C04", "solo worker combined with others on task %d" % t, time=time))
                return out
            if any(model["facs"][f]["solo"] for f in newF) and len(newF) != 1:
                out.append(viol("C04", "solo facility combined with others on task %d" % t, time=time))
                return out
            if tk["needFac"]:
                if len(addW) != len(addF):
                    out.append(viol("C04", "workers and facilities not added in pairs on task %d" % t, time=time))
                    return out
                for w, f in zip(addW, addF):
                    fs = model["facs"][f]
                    why = None
                    if not has_skill(fs["skills"], name):
                        why = "facility has no positive skill"
                    elif t not in model["wps"][fs["wp"]]["targets"]:
                        why = "facility's workplace not assigned to the task"
                    elif tk["fixF"] is not None and f not in tk["fixF"]:
                        why = "facility not in the fixed list"
                    elif not has_skill(model["workers"][w]["facSkills"], fs["name"]):
                        why = "paired worker cannot operate the facility"
                    elif time in fs["absence"] or pre["fstate"][f] != FREE or pre["fasg"][f]:
                        why = "facility absent, busy or already assigned"
                    if why:
                        out.append(viol("C04", "pair (worker %d, facility %d) on task %d: %s" % (w, f, t, why), time=time))
                        return out
            elif addF:
                out.append(viol("C04", "facility given to a task that needs none (task %d)" % t, time=time))
                return out
    # no other phase adds to an allocation list
    prev = None
    for b, st in run["snaps"]:
        if prev is not None and b not in ("allocated", "enter"):
            for t in range(model["nT"]):
                if not set(st["allocW"][t]) <= set(prev["allocW"][t]) or not set(st["allocF"][t]) <= set(prev["allocF"][t]):
                    out.append(viol("C04", "resources added outside allocate", boundary=b, time=st["time"], task=t))
                    return out
        prev = st
    return out


# ---- C05 (safety part) ------------------------------------------------------------------------

def pred_C05(model, params, run):
    out = []
    fin = run["final"]
    if run.get("exc"):
        out.append(viol("C05", "simulate raised: %s" % run["exc"]))
        return out
    allfin = all(s == FINISHED for s in fin["tstate"])
    if (fin["status"] == 1) != allfin:
        out.append(viol("C05", "status SUCCESS does not match 'all tasks FINISHED'", status=fin["status"]))
    if fin["status"] == 2 and fin["time"] < params["maxTime"]:
        out.append(viol("C05", "FAILURE reported before max_time", time=fin["time"]))
    if fin["status"] not in (1, 2):
        out.append(viol("C05", "simulate returned without a final status"))
    for it in steps(run):
        if "absence" in it and it["absence"]["time"] >= params["maxTime"]:
            out.append(viol("C05", "a step was simulated at or beyond max_time", time=it["absence"]["time"]))
            break
    # liveness (search only): a project in the feasible fragment succeeds when max_time exceeds the bound
    ent0 = run["snaps"][0][1] if run["snaps"] else None
    if ent0 is not None and params.get("autoFlag") is not None:
        B = c05_feasible_bound(model, params, ent0)
        if B is not None and params["maxTime"] > B and fin["status"] != 1:
            out.append(viol("C05", "feasible project did not complete although max_time %d exceeds the sequential work bound %d" % (params["maxTime"], B),
                            status=fin["status"], time=fin["time"]))
    # liveness beyond that fragment (facility tasks, components, placement), search only: the project is
    # demonstrably completable — the reference semantics (the Lean model, validated against the unchanged
    # code) completes it from the same start —, every unfinished task has an eligible worker (and
    # worker-facility pair) and max_time exceeds the sequential work bound, yet the real run failed
    mf = run.get("model_final")
    if not out and ent0 is not None and mf and mf.get("status") == 1 and fin["status"] != 1:
        B = c05_general_bound(model, params, ent0)
        if B is not None and params["maxTime"] > B:
            out.append(viol("C05", "project did not complete although every unfinished task has an eligible worker (and facility), max_time %d exceeds the "
                                   "sequential work bound %d and the reference semantics completes it at time %d" % (params["maxTime"], B, mf["time"]),
                            status=fin["status"], time=fin["time"]))
    # a non-auto unfinished task nobody can serve => not SUCCESS
    ent = run["snaps"][0][1] if run["snaps"] else None
    if ent is not None and fin["status"] == 1:
        for t, tk in enumerate(model["tasks"]):
            if tk["isAuto"] or ent["tstate"][t] == FINISHED:
                continue
            ok = False
            for w, ws in enumerate(model["workers"]):
                if has_skill(ws["skills"], tk["name"]) and t in model["teams"][ws["team"]]["targets"] and \
                        (tk["fixW"] is None or w in tk["fixW"]):
                    ok = True
            if not ok:
                out.append(viol("C05", "SUCCESS although task %d has no eligible worker" % t))
    return out


def c05_feasible_bound(model, params, ent):
    """None unless the model lies in the liveness fragment; else the sequential work bound B
    (a project in the fragment must succeed whenever max_time > B)"""
    import math
    nT = model["nT"]
    if any(tk["needFac"] for tk in model["tasks"]):
        return None
    if any(tk["isAuto"] and tk["comp"] is not None for tk in model["tasks"]):
        return None
    elig = {}
    for t, tk in enumerate(model["tasks"]):
        if tk["isAuto"]:
            if F(tk["autoRate"]) <= 0:
                return None
            continue
        ws = [w for w, wsd in enumerate(model["workers"])
              if has_skill(wsd["skills"], tk["name"]) and t in model["teams"][wsd["team"]]["targets"]
              and (tk["fixW"] is None or w in tk["fixW"])]
        if not ws and ent["tstate"][t] != FINISHED:
            return None
        elig[t] = ws
    gated = set()
    for t, tk in enumerate(model["tasks"]):
        for p_, d in tk["inputs"]:
            if d in (FF, SF):
                gated.add(t)
                gated.add(p_)
    for t in gated:
        if model["tasks"][t]["isAuto"] or ent["tstate"][t] == FINISHED:
            continue
        own = [w for w in elig.get(t, []) if all(w not in elig.get(u, []) for u in elig if u != t)]
        if not own:
            return None
    absn = set(params["absence"])
    for wsd in model["workers"]:
        absn |= set(wsd["absence"])
    B = len(absn) + 2 * nT + 1
    for t, tk in enumerate(model["tasks"]):
        rem = max(F(ent["rem"][t]), Fr(0))
        if tk["isAuto"]:
            delta = F(tk["autoRate"])
        elif elig.get(t):
            delta = min(F(lookup(model["workers"][w]["skills"], tk["name"])) for w in elig[t])
        else:
            continue
        B += math.ceil(rem / delta)
    return B


def c05_general_bound(model, params, ent):
    """sequential work bound for any flat model whose unfinished tasks all have an eligible worker
    (facility tasks: an eligible worker-facility pair at a workplace the task is assigned to); None otherwise"""
    import math
    absn = set(params["absence"])
    for wsd in model["workers"]:
        absn |= set(wsd["absence"])
    for fsd in model["facs"]:
        absn |= set(fsd["absence"])
    B = len(absn) + 3 * model["nT"] + 1
    for t, tk in enumerate(model["tasks"]):
        if ent["tstate"][t] == FINISHED:
            continue
        rem = max(F(ent["rem"][t]), Fr(0))
        if tk["isAuto"]:
            if F(tk["autoRate"]) <= 0:
                return None
            B += math.ceil(rem / F(tk["autoRate"]))
            continue
        ws = [w for w, wsd in enumerate(model["workers"])
              if has_skill(wsd["skills"], tk["name"]) and t in model["teams"][wsd["team"]]["targets"]
              and (tk["fixW"] is None or w in tk["fixW"])]
        if not ws:
            return None
        if not tk["needFac"]:
            delta = min(F(lookup(model["workers"][w]["skills"], tk["name"])) for w in ws)
        else:
            if tk["comp"] is None:
                return None
            deltas = []
            for q in tk["wps"]:
                if q >= model["nWp"] or t not in model["wps"][q]["targets"]:
                    continue
                for f in model["wps"][q]["facs"]:
                    fs = model["facs"][f]
                    if not has_skill(fs["skills"], tk["name"]) or (tk["fixF"] is not None and f not in tk["fixF"]):
                        continue
                    for w in ws:
                        if has_skill(model["workers"][w]["facSkills"], fs["name"]):
                            deltas.append(F(lookup(model["workers"][w]["skills"], tk["name"])) * F(lookup(fs["skills"], tk["name"])))
            if not deltas:
                return None
            delta = min(deltas)
        if delta <= 0:
            return None
        B += math.ceil(rem / delta)
    return B


# ---- C06 ------------------------------------------------------------------------------------

def ready_gate(model, ts, t):
    for p, d in model["tasks"][t]["inputs"]:
        if d == FS and ts[p] != FINISHED:
            return False
        if d == SS and not started(ts[p]):
            return False
    return True


def finish_gate(model, ts, t):
    for p, d in model["tasks"][t]["inputs"]:
        if d == FF and ts[p] != FINISHED:
            return False
        if d == SF and not started(ts[p]):
            return False
    return True


def can_add_worker(model, st, t, w):
    tk = model["tasks"][t]
    if st["tstate"][t] in (NONE, FINISHED):
        return False
    if any(model["workers"][x]["solo"] for x in st["allocW"][t]):
        return False
    if any(model["facs"][x]["solo"] for x in st["allocF"][t]):
        return False
    if model["workers"][w]["solo"] and st["allocW"][t]:
        return False
    if tk["fixW"] is not None and w not in tk["fixW"]:
        return False
    return has_skill(model["workers"][w]["skills"], tk["name"])


def can_add_pair(model, st, t, w, f):
    """can_add_resources(worker, facility) on a snapshot"""
    tk = model["tasks"][t]
    if st["tstate"][t] in (NONE, FINISHED):
        return False
    if any(model["workers"][x]["solo"] for x in st["allocW"][t]):
        return False
    if any(model["facs"][x]["solo"] for x in st["allocF"][t]):
        return False
    if model["workers"][w]["solo"] and st["allocW"][t]:
        return False
    if model["facs"][f]["solo"] and st["allocF"][t]:
        return False
    if tk["fixW"] is not None and w not in tk["fixW"]:
        return False
    if tk["fixF"] is not None and f not in tk["fixF"]:
        return False
    if st["fasg"][f]:
        return False
    fs = model["facs"][f]
    return has_skill(fs["skills"], tk["name"]) and has_skill(model["workers"][w]["facSkills"], fs["name"]) \
        and has_skill(model["workers"][w]["skills"], tk["name"])


def pred_C06(model, params, run):
    out = []
    absn = set(params["absence"])
    for it in steps(run):
        if "updated" in it:
            st = it["updated"]
            for t in range(model["nT"]):
                if st["tstate"][t] == NONE and ready_gate(model, st["tstate"], t):
                    out.append(viol("C06", "task %d still NONE although its start dependencies hold" % t, time=st["time"]))
                    return out
        if "finished" in it:
            st = it["finished"]
            # off the dyadic grid "no work left" is judged like the code documents it (error_tol = 1e-10);
            # the predicate asks for less (1e-12) so that it can never demand more than the code promises
            tol = Fr(1, 10 ** 12) if model.get("decimal") else Fr(0)   # (a caller's larger error_tol only finishes more)
            for t in range(model["nT"]):
                if st["tstate"][t] == WORKING and F(st["rem"][t]) <= tol and finish_gate(model, st["tstate"], t):
                    out.append(viol("C06", "task %d not FINISHED although its work is done and finish dependencies hold" % t, time=st["time"]))
                    return out
        if "working" in it:
            st = it["working"]
            for t, tk in enumerate(model["tasks"]):
                # the property speaks of working steps: at a project absence step nothing starts
                # (flag-on absence steps are C10's business)
                if st["time"] not in absn and st["tstate"][t] == READY and tk["isAuto"] and tk["comp"] is None:
                    out.append(viol("C06", "automatic task %d waits in READY" % t, time=st["time"]))
                    return out
            if st["time"] not in absn and "allocated" in it:
                al = it["allocated"]
                for w, ws in enumerate(model["workers"]):
                    if al["wstate"][w] != FREE or al["wasg"][w]:
                        continue
                    for t, tk in enumerate(model["tasks"]):
                        if al["tstate"][t] not in (READY, WORKING) or tk["isAuto"] or tk["needFac"]:
                            continue
                        if has_skill(ws["skills"], tk["name"]) and t in model["teams"][ws["team"]]["targets"] \
                                and can_add_worker(model, al, t, w):
                            out.append(viol("C06", "worker %d left FREE although task %d could take it" % (w, t), time=al["time"]))
                            return out
    # pair form for facility tasks of single-task components: an unplaced ready component that some
    # candidate workplace would accept, with a free eligible (worker, facility) pair there, must not wait
    for it in steps(run):
        if "allocated" not in it or it["allocated"]["time"] in absn:
            continue
        al = it["allocated"]
        for t, tk in enumerate(model["tasks"]):
            c = tk["comp"]
            if not tk["needFac"] or tk["isAuto"] or c is None or model["comps"][c]["tasks"] != [t]:
                continue
            if al["tstate"][t] not in (READY, WORKING) or al["allocW"][t]:
                continue
            where = [al["placed"][c]] if al["placed"][c] is not None else []
            # an unplaced component is only judged when nothing moved in this pass (then the space seen at
            # the task's turn is the space seen now; a component that another task moves later in the same
            # pass can free a workplace only after this task's turn — that wait is inherent in a one-pass loop)
            nothing_moved = "absence" in it and it["absence"]["placed"] == al["placed"]
            if not where and al["tstate"][t] == READY and nothing_moved:
                for q in tk["wps"]:
                    if q >= model["nWp"]:
                        continue
                    wq = model["wps"][q]
                    used = sum((F(model["comps"][x]["size"]) for x in al["wpComps"][q]), Fr(0))
                    skill = sum((F(lookup(model["facs"][f]["skills"], tk["name"])) for f in wq["facs"]
                                 if has_skill(model["facs"][f]["skills"], tk["name"])), Fr(0))
                    if F(wq["cap"]) - used >= F(model["comps"][c]["size"]) and skill > 0:
                        where.append(q)   # unplaced components may enter any such workplace (conveyor rule: from nowhere)
            for q in where:
                for f in model["wps"][q]["facs"]:
                    fs = model["facs"][f]
                    if al["fstate"][f] != FREE or al["fasg"][f] or not has_skill(fs["skills"], tk["name"]) or t not in model["wps"][fs["wp"]]["targets"]:
                        continue
                    if tk["fixF"] is not None and f not in tk["fixF"]:
                        continue
                    for w, ws in enumerate(model["workers"]):
                        if al["wstate"][w] != FREE or al["wasg"][w]:
                            continue
                        if has_skill(ws["skills"], tk["name"]) and t in model["teams"][ws["team"]]["targets"] and \
                                has_skill(ws["facSkills"], fs["name"]) and (tk["fixW"] is None or w in tk["fixW"]):
                            out.append(viol("C06", "worker %d and facility %d left FREE although task %d (single task of component %d) could take the pair at workplace %d" % (w, f, t, c, q),
                                            time=al["time"]))
                            return out
    return out


# ---- C07 ------------------------------------------------------------------------------------

def pred_C07(model, params, run):
    out = []
    fin = run["final"]
    n = len(fin["projCost"])
    # every level keeps one cost entry per recorded step: lists of different lengths cannot add up step by step
    for name, rows in (("worker", fin["wCost"]), ("worker state", fin["wState"]), ("facility", fin["fCost"]), ("facility state", fin["fState"]),
                       ("team", fin["teamCost"]), ("workplace", fin["wpCost"]), ("organization", [fin["orgCost"]])):
        for i, row in enumerate(rows):
            if len(row) != n:
                out.append(viol("C07", "%s %d has %d cost/state entries, the project cost list has %d" % (name, i, len(row), n)))
                return out
    # with log initialisation off (or a resumed clock) the list index is not the step number of this run
    mixed = not (params.get("initState", True) and params.get("initLog", True))
    absn = set() if mixed else set(params["absence"])
    for k in range(n):
        tot = Fr(0)
        for a, tm in enumerate(model["teams"]):
            s = Fr(0)
            for w in tm["workers"]:
                exp = F(model["workers"][w]["cost"]) if fin["wState"][w][k] == RWORKING else Fr(0)
                if F(fin["wCost"][w][k]) != exp:
                    out.append(viol("C07", "worker %d charged %s at step %d, logged state %d" % (w, fin["wCost"][w][k], k, fin["wState"][w][k])))
                    return out
                s += exp
            if F(fin["teamCost"][a][k]) != s:
                out.append(viol("C07", "team %d cost is not the sum of its members at step %d" % (a, k)))
                return out
            tot += s
        for q, p in enumerate(model["wps"]):
            s = Fr(0)
            for f in p["facs"]:
                exp = F(model["facs"][f]["cost"]) if fin["fState"][f][k] == RWORKING else Fr(0)
                if F(fin["fCost"][f][k]) != exp:
                    out.append(viol("C07", "facility %d charged %s at step %d, logged state %d" % (f, fin["fCost"][f][k], k, fin["fState"][f][k])))
                    return out
                s += exp
            if F(fin["wpCost"][q][k]) != s:
                out.append(viol("C07", "workplace %d cost is not the sum of its facilities at step %d" % (q, k)))
                return out
            tot += s
        if F(fin["orgCost"][k]) != tot:
            out.append(viol("C07", "organization cost is not the sum of teams and workplaces at step %d" % k))
            return out
        if F(fin["projCost"][k]) != tot:
            out.append(viol("C07", "project cost differs from organization cost at step %d" % k))
            return out
        if k in absn and tot != 0:
            out.append(viol("C07", "cost charged at project absence step %d" % k))
            return out
    if len(fin["orgCost"]) != n:
        out.append(viol("C07", "project and organization cost lists differ in length"))
    return out


# ---- C08 ------------------------------------------------------------------------------------

LOG_OF = [("tState", "nT"), ("tRem", "nT"), ("tAllocW", "nT"), ("tAllocF", "nT"), ("wState", "nW"),
          ("wCost", "nW"), ("wAsg", "nW"), ("fState", "nF"), ("fCost", "nF"), ("fAsg", "nF"),
          ("teamCost", "nTeam"), ("wpCost", "nWp"), ("wpPlaced", "nWp"), ("cState", "nC"), ("cPlaced", "nC")]


def aligned(model, st):
    n = st["time"]
    for f, nk in LOG_OF:
        for i in range(model[nk]):
            if len(st[f][i]) != n:
                return "%s[%d] has %d entries, time is %d" % (f, i, len(st[f][i]), n)
    for f in ("orgCost", "projCost"):
        if len(st[f]) != n:
            return "%s has %d entries, time is %d" % (f, len(st[f]), n)
    return None


def show_t(working, s):
    return READY if (not working and s == WORKING) else s


def pred_C08(model, params, run):
    out = []
    fin = run["final"]
    bad = aligned(model, fin)
    if bad:
        out.append(viol("C08", bad))
        return out
    absn = set(params["absence"])
    for it in steps(run):
        if "recorded" not in it:
            continue
        st = it["recorded"]
        k = st["time"]
        working = k not in absn
        exp = {
            "tState": [show_t(working, s) for s in st["tstate"]],
            "tRem": [F(x) for x in st["rem"]],
            "tAllocW": st["allocW"], "tAllocF": st["allocF"],
            "wState": [s if working else ABSENCE for s in st["wstate"]],
            "wAsg": st["wasg"],
            "fState": [s if working else ABSENCE for s in st["fstate"]],
            "fAsg": st["fasg"], "wpPlaced": st["wpComps"],
            "cState": [show_t(working, s) for s in st["cstate"]],
            "cPlaced": st["placed"],
        }
        for f, vals in exp.items():
            for i, v in enumerate(vals):
                got = fin[f][i][k] if k < len(fin[f][i]) else "missing"
                if f == "tRem":
                    got = F(got) if got != "missing" else got
                if got != v:
                    out.append(viol("C08", "entry %d of %s[%d] is %r, live value was %r" % (k, f, i, got, v)))
                    return out
    return out


# ---- C10 (clauses 1 and 2) -------------------------------------------------------------------

def pred_C10(model, params, run):
    out = []
    absn = set(params["absence"])
    fin = run["final"]
    for it in steps(run):
        if "recorded" not in it:
            continue
        pre = it["updated"]
        st = it["recorded"]
        k = pre["time"]
        if k in absn:
            for t, tk in enumerate(model["tasks"]):
                if F(pre["rem"][t]) != F(st["rem"][t]):
                    if not (tk["isAuto"] and params["autoFlag"]):
                        out.append(viol("C10", "task %d progressed at project absence step %d" % (t, k)))
                        return out
                if tk["isAuto"] and params["autoFlag"] and st["tstate"][t] == WORKING and it["costed"]["tstate"][t] == WORKING:
                    if abs(F(pre["rem"][t]) - F(st["rem"][t]) - F(tk["autoRate"])) > (Fr(1, 10 ** 9) if model.get("decimal") else 0):
                        out.append(viol("C10", "automatic task %d did not progress at absence step %d although the flag is set" % (t, k)))
                        return out
                if tk["isAuto"] and tk["comp"] is None and params["autoFlag"] and pre["tstate"][t] == READY:
                    if abs(F(pre["rem"][t]) - F(st["rem"][t]) - F(tk["autoRate"])) > (Fr(1, 10 ** 9) if model.get("decimal") else 0):
                        out.append(viol("C10", "READY automatic task %d did not start and progress at absence step %d although the flag is set" % (t, k)))
                        return out
                if len(st["allocW"][t]) > len(pre["allocW"][t]) or len(st["allocF"][t]) > len(pre["allocF"][t]):
                    out.append(viol("C10", "task %d got a resource at project absence step %d" % (t, k)))
                    return out
            for w in range(model["nW"]):
                if fin["wState"][w][k] != ABSENCE or F(fin["wCost"][w][k]) != 0:
                    out.append(viol("C10", "worker %d not ABSENCE / charged at absence step %d" % (w, k)))
                    return out
            for f in range(model["nF"]):
                if fin["fState"][f][k] != ABSENCE or F(fin["fCost"][f][k]) != 0:
                    out.append(viol("C10", "facility %d not ABSENCE / charged at absence step %d" % (f, k)))
                    return out
            if F(fin["projCost"][k]) != 0:
                out.append(viol("C10", "project charged at absence step %d" % k))
                return out
        else:
            for w, ws in enumerate(model["workers"]):
                if k in ws["absence"]:
                    if F(fin["wCost"][w][k]) != 0 or fin["wState"][w][k] != ABSENCE:
                        out.append(viol("C10", "individually absent worker %d charged or not ABSENCE at step %d" % (w, k)))
                        return out
            for f, fs in enumerate(model["facs"]):
                if k in fs["absence"]:
                    if F(fin["fCost"][f][k]) != 0 or fin["fState"][f][k] != ABSENCE:
                        out.append(viol("C10", "individually absent facility %d charged or not ABSENCE at step %d" % (f, k)))
                        return out
    return out


# ---- C13 ------------------------------------------------------------------------------------

def pred_C13(model, params, run):
    out = []
    for b, st in run["snaps"]:
        for c in range(model["nC"]):
            places = [q for q in range(model["nWp"]) if c in st["wpComps"][q]]
            if len(places) > 1:
                out.append(viol("C13", "component %d listed at several workplaces" % c, boundary=b, time=st["time"]))
                return out
            if (st["placed"][c] is None) != (len(places) == 0) or (places and places[0] != st["placed"][c]):
                out.append(viol("C13", "component %d placement not two-way consistent" % c, boundary=b, time=st["time"]))
                return out
        for q in range(model["nWp"]):
            lst = st["wpComps"][q]
            if len(set(lst)) != len(lst):
                out.append(viol("C13", "workplace %d lists a component twice" % q, boundary=b, time=st["time"]))
                return out
            tops = [c for c in lst if not any(pp in lst for pp in model["comps"][c]["parents"])]
            used = sum((F(model["comps"][c]["size"]) for c in tops), Fr(0))
            # off the dyadic grid the code adds floats: a rounding error is not an overfilled workplace
            slack = Fr(1, 10 ** 9) if model.get("decimal") else Fr(0)
            if used > F(model["wps"][q]["cap"]) + slack:
                out.append(viol("C13", "workplace %d over capacity" % q, boundary=b, time=st["time"]))
                return out
    for it in steps(run):
        if "allocated" in it and "absence" in it:
            pre, post = it["absence"], it["allocated"]
            for c in range(model["nC"]):
                a, b2 = pre["placed"][c], post["placed"][c]
                if a != b2:
                    if any(pre["tstate"][t] == WORKING for t in model["comps"][c]["tasks"]):
                        out.append(viol("C13", "component %d moved while one of its tasks is WORKING" % c, time=pre["time"]))
                        return out
                    if b2 is not None and model["wps"][b2]["inputs"] and a is not None and a not in model["wps"][b2]["inputs"]:
                        out.append(viol("C13", "component %d entered workplace %d from %d, not one of its inputs" % (c, b2, a), time=pre["time"]))
                        return out
        if "removed" in it:
            st = it["removed"]
            for c in range(model["nC"]):
                cs = model["comps"][c]
                if not cs["parents"] and st["placed"][c] is not None and all(st["tstate"][t] == FINISHED for t in cs["tasks"]):
                    out.append(viol("C13", "finished top-level component %d still placed" % c, time=st["time"]))
                    return out
        if "recorded" in it:
            st = it["recorded"]
            for t, tk in enumerate(model["tasks"]):
                if tk["needFac"] and st["allocF"][t]:
                    c = tk["comp"]
                    for f in st["allocF"][t]:
                        if c is None or st["placed"][c] != model["facs"][f]["wp"]:
                            out.append(viol("C13", "task %d works with facility %d of another workplace than its component's" % (t, f), time=st["time"]))
                            return out
    # only allocate / check_removing move components
    prev = None
    for b, st in run["snaps"]:
        if prev is not None and b not in ("allocated", "removed", "enter"):
            if st["placed"] != prev["placed"] or st["wpComps"] != prev["wpComps"]:
                out.append(viol("C13", "placement changed outside allocate / removal", boundary=b, time=st["time"]))
                return out
        prev = st
    return out


# ---- C14 ------------------------------------------------------------------------------------

def pred_C14(model, params, run):
    out = []
    # a resumed run (state initialisation off) continues the life of the components: entering it must not
    # send a component back either
    resumed = params.get("initState", True) is False and run.get("pre") is not None
    prev = run["pre"] if resumed else None
    for b, st in run["snaps"]:
        check_now = b in ("enter", "comp1", "removed", "comp2", "updated", "absence", "allocated", "comp3",
                          "costed", "performed", "recorded", "ticked")
        if b == "enter" and params.get("initState", True) is False:
            check_now = False   # the state a run without state initialisation starts from is the caller's business
        for c, cs in enumerate(model["comps"]):
            ts = [st["tstate"][t] for t in cs["tasks"]]
            if check_now:
                if (st["cstate"][c] == FINISHED) != all(x == FINISHED for x in ts):
                    out.append(viol("C14", "component %d FINISHED mismatch" % c, boundary=b, time=st["time"]))
                    return out
                if any(x == WORKING for x in ts) and st["cstate"][c] != WORKING:
                    out.append(viol("C14", "component %d not WORKING although a task is" % c, boundary=b, time=st["time"]))
                    return out
                if any(x in (READY, WORKING) for x in ts) and st["cstate"][c] == NONE:
                    out.append(viol("C14", "component %d NONE although a task is READY/WORKING" % c, boundary=b, time=st["time"]))
                    return out
            if prev is not None and (b != "enter" or resumed):
                if prev["cstate"][c] != NONE and st["cstate"][c] == NONE:
                    out.append(viol("C14", "component %d returned to NONE" % c, boundary=b, time=st["time"]))
                    return out
                if prev["cstate"][c] == FINISHED and st["cstate"][c] != FINISHED:
                    out.append(viol("C14", "component %d left FINISHED" % c, boundary=b, time=st["time"]))
                    return out
        prev = st
    # the same clauses on the LOGS (what a user reads): entry k of a component against entry k of its tasks
    fin = run.get("final")
    if fin is not None and not out:
        for c, cs in enumerate(model["comps"]):
            clog = fin["cState"][c]
            for k in range(len(clog)):
                ts = [fin["tState"][t][k] for t in cs["tasks"] if k < len(fin["tState"][t])]
                if len(ts) != len(cs["tasks"]):
                    break
                if (clog[k] == FINISHED) != all(x == FINISHED for x in ts):
                    out.append(viol("C14", "log: component %d FINISHED mismatch at step %d" % (c, k)))
                    return out
                if any(x == WORKING for x in ts) and clog[k] != WORKING:
                    out.append(viol("C14", "log: component %d is logged %d at step %d although a task of it is logged WORKING" % (c, clog[k], k)))
                    return out
                if any(x in (READY, WORKING) for x in ts) and clog[k] == NONE:
                    out.append(viol("C14", "log: component %d logged NONE at step %d although a task is READY/WORKING" % (c, k)))
                    return out
    return out


PREDS = {"C01": pred_C01, "C02": pred_C02, "C03": pred_C03, "C04": pred_C04, "C05": pred_C05,
         "C06": pred_C06, "C07": pred_C07, "C08": pred_C08, "C10": pred_C10, "C13": pred_C13,
         "C14": pred_C14}


# ---- C12 on simulation traces (FS-only models) ---------------------------------------------------

def pred_C12(model, params, run):
    out = []
    if any(d != FS for tk in model["tasks"] for _, d in tk["inputs"]) or model["nT"] == 0:
        return out
    from purestream import cpm
    for b, st in run["snaps"]:
        if b != "updated":
            continue
        if any(F(x) < 0 for x in st["rem"]):
            out.append(viol("C12", "negative remaining work at a PERT update of an FS-only model", time=st["time"]))
            return out
        est, eft, lst, lft, cpl = cpm(model, st["rem"], st["time"])
        got = ([F(x) for x in st["est"]], [F(x) for x in st["eft"]], [F(x) for x in st["lst"]], [F(x) for x in st["lft"]], F(st["cpl"]))
        if got != (est, eft, lst, lft, cpl):
            which = [nm for nm, a, b2 in zip(("est", "eft", "lst", "lft", "cpl"), got, (est, eft, lst, lft, cpl)) if a != b2]
            out.append(viol("C12", "PERT values differ from the critical-path computation in %s" % ",".join(which), time=st["time"]))
            return out
    return out


# ---- C11: allocation never inverts the priority order (non-facility tasks) -----------------------

def task_key(model, st, rule, t):
    tk = model["tasks"][t]
    if rule == 0:
        return F(st["lst"][t]) - F(st["est"][t]), False
    if rule == 1:
        return F(st["est"][t]), False
    if rule == 2:
        return F(tk["work"]), False
    if rule == 3:
        return F(tk["work"]), True
    if rule == 4:
        return Fr(sum(1 for s in st["tState"][t] if s == READY)), True
    if rule == 5:
        return F(st["rem"][t]), True
    if rule == 6:
        return F(st["rem"][t]), False
    return Fr(0), rule == 7


def pred_C11(model, params, run):
    out = []
    for it in steps(run):
        if "allocated" not in it or "absence" not in it:
            continue
        pre, post = it["absence"], it["allocated"]
        if pre["time"] in params["absence"]:
            continue
        cands = [t for t in range(model["nT"]) if pre["tstate"][t] in (READY, WORKING)]
        keyed = [(task_key(model, pre, params["rule"], t), t) for t in cands]
        desc = keyed[0][0][1] if keyed else False
        order = [t for _, t in sorted(keyed, key=lambda kt: (-kt[0][0] if desc else kt[0][0]))]  # stable
        pos = {t: i for i, t in enumerate(order)}
        for t2 in order:
            tk2 = model["tasks"][t2]
            if tk2["isAuto"]:
                continue
            added = [w for w in post["allocW"][t2] if w not in pre["allocW"][t2]]
            for w in added:
                ws = model["workers"][w]
                for t1 in order[:pos[t2]]:
                    tk1 = model["tasks"][t1]
                    if tk1["isAuto"]:
                        continue
                    if not (has_skill(ws["skills"], tk1["name"]) and t1 in model["teams"][ws["team"]]["targets"]):
                        continue
                    if not tk1["needFac"]:
                        if can_add_worker(model, post, t1, w):
                            out.append(viol("C11", "worker %d given to task %d although higher-priority task %d could still take it" % (w, t2, t1),
                                            time=pre["time"]))
                            return out
                        continue
                    # pair form: facility task of a single-task component that sits at a workplace after the pass
                    c1 = tk1["comp"]
                    if c1 is None or model["comps"][c1]["tasks"] != [t1] or post["placed"][c1] is None:
                        continue
                    q = post["placed"][c1]
                    if q >= model["nWp"]:
                        continue
                    for f in model["wps"][q]["facs"]:
                        fs = model["facs"][f]
                        if post["fstate"][f] != FREE or t1 not in model["wps"][fs["wp"]]["targets"]:
                            continue
                        if can_add_pair(model, post, t1, w, f):
                            out.append(viol("C11", "worker %d given to task %d although higher-priority facility task %d could still take it with the free facility %d" % (w, t2, t1, f),
                                            time=pre["time"]))
                            return out
    return out


PREDS["C12"] = pred_C12
PREDS["C11"] = pred_C11
