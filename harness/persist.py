"""Real-code streams for C16 (save/load) and C20 (sub-project tasks)."""
from env import *  # noqa: F401,F403
import env
import datetime
import json
import math
import os
import random
import tempfile
import warnings
from fractions import Fraction as Fr

import codec
import gen
from lockstep import real_simulate, run_real, lockstep, free_run
from real import build, extract_model, snapshot, Index, Unsupported
from histprops import case_of, same_result, LOGF, finish


def add_subproject_task(project, rng):
    """append a BaseSubProjectTask (automatic, never configured from a file) to the workflow"""
    sub = BaseSubProjectTask(name="SUB", ID="sub0", default_work_amount=rng.choice([0.0, 1.0, 2.0]),
                             unit_timedelta=datetime.timedelta(hours=rng.choice([6, 12, 24, 48])))
    # three DIFFERENT rules, a due time: every saved field of the sub-project task must come back as itself
    sub.worker_priority_rule = rng.choice(list(ResourcePriorityRuleMode))
    sub.facility_priority_rule = rng.choice([r for r in ResourcePriorityRuleMode if r != sub.worker_priority_rule])
    sub.workplace_priority_rule = rng.choice(list(WorkplacePriorityRuleMode))
    sub.due_time = rng.choice([-1, 3, 7])
    tl = project.workflow.task_list
    if tl and rng.random() < 0.7:
        sub.append_input_task(tl[rng.randrange(len(tl))])
    sub.parent_workflow = project.workflow
    tl.append(sub)
    return sub


def check_refs(q):
    """every cross reference of the restored project resolves to an object of the restored project"""
    T = set(map(id, q.workflow.task_list))
    C = set(map(id, q.product.component_list))
    TM = set(map(id, q.organization.team_list))
    WP = set(map(id, q.organization.workplace_list))
    W = set(id(w) for tm in q.organization.team_list for w in tm.worker_list)
    Fc = set(id(f) for p in q.organization.workplace_list for f in p.facility_list)
    for t in q.workflow.task_list:
        for x, d in list(t.input_task_list) + list(t.output_task_list):
            if id(x) not in T:
                return "task %s: dependency not an object of the restored workflow" % t.ID
            if not isinstance(d, BaseTaskDependency):
                return "task %s: dependency kind not restored as an enum" % t.ID
        if t.target_component is not None and id(t.target_component) not in C:
            return "task %s: target_component not restored" % t.ID
        if any(id(x) not in TM for x in t.allocated_team_list) or any(id(x) not in WP for x in t.allocated_workplace_list):
            return "task %s: team/workplace link not restored" % t.ID
        if any(id(x) not in W for x in t.allocated_worker_list) or any(id(x) not in Fc for x in t.allocated_facility_list):
            return "task %s: allocation not restored" % t.ID
    for c in q.product.component_list:
        if any(id(x) not in T for x in c.targeted_task_list) or any(id(x) not in C for x in c.parent_component_list + c.child_component_list):
            return "component %s: links not restored" % c.ID
        if c.placed_workplace is not None and id(c.placed_workplace) not in WP:
            return "component %s: placed_workplace not restored" % c.ID
    for tm in q.organization.team_list:
        if any(id(x) not in T for x in tm.targeted_task_list):
            return "team %s: targeted tasks not restored" % tm.ID
        for w in tm.worker_list:
            if any(id(x) not in T for x in w.assigned_task_list):
                return "worker %s: assigned tasks not restored" % w.ID
    for p in q.organization.workplace_list:
        if any(id(x) not in T for x in p.targeted_task_list) or any(id(x) not in C for x in p.placed_component_list):
            return "workplace %s: links not restored" % p.ID
        if any(id(x) not in WP for x in p.input_workplace_list + p.output_workplace_list):
            return "workplace %s: input/output workplaces not restored" % p.ID
        for f in p.facility_list:
            if any(id(x) not in T for x in f.assigned_task_list):
                return "facility %s: assigned tasks not restored" % f.ID
    return None


def save_load(project, d, tag):
    a = os.path.join(d, tag + "_a.json")
    b = os.path.join(d, tag + "_b.json")
    project.write_simple_json(a)
    q = BaseProject()
    q.read_simple_json(a)
    q.write_simple_json(b)
    return json.load(open(a)), json.load(open(b)), q


def run_c16(ctx):
    from driver import Driver
    n = ctx.n(50, 2000)
    fps = set()
    n_eval = 0
    stages = ["fresh", "initialized", "paused", "finished", "backward", "edited"]
    drv = Driver()
    for i in range(n):
        rng, spec, params = case_of(ctx.seed + 5, i)
        p = dict(params, maxTime=40, initState=True, initLog=True)
        with_sub = rng.random() < 0.3
        for stage in stages:
            n_eval += 1
            case = dict(stream="c16", seed=ctx.seed + 5, index=i, spec=spec, params=p, stage=stage, with_sub=with_sub)
            cell = ctx.matrix.setdefault("save-load:" + stage, dict(executions=0, disagreements=0))
            cell["executions"] += 1
            try:
                project = build(spec, plain=True, fresh_strings=True)
                if with_sub:
                    add_subproject_task(project, random.Random(i))
                if stage == "initialized":
                    project.initialize()
                elif stage == "paused":
                    real_simulate(project, dict(p, maxTime=rng.randint(0, 4)))
                elif stage == "finished":
                    real_simulate(project, p)
                elif stage == "edited":     # finished, then absence steps edited in (incl. step 0) and out
                    real_simulate(project, p)
                    project.insert_absence_time_list([0, rng.randint(1, 4)])
                    if rng.random() < 0.4:
                        project.remove_absence_time_list()
                        project.insert_absence_time_list([rng.randint(0, 2)])
                elif stage == "backward":
                    real_simulate(project, p, backward=True, considering_due_time_of_tail_tasks=rng.random() < 0.5,
                                  reverse_log_information=rng.random() < 0.5)
            except Exception as e:
                ctx.infra.append("c16 case %d stage %s: building/running raised %r" % (i, stage, e))
                continue
            with tempfile.TemporaryDirectory() as d:
                try:
                    ja, jb, q = save_load(project, d, "x")
                except Exception as e:
                    ctx.violations.append(dict(property="C16", what="write/read/write raised %s: %s" % (type(e).__name__, e), case=case))
                    continue
            if ja != jb:
                diff = json_diff(ja, jb)
                ctx.violations.append(dict(property="C16", what="export of the loaded project differs from the file: %s" % diff[:3], case=case))
                continue
            bad = check_refs(q)
            if bad:
                ctx.violations.append(dict(property="C16", what="after load: " + bad, case=case))
                continue
            if not with_sub:
                try:
                    model_tie(ctx, drv, project, q, ja, case)
                except Exception as e:
                    ctx.infra.append("c16 model tie crashed: %r" % e)
            try:
                m0, m1 = extract_model(project), extract_model(q)
                s0, s1 = snapshot(project), snapshot(q)
            except Unsupported as e:
                ctx.violations.append(dict(property="C16", what="after load: dangling reference (%s)" % e, case=case))
                continue
            if m0 != m1:
                keys = [k for k in m0 if m0[k] != m1[k]]
                ctx.violations.append(dict(property="C16", what="simulation-relevant model data not restored: %s" % detail_diff(m0, m1, keys), case=case))
                continue
            dd = codec.diff_states(s0, s1)
            if dd:
                ctx.violations.append(dict(property="C16", what="saved state not restored in %s" % dd[:6], case=case))
                continue
            # re-simulate both
            try:
                real_simulate(project, p)
                real_simulate(q, p)
                d2 = same_result(snapshot(project), snapshot(q))
            except Exception as e:
                d2 = ["raised %r" % e]
            if d2:
                ctx.violations.append(dict(property="C16", what="the loaded project re-simulates differently (%s)" % d2[:6], case=case))
        fps.add(json.dumps([spec, p, with_sub], sort_keys=True))
        if len(ctx.samples) < 2:
            ctx.samples.append(dict(stream="c16", spec=spec, params=p, stages=stages))
    drv.close()
    static_inspection(ctx)
    finish(ctx, n_eval, fps, "random models (plain BaseTask/BaseComponent classes, equal-but-not-identical ID strings, non-default value for every "
                           "simulation-relevant constructor parameter, 30% with a BaseSubProjectTask) saved at six stages (never simulated, "
                           "initialised, paused at a random step, finished forward, finished backward, finished and then edited by insert/remove_absence_time_list incl. step 0): write, read into a new project, write again "
                           "(value-for-value equality of the JSON), reference identity inside the restored project, equality of the extracted model "
                           "and state, re-simulation of original and copy; plus a static comparison of constructor parameters with exported keys")


def detail_diff(m0, m1, keys):
    out = []
    for k in keys:
        if isinstance(m0[k], list):
            for i, (a, b) in enumerate(zip(m0[k], m1[k])):
                if a != b and isinstance(a, dict):
                    out.append("%s[%d].%s" % (k, i, [f for f in a if a[f] != b.get(f)]))
        else:
            out.append(k)
    return out[:4]


def json_diff(a, b, path=""):
    if type(a) != type(b):
        return ["%s: %r vs %r" % (path, a, b)]
    if isinstance(a, dict):
        out = []
        for k in sorted(set(a) | set(b)):
            if k not in a or k not in b:
                out.append("%s.%s missing on one side" % (path, k))
            else:
                out += json_diff(a[k], b[k], path + "." + k)
        return out
    if isinstance(a, list):
        if len(a) != len(b):
            return ["%s: length %d vs %d" % (path, len(a), len(b))]
        out = []
        for i, (x, y) in enumerate(zip(a, b)):
            out += json_diff(x, y, "%s[%d]" % (path, i))
        return out
    return [] if a == b else ["%s: %r vs %r" % (path, a, b)]


# constructor parameters that are deliberately not simulation-relevant for the base classes
NOT_RELEVANT = {
    "BaseTask": {"self", "parent_workflow", "additional_work_amount", "additional_task_flag", "actual_work_amount"},
    "BaseSubProjectTask": {"self", "parent_workflow", "additional_work_amount", "additional_task_flag", "actual_work_amount"},
    "BaseWorker": {"self", "quality_skill_mean_map", "quality_skill_sd_map"},
    "BaseFacility": {"self"},
    "BaseTeam": {"self"},
    "BaseWorkplace": {"self"},
    "BaseComponent": {"self", "parent_product", "error_tolerance", "error"},
}


def static_inspection(ctx):
    """every constructor parameter (minus the documented exceptions) is an exported key"""
    import inspect
    objs = {
        "BaseTask": BaseTask("t"), "BaseSubProjectTask": BaseSubProjectTask(name="s"), "BaseWorker": BaseWorker("w"),
        "BaseFacility": BaseFacility("f"), "BaseTeam": BaseTeam("tm"), "BaseWorkplace": BaseWorkplace("wp"),
        "BaseComponent": BaseComponent("c"),
    }
    for name, o in objs.items():
        params = set(inspect.signature(type(o).__init__).parameters) - NOT_RELEVANT[name]
        try:
            keys = set(o.export_dict_json_data())
        except Exception as e:
            ctx.violations.append(dict(property="C16", what="%s().export_dict_json_data() raised %r" % (name, e), case=dict(stream="c16-static", cls=name)))
            continue
        missing = sorted(params - keys)
        cell = ctx.matrix.setdefault("static:" + name, dict(executions=0, disagreements=0))
        cell["executions"] += 1
        if missing:
            ctx.violations.append(dict(property="C16", what="constructor parameters of %s missing from the saved format: %s" % (name, missing),
                                       case=dict(stream="c16-static", cls=name)))


# ---- C20 -------------------------------------------------------------------------------------------

def run_c20(ctx):
    from driver import Driver
    n = ctx.n(40, 1500)
    fps = set()
    n_eval = 0
    with Driver() as drv, tempfile.TemporaryDirectory() as d:
        for i in range(n):
            rng, spec, params = case_of(ctx.seed + 9, i, profile="core")
            su_h = rng.choice([3, 6, 12, 24, 48, 96])
            pu_h = rng.choice([3, 6, 12, 24])
            A = [rng.choice([0, 1, 2, 4, 30]) for _ in range(rng.randint(0, 3))]   # duplicates and steps beyond the end included
            if rng.random() < 0.5:
                A = sorted(set(A))
            elif A:
                A = A + [rng.choice(A)]        # an absence step listed twice (e.g. a weekend list plus a holiday list)
            subp = build(spec, plain=True)
            subp.unit_timedelta = datetime.timedelta(hours=su_h)
            ok_run = rng.random() < 0.85
            # one result in three comes from a backward simulation (mirrored logs and absence steps), also with
            # automatic tasks performed at absence steps
            bw = rng.random() < 0.4
            sub_params = dict(params, absence=A, maxTime=(60 if ok_run else 1), initState=True, initLog=True)
            sub_params.pop("warmup", None)
            if bw:
                sub_params["autoFlag"] = rng.random() < 0.9
                if rng.random() < 0.9:
                    # an automatic head task (performed last in the backward run) and absence steps around the END
                    # of the run: the step at which the run stops can then be an absence step
                    spec = json.loads(json.dumps(spec))
                    for tk in spec["tasks"]:
                        if not tk.get("inputs"):
                            tk.update(auto=True, auto_rate=1.0)
                    probe = build(spec, plain=True)
                    real_simulate(probe, dict(sub_params, absence=[]), backward=True)
                    T0 = probe.time
                    A = sorted(set([max(T0 - 1, 0)] + [rng.choice([0, T0, T0 + 1, T0 + 2]) for _ in range(rng.randint(0, 2))]))
                    sub_params["absence"] = A
                    subp = build(spec, plain=True)
                    subp.unit_timedelta = datetime.timedelta(hours=su_h)
            real_simulate(subp, sub_params, backward=bw)
            if rng.random() < 0.3:
                # the unit is (re)declared after the run, keeping the start date: another public way to set it
                subp.unit_timedelta = datetime.timedelta(hours=1)
                subp.set_last_datetime(datetime.datetime(2021, 6, 1), unit_timedelta=datetime.timedelta(hours=su_h), set_init_datetime=False)
            path = os.path.join(d, "sub%d.json" % i)
            subp.write_simple_json(path)
            success = subp.status == BaseProjectStatus.FINISHED_SUCCESS
            remove = rng.random() < (0.8 if bw else 0.5)
            n_abs = len([a for a in set(A) if a < subp.time])
            # parent project: a chain  pre -> SUB -> post  (pre optional), one worker for the ordinary tasks
            sub = BaseSubProjectTask(name="SUB", ID="sub", file_path=path)
            before = dict(vars(sub))
            n_eval += 1
            case = dict(stream="c20", seed=ctx.seed + 9, index=i, sub_spec=spec, sub_absence=A, sub_unit_h=su_h, parent_unit_h=pu_h,
                        remove_absence=remove, sub_status=int(subp.status), sub_time=subp.time, sub_backward=bw, sub_auto_flag=sub_params["autoFlag"])
            with warnings.catch_warnings(record=True) as wlist:
                warnings.simplefilter("always")
                try:
                    sub.set_all_attributes_from_json(remove_absence_time_list=remove)
                except Exception as e:
                    ctx.violations.append(dict(property="C20", what="set_all_attributes_from_json raised %r" % e, case=case))
                    continue
            # the setters against the model (SubProject.lean): same inputs, same outputs
            try:
                sub2 = BaseSubProjectTask(name="SUB2", ID="sub2", file_path=path)
                with warnings.catch_warnings(record=True) as wl2:
                    warnings.simplefilter("always")
                    sub2.set_all_attributes_from_json(remove_absence_time_list=remove)
                sub2.set_work_amount_progress_of_unit_step_time(datetime.timedelta(hours=pu_h))
                req = ["FN", "subcfg", str({0: 0, 1: 1, -1: 2}[int(subp.status)]), str(subp.time), str(len(subp.absence_time_list))] + \
                      [str(a) for a in subp.absence_time_list] + [str(len(subp.cost_list)), str(su_h * 3600), "1" if remove else "0", str(pu_h * 3600)]
                drv.ask(["M"] + codec.enc_model(dict(nT=0, nW=0, nF=0, nTeam=0, nWp=0, nC=0, tasks=[], workers=[], facs=[], teams=[], wps=[], comps=[])))
                ans = drv.ask(req)
                warned = any("not simulated" in str(w_.message) for w_ in wl2)
                exp = [codec.rat_str(sub2.default_work_amount), codec.rat_str(sub2.unit_timedelta.total_seconds()),
                       codec.rat_str(Fr(sub2.work_amount_progress_of_unit_step_time)),
                       "1" if getattr(sub2, "read_json_file", False) else "0", "1" if sub2.remove_absence_time_list else "0", "1" if warned else "0"]
                cell = ctx.matrix.setdefault("subproject-setters", dict(executions=0, disagreements=0))
                cell["executions"] += 1
                if ans != " ".join(exp):
                    cell["disagreements"] += 1
                    ctx.footprint_disagreements.append(dict(case=case, phase="subproject-setters", real=exp, model=ans))
            except Exception as e:
                ctx.infra.append("c20 setter correspondence crashed: %r" % e)
            if not success:
                after = dict(vars(sub))
                if after != before:
                    ch = [k for k in after if after[k] != before.get(k)]
                    ctx.violations.append(dict(property="C20", what="configuring from a project that was not simulated successfully changed the task (%s)" % ch, case=case))
                if not any("not simulated" in str(w.message) for w in wlist):
                    ctx.violations.append(dict(property="C20", what="configuring from a project that was not simulated successfully gave no warning", case=case))
                continue
            D = subp.time - (n_abs if remove else 0)
            if D == 0:
                continue   # kept finding F27 (zero-duration sub-project): outside the claimed fragment, replayed separately
            if sub.default_work_amount != D or sub.unit_timedelta != subp.unit_timedelta:
                ctx.violations.append(dict(property="C20", what="work amount %r / unit %r, expected duration %d / %r" % (sub.default_work_amount, sub.unit_timedelta, D, subp.unit_timedelta), case=case))
                continue
            punit = datetime.timedelta(hours=pu_h)
            sub.set_work_amount_progress_of_unit_step_time(punit)
            if Fr(sub.work_amount_progress_of_unit_step_time) != Fr(pu_h, su_h):
                ctx.violations.append(dict(property="C20", what="rate %r, expected parent unit / sub unit = %s" % (sub.work_amount_progress_of_unit_step_time, Fr(pu_h, su_h)), case=case))
                continue
            pre = BaseTask("PRE", ID="pre", default_work_amount=rng.choice([1.0, 2.0]))
            post = BaseTask("POST", ID="post", default_work_amount=1.0)
            has_pre = rng.random() < 0.6
            if has_pre:
                sub.append_input_task(pre)
            post.append_input_task(sub)
            w = BaseWorker("w", ID="w0", workamount_skill_mean_map={"PRE": 1.0, "POST": 1.0})
            tasks = ([pre] if has_pre else []) + [sub, post]
            tm = BaseTeam("tm", ID="team0", worker_list=[w], targeted_task_list=[t_ for t_ in tasks if t_ is not sub])
            parent = BaseProject(init_datetime=datetime.datetime(2020, 1, 1), unit_timedelta=punit, product=BaseProduct([]),
                                 organization=BaseOrganization([tm], []), workflow=BaseWorkflow(tasks))
            pa = sorted(set(rng.choice([0, 1, 2, 3, 5]) for _ in range(rng.randint(0, 2))))
            pparams = dict(rule=0, absence=pa, autoFlag=False, maxTime=400, initState=True, initLog=True)
            via_json = rng.random() < 0.4
            if via_json:
                # the configured parent is saved and loaded before it is simulated; the loaded sub-project task is
                # related to the parent's unit again (as a user would after loading)
                try:
                    ppath = os.path.join(d, "parent%d.json" % i)
                    parent.write_simple_json(ppath)
                    parent = BaseProject()
                    parent.read_simple_json(ppath)
                    byid = {t.ID: t for t in parent.workflow.task_list}
                    sub, post = byid["sub"], byid["post"]
                    pre = byid.get("pre", pre)
                    sub.set_work_amount_progress_of_unit_step_time(punit)
                except Exception as e:
                    ctx.violations.append(dict(property="C20", what="saving / loading the parent with the configured sub-project task raised %r" % e, case=case))
                    continue
                if sub.default_work_amount != D or Fr(sub.work_amount_progress_of_unit_step_time) != Fr(pu_h, su_h):
                    ctx.violations.append(dict(property="C20", what="after saving and loading the parent: work amount %r, rate %r; expected %d and %s" % (
                        sub.default_work_amount, sub.work_amount_progress_of_unit_step_time, D, Fr(pu_h, su_h)), case=case))
                    continue
            ix = Index(parent)
            model = extract_model(parent, ix)
            from lockstep import Recorder
            rec = Recorder(ix)
            prest = snapshot(parent, ix)
            try:
                real_simulate(parent, pparams, rec)
            except Exception as e:
                ctx.violations.append(dict(property="C20", what="parent simulate raised %r" % e, case=case))
                continue
            for dd in lockstep(drv, model, pparams, prest, rec.snaps):
                ctx.footprint_disagreements.append(dict(case=case, phase=dd["phase"], fields=dd["fields"], time=dd["time"]))
            cell = ctx.matrix.setdefault("parent-run", dict(executions=0, disagreements=0))
            cell["executions"] += 1
            log = [int(s) for s in sub.state_record_list]   # BaseTaskState values: WORKING = 2, FINISHED = -1, READY = 1
            WORK, READY, FIN = int(BaseTaskState.WORKING), int(BaseTaskState.READY), int(BaseTaskState.FINISHED)
            need = math.ceil(Fr(D) * Fr(su_h, pu_h)) if D > 0 else 0
            working_steps = [k for k, s in enumerate(log) if s == WORK]
            case2 = dict(case, duration=D, expected_steps=need, log=log, parent_absence=pa)
            if parent.status != BaseProjectStatus.FINISHED_SUCCESS:
                ctx.violations.append(dict(property="C20", what="parent project did not finish", case=case2))
                continue
            if any(sub.allocated_worker_id_record[k] for k in range(len(log))):
                ctx.violations.append(dict(property="C20", what="sub-project task held a worker", case=case2))
            # start: as soon as dependencies allow
            start_expected = 0 if not has_pre else next(k for k, s in enumerate(pre.state_record_list) if int(s) == FIN)
            first_active = next((k for k, s in enumerate(log) if s in (WORK, READY) and k >= start_expected), None)
            if working_steps and first_active is not None:
                first_work = working_steps[0]
                between = [k for k in range(start_expected, first_work) if k not in pa]
                if between:
                    ctx.violations.append(dict(property="C20", what="sub-project task did not start as soon as its dependencies allowed (expected step %d, started %d)" % (start_expected, first_work), case=case2))
            if len(working_steps) != need:
                ctx.violations.append(dict(property="C20", what="sub-project task was WORKING for %d steps, expected ceil(duration*sub_unit/parent_unit) = %d" % (len(working_steps), need), case=case2))
            elif working_steps:
                gaps = [k for k in range(working_steps[0], working_steps[-1] + 1) if k not in working_steps and k not in pa]
                if gaps:
                    ctx.violations.append(dict(property="C20", what="working steps of the sub-project task are not consecutive (gaps %s)" % gaps, case=case2))
            if D >= 1:
                fps.add(json.dumps([spec, A, su_h, pu_h, remove, has_pre, pa], sort_keys=True))
            if len(ctx.samples) < 2:
                ctx.samples.append(case2)
    finish(ctx, n_eval, fps, "a random sub-project is simulated (85% to success, with random absence steps and unit 3/6/12/24 h) and written to JSON; a "
                           "BaseSubProjectTask is configured from the file (absence removal on/off), related to a parent unit of 3/6/12/24 h and placed "
                           "in a parent workflow PRE -> SUB -> POST (PRE optional) with random parent absence steps; the parent run is compared with "
                           "the model phase by phase and the WORKING entries of the sub-project task are counted; non-trivial = duration >= 1")


# ---- tie between the Lean persistence model (Persist.lean) and the real JSON --------------------

def labels_of(ix):
    """number the ID strings of a project: label(ID) = rank among all distinct ID strings"""
    all_ids = sorted(set([t.ID for t in ix.tasks] + [w.ID for w in ix.workers] + [f.ID for f in ix.facs] +
                         [a.ID for a in ix.teams] + [q.ID for q in ix.wps] + [c.ID for c in ix.comps]))
    lab = {x: i for i, x in enumerate(all_ids)}
    ids = dict(task=[lab[t.ID] for t in ix.tasks], worker=[lab[w.ID] for w in ix.workers], fac=[lab[f.ID] for f in ix.facs],
               team=[lab[a.ID] for a in ix.teams], wp=[lab[q.ID] for q in ix.wps], comp=[lab[c.ID] for c in ix.comps])
    return lab, ids


def enc_ids(ids):
    out = []
    for k in ("task", "worker", "fac", "team", "wp", "comp"):
        out += [str(x) for x in ids[k]]
    return out


def saved_from_json(js, ix, lab, model, st):
    """the saved (model, state) read off the JSON file by this harness (not by pDESy): resolved
    references appear as labels, everything else as in extract_model/snapshot of the original"""
    import real as R
    data = js["pDESy"]
    prod = [n for n in data if n["type"] == "BaseProduct"][0]
    wf = [n for n in data if n["type"] == "BaseWorkflow"][0]
    org = [n for n in data if n["type"] == "BaseOrganization"][0]
    proj = [n for n in data if n["type"] == "BaseProject"][0]
    L = lambda x: lab[x]  # noqa: E731
    m = {k: model[k] for k in codec.SIZES}
    w_id, f_id, t_id, c_id, wp_id, tm_id = ix.w_id, ix.f_id, ix.t_id, ix.c_id, ix.wp_id, ix.tm_id

    def idlist(ids, idmap):
        return None if ids is None else [idmap.get(x, R.UNKNOWN + k) for k, x in enumerate(ids)]
    TSV = {int(k): v for k, v in R.TS_MAP.items()}
    RSV = {int(k): v for k, v in R.RS_W_MAP.items()}
    CSV = {int(k): v for k, v in R.CS_MAP.items()}
    RR = {int(k): v for k, v in R.RES_RULE.items()}
    WR = {int(k): v for k, v in R.WP_RULE.items()}
    m["tasks"] = [dict(
        name=ix.names[j["name"]], work=j["default_work_amount"], prog=j["default_progress"],
        autoRate=j["work_amount_progress_of_unit_step_time"], isAuto=bool(j["auto_task"]), needFac=bool(j["need_facility"]),
        inputs=[(L(i_), int(d)) for i_, d in j["input_task_list"]], outputs=[(L(i_), int(d)) for i_, d in j["output_task_list"]],
        wps=[L(x) for x in j["allocated_workplace_list"]], comp=None if j["target_component"] is None else L(j["target_component"]),
        fixW=idlist(j["fixing_allocating_worker_id_list"], w_id), fixF=idlist(j["fixing_allocating_facility_id_list"], f_id),
        wRule=RR[j["worker_priority_rule"]], fRule=RR[j["facility_priority_rule"]], wpRule=WR[j["workplace_priority_rule"]],
        due=j["due_time"]) for j in wf["task_list"]]
    workers = [w for a in org["team_list"] for w in a["worker_list"]]
    facs = [f for q in org["workplace_list"] for f in q["facility_list"]]
    m["workers"] = [dict(team=tm_id[w["team_id"]], skills=[(ix.names[k], v) for k, v in w["workamount_skill_mean_map"].items()],
                         facSkills=[(ix.fnames[k], v) for k, v in w["facility_skill_map"].items()], solo=bool(w["solo_working"]),
                         cost=w["cost_per_time"], absence=list(w["absence_time_list"]),
                         mainWp=None if w["main_workplace_id"] is None else wp_id.get(w["main_workplace_id"], R.UNKNOWN)) for w in workers]
    m["facs"] = [dict(wp=wp_id[f["workplace_id"]], name=ix.fnames[f["name"]],
                      skills=[(ix.names[k], v) for k, v in f["workamount_skill_mean_map"].items()], solo=bool(f["solo_working"]),
                      cost=f["cost_per_time"], absence=list(f["absence_time_list"])) for f in facs]
    m["teams"] = [dict(workers=[w_id[w["ID"]] for w in a["worker_list"]], targets=[L(x) for x in a["targeted_task_list"]]) for a in org["team_list"]]
    m["wps"] = [dict(facs=[f_id[f["ID"]] for f in q["facility_list"]], targets=[L(x) for x in q["targeted_task_list"]], cap=q["max_space_size"],
                     inputs=[L(x) for x in q["input_workplace_list"]], outputs=[L(x) for x in q["output_workplace_list"]]) for q in org["workplace_list"]]
    m["comps"] = [dict(tasks=[L(x) for x in c["targeted_task_list"]], size=c["space_size"], parents=[L(x) for x in c["parent_component_list"]],
                       children=[L(x) for x in c["child_component_list"]]) for c in prod["component_list"]]
    T, C = wf["task_list"], prod["component_list"]
    s = {}
    s["tstate"] = [TSV[j["state"]] for j in T]
    s["rem"] = [j["remaining_work_amount"] for j in T]
    for k in ("est", "eft", "lst", "lft"):
        s[k] = [j[k] for j in T]
    s["cpl"] = wf["critical_path_length"]
    s["allocW"] = [[L(x) for x in j["allocated_worker_list"]] for j in T]
    s["allocF"] = [[L(x) for x in j["allocated_facility_list"]] for j in T]
    s["wstate"] = [RSV[w["state"]] for w in workers]
    s["wasg"] = [[L(x) for x in w["assigned_task_list"]] for w in workers]
    s["fstate"] = [RSV[f["state"]] for f in facs]
    s["fasg"] = [[L(x) for x in f["assigned_task_list"]] for f in facs]
    s["cstate"] = [CSV[c["state"]] for c in C]
    s["placed"] = [None if c["placed_workplace"] is None else L(c["placed_workplace"]) for c in C]
    s["wpComps"] = [[L(x) for x in q["placed_component_list"]] for q in org["workplace_list"]]
    ids = lambda rec, mp: [] if rec is None else [mp.get(x, R.UNKNOWN) for x in rec]  # noqa: E731
    s["tState"] = [[TSV[x] for x in j["state_record_list"]] for j in T]
    s["tRem"] = [list(j["remaining_work_amount_record_list"]) for j in T]
    s["tAllocW"] = [[ids(r, w_id) for r in j["allocated_worker_id_record"]] for j in T]
    s["tAllocF"] = [[ids(r, f_id) for r in j["allocated_facility_id_record"]] for j in T]
    s["wState"] = [[RSV[x] for x in w["state_record_list"]] for w in workers]
    s["wCost"] = [list(w["cost_list"]) for w in workers]
    s["wAsg"] = [[ids(r, t_id) for r in w["assigned_task_id_record"]] for w in workers]
    s["fState"] = [[RSV[x] for x in f["state_record_list"]] for f in facs]
    s["fCost"] = [list(f["cost_list"]) for f in facs]
    s["fAsg"] = [[ids(r, t_id) for r in f["assigned_task_id_record"]] for f in facs]
    s["teamCost"] = [list(a["cost_list"]) for a in org["team_list"]]
    s["wpCost"] = [list(q["cost_list"]) for q in org["workplace_list"]]
    s["wpPlaced"] = [[ids(r, c_id) for r in q["placed_component_id_record"]] for q in org["workplace_list"]]
    s["orgCost"] = list(org["cost_list"])
    s["projCost"] = list(proj["cost_list"])
    s["cState"] = [[CSV[x] for x in c["state_record_list"]] for c in C]
    s["cPlaced"] = [[None if r is None else wp_id.get(r, R.UNKNOWN) for r in c["placed_workplace_id_record"]] for c in C]
    s["time"] = proj["time"]
    s["status"] = {0: 0, 1: 1, -1: 2}[proj["status"]]
    s["mode"] = {0: 0, 1: 1, -1: 2}[proj["simulation_mode"]]
    s["absence"] = list(proj["absence_time_list"])
    s["autoFlag"] = bool(proj["perform_auto_task_while_absence_time"])
    return m, s


def model_tie(ctx, drv, project, q, ja, case):
    """EXP: model export of the original == the real file; IMP: model import of the real file == the project pDESy loaded"""
    ix = Index(project)
    model, st = extract_model(project, ix), snapshot(project, ix)
    lab, ids = labels_of(ix)
    try:
        sm, ss = saved_from_json(ja, ix, lab, model, st)
    except Exception as e:
        ctx.footprint_disagreements.append(dict(case=case, phase="persist:file", detail="the saved file cannot be read back by the harness: %r" % e))
        return
    saved_toks = codec.enc_model(sm) + codec.enc_state(sm, ss)
    drv.ask(["M"] + codec.enc_model(model))
    ans = drv.ask(["EXP"] + enc_ids(ids) + codec.enc_state(model, st))
    cell = ctx.matrix.setdefault("persist:export", dict(executions=0, disagreements=0))
    cell["executions"] += 1
    if ans != " ".join(saved_toks):
        cell["disagreements"] += 1
        ctx.footprint_disagreements.append(dict(case=case, phase="persist:export", detail="model export differs from the real file"))
    ans = drv.ask(["IMP"] + codec.enc_model(sm) + enc_ids(ids) + codec.enc_state(sm, ss))
    ixq = Index(q)
    mq, sq = extract_model(q, ixq), snapshot(q, ixq)
    cell = ctx.matrix.setdefault("persist:import", dict(executions=0, disagreements=0))
    cell["executions"] += 1
    if ans != " ".join(codec.enc_model(mq) + codec.enc_state(mq, sq)):
        cell["disagreements"] += 1
        ctx.footprint_disagreements.append(dict(case=case, phase="persist:import", detail="model import differs from what read_simple_json built"))


def c20_zero_duration_witness():
    """kept finding F27: a sub-project of duration 0 (all its tasks finished by default progress)
    still occupies one working step of the parent run; returns True while that is the case"""
    t = BaseTask("a", default_work_amount=2.0, default_progress=1.0)
    mk = lambda tasks, org=None: BaseProject(init_datetime=datetime.datetime(2020, 1, 1), unit_timedelta=datetime.timedelta(days=1),  # noqa: E731
                                             product=BaseProduct([]), organization=org or BaseOrganization([], []), workflow=BaseWorkflow(tasks))
    sp = mk([t])
    sp.simulate()
    with tempfile.TemporaryDirectory() as d:
        path = os.path.join(d, "s.json")
        sp.write_simple_json(path)
        sub = BaseSubProjectTask(name="SUB", file_path=path)
        sub.set_all_attributes_from_json()
        sub.set_work_amount_progress_of_unit_step_time(datetime.timedelta(days=1))
        post = BaseTask("post", default_work_amount=1.0)
        post.append_input_task(sub)
        w = BaseWorker("w", workamount_skill_mean_map={"post": 1.0})
        tm = BaseTeam("tm", worker_list=[w], targeted_task_list=[post])
        pp = mk([sub, post], BaseOrganization([tm], []))
        pp.simulate()
    return sp.time == 0 and sum(1 for x in sub.state_record_list if x == BaseTaskState.WORKING) != 0
