"""Phase-level correspondence: run the real simulate with the observer installed, and for
every phase execution ask the model for the post-state of the *real* pre-state."""
from env import *  # noqa: F401,F403
import env
import copy
from real import build, extract_model, snapshot, Index, TASK_RULES, Unsupported
import codec

# boundary name -> model phase that leads to it from the previous boundary
PHASE_OF = {
    "finished": "finished", "comp1": "comp", "removed": "removed", "ready": "ready",
    "comp2": "comp", "updated": "pert", "absence": "absence", "allocated": "allocate",
    "working": "working", "comp3": "comp", "costed": "cost", "performed": "perform",
    "recorded": "record", "ticked": "tick",
}


class Crash(Exception):
    pass


class CrashBase(BaseException):
    """an abort that is not an `Exception` (KeyboardInterrupt, SystemExit, a test-runner timeout)"""
    pass


class Recorder:
    def __init__(self, ix, crash_at=None, crash_cls=None):
        self.ix = ix
        self.snaps = []   # (boundary, state dict)
        self.crash_at = crash_at  # index of the observer call at which to raise
        self.crash_cls = crash_cls or Crash
        self.n = 0

    def __call__(self, project, phase):
        self.snaps.append((phase, snapshot(project, self.ix)))
        self.n += 1
        if self.crash_at is not None and self.n - 1 == self.crash_at:
            raise self.crash_cls("injected at observer call %d (%s)" % (self.crash_at, phase))


def real_simulate(project, params, recorder=None, backward=False, **kw):
    """call the real simulate (or backward_simulate) with the observer installed"""
    env.bp._verif_observer = recorder
    if params.get("errorTol") is not None:
        kw = dict(kw, error_tol=params["errorTol"])
    try:
        f = project.backward_simulate if backward else project.simulate
        f(task_priority_rule=TASK_RULES[params["rule"]],
          absence_time_list=list(params["absence"]),
          perform_auto_task_while_absence_time=params["autoFlag"],
          initialize_state_info=params.get("initState", True),
          initialize_log_info=params.get("initLog", True),
          max_time=params["maxTime"], **kw)
    finally:
        env.bp._verif_observer = None


def run_real(spec, params, hashes=None, chashes=None):
    """build + simulate; returns (project, ix, model, pre_state, snaps, exception or None)"""
    project = build(spec, hashes=hashes, chashes=chashes)
    ix = Index(project)
    model = extract_model(project, ix)
    exc = None
    wu = params.get("warmup")
    if wu:   # a used object: an earlier (unobserved) run with other parameters
        saved = None
        if wu.get("edit_absence"):
            # the earlier run sees other per-resource calendars; the spec's ones are put back (as new list
            # objects, the way a user would assign them) before the observed run
            saved = [(r, r.absence_time_list) for r in ix.workers + ix.facs]
            for r, lst in saved:
                r.absence_time_list = [x + 1 for x in lst] if lst else [0, 2]
        try:
            if wu.get("backward"):
                real_simulate(project, wu, None, backward=True, considering_due_time_of_tail_tasks=bool(wu.get("due")))
            else:
                real_simulate(project, wu, None)
        except Exception as e:
            exc = e
        if saved is not None:
            for r, lst in saved:
                r.absence_time_list = list(lst)
    pre = snapshot(project, ix)
    rec = Recorder(ix)
    try:
        if exc is not None:
            raise exc
        real_simulate(project, params, rec)
    except Exception as e:  # the model has no exceptions: this is a disagreement
        exc = e
    return project, ix, model, pre, rec.snaps, exc


def ph_request(model, name, working, params, st_toks):
    toks = ["PH", name]
    codec.e_bool(working, toks)
    codec.e_bool(params["autoFlag"], toks)
    codec.e_nat(params["rule"], toks)
    toks += st_toks
    return toks


def lockstep(drv, model, params, pre, snaps, stats=None):
    """returns list of disagreements: dict(step_time, boundary, phase, fields, pre, real, model)"""
    dis = []
    drv.ask(["M"] + codec.enc_model(model))
    # initialize
    toks = ["INIT"]
    codec.e_bool(params.get("initState", True), toks)
    codec.e_bool(params.get("initLog", True), toks)
    toks += codec.enc_state(model, pre)
    if not snaps:
        return dis
    b0, s0 = snaps[0]
    assert b0 == "enter", b0
    ans = codec.dec_state(model, drv.ask(toks).split())
    ans["mode"] = 1
    ans["absence"] = list(params["absence"])
    ans["autoFlag"] = bool(params["autoFlag"])
    f = codec.diff_states(ans, s0)
    if stats is not None:
        stats["init"] = stats.get("init", 0) + 1
    if f:
        dis.append(dict(time=0, boundary="enter", phase="init", fields=f, pre=pre, real=s0, model=ans))
    prev = s0
    prev_toks = codec.enc_state(model, prev)
    for b, st in snaps[1:]:
        name = PHASE_OF[b]
        working = prev["time"] not in params["absence"]
        raw = drv.ask(ph_request(model, name, working, params, prev_toks))
        st_toks = codec.enc_state(model, st)
        if stats is not None:
            stats[name] = stats.get(name, 0) + 1
        if raw != " ".join(st_toks):
            ans = codec.dec_state(model, raw.split())
            f = codec.diff_states(ans, st)
            assert f, "token streams differ but decoded states agree"
            dis.append(dict(time=prev["time"], boundary=b, phase=name, fields=f, pre=prev, real=st, model=ans))
        prev, prev_toks = st, st_toks
    return dis


def free_run(drv, model, params, pre, final):
    """whole-run comparison: model simulate from the real pre-state vs the real final state"""
    drv.ask(["M"] + codec.enc_model(model))
    toks = ["RUN"] + codec.enc_params(params) + codec.enc_state(model, pre)
    ans = codec.dec_state(model, drv.ask(toks).split())
    return codec.diff_states(ans, final), ans
