"""Token codec shared with lean/PDesy/Model/Ser.lean (same field order, same encodings).

A *model* (static data) and a *state* (live + logs + scalars) are plain dicts of Python
values; `enc_*` turn them into whitespace tokens for the driver, `dec_state` parses the
driver's answer back into the same dict shape so the two can be diffed field by field.
Rationals are exact: floats are converted with Fraction(float) (every float is a rational).
"""
from fractions import Fraction

# ---- primitive encoders ---------------------------------------------------------------

def e_nat(x, out):
    x = int(x)
    if x < 0:
        raise ValueError("negative nat %r" % (x,))
    out.append(str(x))


def e_int(x, out):
    out.append(str(int(x)))


def to_frac(x):
    if isinstance(x, Fraction):
        return x
    if isinstance(x, bool):
        raise ValueError("bool where number expected")
    if isinstance(x, int):
        return Fraction(x)
    if isinstance(x, float):
        if x != x or x in (float("inf"), float("-inf")):
            raise ValueError("non-finite float %r" % (x,))
        return Fraction(x)
    # numpy scalars
    return Fraction(float(x))


_RAT_CACHE = {}


def rat_str(x):
    key = (type(x), x)
    s = _RAT_CACHE.get(key)
    if s is None:
        f = to_frac(x)
        s = str(f.numerator) if f.denominator == 1 else "%d/%d" % (f.numerator, f.denominator)
        if len(_RAT_CACHE) < 200000:
            _RAT_CACHE[key] = s
    return s


def e_rat(x, out):
    out.append(rat_str(x))


def e_bool(x, out):
    out.append("1" if x else "0")


def e_list(enc):
    def f(xs, out):
        out.append(str(len(xs)))
        for x in xs:
            enc(x, out)
    return f


def e_opt(enc):
    def f(x, out):
        if x is None:
            out.append("N")
        else:
            out.append("S")
            enc(x, out)
    return f


def e_pair(ea, eb):
    def f(x, out):
        ea(x[0], out)
        eb(x[1], out)
    return f


# ---- primitive decoders ---------------------------------------------------------------

class Toks:
    def __init__(self, toks):
        self.t = toks
        self.i = 0

    def next(self):
        v = self.t[self.i]
        self.i += 1
        return v


def d_nat(t):
    return int(t.next())


d_int = d_nat


def d_rat(t):
    return Fraction(t.next())


def d_bool(t):
    return t.next() == "1"


def d_list(dec):
    def f(t):
        n = int(t.next())
        return [dec(t) for _ in range(n)]
    return f


def d_opt(dec):
    def f(t):
        tag = t.next()
        if tag == "N":
            return None
        assert tag == "S", tag
        return dec(t)
    return f


def d_pair(da, db):
    def f(t):
        a = da(t)
        b = db(t)
        return (a, b)
    return f


NAT = (e_nat, d_nat)
INT = (e_int, d_int)
RAT = (e_rat, d_rat)
BOOL = (e_bool, d_bool)


def LIST(c):
    return (e_list(c[0]), d_list(c[1]))


def OPT(c):
    return (e_opt(c[0]), d_opt(c[1]))


def PAIR(a, b):
    return (e_pair(a[0], b[0]), d_pair(a[1], b[1]))


# ---- schemas (order = Ser.lean) ---------------------------------------------------------

TASK_S = [
    ("name", NAT), ("work", RAT), ("prog", RAT), ("autoRate", RAT), ("isAuto", BOOL),
    ("needFac", BOOL), ("inputs", LIST(PAIR(NAT, NAT))), ("outputs", LIST(PAIR(NAT, NAT))),
    ("wps", LIST(NAT)), ("comp", OPT(NAT)), ("fixW", OPT(LIST(NAT))), ("fixF", OPT(LIST(NAT))),
    ("wRule", NAT), ("fRule", NAT), ("wpRule", NAT), ("due", INT),
]
WORKER_S = [
    ("team", NAT), ("skills", LIST(PAIR(NAT, RAT))), ("facSkills", LIST(PAIR(NAT, RAT))),
    ("solo", BOOL), ("cost", RAT), ("absence", LIST(NAT)), ("mainWp", OPT(NAT)),
]
FAC_S = [
    ("wp", NAT), ("name", NAT), ("skills", LIST(PAIR(NAT, RAT))), ("solo", BOOL), ("cost", RAT),
    ("absence", LIST(NAT)),
]
TEAM_S = [("workers", LIST(NAT)), ("targets", LIST(NAT))]
WP_S = [("facs", LIST(NAT)), ("targets", LIST(NAT)), ("cap", RAT), ("inputs", LIST(NAT)),
        ("outputs", LIST(NAT))]
COMP_S = [("tasks", LIST(NAT)), ("size", RAT), ("parents", LIST(NAT)), ("children", LIST(NAT))]

MODEL_GROUPS = [("tasks", "nT", TASK_S), ("workers", "nW", WORKER_S), ("facs", "nF", FAC_S),
                ("teams", "nTeam", TEAM_S), ("wps", "nWp", WP_S), ("comps", "nC", COMP_S)]
SIZES = ["nT", "nW", "nF", "nTeam", "nWp", "nC"]

# (field, size key or None for scalar, codec)
LIVE = [
    ("tstate", "nT", NAT), ("rem", "nT", RAT), ("est", "nT", RAT), ("eft", "nT", RAT),
    ("lst", "nT", RAT), ("lft", "nT", RAT), ("cpl", None, RAT), ("allocW", "nT", LIST(NAT)),
    ("allocF", "nT", LIST(NAT)), ("wstate", "nW", NAT), ("wasg", "nW", LIST(NAT)),
    ("fstate", "nF", NAT), ("fasg", "nF", LIST(NAT)), ("cstate", "nC", NAT),
    ("placed", "nC", OPT(NAT)), ("wpComps", "nWp", LIST(NAT)),
]
LOGS = [
    ("tState", "nT", LIST(NAT)), ("tRem", "nT", LIST(RAT)), ("tAllocW", "nT", LIST(LIST(NAT))),
    ("tAllocF", "nT", LIST(LIST(NAT))), ("wState", "nW", LIST(NAT)), ("wCost", "nW", LIST(RAT)),
    ("wAsg", "nW", LIST(LIST(NAT))), ("fState", "nF", LIST(NAT)), ("fCost", "nF", LIST(RAT)),
    ("fAsg", "nF", LIST(LIST(NAT))), ("teamCost", "nTeam", LIST(RAT)), ("wpCost", "nWp", LIST(RAT)),
    ("wpPlaced", "nWp", LIST(LIST(NAT))), ("orgCost", None, LIST(RAT)), ("projCost", None, LIST(RAT)),
    ("cState", "nC", LIST(NAT)), ("cPlaced", "nC", LIST(OPT(NAT))),
]
SCALARS = [("time", None, NAT), ("status", None, NAT), ("mode", None, NAT),
           ("absence", None, LIST(NAT)), ("autoFlag", None, BOOL)]
STATE = LIVE + LOGS + SCALARS

LIVE_FIELDS = [f for f, _, _ in LIVE]
LOG_FIELDS = [f for f, _, _ in LOGS]


def enc_model(model):
    out = []
    for k in SIZES:
        e_nat(model[k], out)
    for grp, nk, schema in MODEL_GROUPS:
        assert len(model[grp]) == model[nk], (grp, len(model[grp]), model[nk])
        for obj in model[grp]:
            for f, c in schema:
                c[0](obj[f], out)
    return out


def enc_state(model, st):
    out = []
    for f, nk, c in STATE:
        if nk is None:
            c[0](st[f], out)
        else:
            assert len(st[f]) == model[nk], (f, len(st[f]), model[nk])
            for v in st[f]:
                c[0](v, out)
    return out


def dec_state(model, toks, allow_trailing=False):
    t = Toks(toks)
    st = {}
    for f, nk, c in STATE:
        if nk is None:
            st[f] = c[1](t)
        else:
            st[f] = [c[1](t) for _ in range(model[nk])]
    if not allow_trailing:
        assert t.i == len(toks), "trailing tokens in state"
    return st


def norm(v):
    """canonical comparable form: numbers as Fractions, tuples as lists"""
    if isinstance(v, bool) or v is None or isinstance(v, str):
        return v
    if isinstance(v, (int, float, Fraction)):
        return to_frac(v)
    if isinstance(v, (list, tuple)):
        return [norm(x) for x in v]
    return to_frac(v)


def diff_states(a, b, fields=None):
    """names of the fields (of STATE) in which two state dicts differ"""
    out = []
    for f, _, _ in STATE:
        if fields is not None and f not in fields:
            continue
        if norm(a[f]) != norm(b[f]):
            out.append(f)
    return out


def enc_params(p):
    out = []
    e_nat(p["rule"], out)
    e_list(e_nat)(p["absence"], out)
    e_bool(p["autoFlag"], out)
    e_bool(p.get("initState", True), out)
    e_bool(p.get("initLog", True), out)
    e_nat(p["maxTime"], out)
    return out
