"""Source fingerprint of the pDESy functions the Lean model mirrors.  A changed function is not a
violation; it makes the check spend a larger budget on the correspondence (the sampled tie between
model and code is then exercised harder exactly when the code under it has moved)."""
import hashlib
import inspect
import json
import os

VERIF = os.path.dirname(os.path.dirname(os.path.abspath(__file__)))
PATH = os.path.join(VERIF, "harness", "source_fingerprint.json")

MODULES = ["base_project", "base_workflow", "base_task", "base_worker", "base_facility", "base_team", "base_workplace",
           "base_organization", "base_component", "base_product", "base_priority_rule", "base_subproject_task"]
SKIP = ("plot", "draw", "networkx", "plotly_network", "print_", "create_gantt", "create_simple_gantt", "create_cost_history",
        "create_data_for_cost", "append_project_log", "__str__", "get_node_and_edge")


def current():
    import importlib
    out = {}
    for mn in MODULES:
        mod = importlib.import_module("pDESy.model." + mn)
        items = []
        for name, obj in vars(mod).items():
            if inspect.isclass(obj) and obj.__module__ == mod.__name__:
                for fn, f in vars(obj).items():
                    if inspect.isfunction(f):
                        items.append(("%s.%s.%s" % (mn, name, fn), f))
            elif inspect.isfunction(obj) and obj.__module__ == mod.__name__:
                items.append(("%s.%s" % (mn, name), obj))
        for qn, f in items:
            if any(s in qn for s in SKIP):
                continue
            try:
                src = inspect.getsource(f)
            except (OSError, TypeError):
                continue
            norm = "\n".join(l.rstrip() for l in src.splitlines() if l.strip() and not l.strip().startswith("#"))
            out[qn] = hashlib.sha1(norm.encode()).hexdigest()[:12]
    return out


def changed():
    """qualified names whose source differs from the recorded fingerprint (or are new/removed)"""
    cur = current()
    if not os.path.exists(PATH):
        return sorted(cur)
    old = json.load(open(PATH))
    return sorted(k for k in set(cur) | set(old) if cur.get(k) != old.get(k))


if __name__ == "__main__":
    import sys
    sys.path.insert(0, os.path.dirname(os.path.abspath(__file__)))
    import env  # noqa: F401
    json.dump(current(), open(PATH, "w"), indent=0, sort_keys=True)
    print("recorded", len(current()), "functions")
